(* Proofs/HashMemoInv.v — C13, the hash memo along a build.

   [HashOk] (CmpLaws) constrains only the entries whose "built" flag equals the
   current claim state of their path; an entry keyed "not built" for a path
   that has since been claimed is dead (it is never served again: file_hash
   recomputes and shadows it).  For that reading to be an invariant one more
   fact is needed, [NoStaleTrue]: an entry keyed "built" exists only for a
   path that is claimed.  [HInv] = both.

   This file shows that every routine of the library (Model/SimpleOps.v,
   Model/Builder.v) preserves [HInv]; that the only step of a build that can
   break it is user code rewriting its target while a "built" entry for the
   target exists ([write_keeps_HInv], [write_breaks_HashOk]: the exact side
   condition); and — sections 6 to 8, which rely on the repair of D15 (the
   replay tests "the path is claimed" before it compares the file) — that no
   routine makes a memo entry for a path that is claimed and in progress, except
   build_file itself for its own target at the moment it finishes it:
   [m_query_strict], [is_op_cached_sg], [are_subs_cached_strict] (relation
   [hx true]), and [run_P] (relation [prel]: user code and everything it calls
   leaves the memo's view of a path claimed further up the call stack unchanged).
   HashMemoRun.v combines these into the theorem about [run], for every
   program; HashMemoEx.v documents the defect and has the regression examples.
   (Sections 5's [xrel] / [run_X] are the weaker facts that were available
   before the repair; they are kept, nothing depends on the old order.) *)
From Coq Require Import List String Ascii NArith ZArith Bool Arith Lia.
From FB.Base Require Import PyVal Fs.
From FB.Gen Require Import JsonUtilGen.
From FB.Spec Require Import Prog.
From FB.Model Require Import Types Monad CreatedFiles BuildDirs SimpleOps Builder Build Run.
From FB.Proofs Require Import FsLemmas JsonLaws CmpLaws ReplayLaws BuildFileLaws.
Import ListNotations.
Local Open Scope list_scope.

(* ================================================================== *)
(** * 0. The memo as a list                                             *)
(* ================================================================== *)

Lemma hash_get_app : forall a b p,
  hash_get (a ++ b) p = match hash_get a p with Some e => Some e | None => hash_get b p end.
Proof.
  induction a as [|[q e] a IH]; intros b p; [reflexivity|].
  cbn [app hash_get]. destruct (path_eqb q p); [reflexivity | apply IH].
Qed.

Lemma hash_get_In : forall a p e, hash_get a p = Some e -> In (p, e) a.
Proof.
  induction a as [|[q e'] a IH]; intros p e H; cbn [hash_get] in H; [discriminate|].
  destruct (path_eqb q p) eqn:E.
  - apply path_eqb_eq in E. inversion H; subst. left; reflexivity.
  - right. apply IH, H.
Qed.

(* ================================================================== *)
(** * 1. The invariant                                                  *)
(* ================================================================== *)

Definition pending (c : cache) (p : path) : Prop := files_get (c_files c) p = Some None.

(* an entry keyed "built" is for a claimed path *)
Definition NoStaleTrue (w : world) : Prop :=
  forall p h, hash_get (w_hash w) p = Some (h, true) -> cache_has_file (w_new w) p = true.

Definition HInv (w : world) : Prop := HashOk w /\ NoStaleTrue w.

(* no entry for p keyed "built" is visible *)
Definition NoT (p : path) (w : world) : Prop := forall h, hash_get (w_hash w) p <> Some (h, true).

Lemma HInv_free_NoT : forall w p, HInv w -> cache_has_file (w_new w) p = false -> NoT p w.
Proof. intros w p [_ H] Hf h E. apply H in E. congruence. Qed.

Lemma pending_has_file : forall c p, pending c p -> cache_has_file c p = true.
Proof. intros c p H. unfold cache_has_file, pending in *. rewrite H. reflexivity. Qed.

(* ================================================================== *)
(** * 2. Three footprints of read-only routines                         *)
(* ================================================================== *)

(* (a) tree, new cache and memo untouched *)
Definition hsame (w w' : world) : Prop :=
  w_old w' = w_old w /\ w_fs w' = w_fs w /\ w_new w' = w_new w /\ w_hash w' = w_hash w.

Lemma hsame_refl : forall w, hsame w w.
Proof. intro w. repeat split. Qed.
Lemma hsame_trans : forall a b c, hsame a b -> hsame b c -> hsame a c.
Proof. unfold hsame. intros a b c (A0 & A1 & A2 & A3) (B0 & B1 & B2 & B3). repeat split; congruence. Qed.
Definition HSPO : PO := {| rel := hsame; po_refl := hsame_refl; po_trans := hsame_trans |}.

(* (b) tree and new cache untouched; the memo gained entries, each of them the
   hash of the file that is there, keyed with the current claim state of its
   path; [strict]: and none for a path that is claimed and in progress *)
Definition good_entry (strict : bool) (w : world) (e : path * (pyval * bool)) : Prop :=
  snd (snd e) = cache_has_file (w_new w) (fst e) /\
  (exists f, lookup (w_fs w) (fst e) = Some (NFile f) /\ fst (snd e) = hash_of (f_bytes f)) /\
  (strict = true -> ~ pending (w_new w) (fst e)).

Definition hx (strict : bool) (w w' : world) : Prop :=
  w_old w' = w_old w /\ w_fs w' = w_fs w /\ w_new w' = w_new w /\
  exists nw, w_hash w' = nw ++ w_hash w /\ Forall (good_entry strict w) nw.

Lemma hx_refl : forall s w, hx s w w.
Proof. intros s w. split; [reflexivity|]. split; [reflexivity|]. split; [reflexivity|]. exists []. split; [reflexivity | constructor]. Qed.

Lemma good_entry_eq : forall s w w' e, w_fs w' = w_fs w -> w_new w' = w_new w ->
  good_entry s w' e -> good_entry s w e.
Proof. intros s w w' e Hf Hn H. unfold good_entry in *. rewrite Hf, Hn in H. exact H. Qed.

Lemma hx_trans : forall s a b c, hx s a b -> hx s b c -> hx s a c.
Proof.
  intros s a b c (A0 & A1 & A2 & n1 & A3 & A4) (B0 & B1 & B2 & n2 & B3 & B4).
  split; [congruence|]. split; [congruence|]. split; [congruence|]. exists (n2 ++ n1). split.
  - rewrite B3, A3, app_assoc. reflexivity.
  - apply Forall_app. split; [|exact A4].
    eapply Forall_impl; [|exact B4]. intros e He. eapply good_entry_eq; eauto.
Qed.

Definition HXPO (s : bool) : PO := {| rel := hx s; po_refl := hx_refl s; po_trans := hx_trans s |}.

Lemma hsame_hx : forall s w w', HSPO w w' -> HXPO s w w'.
Proof.
  cbn. intros s w w' (A0 & A1 & A2 & A3). split; [exact A0|]. split; [exact A1|]. split; [exact A2|].
  exists []. split; [exact A3 | constructor].
Qed.

Lemma hx_strict_weaken : forall w w', HXPO true w w' -> HXPO false w w'.
Proof.
  cbn. intros w w' (A0 & A1 & A2 & nw & A3 & A4). split; [exact A0|]. split; [exact A1|]. split; [exact A2|].
  exists nw. split; [exact A3|]. eapply Forall_impl; [|exact A4].
  intros e (E1 & E2 & _). split; [exact E1|]. split; [exact E2|]. discriminate.
Qed.

(* what [hx] gives *)
Lemma hx_HInv : forall s w w', hx s w w' -> HInv w -> HInv w'.
Proof.
  intros s w w' (A0 & A1 & A2 & nw & A3 & A4) [Hok Hns]. rewrite Forall_forall in A4. split.
  - intros p h b f Hg Hb Hl. rewrite A3, hash_get_app in Hg. rewrite A2 in Hb. rewrite A1 in Hl.
    destruct (hash_get nw p) as [e|] eqn:E.
    + inversion Hg; subst e. apply hash_get_In in E. destruct (A4 _ E) as (_ & (g & G1 & G2) & _).
      cbn [fst snd] in G1, G2. congruence.
    + eapply Hok; eauto.
  - intros p h Hg. rewrite A3, hash_get_app in Hg. rewrite A2.
    destruct (hash_get nw p) as [e|] eqn:E.
    + inversion Hg; subst e. apply hash_get_In in E. destruct (A4 _ E) as (G & _).
      cbn [fst snd] in G. congruence.
    + eapply Hns; eauto.
Qed.

(* no entry appears for a path that holds no regular file *)
Lemma hx_nofile : forall s w w' x, hx s w w' -> isfile (w_fs w) x = false ->
  hash_get (w_hash w') x = hash_get (w_hash w) x.
Proof.
  intros s w w' x (A0 & A1 & A2 & nw & A3 & A4) Hx. rewrite A3, hash_get_app.
  destruct (hash_get nw x) as [e|] eqn:E; [|reflexivity].
  apply hash_get_In in E. rewrite Forall_forall in A4. destruct (A4 _ E) as (_ & (g & G1 & _) & _).
  cbn [fst] in G1. unfold isfile in Hx. rewrite G1 in Hx. discriminate Hx.
Qed.

(* a strict step adds no entry for a path in progress *)
Lemma hx_strict_pending : forall w w' x, hx true w w' -> pending (w_new w) x ->
  hash_get (w_hash w') x = hash_get (w_hash w) x.
Proof.
  intros w w' x (A0 & A1 & A2 & nw & A3 & A4) Hx. rewrite A3, hash_get_app.
  destruct (hash_get nw x) as [e|] eqn:E; [|reflexivity].
  apply hash_get_In in E. rewrite Forall_forall in A4. destruct (A4 _ E) as (_ & _ & G).
  exfalso. exact (G eq_refl Hx).
Qed.

#[local] Hint Extern 8 (pres (HXPO _) _) => apply (pres_weaken HSPO (HXPO _) _ _ (hsame_hx _)) : pres.
#[local] Hint Extern 9 (pres (HXPO false) _) => apply (pres_weaken (HXPO true) (HXPO false) _ _ hx_strict_weaken) : pres.

Ltac hs_solve :=
  lazymatch goal with |- rel HSPO ?a ?b => change (hsame a b) | _ => idtac end;
  first [ apply hsame_refl
        | unfold hsame; cbn; repeat split; reflexivity ].
Ltac raw_hs f := intros w w' r H; unfold f in H; cbv zeta in H; repeat dm H; inversion H; subst; hs_solve.

(* ---- (a): everything of the virtual view except the comparison results ---- *)
Lemma m_handle_dir_exists_hs : forall d, pres HSPO (m_handle_dir_exists d).
Proof. intro d. unfold m_handle_dir_exists. apply pres_modify. intro w. cbn. hs_solve. Qed.
Lemma m_is_removed_hs : forall d, pres HSPO (m_is_removed d).
Proof. intro d. cbn. raw_hs m_is_removed. Qed.
Lemma is_file_no_read_hs : forall p cf, pres HSPO (is_file_no_read p cf).
Proof. intros p cf. cbn. raw_hs is_file_no_read. Qed.
Lemma is_cache_file_hs : forall p, pres HSPO (is_cache_file p).
Proof. intros p. cbn. raw_hs is_cache_file. Qed.
Lemma file_metadata_hs : forall p, pres HSPO (file_metadata p).
Proof. intros p. cbn. raw_hs file_metadata. Qed.
Lemma list_dir_superset_hs : forall d cf, pres HSPO (list_dir_superset d cf).
Proof. intros d cf. cbn. raw_hs list_dir_superset. Qed.
Lemma m_bd_started_hs : forall p created, pres HSPO (m_bd_started p created).
Proof. intros p created. raw_hs m_bd_started. Qed.
Lemma m_bd_error_hs : forall p, pres HSPO (m_bd_error p).
Proof. intros p. raw_hs m_bd_error. Qed.
#[local] Hint Resolve m_handle_dir_exists_hs m_is_removed_hs is_file_no_read_hs is_cache_file_hs
  file_metadata_hs list_dir_superset_hs m_bd_started_hs m_bd_error_hs : pres.

Lemma m_is_file_hs : forall p cf, pres HSPO (m_is_file p cf).
Proof. intros p cf. unfold m_is_file. pres_auto. Qed.
Lemma m_is_dir_hs : forall p cf, pres HSPO (m_is_dir p cf).
Proof. intros p cf. unfold m_is_dir. pres_auto. Qed.
#[local] Hint Resolve m_is_file_hs m_is_dir_hs : pres.
Lemma m_exists_hs : forall p cf, pres HSPO (m_exists p cf).
Proof. intros p cf. unfold m_exists. pres_auto. Qed.
#[local] Hint Resolve m_exists_hs : pres.
Lemma m_get_size_hs : forall p cf, pres HSPO (m_get_size p cf).
Proof. intros p cf. unfold m_get_size. pres_auto. Qed.
Lemma m_assert_is_dir_hs : forall p cf, pres HSPO (m_assert_is_dir p cf).
Proof. intros p cf. unfold m_assert_is_dir. pres_auto. Qed.
#[local] Hint Resolve m_get_size_hs m_assert_is_dir_hs : pres.
Lemma m_list_dir_hs : forall d cf, pres HSPO (m_list_dir d cf).
Proof. intros d cf. unfold m_list_dir. pres_auto. apply filterM_pres. intro; pres_auto. Qed.
Lemma classify_hs : forall d cf l, pres HSPO (classify d cf l).
Proof. intros d cf l. induction l as [|n l IH]; cbn [classify]; pres_auto. Qed.
#[local] Hint Resolve m_list_dir_hs classify_hs : pres.
Lemma append_walk_hs : forall fuel d td cf, pres HSPO (append_walk fuel d td cf).
Proof.
  induction fuel as [|fuel IH]; intros d td cf; cbn [append_walk].
  - apply pres_raise.
  - pres_auto.
    generalize (fst a0). intro ds. induction ds as [|n ds IHds].
    + apply pres_ret.
    + pres_auto.
Qed.
#[local] Hint Resolve append_walk_hs : pres.
Lemma m_walk_hs : forall d td cf, pres HSPO (m_walk d td cf).
Proof. intros d td cf. unfold m_walk. pres_auto. Qed.
Lemma version_equal_hs : forall f, pres HSPO (version_equal f).
Proof. intros f. unfold version_equal. pres_auto. Qed.
Lemma dirs_to_make_hs : forall p cf, pres HSPO (dirs_to_make p cf).
Proof. induction p as [|n d IH]; intro cf; cbn [dirs_to_make]; pres_auto. Qed.
Lemma new_assert_no_file_hs : forall p, pres HSPO (new_assert_no_file p).
Proof. intro p. unfold new_assert_no_file. pres_auto. Qed.
Lemma new_assert_no_subbuild_hs : forall k, pres HSPO (new_assert_no_subbuild k).
Proof. intro k. unfold new_assert_no_subbuild. pres_auto. Qed.
#[local] Hint Resolve m_walk_hs version_equal_hs dirs_to_make_hs new_assert_no_file_hs new_assert_no_subbuild_hs : pres.

(* ---- (b): the comparison results ---- *)
Lemma file_hash_hx : forall s p w w' r, file_hash p w = (w', r) ->
  (s = true -> ~ pending (w_new w) p) -> hx s w w'.
Proof.
  intros s p w w' r H Hs. unfold file_hash in H. cbv zeta in H.
  assert (Fresh : forall w1 r1,
    match lookup (w_fs w) p with
    | Some (NFile f) => (set_hash ((p, (hash_of (f_bytes f), cache_has_file (w_new w) p)) :: w_hash w) w, inl (hash_of (f_bytes f)))
    | Some NDir => (w, inr (XOS XIsADirectory))
    | None => (w, inr (XOS (err_of (stat_err (w_fs w) p))))
    end = (w1, r1) -> hx s w w1).
  { intros w1 r1 H1. destruct (lookup (w_fs w) p) as [[f|]|] eqn:E; inversion H1; subst; try apply hx_refl.
    split; [reflexivity|]. split; [reflexivity|]. split; [reflexivity|].
    exists [(p, (hash_of (f_bytes f), cache_has_file (w_new w) p))]. split; [reflexivity|].
    constructor; [|constructor]. split; [reflexivity|]. split; [|exact Hs].
    exists f. split; [exact E | reflexivity]. }
  destruct (hash_get (w_hash w) p) as [[h b]|].
  - destruct (Bool.eqb b (cache_has_file (w_new w) p)).
    + repeat dm H; inversion H; subst; apply hx_refl.
    + eapply Fresh; exact H.
  - eapply Fresh; exact H.
Qed.

Lemma file_hash_hxf : forall p, pres (HXPO false) (file_hash p).
Proof. intros p w w' r H. eapply file_hash_hx; [exact H | discriminate]. Qed.
#[local] Hint Resolve file_hash_hxf : pres.

Lemma file_comparison_result_hxf : forall p c, pres (HXPO false) (file_comparison_result p c).
Proof. intros p c. unfold file_comparison_result. pres_auto. Qed.
#[local] Hint Resolve file_comparison_result_hxf : pres.

Lemma file_comparison_result_hx : forall s p c w w' r, file_comparison_result p c w = (w', r) ->
  (s = true -> ~ pending (w_new w) p) -> hx s w w'.
Proof.
  intros s p c w w' r H Hs. destruct c; cbn [file_comparison_result] in H.
  - apply (hsame_hx s). exact (file_metadata_hs p w w' r H).
  - eapply file_hash_hx; eauto.
Qed.

Lemma m_read_hxf : forall p c cf, pres (HXPO false) (m_read p c cf).
Proof. intros p c cf. unfold m_read. pres_auto. Qed.
#[local] Hint Resolve m_read_hxf : pres.

Lemma exec_query_hxf : forall q cf, pres (HXPO false) (exec_query q cf).
Proof. intros q cf. destruct q; cbn [exec_query]; pres_auto. Qed.
#[local] Hint Resolve exec_query_hxf : pres.

Lemma noneable_cmp_hxf : forall p c, pres (HXPO false) (noneable_cmp p c).
Proof. intros p c. unfold noneable_cmp. pres_auto. Qed.
#[local] Hint Resolve noneable_cmp_hxf : pres.

Lemma is_build_file_cached_hxf : forall p c r, pres (HXPO false) (is_build_file_cached p c r).
Proof. intros p c r. unfold is_build_file_cached. pres_auto. Qed.
Lemma is_simple_operation_cached_hxf : forall q r ex cf, pres (HXPO false) (is_simple_operation_cached q r ex cf).
Proof. intros q r ex cf. unfold is_simple_operation_cached. pres_auto. Qed.
#[local] Hint Resolve is_build_file_cached_hxf is_simple_operation_cached_hxf : pres.

Lemma is_op_cached_hxf : forall o cf, pres (HXPO false) (is_op_cached o cf).
Proof.
  induction o as [q r e | p c f a k subs r cr ra sf IH | f a k subs r ra sf IH] using op_ind';
    intro cf; cbn [is_op_cached].
  - pres_auto.
  - pres_auto.
    all: try (eapply pres_ext; [intro; apply subs_go_eq | apply are_subs_cached_pres_F; exact IH]).
  - pres_auto.
    all: try (eapply pres_ext; [intro; apply subs_go_eq | apply are_subs_cached_pres_F; exact IH]).
Qed.
#[local] Hint Resolve is_op_cached_hxf : pres.

Lemma are_subs_cached_hxf : forall subs cf, pres (HXPO false) (are_subs_cached subs cf).
Proof.
  intros subs cf. apply are_subs_cached_pres_F. apply Forall_forall. intros; apply is_op_cached_hxf.
Qed.
#[local] Hint Resolve are_subs_cached_hxf : pres.

Lemma build_file_cache_lookup_hxf : forall p f a k, pres (HXPO false) (build_file_cache_lookup p f a k).
Proof. intros p f a k. unfold build_file_cache_lookup. pres_auto. Qed.
Lemma subbuild_cache_lookup_hxf : forall key f, pres (HXPO false) (subbuild_cache_lookup key f).
Proof. intros key f. unfold subbuild_cache_lookup. pres_auto. Qed.
#[local] Hint Resolve build_file_cache_lookup_hxf subbuild_cache_lookup_hxf : pres.

(* ---- a query of user code never memoises the hash of a path in progress:
        read() answers "no such file" for it before it looks at the disk ---- *)
Lemma is_file_no_read_pending : forall p w w' r, is_file_no_read p None w = (w', r) ->
  w' = w /\ (pending (w_new w) p -> r = inl (Some false)).
Proof.
  intros p w w' r H. unfold is_file_no_read in H. cbn [cf_has_file cf_has_dir] in H.
  unfold pending, cache_has_file, cache_get_file in *.
  destruct (path_eqb p (w_cachefile w)).
  { inversion H; subst. split; [reflexivity|]. reflexivity. }
  destruct (files_get (c_files (w_new w)) p) as [[o|]|].
  - inversion H; subst. split; [reflexivity|]. discriminate.
  - inversion H; subst. split; [reflexivity|]. reflexivity.
  - split; [destruct (cache_created_file (w_old w) p); inversion H; reflexivity | discriminate].
Qed.

Lemma m_read_strict : forall p c, pres (HXPO true) (m_read p c None).
Proof.
  intros p c w w' r H. unfold m_read in H.
  apply bind_inv in H. destruct H as [(w1 & nr & E1 & H) | (e & E1 & _)].
  2:{ apply (hsame_hx true). exact (is_file_no_read_hs p None w w' _ E1). }
  apply is_file_no_read_pending in E1. destruct E1 as [-> Hp].
  apply bind_inv in H. destruct H as [(w2 & u & E2 & H) | (e & E2 & _)].
  - assert (Np : ~ pending (w_new w) p).
    { intro X. specialize (Hp X). inversion Hp; subst nr.
      apply bind_inv in E2. destruct E2 as [(w3 & d & E3 & E2) | (e & _ & E2)]; [|discriminate E2].
      destruct d; discriminate E2. }
    assert (S2 : hsame w w2).
    { refine ((_ : pres HSPO _) w w2 _ E2). pres_auto. }
    apply (hx_trans true w w2 w'); [apply (hsame_hx true); exact S2|].
    destruct S2 as (O2 & F2 & N2 & H2).
    apply bind_inv in H. destruct H as [(w3 & res & E3 & H) | (e & E3 & _)].
    + assert (X3 : hx true w2 w3).
      { apply catch_inv in E3. destruct E3 as [(a & E3 & _) | (w4 & e & E3 & E4)].
        - eapply file_comparison_result_hx; [exact E3|]. intros _. rewrite N2. exact Np.
        - apply (hx_trans true w2 w4 w3).
          + eapply file_comparison_result_hx; [exact E3|]. intros _. rewrite N2. exact Np.
          + apply (hsame_hx true). refine ((_ : pres HSPO _) w4 w3 _ E4). pres_auto. }
      apply (hx_trans true w2 w3 w'); [exact X3|].
      apply (hsame_hx true). refine ((_ : pres HSPO _) w3 w' _ H). pres_auto.
    + apply catch_inv in E3. destruct E3 as [(a & _ & E3) | (w4 & e0 & E3 & E4)]; [discriminate E3|].
      apply (hx_trans true w2 w4 w').
      * eapply file_comparison_result_hx; [exact E3|]. intros _. rewrite N2. exact Np.
      * apply (hsame_hx true). refine ((_ : pres HSPO _) w4 w' _ E4). pres_auto.
  - apply (hsame_hx true). refine ((_ : pres HSPO _) w w' _ E2). pres_auto.
Qed.

Lemma exec_query_strict : forall q, pres (HXPO true) (exec_query q None).
Proof.
  intro q. destruct q; cbn [exec_query]; try solve [pres_auto].
  apply m_read_strict.
Qed.

Lemma m_query_strict : forall q, pres (HXPO true) (m_query q).
Proof.
  intros q w w' r H. unfold m_query in H.
  destruct (exec_query q None w) as [w1 x] eqn:E.
  apply exec_query_strict in E. repeat dm H; inversion H; subst; exact E.
Qed.

(* ================================================================== *)
(** * 3. Directory preparation, backups, removals                       *)
(* ================================================================== *)

(* (c) new cache and memo untouched; no regular file is created or rewritten:
   every regular file of the tree afterwards was there before, the same node *)
Definition fsub (fs fs' : fsT) : Prop :=
  forall x f, lookup fs' x = Some (NFile f) -> lookup fs x = Some (NFile f).

Definition fstep (w w' : world) : Prop :=
  w_old w' = w_old w /\ w_new w' = w_new w /\ w_hash w' = w_hash w /\ fsub (w_fs w) (w_fs w').

Lemma fstep_refl : forall w, fstep w w.
Proof. intro w. split; [reflexivity|]. split; [reflexivity|]. split; [reflexivity|]. intros x f H; exact H. Qed.
Lemma fstep_trans : forall a b c, fstep a b -> fstep b c -> fstep a c.
Proof.
  intros a b c (A0 & A1 & A2 & A3) (B0 & B1 & B2 & B3). split; [congruence|]. split; [congruence|]. split; [congruence|].
  intros x f H. apply A3, B3, H.
Qed.
Definition FSPO : PO := {| rel := fstep; po_refl := fstep_refl; po_trans := fstep_trans |}.

Lemma hsame_fstep : forall w w', HSPO w w' -> FSPO w w'.
Proof.
  cbn. intros w w' (A0 & A1 & A2 & A3). split; [exact A0|]. split; [exact A2|]. split; [exact A3|]. rewrite A1. intros x f H; exact H.
Qed.
#[local] Hint Extern 8 (pres FSPO _) => apply (pres_weaken HSPO FSPO _ _ hsame_fstep) : pres.

Lemma fsub_one : forall fs fs' p0,
  (forall q, q <> p0 -> lookup fs' q = lookup fs q) -> (forall f, lookup fs' p0 <> Some (NFile f)) -> fsub fs fs'.
Proof.
  intros fs fs' p0 Hfr Hp0 x f H. destruct (path_eqb x p0) eqn:E.
  - apply path_eqb_eq in E. subst. exfalso. exact (Hp0 f H).
  - apply path_eqb_neq in E. rewrite <- (Hfr x E). exact H.
Qed.

Lemma mkdir_fsub : forall fs p fs', mkdir fs p = inl fs' -> fsub fs fs'.
Proof.
  intros fs p fs' H. apply mkdir_frame in H. destruct H as (H1 & H2 & H3).
  apply (fsub_one fs fs' p H3). intros f E. congruence.
Qed.
Lemma rmdir_fsub : forall fs p fs', rmdir fs p = inl fs' -> fsub fs fs'.
Proof.
  intros fs p fs' H. apply rmdir_frame in H. destruct H as (_ & _ & _ & H2 & H3).
  apply (fsub_one fs fs' p H3). intros f E. congruence.
Qed.
Lemma remove_fsub : forall fs p fs', remove fs p = inl fs' -> fsub fs fs'.
Proof.
  intros fs p fs' H. apply remove_frame in H. destruct H as (_ & H2 & H3).
  apply (fsub_one fs fs' p H3). intros f E. congruence.
Qed.

Lemma raw_drop_below : forall p (l : fsT) base x n,
  raw_lookup (fold_right (fun (e : path * option node) acc => if below p (fst e) then upd (fst e) None acc else acc) base l) x = Some n ->
  raw_lookup base x = Some n.
Proof.
  intros p l base x n. induction l as [|e l IH]; cbn [fold_right]; intro H; [exact H|].
  destruct (below p (fst e)); [|apply IH, H].
  unfold upd in H. cbn [raw_lookup] in H. destruct (path_eqb (fst e) x); [discriminate H | apply IH, H].
Qed.

Lemma rename_out_fsub : forall fs p fs' n, rename_out fs p = inl (fs', n) -> fsub fs fs'.
Proof.
  intros fs p fs' n H. unfold rename_out in H.
  destruct (lookup fs p) as [[g|]|] eqn:E1; destruct p as [|a d]; try discriminate H; inversion H; subst; clear H.
  - apply (fsub_one fs _ (a :: d)).
    + intros q Hq. apply lookup_upd_neq. exact Hq.
    + intros f X. rewrite lookup_upd_eq in X by discriminate. discriminate X.
  - intros x f H. destruct x as [|y x]; [discriminate H|].
    unfold lookup, upd in H. cbn [raw_lookup] in H.
    destruct (path_eqb (a :: d) (y :: x)); [discriminate H|].
    unfold drop_below in H. apply raw_drop_below in H. exact H.
Qed.

Ltac fs_solve :=
  first [ apply fstep_refl
        | split; [reflexivity|]; split; [reflexivity|]; split; [reflexivity|]; intros ?x ?f ?X; assumption ].

Lemma effect_fs : forall what p f,
  (forall fs fs', f fs = inl fs' -> fsub fs fs') -> pres FSPO (effect what p f).
Proof.
  intros what p f Hf w w' r H. unfold effect in H. cbv zeta in H.
  destruct (existsb (Nat.eqb (w_effects w)) (w_faults w)).
  - inversion H; subst. fs_solve.
  - cbn [w_fs set_effects] in H. destruct (f (w_fs w)) as [fs'|e] eqn:E; inversion H; subst.
    + split; [reflexivity|]. split; [reflexivity|]. split; [reflexivity|]. cbn [w_fs set_log set_fs]. eapply Hf; eauto.
    + fs_solve.
Qed.

Lemma effect_mkdir_fs : forall what p, pres FSPO (effect what p (fun fs => mkdir fs p)).
Proof. intros. apply effect_fs. intros fs fs' H. eapply mkdir_fsub; eauto. Qed.
Lemma effect_rmdir_fs : forall what p, pres FSPO (effect what p (fun fs => rmdir fs p)).
Proof. intros. apply effect_fs. intros fs fs' H. eapply rmdir_fsub; eauto. Qed.
Lemma effect_remove_fs : forall what p, pres FSPO (effect what p (fun fs => remove fs p)).
Proof. intros. apply effect_fs. intros fs fs' H. eapply remove_fsub; eauto. Qed.
Lemma effect_id_fs : forall what p, pres FSPO (effect what p (fun fs => inl fs)).
Proof. intros. apply effect_fs. intros fs fs' H. inversion H; subst. intros x f X; exact X. Qed.
#[local] Hint Resolve effect_mkdir_fs effect_rmdir_fs effect_remove_fs effect_id_fs : pres.

Lemma back_up_and_remove_fs : forall p, pres FSPO (back_up_and_remove p).
Proof.
  intro p. unfold back_up_and_remove. apply pres_bind; [auto with pres|]. intros _.
  intros w w' r H. cbv zeta in H.
  destruct (existsb (Nat.eqb (w_effects w)) (w_faults w)); [inversion H; subst; fs_solve|].
  cbn [w_fs set_effects] in H.
  destruct (rename_out (w_fs w) p) as [[fs' n]|e] eqn:E.
  - apply rename_out_fsub in E.
    destruct n; inversion H; subst; (split; [reflexivity|]); (split; [reflexivity|]); (split; [reflexivity|]); exact E.
  - destruct e; inversion H; subst; fs_solve.
Qed.
#[local] Hint Resolve back_up_and_remove_fs : pres.

Lemma try_to_remove_file_fs : forall p, pres FSPO (try_to_remove_file p).
Proof. intro p. unfold try_to_remove_file. pres_auto. Qed.
Lemma remove_empty_dirs_fs : forall ds, pres FSPO (remove_empty_dirs ds).
Proof. intro ds. unfold remove_empty_dirs. pres_auto. Qed.
Lemma make_one_dir_fs : forall d, pres FSPO (make_one_dir d).
Proof. intro d. unfold make_one_dir. pres_auto. Qed.
#[local] Hint Resolve try_to_remove_file_fs remove_empty_dirs_fs make_one_dir_fs : pres.
Lemma make_dirs_loop_fs : forall ds made, pres FSPO (make_dirs_loop ds made).
Proof. induction ds as [|d ds IH]; intro made; cbn [make_dirs_loop]; pres_auto. Qed.
#[local] Hint Resolve make_dirs_loop_fs : pres.
Lemma make_dirs_fs : forall d, pres FSPO (make_dirs d).
Proof. intro d. unfold make_dirs. pres_auto. Qed.
#[local] Hint Resolve make_dirs_fs : pres.
Lemma make_room_fs : forall fuel d, pres FSPO (make_room fuel d).
Proof. induction fuel as [|fuel IH]; intro d; cbn [make_room]; pres_auto. Qed.
#[local] Hint Resolve make_room_fs : pres.
Lemma prepare_file_creation_fs : forall p, pres FSPO (prepare_file_creation p).
Proof. intro p. unfold prepare_file_creation. pres_auto. Qed.
#[local] Hint Resolve prepare_file_creation_fs : pres.
Lemma apply_cached_subs_of_fs : forall o, pres FSPO (apply_cached_subs_of o).
Proof.
  induction o as [q r e | p c f a k subs r cr ra sf IH | f a k subs r ra sf IH] using op_ind';
    cbn [apply_cached_subs_of].
  - apply pres_ret.
  - induction IH as [|s rest Hs HF IHl]; cbn beta iota fix; [apply pres_ret|].
    apply pres_bind; [|intros _; exact IHl]. pres_auto.
  - induction IH as [|s rest Hs HF IHl]; cbn beta iota fix; [apply pres_ret|].
    apply pres_bind; [|intros _; exact IHl]. pres_auto.
Qed.
#[local] Hint Resolve apply_cached_subs_of_fs : pres.

(* ================================================================== *)
(** * 4. The invariant is preserved by the library                      *)
(* ================================================================== *)

(* the general step: the memo is untouched, no regular file is created or
   rewritten, claims only grow *)
Lemma HInv_step : forall w w',
  w_hash w' = w_hash w -> fsub (w_fs w) (w_fs w') ->
  (forall q, cache_has_file (w_new w) q = true -> cache_has_file (w_new w') q = true) ->
  HInv w -> HInv w'.
Proof.
  intros w w' Hh Hf Hc [Hok Hns]. split.
  - intros p h b f Hg Hb Hl. rewrite Hh in Hg. apply Hf in Hl.
    destruct (cache_has_file (w_new w) p) eqn:E.
    + pose proof (Hc _ E) as E'. eapply Hok; eauto; congruence.
    + destruct b.
      * apply Hns in Hg. congruence.
      * eapply Hok; eauto.
  - intros p h Hg. rewrite Hh in Hg. apply Hc. eapply Hns; eauto.
Qed.

Definition brel (w w' : world) : Prop := HInv w -> HInv w'.
Lemma brel_refl : forall w, brel w w.
Proof. intros w H; exact H. Qed.
Lemma brel_trans : forall a b c, brel a b -> brel b c -> brel a c.
Proof. intros a b c H1 H2 H. apply H2, H1, H. Qed.
Definition BPO : PO := {| rel := brel; po_refl := brel_refl; po_trans := brel_trans |}.

Lemma fstep_brel : forall w w', FSPO w w' -> BPO w w'.
Proof.
  cbn. intros w w' (A0 & A1 & A2 & A3) Hi. refine (HInv_step w w' A2 A3 _ Hi). rewrite A1. auto.
Qed.
Lemma hx_brel : forall w w', HXPO false w w' -> BPO w w'.
Proof. cbn. intros w w' H Hi. eapply hx_HInv; eauto. Qed.
#[local] Hint Extern 8 (pres BPO _) => apply (pres_weaken FSPO BPO _ _ fstep_brel) : pres.
#[local] Hint Extern 8 (pres BPO _) => apply (pres_weaken (HXPO false) BPO _ _ hx_brel) : pres.

(* (d) the tree and the memo untouched, claims only grow *)
Definition nstep (w w' : world) : Prop :=
  w_fs w' = w_fs w /\ w_hash w' = w_hash w /\ cache_le (w_new w) (w_new w').
Lemma nstep_brel : forall w w', nstep w w' -> brel w w'.
Proof.
  intros w w' (A1 & A2 & A3 & _) Hi. refine (HInv_step w w' A2 _ A3 Hi). rewrite A1; intros x f X; exact X.
Qed.

Lemma new_start_building_file_B : forall p, pres BPO (new_start_building_file p).
Proof.
  intro p. unfold new_start_building_file. apply pres_bind; [auto with pres|]. intros _.
  apply pres_modify. intro w. apply nstep_brel. split; [reflexivity|]. split; [reflexivity|].
  cbn [w_new set_new]. apply cache_le_files_set.
Qed.
Lemma new_finish_building_file_B : forall p o, pres BPO (new_finish_building_file p o).
Proof.
  intros p o. unfold new_finish_building_file. apply pres_modify. intro w. apply nstep_brel.
  split; [reflexivity|]. split; [reflexivity|]. cbn [w_new set_new]. apply cache_le_files_set.
Qed.
Lemma new_start_subbuild_B : forall k, pres BPO (new_start_subbuild k).
Proof.
  intro k. unfold new_start_subbuild. apply pres_bind; [auto with pres|]. intros _.
  apply pres_modify. intro w. apply nstep_brel. split; [reflexivity|]. split; [reflexivity|].
  cbn [w_new set_new]. apply cache_le_subs_set.
Qed.
Lemma new_finish_subbuild_B : forall k o, pres BPO (new_finish_subbuild k o).
Proof.
  intros k o. unfold new_finish_subbuild. apply pres_modify. intro w. apply nstep_brel.
  split; [reflexivity|]. split; [reflexivity|]. cbn [w_new set_new]. apply cache_le_subs_set.
Qed.
Lemma new_use_cached_operation_B : forall o, pres BPO (new_use_cached_operation o).
Proof.
  intros o w w' r H. unfold new_use_cached_operation in H. minv H.
  - unfold put in H. inversion H; subst. apply nstep_brel.
    split; [reflexivity|]. split; [reflexivity|]. cbn [w_new set_new]. apply register_op_le.
  - apply brel_refl.
Qed.
#[local] Hint Resolve new_start_building_file_B new_finish_building_file_B new_start_subbuild_B
  new_finish_subbuild_B new_use_cached_operation_B : pres.

(* claim, move the old file away, release the claim if that failed: as a whole *)
Lemma claim_guarded_B : forall p A B (m : M A) (k : A -> M B),
  pres FSPO m -> (forall a, pres BPO (k a)) ->
  pres BPO
    (bind (new_start_building_file p)
          (fun _ => bind (catch m (fun e => bind (new_abort_building_file p) (fun _ => raise e))) k)).
Proof.
  intros p A B m k Hm Hk w w' r H.
  apply bind_inv in H. destruct H as [(w1 & u & E1 & H) | (e & E1 & _)].
  2: exact (new_start_building_file_B p w w' _ E1).
  assert (C1 : brel w w1) by exact (new_start_building_file_B p w w1 _ E1).
  unfold new_start_building_file in E1.
  apply bind_inv in E1. destruct E1 as [(w0 & u0 & E0 & E1) | (e & _ & E1)]; [|discriminate E1].
  assert (Hfree : cache_has_file (w_new w) p = false /\ w0 = w).
  { unfold new_assert_no_file in E0. apply bind_inv in E0.
    destruct E0 as [(w00 & a0 & G & E0) | (e & G & _)]; [|inversion G].
    inversion G; subst w00 a0. destruct (cache_has_file (w_new w) p); [inversion E0|].
    inversion E0; subst. split; reflexivity. }
  destruct Hfree as [Hfree ->]. unfold modify in E1. inversion E1; subst w1; clear E1 E0.
  apply bind_inv in H. destruct H as [(w2 & a & E2 & H) | (e & E2 & _)].
  - eapply brel_trans; [|exact (Hk a _ _ _ H)].
    apply catch_inv in E2. destruct E2 as [(a' & E2 & _) | (w3 & e & _ & E3)].
    + eapply brel_trans; [exact C1|]. apply fstep_brel. exact (Hm _ _ _ E2).
    + apply bind_inv in E3. destruct E3 as [(w4 & u4 & _ & E3) | (e' & _ & E3)];
        [inversion E3 | discriminate E3].
  - apply catch_inv in E2. destruct E2 as [(a' & _ & E2) | (w3 & e0 & E2 & E3)]; [discriminate E2|].
    apply Hm in E2. destruct E2 as (_ & N & Hh & Hf).
    apply bind_inv in E3. destruct E3 as [(w4 & u4 & E3 & E4) | (e' & E3 & _)]; [|inversion E3].
    inversion E4; subst w4. unfold new_abort_building_file, modify in E3. inversion E3; subst w'.
    cbn [w_new set_new w_hash w_fs] in *.
    intro Hi. refine (HInv_step _ _ _ _ _ Hi); cbn [w_hash w_fs w_new set_new]; [exact Hh | exact Hf |].
    rewrite N. cbn [w_new set_new].
    unfold cache_has_file in Hfree.
    destruct (files_get (c_files (w_new w)) p) eqn:Hg; [discriminate Hfree|].
    intros q Hq. unfold cache_has_file in *. cbn [c_files cache_with] in *.
    rewrite files_get_del_set_free by exact Hg. exact Hq.
Qed.

Ltac pres_hook ::=
  lazymatch goal with
  | |- pres claimsPO (bind (new_start_building_file _) (fun _ => bind (catch _ _) _)) =>
      apply claim_guarded_claims; [|intro]
  | |- pres BPO (bind (new_start_building_file _) (fun _ => bind (catch _ _) _)) =>
      apply claim_guarded_B; [|intro]
  end.

Lemma bf_reuse_B : forall p c f sa skw cached, pres BPO (bf_reuse p c f sa skw cached).
Proof. intros. unfold bf_reuse. pres_auto. Qed.
Lemma bf_claim_B : forall p, pres BPO (bf_claim p).
Proof. intro p. unfold bf_claim. pres_auto. Qed.
#[local] Hint Resolve bf_reuse_B bf_claim_B : pres.
Lemma bf_setup_B : forall p c f sa skw, pres BPO (bf_setup p c f sa skw).
Proof. intros. unfold bf_setup. pres_auto. Qed.
Lemma sb_setup_B : forall f sa skw, pres BPO (sb_setup f sa skw).
Proof. intros. unfold sb_setup. cbv zeta. pres_auto. Qed.
#[local] Hint Resolve bf_setup_B sb_setup_B : pres.

(* ---- the world in which the user function of build_file(p) starts ---- *)
Lemma rename_out_gone : forall fs p fs' n, rename_out fs p = inl (fs', n) -> lookup fs' p = None.
Proof.
  intros fs p fs' n H. unfold rename_out in H.
  destruct (lookup fs p) as [[g|]|]; destruct p as [|a d]; try discriminate H; inversion H; subst;
    apply lookup_upd_eq; discriminate.
Qed.

Lemma rename_out_enoent : forall fs p, rename_out fs p = inr ENOENT -> lookup fs p = None.
Proof.
  intros fs p H. unfold rename_out in H.
  destruct (lookup fs p) as [[g|]|]; destruct p as [|a d]; try discriminate H; reflexivity.
Qed.

Lemma back_up_and_remove_gone : forall p w w' b,
  back_up_and_remove p w = (w', inl b) -> isfile (w_fs w') p = false.
Proof.
  intros p w w' b H. unfold back_up_and_remove in H.
  apply bind_inv in H. destruct H as [(w1 & u & E1 & H) | (e & E1 & H)]; [|discriminate H].
  cbv zeta in H. destruct (existsb (Nat.eqb (w_effects w1)) (w_faults w1)); [discriminate H|].
  cbn [w_fs set_effects] in H.
  destruct (rename_out (w_fs w1) p) as [[fs' n]|e] eqn:E.
  - apply rename_out_gone in E. destruct n; inversion H; subst; cbn [w_fs set_log set_lost set_backups set_fs];
      unfold isfile; rewrite E; reflexivity.
  - destruct e; try discriminate H. inversion H; subst. cbn [w_fs set_effects].
    apply rename_out_enoent in E. unfold isfile. rewrite E. reflexivity.
Qed.

Lemma bf_claim_ok : forall p w w' r, bf_claim p w = (w', inl r) -> HInv w ->
  r = None /\ HInv w' /\ pending (w_new w') p /\ isfile (w_fs w') p = false /\ NoT p w'.
Proof.
  intros p w w' r H Hi.
  assert (Hi' : HInv w') by exact (bf_claim_B p w w' _ H Hi).
  unfold bf_claim in H.
  apply bind_inv in H. destruct H as [(w1 & u & E1 & H) | (e & E1 & H)]; [|discriminate H].
  unfold new_start_building_file in E1.
  apply bind_inv in E1. destruct E1 as [(w0 & u0 & E0 & E1) | (e & _ & E1)]; [|discriminate E1].
  assert (Hfree : cache_has_file (w_new w) p = false /\ w0 = w).
  { unfold new_assert_no_file in E0. apply bind_inv in E0.
    destruct E0 as [(w00 & a0 & G & E0) | (e & G & _)]; [|inversion G].
    inversion G; subst w00 a0. destruct (cache_has_file (w_new w) p); [inversion E0|].
    inversion E0; subst. split; reflexivity. }
  destruct Hfree as [Hfree ->]. unfold modify in E1. inversion E1; subst w1; clear E1 E0.
  apply bind_inv in H. destruct H as [(w2 & a & E2 & H) | (e & E2 & H)]; [|discriminate H].
  inversion H; subst w2 r; clear H.
  apply catch_inv in E2. destruct E2 as [(a' & E2 & _) | (w3 & e & _ & E3)].
  2:{ apply bind_inv in E3. destruct E3 as [(w4 & u4 & _ & E3) | (e' & _ & E3)]; [inversion E3 | discriminate E3]. }
  unfold bind at 1, get in E2. cbn [w_fs set_new] in E2.
  assert (X : w_new w' = w_new (set_new (cache_with (w_new w) (files_set (c_files (w_new w)) p None) (c_subs (w_new w))
                                         (c_dirs (w_new w)) (c_built (w_new w) ++ [p])) w) /\
              w_hash w' = w_hash w /\ isfile (w_fs w') p = false).
  { destruct (isfile (w_fs w) p) eqn:Ef.
    - apply bind_inv in E2. destruct E2 as [(w5 & b & E5 & E2) | (e & _ & E2)]; [|discriminate E2].
      inversion E2; subst w5. pose proof (back_up_and_remove_gone _ _ _ _ E5) as G.
      apply back_up_and_remove_fs in E5. destruct E5 as (_ & N & Hh & _). auto.
    - inversion E2; subst. cbn [w_new w_hash w_fs set_new]. auto. }
  destruct X as (N & Hh & G). split; [reflexivity|]. split; [exact Hi'|]. split.
  - unfold pending. rewrite N. cbn [w_new set_new c_files cache_with]. apply files_get_set_same.
  - split; [exact G|]. intros h E. rewrite Hh in E. exact (HInv_free_NoT w p Hi Hfree h E).
Qed.

(* collect the facts of the runs in the context, then move the invariant along *)
Ltac b_facts :=
  repeat match goal with
  | E : ?m ?w = (?w1, _) |- _ =>
      lazymatch goal with
      | _ : brel w w1 |- _ => fail
      | _ => let X := fresh "BR" in
             assert (X : brel w w1) by (refine ((_ : pres BPO m) w w1 _ E); solve [pres_auto])
      end
  end.
Ltac b_chain :=
  repeat match goal with
  | BR : brel ?a ?b, Hi : HInv ?a |- _ =>
      lazymatch goal with
      | _ : HInv b |- _ => fail
      | _ => pose proof (BR Hi)
      end
  end.

Lemma bf_setup_None : forall p c f sa skw w w', bf_setup p c f sa skw w = (w', inl None) -> HInv w ->
  HInv w' /\ pending (w_new w') p /\ isfile (w_fs w') p = false /\ NoT p w'.
Proof.
  intros p c f sa skw w w' H Hi. unfold bf_setup in H. minvc H.
  all: try match goal with E : bf_reuse _ _ _ _ _ _ _ = (_, inl (Some _)) |- _ => fail 1 end.
  all: match goal with
       | E : bf_claim _ ?wk = (_, inl ?r) |- _ =>
           b_facts; b_chain;
           match goal with Hk : HInv wk |- _ => destruct (bf_claim_ok _ _ _ _ E Hk) as (_ & A & B & C & D) end;
           auto
       end.
Qed.

Lemma brel_set_log : forall l w, brel w (set_log l w).
Proof. intros l w [Hok Hns]. split; [exact Hok | exact Hns]. Qed.

Lemma bf_fail_B : forall p c f sa skw subs e, pres BPO (bf_fail p c f sa skw subs e).
Proof.
  intros p c f sa skw subs e w w' r H. unfold bf_fail in H. cbv zeta in H.
  match type of H with (match ?X with _ => _ end) = _ => destruct X as [w1 [u|e1]] eqn:E end;
    inversion H; subst; refine ((_ : pres BPO _) _ _ _ E); pres_auto.
Qed.

Lemma bf_finish_B : forall p c f sa skw res subs, pres BPO (bf_finish p c f sa skw res subs).
Proof.
  intros p c f sa skw res subs w w' r H. unfold bf_finish in H.
  destruct res as [v|e]; [|eapply bf_fail_B; eassumption].
  destruct (sanitize v) as [sv|]; [|eapply bf_fail_B; eassumption].
  destruct (noneable_cmp p c w) as [w4 [cmp|e]] eqn:E.
  - assert (Q : brel w w4) by (apply hx_brel; exact (noneable_cmp_hxf p c w w4 _ E)).
    eapply brel_trans; [exact Q|].
    destruct cmp; try (eapply bf_fail_B; eassumption).
    all: cbv zeta in H;
      match type of H with (match ?X with _ => _ end) = _ => destruct X as [w5 u] eqn:E5 end;
      inversion H; subst; exact (new_finish_building_file_B _ _ _ _ _ E5).
  - assert (Q : brel w w4) by (apply hx_brel; exact (noneable_cmp_hxf p c w w4 _ E)).
    eapply brel_trans; [exact Q|]. eapply bf_fail_B; eassumption.
Qed.

(* build_file(p): the library part keeps the invariant if the user function does,
   started in a world where p is claimed, holds no regular file, and has no
   visible entry keyed "built" *)
Theorem m_build_file_B : forall p c f a kw (fn : path -> pyval -> pyval -> body),
  (forall sa skw w2 w3 r, HInv w2 -> pending (w_new w2) p -> isfile (w_fs w2) p = false -> NoT p w2 ->
                          fn p sa skw w2 = (w3, r) -> HInv w3) ->
  pres BPO (m_build_file p c f a kw fn).
Proof.
  intros p c f a kw fn Hfn w w' r H. rewrite m_build_file_unfold in H.
  destruct (sanitize a) as [sa|]; [|inversion H; subst; apply brel_refl].
  destruct (sanitize kw) as [skw|]; [|inversion H; subst; apply brel_refl].
  destruct (bf_setup p c f sa skw w) as [w1 [[[o|[e o]]|]|e]] eqn:Hs.
  - inversion H; subst. exact (bf_setup_B _ _ _ _ _ _ _ _ Hs).
  - inversion H; subst. exact (bf_setup_B _ _ _ _ _ _ _ _ Hs).
  - intro Hi. destruct (bf_setup_None _ _ _ _ _ _ _ Hs Hi) as (A & B & C & D).
    unfold bf_rebuild in H.
    destruct (fn p sa skw (bf_invoke_world p f sa skw w1)) as [w3 [res subs]] eqn:Ef.
    assert (Hi3 : HInv w3).
    { eapply Hfn; [| | | | exact Ef]; unfold bf_invoke_world.
      - apply brel_set_log. exact A.
      - exact B.
      - exact C.
      - exact D. }
    exact (bf_finish_B _ _ _ _ _ _ _ _ _ _ H Hi3).
  - inversion H; subst. exact (bf_setup_B _ _ _ _ _ _ _ _ Hs).
Qed.

Lemma sb_finish_B : forall f sa skw res subs, pres BPO (sb_finish f sa skw res subs).
Proof.
  intros f sa skw res subs w w' r H. unfold sb_finish in H. cbv zeta in H.
  destruct res as [v|e]; [destruct (sanitize v)|];
    match type of H with (match ?X with _ => _ end) = _ => destruct X as [w5 u] eqn:E5 end;
    inversion H; subst; exact (new_finish_subbuild_B _ _ _ _ _ E5).
Qed.

Theorem m_subbuild_B : forall f a kw (fn : pyval -> pyval -> body),
  (forall sa skw w2 w3 r, HInv w2 -> fn sa skw w2 = (w3, r) -> HInv w3) ->
  pres BPO (m_subbuild f a kw fn).
Proof.
  intros f a kw fn Hfn w w' r H. rewrite m_subbuild_unfold in H.
  destruct (sanitize a) as [sa|]; [|inversion H; subst; apply brel_refl].
  destruct (sanitize kw) as [skw|]; [|inversion H; subst; apply brel_refl].
  destruct (sb_setup f sa skw w) as [w1 [[[o|[e o]]|]|e]] eqn:Hs.
  - inversion H; subst. exact (sb_setup_B _ _ _ _ _ _ Hs).
  - inversion H; subst. exact (sb_setup_B _ _ _ _ _ _ Hs).
  - intro Hi. pose proof (sb_setup_B _ _ _ _ _ _ Hs Hi) as A.
    unfold sb_rebuild in H.
    destruct (fn sa skw (sb_invoke_world f sa skw w1)) as [w3 [res subs]] eqn:Ef.
    assert (Hi3 : HInv w3).
    { eapply Hfn; [|exact Ef]. unfold sb_invoke_world. apply brel_set_log. exact A. }
    exact (sb_finish_B _ _ _ _ _ _ _ _ H Hi3).
  - inversion H; subst. exact (sb_setup_B _ _ _ _ _ _ Hs).
Qed.

Theorem m_query_B : forall q, pres BPO (m_query q).
Proof. intros q w w' r H. apply hx_brel, hx_strict_weaken. exact (m_query_strict q w w' r H). Qed.

(* ---- the one step that is not the library's: user code (re)writes its target ---- *)

(* exactly what is needed of the memo for the write to be harmless: no visible
   entry for the target keyed with the target's current claim state — or one
   that happens to hold the hash of the new content *)
Theorem write_keeps_HInv : forall w p c fs',
  write_file (w_fs w) p c None (N.succ (w_clock w)) (w_nextid w) = inl fs' ->
  HInv w ->
  (forall h, hash_get (w_hash w) p = Some (h, cache_has_file (w_new w) p) -> h = hash_of c) ->
  HInv (set_clock (N.succ (w_clock w)) (N.succ (w_nextid w)) (set_fs fs' w)).
Proof.
  intros w p c fs' Hw [Hok Hns] Hp. apply write_file_frame in Hw. destruct Hw as ((g & G1 & G2 & _) & Hfr).
  split.
  - intros q h b f Hg Hb Hl. cbn [w_hash w_new w_fs set_clock set_fs] in *.
    destruct (path_eqb q p) eqn:E.
    + apply path_eqb_eq in E. subst q. rewrite G1 in Hl. inversion Hl; subst f. rewrite G2.
      apply Hp. rewrite Hg, Hb. reflexivity.
    + apply path_eqb_neq in E. rewrite (Hfr q E) in Hl. eapply Hok; eauto.
  - intros q h Hg. cbn [w_hash w_new set_clock set_fs] in *. eapply Hns; eauto.
Qed.

(* ... and it IS needed: a visible entry with another hash, keyed with the current
   claim state, makes HashOk false after the write *)
Theorem write_breaks_HashOk : forall w p c fs' h,
  write_file (w_fs w) p c None (N.succ (w_clock w)) (w_nextid w) = inl fs' ->
  hash_get (w_hash w) p = Some (h, cache_has_file (w_new w) p) -> h <> hash_of c ->
  ~ HashOk (set_clock (N.succ (w_clock w)) (N.succ (w_nextid w)) (set_fs fs' w)).
Proof.
  intros w p c fs' h Hw Hg Hne Hok. apply write_file_frame in Hw. destruct Hw as ((g & G1 & G2 & _) & _).
  apply Hne. rewrite <- G2. eapply (Hok p h _ g); cbn [w_hash w_new w_fs set_clock set_fs]; eauto.
Qed.

(* ================================================================== *)
(** * 5. What a nested call can do to a path that is claimed elsewhere  *)
(* ================================================================== *)

(* [x] is claimed and in progress (its function is running further up the call
   stack): it stays so; and as long as it holds no regular file, it still holds
   none afterwards and the memo's view of it is unchanged *)
Definition xrel (x : path) (w w' : world) : Prop :=
  pending (w_new w) x ->
  pending (w_new w') x /\
  (isfile (w_fs w) x = false ->
   isfile (w_fs w') x = false /\ hash_get (w_hash w') x = hash_get (w_hash w) x).

Lemma xrel_refl : forall x w, xrel x w w.
Proof. intros x w H. split; [exact H|]. intro G. split; [exact G | reflexivity]. Qed.
Lemma xrel_trans : forall x a b c, xrel x a b -> xrel x b c -> xrel x a c.
Proof.
  intros x a b c H1 H2 Ha. destruct (H1 Ha) as [Hb K1]. destruct (H2 Hb) as [Hc K2].
  split; [exact Hc|]. intro G. destruct (K1 G) as [Gb E1]. destruct (K2 Gb) as [Gc E2].
  split; [exact Gc | congruence].
Qed.
Definition XPO (x : path) : PO := {| rel := xrel x; po_refl := xrel_refl x; po_trans := xrel_trans x |}.

Lemma fstep_xrel : forall x w w', FSPO w w' -> XPO x w w'.
Proof.
  cbn. intros x w w' (A0 & A1 & A2 & A3) Hp. unfold pending in *. rewrite A1. split; [exact Hp|].
  intro G. split; [|rewrite A2; reflexivity].
  unfold isfile in *. destruct (lookup (w_fs w') x) as [[f|]|] eqn:E; try reflexivity.
  apply A3 in E. rewrite E in G. discriminate G.
Qed.
Lemma hx_xrel : forall x w w', HXPO false w w' -> XPO x w w'.
Proof.
  cbn. intros x w w' H Hp. pose proof H as (_ & A1 & A2 & _). unfold pending in *. rewrite A2. split; [exact Hp|].
  intro G. split; [rewrite A1; exact G|]. eapply hx_nofile; eauto.
Qed.
#[local] Hint Extern 8 (pres (XPO _) _) => apply (pres_weaken FSPO (XPO _) _ _ (fstep_xrel _)) : pres.
#[local] Hint Extern 8 (pres (XPO _) _) => apply (pres_weaken (HXPO false) (XPO _) _ _ (hx_xrel _)) : pres.

(* a step that changes only the file table of the new cache, away from x *)
Lemma xrel_new : forall x w c',
  (pending (w_new w) x -> pending c' x) -> xrel x w (set_new c' w).
Proof.
  intros x w c' H Hp. split; [exact (H Hp)|]. intro G. cbn [w_fs w_hash set_new]. split; [exact G | reflexivity].
Qed.

Lemma new_start_building_file_X : forall x p, pres (XPO x) (new_start_building_file p).
Proof.
  intros x p w w' r H. unfold new_start_building_file in H.
  apply bind_inv in H. destruct H as [(w0 & u0 & E0 & E1) | (e & E0 & _)].
  2:{ refine ((_ : pres (XPO x) _) _ _ _ E0). pres_auto. }
  assert (Hfree : cache_has_file (w_new w) p = false /\ w0 = w).
  { unfold new_assert_no_file in E0. apply bind_inv in E0.
    destruct E0 as [(w00 & a0 & G & E0) | (e & G & _)]; [|inversion G].
    inversion G; subst w00 a0. destruct (cache_has_file (w_new w) p); [inversion E0|].
    inversion E0; subst. split; reflexivity. }
  destruct Hfree as [Hfree ->]. unfold modify in E1. inversion E1; subst. apply xrel_new.
  intro Hp. unfold pending in *. cbn [c_files cache_with]. rewrite files_get_set.
  destruct (path_eqb p x) eqn:E; [|exact Hp].
  apply path_eqb_eq in E. subst p. unfold cache_has_file in Hfree. rewrite Hp in Hfree. discriminate Hfree.
Qed.
Lemma new_abort_building_file_X : forall x p, p <> x -> pres (XPO x) (new_abort_building_file p).
Proof.
  intros x p Hne. unfold new_abort_building_file. apply pres_modify. intro w. apply xrel_new.
  intro Hp. unfold pending in *. cbn [c_files cache_with]. rewrite files_get_del.
  apply path_eqb_neq in Hne. rewrite Hne. exact Hp.
Qed.
Lemma new_finish_building_file_X : forall x p o, p <> x -> pres (XPO x) (new_finish_building_file p o).
Proof.
  intros x p o Hne. unfold new_finish_building_file. apply pres_modify. intro w. apply xrel_new.
  intro Hp. unfold pending in *. cbn [c_files cache_with]. rewrite files_get_set.
  apply path_eqb_neq in Hne. rewrite Hne. exact Hp.
Qed.
Lemma new_start_subbuild_X : forall x k, pres (XPO x) (new_start_subbuild k).
Proof.
  intros x k. unfold new_start_subbuild. apply pres_bind; [auto with pres|]. intros _.
  apply pres_modify. intro w. apply xrel_new. intro Hp. exact Hp.
Qed.
Lemma new_finish_subbuild_X : forall x k o, pres (XPO x) (new_finish_subbuild k o).
Proof.
  intros x k o. unfold new_finish_subbuild. apply pres_modify. intro w. apply xrel_new. intro Hp. exact Hp.
Qed.

(* registering a cached record: guarded by _assert_no_repeats, so no key of the
   record is a path that is already claimed *)
Lemma fold_register_op_pending : forall x c0 subs,
  Forall (fun o => forall c', assert_no_repeats c0 o = true -> pending c' x -> pending (register_op c' o) x) subs ->
  forallb (assert_no_repeats c0) subs = true ->
  forall c', pending c' x -> pending (fold_left register_op subs c') x.
Proof.
  intros x c0 subs HF. induction HF as [|s rest Hs HF IH]; intros Ha c' Hp; [exact Hp|].
  cbn [forallb] in Ha. apply andb_true_iff in Ha. destruct Ha as [A1 A2].
  cbn [fold_left]. apply IH; [exact A2|]. apply Hs; assumption.
Qed.

Lemma register_op_keeps_pending : forall x c0, cache_has_file c0 x = true ->
  forall o c', assert_no_repeats c0 o = true -> pending c' x -> pending (register_op c' o) x.
Proof.
  intros x c0 Hx.
  induction o as [q r e | p c f a k subs r cr ra sf IH | f a k subs r ra sf IH] using op_ind';
    intros c' Ha Hp.
  - exact Hp.
  - cbn [assert_no_repeats] in Ha. apply andb_true_iff in Ha. destruct Ha as [A1 A2].
    cbn [register_op]. apply (fold_register_op_pending x c0 subs IH A2).
    destruct sf; [exact Hp|]. cbn [orb] in A1. apply negb_true_iff in A1.
    unfold pending in *. cbn [c_files cache_with]. rewrite files_get_set.
    destruct (path_eqb p x) eqn:E; [|exact Hp].
    apply path_eqb_eq in E. subst p. congruence.
  - cbn [assert_no_repeats] in Ha. apply andb_true_iff in Ha. destruct Ha as [A1 A2].
    cbn [register_op]. apply (fold_register_op_pending x c0 subs IH A2).
    destruct sf; exact Hp.
Qed.

Lemma new_use_cached_operation_X : forall x o, pres (XPO x) (new_use_cached_operation o).
Proof.
  intros x o w w' r H. unfold new_use_cached_operation in H. minv H.
  - unfold put in H. inversion H; subst. apply xrel_new. intro Hp.
    eapply register_op_keeps_pending; eauto. apply pending_has_file. exact Hp.
  - apply xrel_refl.
Qed.
#[local] Hint Resolve new_start_building_file_X new_start_subbuild_X new_finish_subbuild_X
  new_use_cached_operation_X : pres.

Lemma bf_reuse_X : forall x p c f sa skw cached, pres (XPO x) (bf_reuse p c f sa skw cached).
Proof. intros. unfold bf_reuse. pres_auto. Qed.
Lemma bf_claim_X : forall x p, p <> x -> pres (XPO x) (bf_claim p).
Proof. intros x p Hne. unfold bf_claim. pres_auto. apply new_abort_building_file_X. exact Hne. Qed.
#[local] Hint Resolve bf_reuse_X : pres.
Lemma bf_setup_X : forall x p c f sa skw, p <> x -> pres (XPO x) (bf_setup p c f sa skw).
Proof. intros x p c f sa skw Hne. unfold bf_setup. pres_auto. apply bf_claim_X. exact Hne. Qed.
Lemma sb_setup_X : forall x f sa skw, pres (XPO x) (sb_setup f sa skw).
Proof. intros. unfold sb_setup. cbv zeta. pres_auto. Qed.

Lemma xrel_set_log : forall x l w, xrel x w (set_log l w).
Proof. intros x l w Hp. split; [exact Hp|]. intro G. split; [exact G | reflexivity]. Qed.

Lemma bf_fail_X : forall x p c f sa skw subs e, p <> x -> pres (XPO x) (bf_fail p c f sa skw subs e).
Proof.
  intros x p c f sa skw subs e Hne w w' r H. unfold bf_fail in H. cbv zeta in H.
  match type of H with (match ?X with _ => _ end) = _ => destruct X as [w1 [u|e1]] eqn:E end;
    inversion H; subst; refine ((_ : pres (XPO x) _) _ _ _ E); pres_auto;
    apply new_finish_building_file_X; exact Hne.
Qed.

Lemma bf_finish_X : forall x p c f sa skw res subs, p <> x -> pres (XPO x) (bf_finish p c f sa skw res subs).
Proof.
  intros x p c f sa skw res subs Hne w w' r H. unfold bf_finish in H.
  destruct res as [v|e]; [|eapply bf_fail_X; eassumption].
  destruct (sanitize v) as [sv|]; [|eapply bf_fail_X; eassumption].
  destruct (noneable_cmp p c w) as [w4 [cmp|e]] eqn:E.
  - assert (Q : xrel x w w4) by (apply hx_xrel; exact (noneable_cmp_hxf p c w w4 _ E)).
    eapply xrel_trans; [exact Q|].
    destruct cmp; try (eapply bf_fail_X; eassumption).
    all: cbv zeta in H;
      match type of H with (match ?X with _ => _ end) = _ => destruct X as [w5 u] eqn:E5 end;
      inversion H; subst; exact (new_finish_building_file_X x _ _ Hne _ _ _ E5).
  - assert (Q : xrel x w w4) by (apply hx_xrel; exact (noneable_cmp_hxf p c w w4 _ E)).
    eapply xrel_trans; [exact Q|]. eapply bf_fail_X; eassumption.
Qed.

Theorem m_build_file_X : forall x p c f a kw (fn : path -> pyval -> pyval -> body),
  (forall sa skw, p <> x -> pres (XPO x) (fn p sa skw)) ->
  pres (XPO x) (m_build_file p c f a kw fn).
Proof.
  intros x p c f a kw fn Hfn w w' r H.
  destruct (path_eqb p x) eqn:Epx.
  { (* the same path again: rejected before anything happens *)
    apply path_eqb_eq in Epx. subst p. intro Hp.
    destruct (sanitize a) as [sa|] eqn:Ea.
    2:{ rewrite (bf_type_error x c f a kw fn w (or_introl Ea)) in H. inversion H; subst. apply xrel_refl. exact Hp. }
    destruct (sanitize kw) as [skw|] eqn:Ek.
    2:{ rewrite (bf_type_error x c f a kw fn w (or_intror Ek)) in H. inversion H; subst. apply xrel_refl. exact Hp. }
    rewrite (dup_file_rejected x c f a kw fn w sa skw Ea Ek (pending_has_file _ _ Hp)) in H.
    inversion H; subst. apply xrel_refl. exact Hp. }
  apply path_eqb_neq in Epx.
  rewrite m_build_file_unfold in H.
  destruct (sanitize a) as [sa|]; [|inversion H; subst; apply xrel_refl].
  destruct (sanitize kw) as [skw|]; [|inversion H; subst; apply xrel_refl].
  destruct (bf_setup p c f sa skw w) as [w1 [[[o|[e o]]|]|e]] eqn:Hs.
  - inversion H; subst. exact (bf_setup_X x _ _ _ _ _ Epx _ _ _ Hs).
  - inversion H; subst. exact (bf_setup_X x _ _ _ _ _ Epx _ _ _ Hs).
  - unfold bf_rebuild in H.
    destruct (fn p sa skw (bf_invoke_world p f sa skw w1)) as [w3 [res subs]] eqn:Ef.
    eapply xrel_trans; [exact (bf_setup_X x _ _ _ _ _ Epx _ _ _ Hs)|].
    eapply xrel_trans; [apply (xrel_set_log x (LInvoke f (Some p) sa skw :: w_log w1) w1)|].
    eapply xrel_trans; [exact (Hfn sa skw Epx _ _ _ Ef)|].
    exact (bf_finish_X x _ _ _ _ _ _ _ Epx _ _ _ H).
  - inversion H; subst. exact (bf_setup_X x _ _ _ _ _ Epx _ _ _ Hs).
Qed.

Lemma sb_finish_X : forall x f sa skw res subs, pres (XPO x) (sb_finish f sa skw res subs).
Proof.
  intros x f sa skw res subs w w' r H. unfold sb_finish in H. cbv zeta in H.
  destruct res as [v|e]; [destruct (sanitize v)|];
    match type of H with (match ?X with _ => _ end) = _ => destruct X as [w5 u] eqn:E5 end;
    inversion H; subst; exact (new_finish_subbuild_X x _ _ _ _ _ E5).
Qed.

Theorem m_subbuild_X : forall x f a kw (fn : pyval -> pyval -> body),
  (forall sa skw, pres (XPO x) (fn sa skw)) -> pres (XPO x) (m_subbuild f a kw fn).
Proof.
  intros x f a kw fn Hfn w w' r H. rewrite m_subbuild_unfold in H.
  destruct (sanitize a) as [sa|]; [|inversion H; subst; apply xrel_refl].
  destruct (sanitize kw) as [skw|]; [|inversion H; subst; apply xrel_refl].
  destruct (sb_setup f sa skw w) as [w1 [[[o|[e o]]|]|e]] eqn:Hs.
  - inversion H; subst. exact (sb_setup_X x _ _ _ _ _ _ Hs).
  - inversion H; subst. exact (sb_setup_X x _ _ _ _ _ _ Hs).
  - unfold sb_rebuild in H.
    destruct (fn sa skw (sb_invoke_world f sa skw w1)) as [w3 [res subs]] eqn:Ef.
    eapply xrel_trans; [exact (sb_setup_X x _ _ _ _ _ _ Hs)|].
    eapply xrel_trans; [apply (xrel_set_log x (LInvoke f None sa skw :: w_log w1) w1)|].
    eapply xrel_trans; [exact (Hfn sa skw _ _ _ Ef)|].
    exact (sb_finish_X x _ _ _ _ _ _ _ _ H).
  - inversion H; subst. exact (sb_setup_X x _ _ _ _ _ _ Hs).
Qed.

Theorem m_query_X : forall x q, pres (XPO x) (m_query q).
Proof. intros x q w w' r H. apply hx_xrel, hx_strict_weaken. exact (m_query_strict q w w' r H). Qed.

Lemma xrel_log_answer : forall x q r w, xrel x w (log_answer q r w).
Proof.
  intros x q r w. unfold log_answer.
  repeat match goal with |- context [match ?y with _ => _ end] => destruct y end;
    first [apply xrel_refl | apply xrel_set_log].
Qed.

(* user code: whatever it does, it does not touch a path claimed further up *)
Theorem run_X : forall x pr target subs, target <> Some x -> pres (XPO x) (run pr target subs).
Proof.
  intros x.
  induction pr as [v | e | stale q k IH | c k IH | stale p c f a kw fn IHfn k IHk | stale f a kw fn IHfn k IHk];
    intros target subs Ht w w' r H; cbn [run] in H; change (xrel x w w').
  - inversion H; subst. apply xrel_refl.
  - inversion H; subst. apply xrel_refl.
  - destruct stale; [eapply IH; eauto|].
    destruct (m_query q w) as [w1 [r1 o]] eqn:E.
    apply (m_query_X x) in E. apply IH in H; [|exact Ht].
    eapply xrel_trans; [exact E|]. eapply xrel_trans; [apply xrel_log_answer | exact H].
  - destruct target as [t|]; [|eapply IH; eauto].
    destruct (write_file (w_fs w) t c None (N.succ (w_clock w)) (w_nextid w)) as [fs'|e] eqn:E.
    + apply IH in H; [|exact Ht]. eapply xrel_trans; [|exact H].
      apply write_file_frame in E. destruct E as (_ & Hfr).
      intro Hp. split; [exact Hp|]. intro G. cbn [w_fs w_hash set_clock set_fs].
      split; [|reflexivity]. unfold isfile in *. rewrite Hfr; [exact G|]. intro X. apply Ht. congruence.
    + inversion H; subst. apply xrel_refl.
  - destruct stale; [eapply IHk; eauto|].
    match type of H with (let '(_, _) := ?X in _) = _ => destruct X as [w1 [r1 o]] eqn:E end.
    apply (m_build_file_X x) in E.
    + apply IHk in H; [|exact Ht]. eapply xrel_trans; [exact E | exact H].
    + intros sa skw Hne. apply IHfn. intro X. inversion X. contradiction.
  - destruct stale; [eapply IHk; eauto|].
    match type of H with (let '(_, _) := ?X in _) = _ => destruct X as [w1 [r1 o]] eqn:E end.
    apply (m_subbuild_X x) in E.
    + apply IHk in H; [|exact Ht]. eapply xrel_trans; [exact E | exact H].
    + intros sa skw. apply IHfn. discriminate.
Qed.

(* ================================================================== *)
(** * 6. After the repair of D15: the replay never hashes a claimed path *)
(* ================================================================== *)

(* (Model/Builder.v [is_op_cached], OBuildFile case: the test "the path is claimed
   in the new cache, or is the cache file" now comes before the file is compared.)
   The overlay of files "created so far" by a replay holds unclaimed paths only. *)
Definition cf_ok (c : cache) (cf : cfiles) : Prop :=
  forall p, mem_path p (cf_files cf) = true -> cache_has_file c p = false.
Definition cfo_ok (c : cache) (cfo : option cfiles) : Prop :=
  forall cf, cfo = Some cf -> cf_ok c cf.

Lemma cfo_ok_None : forall c, cfo_ok c None.
Proof. intros c cf H. discriminate H. Qed.
Lemma cf_ok_empty : forall c, cf_ok c cf_empty.
Proof. intros c p H. discriminate H. Qed.

(* ---- the overlay operations that do not add a file ---- *)
Lemma cf_add_to_subfiles_files : forall c p, cf_files (cf_add_to_subfiles c p) = cf_files c.
Proof. intros c [|n d]; reflexivity. Qed.

Lemma cf_started_from_files : forall parent c, cf_files (cf_started_from c parent) = cf_files c.
Proof.
  induction parent as [|n d IH]; intro c; cbn [cf_started_from]; cbv zeta.
  - destruct (Nat.ltb 0 _); [reflexivity|]. rewrite cf_add_to_subfiles_files. reflexivity.
  - destruct (Nat.ltb 0 _); [reflexivity|]. rewrite IH, cf_add_to_subfiles_files. reflexivity.
Qed.

Lemma cf_started_files : forall c p, cf_files (cf_started c p) = cf_files c.
Proof. intros c [|n d]; [reflexivity|]. apply cf_started_from_files. Qed.

Lemma cf_remove_from_subfiles_files : forall c p c', cf_remove_from_subfiles c p = Some c' -> cf_files c' = cf_files c.
Proof.
  intros c [|n d] c' H; cbn [cf_remove_from_subfiles] in H; [inversion H; reflexivity|].
  destruct (sub_get (cf_sub c) d); [|discriminate H].
  destruct (negb (mem_str n l)); [discriminate H|]. inversion H; reflexivity.
Qed.

Lemma cf_error_from_files : forall parent c c', cf_error_from c parent = Some c' -> cf_files c' = cf_files c.
Proof.
  induction parent as [|n d IH]; intros c c' H; cbn [cf_error_from] in H.
  - destruct (cnt_get (cf_counts c) []); [|discriminate H]. cbv zeta in H.
    destruct (Nat.ltb 0 _); [inversion H; reflexivity|].
    destruct (negb (mem_path [] (cf_dirs c))); [discriminate H|].
    match type of H with match ?X with _ => _ end = _ => destruct X as [c2|] eqn:E end; [|discriminate H].
    inversion H; subst. apply cf_remove_from_subfiles_files in E. exact E.
  - destruct (cnt_get (cf_counts c) (n :: d)); [|discriminate H]. cbv zeta in H.
    destruct (Nat.ltb 0 _); [inversion H; reflexivity|].
    destruct (negb (mem_path (n :: d) (cf_dirs c))); [discriminate H|].
    match type of H with match ?X with _ => _ end = _ => destruct X as [c2|] eqn:E end; [|discriminate H].
    apply IH in H. apply cf_remove_from_subfiles_files in E. cbn [cf_files cf_with] in E. congruence.
Qed.

Lemma cf_error_files : forall c p c', cf_error c p = Some c' -> cf_files c' = cf_files c.
Proof. intros c [|n d] c' H; cbn [cf_error] in H; [inversion H; reflexivity|]. eapply cf_error_from_files; eauto. Qed.

Lemma mem_path_add : forall q p l, mem_path q (add_path p l) = true -> q = p \/ mem_path q l = true.
Proof.
  intros q p l H. unfold add_path in H. destruct (mem_path p l); [right; exact H|].
  induction l as [|x l IH]; cbn [app mem_path] in H.
  - rewrite orb_false_r in H. apply path_eqb_eq in H. left. symmetry. exact H.
  - apply orb_true_iff in H. destruct H as [H|H]; [right; cbn [mem_path]; rewrite H; reflexivity|].
    destruct (IH H) as [X|X]; [left; exact X | right; cbn [mem_path]; rewrite X; apply orb_true_r].
Qed.

Lemma cf_ok_finished : forall c cf p, cf_ok c cf -> cache_has_file c p = false -> cf_ok c (cf_finished cf p).
Proof.
  intros c cf p H Hp q Hq. unfold cf_finished in Hq. rewrite cf_add_to_subfiles_files in Hq. cbn [cf_files cf_with] in Hq.
  apply mem_path_add in Hq. destruct Hq as [->|Hq]; [exact Hp | apply H; exact Hq].
Qed.

(* ---- read() under an overlay ---- *)
Lemma is_file_no_read_pending_cf : forall p cfo w w' r, cfo_ok (w_new w) cfo ->
  is_file_no_read p cfo w = (w', r) -> w' = w /\ (pending (w_new w) p -> r = inl (Some false)).
Proof.
  intros p cfo w w' r Hc H. unfold is_file_no_read in H.
  destruct (cf_has_file cfo p) eqn:E1.
  { inversion H; subst. split; [reflexivity|]. intro Hp. exfalso.
    destruct cfo as [cf|]; [|discriminate E1]. cbn [cf_has_file] in E1.
    pose proof (pending_has_file _ _ Hp) as Y. pose proof (Hc cf eq_refl p E1) as X. congruence. }
  destruct (cf_has_dir cfo p). { inversion H; subst. split; reflexivity. }
  unfold pending, cache_has_file, cache_get_file in *.
  destruct (path_eqb p (w_cachefile w)).
  { inversion H; subst. split; reflexivity. }
  destruct (files_get (c_files (w_new w)) p) as [[o|]|].
  - inversion H; subst. split; [reflexivity|]. discriminate.
  - inversion H; subst. split; reflexivity.
  - split; [destruct (cache_created_file (w_old w) p); inversion H; reflexivity | discriminate].
Qed.

Lemma m_read_strict_cf : forall p c cfo w w' r, cfo_ok (w_new w) cfo ->
  m_read p c cfo w = (w', r) -> hx true w w'.
Proof.
  intros p c cfo w w' r Hcf H. unfold m_read in H.
  apply bind_inv in H. destruct H as [(w1 & nr & E1 & H) | (e & E1 & _)].
  2:{ apply (hsame_hx true). exact (is_file_no_read_hs p cfo w w' _ E1). }
  apply (is_file_no_read_pending_cf _ _ _ _ _ Hcf) in E1. destruct E1 as [-> Hp].
  apply bind_inv in H. destruct H as [(w2 & u & E2 & H) | (e & E2 & _)].
  - assert (Np : ~ pending (w_new w) p).
    { intro X. specialize (Hp X). inversion Hp; subst nr.
      apply bind_inv in E2. destruct E2 as [(w3 & d & E3 & E2) | (e & _ & E2)]; [|discriminate E2].
      destruct d; discriminate E2. }
    assert (S2 : hsame w w2).
    { refine ((_ : pres HSPO _) w w2 _ E2). pres_auto. }
    apply (hx_trans true w w2 w'); [apply (hsame_hx true); exact S2|].
    destruct S2 as (O2 & F2 & N2 & H2).
    apply bind_inv in H. destruct H as [(w3 & res & E3 & H) | (e & E3 & _)].
    + assert (X3 : hx true w2 w3).
      { apply catch_inv in E3. destruct E3 as [(a & E3 & _) | (w4 & e & E3 & E4)].
        - eapply file_comparison_result_hx; [exact E3|]. intros _. rewrite N2. exact Np.
        - apply (hx_trans true w2 w4 w3).
          + eapply file_comparison_result_hx; [exact E3|]. intros _. rewrite N2. exact Np.
          + apply (hsame_hx true). refine ((_ : pres HSPO _) w4 w3 _ E4). pres_auto. }
      apply (hx_trans true w2 w3 w'); [exact X3|].
      apply (hsame_hx true). refine ((_ : pres HSPO _) w3 w' _ H). pres_auto.
    + apply catch_inv in E3. destruct E3 as [(a & _ & E3) | (w4 & e0 & E3 & E4)]; [discriminate E3|].
      apply (hx_trans true w2 w4 w').
      * eapply file_comparison_result_hx; [exact E3|]. intros _. rewrite N2. exact Np.
      * apply (hsame_hx true). refine ((_ : pres HSPO _) w4 w' _ E4). pres_auto.
  - apply (hsame_hx true). refine ((_ : pres HSPO _) w w' _ E2). pres_auto.
Qed.

Lemma exec_query_strict_cf : forall q cfo w w' r, cfo_ok (w_new w) cfo ->
  exec_query q cfo w = (w', r) -> hx true w w'.
Proof.
  intros q cfo w w' r Hcf H. destruct q; cbn [exec_query] in H;
    try (refine ((_ : pres (HXPO true) _) w w' _ H); solve [pres_auto]).
  eapply m_read_strict_cf; eauto.
Qed.

(* ---- a small Hoare logic: strict footprint + a fact about the result, for
        computations started in a world whose new cache is c0 ---- *)
Definition sg {A} (c0 : cache) (Q : A -> Prop) (m : M A) : Prop :=
  forall w w' r, w_new w = c0 -> m w = (w', r) -> hx true w w' /\ (forall a, r = inl a -> Q a).

Lemma hx_new : forall s w w', hx s w w' -> w_new w' = w_new w.
Proof. intros s w w' (_ & _ & N & _). exact N. Qed.

Lemma sg_ret : forall A c0 (Q : A -> Prop) a, Q a -> sg c0 Q (ret a).
Proof. intros A c0 Q a Ha w w' r _ H. inversion H; subst w' r. split; [apply hx_refl|]. intros a0 E. inversion E; subst a0. exact Ha. Qed.
Lemma sg_raise : forall A c0 (Q : A -> Prop) e, sg c0 Q (raise e).
Proof. intros A c0 Q e w w' r _ H. inversion H; subst w' r. split; [apply hx_refl|]. intros a0 E. discriminate E. Qed.
Lemma sg_get : forall c0, sg c0 (fun w0 => w_new w0 = c0) get.
Proof. intros c0 w w' r Hw H. unfold get in H. inversion H. split; [apply hx_refl|]. intros a E. inversion E. subst a. subst w'. exact Hw. Qed.
Lemma sg_pres : forall A c0 (m : M A), pres (HXPO true) m -> sg c0 (fun _ => True) m.
Proof. intros A c0 m Hm w w' r _ H. split; [exact (Hm w w' r H) | trivial]. Qed.
Lemma sg_bind : forall A B c0 (Q1 : A -> Prop) (Q2 : B -> Prop) (m : M A) (f : A -> M B),
  sg c0 Q1 m -> (forall a, Q1 a -> sg c0 Q2 (f a)) -> sg c0 Q2 (bind m f).
Proof.
  intros A B c0 Q1 Q2 m f Hm Hf w w' r Hw H. unfold bind in H.
  destruct (m w) as [w1 [a|e]] eqn:E.
  - destruct (Hm w w1 _ Hw E) as [X1 Y1].
    assert (Hw1 : w_new w1 = c0) by (rewrite (hx_new _ _ _ X1); exact Hw).
    destruct (Hf a (Y1 a eq_refl) w1 w' r Hw1 H) as [X2 Y2].
    split; [eapply hx_trans; eauto | exact Y2].
  - inversion H; subst w1 r. destruct (Hm w w' _ Hw E) as [X1 _]. split; [exact X1|]. intros a E0. discriminate E0.
Qed.
Lemma sg_conseq : forall A c0 (Q Q' : A -> Prop) (m : M A), (forall a, Q a -> Q' a) -> sg c0 Q m -> sg c0 Q' m.
Proof. intros A c0 Q Q' m HQ Hm w w' r Hw H. destruct (Hm w w' r Hw H) as [X Y]. split; [exact X|]. intros a E. apply HQ, Y, E. Qed.
Lemma sg_ext : forall A c0 (Q : A -> Prop) (m m' : M A), (forall w, m w = m' w) -> sg c0 Q m' -> sg c0 Q m.
Proof. intros A c0 Q m m' E Hm w w' r Hw H. rewrite E in H. eapply Hm; eauto. Qed.
Lemma sg_attempt : forall A c0 (m : M A), sg c0 (fun _ => True) m -> sg c0 (fun _ => True) (attempt m).
Proof.
  intros A c0 m Hm w w' r Hw H. unfold attempt in H. destruct (m w) as [w1 x] eqn:E. inversion H; subst w' r.
  destruct (Hm w w1 _ Hw E) as [X _]. split; [exact X | trivial].
Qed.

Lemma exec_query_sg : forall q cf c0, cf_ok c0 cf -> sg c0 (fun _ => True) (exec_query q (Some cf)).
Proof.
  intros q cf c0 Hc w w' r Hw H. split; [|trivial]. eapply exec_query_strict_cf; [|exact H].
  intros cf' E. inversion E; subst cf'. rewrite Hw. exact Hc.
Qed.

Lemma is_simple_operation_cached_sg : forall q r ex cf c0, cf_ok c0 cf ->
  sg c0 (fun _ => True) (is_simple_operation_cached q r ex cf).
Proof.
  intros q r ex cf c0 Hc. unfold is_simple_operation_cached.
  eapply sg_bind; [apply sg_attempt, exec_query_sg; exact Hc|]. intros a _.
  destruct a as [v|[| | |c|]]; first [apply sg_ret; trivial | apply sg_raise].
Qed.

Lemma is_build_file_cached_sg : forall p c r c0, cache_has_file c0 p = false ->
  sg c0 (fun _ => True) (is_build_file_cached p c r).
Proof.
  intros p c r c0 Hp w w' res Hw H. split; [|trivial].
  assert (Np : ~ pending (w_new w) p).
  { intro X. apply pending_has_file in X. congruence. }
  unfold is_build_file_cached in H.
  apply bind_inv in H. destruct H as [(w1 & cur & E1 & H) | (e & E1 & _)].
  - inversion H; subst. unfold noneable_cmp in E1. apply catch_inv in E1.
    destruct E1 as [(a & E1 & _) | (w4 & e & E1 & E4)].
    + eapply file_comparison_result_hx; [exact E1 | intros _; exact Np].
    + apply (hx_trans true w w4 w').
      * eapply file_comparison_result_hx; [exact E1 | intros _; exact Np].
      * apply (hsame_hx true). refine ((_ : pres HSPO _) w4 w' _ E4). pres_auto.
  - unfold noneable_cmp in E1. apply catch_inv in E1.
    destruct E1 as [(a & _ & E1) | (w4 & e0 & E1 & E4)]; [discriminate E1|].
    apply (hx_trans true w w4 w').
    + eapply file_comparison_result_hx; [exact E1 | intros _; exact Np].
    + apply (hsame_hx true). refine ((_ : pres HSPO _) w4 w' _ E4). pres_auto.
Qed.

Definition ok_snd (c0 : cache) (r : bool * cfiles) : Prop := cf_ok c0 (snd r).

Lemma are_subs_cached_sg_F : forall c0 subs,
  Forall (fun o => forall cf, cf_ok c0 cf -> sg c0 (ok_snd c0) (is_op_cached o cf)) subs ->
  forall cf, cf_ok c0 cf -> sg c0 (ok_snd c0) (are_subs_cached subs cf).
Proof.
  intros c0 subs HF. induction HF as [|s rest Hs HF IH]; intros cf Hc; cbn [are_subs_cached].
  - apply sg_ret. exact Hc.
  - eapply sg_bind; [apply Hs; exact Hc|]. intros r Hr. destruct (fst r); [apply IH; exact Hr | apply sg_ret; exact Hr].
Qed.

Theorem is_op_cached_sg : forall c0 o cf, cf_ok c0 cf -> sg c0 (ok_snd c0) (is_op_cached o cf).
Proof.
  intros c0.
  induction o as [q r e | p c f a k subs r cr ra sf IH | f a k subs r ra sf IH] using op_ind';
    intros cf Hc; cbn [is_op_cached].
  - eapply sg_bind; [apply is_simple_operation_cached_sg; exact Hc|]. intros b _. apply sg_ret. exact Hc.
  - eapply sg_bind; [apply sg_get|]. intros w0 Hw0. cbv beta.
    destruct (cache_has_file (w_new w0) p || path_eqb p (w_cachefile w0)) eqn:G; [apply sg_ret; exact Hc|].
    apply orb_false_iff in G. destruct G as [G _]. rewrite Hw0 in G.
    eapply sg_bind; [apply sg_pres; pres_auto|]. intros ve _.
    destruct (negb ve); [apply sg_ret; exact Hc|].
    eapply sg_bind with (Q1 := fun _ => True).
    { destruct ra; [apply sg_ret; trivial | apply is_build_file_cached_sg; exact G]. }
    intros ok _. destruct (negb ok); [apply sg_ret; exact Hc|].
    eapply sg_bind; [apply sg_get|]. intros w1 _. cbv beta.
    destruct (ra && lexists (w_fs w1) p); [apply sg_ret; exact Hc|].
    destruct sf; [apply sg_ret; exact Hc|].
    eapply sg_bind; [apply sg_pres; pres_auto|]. intros d _.
    destruct d as [ds|e]; [|destruct (is_os e); [apply sg_ret; exact Hc | apply sg_raise]].
    eapply sg_bind.
    { eapply sg_ext; [intro; apply subs_go_eq|]. apply (are_subs_cached_sg_F c0 subs IH).
      intros q Hq. rewrite cf_started_files in Hq. apply Hc. exact Hq. }
    intros r0 Hr0. unfold ok_snd in Hr0.
    destruct (negb (fst r0)); [apply sg_ret; exact Hr0|].
    destruct ra.
    + destruct (cf_error (snd r0) p) as [cf2|] eqn:E2; [|apply sg_raise].
      apply sg_ret. unfold ok_snd. cbn [snd]. intros q Hq. rewrite (cf_error_files _ _ _ E2) in Hq. apply Hr0. exact Hq.
    + apply sg_ret. unfold ok_snd. cbn [snd]. apply cf_ok_finished; assumption.
  - eapply sg_bind; [apply sg_pres; pres_auto|]. intros ve _.
    destruct (negb ve || sf); [apply sg_ret; exact Hc|].
    eapply sg_bind; [apply sg_get|]. intros w1 _. cbv beta.
    destruct (cache_has_subbuild (w_new w1) (subbuild_key f a k)); [apply sg_ret; exact Hc|].
    eapply sg_ext; [intro; apply subs_go_eq|]. apply (are_subs_cached_sg_F c0 subs IH). exact Hc.
Qed.

Lemma are_subs_cached_strict : forall subs, pres (HXPO true) (are_subs_cached subs cf_empty).
Proof.
  intros subs w w' r H.
  refine (proj1 (are_subs_cached_sg_F (w_new w) subs _ cf_empty (cf_ok_empty _) w w' r eq_refl H)).
  apply Forall_forall. intros o _ cf Hc. apply is_op_cached_sg. exact Hc.
Qed.
#[local] Hint Resolve are_subs_cached_strict : pres.

Lemma subbuild_cache_lookup_strict : forall key f, pres (HXPO true) (subbuild_cache_lookup key f).
Proof. intros key f. unfold subbuild_cache_lookup. pres_auto. Qed.

(* ================================================================== *)
(** * 6b. The previous cache is never touched                           *)
(* ================================================================== *)

Definition osame (w w' : world) : Prop := w_old w' = w_old w.
Lemma osame_refl : forall w, osame w w. Proof. reflexivity. Qed.
Lemma osame_trans : forall a b c, osame a b -> osame b c -> osame a c.
Proof. unfold osame. intros; congruence. Qed.
Definition OPO : PO := {| rel := osame; po_refl := osame_refl; po_trans := osame_trans |}.
Lemma fstep_osame : forall w w', FSPO w w' -> OPO w w'.
Proof. cbn. intros w w' (O & _). exact O. Qed.
Lemma hx_osame : forall w w', HXPO false w w' -> OPO w w'.
Proof. cbn. intros w w' (O & _). exact O. Qed.
#[local] Hint Extern 8 (pres OPO _) => apply (pres_weaken FSPO OPO _ _ fstep_osame) : pres.
#[local] Hint Extern 8 (pres OPO _) => apply (pres_weaken (HXPO false) OPO _ _ hx_osame) : pres.

Lemma modify_new_O : forall f : world -> cache, pres OPO (modify (fun w => set_new (f w) w)).
Proof. intro f. apply pres_modify. intro w. reflexivity. Qed.
Lemma new_start_building_file_O : forall p, pres OPO (new_start_building_file p).
Proof. intro p. unfold new_start_building_file. apply pres_bind; [auto with pres|]. intros _. apply modify_new_O. Qed.
Lemma new_abort_building_file_O : forall p, pres OPO (new_abort_building_file p).
Proof. intro p. apply modify_new_O. Qed.
Lemma new_finish_building_file_O : forall p o, pres OPO (new_finish_building_file p o).
Proof. intros p o. apply modify_new_O. Qed.
Lemma new_start_subbuild_O : forall k, pres OPO (new_start_subbuild k).
Proof. intro k. unfold new_start_subbuild. apply pres_bind; [auto with pres|]. intros _. apply modify_new_O. Qed.
Lemma new_finish_subbuild_O : forall k o, pres OPO (new_finish_subbuild k o).
Proof. intros k o. apply modify_new_O. Qed.
Lemma new_use_cached_operation_O : forall o, pres OPO (new_use_cached_operation o).
Proof.
  intros o w w' r H. unfold new_use_cached_operation in H. minv H.
  - unfold put in H. inversion H; subst. reflexivity.
  - reflexivity.
Qed.
#[local] Hint Resolve new_start_building_file_O new_abort_building_file_O new_finish_building_file_O
  new_start_subbuild_O new_finish_subbuild_O new_use_cached_operation_O : pres.

Lemma bf_setup_O : forall p c f sa skw, pres OPO (bf_setup p c f sa skw).
Proof. intros. unfold bf_setup, bf_reuse, bf_claim. pres_auto. Qed.
Lemma sb_setup_O : forall f sa skw, pres OPO (sb_setup f sa skw).
Proof. intros. unfold sb_setup. cbv zeta. pres_auto. Qed.
Lemma bf_fail_O : forall p c f sa skw subs e, pres OPO (bf_fail p c f sa skw subs e).
Proof.
  intros p c f sa skw subs e w w' r H. unfold bf_fail in H. cbv zeta in H.
  match type of H with (match ?X with _ => _ end) = _ => destruct X as [w1 [u|e1]] eqn:E end;
    inversion H; subst; refine ((_ : pres OPO _) _ _ _ E); pres_auto.
Qed.
Lemma bf_finish_O : forall p c f sa skw res subs, pres OPO (bf_finish p c f sa skw res subs).
Proof.
  intros p c f sa skw res subs w w' r H. unfold bf_finish in H.
  destruct res as [v|e]; [|eapply bf_fail_O; eassumption].
  destruct (sanitize v) as [sv|]; [|eapply bf_fail_O; eassumption].
  destruct (noneable_cmp p c w) as [w4 [cmp|e]] eqn:E.
  - assert (Q : osame w w4) by (apply hx_osame; exact (noneable_cmp_hxf p c w w4 _ E)).
    eapply osame_trans; [exact Q|].
    destruct cmp; try (eapply bf_fail_O; eassumption).
    all: cbv zeta in H;
      match type of H with (match ?X with _ => _ end) = _ => destruct X as [w5 u] eqn:E5 end;
      inversion H; subst; exact (new_finish_building_file_O _ _ _ _ _ E5).
  - assert (Q : osame w w4) by (apply hx_osame; exact (noneable_cmp_hxf p c w w4 _ E)).
    eapply osame_trans; [exact Q|]. eapply bf_fail_O; eassumption.
Qed.
Theorem m_build_file_O : forall p c f a kw (fn : path -> pyval -> pyval -> body),
  (forall sa skw, pres OPO (fn p sa skw)) -> pres OPO (m_build_file p c f a kw fn).
Proof.
  intros p c f a kw fn Hfn w w' r H. rewrite m_build_file_unfold in H.
  destruct (sanitize a) as [sa|]; [|inversion H; subst; reflexivity].
  destruct (sanitize kw) as [skw|]; [|inversion H; subst; reflexivity].
  destruct (bf_setup p c f sa skw w) as [w1 [[[o|[e o]]|]|e]] eqn:Hs;
    try (inversion H; subst; exact (bf_setup_O _ _ _ _ _ _ _ _ Hs)).
  unfold bf_rebuild in H.
  destruct (fn p sa skw (bf_invoke_world p f sa skw w1)) as [w3 [res subs]] eqn:Ef.
  eapply osame_trans; [exact (bf_setup_O _ _ _ _ _ _ _ _ Hs)|].
  eapply osame_trans; [|exact (bf_finish_O _ _ _ _ _ _ _ _ _ _ H)].
  exact (Hfn sa skw _ _ _ Ef).
Qed.
Lemma sb_finish_O : forall f sa skw res subs, pres OPO (sb_finish f sa skw res subs).
Proof.
  intros f sa skw res subs w w' r H. unfold sb_finish in H. cbv zeta in H.
  destruct res as [v|e]; [destruct (sanitize v)|];
    match type of H with (match ?X with _ => _ end) = _ => destruct X as [w5 u] eqn:E5 end;
    inversion H; subst; exact (new_finish_subbuild_O _ _ _ _ _ E5).
Qed.
Theorem m_subbuild_O : forall f a kw (fn : pyval -> pyval -> body),
  (forall sa skw, pres OPO (fn sa skw)) -> pres OPO (m_subbuild f a kw fn).
Proof.
  intros f a kw fn Hfn w w' r H. rewrite m_subbuild_unfold in H.
  destruct (sanitize a) as [sa|]; [|inversion H; subst; reflexivity].
  destruct (sanitize kw) as [skw|]; [|inversion H; subst; reflexivity].
  destruct (sb_setup f sa skw w) as [w1 [[[o|[e o]]|]|e]] eqn:Hs;
    try (inversion H; subst; exact (sb_setup_O _ _ _ _ _ _ Hs)).
  unfold sb_rebuild in H.
  destruct (fn sa skw (sb_invoke_world f sa skw w1)) as [w3 [res subs]] eqn:Ef.
  eapply osame_trans; [exact (sb_setup_O _ _ _ _ _ _ Hs)|].
  eapply osame_trans; [|exact (sb_finish_O _ _ _ _ _ _ _ _ H)].
  exact (Hfn sa skw _ _ _ Ef).
Qed.
Theorem run_O : forall pr target subs, pres OPO (run pr target subs).
Proof.
  induction pr as [v | e | stale q k IH | c k IH | stale p c f a kw fn IHfn k IHk | stale f a kw fn IHfn k IHk];
    intros target subs w w' r H; cbn [run] in H; change (osame w w').
  - inversion H; subst. reflexivity.
  - inversion H; subst. reflexivity.
  - destruct stale; [eapply IH; eauto|].
    destruct (m_query q w) as [w1 [r1 o]] eqn:E.
    pose proof (m_query_strict q w w1 _ E) as (O & _). apply IH in H.
    unfold osame in *. rewrite H. unfold log_answer.
    repeat match goal with |- context [match ?y with _ => _ end] => destruct y end; exact O.
  - destruct target as [t|]; [|eapply IH; eauto].
    destruct (write_file (w_fs w) t c None (N.succ (w_clock w)) (w_nextid w)) as [fs'|e] eqn:E.
    + apply IH in H. exact H.
    + inversion H; subst. reflexivity.
  - destruct stale; [eapply IHk; eauto|].
    match type of H with (let '(_, _) := ?X in _) = _ => destruct X as [w1 [r1 o]] eqn:E end.
    apply m_build_file_O in E; [|intros sa skw; apply IHfn].
    apply IHk in H. eapply osame_trans; [exact E | exact H].
  - destruct stale; [eapply IHk; eauto|].
    match type of H with (let '(_, _) := ?X in _) = _ => destruct X as [w1 [r1 o]] eqn:E end.
    apply m_subbuild_O in E; [|intros sa skw; apply IHfn].
    apply IHk in H. eapply osame_trans; [exact E | exact H].
Qed.

(* ================================================================== *)
(** * 7. A claimed path and the memo, for every nested call              *)
(* ================================================================== *)

(* the file table of the previous build's cache is keyed by the paths of its
   records (true of the empty cache and of every cache Cache.read_immutable
   returns: HashMemoRun.v) *)
Definition old_keys_ok (c : cache) : Prop :=
  forall p p' cm f a k subs r cr ra sf,
    cache_get_file c p = Some (OBuildFile p' cm f a k subs r cr ra sf) -> p' = p.

(* the previous cache is untouched; and a path [x] that is claimed and in
   progress stays so, and the memo's view of it does not change at all *)
Definition prel (x : path) (w w' : world) : Prop :=
  w_old w' = w_old w /\
  (old_keys_ok (w_old w) -> pending (w_new w) x ->
   pending (w_new w') x /\ hash_get (w_hash w') x = hash_get (w_hash w) x).

Lemma prel_refl : forall x w, prel x w w.
Proof. intros x w. split; [reflexivity|]. intros _ H. split; [exact H | reflexivity]. Qed.
Lemma prel_trans : forall x a b c, prel x a b -> prel x b c -> prel x a c.
Proof.
  intros x a b c [O1 H1] [O2 H2]. split; [congruence|]. intros Hk Hp.
  destruct (H1 Hk Hp) as [Pb E1]. rewrite <- O1 in Hk. destruct (H2 Hk Pb) as [Pc E2].
  split; [exact Pc | congruence].
Qed.
Definition PPO (x : path) : PO := {| rel := prel x; po_refl := prel_refl x; po_trans := prel_trans x |}.

Lemma hx_prel : forall x w w', HXPO true w w' -> PPO x w w'.
Proof.
  cbn. intros x w w' H. pose proof H as (O & _ & N & _). split; [exact O|]. intros _ Hp.
  unfold pending in *. rewrite N. split; [exact Hp|]. apply hx_strict_pending; assumption.
Qed.
Lemma fstep_prel : forall x w w', FSPO w w' -> PPO x w w'.
Proof.
  cbn. intros x w w' (O & N & Hh & _). split; [exact O|]. intros _ Hp. unfold pending in *. rewrite N, Hh. auto.
Qed.
#[local] Hint Extern 8 (pres (PPO _) _) => apply (pres_weaken FSPO (PPO _) _ _ (fstep_prel _)) : pres.
#[local] Hint Extern 8 (pres (PPO _) _) => apply (pres_weaken (HXPO true) (PPO _) _ _ (hx_prel _)) : pres.

Lemma prel_new : forall x w c', (pending (w_new w) x -> pending c' x) -> prel x w (set_new c' w).
Proof. intros x w c' H. split; [reflexivity|]. intros _ Hp. split; [exact (H Hp) | reflexivity]. Qed.
Lemma prel_set_log : forall x l w, prel x w (set_log l w).
Proof. intros x l w. split; [reflexivity|]. intros _ Hp. split; [exact Hp | reflexivity]. Qed.

(* hashing another path *)
Lemma file_hash_prel : forall x p, p <> x -> pres (PPO x) (file_hash p).
Proof.
  intros x p Hne w w' r H. pose proof (file_hash_hxf p w w' r H) as (O & _ & N & _).
  split; [exact O|]. intros _ Hp. unfold pending in *. rewrite N. split; [exact Hp|].
  unfold file_hash in H. cbv zeta in H. apply path_eqb_neq in Hne.
  repeat dm H; inversion H; subst; try reflexivity; cbn [w_hash set_hash hash_get]; rewrite Hne; reflexivity.
Qed.
Lemma file_comparison_result_prel : forall x p c, p <> x -> pres (PPO x) (file_comparison_result p c).
Proof. intros x p c Hne. destruct c; cbn [file_comparison_result]; [pres_auto | apply file_hash_prel; exact Hne]. Qed.
Lemma noneable_cmp_prel : forall x p c, p <> x -> pres (PPO x) (noneable_cmp p c).
Proof. intros x p c Hne. unfold noneable_cmp. pres_auto. apply file_comparison_result_prel. exact Hne. Qed.
Lemma is_build_file_cached_prel : forall x p c r, p <> x -> pres (PPO x) (is_build_file_cached p c r).
Proof. intros x p c r Hne. unfold is_build_file_cached. pres_auto. apply noneable_cmp_prel. exact Hne. Qed.

Lemma build_file_cache_lookup_prel : forall x p f a k, p <> x -> pres (PPO x) (build_file_cache_lookup p f a k).
Proof.
  intros x p f a k Hne w w' r H.
  assert (O : w_old w' = w_old w).
  { pose proof (build_file_cache_lookup_svb p f a k w w' r H) as (_ & _ & _ & X & _). exact X. }
  split; [exact O|]. intros Hk Hp.
  unfold build_file_cache_lookup in H. unfold bind at 1, get in H.
  destruct (cache_get_file (w_old w) p) as [[q0 r0 e0 | p' c' f' a' k' subs' r' cr' ra' sf' | f' a' k' subs' r' ra']|] eqn:E;
    try (inversion H; subst; split; [exact Hp | reflexivity]).
  pose proof (Hk _ _ _ _ _ _ _ _ _ _ _ E) as X. subst p'.
  refine (proj2 ((_ : pres (PPO x) _) w w' r H) Hk Hp).
  pres_auto. apply is_build_file_cached_prel. exact Hne.
Qed.

Lemma new_start_building_file_P : forall x p, pres (PPO x) (new_start_building_file p).
Proof.
  intros x p w w' r H. unfold new_start_building_file in H.
  apply bind_inv in H. destruct H as [(w0 & u0 & E0 & E1) | (e & E0 & _)].
  2:{ refine ((_ : pres (PPO x) _) _ _ _ E0). pres_auto. }
  assert (Hfree : cache_has_file (w_new w) p = false /\ w0 = w).
  { unfold new_assert_no_file in E0. apply bind_inv in E0.
    destruct E0 as [(w00 & a0 & G & E0) | (e & G & _)]; [|inversion G].
    inversion G; subst w00 a0. destruct (cache_has_file (w_new w) p); [inversion E0|].
    inversion E0; subst. split; reflexivity. }
  destruct Hfree as [Hfree ->]. unfold modify in E1. inversion E1; subst. apply prel_new.
  intro Hp. unfold pending in *. cbn [c_files cache_with]. rewrite files_get_set.
  destruct (path_eqb p x) eqn:E; [|exact Hp].
  apply path_eqb_eq in E. subst p. unfold cache_has_file in Hfree. rewrite Hp in Hfree. discriminate Hfree.
Qed.
Lemma new_abort_building_file_P : forall x p, p <> x -> pres (PPO x) (new_abort_building_file p).
Proof.
  intros x p Hne. unfold new_abort_building_file. apply pres_modify. intro w. apply prel_new.
  intro Hp. unfold pending in *. cbn [c_files cache_with]. rewrite files_get_del.
  apply path_eqb_neq in Hne. rewrite Hne. exact Hp.
Qed.
Lemma new_finish_building_file_P : forall x p o, p <> x -> pres (PPO x) (new_finish_building_file p o).
Proof.
  intros x p o Hne. unfold new_finish_building_file. apply pres_modify. intro w. apply prel_new.
  intro Hp. unfold pending in *. cbn [c_files cache_with]. rewrite files_get_set.
  apply path_eqb_neq in Hne. rewrite Hne. exact Hp.
Qed.
Lemma new_start_subbuild_P : forall x k, pres (PPO x) (new_start_subbuild k).
Proof.
  intros x k. unfold new_start_subbuild. apply pres_bind; [auto with pres|]. intros _.
  apply pres_modify. intro w. apply prel_new. intro Hp. exact Hp.
Qed.
Lemma new_finish_subbuild_P : forall x k o, pres (PPO x) (new_finish_subbuild k o).
Proof. intros x k o. unfold new_finish_subbuild. apply pres_modify. intro w. apply prel_new. intro Hp. exact Hp. Qed.
Lemma new_use_cached_operation_P : forall x o, pres (PPO x) (new_use_cached_operation o).
Proof.
  intros x o w w' r H. unfold new_use_cached_operation in H. minv H.
  - unfold put in H. inversion H; subst. apply prel_new. intro Hp.
    eapply register_op_keeps_pending; eauto. apply pending_has_file. exact Hp.
  - apply prel_refl.
Qed.
#[local] Hint Resolve new_start_building_file_P new_start_subbuild_P new_finish_subbuild_P
  new_use_cached_operation_P subbuild_cache_lookup_strict : pres.

Lemma bf_reuse_P : forall x p c f sa skw cached, p <> x -> pres (PPO x) (bf_reuse p c f sa skw cached).
Proof. intros x p c f sa skw cached Hne. unfold bf_reuse. pres_auto. apply noneable_cmp_prel. exact Hne. Qed.
Lemma bf_claim_P : forall x p, p <> x -> pres (PPO x) (bf_claim p).
Proof. intros x p Hne. unfold bf_claim. pres_auto. apply new_abort_building_file_P. exact Hne. Qed.
Lemma bf_setup_P : forall x p c f sa skw, p <> x -> pres (PPO x) (bf_setup p c f sa skw).
Proof.
  intros x p c f sa skw Hne. unfold bf_setup. pres_auto.
  - apply build_file_cache_lookup_prel. exact Hne.
  - apply bf_reuse_P. exact Hne.
  - apply bf_claim_P. exact Hne.
Qed.
Lemma sb_setup_P : forall x f sa skw, pres (PPO x) (sb_setup f sa skw).
Proof. intros. unfold sb_setup. cbv zeta. pres_auto. Qed.

Lemma bf_fail_P : forall x p c f sa skw subs e, p <> x -> pres (PPO x) (bf_fail p c f sa skw subs e).
Proof.
  intros x p c f sa skw subs e Hne w w' r H. unfold bf_fail in H. cbv zeta in H.
  match type of H with (match ?X with _ => _ end) = _ => destruct X as [w1 [u|e1]] eqn:E end;
    inversion H; subst; refine ((_ : pres (PPO x) _) _ _ _ E); pres_auto;
    apply new_finish_building_file_P; exact Hne.
Qed.

Lemma bf_finish_P : forall x p c f sa skw res subs, p <> x -> pres (PPO x) (bf_finish p c f sa skw res subs).
Proof.
  intros x p c f sa skw res subs Hne w w' r H. unfold bf_finish in H.
  destruct res as [v|e]; [|eapply bf_fail_P; eassumption].
  destruct (sanitize v) as [sv|]; [|eapply bf_fail_P; eassumption].
  destruct (noneable_cmp p c w) as [w4 [cmp|e]] eqn:E.
  - assert (Q : prel x w w4) by exact (noneable_cmp_prel x p c Hne w w4 _ E).
    eapply prel_trans; [exact Q|].
    destruct cmp; try (eapply bf_fail_P; eassumption).
    all: cbv zeta in H;
      match type of H with (match ?X with _ => _ end) = _ => destruct X as [w5 u] eqn:E5 end;
      inversion H; subst; exact (new_finish_building_file_P x _ _ Hne _ _ _ E5).
  - assert (Q : prel x w w4) by exact (noneable_cmp_prel x p c Hne w w4 _ E).
    eapply prel_trans; [exact Q|]. eapply bf_fail_P; eassumption.
Qed.

Theorem m_build_file_P : forall x p c f a kw (fn : path -> pyval -> pyval -> body),
  (forall sa skw, p <> x -> pres (PPO x) (fn p sa skw)) ->
  (forall sa skw, pres OPO (fn p sa skw)) ->
  pres (PPO x) (m_build_file p c f a kw fn).
Proof.
  intros x p c f a kw fn Hfn Hold w w' r H.
  destruct (path_eqb p x) eqn:Epx.
  { apply path_eqb_eq in Epx. subst p.
    destruct (cache_has_file (w_new w) x) eqn:Eh.
    - destruct (sanitize a) as [sa|] eqn:Ea.
      2:{ rewrite (bf_type_error x c f a kw fn w (or_introl Ea)) in H. inversion H; subst. apply prel_refl. }
      destruct (sanitize kw) as [skw|] eqn:Ek.
      2:{ rewrite (bf_type_error x c f a kw fn w (or_intror Ek)) in H. inversion H; subst. apply prel_refl. }
      rewrite (dup_file_rejected x c f a kw fn w sa skw Ea Ek Eh) in H. inversion H; subst. apply prel_refl.
    - (* x is not claimed: only the previous cache matters *)
      split; [|intros _ Hp; apply pending_has_file in Hp; congruence].
      exact (m_build_file_O x c f a kw fn Hold w w' r H). }
  apply path_eqb_neq in Epx.
  rewrite m_build_file_unfold in H.
  destruct (sanitize a) as [sa|]; [|inversion H; subst; apply prel_refl].
  destruct (sanitize kw) as [skw|]; [|inversion H; subst; apply prel_refl].
  destruct (bf_setup p c f sa skw w) as [w1 [[[o|[e o]]|]|e]] eqn:Hs.
  - inversion H; subst. exact (bf_setup_P x _ _ _ _ _ Epx _ _ _ Hs).
  - inversion H; subst. exact (bf_setup_P x _ _ _ _ _ Epx _ _ _ Hs).
  - unfold bf_rebuild in H.
    destruct (fn p sa skw (bf_invoke_world p f sa skw w1)) as [w3 [res subs]] eqn:Ef.
    eapply prel_trans; [exact (bf_setup_P x _ _ _ _ _ Epx _ _ _ Hs)|].
    eapply prel_trans; [apply (prel_set_log x (LInvoke f (Some p) sa skw :: w_log w1) w1)|].
    eapply prel_trans; [exact (Hfn sa skw Epx _ _ _ Ef)|].
    exact (bf_finish_P x _ _ _ _ _ _ _ Epx _ _ _ H).
  - inversion H; subst. exact (bf_setup_P x _ _ _ _ _ Epx _ _ _ Hs).
Qed.

Lemma sb_finish_P : forall x f sa skw res subs, pres (PPO x) (sb_finish f sa skw res subs).
Proof.
  intros x f sa skw res subs w w' r H. unfold sb_finish in H. cbv zeta in H.
  destruct res as [v|e]; [destruct (sanitize v)|];
    match type of H with (match ?X with _ => _ end) = _ => destruct X as [w5 u] eqn:E5 end;
    inversion H; subst; exact (new_finish_subbuild_P x _ _ _ _ _ E5).
Qed.

Theorem m_subbuild_P : forall x f a kw (fn : pyval -> pyval -> body),
  (forall sa skw, pres (PPO x) (fn sa skw)) -> pres (PPO x) (m_subbuild f a kw fn).
Proof.
  intros x f a kw fn Hfn w w' r H. rewrite m_subbuild_unfold in H.
  destruct (sanitize a) as [sa|]; [|inversion H; subst; apply prel_refl].
  destruct (sanitize kw) as [skw|]; [|inversion H; subst; apply prel_refl].
  destruct (sb_setup f sa skw w) as [w1 [[[o|[e o]]|]|e]] eqn:Hs;
    try (inversion H; subst; exact (sb_setup_P x _ _ _ _ _ _ Hs)).
  unfold sb_rebuild in H.
  destruct (fn sa skw (sb_invoke_world f sa skw w1)) as [w3 [res subs]] eqn:Ef.
  eapply prel_trans; [exact (sb_setup_P x _ _ _ _ _ _ Hs)|].
  eapply prel_trans; [apply (prel_set_log x (LInvoke f None sa skw :: w_log w1) w1)|].
  eapply prel_trans; [exact (Hfn sa skw _ _ _ Ef)|].
  exact (sb_finish_P x _ _ _ _ _ _ _ _ H).
Qed.

Theorem m_query_P : forall x q, pres (PPO x) (m_query q).
Proof. intros x q w w' r H. apply hx_prel. exact (m_query_strict q w w' r H). Qed.

Lemma prel_log_answer : forall x q r w, prel x w (log_answer q r w).
Proof.
  intros x q r w. unfold log_answer.
  repeat match goal with |- context [match ?y with _ => _ end] => destruct y end;
    first [apply prel_refl | apply prel_set_log].
Qed.

(* user code and everything it calls: a path claimed further up the call stack
   stays claimed, and no entry of the memo is made for it *)
Theorem run_P : forall x pr target subs, target <> Some x -> pres (PPO x) (run pr target subs).
Proof.
  intros x.
  induction pr as [v | e | stale q k IH | c k IH | stale p c f a kw fn IHfn k IHk | stale f a kw fn IHfn k IHk];
    intros target subs Ht w w' r H; cbn [run] in H; change (prel x w w').
  - inversion H; subst. apply prel_refl.
  - inversion H; subst. apply prel_refl.
  - destruct stale; [eapply IH; eauto|].
    destruct (m_query q w) as [w1 [r1 o]] eqn:E.
    apply (m_query_P x) in E. apply IH in H; [|exact Ht].
    eapply prel_trans; [exact E|]. eapply prel_trans; [apply prel_log_answer | exact H].
  - destruct target as [t|]; [|eapply IH; eauto].
    destruct (write_file (w_fs w) t c None (N.succ (w_clock w)) (w_nextid w)) as [fs'|e] eqn:E.
    + apply IH in H; [|exact Ht]. eapply prel_trans; [|exact H].
      split; [reflexivity|]. intros _ Hp. split; [exact Hp | reflexivity].
    + inversion H; subst. apply prel_refl.
  - destruct stale; [eapply IHk; eauto|].
    match type of H with (let '(_, _) := ?X in _) = _ => destruct X as [w1 [r1 o]] eqn:E end.
    apply (m_build_file_P x) in E.
    + apply IHk in H; [|exact Ht]. eapply prel_trans; [exact E | exact H].
    + intros sa skw Hne. apply IHfn. intro X. inversion X. contradiction.
    + intros sa skw. apply run_O.
  - destruct stale; [eapply IHk; eauto|].
    match type of H with (let '(_, _) := ?X in _) = _ => destruct X as [w1 [r1 o]] eqn:E end.
    apply (m_subbuild_P x) in E.
    + apply IHk in H; [|exact Ht]. eapply prel_trans; [exact E | exact H].
    + intros sa skw. apply IHfn. discriminate.
Qed.

(* ================================================================== *)
(** * 8. What a successful read with HASH comparison returns            *)
(* ================================================================== *)

Lemma m_read_hash_result : forall p cfo w w1 v, HashOk w -> m_read p HASH cfo w = (w1, inl v) ->
  exists fl, lookup (w_fs w) p = Some (NFile fl) /\ v = hash_of (f_bytes fl).
Proof.
  intros p cfo w w1 v Hok E. unfold m_read in E.
  apply bind_inv in E. destruct E as [(wa & nr & E1 & E) | (e & _ & E)]; [|discriminate E].
  assert (S1 : hsame w wa) by exact (is_file_no_read_hs p cfo w wa _ E1).
  apply bind_inv in E. destruct E as [(wb & u & E2 & E) | (e & _ & E)]; [|discriminate E].
  assert (S2 : hsame wa wb) by (refine ((_ : pres HSPO _) wa wb _ E2); destruct nr as [[|]|]; cbv beta iota; pres_auto).
  pose proof (hsame_trans _ _ _ S1 S2) as (_ & F2 & N2 & H2).
  assert (Hokb : HashOk wb).
  { intros q h b f Hg Hb Hl. rewrite H2 in Hg. rewrite N2 in Hb. rewrite F2 in Hl. eapply Hok; eauto. }
  apply bind_inv in E. destruct E as [(wc & res & E3 & E) | (e & _ & E)]; [|discriminate E].
  apply bind_inv in E. destruct E as [(wd & u' & E4 & E) | (e & _ & E)]; [|discriminate E].
  inversion E; subst wd res; clear E.
  apply catch_inv in E3. destruct E3 as [(a & E3 & Ea) | (we & e & E3 & E5)].
  - inversion Ea; subst a. cbn [file_comparison_result] in E3.
    destruct (file_hash_spec p wb wc _ Hokb E3) as (_ & F3 & _ & S).
    rewrite F2 in S. destruct (lookup (w_fs w) p) as [[fl|]|] eqn:El.
    + inversion S; subst v. exists fl. split; reflexivity.
    + discriminate S.
    + destruct S as [e S]. discriminate S.
  - exfalso. destruct (is_os_class XFileNotFound e || is_os_class XNotADirectory e); [discriminate E5|].
    destruct (is_os_class XIsADirectory e); [|discriminate E5].
    apply bind_inv in E5. destruct E5 as [(wf & d & _ & E5) | (e' & _ & E5)]; [|discriminate E5].
    destruct d; discriminate E5.
Qed.
