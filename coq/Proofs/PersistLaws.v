(* Proofs/PersistLaws.v — C16, "cache persistence is faithful": every field of
   every operation record survives the write / read cycle of the cache file;
   values come back JSON-equal to what was recorded (and in the normal form
   json.dumps(sort_keys=True) / json.load produces). *)
From Coq Require Import List String Ascii NArith ZArith Bool Arith Lia Permutation.
From FB.Base Require Import PyVal Fs.
From FB.Gen Require Import JsonUtilGen.
From FB.Spec Require Import JsonSpec.
From FB.Model Require Import Types Monad SimpleOps Builder PathNorm Persist PersistSpec.
From FB.Proofs Require Import JsonLaws.
Import ListNotations.
Local Open Scope list_scope.

(* ================================================================== *)
(** * 1. Paths                                                          *)
(* ================================================================== *)

Lemma sapp_assoc : forall a b c : string, ((a ++ b) ++ c = a ++ (b ++ c))%string.
Proof.
  induction a as [|x a IH]; intros b c; cbn [String.append]; [reflexivity|].
  rewrite IH. reflexivity.
Qed.

Lemma sapp_nil_r : forall a : string, (a ++ "" = a)%string.
Proof.
  induction a as [|x a IH]; cbn [String.append]; [reflexivity|].
  rewrite IH. reflexivity.
Qed.

(* "/n1/n2/.../nk" *)
Definition cpath (l : list string) : string :=
  fold_right (fun n s => String "/"%char (n ++ s)%string) EmptyString l.

Lemma path_str_fold : forall l acc,
  fold_left (fun acc n => (acc ++ "/" ++ n)%string) l acc = (acc ++ cpath l)%string.
Proof.
  induction l as [|n l IH]; intro acc; cbn [fold_left cpath fold_right].
  - rewrite sapp_nil_r. reflexivity.
  - rewrite IH. rewrite sapp_assoc. cbn [String.append]. reflexivity.
Qed.

Lemma path_str_cpath : forall p, path_str p = cpath (rev p).
Proof. intro p. unfold path_str. rewrite path_str_fold. reflexivity. Qed.

Lemma split_slash_comp : forall n r cur acc,
  no_slash n = true ->
  split_slash_aux (n ++ r)%string cur acc = split_slash_aux r (cur ++ n)%string acc.
Proof.
  induction n as [|c n IH]; intros r cur acc H.
  - cbn [String.append]. rewrite sapp_nil_r. reflexivity.
  - cbn [no_slash] in H. apply andb_true_iff in H. destruct H as [Hc Hn].
    apply negb_true_iff in Hc.
    cbn [String.append split_slash_aux]. rewrite Hc.
    rewrite IH by assumption. rewrite sapp_assoc. reflexivity.
Qed.

Lemma split_slash_cpath : forall l n cur acc,
  no_slash n = true -> forallb no_slash l = true ->
  split_slash_aux (n ++ cpath l)%string cur acc = rev l ++ (cur ++ n)%string :: acc.
Proof.
  induction l as [|m l IH]; intros n cur acc Hn Hl.
  - cbn [cpath fold_right rev app]. rewrite split_slash_comp by assumption. reflexivity.
  - cbn [forallb] in Hl. apply andb_true_iff in Hl. destruct Hl as [Hm Hl].
    cbn [cpath fold_right]. fold (cpath l).
    rewrite split_slash_comp by assumption.
    cbn [split_slash_aux]. change (Ascii.eqb "/" "/") with true. cbv iota.
    rewrite IH by assumption. cbn [String.append rev].
    rewrite <- app_assoc. reflexivity.
Qed.

Lemma path_wf_no_slash : forall p, path_wf p = true -> forallb no_slash p = true.
Proof.
  intros p H. unfold path_wf in H. rewrite forallb_forall in *. intros x Hx.
  specialize (H x Hx). unfold comp_wf in H. apply andb_true_iff in H. tauto.
Qed.

Lemma str_path_cpath : forall l : list string,
  forallb no_slash l = true -> str_path (cpath l) = rev l.
Proof.
  intros l Hr. destruct l as [|n l]; [reflexivity|].
  cbn [forallb] in Hr. apply andb_true_iff in Hr. destruct Hr as [Hn Hl].
  cbn [cpath fold_right str_path]. fold (cpath l).
  rewrite split_slash_cpath by assumption. reflexivity.
Qed.

(* the textual form determines the path as soon as no component holds "/" *)
Lemma path_roundtrip_ns : forall p, forallb no_slash p = true -> str_path (path_str p) = p.
Proof.
  intros p H. rewrite path_str_cpath. rewrite str_path_cpath.
  - apply rev_involutive.
  - rewrite forallb_forall in *. intros x Hx. apply H. apply in_rev. exact Hx.
Qed.

Theorem path_roundtrip : forall p, path_wf p = true -> str_path (path_str p) = p.
Proof. intros p H. apply path_roundtrip_ns. apply path_wf_no_slash. exact H. Qed.

(* ================================================================== *)
(** * 2. Queries                                                        *)
(* ================================================================== *)

Lemma cmp_name_roundtrip : forall c, cmp_of_name (cmp_name c) = Some c.
Proof. destruct c; reflexivity. Qed.

Lemma err_name_roundtrip : forall c, err_of_name (err_name c) = Some c.
Proof. destruct c; reflexivity. Qed.

Theorem query_roundtrip : forall q,
  query_wf q = true -> query_of (query_name q) (query_args q) = Some q.
Proof.
  intros q H. destruct q; cbn [query_wf] in H;
    cbn [query_name query_args query_of pstr_path];
    rewrite (path_roundtrip _ H); try reflexivity.
  rewrite cmp_name_roundtrip. reflexivity.
Qed.

(* ================================================================== *)
(** * 3. Values                                                         *)
(* ================================================================== *)

(* ---------- mapping the values of a dictionary ---------- *)

Definition vmap (g : pyval -> pyval) (kv : pyval * pyval) : pyval * pyval :=
  match kv with (k, x) => (k, g x) end.

Lemma sort_deep_dict_eq : forall d,
  sort_deep (PDict d) = PDict (sort_items (map (vmap sort_deep) d)).
Proof. reflexivity. Qed.

Lemma sort_deep_list_eq : forall l, sort_deep (PList l) = PList (map sort_deep l).
Proof. reflexivity. Qed.

Lemma kk_vmap : forall g x, kk (vmap g x) = kk x.
Proof. intros g [k v]. reflexivity. Qed.

Lemma keys_vmap : forall g d, keys (map (vmap g) d) = keys d.
Proof.
  intros g d. unfold keys. rewrite map_map. apply map_ext. intros [k v]. reflexivity.
Qed.

Lemma allpstr_vmap : forall g d, allpstr (map (vmap g) d) = allpstr d.
Proof.
  intros g d. unfold allpstr. induction d as [|[k v] d IH]; [reflexivity|].
  cbn [map vmap forallb fst]. rewrite IH. reflexivity.
Qed.

Lemma wfd_vmap : forall g d, wfd d -> wfd (map (vmap g) d).
Proof.
  intros g d [Hp Hn]. split; [rewrite allpstr_vmap | rewrite keys_vmap]; assumption.
Qed.

Lemma insert_by_vmap : forall g x l,
  insert_by lebk (vmap g x) (map (vmap g) l) = map (vmap g) (insert_by lebk x l).
Proof.
  intros g x l. induction l as [|y l IH]; [reflexivity|].
  cbn [map insert_by]. unfold lebk at 1 3. rewrite !kk_vmap.
  destruct (str_leb (kk x) (kk y)); [reflexivity|].
  rewrite IH. reflexivity.
Qed.

Lemma sort_items_vmap : forall g d,
  sort_items (map (vmap g) d) = map (vmap g) (sort_items d).
Proof.
  intros g. induction d as [|x d IH]; [reflexivity|].
  change (sort_items (map (vmap g) (x :: d)))
    with (insert_by lebk (vmap g x) (sort_items (map (vmap g) d))).
  change (sort_items (x :: d)) with (insert_by lebk x (sort_items d)).
  rewrite IH. apply insert_by_vmap.
Qed.

Lemma assoc_get_vmap : forall g k d,
  assoc_get k (map (vmap g) d) = option_map g (assoc_get k d).
Proof.
  intros g k d. induction d as [|[k' v'] d IH]; [reflexivity|].
  cbn [map vmap assoc_get]. destruct (py_eq k k'); [reflexivity|exact IH].
Qed.

Lemma vmap_dict_ok : forall (P : pyval -> bool) g d,
  wfd d -> (forall k v, In (k, v) d -> P (g v) = true) -> dict_ok P (map (vmap g) d).
Proof.
  intros P g d W H. split; [apply wfd_vmap; exact W|].
  apply forallb_forall. intros x Hx. apply in_map_iff in Hx.
  destruct Hx as [[k v] [<- Hin]]. cbn [vmap snd]. eapply H. exact Hin.
Qed.

Lemma dict_ok_perm : forall P d d', Permutation d d' -> dict_ok P d -> dict_ok P d'.
Proof.
  intros P d d' HP [W H]. split; [eapply wfd_perm; eauto|].
  rewrite <- (forallb_perm _ _ _ HP). exact H.
Qed.

Lemma sorted_vmap_perm : forall g d, Permutation (map (vmap g) d) (sort_items (map (vmap g) d)).
Proof. intros. apply Permutation_sym. apply sort_items_perm. Qed.

(* sorting a strictly sorted list changes nothing *)
Lemma sort_items_sorted_id : forall l, ssorted l -> sort_items l = l.
Proof.
  induction l as [|x l IH]; intro H; [reflexivity|].
  destruct H as [Hx Hs].
  change (sort_items (x :: l)) with (insert_by lebk x (sort_items l)).
  rewrite (IH Hs). destruct l as [|y l]; [reflexivity|].
  cbn [insert_by]. unfold lebk, str_leb.
  assert (Hlt : str_ltb (kk x) (kk y) = true) by (apply Hx; left; reflexivity).
  destruct (str_ltb (kk y) (kk x)) eqn:E; [|reflexivity].
  exfalso. exact (str_ltb_asym _ _ Hlt E).
Qed.

Lemma sort_items_idem : forall d, NoDup (keys d) -> sort_items (sort_items d) = sort_items d.
Proof. intros d H. apply sort_items_sorted_id. apply sort_items_ssorted. exact H. Qed.

(* ---------- sanitized implies sanitized up to tuples ---------- *)

Lemma sanitized_gen_mono : forall v, sanitized_gen false v = true -> sanitized_gen true v = true.
Proof.
  induction v using pyval_ind'; intro Hs; try reflexivity; try discriminate.
  - rewrite sanitized_gen_list in *. rewrite Forall_forall in H.
    rewrite forallb_forall in *. intros x Hx. apply H; auto.
  - pose proof (sanitized_gen_dict_wfd _ _ Hs) as [W Hv].
    apply dict_ok_sanitized. split; [exact W|].
    rewrite Forall_forall in H. rewrite forallb_forall in *.
    intros [k v] Hx. cbn [snd]. destruct (H _ Hx) as [_ Hsnd]. apply Hsnd.
    exact (Hv _ Hx).
Qed.

Lemma sanitized_sanitized_t : forall v, sanitized v = true -> sanitized_t v = true.
Proof. exact sanitized_gen_mono. Qed.

(* ---------- sort_deep ---------- *)

Theorem sort_deep_sanitized : forall v, sanitized v = true -> sanitized (sort_deep v) = true.
Proof.
  unfold sanitized.
  induction v using pyval_ind'; intro Hs; try exact Hs.
  - rewrite sort_deep_list_eq. rewrite sanitized_gen_list in *.
    rewrite Forall_forall in H. rewrite forallb_forall in *.
    intros y Hy. apply in_map_iff in Hy. destruct Hy as [x [<- Hx]]. apply H; auto.
  - rewrite sort_deep_dict_eq.
    apply sanitized_gen_dict_wfd in Hs. destruct Hs as [W Hv].
    apply dict_ok_sanitized.
    eapply dict_ok_perm; [apply sorted_vmap_perm|].
    apply vmap_dict_ok; [exact W|].
    intros k v Hin. rewrite Forall_forall in H. destruct (H _ Hin) as [_ Hsnd].
    apply Hsnd. eapply forallb_snd_In in Hv; eauto.
Qed.

Lemma all2_map_r_in : forall (g : pyval -> pyval) l l',
  (forall x y, In x l -> In y l' -> is_equal x y = true -> is_equal x (g y) = true) ->
  all2 is_equal l l' = true -> all2 is_equal l (map g l') = true.
Proof.
  intros g. induction l as [|x l IH]; destruct l' as [|y l']; intros H Ha;
    try discriminate; [reflexivity|].
  cbn [all2 map] in *. apply andb_true_iff in Ha. destruct Ha as [A1 A2].
  apply andb_true_iff. split.
  - apply H; auto; left; reflexivity.
  - apply IH; auto. intros; apply H; auto; right; assumption.
Qed.

(* replacing the right-hand side by its sorted form keeps JSON equality *)
Lemma is_equal_sort_deep_r : forall a b,
  sanitized_t a = true -> sanitized_t b = true ->
  is_equal a b = true -> is_equal a (sort_deep b) = true.
Proof.
  unfold sanitized_t.
  induction a using pyval_ind'; intros b0 Sa Sb Hab;
    try (destruct b0; try exact Hab; cbn in Hab; discriminate).
  - (* list *)
    rewrite is_equal_list_eq in *. rewrite sanitized_gen_list in Sa.
    rewrite Forall_forall in H. rewrite forallb_forall in Sa.
    destruct b0; cbn [seq_eqn sort_deep] in *; try discriminate.
    + rewrite sanitized_gen_list in Sb. rewrite forallb_forall in Sb.
      apply all2_map_r_in; [|exact Hab]. intros x y Hx Hy. apply H; auto.
    + rewrite sanitized_gen_tuple in Sb. cbn [andb] in Sb. rewrite forallb_forall in Sb.
      apply all2_map_r_in; [|exact Hab]. intros x y Hx Hy. apply H; auto.
  - (* tuple *)
    rewrite is_equal_tuple_eq in *. rewrite sanitized_gen_tuple in Sa. cbn [andb] in Sa.
    rewrite Forall_forall in H. rewrite forallb_forall in Sa.
    destruct b0; cbn [seq_eqn sort_deep] in *; try discriminate.
    + rewrite sanitized_gen_list in Sb. rewrite forallb_forall in Sb.
      apply all2_map_r_in; [|exact Hab]. intros x y Hx Hy. apply H; auto.
    + rewrite sanitized_gen_tuple in Sb. cbn [andb] in Sb. rewrite forallb_forall in Sb.
      apply all2_map_r_in; [|exact Hab]. intros x y Hx Hy. apply H; auto.
  - (* dict *)
    rewrite is_equal_dict_eq in *.
    destruct b0; cbn [dict_eqn] in Hab; try discriminate.
    rewrite sort_deep_dict_eq. cbn [dict_eqn].
    apply sanitized_gen_dict_wfd in Sa. destruct Sa as [[P1 N1] V1].
    apply sanitized_gen_dict_wfd in Sb. destruct Sb as [W2 V2].
    apply deq_true_iff in Hab. destruct Hab as [Hlen Hab].
    apply deq_true_iff. split.
    + rewrite (Permutation_length (sort_items_perm _)), map_length. exact Hlen.
    + intros k v Hin. destruct (Hab _ _ Hin) as [v' [Hg He]].
      destruct (allpstr_In _ _ _ P1 Hin) as [s ->].
      exists (sort_deep v'). split.
      * rewrite <- (assoc_get_perm _ _ s (wfd_vmap sort_deep _ W2) (sorted_vmap_perm _ _)).
        rewrite assoc_get_vmap, Hg. reflexivity.
      * rewrite Forall_forall in H. destruct (H _ Hin) as [_ Hsnd]. apply Hsnd.
        -- eapply forallb_snd_In in V1; eauto.
        -- apply assoc_get_Some_In in Hg. eapply forallb_snd_In in V2; eauto.
        -- exact He.
Qed.

Theorem sort_deep_equal : forall v, sanitized v = true -> is_equal v (sort_deep v) = true.
Proof.
  intros v H. apply sanitized_sanitized_t in H.
  apply is_equal_sort_deep_r; try assumption. apply is_equal_refl. exact H.
Qed.

Theorem sort_deep_idem : forall v, sanitized v = true -> sort_deep (sort_deep v) = sort_deep v.
Proof.
  unfold sanitized.
  induction v using pyval_ind'; intro Hs; try reflexivity.
  - rewrite !sort_deep_list_eq. rewrite sanitized_gen_list in Hs. f_equal.
    rewrite map_map. apply map_ext_in. intros x Hx.
    rewrite Forall_forall in H. rewrite forallb_forall in Hs. apply H; auto.
  - discriminate.
  - apply sanitized_gen_dict_wfd in Hs. destruct Hs as [[P1 N1] V1].
    rewrite !sort_deep_dict_eq. f_equal.
    rewrite <- (sort_items_vmap sort_deep (map (vmap sort_deep) d)).
    rewrite map_map.
    assert (E : map (fun x => vmap sort_deep (vmap sort_deep x)) d = map (vmap sort_deep) d).
    { apply map_ext_in. intros [k v] Hin. cbn [vmap]. f_equal.
      rewrite Forall_forall in H. destruct (H _ Hin) as [_ Hsnd]. apply Hsnd.
      eapply forallb_snd_In in V1; eauto. }
    rewrite E. apply sort_items_idem. rewrite keys_vmap. exact N1.
Qed.

(* ---------- what sanitize does to a value that is sanitized up to tuples ---------- *)

Fixpoint detuple (v : pyval) : pyval :=
  match v with
  | PList l => PList (map detuple l)
  | PTuple l => PList (map detuple l)
  | PDict d => PDict (map (fun kv => match kv with (k, x) => (k, detuple x) end) d)
  | _ => v
  end.

Lemma detuple_dict_eq : forall d, detuple (PDict d) = PDict (map (vmap detuple) d).
Proof. reflexivity. Qed.

Lemma mapM_map : forall (P : pyval -> bool) (g : pyval -> pyval) l,
  Forall (fun v => P v = true -> sanitize v = Some (g v)) l ->
  forallb P l = true -> mapM sanitize l = Some (map g l).
Proof.
  induction 1 as [|x l Hx Hl IH]; cbn [mapM forallb map]; intro H; [reflexivity|].
  apply andb_true_iff in H. destruct H as [H1 H2].
  rewrite (Hx H1), (IH H2). reflexivity.
Qed.

Lemma san_dict_vmap : forall g d,
  Forall (fun kv => sanitize (snd kv) = Some (g (snd kv))) d ->
  forall acc, allpstr acc = true -> allpstr d = true -> NoDup (keys acc ++ keys d) ->
  san_dict d acc = Some (PDict (acc ++ map (vmap g) d)).
Proof.
  induction 1 as [|[k v] d Hv Hd IH]; intros acc Ha Hp Hnd; cbn [san_dict map].
  - rewrite app_nil_r. reflexivity.
  - cbn [snd] in Hv. rewrite Hv. cbn [obind].
    cbn [allpstr forallb fst] in Hp. apply andb_true_iff in Hp. destruct Hp as [Hk Hp].
    destruct k; try discriminate. cbn [key_to_str obind].
    cbn [keys map fst key_str] in Hnd. fold (keys d) in Hnd.
    assert (Hn : ~ In s (keys acc)).
    { apply NoDup_remove_2 in Hnd. intro Hin. apply Hnd. apply in_or_app. left. exact Hin. }
    rewrite assoc_set_fresh by assumption.
    rewrite IH.
    + rewrite <- app_assoc. reflexivity.
    + unfold allpstr. rewrite forallb_app. cbn [forallb fst is_pstr].
      unfold allpstr in Ha. rewrite Ha. reflexivity.
    + exact Hp.
    + unfold keys at 1. rewrite map_app. cbn [map fst key_str]. fold (keys acc).
      rewrite <- app_assoc. exact Hnd.
Qed.

Lemma sanitize_detuple : forall v, sanitized_t v = true -> sanitize v = Some (detuple v).
Proof.
  unfold sanitized_t.
  induction v using pyval_ind'; intro Hs; try reflexivity; try discriminate.
  - rewrite sanitize_list_eq. rewrite sanitized_gen_list in Hs.
    rewrite (mapM_map (sanitized_gen true) detuple l H Hs). reflexivity.
  - rewrite sanitize_tuple_eq. rewrite sanitized_gen_tuple in Hs. cbn [andb] in Hs.
    rewrite (mapM_map (sanitized_gen true) detuple l H Hs). reflexivity.
  - apply sanitized_gen_dict_wfd in Hs. destruct Hs as [[Hp Hnd] Hv].
    rewrite sanitize_dict_eq, detuple_dict_eq.
    rewrite (san_dict_vmap detuple d); [reflexivity | | reflexivity | exact Hp | exact Hnd].
    rewrite Forall_forall in *. intros [k v] Hin. cbn [snd].
    destruct (H _ Hin) as [_ Hsnd]. apply Hsnd. eapply forallb_snd_In in Hv; eauto.
Qed.

Lemma detuple_sanitized : forall v, sanitized_t v = true -> sanitized (detuple v) = true.
Proof. intros v H. eapply sanitize_sanitized. apply sanitize_detuple. exact H. Qed.

Lemma detuple_fixed : forall v, sanitized v = true -> detuple v = v.
Proof.
  intros v H. pose proof (sanitize_fixed v H) as E.
  rewrite (sanitize_detuple v (sanitized_sanitized_t v H)) in E. injection E as E. exact E.
Qed.

Lemma all2_map_self_in : forall (g : pyval -> pyval) l,
  (forall x, In x l -> is_equal x (g x) = true) -> all2 is_equal l (map g l) = true.
Proof.
  intros g. induction l as [|x l IH]; intro H; [reflexivity|].
  cbn [map all2]. rewrite H by (left; reflexivity). apply IH.
  intros; apply H; right; assumption.
Qed.

Lemma is_equal_detuple : forall v, sanitized_t v = true -> is_equal v (detuple v) = true.
Proof.
  unfold sanitized_t.
  induction v using pyval_ind'; intro Hs; try (apply is_equal_refl; exact Hs).
  - rewrite is_equal_list_eq. cbn [detuple seq_eqn]. rewrite sanitized_gen_list in Hs.
    rewrite Forall_forall in H. rewrite forallb_forall in Hs.
    apply all2_map_self_in. intros x Hx. apply H; auto.
  - rewrite is_equal_tuple_eq. cbn [detuple seq_eqn]. rewrite sanitized_gen_tuple in Hs.
    cbn [andb] in Hs. rewrite Forall_forall in H. rewrite forallb_forall in Hs.
    apply all2_map_self_in. intros x Hx. apply H; auto.
  - rewrite is_equal_dict_eq, detuple_dict_eq. cbn [dict_eqn].
    apply sanitized_gen_dict_wfd in Hs. destruct Hs as [[Hp Hnd] Hv].
    apply deq_true_iff. split; [rewrite map_length; reflexivity|].
    intros k v Hin. destruct (allpstr_In _ _ _ Hp Hin) as [s ->].
    exists (detuple v). split.
    + rewrite assoc_get_vmap. rewrite (assoc_get_In_nodup _ _ _ Hp Hnd Hin). reflexivity.
    + rewrite Forall_forall in H. destruct (H _ Hin) as [_ Hsnd]. apply Hsnd.
      eapply forallb_snd_In in Hv; eauto.
Qed.

(* the existential packaging of the three facts above *)
Lemma sanitized_t_sanitize : forall v, sanitized_t v = true ->
  exists s, sanitize v = Some s /\ sanitized s = true /\ is_equal v s = true.
Proof.
  intros v H. exists (detuple v).
  repeat split; [apply sanitize_detuple | apply detuple_sanitized | apply is_equal_detuple]; exact H.
Qed.

(* ---------- norm_val ---------- *)

Definition nv (v : pyval) : pyval := sort_deep (detuple v).

Lemma norm_val_nv : forall v, sanitized_t v = true -> norm_val v = nv v.
Proof. intros v H. unfold norm_val, nv. rewrite (sanitize_detuple v H). reflexivity. Qed.

Lemma norm_val_sort_deep : forall v, sanitized v = true -> norm_val v = sort_deep v.
Proof. intros v H. unfold norm_val. rewrite (sanitize_fixed v H). reflexivity. Qed.

Lemma nv_sanitized : forall v, sanitized_t v = true -> sanitized (nv v) = true.
Proof. intros v H. apply sort_deep_sanitized. apply detuple_sanitized. exact H. Qed.

Lemma norm_val_sanitized : forall v, sanitized_t v = true -> sanitized (norm_val v) = true.
Proof. intros v H. rewrite norm_val_nv by exact H. apply nv_sanitized. exact H. Qed.

Theorem norm_val_equal : forall v, sanitized_t v = true -> is_equal v (norm_val v) = true.
Proof.
  intros v H. rewrite norm_val_nv by exact H. unfold nv.
  apply is_equal_sort_deep_r.
  - exact H.
  - apply sanitized_sanitized_t. apply detuple_sanitized. exact H.
  - apply is_equal_detuple. exact H.
Qed.

Theorem norm_val_fixed : forall v, sanitized v = true -> sort_deep v = v -> norm_val v = v.
Proof. intros v H E. rewrite norm_val_sort_deep by exact H. exact E. Qed.

Lemma norm_val_idem : forall v, sanitized_t v = true -> norm_val (norm_val v) = norm_val v.
Proof.
  intros v H. rewrite (norm_val_sort_deep (norm_val v)) by (apply norm_val_sanitized; exact H).
  rewrite norm_val_nv by exact H. unfold nv. apply sort_deep_idem.
  apply detuple_sanitized. exact H.
Qed.

(* ================================================================== *)
(** * Induction on operation records (nested through lists)            *)
(* ================================================================== *)

Section OpInd.
  Variable P : op -> Prop.
  Hypothesis HSimple : forall q r e, P (OSimple q r e).
  Hypothesis HBuild : forall p c f a k subs r cr ra sf,
    Forall P subs -> P (OBuildFile p c f a k subs r cr ra sf).
  Hypothesis HSub : forall f a k subs r ra sf,
    Forall P subs -> P (OSubbuild f a k subs r ra sf).

  Fixpoint op_ind' (o : op) : P o :=
    match o with
    | OSimple q r e => HSimple q r e
    | OBuildFile p c f a k subs r cr ra sf =>
        HBuild p c f a k subs r cr ra sf
          ((fix go (l : list op) : Forall P l :=
              match l with
              | [] => Forall_nil _
              | x :: xs => Forall_cons _ (op_ind' x) (go xs)
              end) subs)
    | OSubbuild f a k subs r ra sf =>
        HSub f a k subs r ra sf
          ((fix go (l : list op) : Forall P l :=
              match l with
              | [] => Forall_nil _
              | x :: xs => Forall_cons _ (op_ind' x) (go xs)
              end) subs)
    end.
End OpInd.

(* ---------- equations hiding the nested fixpoints ---------- *)

Lemma op_wf_build_eq : forall p c f a k subs r cr ra sf,
  op_wf (OBuildFile p c f a k subs r cr ra sf) =
  (path_wf p && sanitized a && sanitized k && sanitized r && sanitized cr && forallb op_wf subs)%bool.
Proof. reflexivity. Qed.

Lemma op_wf_sub_eq : forall f a k subs r ra sf,
  op_wf (OSubbuild f a k subs r ra sf) =
  (sanitized a && sanitized k && sanitized r && forallb op_wf subs)%bool.
Proof. reflexivity. Qed.

Lemma op_equiv_build_eq : forall p c f a1 k1 s r cr ra sf p' c' f' a1' k1' s' r' cr' ra' sf',
  op_equiv (OBuildFile p c f a1 k1 s r cr ra sf) (OBuildFile p' c' f' a1' k1' s' r' cr' ra' sf') =
  (path_eqb p p' && cmp_eqb c c' && String.eqb f f' && is_equal a1 a1' && is_equal k1 k1' &&
   all2 op_equiv s s' && is_equal r r' && is_equal cr cr' && Bool.eqb ra ra' && Bool.eqb sf sf')%bool.
Proof. reflexivity. Qed.

Lemma op_equiv_sub_eq : forall f a1 k1 s r ra sf f' a1' k1' s' r' ra' sf',
  op_equiv (OSubbuild f a1 k1 s r ra sf) (OSubbuild f' a1' k1' s' r' ra' sf') =
  (String.eqb f f' && is_equal a1 a1' && is_equal k1 k1' && all2 op_equiv s s' && is_equal r r' &&
   Bool.eqb ra ra' && Bool.eqb sf sf')%bool.
Proof. reflexivity. Qed.

Ltac split_andb H :=
  repeat (let H' := fresh H in apply andb_true_iff in H; destruct H as [H H']).

(* ---------- reflexivity of the structural comparisons ---------- *)

Lemma path_eqb_refl : forall p, path_eqb p p = true.
Proof.
  induction p as [|x p IH]; [reflexivity|]. cbn [path_eqb].
  rewrite String.eqb_refl. exact IH.
Qed.

Lemma cmp_eqb_refl : forall c, cmp_eqb c c = true.
Proof. destruct c; reflexivity. Qed.

Lemma oerr_eqb_refl : forall e, oerr_eqb e e = true.
Proof. destruct e as [c|]; [destruct c|]; reflexivity. Qed.

Lemma query_eqb_refl : forall q, query_eqb q q = true.
Proof.
  intro q. unfold query_eqb. rewrite String.eqb_refl.
  destruct q; cbn [query_args list_same pstr_path pyval_same andb];
    rewrite ?String.eqb_refl, ?eqb_reflx; reflexivity.
Qed.

Lemma all2_map_self_gen : forall {A} (E : A -> A -> bool) (g : A -> A) l,
  (forall x, In x l -> E x (g x) = true) -> all2 E l (map g l) = true.
Proof.
  intros A E g. induction l as [|x l IH]; intro H; [reflexivity|].
  cbn [map all2]. rewrite H by (left; reflexivity). apply IH.
  intros; apply H; right; assumption.
Qed.

(* ================================================================== *)
(** * 5. 6. 8. The normal form of a record                              *)
(* ================================================================== *)

Theorem norm_op_equiv : forall o, op_wf o = true -> op_equiv o (norm_op o) = true.
Proof.
  induction o using op_ind'; intro Hwf.
  - cbn [op_wf] in Hwf. split_andb Hwf. cbn [norm_op op_equiv].
    rewrite query_eqb_refl, oerr_eqb_refl, (norm_val_equal _ Hwf0). reflexivity.
  - rewrite op_wf_build_eq in Hwf. split_andb Hwf.
    cbn [norm_op]. rewrite op_equiv_build_eq.
    rewrite path_eqb_refl, cmp_eqb_refl, String.eqb_refl, !eqb_reflx.
    rewrite !norm_val_equal by (apply sanitized_sanitized_t; assumption).
    rewrite all2_map_self_gen; [reflexivity|].
    rewrite Forall_forall in H. rewrite forallb_forall in Hwf0. intros x Hx. apply H; auto.
  - rewrite op_wf_sub_eq in Hwf. split_andb Hwf.
    cbn [norm_op]. rewrite op_equiv_sub_eq.
    rewrite String.eqb_refl, !eqb_reflx.
    rewrite !norm_val_equal by (apply sanitized_sanitized_t; assumption).
    rewrite all2_map_self_gen; [reflexivity|].
    rewrite Forall_forall in H. rewrite forallb_forall in Hwf0. intros x Hx. apply H; auto.
Qed.

Lemma forallb_map_in : forall {A} (f : A -> bool) (g : A -> A) l,
  (forall x, In x l -> f (g x) = true) -> forallb f (map g l) = true.
Proof.
  intros A f g l H. apply forallb_forall. intros y Hy. apply in_map_iff in Hy.
  destruct Hy as [x [<- Hx]]. apply H. exact Hx.
Qed.

Theorem norm_op_wf : forall o, op_wf o = true -> op_wf (norm_op o) = true.
Proof.
  induction o using op_ind'; intro Hwf.
  - cbn [op_wf] in Hwf. split_andb Hwf. cbn [norm_op op_wf]. rewrite Hwf. cbn [andb].
    apply sanitized_sanitized_t. apply norm_val_sanitized. exact Hwf0.
  - rewrite op_wf_build_eq in Hwf. split_andb Hwf.
    cbn [norm_op]. rewrite op_wf_build_eq. rewrite Hwf.
    rewrite !norm_val_sanitized by (apply sanitized_sanitized_t; assumption).
    rewrite forallb_map_in; [reflexivity|].
    rewrite Forall_forall in H. rewrite forallb_forall in Hwf0. intros x Hx. apply H; auto.
  - rewrite op_wf_sub_eq in Hwf. split_andb Hwf.
    cbn [norm_op]. rewrite op_wf_sub_eq.
    rewrite !norm_val_sanitized by (apply sanitized_sanitized_t; assumption).
    rewrite forallb_map_in; [reflexivity|].
    rewrite Forall_forall in H. rewrite forallb_forall in Hwf0. intros x Hx. apply H; auto.
Qed.

Theorem norm_op_idem : forall o, op_wf o = true -> norm_op (norm_op o) = norm_op o.
Proof.
  induction o using op_ind'; intro Hwf.
  - cbn [op_wf] in Hwf. split_andb Hwf. cbn [norm_op].
    rewrite (norm_val_idem _ Hwf0). reflexivity.
  - rewrite op_wf_build_eq in Hwf. split_andb Hwf. cbn [norm_op].
    rewrite !norm_val_idem by (apply sanitized_sanitized_t; assumption).
    rewrite map_map. f_equal. apply map_ext_in. intros x Hx.
    rewrite Forall_forall in H. rewrite forallb_forall in Hwf0. apply H; auto.
  - rewrite op_wf_sub_eq in Hwf. split_andb Hwf. cbn [norm_op].
    rewrite !norm_val_idem by (apply sanitized_sanitized_t; assumption).
    rewrite map_map. f_equal. apply map_ext_in. intros x Hx.
    rewrite Forall_forall in H. rewrite forallb_forall in Hwf0. apply H; auto.
Qed.

(* ================================================================== *)
(** * 4. The write / read cycle of one record                           *)
(* ================================================================== *)

Local Open Scope string_scope.
Local Open Scope list_scope.

(* ---------- conv on a dictionary, as a function of the converted items ---------- *)

Definition cvT : Type := pyval * (option op * option (list op)).

Definition hcv (kv : pyval * pyval) : pyval * cvT :=
  match kv with (k, x) => (k, (x, conv x)) end.

Definition conv_body (cd : list (pyval * cvT)) : option op :=
  let raw k := option_map fst (dget k cd) in
  let flag k := match raw k with Some (PBool b) => b | _ => false end in
  match raw "type" with
  | Some (PStr ty) =>
      if String.eqb ty "build_file" then
        match raw "filename", raw "fileComparison", raw "funcName", raw "args", raw "kwargs",
              dget "suboperations" cd, raw "returnValue", raw "fileComparisonResult" with
        | Some (PStr fnm), Some (PStr cn), Some (PStr fname), Some a, Some k,
          Some (_, (_, Some subs)), Some r, Some cr =>
            match cmp_of_name cn with
            | Some c => Some (OBuildFile (str_path fnm) c fname a k subs r cr (flag "raised") (flag "setupFailed"))
            | None => None
            end
        | _, _, _, _, _, _, _, _ => None
        end
      else if String.eqb ty "subbuild" then
        match raw "funcName", raw "args", raw "kwargs", dget "suboperations" cd, raw "returnValue" with
        | Some (PStr fname), Some a, Some k, Some (_, (_, Some subs)), Some r =>
            Some (OSubbuild fname a k subs r (flag "raised") (flag "setupFailed"))
        | _, _, _, _, _ => None
        end
      else
        match raw "args", raw "returnValue" with
        | Some (PList args), Some r =>
            match query_of ty args with
            | Some q =>
                match raw "exceptionType" with
                | None => Some (OSimple q r None)
                | Some (PStr en) => option_map (fun c => OSimple q r (Some c)) (err_of_name en)
                | Some PNone => Some (OSimple q r None)
                | Some _ => None
                end
            | None => None
            end
        | _, _ => None
        end
  | _ => None
  end.

Lemma conv_dict_eq : forall d, conv (PDict d) = (conv_body (map hcv d), None).
Proof. reflexivity. Qed.

Lemma conv_list_eq : forall l, conv (PList l) = (None, sequence (map (fun x => fst (conv x)) l)).
Proof. reflexivity. Qed.

(* field lookup is lookup by (string) key in the underlying dictionary *)
Lemma dget_hcv : forall k L,
  dget k (map hcv L) = option_map (fun x => (x, conv x)) (assoc_get (PStr k) L).
Proof.
  intros k L. induction L as [|[k' v] L IH]; [reflexivity|].
  cbn [map hcv assoc_get]. unfold dget in *.
  destruct k'; cbn [py_eq]; try exact IH.
  destruct (String.eqb k s); [reflexivity | exact IH].
Qed.

(* ... hence insensitive to the order of a key-unique dictionary *)
Lemma dget_sorted : forall k D, wfd D ->
  dget k (map hcv (sort_items D)) = dget k (map hcv D).
Proof.
  intros k D W. rewrite !dget_hcv.
  rewrite (assoc_get_perm D (sort_items D) k W (Permutation_sym (sort_items_perm D))).
  reflexivity.
Qed.

Lemma conv_body_ext : forall cd1 cd2,
  (forall k, dget k cd1 = dget k cd2) -> conv_body cd1 = conv_body cd2.
Proof.
  intros cd1 cd2 H. unfold conv_body. cbv beta zeta. rewrite !H. reflexivity.
Qed.

(* ---------- the normal form of composite values ---------- *)

Lemma nv_dict_eq : forall d, nv (PDict d) = PDict (sort_items (map (vmap nv) d)).
Proof.
  intro d. unfold nv at 1. rewrite detuple_dict_eq, sort_deep_dict_eq, map_map.
  f_equal. f_equal. apply map_ext. intros [k v]. reflexivity.
Qed.

Lemma nv_list_eq : forall l, nv (PList l) = PList (map nv l).
Proof.
  intro l. unfold nv at 1. cbn [detuple]. rewrite sort_deep_list_eq, map_map. reflexivity.
Qed.

Lemma nv_str : forall s, nv (PStr s) = PStr s.
Proof. reflexivity. Qed.

Lemma nv_bool : forall b, nv (PBool b) = PBool b.
Proof. reflexivity. Qed.

Lemma nv_query_args : forall q, map nv (query_args q) = query_args q.
Proof. destruct q; reflexivity. Qed.

Lemma conv_nv_dict : forall d, wfd d ->
  conv (nv (PDict d)) = (conv_body (map hcv (map (vmap nv) d)), None).
Proof.
  intros d W. rewrite nv_dict_eq, conv_dict_eq. f_equal.
  apply conv_body_ext. intro k. apply dget_sorted. apply wfd_vmap. exact W.
Qed.

(* ---------- conv_body on the three shapes op_to_json produces ---------- *)

Lemma conv_body_simple : forall q r (ca cr cty cex : option op * option (list op)) ex,
  conv_body ([(PStr "args", (PList (query_args q), ca)); (PStr "returnValue", (r, cr));
              (PStr "type", (PStr (query_name q), cty))]
             ++ match ex with
                | Some c => [(PStr "exceptionType", (PStr (err_name c), cex))]
                | None => []
                end)
  = option_map (fun q' => OSimple q' r ex) (query_of (query_name q) (query_args q)).
Proof.
  intros. destruct q as [p|p|p|p|p td|p|p c]; try destruct c;
    destruct ex as [e|]; try destruct e; reflexivity.
Qed.

Lemma conv_body_build : forall ps c fname a k r cr sv subs'
    (ca cf ck crr cty cfn cfc ccr cra csf : option op * option (list op)) csub (raised sf : bool),
  conv_body ([(PStr "args", (a, ca)); (PStr "funcName", (PStr fname, cf)); (PStr "kwargs", (k, ck));
              (PStr "returnValue", (r, crr));
              (PStr "suboperations", (sv, (csub, Some subs')))]
             ++ (if raised then [(PStr "raised", (PBool true, cra))] else [])
             ++ (if sf then [(PStr "setupFailed", (PBool true, csf))] else [])
             ++ [(PStr "type", (PStr "build_file", cty)); (PStr "filename", (PStr ps, cfn));
                 (PStr "fileComparison", (PStr (cmp_name c), cfc));
                 (PStr "fileComparisonResult", (cr, ccr))])
  = Some (OBuildFile (str_path ps) c fname a k subs' r cr raised sf).
Proof. intros. destruct raised, sf, c; reflexivity. Qed.

Lemma conv_body_sub : forall fname a k r sv subs'
    (ca cf ck crr cty cra csf : option op * option (list op)) csub (raised sf : bool),
  conv_body ([(PStr "args", (a, ca)); (PStr "funcName", (PStr fname, cf)); (PStr "kwargs", (k, ck));
              (PStr "returnValue", (r, crr));
              (PStr "suboperations", (sv, (csub, Some subs')))]
             ++ (if raised then [(PStr "raised", (PBool true, cra))] else [])
             ++ (if sf then [(PStr "setupFailed", (PBool true, csf))] else [])
             ++ [(PStr "type", (PStr "subbuild", cty))])
  = Some (OSubbuild fname a k subs' r raised sf).
Proof. intros. destruct raised, sf; reflexivity. Qed.

(* ---------- the JSON of a well-formed record is sanitized up to tuples ---------- *)

Lemma sanitized_t_dict_intro : forall d,
  forallb (fun kv => is_pstr (fst kv) && sanitized_gen true (snd kv))%bool d = true ->
  str_nodup (keys d) = true -> sanitized_t (PDict d) = true.
Proof.
  intros d H1 H2. unfold sanitized_t. rewrite sanitized_gen_dict, H1, H2. reflexivity.
Qed.

Lemma query_args_sanitized : forall q, forallb (sanitized_gen true) (query_args q) = true.
Proof. destruct q; reflexivity. Qed.

Lemma op_json_sanitized_t : forall o, op_wf o = true -> sanitized_t (op_to_json o) = true.
Proof.
  induction o using op_ind'; intro Hwf.
  - cbn [op_wf] in Hwf. split_andb Hwf. unfold sanitized_t in Hwf0.
    cbn [op_to_json]. apply sanitized_t_dict_intro.
    + destruct e;
        cbn [forallb app fst snd is_pstr andb sanitized_gen];
        rewrite query_args_sanitized, Hwf0; reflexivity.
    + destruct e; reflexivity.
  - rewrite op_wf_build_eq in Hwf. split_andb Hwf.
    apply sanitized_sanitized_t in Hwf1, Hwf2, Hwf3, Hwf4. unfold sanitized_t in *.
    assert (Hs : forallb (sanitized_gen true) (map op_to_json subs) = true).
    { apply forallb_forall. intros y Hy. apply in_map_iff in Hy. destruct Hy as [x [<- Hx]].
      rewrite Forall_forall in H. rewrite forallb_forall in Hwf0. apply H; auto. }
    cbn [op_to_json]. apply sanitized_t_dict_intro.
    + destruct ra, sf;
        cbn [forallb app fst snd is_pstr andb sanitized_gen pstr_path];
        rewrite Hwf1, Hwf2, Hwf3, Hwf4, Hs; reflexivity.
    + destruct ra, sf; reflexivity.
  - rewrite op_wf_sub_eq in Hwf. split_andb Hwf.
    apply sanitized_sanitized_t in Hwf, Hwf1, Hwf2. unfold sanitized_t in *.
    assert (Hs : forallb (sanitized_gen true) (map op_to_json subs) = true).
    { apply forallb_forall. intros y Hy. apply in_map_iff in Hy. destruct Hy as [x [<- Hx]].
      rewrite Forall_forall in H. rewrite forallb_forall in Hwf0. apply H; auto. }
    cbn [op_to_json]. apply sanitized_t_dict_intro.
    + destruct ra, sf;
        cbn [forallb app fst snd is_pstr andb sanitized_gen];
        rewrite Hwf, Hwf1, Hwf2, Hs; reflexivity.
    + destruct ra, sf; reflexivity.
Qed.

(* ---------- the list reading of the "suboperations" value ---------- *)

Lemma conv_nv_subs : forall subs,
  Forall (fun o => fst (conv (nv (op_to_json o))) = Some (norm_op o)) subs ->
  conv (nv (PList (map op_to_json subs))) = (None, Some (map norm_op subs)).
Proof.
  intros subs H. rewrite nv_list_eq, conv_list_eq. f_equal.
  induction H as [|o subs Ho Hs IH]; [reflexivity|].
  cbn [map sequence fold_right] in *. unfold sequence in IH. rewrite Ho, IH. reflexivity.
Qed.

Lemma op_json_wfd : forall o d, op_wf o = true -> op_to_json o = PDict d -> wfd d.
Proof.
  intros o d Hwf E. pose proof (op_json_sanitized_t o Hwf) as HS. rewrite E in HS.
  apply sanitized_gen_dict_wfd in HS. tauto.
Qed.

Lemma op_to_json_build_eq : forall p c fname a k subs ret_ cmpres raised sf,
  op_to_json (OBuildFile p c fname a k subs ret_ cmpres raised sf) =
  PDict ([(PStr "args", a); (PStr "funcName", PStr fname); (PStr "kwargs", k); (PStr "returnValue", ret_);
          (PStr "suboperations", PList (map op_to_json subs))]
         ++ (if raised then [(PStr "raised", PBool true)] else [])
         ++ (if sf then [(PStr "setupFailed", PBool true)] else [])
         ++ [(PStr "type", PStr "build_file"); (PStr "filename", pstr_path p);
             (PStr "fileComparison", PStr (cmp_name c)); (PStr "fileComparisonResult", cmpres)]).
Proof. reflexivity. Qed.

Lemma op_to_json_sub_eq : forall fname a k subs ret_ raised sf,
  op_to_json (OSubbuild fname a k subs ret_ raised sf) =
  PDict ([(PStr "args", a); (PStr "funcName", PStr fname); (PStr "kwargs", k); (PStr "returnValue", ret_);
          (PStr "suboperations", PList (map op_to_json subs))]
         ++ (if raised then [(PStr "raised", PBool true)] else [])
         ++ (if sf then [(PStr "setupFailed", PBool true)] else [])
         ++ [(PStr "type", PStr "subbuild")]).
Proof. reflexivity. Qed.

(* ---------- reading back the normalised JSON of a record ---------- *)

Ltac fin_flags L b1 b2 :=
  etransitivity;
  [ apply L with (raised := b1) (sf := b2) (cra := (None, None)) (csf := (None, None)) | ].

Lemma conv_nv_op : forall o, op_wf o = true ->
  fst (conv (nv (op_to_json o))) = Some (norm_op o).
Proof.
  induction o using op_ind'; intro Hwf.
  - pose proof (op_json_wfd _ _ Hwf eq_refl) as W.
    cbn [op_wf] in Hwf. split_andb Hwf.
    cbn [op_to_json] in W |- *. rewrite (conv_nv_dict _ W). cbn [fst].
    destruct e as [c|]; cbn [app map vmap hcv];
      rewrite nv_list_eq, nv_query_args, !nv_str.
    + etransitivity; [apply conv_body_simple with (ex := Some c)|].
      rewrite (query_roundtrip _ Hwf). cbn [option_map norm_op].
      rewrite (norm_val_nv _ Hwf0). reflexivity.
    + etransitivity; [apply conv_body_simple with (ex := None) (cex := (None, None))|].
      rewrite (query_roundtrip _ Hwf). cbn [option_map norm_op].
      rewrite (norm_val_nv _ Hwf0). reflexivity.
  - pose proof (op_json_wfd _ _ Hwf (op_to_json_build_eq _ _ _ _ _ _ _ _ _ _)) as W.
    rewrite op_wf_build_eq in Hwf. split_andb Hwf.
    assert (HS : conv (nv (PList (map op_to_json subs))) = (None, Some (map norm_op subs))).
    { apply conv_nv_subs. rewrite Forall_forall in *. rewrite forallb_forall in Hwf0.
      intros x Hx. apply H; auto. }
    rewrite op_to_json_build_eq. rewrite (conv_nv_dict _ W). cbn [fst norm_op].
    rewrite !norm_val_nv by (apply sanitized_sanitized_t; assumption).
    unfold pstr_path.
    destruct ra, sf; cbn [app map vmap hcv];
      rewrite HS, !nv_str, ?nv_bool;
      [ fin_flags conv_body_build true true | fin_flags conv_body_build true false
      | fin_flags conv_body_build false true | fin_flags conv_body_build false false ];
      rewrite (path_roundtrip _ Hwf); reflexivity.
  - pose proof (op_json_wfd _ _ Hwf (op_to_json_sub_eq _ _ _ _ _ _ _)) as W.
    rewrite op_wf_sub_eq in Hwf. split_andb Hwf.
    assert (HS : conv (nv (PList (map op_to_json subs))) = (None, Some (map norm_op subs))).
    { apply conv_nv_subs. rewrite Forall_forall in *. rewrite forallb_forall in Hwf0.
      intros x Hx. apply H; auto. }
    rewrite op_to_json_sub_eq. rewrite (conv_nv_dict _ W). cbn [fst norm_op].
    rewrite !norm_val_nv by (apply sanitized_sanitized_t; assumption).
    destruct ra, sf; cbn [app map vmap hcv];
      rewrite HS, !nv_str, ?nv_bool;
      [ fin_flags conv_body_sub true true | fin_flags conv_body_sub true false
      | fin_flags conv_body_sub false true | fin_flags conv_body_sub false false ];
      reflexivity.
Qed.

Theorem rt_op_norm : forall o, op_wf o = true -> rt_op o = Some (norm_op o).
Proof.
  intros o Hwf. unfold rt_op, json_text_roundtrip.
  rewrite (sanitize_detuple _ (op_json_sanitized_t o Hwf)). cbn [option_map].
  unfold op_of_json. apply (conv_nv_op o Hwf).
Qed.

Theorem rt_op_fixed : forall o, op_wf o = true -> norm_op o = o -> rt_op o = Some o.
Proof. intros o Hwf E. rewrite (rt_op_norm o Hwf), E. reflexivity. Qed.

(* a record read back from a cache file is a fixed point of the cycle *)
Corollary rt_op_norm_fixed : forall o, op_wf o = true -> rt_op (norm_op o) = Some (norm_op o).
Proof.
  intros o Hwf. apply rt_op_fixed; [apply norm_op_wf | apply norm_op_idem]; exact Hwf.
Qed.
