(* Proofs/PersistLaws.v — C16, "cache persistence is faithful": every field of
   every operation record survives the write / read cycle of the cache file;
   values come back JSON-equal to what was recorded (and in the normal form
   json.dumps(sort_keys=True) / json.load produces). *)
From Coq Require Import List String Ascii NArith ZArith Bool Arith Lia Permutation.
From FB.Base Require Import PyVal Fs.
From FB.Gen Require Import JsonUtilGen.
From FB.Spec Require Import JsonSpec.
From FB.Model Require Import Types Monad SimpleOps Builder PathNorm Persist PersistSpec.
From FB.Proofs Require Import JsonLaws.
Import ListNotations.
Local Open Scope list_scope.

(* ================================================================== *)
(** * 1. Paths                                                          *)
(* ================================================================== *)

Lemma sapp_assoc : forall a b c : string, ((a ++ b) ++ c = a ++ (b ++ c))%string.
Proof.
  induction a as [|x a IH]; intros b c; cbn [String.append]; [reflexivity|].
  rewrite IH. reflexivity.
Qed.

Lemma sapp_nil_r : forall a : string, (a ++ "" = a)%string.
Proof.
  induction a as [|x a IH]; cbn [String.append]; [reflexivity|].
  rewrite IH. reflexivity.
Qed.

(* "/n1/n2/.../nk" *)
Definition cpath (l : list string) : string :=
  fold_right (fun n s => String "/"%char (n ++ s)%string) EmptyString l.

Lemma path_str_fold : forall l acc,
  fold_left (fun acc n => (acc ++ "/" ++ n)%string) l acc = (acc ++ cpath l)%string.
Proof.
  induction l as [|n l IH]; intro acc; cbn [fold_left cpath fold_right].
  - rewrite sapp_nil_r. reflexivity.
  - rewrite IH. rewrite sapp_assoc. cbn [String.append]. reflexivity.
Qed.

Lemma path_str_cpath : forall p, path_str p = cpath (rev p).
Proof. intro p. unfold path_str. rewrite path_str_fold. reflexivity. Qed.

Lemma split_slash_comp : forall n r cur acc,
  no_slash n = true ->
  split_slash_aux (n ++ r)%string cur acc = split_slash_aux r (cur ++ n)%string acc.
Proof.
  induction n as [|c n IH]; intros r cur acc H.
  - cbn [String.append]. rewrite sapp_nil_r. reflexivity.
  - cbn [no_slash] in H. apply andb_true_iff in H. destruct H as [Hc Hn].
    apply negb_true_iff in Hc.
    cbn [String.append split_slash_aux]. rewrite Hc.
    rewrite IH by assumption. rewrite sapp_assoc. reflexivity.
Qed.

Lemma split_slash_cpath : forall l n cur acc,
  no_slash n = true -> forallb no_slash l = true ->
  split_slash_aux (n ++ cpath l)%string cur acc = rev l ++ (cur ++ n)%string :: acc.
Proof.
  induction l as [|m l IH]; intros n cur acc Hn Hl.
  - cbn [cpath fold_right rev app]. rewrite split_slash_comp by assumption. reflexivity.
  - cbn [forallb] in Hl. apply andb_true_iff in Hl. destruct Hl as [Hm Hl].
    cbn [cpath fold_right]. fold (cpath l).
    rewrite split_slash_comp by assumption.
    cbn [split_slash_aux]. change (Ascii.eqb "/" "/") with true. cbv iota.
    rewrite IH by assumption. cbn [String.append rev].
    rewrite <- app_assoc. reflexivity.
Qed.

Lemma path_wf_no_slash : forall p, path_wf p = true -> forallb no_slash p = true.
Proof.
  intros p H. unfold path_wf in H. rewrite forallb_forall in *. intros x Hx.
  specialize (H x Hx). unfold comp_wf in H. apply andb_true_iff in H. tauto.
Qed.

Lemma str_path_cpath : forall l : list string,
  forallb no_slash l = true -> str_path (cpath l) = rev l.
Proof.
  intros l Hr. destruct l as [|n l]; [reflexivity|].
  cbn [forallb] in Hr. apply andb_true_iff in Hr. destruct Hr as [Hn Hl].
  cbn [cpath fold_right str_path]. fold (cpath l).
  rewrite split_slash_cpath by assumption. reflexivity.
Qed.

(* the textual form determines the path as soon as no component holds "/" *)
Lemma path_roundtrip_ns : forall p, forallb no_slash p = true -> str_path (path_str p) = p.
Proof.
  intros p H. rewrite path_str_cpath. rewrite str_path_cpath.
  - apply rev_involutive.
  - rewrite forallb_forall in *. intros x Hx. apply H. apply in_rev. exact Hx.
Qed.

Theorem path_roundtrip : forall p, path_wf p = true -> str_path (path_str p) = p.
Proof. intros p H. apply path_roundtrip_ns. apply path_wf_no_slash. exact H. Qed.

(* ================================================================== *)
(** * 2. Queries                                                        *)
(* ================================================================== *)

Lemma cmp_name_roundtrip : forall c, cmp_of_name (cmp_name c) = Some c.
Proof. destruct c; reflexivity. Qed.

Lemma err_name_roundtrip : forall c, err_of_name (err_name c) = Some c.
Proof. destruct c; reflexivity. Qed.

Theorem query_roundtrip : forall q,
  query_wf q = true -> query_of (query_name q) (query_args q) = Some q.
Proof.
  intros q H. destruct q; cbn [query_wf] in H;
    cbn [query_name query_args query_of pstr_path];
    rewrite (path_roundtrip _ H); try reflexivity.
  rewrite cmp_name_roundtrip. reflexivity.
Qed.

(* ================================================================== *)
(** * 3. Values                                                         *)
(* ================================================================== *)

(* ---------- mapping the values of a dictionary ---------- *)

Definition vmap (g : pyval -> pyval) (kv : pyval * pyval) : pyval * pyval :=
  match kv with (k, x) => (k, g x) end.

Lemma sort_deep_dict_eq : forall d,
  sort_deep (PDict d) = PDict (sort_items (map (vmap sort_deep) d)).
Proof. reflexivity. Qed.

Lemma sort_deep_list_eq : forall l, sort_deep (PList l) = PList (map sort_deep l).
Proof. reflexivity. Qed.

Lemma kk_vmap : forall g x, kk (vmap g x) = kk x.
Proof. intros g [k v]. reflexivity. Qed.

Lemma keys_vmap : forall g d, keys (map (vmap g) d) = keys d.
Proof.
  intros g d. unfold keys. rewrite map_map. apply map_ext. intros [k v]. reflexivity.
Qed.

Lemma allpstr_vmap : forall g d, allpstr (map (vmap g) d) = allpstr d.
Proof.
  intros g d. unfold allpstr. induction d as [|[k v] d IH]; [reflexivity|].
  cbn [map vmap forallb fst]. rewrite IH. reflexivity.
Qed.

Lemma wfd_vmap : forall g d, wfd d -> wfd (map (vmap g) d).
Proof.
  intros g d [Hp Hn]. split; [rewrite allpstr_vmap | rewrite keys_vmap]; assumption.
Qed.

Lemma insert_by_vmap : forall g x l,
  insert_by lebk (vmap g x) (map (vmap g) l) = map (vmap g) (insert_by lebk x l).
Proof.
  intros g x l. induction l as [|y l IH]; [reflexivity|].
  cbn [map insert_by]. unfold lebk at 1 3. rewrite !kk_vmap.
  destruct (str_leb (kk x) (kk y)); [reflexivity|].
  rewrite IH. reflexivity.
Qed.

Lemma sort_items_vmap : forall g d,
  sort_items (map (vmap g) d) = map (vmap g) (sort_items d).
Proof.
  intros g. induction d as [|x d IH]; [reflexivity|].
  change (sort_items (map (vmap g) (x :: d)))
    with (insert_by lebk (vmap g x) (sort_items (map (vmap g) d))).
  change (sort_items (x :: d)) with (insert_by lebk x (sort_items d)).
  rewrite IH. apply insert_by_vmap.
Qed.

Lemma assoc_get_vmap : forall g k d,
  assoc_get k (map (vmap g) d) = option_map g (assoc_get k d).
Proof.
  intros g k d. induction d as [|[k' v'] d IH]; [reflexivity|].
  cbn [map vmap assoc_get]. destruct (py_eq k k'); [reflexivity|exact IH].
Qed.

Lemma vmap_dict_ok : forall (P : pyval -> bool) g d,
  wfd d -> (forall k v, In (k, v) d -> P (g v) = true) -> dict_ok P (map (vmap g) d).
Proof.
  intros P g d W H. split; [apply wfd_vmap; exact W|].
  apply forallb_forall. intros x Hx. apply in_map_iff in Hx.
  destruct Hx as [[k v] [<- Hin]]. cbn [vmap snd]. eapply H. exact Hin.
Qed.

Lemma dict_ok_perm : forall P d d', Permutation d d' -> dict_ok P d -> dict_ok P d'.
Proof.
  intros P d d' HP [W H]. split; [eapply wfd_perm; eauto|].
  rewrite <- (forallb_perm _ _ _ HP). exact H.
Qed.

Lemma sorted_vmap_perm : forall g d, Permutation (map (vmap g) d) (sort_items (map (vmap g) d)).
Proof. intros. apply Permutation_sym. apply sort_items_perm. Qed.

(* sorting a strictly sorted list changes nothing *)
Lemma sort_items_sorted_id : forall l, ssorted l -> sort_items l = l.
Proof.
  induction l as [|x l IH]; intro H; [reflexivity|].
  destruct H as [Hx Hs].
  change (sort_items (x :: l)) with (insert_by lebk x (sort_items l)).
  rewrite (IH Hs). destruct l as [|y l]; [reflexivity|].
  cbn [insert_by]. unfold lebk, str_leb.
  assert (Hlt : str_ltb (kk x) (kk y) = true) by (apply Hx; left; reflexivity).
  destruct (str_ltb (kk y) (kk x)) eqn:E; [|reflexivity].
  exfalso. exact (str_ltb_asym _ _ Hlt E).
Qed.

Lemma sort_items_idem : forall d, NoDup (keys d) -> sort_items (sort_items d) = sort_items d.
Proof. intros d H. apply sort_items_sorted_id. apply sort_items_ssorted. exact H. Qed.

(* ---------- sanitized implies sanitized up to tuples ---------- *)

Lemma sanitized_gen_mono : forall v, sanitized_gen false v = true -> sanitized_gen true v = true.
Proof.
  induction v using pyval_ind'; intro Hs; try reflexivity; try discriminate.
  - rewrite sanitized_gen_list in *. rewrite Forall_forall in H.
    rewrite forallb_forall in *. intros x Hx. apply H; auto.
  - pose proof (sanitized_gen_dict_wfd _ _ Hs) as [W Hv].
    apply dict_ok_sanitized. split; [exact W|].
    rewrite Forall_forall in H. rewrite forallb_forall in *.
    intros [k v] Hx. cbn [snd]. destruct (H _ Hx) as [_ Hsnd]. apply Hsnd.
    exact (Hv _ Hx).
Qed.

Lemma sanitized_sanitized_t : forall v, sanitized v = true -> sanitized_t v = true.
Proof. exact sanitized_gen_mono. Qed.

(* ---------- sort_deep ---------- *)

Theorem sort_deep_sanitized : forall v, sanitized v = true -> sanitized (sort_deep v) = true.
Proof.
  unfold sanitized.
  induction v using pyval_ind'; intro Hs; try exact Hs.
  - rewrite sort_deep_list_eq. rewrite sanitized_gen_list in *.
    rewrite Forall_forall in H. rewrite forallb_forall in *.
    intros y Hy. apply in_map_iff in Hy. destruct Hy as [x [<- Hx]]. apply H; auto.
  - rewrite sort_deep_dict_eq.
    apply sanitized_gen_dict_wfd in Hs. destruct Hs as [W Hv].
    apply dict_ok_sanitized.
    eapply dict_ok_perm; [apply sorted_vmap_perm|].
    apply vmap_dict_ok; [exact W|].
    intros k v Hin. rewrite Forall_forall in H. destruct (H _ Hin) as [_ Hsnd].
    apply Hsnd. eapply forallb_snd_In in Hv; eauto.
Qed.

Lemma all2_map_r_in : forall (g : pyval -> pyval) l l',
  (forall x y, In x l -> In y l' -> is_equal x y = true -> is_equal x (g y) = true) ->
  all2 is_equal l l' = true -> all2 is_equal l (map g l') = true.
Proof.
  intros g. induction l as [|x l IH]; destruct l' as [|y l']; intros H Ha;
    try discriminate; [reflexivity|].
  cbn [all2 map] in *. apply andb_true_iff in Ha. destruct Ha as [A1 A2].
  apply andb_true_iff. split.
  - apply H; auto; left; reflexivity.
  - apply IH; auto. intros; apply H; auto; right; assumption.
Qed.

(* replacing the right-hand side by its sorted form keeps JSON equality *)
Lemma is_equal_sort_deep_r : forall a b,
  sanitized_t a = true -> sanitized_t b = true ->
  is_equal a b = true -> is_equal a (sort_deep b) = true.
Proof.
  unfold sanitized_t.
  induction a using pyval_ind'; intros b0 Sa Sb Hab;
    try (destruct b0; try exact Hab; cbn in Hab; discriminate).
  - (* list *)
    rewrite is_equal_list_eq in *. rewrite sanitized_gen_list in Sa.
    rewrite Forall_forall in H. rewrite forallb_forall in Sa.
    destruct b0; cbn [seq_eqn sort_deep] in *; try discriminate.
    + rewrite sanitized_gen_list in Sb. rewrite forallb_forall in Sb.
      apply all2_map_r_in; [|exact Hab]. intros x y Hx Hy. apply H; auto.
    + rewrite sanitized_gen_tuple in Sb. cbn [andb] in Sb. rewrite forallb_forall in Sb.
      apply all2_map_r_in; [|exact Hab]. intros x y Hx Hy. apply H; auto.
  - (* tuple *)
    rewrite is_equal_tuple_eq in *. rewrite sanitized_gen_tuple in Sa. cbn [andb] in Sa.
    rewrite Forall_forall in H. rewrite forallb_forall in Sa.
    destruct b0; cbn [seq_eqn sort_deep] in *; try discriminate.
    + rewrite sanitized_gen_list in Sb. rewrite forallb_forall in Sb.
      apply all2_map_r_in; [|exact Hab]. intros x y Hx Hy. apply H; auto.
    + rewrite sanitized_gen_tuple in Sb. cbn [andb] in Sb. rewrite forallb_forall in Sb.
      apply all2_map_r_in; [|exact Hab]. intros x y Hx Hy. apply H; auto.
  - (* dict *)
    rewrite is_equal_dict_eq in *.
    destruct b0; cbn [dict_eqn] in Hab; try discriminate.
    rewrite sort_deep_dict_eq. cbn [dict_eqn].
    apply sanitized_gen_dict_wfd in Sa. destruct Sa as [[P1 N1] V1].
    apply sanitized_gen_dict_wfd in Sb. destruct Sb as [W2 V2].
    apply deq_true_iff in Hab. destruct Hab as [Hlen Hab].
    apply deq_true_iff. split.
    + rewrite (Permutation_length (sort_items_perm _)), map_length. exact Hlen.
    + intros k v Hin. destruct (Hab _ _ Hin) as [v' [Hg He]].
      destruct (allpstr_In _ _ _ P1 Hin) as [s ->].
      exists (sort_deep v'). split.
      * rewrite <- (assoc_get_perm _ _ s (wfd_vmap sort_deep _ W2) (sorted_vmap_perm _ _)).
        rewrite assoc_get_vmap, Hg. reflexivity.
      * rewrite Forall_forall in H. destruct (H _ Hin) as [_ Hsnd]. apply Hsnd.
        -- eapply forallb_snd_In in V1; eauto.
        -- apply assoc_get_Some_In in Hg. eapply forallb_snd_In in V2; eauto.
        -- exact He.
Qed.

Theorem sort_deep_equal : forall v, sanitized v = true -> is_equal v (sort_deep v) = true.
Proof.
  intros v H. apply sanitized_sanitized_t in H.
  apply is_equal_sort_deep_r; try assumption. apply is_equal_refl. exact H.
Qed.

Theorem sort_deep_idem : forall v, sanitized v = true -> sort_deep (sort_deep v) = sort_deep v.
Proof.
  unfold sanitized.
  induction v using pyval_ind'; intro Hs; try reflexivity.
  - rewrite !sort_deep_list_eq. rewrite sanitized_gen_list in Hs. f_equal.
    rewrite map_map. apply map_ext_in. intros x Hx.
    rewrite Forall_forall in H. rewrite forallb_forall in Hs. apply H; auto.
  - discriminate.
  - apply sanitized_gen_dict_wfd in Hs. destruct Hs as [[P1 N1] V1].
    rewrite !sort_deep_dict_eq. f_equal.
    rewrite <- (sort_items_vmap sort_deep (map (vmap sort_deep) d)).
    rewrite map_map.
    assert (E : map (fun x => vmap sort_deep (vmap sort_deep x)) d = map (vmap sort_deep) d).
    { apply map_ext_in. intros [k v] Hin. cbn [vmap]. f_equal.
      rewrite Forall_forall in H. destruct (H _ Hin) as [_ Hsnd]. apply Hsnd.
      eapply forallb_snd_In in V1; eauto. }
    rewrite E. apply sort_items_idem. rewrite keys_vmap. exact N1.
Qed.

(* ---------- what sanitize does to a value that is sanitized up to tuples ---------- *)

Fixpoint detuple (v : pyval) : pyval :=
  match v with
  | PList l => PList (map detuple l)
  | PTuple l => PList (map detuple l)
  | PDict d => PDict (map (fun kv => match kv with (k, x) => (k, detuple x) end) d)
  | _ => v
  end.

Lemma detuple_dict_eq : forall d, detuple (PDict d) = PDict (map (vmap detuple) d).
Proof. reflexivity. Qed.

Lemma mapM_map : forall (P : pyval -> bool) (g : pyval -> pyval) l,
  Forall (fun v => P v = true -> sanitize v = Some (g v)) l ->
  forallb P l = true -> mapM sanitize l = Some (map g l).
Proof.
  induction 1 as [|x l Hx Hl IH]; cbn [mapM forallb map]; intro H; [reflexivity|].
  apply andb_true_iff in H. destruct H as [H1 H2].
  rewrite (Hx H1), (IH H2). reflexivity.
Qed.

Lemma san_dict_vmap : forall g d,
  Forall (fun kv => sanitize (snd kv) = Some (g (snd kv))) d ->
  forall acc, allpstr acc = true -> allpstr d = true -> NoDup (keys acc ++ keys d) ->
  san_dict d acc = Some (PDict (acc ++ map (vmap g) d)).
Proof.
  induction 1 as [|[k v] d Hv Hd IH]; intros acc Ha Hp Hnd; cbn [san_dict map].
  - rewrite app_nil_r. reflexivity.
  - cbn [snd] in Hv. rewrite Hv. cbn [obind].
    cbn [allpstr forallb fst] in Hp. apply andb_true_iff in Hp. destruct Hp as [Hk Hp].
    destruct k; try discriminate. cbn [key_to_str obind].
    cbn [keys map fst key_str] in Hnd. fold (keys d) in Hnd.
    assert (Hn : ~ In s (keys acc)).
    { apply NoDup_remove_2 in Hnd. intro Hin. apply Hnd. apply in_or_app. left. exact Hin. }
    rewrite assoc_set_fresh by assumption.
    rewrite IH.
    + rewrite <- app_assoc. reflexivity.
    + unfold allpstr. rewrite forallb_app. cbn [forallb fst is_pstr].
      unfold allpstr in Ha. rewrite Ha. reflexivity.
    + exact Hp.
    + unfold keys at 1. rewrite map_app. cbn [map fst key_str]. fold (keys acc).
      rewrite <- app_assoc. exact Hnd.
Qed.

Lemma sanitize_detuple : forall v, sanitized_t v = true -> sanitize v = Some (detuple v).
Proof.
  unfold sanitized_t.
  induction v using pyval_ind'; intro Hs; try reflexivity; try discriminate.
  - rewrite sanitize_list_eq. rewrite sanitized_gen_list in Hs.
    rewrite (mapM_map (sanitized_gen true) detuple l H Hs). reflexivity.
  - rewrite sanitize_tuple_eq. rewrite sanitized_gen_tuple in Hs. cbn [andb] in Hs.
    rewrite (mapM_map (sanitized_gen true) detuple l H Hs). reflexivity.
  - apply sanitized_gen_dict_wfd in Hs. destruct Hs as [[Hp Hnd] Hv].
    rewrite sanitize_dict_eq, detuple_dict_eq.
    rewrite (san_dict_vmap detuple d); [reflexivity | | reflexivity | exact Hp | exact Hnd].
    rewrite Forall_forall in *. intros [k v] Hin. cbn [snd].
    destruct (H _ Hin) as [_ Hsnd]. apply Hsnd. eapply forallb_snd_In in Hv; eauto.
Qed.

Lemma detuple_sanitized : forall v, sanitized_t v = true -> sanitized (detuple v) = true.
Proof. intros v H. eapply sanitize_sanitized. apply sanitize_detuple. exact H. Qed.

Lemma detuple_fixed : forall v, sanitized v = true -> detuple v = v.
Proof.
  intros v H. pose proof (sanitize_fixed v H) as E.
  rewrite (sanitize_detuple v (sanitized_sanitized_t v H)) in E. injection E as E. exact E.
Qed.

Lemma all2_map_self_in : forall (g : pyval -> pyval) l,
  (forall x, In x l -> is_equal x (g x) = true) -> all2 is_equal l (map g l) = true.
Proof.
  intros g. induction l as [|x l IH]; intro H; [reflexivity|].
  cbn [map all2]. rewrite H by (left; reflexivity). apply IH.
  intros; apply H; right; assumption.
Qed.

Lemma is_equal_detuple : forall v, sanitized_t v = true -> is_equal v (detuple v) = true.
Proof.
  unfold sanitized_t.
  induction v using pyval_ind'; intro Hs; try (apply is_equal_refl; exact Hs).
  - rewrite is_equal_list_eq. cbn [detuple seq_eqn]. rewrite sanitized_gen_list in Hs.
    rewrite Forall_forall in H. rewrite forallb_forall in Hs.
    apply all2_map_self_in. intros x Hx. apply H; auto.
  - rewrite is_equal_tuple_eq. cbn [detuple seq_eqn]. rewrite sanitized_gen_tuple in Hs.
    cbn [andb] in Hs. rewrite Forall_forall in H. rewrite forallb_forall in Hs.
    apply all2_map_self_in. intros x Hx. apply H; auto.
  - rewrite is_equal_dict_eq, detuple_dict_eq. cbn [dict_eqn].
    apply sanitized_gen_dict_wfd in Hs. destruct Hs as [[Hp Hnd] Hv].
    apply deq_true_iff. split; [rewrite map_length; reflexivity|].
    intros k v Hin. destruct (allpstr_In _ _ _ Hp Hin) as [s ->].
    exists (detuple v). split.
    + rewrite assoc_get_vmap. rewrite (assoc_get_In_nodup _ _ _ Hp Hnd Hin). reflexivity.
    + rewrite Forall_forall in H. destruct (H _ Hin) as [_ Hsnd]. apply Hsnd.
      eapply forallb_snd_In in Hv; eauto.
Qed.

(* the existential packaging of the three facts above *)
Lemma sanitized_t_sanitize : forall v, sanitized_t v = true ->
  exists s, sanitize v = Some s /\ sanitized s = true /\ is_equal v s = true.
Proof.
  intros v H. exists (detuple v).
  repeat split; [apply sanitize_detuple | apply detuple_sanitized | apply is_equal_detuple]; exact H.
Qed.

(* ---------- norm_val ---------- *)

Definition nv (v : pyval) : pyval := sort_deep (detuple v).

Lemma norm_val_nv : forall v, sanitized_t v = true -> norm_val v = nv v.
Proof. intros v H. unfold norm_val, nv. rewrite (sanitize_detuple v H). reflexivity. Qed.

Lemma norm_val_sort_deep : forall v, sanitized v = true -> norm_val v = sort_deep v.
Proof. intros v H. unfold norm_val. rewrite (sanitize_fixed v H). reflexivity. Qed.

Lemma nv_sanitized : forall v, sanitized_t v = true -> sanitized (nv v) = true.
Proof. intros v H. apply sort_deep_sanitized. apply detuple_sanitized. exact H. Qed.

Lemma norm_val_sanitized : forall v, sanitized_t v = true -> sanitized (norm_val v) = true.
Proof. intros v H. rewrite norm_val_nv by exact H. apply nv_sanitized. exact H. Qed.

Theorem norm_val_equal : forall v, sanitized_t v = true -> is_equal v (norm_val v) = true.
Proof.
  intros v H. rewrite norm_val_nv by exact H. unfold nv.
  apply is_equal_sort_deep_r.
  - exact H.
  - apply sanitized_sanitized_t. apply detuple_sanitized. exact H.
  - apply is_equal_detuple. exact H.
Qed.

Theorem norm_val_fixed : forall v, sanitized v = true -> sort_deep v = v -> norm_val v = v.
Proof. intros v H E. rewrite norm_val_sort_deep by exact H. exact E. Qed.

Lemma norm_val_idem : forall v, sanitized_t v = true -> norm_val (norm_val v) = norm_val v.
Proof.
  intros v H. rewrite (norm_val_sort_deep (norm_val v)) by (apply norm_val_sanitized; exact H).
  rewrite norm_val_nv by exact H. unfold nv. apply sort_deep_idem.
  apply detuple_sanitized. exact H.
Qed.

(* ================================================================== *)
(** * Induction on operation records (nested through lists)            *)
(* ================================================================== *)

Section OpInd.
  Variable P : op -> Prop.
  Hypothesis HSimple : forall q r e, P (OSimple q r e).
  Hypothesis HBuild : forall p c f a k subs r cr ra sf,
    Forall P subs -> P (OBuildFile p c f a k subs r cr ra sf).
  Hypothesis HSub : forall f a k subs r ra sf,
    Forall P subs -> P (OSubbuild f a k subs r ra sf).

  Fixpoint op_ind' (o : op) : P o :=
    match o with
    | OSimple q r e => HSimple q r e
    | OBuildFile p c f a k subs r cr ra sf =>
        HBuild p c f a k subs r cr ra sf
          ((fix go (l : list op) : Forall P l :=
              match l with
              | [] => Forall_nil _
              | x :: xs => Forall_cons _ (op_ind' x) (go xs)
              end) subs)
    | OSubbuild f a k subs r ra sf =>
        HSub f a k subs r ra sf
          ((fix go (l : list op) : Forall P l :=
              match l with
              | [] => Forall_nil _
              | x :: xs => Forall_cons _ (op_ind' x) (go xs)
              end) subs)
    end.
End OpInd.

(* ---------- equations hiding the nested fixpoints ---------- *)

Lemma op_wf_build_eq : forall p c f a k subs r cr ra sf,
  op_wf (OBuildFile p c f a k subs r cr ra sf) =
  (path_wf p && sanitized a && sanitized k && sanitized r && sanitized cr && forallb op_wf subs)%bool.
Proof. reflexivity. Qed.

Lemma op_wf_sub_eq : forall f a k subs r ra sf,
  op_wf (OSubbuild f a k subs r ra sf) =
  (sanitized a && sanitized k && sanitized r && forallb op_wf subs)%bool.
Proof. reflexivity. Qed.

Lemma op_equiv_build_eq : forall p c f a1 k1 s r cr ra sf p' c' f' a1' k1' s' r' cr' ra' sf',
  op_equiv (OBuildFile p c f a1 k1 s r cr ra sf) (OBuildFile p' c' f' a1' k1' s' r' cr' ra' sf') =
  (path_eqb p p' && cmp_eqb c c' && String.eqb f f' && is_equal a1 a1' && is_equal k1 k1' &&
   all2 op_equiv s s' && is_equal r r' && is_equal cr cr' && Bool.eqb ra ra' && Bool.eqb sf sf')%bool.
Proof. reflexivity. Qed.

Lemma op_equiv_sub_eq : forall f a1 k1 s r ra sf f' a1' k1' s' r' ra' sf',
  op_equiv (OSubbuild f a1 k1 s r ra sf) (OSubbuild f' a1' k1' s' r' ra' sf') =
  (String.eqb f f' && is_equal a1 a1' && is_equal k1 k1' && all2 op_equiv s s' && is_equal r r' &&
   Bool.eqb ra ra' && Bool.eqb sf sf')%bool.
Proof. reflexivity. Qed.

Ltac split_andb H :=
  repeat (let H' := fresh H in apply andb_true_iff in H; destruct H as [H H']).

(* ---------- reflexivity of the structural comparisons ---------- *)

Lemma path_eqb_refl : forall p, path_eqb p p = true.
Proof.
  induction p as [|x p IH]; [reflexivity|]. cbn [path_eqb].
  rewrite String.eqb_refl. exact IH.
Qed.

Lemma cmp_eqb_refl : forall c, cmp_eqb c c = true.
Proof. destruct c; reflexivity. Qed.

Lemma oerr_eqb_refl : forall e, oerr_eqb e e = true.
Proof. destruct e as [c|]; [destruct c|]; reflexivity. Qed.

Lemma query_eqb_refl : forall q, query_eqb q q = true.
Proof.
  intro q. unfold query_eqb. rewrite String.eqb_refl.
  destruct q; cbn [query_args list_same pstr_path pyval_same andb];
    rewrite ?String.eqb_refl, ?eqb_reflx; reflexivity.
Qed.

Lemma all2_map_self_gen : forall {A} (E : A -> A -> bool) (g : A -> A) l,
  (forall x, In x l -> E x (g x) = true) -> all2 E l (map g l) = true.
Proof.
  intros A E g. induction l as [|x l IH]; intro H; [reflexivity|].
  cbn [map all2]. rewrite H by (left; reflexivity). apply IH.
  intros; apply H; right; assumption.
Qed.

(* ================================================================== *)
(** * 5. 6. 8. The normal form of a record                              *)
(* ================================================================== *)

Theorem norm_op_equiv : forall o, op_wf o = true -> op_equiv o (norm_op o) = true.
Proof.
  induction o using op_ind'; intro Hwf.
  - cbn [op_wf] in Hwf. split_andb Hwf. cbn [norm_op op_equiv].
    rewrite query_eqb_refl, oerr_eqb_refl, (norm_val_equal _ Hwf0). reflexivity.
  - rewrite op_wf_build_eq in Hwf. split_andb Hwf.
    cbn [norm_op]. rewrite op_equiv_build_eq.
    rewrite path_eqb_refl, cmp_eqb_refl, String.eqb_refl, !eqb_reflx.
    rewrite !norm_val_equal by (apply sanitized_sanitized_t; assumption).
    rewrite all2_map_self_gen; [reflexivity|].
    rewrite Forall_forall in H. rewrite forallb_forall in Hwf0. intros x Hx. apply H; auto.
  - rewrite op_wf_sub_eq in Hwf. split_andb Hwf.
    cbn [norm_op]. rewrite op_equiv_sub_eq.
    rewrite String.eqb_refl, !eqb_reflx.
    rewrite !norm_val_equal by (apply sanitized_sanitized_t; assumption).
    rewrite all2_map_self_gen; [reflexivity|].
    rewrite Forall_forall in H. rewrite forallb_forall in Hwf0. intros x Hx. apply H; auto.
Qed.

Lemma forallb_map_in : forall {A} (f : A -> bool) (g : A -> A) l,
  (forall x, In x l -> f (g x) = true) -> forallb f (map g l) = true.
Proof.
  intros A f g l H. apply forallb_forall. intros y Hy. apply in_map_iff in Hy.
  destruct Hy as [x [<- Hx]]. apply H. exact Hx.
Qed.

Theorem norm_op_wf : forall o, op_wf o = true -> op_wf (norm_op o) = true.
Proof.
  induction o using op_ind'; intro Hwf.
  - cbn [op_wf] in Hwf. split_andb Hwf. cbn [norm_op op_wf]. rewrite Hwf. cbn [andb].
    apply sanitized_sanitized_t. apply norm_val_sanitized. exact Hwf0.
  - rewrite op_wf_build_eq in Hwf. split_andb Hwf.
    cbn [norm_op]. rewrite op_wf_build_eq. rewrite Hwf.
    rewrite !norm_val_sanitized by (apply sanitized_sanitized_t; assumption).
    rewrite forallb_map_in; [reflexivity|].
    rewrite Forall_forall in H. rewrite forallb_forall in Hwf0. intros x Hx. apply H; auto.
  - rewrite op_wf_sub_eq in Hwf. split_andb Hwf.
    cbn [norm_op]. rewrite op_wf_sub_eq.
    rewrite !norm_val_sanitized by (apply sanitized_sanitized_t; assumption).
    rewrite forallb_map_in; [reflexivity|].
    rewrite Forall_forall in H. rewrite forallb_forall in Hwf0. intros x Hx. apply H; auto.
Qed.

Theorem norm_op_idem : forall o, op_wf o = true -> norm_op (norm_op o) = norm_op o.
Proof.
  induction o using op_ind'; intro Hwf.
  - cbn [op_wf] in Hwf. split_andb Hwf. cbn [norm_op].
    rewrite (norm_val_idem _ Hwf0). reflexivity.
  - rewrite op_wf_build_eq in Hwf. split_andb Hwf. cbn [norm_op].
    rewrite !norm_val_idem by (apply sanitized_sanitized_t; assumption).
    rewrite map_map. f_equal. apply map_ext_in. intros x Hx.
    rewrite Forall_forall in H. rewrite forallb_forall in Hwf0. apply H; auto.
  - rewrite op_wf_sub_eq in Hwf. split_andb Hwf. cbn [norm_op].
    rewrite !norm_val_idem by (apply sanitized_sanitized_t; assumption).
    rewrite map_map. f_equal. apply map_ext_in. intros x Hx.
    rewrite Forall_forall in H. rewrite forallb_forall in Hwf0. apply H; auto.
Qed.
