(* Proofs/SimJ4.v — HASH records in the PREVIOUS cache, part 4: the class [okcH c0 old] =
   SimC0.okc with hk = true (a successful build_file record may hold a HASH comparison result,
   a recorded read may compare by HASH), and what it gives for a record that is looked up
   (SimC5 with hk = true).  okc is contained in okcH.                                      *)
From Coq Require Import List String Ascii NArith ZArith Bool Arith Lia.
From FB.Base Require Import PyVal Fs.
From FB.Gen Require Import JsonUtilGen.
From FB.Spec Require Import JsonSpec Prog Ref Oracle Faithful.
From FB.Model Require Import Types Monad CreatedFiles BuildDirs SimpleOps Builder Persist Build Run Frame Core CoreOracle.
From FB.Proofs Require Import FsLemmas JsonLaws ReplayLaws BuildFileLaws CoreLaws1 CoreLaws2 CoreLaws3 CoreLaws4 CoreNextRegs CoreNextKeys
     ViewDefs ViewLemmas ViewXDefs ViewXFail ViewXSetup ViewH4 ViewH5 ViewH6 ViewR2 ViewR3 ViewK3 ViewK4 ViewK8
     SimA0 SimB1 SimB2 SimB3 SimB4 SimB7 SimB8 SimB9 SimB11 SimB12 SimB15 SimB16 SimC0 SimC1 SimC5.
Import ListNotations.
Open Scope list_scope.

Definition subs_staticH (old : cache) (c0 : N) (p0 : option path) (subs : list op) : bool :=
  (forallb (rec_ok true (ostack p0)) subs && forallb calm subs &&
   forallb (node_static old c0) (flat_map nodes subs) &&
   nodupb (flat_map regp subs) && forallb (fun t => negb (opath_eqb t p0)) (flat_map regp subs) &&
   kfreshb (snd (cll subs)) && forallb wfrec subs)%bool.

Definition frec_staticH (old : cache) (c0 : N) (p : path) (rec : op) : bool :=
  match rec with
  | OBuildFile p' c' _ _ _ subs _ cr ra _ =>
      (path_eqb p' p && (ra || (negb (pnone cr) && cmp_okb true c' && tgt_ok p' && subs_staticH old c0 (Some p) subs)))%bool
  | _ => true
  end.

Definition srec_staticH (old : cache) (c0 : N) (q : pyval) (rec : op) : bool :=
  match rec with
  | OSubbuild f a k subs _ ra _ =>
      (ra || (subs_staticH old c0 None subs && sanitized a && sanitized k && pv_wf a && pv_wf k &&
              py_eq (subbuild_key f a k) q &&
              forallb (fun y => negb (py_eq (subbuild_key f a k) y)) (snd (cll subs))))%bool
  | _ => true
  end.

Definition okcH (c0 : N) (old : cache) : Prop :=
  (forall p rec, cache_get_file old p = Some rec -> frec_staticH old c0 p rec = true) /\
  (forall k rec, subs_get (c_subs old) k = Some (Some rec) ->
     exists q, py_eq q k = true /\ srec_staticH old c0 q rec = true).

Definition okcHb (c0 : N) (old : cache) : bool :=
  forallb (fun e => match snd e with Some rec => frec_staticH old c0 (fst e) rec | None => true end) (c_files old) &&
  forallb (fun e => match snd e with Some rec => srec_staticH old c0 (fst e) rec | None => true end) (c_subs old).

Lemma okcHb_sound : forall c0 old, okcHb c0 old = true -> okcH c0 old.
Proof.
  intros c0 old H. unfold okcHb in H. apply andb_true_iff in H. destruct H as [H1 H2]. rewrite forallb_forall in H1, H2. split.
  - intros p rec Hg. unfold cache_get_file in Hg.
    destruct (files_get (c_files old) p) as [[o|]|] eqn:E; try discriminate. inversion Hg; subst o.
    apply (H1 (p, Some rec)). apply files_get_in. exact E.
  - intros k rec Hg. destruct (subs_get_in _ _ _ Hg) as [q [Hin Hq]]. exists q. split; [exact Hq|]. apply (H2 (q, Some rec) Hin).
Qed.

Lemma okcH_empty : forall c0 nm v, okcH c0 (empty_cache nm v).
Proof. intros c0 nm v. split; [intros p rec H|intros k rec H]; discriminate. Qed.

Lemma okcH_norec : forall c0 old, ViewXRun.norec old -> okcH c0 old.
Proof.
  intros c0 old [H1 H2]. split.
  - intros p rec H. rewrite (H1 p) in H. discriminate.
  - intros k rec H. specialize (H2 k). rewrite H in H2. destruct H2.
Qed.

(* ------------------------------------------------------------------ okc is contained in okcH *)
Lemma cmp_okb_mono : forall c, cmp_okb false c = true -> cmp_okb true c = true.
Proof. intros [|] H; [reflexivity|discriminate]. Qed.

Lemma qry_ok_mono : forall q, qry_ok false q = true -> qry_ok true q = true.
Proof.
  intros q H. unfold qry_ok in *. apply andb_true_iff in H. destruct H as [H1 H2]. rewrite H1. cbn [andb].
  destruct q; try exact H2. apply cmp_okb_mono. exact H2.
Qed.

Lemma rec_ok_mono : forall o st, rec_ok false st o = true -> rec_ok true st o = true.
Proof.
  induction o as [q r e|p c f a k subs r cr ra sf IH|f a k subs r ra sf IH] using op_ind'; intros st H; cbn [rec_ok] in *.
  - apply qry_ok_mono. exact H.
  - repeat (apply andb_true_iff in H; destruct H as [H ?]).
    rewrite H, H4, H3, H1. cbn [andb].
    assert (A: (ra || cmp_okb true c) = true) by (destruct ra; [reflexivity|cbn [orb] in *; apply cmp_okb_mono; assumption]).
    rewrite A. cbn [andb].
    revert H0. clear -IH.
    induction IH as [|x rest Hx Hrest IHl]; intro K; [reflexivity|]. cbn [forallb] in *.
    apply andb_true_iff in K. destruct K as [K1 K2]. rewrite (Hx _ K1), (IHl K2). reflexivity.
  - revert H. clear -IH. induction IH as [|x rest Hx Hrest IHl]; intro K; [reflexivity|]. cbn [forallb] in *.
    apply andb_true_iff in K. destruct K as [K1 K2]. rewrite (Hx _ K1), (IHl K2). reflexivity.
Qed.

Lemma subs_static_mono : forall old c0 p0 subs, subs_static old c0 p0 subs = true -> subs_staticH old c0 p0 subs = true.
Proof.
  intros old c0 p0 subs H. unfold subs_static in H. unfold subs_staticH.
  repeat (apply andb_true_iff in H; destruct H as [H ?]).
  assert (A: forallb (rec_ok true (ostack p0)) subs = true)
    by (apply forallb_forall; intros x Hx; rewrite forallb_forall in H; apply rec_ok_mono; apply H; exact Hx).
  rewrite A, H5, H4, H3, H2, H1, H0. reflexivity.
Qed.

Theorem okc_okcH : forall c0 old, okc c0 old -> okcH c0 old.
Proof.
  intros c0 old [H1 H2]. split.
  - intros p rec Hg. specialize (H1 p rec Hg).
    destruct rec as [q0 r0 e0|p' c' f' a' k' subs' rt' cr' ra' sf'|f0 a0 k0 sb0 r0 ra0 sf0]; try reflexivity.
    cbn [frec_static frec_staticH] in *. apply andb_true_iff in H1. destruct H1 as [A B]. rewrite A. cbn [andb].
    destruct ra'; [reflexivity|]. cbn [orb] in *.
    apply andb_true_iff in B. destruct B as [B B4]. apply andb_true_iff in B. destruct B as [B B3].
    apply andb_true_iff in B. destruct B as [B1 B2].
    rewrite B1, (cmp_okb_mono _ B2), B3, (subs_static_mono _ _ _ _ B4). reflexivity.
  - intros k rec Hg. destruct (H2 k rec Hg) as (q & Hq & K). exists q. split; [exact Hq|].
    destruct rec as [q0 r0 e0|p' c' f' a' k' subs' rt' cr' ra' sf'|f0 a0 k0 sb0 r0 ra0 sf0]; try reflexivity.
    cbn [srec_static srec_staticH] in *. destruct ra0; [reflexivity|]. cbn [orb] in *.
    apply andb_true_iff in K. destruct K as [K K7]. apply andb_true_iff in K. destruct K as [K K6].
    apply andb_true_iff in K. destruct K as [K K5]. apply andb_true_iff in K. destruct K as [K K4].
    apply andb_true_iff in K. destruct K as [K K3]. apply andb_true_iff in K. destruct K as [K1 K2].
    rewrite (subs_static_mono _ _ _ _ K1), K2, K3, K4, K5, K6, K7. reflexivity.
Qed.

(* ------------------------------------------------------------------ the side conditions of SimB8 *)
Section ClassH.
  Variables (c0 : N) (W : list path) (w : world) (s : kstate).
  Hypothesis Hnew : forall q g, mem_path q W = true ->
    lookup (w_fs w) q = Some (NFile g) \/ lookup (k_fs s) q = Some (NFile g) -> (c0 < f_mtime g)%N.

  Lemma static_subs_okH : forall p0 subs, subs_staticH (w_old w) c0 p0 subs = true -> subs_ok true W w s p0 subs.
  Proof.
    intros p0 subs H. unfold subs_staticH in H. repeat (apply andb_true_iff in H; destruct H as [H ?]).
    split; [apply (rec_ok_weaken_list true subs (ostack p0) []); [intros t []|exact H]|].
    split; [apply (static_sem c0 W w s Hnew); assumption|]. split; [apply nodupb_NoDup; assumption|].
    intros t Ht E. match goal with K : forallb (fun t => negb (opath_eqb t p0)) _ = true |- _ => rewrite forallb_forall in K; specialize (K t Ht) end.
    subst p0. cbn [opath_eqb] in *. rewrite path_eqb_refl in *. discriminate.
  Qed.
End ClassH.

Lemma static_partsH : forall old c0 p0 subs, subs_staticH old c0 p0 subs = true ->
  forallb (rec_ok true []) subs = true /\ forallb calm subs = true /\
  forallb (node_static old c0) (flat_map nodes subs) = true /\ NoDup (flat_map regp subs) /\
  (forall t, In t (flat_map regp subs) -> Some t <> p0) /\ kfresh (snd (cll subs)) /\ forallb wfrec subs = true.
Proof.
  intros old c0 p0 subs H. unfold subs_staticH in H. repeat (apply andb_true_iff in H; destruct H as [H ?]).
  split; [apply (rec_ok_weaken_list true subs (ostack p0) []); [intros t []|exact H]|]. split; [assumption|]. split; [assumption|]. split; [apply nodupb_NoDup; assumption|].
  split; [|split; [apply kfreshb_kfresh; assumption|assumption]].
  intros t Ht E. match goal with K : forallb (fun t => negb (opath_eqb t p0)) _ = true |- _ => rewrite forallb_forall in K; specialize (K t Ht) end.
  subst p0. cbn [opath_eqb] in *. rewrite path_eqb_refl in *. discriminate.
Qed.

Print Assumptions okc_okcH.
Print Assumptions static_subs_okH.
