(* Proofs/SimP2.v — C14 / C02, the state after a failed build under injected faults, assembled:
   RollbackFaultsMain (regular files), RollbackFaults2Main (no directory lost) and SimP1 (the
   tree stays well formed under any faults) give, for ANY fault list that lies before the undo,
     - the tree after the failed build is well formed,
     - every path holds what it held before, except that a path that was absent may now be a
       directory (a directory leaked by a faulted clean-up: RollbackFaults2Ex shows this happens),
     - a leaked directory holds no regular file at any depth: everything below it is absent or
       a leaked directory itself.
   [rollback_state_faults].  With faults anywhere (also inside the undo) the tree is still well
   formed and foreign files are intact: [failed_build_any_faults].
   New file; edits nothing. *)
From Coq Require Import List String Ascii NArith ZArith Bool Arith Lia.
From FB.Base Require Import PyVal Fs.
From FB.Gen Require Import JsonUtilGen.
From FB.Spec Require Import Prog.
From FB.Model Require Import Types Monad Builder Persist Build Run Frame.
From FB.Proofs Require Import FsLemmas FrameLaws RollbackFaultsLaws RollbackFaultsMain RollbackFaults2Main SimD3 SimP1.
Import ListNotations.
Local Open Scope list_scope.

(* what a failed build may leave at a path *)
Definition same_or_leaked (fs fs' : fsT) (p : path) : Prop :=
  lookup fs' p = lookup fs p \/ (lookup fs p = None /\ lookup fs' p = Some NDir).

Lemma wf_absent_below : forall fs, fs_wf fs -> forall d q, lookup fs d = None -> below d q = true -> lookup fs q = None.
Proof.
  intros fs Hwf d q Hd Hb. destruct (lookup fs q) as [n|] eqn:E; [|reflexivity].
  pose proof (ancestors_are_dirs fs Hwf q d Hb (Hwf q n E)) as X. congruence.
Qed.

Theorem rollback_state_faults : forall cf nm vers svers root w w' e (P : path -> Prop),
  sanitize vers = Some svers ->
  AllTargets P root ->
  fs_wf (w_fs w) ->
  (forall p f, lookup (w_fs w) p = Some (NFile f) -> path_ok p = true) ->
  (forall a t, (P t \/ t = cf \/ In t (cache_targets (old_cache_of (w_fs w) cf nm svers))) ->
     below a t = true -> (forall f, lookup (w_fs w) a <> Some (NFile f)) /\ ~ P a) ->
  (forall d, In d (c_dirs (old_cache_of (w_fs w) cf nm svers)) -> path_ok d = true) ->
  run_build cf nm vers root w = (w', Done (inr e)) ->
  exists ccd wx,
    undo_entry cf nm svers (fun w0 => run root None [] w0) w (old_cache_of (w_fs w) cf nm svers) = Some (ccd, wx) /\
    ((forall n, In n (w_faults w) -> n < w_effects wx) ->
     fs_wf (w_fs w') /\
     (forall p, same_or_leaked (w_fs w) (w_fs w') p) /\
     (forall d, lookup (w_fs w) d = None -> lookup (w_fs w') d = Some NDir ->
        forall q, below d q = true ->
          lookup (w_fs w') q = None \/ (lookup (w_fs w) q = None /\ lookup (w_fs w') q = Some NDir))).
Proof.
  intros cf nm vers svers root w w' e P Hsv Hat Hwf Hnames HA HE H.
  destruct (rollback_restores_files_faults cf nm vers svers root w w' e P Hsv Hat Hwf Hnames HA HE H)
    as (ccd & wx & U & F).
  destruct (rollback_keeps_dirs_faults cf nm vers svers root w w' e P Hsv Hat Hwf Hnames HA HE H)
    as (ccd' & wx' & U' & D).
  rewrite U in U'. inversion U'; subst ccd' wx'; clear U'.
  exists ccd, wx. split; [exact U|]. intro Hb.
  specialize (F Hb). specialize (D Hb).
  assert (Hwf' : fs_wf (w_fs w')) by exact (run_build_wf cf nm vers root w w' _ Hwf H).
  assert (S : forall p, same_or_leaked (w_fs w) (w_fs w') p).
  { intro p. unfold same_or_leaked.
    destruct (lookup (w_fs w) p) as [[f|]|] eqn:E.
    - left. apply F. exact E.
    - left. assert (X : isdir (w_fs w) p = true) by (unfold isdir; rewrite E; reflexivity).
      apply D in X. unfold isdir in X. destruct (lookup (w_fs w') p) as [[g|]|]; try discriminate X. reflexivity.
    - destruct (lookup (w_fs w') p) as [[g|]|] eqn:E'.
      + apply F in E'. congruence.
      + right. split; reflexivity.
      + left. reflexivity. }
  split; [exact Hwf'|]. split; [exact S|].
  intros d Hd Hd' q Hq.
  pose proof (wf_absent_below (w_fs w) Hwf d q Hd Hq) as Eq.
  destruct (S q) as [X|[_ X]]; [left; rewrite X; exact Eq | right; split; [exact Eq | exact X]].
Qed.

(* faults anywhere, also inside the undo, any outcome: the tree is well formed and every
   regular file outside the managed set is the same node *)
Theorem failed_build_any_faults : forall cf nm vers svers root w w' r (P : path -> Prop),
  sanitize vers = Some svers -> AllTargets P root -> fs_wf (w_fs w) ->
  run_build cf nm vers root w = (w', r) ->
  fs_wf (w_fs w') /\
  (forall p f, lookup (w_fs w) p = Some (NFile f) ->
     ~ Managed P (old_cache_of (w_fs w) cf nm svers) cf p -> lookup (w_fs w') p = Some (NFile f)) /\
  (forall p f, lookup (w_fs w') p = Some (NFile f) ->
     ~ Managed P (old_cache_of (w_fs w) cf nm svers) cf p ->
     forall a, below a p = true -> lookup (w_fs w') a = Some NDir).
Proof.
  intros cf nm vers svers root w w' r P Hsv Hat Hwf H.
  assert (Hwf' : fs_wf (w_fs w')) by exact (run_build_wf cf nm vers root w w' r Hwf H).
  split; [exact Hwf'|]. split.
  - intros p f. exact (build_preserves_foreign_files_tight cf nm vers svers root w w' r P Hsv Hat H p f).
  - intros p f Hp _ a Ha. exact (ancestors_are_dirs (w_fs w') Hwf' p a Ha (Hwf' p _ Hp)).
Qed.

Print Assumptions rollback_state_faults.
Print Assumptions failed_build_any_faults.
