(* Proofs/SimH2.v — records and directories of a first build are well formed.
   Invariant [W w] of a run of the mechanism model that started from an empty old cache:
     RW  every finished record of the two tables of the new cache satisfies op_wf;
     TW  every directory BuildDirs tracks (created / error-created) is a legal path;
     HS  every memoised hash is a string;
     Cold the tables of the old cache are empty (no record is ever reused).
   [run_W]: a program whose paths are legal keeps W, and every record it hands back satisfies
   op_wf.  Implication-style preorder [wk w w' := W w -> W w'] so that the footprint toolkit of
   ReplayLaws applies; read-only routines come from RollbackDirsView (BuildDirs keeps its
   created lists) and HashMemoInv (the memo only gains hashes). *)
From Coq Require Import List String Ascii NArith ZArith Bool Arith Lia.
From FB.Base Require Import PyVal Fs.
From FB.Gen Require Import JsonUtilGen.
From FB.Spec Require Import JsonSpec Prog.
From FB.Model Require Import Types Monad CreatedFiles BuildDirs SimpleOps Builder Persist PersistSpec Build Run.
From FB.Proofs Require Import FsLemmas JsonLaws PersistLaws ReplayLaws BuildFileLaws HashMemoInv
  RollbackDirsBase RollbackDirsView CacheRTOpen.
Import ListNotations.
Local Open Scope list_scope.
Local Open Scope m_scope.

(* ------------------------------------------------------------------ the invariant *)
Definition HS (w : world) : Prop := forall p h b, In (p, (h, b)) (w_hash w) -> exists s, h = PStr s.
Definition TW (w : world) : Prop := forall d, tracked (w_bd w) d -> path_wf d = true.
Definition RW (c : cache) : Prop :=
  (forall p o, In (p, Some o) (c_files c) -> op_wf o = true) /\
  (forall k o, In (k, Some o) (c_subs c) -> op_wf o = true).
Definition Cold (w : world) : Prop := c_files (w_old w) = [] /\ c_subs (w_old w) = [].
Definition W (w : world) : Prop := RW (w_new w) /\ TW w /\ HS w /\ Cold w.

Definition wk (w w' : world) : Prop := W w -> W w'.
Lemma wk_refl : forall w, wk w w.
Proof. intros w H. exact H. Qed.
Lemma wk_trans : forall a b c, wk a b -> wk b c -> wk a c.
Proof. intros a b c A B H. apply B, A, H. Qed.
Definition wkPO : PO := {| rel := wk; po_refl := wk_refl; po_trans := wk_trans |}.

Lemma wk_same : forall w w', w_new w' = w_new w -> w_old w' = w_old w -> w_bd w' = w_bd w ->
  w_hash w' = w_hash w -> wk w w'.
Proof.
  intros w w' E1 E2 E3 E4 (A & B & C & D). unfold W, TW, HS, Cold. rewrite E1, E2, E3, E4. auto.
Qed.

Lemma vh_wk : forall w w', viewPO w w' -> HXPO false w w' -> wk w w'.
Proof.
  intros w w' [S L] X (A & B & C & D).
  destruct S as (A1 & A2 & A3 & A4 & A5 & A6 & A7 & A8 & A9 & A10 & A11).
  destruct L as (L1 & L2 & L3 & _).
  destruct X as (_ & _ & _ & nw & Eh & Hn).
  unfold W, TW, HS, Cold, tracked. rewrite A5, A4, L2, L3. split; [exact A|]. split; [exact B|]. split; [|exact D].
  intros p h b Hin. rewrite Eh in Hin. apply in_app_or in Hin. destruct Hin as [Hin|Hin]; [|eapply C; eauto].
  rewrite Forall_forall in Hn. destruct (Hn _ Hin) as (_ & (f & _ & Ef) & _). cbn [fst snd] in Ef.
  rewrite Ef. unfold hash_of. eauto.
Qed.

Lemma pres_vh : forall X (m : world -> world * X), pres viewPO m -> pres (HXPO false) m -> pres wkPO m.
Proof. intros X m H1 H2 w w' r E. apply vh_wk; [eapply H1; eauto | eapply H2; eauto]. Qed.

Create HintDb presv discriminated.
Create HintDb presh discriminated.
#[local] Hint Resolve m_handle_dir_exists_view m_is_removed_view is_file_no_read_view is_cache_file_view
  file_metadata_view file_hash_view list_dir_superset_view file_comparison_result_view
  m_is_file_view m_is_dir_view m_exists_view exec_query_view noneable_cmp_view version_equal_view
  dirs_to_make_view new_assert_no_file_view new_assert_no_subbuild_view m_query_view : presv.
#[local] Hint Extern 8 (pres (HXPO _) _) => apply (pres_weaken HSPO (HXPO _) _ _ (hsame_hx _)) : presh.
#[local] Hint Extern 9 (pres (HXPO false) _) => apply (pres_weaken (HXPO true) (HXPO false) _ _ hx_strict_weaken) : presh.
#[local] Hint Resolve m_handle_dir_exists_hs m_is_removed_hs is_file_no_read_hs is_cache_file_hs
  file_metadata_hs list_dir_superset_hs m_is_file_hs m_is_dir_hs m_exists_hs version_equal_hs
  dirs_to_make_hs new_assert_no_file_hs new_assert_no_subbuild_hs
  file_hash_hxf file_comparison_result_hxf exec_query_hxf noneable_cmp_hxf m_query_strict : presh.
#[local] Hint Extern 8 (pres wkPO _) =>
  apply pres_vh; [solve [eauto 4 with presv] | solve [eauto 4 with presh]] : pres.

Ltac wk_solve :=
  lazymatch goal with |- rel wkPO ?a ?b => change (wk a b) | _ => idtac end;
  first [ apply wk_refl | apply wk_same; reflexivity ].

Lemma effect_wk : forall what p f, pres wkPO (effect what p f).
Proof. intros what p f w w' r H. unfold effect in H. cbv zeta in H. repeat dm H; inversion H; subst; wk_solve. Qed.
Lemma effect_p_wk : forall what p f, pres wkPO (effect_p what p f).
Proof. intros what p f w w' r H. unfold effect_p in H. cbv zeta in H. repeat dm H; inversion H; subst; wk_solve. Qed.
#[local] Hint Resolve effect_wk effect_p_wk : pres.

Lemma back_up_and_remove_wk : forall p, pres wkPO (back_up_and_remove p).
Proof.
  intro p. unfold back_up_and_remove. apply pres_bind; [auto with pres|]. intros _.
  intros w w' r H. cbv zeta in H. repeat dm H; inversion H; subst; wk_solve.
Qed.
#[local] Hint Resolve back_up_and_remove_wk : pres.

Lemma try_to_remove_file_wk : forall p, pres wkPO (try_to_remove_file p).
Proof. intro p. unfold try_to_remove_file. pres_auto. Qed.
Lemma remove_empty_dirs_wk : forall ds, pres wkPO (remove_empty_dirs ds).
Proof. intro ds. unfold remove_empty_dirs. pres_auto. Qed.
Lemma make_one_dir_wk : forall d, pres wkPO (make_one_dir d).
Proof. intro d. unfold make_one_dir. pres_auto. Qed.
#[local] Hint Resolve try_to_remove_file_wk remove_empty_dirs_wk make_one_dir_wk : pres.
Lemma make_dirs_loop_wk : forall ds made, pres wkPO (make_dirs_loop ds made).
Proof. induction ds as [|d ds IH]; intro made; cbn [make_dirs_loop]; pres_auto. Qed.
#[local] Hint Resolve make_dirs_loop_wk : pres.
Lemma make_dirs_wk : forall d, pres wkPO (make_dirs d).
Proof. intro d. unfold make_dirs. pres_auto. Qed.
#[local] Hint Resolve make_dirs_wk : pres.
Lemma make_room_wk : forall fuel d, pres wkPO (make_room fuel d).
Proof. induction fuel as [|fuel IH]; intro d; cbn [make_room]; pres_auto. Qed.
#[local] Hint Resolve make_room_wk : pres.
Lemma prepare_file_creation_wk : forall p, pres wkPO (prepare_file_creation p).
Proof. intro p. unfold prepare_file_creation. pres_auto. Qed.
#[local] Hint Resolve prepare_file_creation_wk : pres.

(* ------------------------------------------------------------------ values, whatever the world *)
Definition vpost {A} (m : M A) (Q : A -> Prop) : Prop := forall w w' a, m w = (w', inl a) -> Q a.

Lemma vpost_ret : forall A (a : A) (Q : A -> Prop), Q a -> vpost (ret a) Q.
Proof. intros A a Q H w w' a' E. inversion E; subst. exact H. Qed.
Lemma vpost_raise : forall A e (Q : A -> Prop), vpost (raise e) Q.
Proof. intros A e Q w w' a' E. inversion E. Qed.
Lemma vpost_bind : forall A B (m : M A) (f : A -> M B) (Q1 : A -> Prop) (Q : B -> Prop),
  vpost m Q1 -> (forall a, Q1 a -> vpost (f a) Q) -> vpost (bind m f) Q.
Proof.
  intros A B m f Q1 Q H1 H2 w w' b E. apply bind_inv in E.
  destruct E as [(w1 & a & E1 & E2) | (e & _ & Y)]; [|discriminate Y].
  exact (H2 a (H1 _ _ _ E1) _ _ _ E2).
Qed.
Lemma vpost_bind_r : forall A B (m : M A) (f : A -> M B) (Q : B -> Prop),
  (forall a, vpost (f a) Q) -> vpost (bind m f) Q.
Proof. intros A B m f Q H. apply (vpost_bind A B m f (fun _ => True)); [intros w w' a _; exact I | intros a _; apply H]. Qed.

Lemma san_strs : forall l, forallb (sanitized_gen true) (map PStr l) = true.
Proof. induction l as [|x l IH]; cbn; auto. Qed.

Lemma walk_entry_san : forall d a b, sanitized_t (walk_entry d a b) = true.
Proof.
  intros d a b. unfold walk_entry, sanitized_t. rewrite sanitized_gen_tuple. cbn [forallb andb sanitized_gen].
  rewrite !san_strs. reflexivity.
Qed.

Lemma append_walk_san : forall fuel d td cf, vpost (append_walk fuel d td cf) (fun l => forallb sanitized_t l = true).
Proof.
  induction fuel as [|fuel IH]; intros d td cf; cbn [append_walk]; [apply vpost_raise|].
  apply vpost_bind_r. intro sup. apply vpost_bind_r. intro cls.
  apply (vpost_bind _ _ _ _ (fun l => forallb sanitized_t l = true)).
  - generalize (fst cls). intro ds. induction ds as [|n ds IHds].
    + apply vpost_ret. exact (eq_refl : forallb sanitized_t [] = true).
    + eapply vpost_bind; [apply IH|]. intros a Ha. eapply vpost_bind; [exact IHds|]. intros b Hb.
      apply vpost_ret. rewrite forallb_app, Ha, Hb. reflexivity.
  - intros below Hb. apply vpost_ret. destruct td.
    + cbn [forallb]. rewrite walk_entry_san, Hb. reflexivity.
    + rewrite forallb_app, Hb. cbn [forallb]. rewrite walk_entry_san. reflexivity.
Qed.

Lemma hs_of_hx : forall w w', HXPO false w w' -> HS w -> HS w'.
Proof.
  intros w w' X C. destruct X as (_ & _ & _ & nw & Eh & Hn).
  intros p h b Hin. rewrite Eh in Hin. apply in_app_or in Hin. destruct Hin as [Hin|Hin]; [|eapply C; eauto].
  rewrite Forall_forall in Hn. destruct (Hn _ Hin) as (_ & (f & _ & Ef) & _). cbn [fst snd] in Ef.
  rewrite Ef. unfold hash_of. eauto.
Qed.

Lemma cmp_val : forall p c w w' v, HS w -> file_comparison_result p c w = (w', inl v) -> sanitized v = true.
Proof.
  intros p c w w' v Hh H. destruct c; cbn [file_comparison_result] in H.
  - unfold file_metadata in H. repeat dm H; inversion H; subst. reflexivity.
  - unfold file_hash in H. cbv zeta in H.
    destruct (hash_get (w_hash w) p) as [[h b]|] eqn:Eg.
    + apply hash_get_In in Eg. destruct (Hh _ _ _ Eg) as [s ->].
      repeat dm H; inversion H; subst; reflexivity.
    + repeat dm H; inversion H; subst; reflexivity.
Qed.

Lemma noneable_cmp_val : forall p c w w' v, HS w -> noneable_cmp p c w = (w', inl v) -> sanitized v = true.
Proof.
  intros p c w w' v Hh H. unfold noneable_cmp in H. apply catch_inv in H.
  destruct H as [(a & E & Y) | (w1 & e & E & H)].
  - inversion Y; subst. eapply cmp_val; eauto.
  - destruct (is_os_class XFileNotFound e || is_os_class XIsADirectory e || is_os_class XNotADirectory e);
      inversion H; subst. reflexivity.
Qed.

Lemma exec_query_val : forall q w w' v, HS w -> exec_query q None w = (w', inl v) -> sanitized_t v = true.
Proof.
  intros q w w' v Hh H. destruct q as [p|p|p|p|p td|p|p c]; cbn [exec_query] in H.
  - minv H. reflexivity.
  - minv H. reflexivity.
  - minv H. reflexivity.
  - revert H. generalize w w' v. change (vpost (m_list_dir p None) (fun v => sanitized_t v = true)).
    unfold m_list_dir. apply vpost_bind_r. intros _. apply vpost_bind_r. intro sup. apply vpost_bind_r. intro names.
    apply vpost_ret. unfold sanitized_t. rewrite sanitized_gen_list. apply san_strs.
  - revert H. generalize w w' v. change (vpost (m_walk p td None) (fun v => sanitized_t v = true)).
    unfold m_walk. apply vpost_bind_r. intros [|]; [|apply vpost_ret; reflexivity].
    eapply vpost_bind; [apply append_walk_san|]. intros l Hl. apply vpost_ret. exact Hl.
  - revert H. generalize w w' v. change (vpost (m_get_size p None) (fun v => sanitized_t v = true)).
    unfold m_get_size. apply vpost_bind_r. intros e. destruct (negb e); [apply vpost_raise|].
    apply vpost_bind_r. intro w0. destruct (lookup (w_fs w0) p) as [[f|]|];
      [apply vpost_ret; reflexivity | apply vpost_ret; reflexivity | apply vpost_raise].
  - unfold m_read in H.
    apply bind_inv in H. destruct H as [(w1 & nr & E1 & H) | (e & _ & Y)]; [|discriminate Y].
    assert (H1 : HS w1) by (eapply hs_of_hx; [|exact Hh]; eapply (pres_weaken HSPO (HXPO false) _ _ (hsame_hx false)); [apply is_file_no_read_hs | exact E1]).
    apply bind_inv in H. destruct H as [(w2 & u & E2 & H) | (e & _ & Y)]; [|discriminate Y].
    assert (H2 : HS w2).
    { destruct nr as [[|]|]; try (inversion E2; subst; exact H1).
      apply bind_inv in E2. destruct E2 as [(w3 & dd & E3 & E2) | (e & _ & Y)]; [|discriminate Y].
      destruct dd; inversion E2. }
    apply bind_inv in H. destruct H as [(w3 & res & E3 & H) | (e & _ & Y)]; [|discriminate Y].
    apply bind_inv in H. destruct H as [(w4 & u4 & E4 & H) | (e & _ & Y)]; [|discriminate Y].
    inversion H; subst v.
    apply catch_inv in E3. destruct E3 as [(a & E & Y) | (w5 & e & E & E3)].
    + inversion Y; subst. apply sanitized_sanitized_t. eapply cmp_val; eauto.
    + destruct (is_os_class XFileNotFound e || is_os_class XNotADirectory e); [inversion E3|].
      destruct (is_os_class XIsADirectory e); [|inversion E3].
      apply bind_inv in E3. destruct E3 as [(w6 & dd & _ & E3) | (e' & _ & Y)]; [|discriminate Y].
      destruct dd; inversion E3.
Qed.

(* ------------------------------------------------------------------ created directories are legal *)
Lemma path_wf_tl : forall p, path_wf p = true -> path_wf (dirname p) = true.
Proof. intros [|n d] H; [reflexivity|]. cbn [dirname tl]. cbn [path_wf forallb] in H. apply andb_true_iff in H. tauto. Qed.

Lemma dirs_to_make_wf : forall d cf, path_wf d = true -> vpost (dirs_to_make d cf) (fun ds => forallb path_wf ds = true).
Proof.
  induction d as [|n d IH]; intros cf Hd; cbn [dirs_to_make].
  - apply vpost_bind_r. intro isd. apply vpost_bind_r. intro isf. destruct isf; [apply vpost_raise|].
    destruct isd; [apply vpost_ret; reflexivity|]. apply vpost_bind_r. intro icf. destruct icf; apply vpost_raise.
  - apply vpost_bind_r. intro isd. apply vpost_bind_r. intro isf. destruct isf; [apply vpost_raise|].
    destruct isd; [apply vpost_ret; reflexivity|]. apply vpost_bind_r. intro icf. destruct icf; [apply vpost_raise|].
    eapply vpost_bind; [apply IH; exact (path_wf_tl (n :: d) Hd)|]. intros r Hr. apply vpost_ret.
    rewrite forallb_app, Hr. cbn [forallb]. rewrite Hd. reflexivity.
Qed.

Lemma make_dirs_wf : forall d, path_wf d = true -> vpost (make_dirs d) (fun ds => forallb path_wf ds = true).
Proof.
  intros d Hd. unfold make_dirs. eapply vpost_bind; [apply dirs_to_make_wf; exact Hd|]. intros ds Hds.
  apply vpost_bind_r. intros _. apply vpost_ret. exact Hds.
Qed.

Lemma prepare_file_creation_wf : forall p, path_wf p = true ->
  vpost (prepare_file_creation p) (fun ds => forallb path_wf ds = true).
Proof.
  intros p Hp. unfold prepare_file_creation. apply vpost_bind_r. intro w0. apply vpost_bind_r. intros _.
  apply make_dirs_wf. apply path_wf_tl. exact Hp.
Qed.

(* ------------------------------------------------------------------ updates of the tables *)
Lemma in_files_set : forall l p v q o, In (q, Some o) (files_set l p v) -> In (q, Some o) l \/ v = Some o.
Proof.
  induction l as [|[k x] l IH]; intros p v q o H; cbn [files_set] in H.
  - destruct H as [H|[]]. inversion H; subst. right; reflexivity.
  - destruct (path_eqb k p).
    + destruct H as [H|H]; [inversion H; subst; right; reflexivity | left; right; exact H].
    + destruct H as [H|H]; [left; left; exact H|]. destruct (IH _ _ _ _ H); [left; right; assumption | right; assumption].
Qed.
Lemma in_subs_set : forall l p v q o, In (q, Some o) (subs_set l p v) -> In (q, Some o) l \/ v = Some o.
Proof.
  induction l as [|[k x] l IH]; intros p v q o H; cbn [subs_set] in H.
  - destruct H as [H|[]]. inversion H; subst. right; reflexivity.
  - destruct (py_eq k p).
    + destruct H as [H|H]; [inversion H; subst; right; reflexivity | left; right; exact H].
    + destruct H as [H|H]; [left; left; exact H|]. destruct (IH _ _ _ _ H); [left; right; assumption | right; assumption].
Qed.
Lemma in_files_del : forall l p e, In e (files_del l p) -> In e l.
Proof.
  induction l as [|[k x] l IH]; intros p e H; cbn [files_del] in H; [exact H|].
  destruct (path_eqb k p); [right; eapply IH; eauto|]. destruct H as [H|H]; [left; exact H | right; eapply IH; eauto].
Qed.

Lemma set_new_wk : forall c w, (RW (w_new w) -> RW c) -> wk w (set_new c w).
Proof. intros c w H (A & B & C & D). split; [exact (H A)|]. split; [exact B|]. split; [exact C | exact D]. Qed.

Lemma start_file_wk : forall p, pres wkPO (new_start_building_file p).
Proof.
  intro p. unfold new_start_building_file. apply pres_bind; [auto with pres|]. intros _.
  apply pres_modify. intro w. apply set_new_wk. intros [A B]. split; cbn [cache_with c_files c_subs]; [|exact B].
  intros q o H. destruct (in_files_set _ _ _ _ _ H) as [K|K]; [eapply A; eauto | discriminate K].
Qed.
Lemma abort_file_wk : forall p, pres wkPO (new_abort_building_file p).
Proof.
  intro p. unfold new_abort_building_file. apply pres_modify. intro w. apply set_new_wk.
  intros [A B]. split; cbn [cache_with c_files c_subs]; [|exact B].
  intros q o H. eapply A. eapply in_files_del; eauto.
Qed.
Lemma finish_file_wk : forall p o, op_wf o = true -> pres wkPO (new_finish_building_file p o).
Proof.
  intros p o Ho. unfold new_finish_building_file. apply pres_modify. intro w. apply set_new_wk.
  intros [A B]. split; cbn [cache_with c_files c_subs]; [|exact B].
  intros q o' H. destruct (in_files_set _ _ _ _ _ H) as [K|K]; [eapply A; eauto | inversion K; subst; exact Ho].
Qed.
Lemma start_sub_wk : forall k, pres wkPO (new_start_subbuild k).
Proof.
  intro k. unfold new_start_subbuild. apply pres_bind; [auto with pres|]. intros _.
  apply pres_modify. intro w. apply set_new_wk. intros [A B]. split; cbn [cache_with c_files c_subs]; [exact A|].
  intros q o H. destruct (in_subs_set _ _ _ _ _ H) as [K|K]; [eapply B; eauto | discriminate K].
Qed.
Lemma finish_sub_wk : forall k o, op_wf o = true -> pres wkPO (new_finish_subbuild k o).
Proof.
  intros k o Ho. unfold new_finish_subbuild. apply pres_modify. intro w. apply set_new_wk.
  intros [A B]. split; cbn [cache_with c_files c_subs]; [exact A|].
  intros q o' H. destruct (in_subs_set _ _ _ _ _ H) as [K|K]; [eapply B; eauto | inversion K; subst; exact Ho].
Qed.
#[local] Hint Resolve start_file_wk abort_file_wk start_sub_wk : pres.

Lemma m_bd_started_wk : forall p created, forallb path_wf created = true -> pres wkPO (m_bd_started p created).
Proof.
  intros p created Hc w w' r H. unfold m_bd_started in H.
  destruct (bd_started (w_bd w) p created) as [b l] eqn:E. inversion H; subst.
  intros (A & B & C & D). split; [exact A|]. split; [|split; [exact C | exact D]].
  intros d Hd. cbn [w_bd set_bd] in Hd.
  destruct (bd_started_spec _ _ _ _ _ E) as (_ & _ & _ & S4 & _).
  destruct (S4 d Hd) as [K|K]; [exact (B d K)|]. rewrite forallb_forall in Hc. exact (Hc d K).
Qed.
Lemma m_bd_error_wk : forall p, pres wkPO (m_bd_error p).
Proof.
  intros p w w' r H. unfold m_bd_error in H.
  destruct (bd_error (w_bd w) p) as [b|] eqn:E; inversion H; subst; [|apply wk_refl].
  intros (A & B & C & D). split; [exact A|]. split; [|split; [exact C | exact D]].
  intros d Hd. cbn [w_bd set_bd] in Hd.
  destruct (bd_error_spec _ _ _ E) as (_ & S2 & _). apply B. apply S2. exact Hd.
Qed.
#[local] Hint Resolve m_bd_error_wk : pres.

Lemma bf_claim_wk : forall p, pres wkPO (bf_claim p).
Proof. intro p. unfold bf_claim. pres_auto. Qed.

Lemma bf_claim_none : forall p w w' a, bf_claim p w = (w', inl a) -> a = None.
Proof.
  intros p w w' a H. unfold bf_claim in H.
  apply bind_inv in H. destruct H as [(w1 & u1 & _ & H) | (e & _ & Y)]; [|discriminate Y].
  apply bind_inv in H. destruct H as [(w2 & u2 & _ & H) | (e & _ & Y)]; [|discriminate Y].
  inversion H; reflexivity.
Qed.

(* ------------------------------------------------------------------ nothing to reuse *)
Lemma bfcl_cold : forall p f a k w, Cold w -> build_file_cache_lookup p f a k w = (w, inl None).
Proof.
  intros p f a k w [C _]. unfold build_file_cache_lookup. unfold bind at 1, get. unfold cache_get_file. rewrite C.
  reflexivity.
Qed.
Lemma sbcl_cold : forall key f w, Cold w -> subbuild_cache_lookup key f w = (w, inl None).
Proof.
  intros key f w [_ C]. unfold subbuild_cache_lookup. unfold bind at 1, get. rewrite C. reflexivity.
Qed.

Lemma bf_inner_cold : forall p c f sa skw w, Cold w ->
  (cached <- build_file_cache_lookup p f sa skw ;;
   reused <- bf_reuse p c f sa skw cached ;;
   match reused with
   | Some (inl o) => ret (Some (inl o))
   | Some (inr eo) => m_bd_error p ;;; ret (Some (inr eo))
   | None => bf_claim p
   end) w = bf_claim p w.
Proof. intros p c f sa skw w C. unfold bind at 1. rewrite (bfcl_cold _ _ _ _ _ C). reflexivity. Qed.

Lemma presW : forall X (m : world -> world * X) w w' r, pres wkPO m -> m w = (w', r) -> W w -> W w'.
Proof. intros X m w w' r P E. exact (P _ _ _ E). Qed.

Lemma bf_setup_W : forall p c f sa skw w w1 r, W w -> path_wf p = true ->
  bf_setup p c f sa skw w = (w1, r) -> W w1 /\ (r = inl None \/ exists e, r = inr e).
Proof.
  intros p c f sa skw w w1 r HW Hp H. unfold bf_setup in H.
  apply bind_inv in H. destruct H as [(wa & ua & Ea & H) | (e & Ea & ->)].
  2:{ split; [|right; eauto]. refine (presW _ _ _ _ _ _ Ea HW). auto with pres. }
  assert (Wa : W wa) by (refine (presW _ _ _ _ _ _ Ea HW); auto with pres).
  apply bind_inv in H. destruct H as [(wb & icf & Eb & H) | (e & Eb & ->)].
  2:{ split; [|right; eauto]. refine (presW _ _ _ _ _ _ Eb Wa). auto with pres. }
  assert (Wb : W wb) by (refine (presW _ _ _ _ _ _ Eb Wa); auto with pres).
  apply bind_inv in H. destruct H as [(wc & uc & Ec & H) | (e & Ec & ->)].
  2:{ split; [|right; eauto]. destruct icf; inversion Ec; subst; exact Wb. }
  assert (Wc : W wc) by (destruct icf; inversion Ec; subst; exact Wb).
  apply bind_inv in H. destruct H as [(wd & created & Ed & H) | (e & Ed & ->)].
  2:{ split; [|right; eauto]. refine (presW _ _ _ _ _ _ Ed Wc). auto with pres. }
  assert (Wd : W wd) by (refine (presW _ _ _ _ _ _ Ed Wc); auto with pres).
  pose proof (prepare_file_creation_wf p Hp _ _ _ Ed) as Hcr.
  apply bind_inv in H. destruct H as [(we & locked & Ee & H) | (e & Ee & ->)].
  2:{ split; [|right; eauto]. exact (presW _ _ _ _ _ (m_bd_started_wk p created Hcr) Ee Wd). }
  assert (We : W we) by exact (presW _ _ _ _ _ (m_bd_started_wk p created Hcr) Ee Wd).
  unfold catch in H. rewrite (bf_inner_cold p c f sa skw we (proj2 (proj2 (proj2 We)))) in H.
  destruct (bf_claim p we) as [wf [a|e]] eqn:Ef.
  - inversion H; subst. split; [exact (presW _ _ _ _ _ (bf_claim_wk p) Ef We)|]. left.
    rewrite (bf_claim_none _ _ _ _ Ef). reflexivity.
  - assert (Wf : W wf) by exact (presW _ _ _ _ _ (bf_claim_wk p) Ef We).
    apply bind_inv in H. destruct H as [(wg & ug & Eg & H) | (e' & Eg & ->)].
    + inversion H; subst. split; [exact (presW _ _ _ _ _ (m_bd_error_wk p) Eg Wf) | right; eauto].
    + split; [exact (presW _ _ _ _ _ (m_bd_error_wk p) Eg Wf) | right; eauto].
Qed.

Lemma bf_fail_W : forall p c f sa skw subs e w w' r oo, W w ->
  op_wf (OBuildFile p c f sa skw subs PNone PNone true false) = true ->
  bf_fail p c f sa skw subs e w = (w', (r, oo)) ->
  W w' /\ exists o, oo = Some o /\ op_wf o = true.
Proof.
  intros p c f sa skw subs e w w' r oo HW Ho H. unfold bf_fail in H. cbv zeta in H.
  match type of H with (match ?X with _ => _ end) = _ => destruct X as [w1 [u|e1]] eqn:E end;
    inversion H; subst; (split; [|eexists; split; [reflexivity | exact Ho]]).
  all: refine (presW _ _ _ _ _ _ E HW); pose proof (finish_file_wk p _ Ho); pres_auto.
Qed.

Lemma bf_finish_W : forall p c f sa skw res subs w w' r oo, W w ->
  path_wf p = true -> sanitized sa = true -> sanitized skw = true -> forallb op_wf subs = true ->
  bf_finish p c f sa skw res subs w = (w', (r, oo)) ->
  W w' /\ exists o, oo = Some o /\ op_wf o = true.
Proof.
  intros p c f sa skw res subs w w' r oo HW Hp Ha Hk Hs H. unfold bf_finish in H.
  assert (Ho : op_wf (OBuildFile p c f sa skw subs PNone PNone true false) = true).
  { cbn [op_wf]. rewrite Hp, Ha, Hk, Hs. reflexivity. }
  assert (F : forall e w0, W w0 -> bf_fail p c f sa skw subs e w0 = (w', (r, oo)) ->
                W w' /\ exists o, oo = Some o /\ op_wf o = true).
  { intros e w0 H0 E. eapply bf_fail_W; eauto. }
  destruct res as [v|e]; [|eapply F; eauto].
  destruct (sanitize v) as [sv|] eqn:Esv; [|eapply F; eauto].
  destruct (noneable_cmp p c w) as [w4 [cmp|e]] eqn:E.
  - assert (W4 : W w4) by (refine (presW _ _ _ _ _ _ E HW); auto with pres).
    pose proof (noneable_cmp_val _ _ _ _ _ (proj1 (proj2 (proj2 HW))) E) as Hc.
    assert (Ho2 : op_wf (OBuildFile p c f sa skw subs sv cmp false false) = true).
    { cbn [op_wf]. rewrite Hp, Ha, Hk, Hs, Hc, (sanitize_sanitized _ _ Esv). reflexivity. }
    destruct cmp; try (eapply F; eauto; fail).
    all: cbv zeta in H;
      match type of H with (match ?X with _ => _ end) = _ => destruct X as [w5 u5] eqn:E5 end;
      inversion H; subst; (split; [|eexists; split; [reflexivity | exact Ho2]]);
      exact (presW _ _ _ _ _ (finish_file_wk p _ Ho2) E5 W4).
  - assert (W4 : W w4) by (refine (presW _ _ _ _ _ _ E HW); auto with pres).
    eapply F; eauto.
Qed.

Lemma sb_setup_W : forall f sa skw w w1 r, W w ->
  sb_setup f sa skw w = (w1, r) -> W w1 /\ (r = inl None \/ exists e, r = inr e).
Proof.
  intros f sa skw w w1 r HW H. unfold sb_setup in H. cbv zeta in H.
  apply bind_inv in H. destruct H as [(wa & ua & Ea & H) | (e & Ea & ->)].
  2:{ split; [|right; eauto]. refine (presW _ _ _ _ _ _ Ea HW). auto with pres. }
  assert (Wa : W wa) by (refine (presW _ _ _ _ _ _ Ea HW); auto with pres).
  unfold bind at 1 in H. rewrite (sbcl_cold _ _ _ (proj2 (proj2 (proj2 Wa)))) in H.
  apply bind_inv in H. destruct H as [(wb & ub & Eb & H) | (e & Eb & ->)].
  - inversion H; subst. split; [|left; reflexivity]. exact (presW _ _ _ _ _ (start_sub_wk _) Eb Wa).
  - split; [|right; eauto]. exact (presW _ _ _ _ _ (start_sub_wk _) Eb Wa).
Qed.

Lemma sb_finish_W : forall f sa skw res subs w w' r oo, W w ->
  sanitized sa = true -> sanitized skw = true -> forallb op_wf subs = true ->
  sb_finish f sa skw res subs w = (w', (r, oo)) ->
  W w' /\ exists o, oo = Some o /\ op_wf o = true.
Proof.
  intros f sa skw res subs w w' r oo HW Ha Hk Hs H. unfold sb_finish in H. cbv zeta in H.
  assert (G : forall rr o, op_wf o = true ->
     (match new_finish_subbuild (subbuild_key f sa skw) o w with (w4, _) => (w4, (rr, Some o)) end) = (w', (r, oo)) ->
     W w' /\ exists o, oo = Some o /\ op_wf o = true).
  { intros rr o Ho E. destruct (new_finish_subbuild (subbuild_key f sa skw) o w) as [w4 u4] eqn:E4.
    inversion E; subst. split; [exact (presW _ _ _ _ _ (finish_sub_wk _ _ Ho) E4 HW) | eauto]. }
  destruct res as [v|e].
  - destruct (sanitize v) as [sv|] eqn:Esv.
    + eapply G; [|exact H]. cbn [op_wf]. rewrite Ha, Hk, Hs, (sanitize_sanitized _ _ Esv). reflexivity.
    + eapply G; [|exact H]. cbn [op_wf]. rewrite Ha, Hk, Hs. reflexivity.
  - eapply G; [|exact H]. cbn [op_wf]. rewrite Ha, Hk, Hs. reflexivity.
Qed.

Lemma m_query_W : forall q w w1 r o, W w -> query_wf q = true -> m_query q w = (w1, (r, o)) ->
  W w1 /\ forall x, o = Some x -> op_wf x = true.
Proof.
  intros q w w1 r o HW Hq H. split.
  - refine (presW _ _ _ _ _ _ H HW). auto with pres.
  - unfold m_query in H. destruct (exec_query q None w) as [w2 [v|e]] eqn:E.
    + inversion H; subst. intros x Y. inversion Y; subst. cbn [op_wf]. rewrite Hq.
      rewrite (exec_query_val _ _ _ _ (proj1 (proj2 (proj2 HW))) E). reflexivity.
    + destruct e; inversion H; subst; intros x Y; inversion Y; subst; cbn [op_wf]; rewrite Hq; reflexivity.
Qed.

Lemma W_log_answer : forall q r w, W w -> W (log_answer q r w).
Proof.
  intros q r w. unfold log_answer.
  repeat match goal with |- context [match ?y with _ => _ end] => destruct y end;
    first [exact (fun H => H) | apply wk_same; reflexivity].
Qed.

Lemma forallb_app_op : forall subs o, forallb op_wf subs = true -> (forall x, o = Some x -> op_wf x = true) ->
  forallb op_wf (app_op subs o) = true.
Proof.
  intros subs [x|] Hs Ho; cbn [app_op]; [|exact Hs]. rewrite forallb_app, Hs. cbn [forallb]. rewrite (Ho x eq_refl). reflexivity.
Qed.

(* ------------------------------------------------------------------ every program *)
Theorem run_W : forall pr, prog_paths_wf pr -> forall target subs w w' r subs',
  W w -> forallb op_wf subs = true -> run pr target subs w = (w', (r, subs')) ->
  W w' /\ forallb op_wf subs' = true.
Proof.
  induction 1 as [v | e | s q k Hq Hk IHk | c k Hk IHk | s p c f a kw fn k Hp Hfn IHfn Hk IHk | s f a kw fn k Hfn IHfn Hk IHk];
    intros target subs w w' r subs' HW Hs H; cbn [run] in H.
  - inversion H; subst. auto.
  - inversion H; subst. auto.
  - destruct s; [eapply IHk; eauto|].
    destruct (m_query q w) as [w1 [r1 o]] eqn:E.
    destruct (m_query_W _ _ _ _ _ HW Hq E) as [W1 Ho].
    eapply IHk; [| |exact H]; [apply W_log_answer; exact W1 | apply forallb_app_op; assumption].
  - destruct target as [t|]; [|eapply IHk; eauto].
    destruct (write_file (w_fs w) t c None (N.succ (w_clock w)) (w_nextid w)) as [fs'|e] eqn:E.
    + eapply IHk; [| |exact H]; [|exact Hs]. refine ((_ : wk w _) HW). apply wk_same; reflexivity.
    + inversion H; subst. auto.
  - destruct s; [eapply IHk; eauto|].
    match type of H with (let '(_, _) := ?X in _) = _ => destruct X as [w1 [r1 o]] eqn:E end.
    assert (K : W w1 /\ forall x, o = Some x -> op_wf x = true).
    { rewrite m_build_file_unfold in E.
      destruct (sanitize a) as [sa|] eqn:Ea; [|inversion E; subst; split; [exact HW | intros x Y; discriminate Y]].
      destruct (sanitize kw) as [skw|] eqn:Ek; [|inversion E; subst; split; [exact HW | intros x Y; discriminate Y]].
      pose proof (sanitize_sanitized _ _ Ea) as Sa. pose proof (sanitize_sanitized _ _ Ek) as Sk.
      destruct (bf_setup p c f sa skw w) as [w2 rs] eqn:Es.
      destruct (bf_setup_W _ _ _ _ _ _ _ _ HW Hp Es) as [W2 [->|[e ->]]].
      - unfold bf_rebuild in E.
        destruct (run (fn p sa skw) (Some p) [] (bf_invoke_world p f sa skw w2)) as [w3 [res bs]] eqn:Ef.
        assert (Wi : W (bf_invoke_world p f sa skw w2)) by (refine ((_ : wk w2 _) W2); apply wk_same; reflexivity).
        destruct (IHfn p sa skw _ [] _ _ _ _ Wi eq_refl Ef) as [W3 Hbs].
        destruct (bf_finish_W _ _ _ _ _ _ _ _ _ _ _ W3 Hp Sa Sk Hbs E) as [W4 (o' & -> & Ho')].
        split; [exact W4 | intros x Y; inversion Y; subst; exact Ho'].
      - inversion E; subst. split; [exact W2|]. intros x Y. inversion Y; subst. cbn [op_wf forallb].
        rewrite Hp, Sa, Sk. reflexivity. }
    destruct K as [W1 Ho]. eapply IHk; [| |exact H]; [exact W1 | apply forallb_app_op; assumption].
  - destruct s; [eapply IHk; eauto|].
    match type of H with (let '(_, _) := ?X in _) = _ => destruct X as [w1 [r1 o]] eqn:E end.
    assert (K : W w1 /\ forall x, o = Some x -> op_wf x = true).
    { rewrite m_subbuild_unfold in E.
      destruct (sanitize a) as [sa|] eqn:Ea; [|inversion E; subst; split; [exact HW | intros x Y; discriminate Y]].
      destruct (sanitize kw) as [skw|] eqn:Ek; [|inversion E; subst; split; [exact HW | intros x Y; discriminate Y]].
      pose proof (sanitize_sanitized _ _ Ea) as Sa. pose proof (sanitize_sanitized _ _ Ek) as Sk.
      destruct (sb_setup f sa skw w) as [w2 rs] eqn:Es.
      destruct (sb_setup_W _ _ _ _ _ _ HW Es) as [W2 [->|[e ->]]].
      - unfold sb_rebuild in E.
        destruct (run (fn sa skw) None [] (sb_invoke_world f sa skw w2)) as [w3 [res bs]] eqn:Ef.
        assert (Wi : W (sb_invoke_world f sa skw w2)) by (refine ((_ : wk w2 _) W2); apply wk_same; reflexivity).
        destruct (IHfn sa skw _ [] _ _ _ _ Wi eq_refl Ef) as [W3 Hbs].
        destruct (sb_finish_W _ _ _ _ _ _ _ _ _ W3 Sa Sk Hbs E) as [W4 (o' & -> & Ho')].
        split; [exact W4 | intros x Y; inversion Y; subst; exact Ho'].
      - inversion E; subst. split; [exact W2|]. intros x Y. inversion Y; subst. cbn [op_wf forallb].
        rewrite Sa, Sk. reflexivity. }
    destruct K as [W1 Ho]. eapply IHk; [| |exact H]; [exact W1 | apply forallb_app_op; assumption].
Qed.

Print Assumptions run_W.
