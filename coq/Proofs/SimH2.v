(* Proofs/SimH2.v — records and directories of a first build are well formed.
   Invariant [W w] of a run of the mechanism model that started from an empty old cache:
     RW  every finished record of the two tables of the new cache satisfies op_wf;
     TW  every directory BuildDirs tracks (created / error-created) is a legal path;
     HS  every memoised hash is a string;
     Cold the tables of the old cache are empty (no record is ever reused).
   [run_W]: a program whose paths are legal keeps W, and every record it hands back satisfies
   op_wf.  Implication-style preorder [wk w w' := W w -> W w'] so that the footprint toolkit of
   ReplayLaws applies; read-only routines come from RollbackDirsView (BuildDirs keeps its
   created lists) and HashMemoInv (the memo only gains hashes). *)
From Coq Require Import List String Ascii NArith ZArith Bool Arith Lia.
From FB.Base Require Import PyVal Fs.
From FB.Gen Require Import JsonUtilGen.
From FB.Spec Require Import JsonSpec Prog.
From FB.Model Require Import Types Monad CreatedFiles BuildDirs SimpleOps Builder Persist PersistSpec Build Run.
From FB.Proofs Require Import FsLemmas JsonLaws PersistLaws ReplayLaws BuildFileLaws HashMemoInv
  RollbackDirsBase RollbackDirsView CacheRTOpen.
Import ListNotations.
Local Open Scope list_scope.
Local Open Scope m_scope.

(* ------------------------------------------------------------------ the invariant *)
Definition HS (w : world) : Prop := forall p h b, In (p, (h, b)) (w_hash w) -> exists s, h = PStr s.
Definition TW (w : world) : Prop := forall d, tracked (w_bd w) d -> path_wf d = true.
Definition RW (c : cache) : Prop :=
  (forall p o, In (p, Some o) (c_files c) -> op_wf o = true) /\
  (forall k o, In (k, Some o) (c_subs c) -> op_wf o = true).
Definition Cold (w : world) : Prop := c_files (w_old w) = [] /\ c_subs (w_old w) = [].
Definition W (w : world) : Prop := RW (w_new w) /\ TW w /\ HS w /\ Cold w.

Definition wk (w w' : world) : Prop := W w -> W w'.
Lemma wk_refl : forall w, wk w w.
Proof. intros w H. exact H. Qed.
Lemma wk_trans : forall a b c, wk a b -> wk b c -> wk a c.
Proof. intros a b c A B H. apply B, A, H. Qed.
Definition wkPO : PO := {| rel := wk; po_refl := wk_refl; po_trans := wk_trans |}.

Lemma wk_same : forall w w', w_new w' = w_new w -> w_old w' = w_old w -> w_bd w' = w_bd w ->
  w_hash w' = w_hash w -> wk w w'.
Proof.
  intros w w' E1 E2 E3 E4 (A & B & C & D). unfold W, TW, HS, Cold. rewrite E1, E2, E3, E4. auto.
Qed.

Lemma vh_wk : forall w w', viewPO w w' -> HXPO false w w' -> wk w w'.
Proof.
  intros w w' [S L] X (A & B & C & D).
  destruct S as (A1 & A2 & A3 & A4 & A5 & A6 & A7 & A8 & A9 & A10 & A11).
  destruct L as (L1 & L2 & L3 & _).
  destruct X as (_ & _ & _ & nw & Eh & Hn).
  unfold W, TW, HS, Cold, tracked. rewrite A5, A4, L2, L3. split; [exact A|]. split; [exact B|]. split; [|exact D].
  intros p h b Hin. rewrite Eh in Hin. apply in_app_or in Hin. destruct Hin as [Hin|Hin]; [|eapply C; eauto].
  rewrite Forall_forall in Hn. destruct (Hn _ Hin) as (_ & (f & _ & Ef) & _). cbn [fst snd] in Ef.
  rewrite Ef. unfold hash_of. eauto.
Qed.

Lemma pres_vh : forall X (m : world -> world * X), pres viewPO m -> pres (HXPO false) m -> pres wkPO m.
Proof. intros X m H1 H2 w w' r E. apply vh_wk; [eapply H1; eauto | eapply H2; eauto]. Qed.

Create HintDb presv discriminated.
Create HintDb presh discriminated.
#[local] Hint Resolve m_handle_dir_exists_view m_is_removed_view is_file_no_read_view is_cache_file_view
  file_metadata_view file_hash_view list_dir_superset_view file_comparison_result_view
  m_is_file_view m_is_dir_view m_exists_view exec_query_view noneable_cmp_view version_equal_view
  dirs_to_make_view new_assert_no_file_view new_assert_no_subbuild_view m_query_view : presv.
#[local] Hint Extern 8 (pres (HXPO _) _) => apply (pres_weaken HSPO (HXPO _) _ _ (hsame_hx _)) : presh.
#[local] Hint Extern 9 (pres (HXPO false) _) => apply (pres_weaken (HXPO true) (HXPO false) _ _ hx_strict_weaken) : presh.
#[local] Hint Resolve m_handle_dir_exists_hs m_is_removed_hs is_file_no_read_hs is_cache_file_hs
  file_metadata_hs list_dir_superset_hs m_is_file_hs m_is_dir_hs m_exists_hs version_equal_hs
  dirs_to_make_hs new_assert_no_file_hs new_assert_no_subbuild_hs
  file_hash_hxf file_comparison_result_hxf exec_query_hxf noneable_cmp_hxf m_query_strict : presh.
#[local] Hint Extern 8 (pres wkPO _) =>
  apply pres_vh; [solve [eauto 4 with presv] | solve [eauto 4 with presh]] : pres.

Ltac wk_solve :=
  lazymatch goal with |- rel wkPO ?a ?b => change (wk a b) | _ => idtac end;
  first [ apply wk_refl | apply wk_same; reflexivity ].

Lemma effect_wk : forall what p f, pres wkPO (effect what p f).
Proof. intros what p f w w' r H. unfold effect in H. cbv zeta in H. repeat dm H; inversion H; subst; wk_solve. Qed.
Lemma effect_p_wk : forall what p f, pres wkPO (effect_p what p f).
Proof. intros what p f w w' r H. unfold effect_p in H. cbv zeta in H. repeat dm H; inversion H; subst; wk_solve. Qed.
#[local] Hint Resolve effect_wk effect_p_wk : pres.

Lemma back_up_and_remove_wk : forall p, pres wkPO (back_up_and_remove p).
Proof.
  intro p. unfold back_up_and_remove. apply pres_bind; [auto with pres|]. intros _.
  intros w w' r H. cbv zeta in H. repeat dm H; inversion H; subst; wk_solve.
Qed.
#[local] Hint Resolve back_up_and_remove_wk : pres.

Lemma try_to_remove_file_wk : forall p, pres wkPO (try_to_remove_file p).
Proof. intro p. unfold try_to_remove_file. pres_auto. Qed.
Lemma remove_empty_dirs_wk : forall ds, pres wkPO (remove_empty_dirs ds).
Proof. intro ds. unfold remove_empty_dirs. pres_auto. Qed.
Lemma make_one_dir_wk : forall d, pres wkPO (make_one_dir d).
Proof. intro d. unfold make_one_dir. pres_auto. Qed.
#[local] Hint Resolve try_to_remove_file_wk remove_empty_dirs_wk make_one_dir_wk : pres.
Lemma make_dirs_loop_wk : forall ds made, pres wkPO (make_dirs_loop ds made).
Proof. induction ds as [|d ds IH]; intro made; cbn [make_dirs_loop]; pres_auto. Qed.
#[local] Hint Resolve make_dirs_loop_wk : pres.
Lemma make_dirs_wk : forall d, pres wkPO (make_dirs d).
Proof. intro d. unfold make_dirs. pres_auto. Qed.
#[local] Hint Resolve make_dirs_wk : pres.
Lemma make_room_wk : forall fuel d, pres wkPO (make_room fuel d).
Proof. induction fuel as [|fuel IH]; intro d; cbn [make_room]; pres_auto. Qed.
#[local] Hint Resolve make_room_wk : pres.
Lemma prepare_file_creation_wk : forall p, pres wkPO (prepare_file_creation p).
Proof. intro p. unfold prepare_file_creation. pres_auto. Qed.
#[local] Hint Resolve prepare_file_creation_wk : pres.

(* ------------------------------------------------------------------ values, whatever the world *)
Definition vpost {A} (m : M A) (Q : A -> Prop) : Prop := forall w w' a, m w = (w', inl a) -> Q a.

Lemma vpost_ret : forall A (a : A) (Q : A -> Prop), Q a -> vpost (ret a) Q.
Proof. intros A a Q H w w' a' E. inversion E; subst. exact H. Qed.
Lemma vpost_raise : forall A e (Q : A -> Prop), vpost (raise e) Q.
Proof. intros A e Q w w' a' E. inversion E. Qed.
Lemma vpost_bind : forall A B (m : M A) (f : A -> M B) (Q1 : A -> Prop) (Q : B -> Prop),
  vpost m Q1 -> (forall a, Q1 a -> vpost (f a) Q) -> vpost (bind m f) Q.
Proof.
  intros A B m f Q1 Q H1 H2 w w' b E. apply bind_inv in E.
  destruct E as [(w1 & a & E1 & E2) | (e & _ & Y)]; [|discriminate Y].
  exact (H2 a (H1 _ _ _ E1) _ _ _ E2).
Qed.
Lemma vpost_bind_r : forall A B (m : M A) (f : A -> M B) (Q : B -> Prop),
  (forall a, vpost (f a) Q) -> vpost (bind m f) Q.
Proof. intros A B m f Q H. apply (vpost_bind A B m f (fun _ => True)); [intros w w' a _; exact I | intros a _; apply H]. Qed.

Lemma san_strs : forall l, forallb (sanitized_gen true) (map PStr l) = true.
Proof. induction l as [|x l IH]; cbn; auto. Qed.

Lemma walk_entry_san : forall d a b, sanitized_t (walk_entry d a b) = true.
Proof.
  intros d a b. unfold walk_entry, sanitized_t. rewrite sanitized_gen_tuple. cbn [forallb andb sanitized_gen].
  rewrite !san_strs. reflexivity.
Qed.

Lemma append_walk_san : forall fuel d td cf, vpost (append_walk fuel d td cf) (fun l => forallb sanitized_t l = true).
Proof.
  induction fuel as [|fuel IH]; intros d td cf; cbn [append_walk]; [apply vpost_raise|].
  apply vpost_bind_r. intro sup. apply vpost_bind_r. intro cls.
  apply (vpost_bind _ _ _ _ (fun l => forallb sanitized_t l = true)).
  - generalize (fst cls). intro ds. induction ds as [|n ds IHds].
    + apply vpost_ret. exact (eq_refl : forallb sanitized_t [] = true).
    + eapply vpost_bind; [apply IH|]. intros a Ha. eapply vpost_bind; [exact IHds|]. intros b Hb.
      apply vpost_ret. rewrite forallb_app, Ha, Hb. reflexivity.
  - intros below Hb. apply vpost_ret. destruct td.
    + cbn [forallb]. rewrite walk_entry_san, Hb. reflexivity.
    + rewrite forallb_app, Hb. cbn [forallb]. rewrite walk_entry_san. reflexivity.
Qed.

Lemma hs_of_hx : forall w w', HXPO false w w' -> HS w -> HS w'.
Proof.
  intros w w' X C. destruct X as (_ & _ & _ & nw & Eh & Hn).
  intros p h b Hin. rewrite Eh in Hin. apply in_app_or in Hin. destruct Hin as [Hin|Hin]; [|eapply C; eauto].
  rewrite Forall_forall in Hn. destruct (Hn _ Hin) as (_ & (f & _ & Ef) & _). cbn [fst snd] in Ef.
  rewrite Ef. unfold hash_of. eauto.
Qed.

Lemma cmp_val : forall p c w w' v, HS w -> file_comparison_result p c w = (w', inl v) -> sanitized v = true.
Proof.
  intros p c w w' v Hh H. destruct c; cbn [file_comparison_result] in H.
  - unfold file_metadata in H. repeat dm H; inversion H; subst. reflexivity.
  - unfold file_hash in H. cbv zeta in H.
    destruct (hash_get (w_hash w) p) as [[h b]|] eqn:Eg.
    + apply hash_get_In in Eg. destruct (Hh _ _ _ Eg) as [s ->].
      repeat dm H; inversion H; subst; reflexivity.
    + repeat dm H; inversion H; subst; reflexivity.
Qed.

Lemma noneable_cmp_val : forall p c w w' v, HS w -> noneable_cmp p c w = (w', inl v) -> sanitized v = true.
Proof.
  intros p c w w' v Hh H. unfold noneable_cmp in H. apply catch_inv in H.
  destruct H as [(a & E & Y) | (w1 & e & E & H)].
  - inversion Y; subst. eapply cmp_val; eauto.
  - destruct (is_os_class XFileNotFound e || is_os_class XIsADirectory e || is_os_class XNotADirectory e);
      inversion H; subst. reflexivity.
Qed.

Lemma exec_query_val : forall q w w' v, HS w -> exec_query q None w = (w', inl v) -> sanitized_t v = true.
Proof.
  intros q w w' v Hh H. destruct q as [p|p|p|p|p td|p|p c]; cbn [exec_query] in H.
  - minv H. reflexivity.
  - minv H. reflexivity.
  - minv H. reflexivity.
  - revert H. generalize w w' v. change (vpost (m_list_dir p None) (fun v => sanitized_t v = true)).
    unfold m_list_dir. apply vpost_bind_r. intros _. apply vpost_bind_r. intro sup. apply vpost_bind_r. intro names.
    apply vpost_ret. unfold sanitized_t. rewrite sanitized_gen_list. apply san_strs.
  - revert H. generalize w w' v. change (vpost (m_walk p td None) (fun v => sanitized_t v = true)).
    unfold m_walk. apply vpost_bind_r. intros [|]; [|apply vpost_ret; reflexivity].
    eapply vpost_bind; [apply append_walk_san|]. intros l Hl. apply vpost_ret. exact Hl.
  - revert H. generalize w w' v. change (vpost (m_get_size p None) (fun v => sanitized_t v = true)).
    unfold m_get_size. apply vpost_bind_r. intros e. destruct (negb e); [apply vpost_raise|].
    apply vpost_bind_r. intro w0. destruct (lookup (w_fs w0) p) as [[f|]|];
      [apply vpost_ret; reflexivity | apply vpost_ret; reflexivity | apply vpost_raise].
  - unfold m_read in H.
    apply bind_inv in H. destruct H as [(w1 & nr & E1 & H) | (e & _ & Y)]; [|discriminate Y].
    assert (H1 : HS w1) by (eapply hs_of_hx; [|exact Hh]; eapply (pres_weaken HSPO (HXPO false) _ _ (hsame_hx false)); [apply is_file_no_read_hs | exact E1]).
    apply bind_inv in H. destruct H as [(w2 & u & E2 & H) | (e & _ & Y)]; [|discriminate Y].
    assert (H2 : HS w2).
    { destruct nr as [[|]|]; try (inversion E2; subst; exact H1).
      apply bind_inv in E2. destruct E2 as [(w3 & dd & E3 & E2) | (e & _ & Y)]; [|discriminate Y].
      destruct dd; inversion E2. }
    apply bind_inv in H. destruct H as [(w3 & res & E3 & H) | (e & _ & Y)]; [|discriminate Y].
    apply bind_inv in H. destruct H as [(w4 & u4 & E4 & H) | (e & _ & Y)]; [|discriminate Y].
    inversion H; subst v.
    apply catch_inv in E3. destruct E3 as [(a & E & Y) | (w5 & e & E & E3)].
    + inversion Y; subst. apply sanitized_sanitized_t. eapply cmp_val; eauto.
    + destruct (is_os_class XFileNotFound e || is_os_class XNotADirectory e); [inversion E3|].
      destruct (is_os_class XIsADirectory e); [|inversion E3].
      apply bind_inv in E3. destruct E3 as [(w6 & dd & _ & E3) | (e' & _ & Y)]; [|discriminate Y].
      destruct dd; inversion E3.
Qed.

(* ------------------------------------------------------------------ created directories are legal *)
Lemma path_wf_tl : forall p, path_wf p = true -> path_wf (dirname p) = true.
Proof. intros [|n d] H; [reflexivity|]. cbn [dirname tl]. cbn [path_wf forallb] in H. apply andb_true_iff in H. tauto. Qed.

Lemma dirs_to_make_wf : forall d cf, path_wf d = true -> vpost (dirs_to_make d cf) (fun ds => forallb path_wf ds = true).
Proof.
  induction d as [|n d IH]; intros cf Hd; cbn [dirs_to_make].
  - apply vpost_bind_r. intro isd. apply vpost_bind_r. intro isf. destruct isf; [apply vpost_raise|].
    destruct isd; [apply vpost_ret; reflexivity|]. apply vpost_bind_r. intro icf. destruct icf; apply vpost_raise.
  - apply vpost_bind_r. intro isd. apply vpost_bind_r. intro isf. destruct isf; [apply vpost_raise|].
    destruct isd; [apply vpost_ret; reflexivity|]. apply vpost_bind_r. intro icf. destruct icf; [apply vpost_raise|].
    eapply vpost_bind; [apply IH; exact (path_wf_tl (n :: d) Hd)|]. intros r Hr. apply vpost_ret.
    rewrite forallb_app, Hr. cbn [forallb]. rewrite Hd. reflexivity.
Qed.

Lemma make_dirs_wf : forall d, path_wf d = true -> vpost (make_dirs d) (fun ds => forallb path_wf ds = true).
Proof.
  intros d Hd. unfold make_dirs. eapply vpost_bind; [apply dirs_to_make_wf; exact Hd|]. intros ds Hds.
  apply vpost_bind_r. intros _. apply vpost_ret. exact Hds.
Qed.

Lemma prepare_file_creation_wf : forall p, path_wf p = true ->
  vpost (prepare_file_creation p) (fun ds => forallb path_wf ds = true).
Proof.
  intros p Hp. unfold prepare_file_creation. apply vpost_bind_r. intro w0. apply vpost_bind_r. intros _.
  apply make_dirs_wf. apply path_wf_tl. exact Hp.
Qed.
