(* Proofs/SimK1.v — C04, queries executed against an overlay (cf = Some c, validation of cached
   results): get_size, read and walk, and one theorem over every query kind of exec_query.
   Same invariants (BInv, CInv), same overlay tree (ViewOverlay.overlay_fs) and same notion of
   answer (Ref.spec_answer_raw on the overlay tree; for read: Core.record_answer, the form
   of ViewAnswers.exec_query_view) as ViewOverlay.v / ViewOverlay2.v.

   Found while doing this: the header of Properties/C04.v is out of date.  Proofs/ViewH2.v
   already proves m_get_size_overlay (with a side condition), m_read_overlay, m_walk_overlay,
   SimB2.exec_query_overlay_all covers every kind but get_size, SimG7.m_read_overlay_H has the
   read case under the flag-aware memo invariant HashOk.  This file
   - gives the EXACT answer of get_size against an overlay, without side condition
     (overlay_get_size_exact), and the counterexample showing that the POSIX form is false
     for a directory that exists only in the overlay (overlay_get_size_dir_counterexample:
     is_dir and exists say True, get_size raises FileNotFoundError);
   - proves the POSIX form under the weakest side condition (only the overlay DIRECTORY asked
     for must be a physical directory: overlay_get_size_answers), and unconditionally when the
     path is not a directory of the overlay tree (overlay_get_size_nondir_answers);
   - restates read (either memo invariant) and walk under the requested names;
   - overlay_answers_all: every query kind, in the record_answer form, and
     overlay_spec_answers_all: the non-read kinds in the Ref.spec_answer form. *)
From Coq Require Import List String Ascii NArith ZArith Bool Arith Lia.
From FB.Base Require Import PyVal Fs.
From FB.Gen Require Import JsonUtilGen.
From FB.Spec Require Import Prog Ref Oracle Faithful.
From FB.Model Require Import Types Monad CreatedFiles BuildDirs SimpleOps Builder Persist Build Run Frame Core CoreOracle Dsl.
From FB.Proofs Require Import FsLemmas CleanLaws JsonLaws CoreLawsChildren ReplayLaws CmpLaws CoreLaws1
     ViewDefs ViewLemmas ViewScan ViewQueries ViewAnswers ViewPres ViewInit ViewOverlay ViewOverlay2 ViewH2
     ViewK3 ViewK4 SimB2 SimB6 SimG4 SimG7.
Import ListNotations.
Open Scope list_scope.
Open Scope m_scope.

(* ------------------------------------------------------------------ get_size: the exact answer *)
(* what get_size answers against an overlay: existence is decided on the overlay tree, the
   size is taken from the PHYSICAL path *)
Definition osize_answer (w : world) (c : cfiles) (p : path) : pyval + exn :=
  if ovisible w c p then
    match lookup (w_fs w) p with
    | Some (NFile f) => inl (PInt (Z.of_nat (String.length (f_bytes f))))
    | Some NDir => inl (PInt (-1))
    | None => inr (XOS (err_of (stat_err (w_fs w) p)))
    end
  else inr (XOS XFileNotFound).

Theorem overlay_get_size_exact : forall w c p, BInv w -> CInv w c -> pok w p ->
  yields (m_get_size p (Some c)) w (osize_answer w c p).
Proof.
  intros w c p HB HC Hp. unfold m_get_size, osize_answer.
  eapply yields_bind; [apply m_exists_overlay; assumption|]. intros w1 G1.
  destruct (ovisible w c p); cbn [negb].
  - apply yields_get. rewrite (sv_fs _ _ (good_sv _ _ G1)).
    destruct (lookup (w_fs w) p) as [[f|]|]; [apply yields_ret|apply yields_ret|apply yields_raise]; apply (good_BInv _ _ G1).
  - apply yields_raise. apply (good_BInv _ _ G1).
Qed.

(* a directory of the overlay tree that is not an overlay entry is a physical directory *)
Lemma odir_phys : forall w c p,
  (mem_path p (cf_dirs c) = true -> isdir (w_fs w) p = true) ->
  odir w c p = true -> isdir (w_fs w) p = true.
Proof.
  intros w c p H Hd. unfold odir in Hd. destruct (mem_path p (cf_dirs c)); [apply H; reflexivity|].
  destruct (mem_path p (cf_files c)); [discriminate|]. unfold vdir in Hd. apply andb_true_iff in Hd. tauto.
Qed.

(* the POSIX form; side condition: if the path asked for is an overlay DIRECTORY entry, it is
   physically a directory (the size of a directory is unspecified, but the model stats the
   physical path) *)
Theorem overlay_get_size_answers : forall w c p, BInv w -> CInv w c -> pok w p ->
  (mem_path p (cf_dirs c) = true -> isdir (w_fs w) p = true) ->
  yields (m_get_size p (Some c)) w (to_res (spec_answer_raw (overlay_fs w c) (QGetSize p))).
Proof.
  intros w c p HB HC Hp Hd. apply m_get_size_overlay; try assumption. apply odir_phys. exact Hd.
Qed.

(* no side condition when the path is a regular file of the overlay tree, or absent from it *)
Theorem overlay_get_size_nondir_answers : forall w c p, BInv w -> CInv w c -> pok w p ->
  isdir (overlay_fs w c) p = false ->
  yields (m_get_size p (Some c)) w (to_res (spec_answer_raw (overlay_fs w c) (QGetSize p))).
Proof.
  intros w c p HB HC Hp Hnd. apply m_get_size_overlay; try assumption.
  rewrite <- (isdir_overlay w c HB HC). congruence.
Qed.

(* whatever the path: the answer is the POSIX one, or the path is an overlay directory entry
   that is physically not a directory (then the answer is FileNotFoundError / NotADirectory /
   the size of the regular file physically there) *)
Theorem overlay_get_size_answers_or_overlay_only_dir : forall w c p, BInv w -> CInv w c -> pok w p ->
  yields (m_get_size p (Some c)) w (to_res (spec_answer_raw (overlay_fs w c) (QGetSize p))) \/
  (mem_path p (cf_dirs c) = true /\ isdir (w_fs w) p = false /\
   isdir (overlay_fs w c) p = true /\ yields (m_get_size p (Some c)) w (osize_answer w c p)).
Proof.
  intros w c p HB HC Hp. destruct (mem_path p (cf_dirs c)) eqn:Ed.
  - destruct (isdir (w_fs w) p) eqn:Ei.
    + left. apply overlay_get_size_answers; try assumption. intros _. exact Ei.
    + right. repeat split; try reflexivity.
      * rewrite (isdir_overlay w c HB HC). unfold odir. rewrite Ed. reflexivity.
      * apply overlay_get_size_exact; assumption.
  - left. apply overlay_get_size_answers; try assumption. intro K. congruence.
Qed.

(* ------------------------------------------------------------------ the counterexample *)
Module GetSizeCounterexample.
  Open Scope string_scope.
  (* first build on an empty tree; the validation has started the recorded target x/t: the
     directory x exists only in the overlay *)
  Definition wK : world := start_world init_world ["cache"] (empty_cache "n" (PDict [])) "n" (PDict []).
  Definition cK : cfiles := cf_started cf_empty ["t"; "x"].

  Lemma BInv_wK : BInv wK.
  Proof.
    apply BInv_start_world.
    - intros p n H. destruct p as [|x p]; [reflexivity|]. cbn in H. discriminate.
    - constructor; [constructor|intros []|intros a d _ []].
  Qed.

  Lemma CInv_cK : CInv wK cK.
  Proof. apply cf_started_CInv; [apply CInv_empty|]. intros x _. reflexivity. Qed.

  Example model_answers :
    (snd (exec_query (QIsDir ["x"]) (Some cK) wK), snd (exec_query (QExists ["x"]) (Some cK) wK),
     snd (exec_query (QGetSize ["x"]) (Some cK) wK))
    = (inl (PBool true), inl (PBool true), inr (XOS XFileNotFound)).
  Proof. vm_compute. reflexivity. Qed.

  Example posix_answer :
    to_res (spec_answer_raw (overlay_fs wK cK) (QGetSize ["x"])) = inl (PInt (-1)).
  Proof. vm_compute. reflexivity. Qed.
End GetSizeCounterexample.

Theorem overlay_get_size_dir_counterexample : exists w c p,
  BInv w /\ CInv w c /\ path_ok p = true /\
  ~ yields (m_get_size p (Some c)) w (to_res (spec_answer_raw (overlay_fs w c) (QGetSize p))).
Proof.
  exists GetSizeCounterexample.wK, GetSizeCounterexample.cK, ["x"%string].
  split; [apply GetSizeCounterexample.BInv_wK|]. split; [apply GetSizeCounterexample.CInv_cK|].
  split; [vm_compute; reflexivity|].
  intros [w' [E _]]. rewrite GetSizeCounterexample.posix_answer in E.
  pose proof GetSizeCounterexample.model_answers as M. apply (f_equal snd) in M. cbn [snd] in M.
  change (exec_query (QGetSize ["x"%string]) (Some GetSizeCounterexample.cK) GetSizeCounterexample.wK)
    with (m_get_size ["x"%string] (Some GetSizeCounterexample.cK) GetSizeCounterexample.wK) in M.
  rewrite E in M. cbn [snd] in M. discriminate M.
Qed.

(* ------------------------------------------------------------------ read *)
(* the comparison result of the regular file of the overlay tree; IsADirectory; FileNotFound.
   HASH needs one of the two memo invariants (ViewDefs.hash_ok or CmpLaws.HashOk) *)
Theorem overlay_read_answers : forall w c p cm, BInv w -> CInv w c -> path_ok p = true ->
  (cm = METADATA \/ hash_ok w \/ HashOk w) ->
  yields (m_read p cm (Some c)) w (to_res (record_answer (overlay_fs w c) (QRead p cm))).
Proof.
  intros w c p cm HB HC Hp [H|[H|H]].
  - apply m_read_overlay; auto.
  - apply m_read_overlay; auto.
  - apply m_read_overlay_H; assumption.
Qed.

(* in the terms of the specification: a successful read is a read of the bytes the POSIX read on
   the overlay tree returns, an error is the POSIX error class *)
Theorem overlay_read_answers_spec : forall w c p cm, BInv w -> CInv w c -> path_ok p = true ->
  (cm = METADATA \/ hash_ok w \/ HashOk w) ->
  exists r, yields (m_read p cm (Some c)) w r /\
    match spec_answer_raw (overlay_fs w c) (QRead p cm), r with
    | inl (PStr bytes), inl v => exists f, lookup (overlay_fs w c) p = Some (NFile f) /\ f_bytes f = bytes /\ v = cmp_of cm f
    | inr e, inr x => x = XOS e
    | _, _ => False
    end.
Proof.
  intros w c p cm HB HC Hp Hc. eexists. split; [apply overlay_read_answers; eassumption|].
  cbn [record_answer spec_answer_raw to_res].
  destruct (lookup (overlay_fs w c) p) as [[f|]|] eqn:El; cbn [to_res].
  - exists f. auto.
  - reflexivity.
  - f_equal. f_equal. unfold stat_err. pose proof (absent_err_path_ok (overlay_fs w c) p Hp).
    destruct (absent_err (overlay_fs w c) p); try reflexivity. congruence.
Qed.

(* ------------------------------------------------------------------ walk *)
Theorem overlay_walk_answers : forall w c d td, BInv w -> CInv w c -> pok w d ->
  (forall p, mem_path p (cf_dirs c) = true \/ mem_path p (cf_files c) = true -> path_ok p = true) ->
  (odir w c d = true -> maxlen (overlay_fs w c) < walk_fuel + List.length d) ->
  yields (m_walk d td (Some c)) w (to_res (spec_answer_raw (overlay_fs w c) (QWalk d td))).
Proof. exact m_walk_overlay. Qed.

(* ------------------------------------------------------------------ every query kind *)
Theorem overlay_answers_all : forall w c q, BInv w -> CInv w c ->
  path_ok (spec_query_path q) = true ->
  (forall p, mem_path p (cf_dirs c) = true \/ mem_path p (cf_files c) = true -> path_ok p = true) ->
  (forall d td, q = QWalk d td -> odir w c d = true -> maxlen (overlay_fs w c) < walk_fuel + List.length d) ->
  (forall p, q = QGetSize p -> mem_path p (cf_dirs c) = true -> isdir (w_fs w) p = true) ->
  (forall p cm, q = QRead p cm -> cm = METADATA \/ hash_ok w \/ HashOk w) ->
  yields (exec_query q (Some c)) w (to_res (record_answer (overlay_fs w c) q)).
Proof.
  intros w c q HB HC Hp Hov Hwalk Hsize Hread.
  assert (Hsub: forall d n, In n (cf_list_dir c d) -> pok w (n :: d)).
  { intros d n Hn. left. apply Hov. destruct (ci_sub_in _ _ HC _ _ Hn) as [K|K]; auto. }
  destruct q as [p|p|p|p|p td|p|p cm]; cbn [spec_query_path] in Hp.
  - apply (exec_query_overlay w c (QExists p) HB HC); cbn [spec_query_path]; [left; exact Hp| |exact I]. intros d E; discriminate.
  - apply (exec_query_overlay w c (QIsFile p) HB HC); cbn [spec_query_path]; [left; exact Hp| |exact I]. intros d E; discriminate.
  - apply (exec_query_overlay w c (QIsDir p) HB HC); cbn [spec_query_path]; [left; exact Hp| |exact I]. intros d E; discriminate.
  - apply (exec_query_overlay w c (QListDir p) HB HC); cbn [spec_query_path]; [left; exact Hp| |exact I].
    intros d E n Hn. inversion E; subst d. apply Hsub. exact Hn.
  - cbn [exec_query record_answer]. apply (overlay_walk_answers w c p td HB HC); [left; exact Hp|exact Hov|].
    apply (Hwalk p td eq_refl).
  - cbn [exec_query record_answer]. apply overlay_get_size_answers; [exact HB|exact HC|left; exact Hp|apply (Hsize p eq_refl)].
  - cbn [exec_query]. apply overlay_read_answers; [exact HB|exact HC|exact Hp|apply (Hread p cm eq_refl)].
Qed.

(* the non-read kinds in the form of C04_answers_are_posix_answers_on_the_view: Ref.spec_answer *)
Corollary overlay_spec_answers_all : forall w c q, BInv w -> CInv w c ->
  path_ok (spec_query_path q) = true ->
  (forall p cm, q <> QRead p cm) ->
  (forall p, mem_path p (cf_dirs c) = true \/ mem_path p (cf_files c) = true -> path_ok p = true) ->
  (forall d td, q = QWalk d td -> odir w c d = true -> maxlen (overlay_fs w c) < walk_fuel + List.length d) ->
  (forall p, q = QGetSize p -> mem_path p (cf_dirs c) = true -> isdir (w_fs w) p = true) ->
  yields (exec_query q (Some c)) w (to_res (spec_answer (overlay_fs w c) q)).
Proof.
  intros w c q HB HC Hp Hnr Hov Hwalk Hsize.
  assert (E: spec_answer (overlay_fs w c) q = record_answer (overlay_fs w c) q).
  { unfold spec_answer. rewrite Hp. destruct q; try reflexivity;
      try (cbn [record_answer]; destruct (spec_answer_raw _ _); reflexivity).
    exfalso. eapply Hnr. reflexivity. }
  rewrite E. apply overlay_answers_all; try assumption.
  intros p cm Hq. exfalso. eapply Hnr. exact Hq.
Qed.

(* with the hypotheses of SimB2.exec_query_overlay_all (overlay entries nameable and shallow,
   physical tree shallower than the walk fuel): get_size included *)
Corollary overlay_answers_all_OvOk : forall hk w c q, BInv w -> CInv w c -> OvOk c ->
  maxlen (w_fs w) < walk_fuel -> (hk = true -> hash_ok w \/ HashOk w) ->
  path_ok (spec_query_path q) = true ->
  match q with QRead _ cm => cmp_okb hk cm = true | _ => True end ->
  (forall p, q = QGetSize p -> mem_path p (cf_dirs c) = true -> isdir (w_fs w) p = true) ->
  yields (exec_query q (Some c)) w (to_res (record_answer (overlay_fs w c) q)).
Proof.
  intros hk w c q HB HC HO Hm Hh Hp Hq Hsize.
  apply overlay_answers_all; try assumption.
  - intros p K. apply (HO p K).
  - intros d td _ _. pose proof (maxlen_overlay w c HO Hm). lia.
  - intros p cm E. subst q. destruct cm; [left; reflexivity|]. right. cbn [cmp_okb] in Hq.
    destruct (Hh Hq); auto.
Qed.

Print Assumptions overlay_get_size_exact.
Print Assumptions overlay_get_size_answers.
Print Assumptions overlay_get_size_nondir_answers.
Print Assumptions overlay_get_size_answers_or_overlay_only_dir.
Print Assumptions overlay_get_size_dir_counterexample.
Print Assumptions overlay_read_answers.
Print Assumptions overlay_read_answers_spec.
Print Assumptions overlay_walk_answers.
Print Assumptions overlay_answers_all.
Print Assumptions overlay_spec_answers_all.
Print Assumptions overlay_answers_all_OvOk.
