(* Proofs/SimA1Keys.v — (D8) of SimA1: Python's == is an equivalence on subbuild keys, also
   against arbitrary values of the universe.

   The image of [to_hashable] on sanitized, well-formed values consists of "hashable-shaped"
   values ([hsh]): None, int, canonical float, str, and tuples of such values (no bool, list,
   dict, object).  On these == is symmetric against any value and transitive through any
   middle value. *)
From Coq Require Import List String Ascii NArith ZArith Bool Arith Lia Permutation.
From FB.Base Require Import PyVal Fs.
From FB.Gen Require Import JsonUtilGen.
From FB.Spec Require Import JsonSpec.
From FB.Model Require Import Types Builder.
From FB.Proofs Require Import JsonLaws SimA0 SimA1.
Import ListNotations.
Open Scope list_scope.

(* ------------------------------------------------------------------ hashable-shaped values *)
Fixpoint hsh (v : pyval) : bool :=
  match v with
  | PNone | PInt _ | PStr _ => true
  | PFloat f => fl_wf f
  | PTuple l => forallb hsh l
  | _ => false
  end.

Lemma hsh_tuple : forall l, hsh (PTuple l) = forallb hsh l.
Proof. reflexivity. Qed.

Lemma to_hashable_hsh : forall v,
  sanitized v = true -> pv_wf v = true -> hsh (to_hashable v) = true.
Proof.
  induction v as [|b|z|f|s|l IH|l IH|d IH|n] using pyval_ind'; intros S W.
  - reflexivity.
  - destruct b; reflexivity.
  - reflexivity.
  - exact W.
  - reflexivity.
  - rewrite to_hashable_list_eq, hsh_tuple. cbn [forallb hsh andb].
    unfold sanitized in S. rewrite sanitized_gen_list in S. rewrite pv_wf_list in W.
    rewrite forallb_forall in *. intros y Hy. apply in_map_iff in Hy.
    destruct Hy as [x [<- Hx]]. rewrite Forall_forall in IH.
    apply IH; auto.
  - unfold sanitized in S. rewrite sanitized_gen_tuple in S. discriminate.
  - rewrite to_hashable_dict_eq, hsh_tuple. unfold dict_hash.
    unfold sanitized in S. rewrite sanitized_gen_dict in S. rewrite pv_wf_dict in W.
    apply andb_true_iff in S. destruct S as [S _].
    rewrite forallb_forall in *. intros y Hy. apply in_flat_map in Hy.
    destruct Hy as [kv [Hkv Hy]].
    apply (Permutation_in _ (sort_items_perm _)) in Hkv.
    apply in_map_iff in Hkv. destruct Hkv as [[k v] [<- Hin]].
    rewrite Forall_forall in IH.
    specialize (IH _ Hin). specialize (S _ Hin). specialize (W _ Hin).
    cbn [fst snd] in *. apply andb_true_iff in S. destruct S as [Sk Sv].
    apply andb_true_iff in W. destruct W as [Wk Wv].
    unfold hf, pairf in Hy. cbn [fst snd In] in Hy.
    destruct Hy as [<-|[<-|[]]].
    + destruct k; try discriminate. reflexivity.
    + apply IH; auto.
  - discriminate.
Qed.

(* ------------------------------------------------------------------ symmetry against any value *)
Lemma all2_sym_in : forall l,
  Forall (fun h => hsh h = true -> forall x, py_eq h x = py_eq x h) l ->
  forallb hsh l = true -> forall l', all2 py_eq l l' = all2 py_eq l' l.
Proof.
  induction l as [|h l IHl]; intros F H l'; destruct l' as [|x l']; try reflexivity.
  cbn [all2]. cbn [forallb] in H. apply andb_true_iff in H. destruct H as [Hh Hl].
  inversion F as [|? ? Fh Fl]; subst.
  rewrite (Fh Hh x), (IHl Fl Hl l'). reflexivity.
Qed.

Lemma hsh_sym : forall h, hsh h = true -> forall x, py_eq h x = py_eq x h.
Proof.
  induction h as [|b|z|f|s|l IH|l IH|d IH|n] using pyval_ind'; intros H x; try discriminate.
  - destruct x; reflexivity.
  - destruct x; try reflexivity; cbn [py_eq]; apply Z.eqb_sym.
  - destruct x; try reflexivity; cbn [py_eq]. apply fl_eqb_sym.
  - destruct x; try reflexivity. cbn [py_eq]. apply String.eqb_sym.
  - destruct x as [|b|z|f|s|lx|lx|dx|n]; try (destruct l; reflexivity).
    rewrite !py_eq_tuple_eq. rewrite hsh_tuple in H. apply all2_sym_in; auto.
Qed.

(* ------------------------------------------------------------------ transitivity through any value *)
Definition trans_thru (a : pyval) : Prop :=
  hsh a = true -> forall c, hsh c = true -> forall x,
    py_eq a x = true -> py_eq c x = true -> py_eq a c = true.

Lemma all2_trans_thru : forall la,
  Forall trans_thru la -> forallb hsh la = true ->
  forall lc, forallb hsh lc = true -> forall lx,
    all2 py_eq la lx = true -> all2 py_eq lc lx = true -> all2 py_eq la lc = true.
Proof.
  induction la as [|a la IHl]; intros F Ha lc Hc lx Hax Hcx.
  - destruct lx; [|discriminate]. destruct lc; [reflexivity|discriminate].
  - destruct lx as [|x lx]; [discriminate|]. destruct lc as [|c lc]; [discriminate|].
    cbn [all2 forallb] in *.
    apply andb_true_iff in Ha, Hc, Hax, Hcx.
    destruct Ha as [Ha Hla], Hc as [Hc Hlc], Hax as [Hax Hlax], Hcx as [Hcx Hlcx].
    inversion F as [|? ? Fa Fl]; subst.
    rewrite (Fa Ha c Hc x Hax Hcx), (IHl Fl Hla lc Hlc lx Hlax Hlcx). reflexivity.
Qed.

Lemma hsh_trans : forall a, trans_thru a.
Proof.
  induction a as [|b|z|f|s|l IH|l IH|d IH|n] using pyval_ind'; intros Ha c Hc x Hax Hcx;
    try discriminate.
  - (* None *)
    destruct x; try discriminate. destruct c; try discriminate. reflexivity.
  - (* int *)
    destruct x as [|b|y|g|s|lx|lx|dx|n]; try discriminate; cbn [py_eq] in Hax.
    + apply Z.eqb_eq in Hax. subst z.
      destruct c as [|b'|z'|f'|s'|lc|lc|dc|n']; try discriminate; cbn [py_eq] in *.
      * rewrite Z.eqb_sym. exact Hcx.
      * exact Hcx.
    + apply Z.eqb_eq in Hax. subst z.
      destruct c as [|b'|z'|f'|s'|lc|lc|dc|n']; try discriminate; cbn [py_eq] in *.
      * rewrite Z.eqb_sym. exact Hcx.
      * exact Hcx.
    + destruct c as [|b'|z'|f'|s'|lc|lc|dc|n']; try discriminate; cbn [py_eq] in *.
      * apply Z.eqb_eq. eapply int_fl_eqb_inj; eauto.
      * rewrite (int_fl_eqb_fl_eqb z f' g Hcx). exact Hax.
  - (* float *)
    cbn [hsh] in Ha.
    destruct x as [|b|y|g|s|lx|lx|dx|n]; try discriminate; cbn [py_eq] in Hax.
    + destruct c as [|b'|z'|f'|s'|lc|lc|dc|n']; try discriminate; cbn [py_eq hsh] in *.
      * apply Z.eqb_eq in Hcx. subst z'. exact Hax.
      * eapply int_fl_eqb_fl_unique; eauto.
    + destruct c as [|b'|z'|f'|s'|lc|lc|dc|n']; try discriminate; cbn [py_eq hsh] in *.
      * apply Z.eqb_eq in Hcx. subst z'. exact Hax.
      * eapply int_fl_eqb_fl_unique; eauto.
    + destruct c as [|b'|z'|f'|s'|lc|lc|dc|n']; try discriminate; cbn [py_eq hsh] in *.
      * rewrite (int_fl_eqb_fl_eqb z' f g Hax). exact Hcx.
      * eapply fl_eqb_trans; [exact Hax|]. rewrite fl_eqb_sym. exact Hcx.
  - (* str *)
    apply py_eq_str_true in Hax. subst x.
    destruct c as [|b'|z'|f'|s'|lc|lc|dc|n']; try discriminate; cbn [py_eq] in *.
    + rewrite String.eqb_sym. exact Hcx.
  - (* tuple *)
    destruct x as [|b|y|g|s|lx|lx|dx|n]; try (destruct l; discriminate).
    destruct c as [|b'|z'|f'|s'|lc|lc|dc|n']; try discriminate.
    rewrite py_eq_tuple_eq in *. rewrite hsh_tuple in *.
    eapply all2_trans_thru; eauto.
Qed.

(* ------------------------------------------------------------------ keys *)
Lemma wfkey_hsh : forall k, wfkey k -> hsh k = true.
Proof.
  intros k (f & a & kw & -> & Sa & Sk & Wa & Wk). unfold subbuild_key.
  apply to_hashable_hsh.
  - unfold sanitized in *. rewrite sanitized_gen_list. cbn [forallb sanitized_gen].
    rewrite Sa, Sk. reflexivity.
  - rewrite pv_wf_list. cbn [forallb pv_wf]. rewrite Wa, Wk. reflexivity.
Qed.

Lemma hsh_refl : forall h, hsh h = true -> py_eq h h = true.
Proof.
  induction h as [|b|z|f|s|l IH|l IH|d IH|n] using pyval_ind'; intros H; try discriminate.
  - reflexivity.
  - apply Z.eqb_refl.
  - apply fl_eqb_refl.
  - apply String.eqb_refl.
  - rewrite py_eq_tuple_eq. rewrite hsh_tuple in H.
    induction l as [|a l IHl]; [reflexivity|].
    cbn [all2 forallb] in *. apply andb_true_iff in H. destruct H as [Ha Hl].
    inversion IH as [|? ? Fa Fl]; subst.
    rewrite (Fa Ha), (IHl Fl Hl). reflexivity.
Qed.

Lemma wfkey_refl : forall k, wfkey k -> py_eq k k = true.
Proof. intros k Hk. apply hsh_refl. apply wfkey_hsh. exact Hk. Qed.

Theorem key_laws : key_laws_statement.
Proof.
  split; [|split].
  - exact wfkey_refl.
  - intros k Hk x. apply hsh_sym. apply wfkey_hsh. exact Hk.
  - intros a c Ha Hc x Hax Hcx.
    exact (hsh_trans a (wfkey_hsh a Ha) c (wfkey_hsh c Hc) x Hax Hcx).
Qed.

Print Assumptions key_laws.
