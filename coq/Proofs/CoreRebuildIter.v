(* Proofs/CoreRebuildIter.v — any number of unchanged rebuilds: each of them is served from the cache
   entirely, returns the same value, logs the same root-level answers and ends in the same tree. *)
From Coq Require Import List String Ascii NArith ZArith Bool Arith Lia Permutation.
From FB.Base Require Import PyVal Fs.
From FB.Gen Require Import JsonUtilGen.
From FB.Spec Require Import JsonSpec Prog Ref Oracle Faithful.
From FB.Model Require Import Types SimpleOps Builder Persist Core CoreOracle CoreCache.
From FB.Proofs Require Import FsLemmas CoreLaws1 CoreLaws2 CoreLaws3 CoreLaws4 CoreLaws5 CoreLaws6
     CoreRebuildDefs CoreRebuild1 CoreRebuild2 CoreRebuild3 CoreRebuild4 CoreRebuild7 CoreRebuildMain CoreRebuildLog.
Import ListNotations.
Local Open Scope list_scope.

Lemma forallb_rev : forall {A} (f : A -> bool) l, forallb f (rev l) = forallb f l.
Proof.
  intros A f l. induction l as [|x l IH]; [reflexivity|]. cbn [rev forallb]. rewrite forallb_app, IH. cbn. rewrite andb_true_r. apply andb_comm.
Qed.

Lemma is_answer_invoke : forall f t a k l1 l2, forallb is_answer (l1 ++ LInvoke f t a k :: l2) = false.
Proof. intros. rewrite forallb_app. cbn. apply andb_false_r. Qed.

(* a run that logs answers only logs exactly its root-level answers *)
Theorem run_top_exact : forall pr tgt pend s s' out pend' new,
  Run pr tgt pend s s' out pend' new ->
  forall subs ext, k_log s' = ext ++ k_log s -> forallb is_answer ext = true ->
  core_top pr tgt pend subs s = rev ext.
Proof.
  intros pr tgt pend s s' out pend' new H. induction H; intros sb ext E Ha.
  - assert (ext = []) by (apply (app_inv_tail (k_log s)); rewrite <- E; reflexivity). subst. reflexivity.
  - assert (ext = []) by (apply (app_inv_tail (k_log s)); rewrite <- E; reflexivity). subst. reflexivity.
  - cbn [core_top]. apply IHRun; assumption.
  - destruct (run_kconst _ _ _ _ _ _ _ _ H) as [_ [_ [_ [_ [_ [_ [ex Ex]]]]]]]. cbn [klog ks_with k_log] in Ex.
    assert (ext = ex ++ [LAnswer q (spec_answer (k_fs s) q)]).
    { apply (app_inv_tail (k_log s)). rewrite <- E, Ex, <- app_assoc. reflexivity. }
    subst ext. rewrite forallb_app in Ha. apply andb_true_iff in Ha. destruct Ha as [Ha _].
    rewrite core_top_Ask_ans, (IHRun _ ex Ex Ha), rev_app_distr. reflexivity.
  - cbn [core_top]. apply IHRun; assumption.
  - cbn [core_top]. rewrite H. apply IHRun; assumption.
  - assert (ext = []) by (apply (app_inv_tail (k_log s)); rewrite <- E; reflexivity). subst. cbn [core_top]. rewrite H. reflexivity.
  - rewrite (core_top_skipBF _ _ _ _ _ _ _ _ _ _ _ _ _ H). apply IHRun; assumption.
  - rewrite (core_top_BF_setup _ _ _ _ _ _ _ _ _ _ _ sa skw H H0), H1. apply IHRun; assumption.
  - rewrite (core_top_BF_setup _ _ _ _ _ _ _ _ _ _ _ sa skw H H0), H1. cbv zeta. rewrite H2. apply IHRun; assumption.
  - exfalso. destruct (run_kconst _ _ _ _ _ _ _ _ H3) as [_ [_ [_ [_ [_ [_ [exb Eb]]]]]]].
    destruct (run_kconst _ _ _ _ _ _ _ _ H5) as [_ [_ [_ [_ [_ [_ [exk Ek]]]]]]].
    assert (El3 : k_log s3 = k_log s2).
    { destruct (core_finish_cases _ _ _ _ _ _ _ _ _ _ _ _ H4) as [(sv & bytes & fs3 & g & _ & _ & _ & _ & -> & _)|(e & _ & -> & _)]; reflexivity. }
    cbn [core_start klog ks_with k_log core_s0] in Eb.
    assert (ext = exk ++ exb ++ [LInvoke fname (Some p) sa skw]).
    { apply (app_inv_tail (k_log s)). rewrite <- E, Ek, El3, Eb, <- !app_assoc. reflexivity. }
    subst ext. rewrite app_assoc, is_answer_invoke in Ha. discriminate.
  - rewrite (core_top_skipSB _ _ _ _ _ _ _ _ _ _ _ H). apply IHRun; assumption.
  - rewrite (core_top_SB_steps _ _ _ _ _ _ _ _ _ sa skw H H0). cbv zeta. rewrite H1. apply IHRun; assumption.
  - rewrite (core_top_SB_steps _ _ _ _ _ _ _ _ _ sa skw H H0). cbv zeta. rewrite H1, H2. apply IHRun; assumption.
  - exfalso. destruct (run_kconst _ _ _ _ _ _ _ _ H3) as [_ [_ [_ [_ [_ [_ [exb Eb]]]]]]].
    destruct (run_kconst _ _ _ _ _ _ _ _ H4) as [_ [_ [_ [_ [_ [_ [exk Ek]]]]]]].
    cbn [core_substart klog ks_with k_log] in Eb. cbn [core_subreg ks_with k_log] in Ek.
    assert (ext = exk ++ exb ++ [LInvoke fname None sa skw]).
    { apply (app_inv_tail (k_log s)). rewrite <- E, Ek, Eb, <- !app_assoc. reflexivity. }
    subst ext. rewrite app_assoc, is_answer_invoke in Ha. discriminate.
Qed.

(* the root-level answers of the rebuild are those of the first build *)
Theorem rebuild_top_same : forall fs cf old vers clock nextid root nm v s1 clock' nextid',
  let cr1 := core_build fs cf old vers clock nextid root in
  cr_outcome cr1 = inl v -> cr_state cr1 = Some s1 ->
  fs_wf (start_tree fs cf old) -> isdir fs cf = false -> sanitized vers = true ->
  records_clean s1 = true -> records_distinct s1 = true -> no_foreign_targets fs cf old s1 ->
  build_top (next_fs cf s1) cf (cache_of_state nm s1) vers clock' nextid' root = build_top fs cf old vers clock nextid root.
Proof.
  intros fs cf old vers clock nextid root nm v s1 clock' nextid' cr1 Hout Hst W0 Hcfd Hvs Hcl Hdi Hnf.
  destruct (rebuild_step fs cf old vers clock nextid root nm v s1 clock' nextid' Hout Hst W0 Hcfd Hvs Hcl Hdi Hnf)
    as (s2 & Est & _ & L & _).
  destruct (core_build_inv _ _ _ _ _ _ _ _ Hst) as (dirs & t1 & out & pend & recs & _ & _ & Hrun & _ & _ & _ & Etop).
  destruct (run_of_core _ _ _ _ _ _ _ _ _ Hrun) as [recs' [_ R]].
  pose proof (core_top_answers _ _ _ _ _ _ _ _ R []) as Hans. rewrite <- Etop in Hans.
  destruct (core_build_inv _ _ _ _ _ _ _ _ Est) as (dirs2 & t2 & out2 & pend2 & recs2 & _ & _ & Hrun2 & _ & _ & Elog2 & Etop2).
  destruct (run_of_core _ _ _ _ _ _ _ _ _ Hrun2) as [recs2' [_ R2]].
  destruct (run_kconst _ _ _ _ _ _ _ _ R2) as [_ [_ [_ [_ [_ [_ [ex Ex]]]]]]]. cbn [init_state k_log] in Ex.
  rewrite Elog2, Ex, rev_app_distr in L. cbn [rev app] in L. injection L as Hx.
  rewrite Etop2. rewrite (run_top_exact _ _ _ _ _ _ _ _ R2 [] ex Ex); [exact Hx|].
  rewrite <- forallb_rev, Hx. exact Hans.
Qed.

(* ------------------------------------------------------------------ *)
(* n rebuilds                                                         *)
(* ------------------------------------------------------------------ *)
Section Iter.
  Variables (cf : path) (nm : string) (vers : pyval) (root : prog).
  Variable clk : nat -> N * N.         (* clock and next inode of the n-th rebuild: arbitrary *)

  (* the tree and cache a build starts from, and what it gives *)
  Definition situation : Type := (fsT * cache * core_result)%type.

  Definition rebuild (n : nat) (x : situation) : situation :=
    let '(fs, old, cr) := x in
    match cr_state cr with
    | Some s => (next_fs cf s, cache_of_state nm s,
                 core_build (next_fs cf s) cf (cache_of_state nm s) vers (fst (clk n)) (snd (clk n)) root)
    | None => x
    end.

  Fixpoint rebuilds (n : nat) (x : situation) : situation :=
    match n with O => x | S m => rebuild m (rebuilds m x) end.

  Definition good (v : pyval) (top : list logentry) (x : situation) : Prop :=
    let '(fs, old, cr) := x in
    exists clock nextid s,
      cr = core_build fs cf old vers clock nextid root /\
      cr_outcome cr = inl v /\ cr_state cr = Some s /\
      fs_wf (start_tree fs cf old) /\ isdir fs cf = false /\
      records_clean s = true /\ records_distinct s = true /\ no_foreign_targets fs cf old s /\
      build_top fs cf old vers clock nextid root = top.

  Theorem rebuilds_same : forall fs old clock nextid v s1,
    let cr1 := core_build fs cf old vers clock nextid root in
    cr_outcome cr1 = inl v -> cr_state cr1 = Some s1 ->
    fs_wf fs -> isdir fs cf = false -> sanitized vers = true ->
    records_clean s1 = true -> records_distinct s1 = true -> no_foreign_targets fs cf old s1 ->
    forall n, let crn := snd (rebuilds (S n) (fs, old, cr1)) in
      cr_outcome crn = inl v /\
      cr_log crn = LInvoke "<root>" None PNone PNone :: build_top fs cf old vers clock nextid root /\
      (forall p, lookup (cr_tree crn) p = lookup (cr_tree cr1) p).
  Proof.
    intros fs old clock nextid v s1 cr1 Hout Hst W Hcfd Hvs Hcl Hdi Hnf.
    set (top := build_top fs cf old vers clock nextid root).
    assert (G : forall n, good v top (rebuilds n (fs, old, cr1)) /\
                          (forall p, lookup (cr_tree (snd (rebuilds n (fs, old, cr1)))) p = lookup (cr_tree cr1) p)).
    { induction n as [|n [IH IHt]].
      - split; [|reflexivity]. cbn [rebuilds good]. exists clock, nextid, s1.
        split; [reflexivity|]. split; [exact Hout|]. split; [exact Hst|]. split; [apply ref_clean_wf; exact W|]. auto 10.
      - cbn [rebuilds]. destruct (rebuilds n (fs, old, cr1)) as [[fsn oldn] crn] eqn:En. cbn [snd] in IHt.
        destruct IH as (c & i & s & Ecr & Eo & Es & Wn & Dn & Cn & Un & Fn & Tn).
        unfold rebuild. rewrite Es. subst crn.
        destruct (rebuild_step fsn cf oldn vers c i root nm v s (fst (clk n)) (snd (clk n)) Eo Es Wn Dn Hvs Cn Un Fn)
          as (s2 & Est & Eo2 & _ & Et2 & _).
        destruct (rebuild_stable fsn cf oldn vers c i root nm v s (fst (clk n)) (snd (clk n)) Eo Es Wn Dn Hvs Cn Un Fn)
          as (s2' & Eo2' & Est' & W2 & D2 & C2 & U2 & F2).
        split.
        + exists (fst (clk n)), (snd (clk n)), s2'. repeat split; auto.
          rewrite (rebuild_top_same fsn cf oldn vers c i root nm v s (fst (clk n)) (snd (clk n)) Eo Es Wn Dn Hvs Cn Un Fn). exact Tn.
        + intro p. cbn [snd]. rewrite Et2. apply IHt. }
    intro n. cbn zeta. cbn [rebuilds]. destruct (G n) as [Gn Gt].
    destruct (rebuilds n (fs, old, cr1)) as [[fsn oldn] crn] eqn:En. cbn [snd] in Gt.
    destruct Gn as (c & i & s & Ecr & Eo & Es & Wn & Dn & Cn & Un & Fn & Tn).
    unfold rebuild. rewrite Es. cbn [snd]. subst crn.
    destruct (rebuild_step fsn cf oldn vers c i root nm v s (fst (clk n)) (snd (clk n)) Eo Es Wn Dn Hvs Cn Un Fn)
      as (s2 & _ & Eo2 & El2 & Et2 & _).
    split; [exact Eo2|]. split; [rewrite El2, Tn; reflexivity|]. intro p. rewrite Et2. apply Gt.
  Qed.
End Iter.

Print Assumptions rebuilds_same.
