(* Proofs/ViewFrame.v — C04 (stretch): BInv along a build.  A general locality theorem:
   whatever changes (tree, claims of w_new, reservations) below directories that are
   reserved afterwards preserves BInv and does not change [dead] outside the reserved
   directories.  Instances: claiming / finishing / aborting a target, writing or removing
   the target file, and started_building_file after the mkdirs of prepare_file_creation. *)
From Coq Require Import List String Ascii NArith ZArith Bool Arith Lia.
From FB.Base Require Import PyVal Fs.
From FB.Model Require Import Types Monad CreatedFiles BuildDirs SimpleOps Builder.
From FB.Proofs Require Import FsLemmas CleanLaws JsonLaws CoreLawsChildren
     ViewDefs ViewLemmas ViewScan ViewQueries.
Import ListNotations.
Open Scope list_scope.

(* ------------------------------------------------------------------ locality *)
Section Local.
  Variables w w' : world.
  Local Notation fs := (w_fs w).   Local Notation fs' := (w_fs w').
  Local Notation b := (w_bd w).    Local Notation b' := (w_bd w').

  Hypothesis HB : BInv w.
  Hypothesis Hwf : fs_wf fs'.
  Hypothesis Hmaybe : forall x, mem_path x (bd_maybe b') = mem_path x (bd_maybe b).
  Hypothesis Hremoved : forall x, mem_path x (bd_removed b') = mem_path x (bd_removed b).
  Hypothesis Hexists : forall x, mem_path x (bd_exists b') = true -> mem_path x (bd_exists b) = true.
  Hypothesis Hmono : forall x, in_counts b x = true -> in_counts b' x = true.
  Hypothesis Hup : forall n d, in_counts b' (n :: d) = true -> in_counts b' d = true.
  Hypothesis Hrf_sub : forall a, mem_path a (bd_removed_files b') = true -> mem_path a (bd_removed_files b) = true.
  Hypothesis Hrf_del : forall a, mem_path a (bd_removed_files b) = true -> mem_path a (bd_removed_files b') = false ->
                       in_counts b' (dirname a) = true \/ isfile fs' a = false.
  (* the tree changes only inside reserved directories; a directory (before or after)
     that is not reserved is unchanged *)
  Hypothesis Hloc1 : forall q, in_counts b' (dirname q) = false -> lookup fs' q = lookup fs q.
  Hypothesis Hloc2 : forall q, in_counts b' q = false -> isdir fs' q = true \/ isdir fs q = true ->
                     lookup fs' q = lookup fs q.
  (* so does the set of hidden files *)
  Hypothesis Hhid : forall a, in_counts b' (dirname a) = false -> hid w' a = hid w a.

  Lemma loc_counts_false : forall x, in_counts b' x = false -> in_counts b x = false.
  Proof. intros x H. destruct (in_counts b x) eqn:E; [|reflexivity]. apply Hmono in E. congruence. Qed.

  Lemma loc_trk : forall x, in_counts b' x = false -> trk b' x = trk b x.
  Proof. intros x H. unfold trk. rewrite Hmaybe, Hremoved, H, (loc_counts_false _ H). reflexivity. Qed.

  Lemma loc_children : forall x, in_counts b' x = false -> children fs' x = children fs x.
  Proof.
    intros x H. apply children_ext. intro n. unfold lexists. rewrite (Hloc1 (n :: x)); [reflexivity|exact H].
  Qed.

  Lemma loc_child_counts : forall x n, in_counts b' x = false -> in_counts b' (n :: x) = false.
  Proof. intros x n H. destruct (in_counts b' (n :: x)) eqn:E; [|reflexivity]. apply Hup in E. congruence. Qed.

  (* [dead] is unchanged outside the reserved directories *)
  Lemma loc_dead : forall x, in_counts b' x = false -> dead w' x = dead w x.
  Proof.
    apply (depth_ind fs (fun x => in_counts b' x = false -> dead w' x = dead w x)).
    intros d IH Hc. rewrite (dead_unfold w' d), (dead_unfold w d).
    rewrite (loc_trk _ Hc). destruct (trk b d) eqn:T; [cbn [andb]|reflexivity].
    destruct (isdir fs' d) eqn:E1.
    - pose proof (Hloc2 d Hc (or_introl E1)) as El. rewrite El. apply isdir_lookup in E1. rewrite El in E1.
      rewrite E1, (loc_children _ Hc). apply forallb_ext_in. intros n Hn.
      unfold invis, invis_gen. fold (dead w' (n :: d)) (dead w (n :: d)).
      rewrite (Hloc1 (n :: d) Hc). destruct (lookup fs (n :: d)) as [[g|]|]; [apply Hhid; exact Hc| |reflexivity].
      apply IH; [exact Hn|apply loc_child_counts; exact Hc].
    - destruct (isdir fs d) eqn:E2.
      + pose proof (Hloc2 d Hc (or_intror E2)) as El. unfold isdir in E1, E2. rewrite El in E1. congruence.
      + unfold isdir in E1, E2.
        destruct (lookup fs' d) as [[g|]|]; try discriminate; destruct (lookup fs d) as [[h|]|]; try discriminate; reflexivity.
  Qed.

  Lemma loc_dead_counts : forall x, in_counts b' x = true -> dead w' x = false.
  Proof. intros x H. apply dead_counts. exact H. Qed.

  Lemma loc_dead_false : forall x, dead w x = false -> dead w' x = false.
  Proof.
    intros x H. destruct (in_counts b' x) eqn:E; [apply loc_dead_counts; exact E|]. rewrite (loc_dead _ E). exact H.
  Qed.

  Theorem local_BInv : BInv w'.
  Proof.
    constructor.
    - exact Hwf.
    - destruct (in_counts b' []) eqn:E; [unfold trk; rewrite E, andb_false_r; reflexivity|].
      rewrite (loc_trk _ E). apply (bi_root _ HB).
    - exact Hup.
    - intros d Hd Hi. destruct (in_counts b' d) eqn:E; [left; reflexivity|right].
      rewrite (loc_dead _ E). rewrite Hremoved in Hd.
      assert (Hi': isdir fs d = true).
      { pose proof (Hloc2 d E (or_introl Hi)) as El. unfold isdir in *. rewrite <- El. exact Hi. }
      destruct (bi_removed _ HB d Hd Hi') as [H|H]; [|exact H].
      rewrite (loc_counts_false _ E) in H. discriminate.
    - intros a H1 H2 H3. rewrite (Hhid _ H3). unfold isfile in H2. rewrite (Hloc1 _ H3) in H2.
      apply (bi_rf_hid _ HB a (Hrf_sub _ H1) H2). apply loc_counts_false. exact H3.
    - intros a H1 H2 H3. rewrite (Hhid _ H3) in H2. pose proof H1 as H1'. unfold isfile in H1. rewrite (Hloc1 _ H3) in H1.
      pose proof (bi_hid_rf _ HB a H1 H2 (loc_counts_false _ H3)) as H4.
      destruct (mem_path a (bd_removed_files b')) eqn:E; [reflexivity|].
      destruct (Hrf_del a H4 E) as [H|H]; [congruence|]. congruence.
    - intros a d H1 H2. rewrite Hmaybe, Hremoved in H2. apply (bi_rf_trk _ HB a d (Hrf_sub _ H1) H2).
    - intros q x H1 H2. apply loc_dead_false. apply (bi_exists _ HB q x (Hexists _ H1) H2).
  Qed.
End Local.

Arguments local_BInv : clear implicits.
Arguments loc_dead : clear implicits.

(* BInv and dead only look at the tree, the BuildDirs state and the three fields behind [hid] *)
Lemma BInv_fields : forall w w', BInv w ->
  w_fs w' = w_fs w -> w_bd w' = w_bd w -> w_old w' = w_old w -> w_new w' = w_new w -> w_cachefile w' = w_cachefile w ->
  BInv w' /\ forall x, dead w' x = dead w x.
Proof.
  intros w w' HB E1 E2 E3 E4 E5.
  assert (Hh: forall a, hid w' a = hid w a) by (intro a; unfold hid; rewrite E3, E4, E5; reflexivity).
  assert (HBI: BInv w').
  { apply (local_BInv w w' HB); rewrite ?E1, ?E2; auto.
    - apply (bi_wf _ HB).
    - apply (bi_counts_up _ HB).
    - intros a H1 H2. congruence. }
  split; [exact HBI|]. intro x.
  destruct (in_counts (w_bd w') x) eqn:E.
  - rewrite (dead_counts _ _ E). rewrite E2 in E. rewrite (dead_counts _ _ E). reflexivity.
  - apply (loc_dead w w'); rewrite ?E1, ?E2; auto.
    + apply (bi_counts_up _ HB).
    + rewrite <- E2. exact E.
Qed.

(* ------------------------------------------------------------------ claims: w_new changes at a target *)
Lemma files_get_set_other : forall l p v a, a <> p -> files_get (files_set l p v) a = files_get l a.
Proof.
  intros l p v a Hn. induction l as [|[q o] l IH]; cbn [files_set files_get].
  - destruct (path_eqb p a) eqn:E; [apply path_eqb_eq in E; congruence|reflexivity].
  - destruct (path_eqb q p) eqn:E; cbn [files_get].
    + apply path_eqb_eq in E. subst q. destruct (path_eqb p a) eqn:E2; [apply path_eqb_eq in E2; congruence|reflexivity].
    + rewrite IH. reflexivity.
Qed.

Lemma files_get_del_other : forall l p a, a <> p -> files_get (files_del l p) a = files_get l a.
Proof.
  intros l p a Hn. induction l as [|[q o] l IH]; cbn [files_del files_get]; [reflexivity|].
  destruct (path_eqb q p) eqn:E; cbn [files_get].
  - apply path_eqb_eq in E. subst q. rewrite IH.
    destruct (path_eqb p a) eqn:E2; [apply path_eqb_eq in E2; congruence|reflexivity].
  - rewrite IH. reflexivity.
Qed.

Theorem claim_change_BInv : forall w p c',
  BInv w -> in_counts (w_bd w) (dirname p) = true ->
  (forall a, a <> p -> files_get (c_files c') a = files_get (c_files (w_new w)) a) ->
  BInv (set_new c' w) /\ forall x, dead (set_new c' w) x = dead w x.
Proof.
  intros w p c' HB Hc Hf.
  assert (Hh: forall a, in_counts (w_bd w) (dirname a) = false -> hid (set_new c' w) a = hid w a).
  { intros a Ha. assert (a <> p) by (intro; subst; congruence).
    unfold hid, cache_has_file, cache_get_file. cbn [w_new w_old w_cachefile set_new]. rewrite (Hf a H). reflexivity. }
  assert (HBI: BInv (set_new c' w)).
  { apply (local_BInv w (set_new c' w) HB); cbn [w_fs w_bd set_new]; auto.
    - apply (bi_wf _ HB).
    - apply (bi_counts_up _ HB).
    - intros a H1 H2. congruence. }
  split; [exact HBI|]. intro x.
  destruct (in_counts (w_bd w) x) eqn:E.
  - rewrite (dead_counts w _ E). apply dead_counts. exact E.
  - apply (loc_dead w (set_new c' w)); cbn [w_fs w_bd set_new]; auto. apply (bi_counts_up _ HB).
Qed.

(* the three claim steps of Builder.v, for a target whose directory is reserved *)
Corollary new_start_building_file_BInv : forall w p w1 r,
  BInv w -> in_counts (w_bd w) (dirname p) = true -> new_start_building_file p w = (w1, r) ->
  BInv w1 /\ forall x, dead w1 x = dead w x.
Proof.
  intros w p w1 r HB Hc H. unfold new_start_building_file, new_assert_no_file, bind, get, modify in H.
  destruct (cache_has_file (w_new w) p); cbn in H; inversion H; subst; [split; [exact HB|reflexivity]|].
  apply (claim_change_BInv w p); [exact HB|exact Hc|]. intros a Ha. cbn. apply files_get_set_other. exact Ha.
Qed.

Corollary new_finish_building_file_BInv : forall w p o w1 r,
  BInv w -> in_counts (w_bd w) (dirname p) = true -> new_finish_building_file p o w = (w1, r) ->
  BInv w1 /\ forall x, dead w1 x = dead w x.
Proof.
  intros w p o w1 r HB Hc H. unfold new_finish_building_file, modify in H. inversion H; subst.
  apply (claim_change_BInv w p); [exact HB|exact Hc|]. intros a Ha. cbn. apply files_get_set_other. exact Ha.
Qed.

Corollary new_abort_building_file_BInv : forall w p w1 r,
  BInv w -> in_counts (w_bd w) (dirname p) = true -> new_abort_building_file p w = (w1, r) ->
  BInv w1 /\ forall x, dead w1 x = dead w x.
Proof.
  intros w p w1 r HB Hc H. unfold new_abort_building_file, modify in H. inversion H; subst.
  apply (claim_change_BInv w p); [exact HB|exact Hc|]. intros a Ha. cbn. apply files_get_del_other. exact Ha.
Qed.

(* ------------------------------------------------------------------ the target file is written / removed *)
Lemma dirname_neq : forall (p : path), p <> [] -> dirname p <> p.
Proof.
  intros p Hp E. destruct p as [|n d]; [contradiction|]. cbn in E.
  apply (f_equal (@List.length _)) in E. simpl in E. lia.
Qed.

Lemma wf_change_one : forall fs fs' p, fs_wf fs -> p <> [] ->
  (forall q, q <> p -> lookup fs' q = lookup fs q) ->
  (lookup fs' p <> None -> lookup fs (dirname p) = Some NDir) ->
  (forall n, lookup fs (n :: p) <> None -> lookup fs' p = Some NDir) ->
  fs_wf fs'.
Proof.
  intros fs fs' p W Hp Hoth Hnew Hkids q n Hq.
  destruct (path_eqb q p) eqn:Eq.
  - apply path_eqb_eq in Eq. subst q. rewrite (Hoth (dirname p) (dirname_neq p Hp)). apply Hnew. congruence.
  - apply path_eqb_neq in Eq. rewrite (Hoth q Eq) in Hq. pose proof (W _ _ Hq) as Hd.
    destruct (path_eqb (dirname q) p) eqn:Ed.
    + apply path_eqb_eq in Ed. destruct q as [|m q']; [cbn in Ed; congruence|]. cbn in Ed. subst q'.
      cbn [dirname tl]. apply (Hkids m). congruence.
    + apply path_eqb_neq in Ed. rewrite (Hoth _ Ed). exact Hd.
Qed.

Theorem target_change_BInv : forall w p fs',
  BInv w -> in_counts (w_bd w) (dirname p) = true -> fs_wf fs' ->
  (forall q, q <> p -> lookup fs' q = lookup (w_fs w) q) ->
  isdir (w_fs w) p = false -> isdir fs' p = false ->
  BInv (set_fs fs' w) /\ forall x, dead (set_fs fs' w) x = dead w x.
Proof.
  intros w p fs' HB Hc Hwf Hoth Hd1 Hd2.
  assert (L1: forall q, in_counts (w_bd w) (dirname q) = false -> lookup fs' q = lookup (w_fs w) q).
  { intros q Hq. apply Hoth. intro; subst; congruence. }
  assert (L2: forall q, in_counts (w_bd w) q = false -> isdir fs' q = true \/ isdir (w_fs w) q = true ->
                        lookup fs' q = lookup (w_fs w) q).
  { intros q _ [H|H]; apply Hoth; intro; subst; congruence. }
  assert (HBI: BInv (set_fs fs' w)).
  { apply (local_BInv w (set_fs fs' w) HB); cbn [w_fs w_bd set_fs]; auto.
    - apply (bi_counts_up _ HB).
    - intros a H1 H2. congruence. }
  split; [exact HBI|]. intro x.
  destruct (in_counts (w_bd w) x) eqn:E.
  - rewrite (dead_counts w _ E). apply dead_counts. exact E.
  - apply (loc_dead w (set_fs fs' w)); cbn [w_fs w_bd set_fs]; auto. apply (bi_counts_up _ HB).
Qed.

(* user code writes its target *)
Corollary write_target_BInv : forall w p bytes j m i fs',
  BInv w -> in_counts (w_bd w) (dirname p) = true ->
  write_file (w_fs w) p bytes j m i = inl fs' ->
  BInv (set_fs fs' w) /\ forall x, dead (set_fs fs' w) x = dead w x.
Proof.
  intros w p bytes j m i fs' HB Hc H.
  destruct (write_file_frame _ _ _ _ _ _ _ H) as [[f [Hf _]] Hoth].
  assert (Hnd: isdir (w_fs w) p = false).
  { unfold write_file in H. destruct p as [|n d]; [discriminate|]. unfold isdir.
    destruct (lookup (w_fs w) (n :: d)) as [[g|]|]; try reflexivity. discriminate. }
  apply (target_change_BInv w p fs'); auto.
  - apply (wf_change_one (w_fs w) fs' p (bi_wf _ HB)); auto.
    + intro; subst; discriminate.
    + intros _. unfold write_file in H. destruct p as [|n d]; [discriminate|]. cbn [dirname tl].
      destruct (lookup (w_fs w) (n :: d)) as [[g|]|] eqn:E; try discriminate.
      * apply (bi_wf _ HB _ _ E).
      * destruct (lookup (w_fs w) d) as [[g|]|]; try discriminate. reflexivity.
    + intros n Hn. exfalso. destruct (lookup (w_fs w) (n :: p)) as [x|] eqn:E; [|congruence].
      pose proof (bi_wf _ HB _ _ E) as Hp. cbn [dirname tl] in Hp. unfold isdir in Hnd. rewrite Hp in Hnd. discriminate.
  - unfold isdir. rewrite Hf. reflexivity.
Qed.

(* the target file is removed (try_to_remove_file after a failure) or renamed away (backup) *)
Corollary remove_target_BInv : forall w p fs',
  BInv w -> in_counts (w_bd w) (dirname p) = true -> isfile (w_fs w) p = true ->
  lookup fs' p = None -> (forall q, q <> p -> lookup fs' q = lookup (w_fs w) q) ->
  BInv (set_fs fs' w) /\ forall x, dead (set_fs fs' w) x = dead w x.
Proof.
  intros w p fs' HB Hc Hf Hp Hoth.
  assert (Hnd: isdir (w_fs w) p = false).
  { unfold isfile, isdir in *. destruct (lookup (w_fs w) p) as [[g|]|]; try discriminate; reflexivity. }
  apply (target_change_BInv w p fs'); auto.
  - apply (wf_change_one (w_fs w) fs' p (bi_wf _ HB)); auto.
    + intro; subst; discriminate.
    + intro H. congruence.
    + intros n Hn. exfalso. destruct (lookup (w_fs w) (n :: p)) as [x|] eqn:E; [|congruence].
      pose proof (bi_wf _ HB _ _ E) as Hp'. cbn [dirname tl] in Hp'. unfold isdir in Hnd. rewrite Hp' in Hnd. discriminate.
  - unfold isdir. rewrite Hp. reflexivity.
Qed.

(* ------------------------------------------------------------------ started_building_file *)
Lemma cnt_get_set : forall l p n x, cnt_get (cnt_set l p n) x = if path_eqb p x then Some n else cnt_get l x.
Proof.
  intros l p n x. induction l as [|[q m] l IH]; cbn [cnt_set cnt_get]; [reflexivity|].
  destruct (path_eqb q p) eqn:E; cbn [cnt_get].
  - apply path_eqb_eq in E. subst q. destruct (path_eqb p x); reflexivity.
  - rewrite IH. destruct (path_eqb q x) eqn:E2; [|reflexivity].
    apply path_eqb_eq in E2. subst q. rewrite path_eqb_sym, E. reflexivity.
Qed.

Record started_frame (b : bdirs) (parent : path) (b' : bdirs) : Prop := {
  sf_maybe : bd_maybe b' = bd_maybe b;
  sf_removed : bd_removed b' = bd_removed b;
  sf_exists : bd_exists b' = bd_exists b;
  sf_mono : forall x, in_counts b x = true -> in_counts b' x = true;
  sf_new : forall x, in_counts b' x = true -> in_counts b x = true \/ suffix x parent;
  sf_all : (forall x y, suffix x parent -> in_counts b x = true -> suffix y x -> in_counts b y = true) ->
           forall x, suffix x parent -> in_counts b' x = true;
  sf_rf_sub : forall a, mem_path a (bd_removed_files b') = true -> mem_path a (bd_removed_files b) = true;
  sf_rf_del : forall a, mem_path a (bd_removed_files b) = true -> mem_path a (bd_removed_files b') = false -> suffix a parent
}.

Definition st_count (b : bdirs) (parent : path) : nat :=
  match cnt_get (bd_counts b) parent with Some k => k | None => 0 end.
Definition st_b1 (b : bdirs) (parent : path) : bdirs :=
  bd_with b (cnt_set (bd_counts b) parent (S (st_count b parent))) (bd_created b) (bd_err_created b)
          (bd_removed b) (bd_exists b) (bd_maybe b) (bd_removed_files b).
Definition st_b2 (b : bdirs) (cr : list path) (parent : path) : bdirs :=
  let b1 := st_b1 b parent in
  if mem_path parent cr
  then bd_with b1 (bd_counts b1) (add_path parent (bd_created b1)) (del_path parent (bd_err_created b1))
               (bd_removed b1) (bd_exists b1) (bd_maybe b1) (del_path parent (bd_removed_files b1))
  else b1.
Definition st_acc (cr : list path) (parent : path) (acc : list path) : list path :=
  if mem_path parent cr then acc ++ [parent] else acc.

Lemma bd_started_from_eq : forall b cr parent acc,
  bd_started_from b cr parent acc =
  if Nat.ltb 0 (st_count b parent) then (st_b1 b parent, acc)
  else match parent with
       | [] => (st_b2 b cr parent, st_acc cr parent acc)
       | _ :: d => bd_started_from (st_b2 b cr parent) cr d (st_acc cr parent acc)
       end.
Proof.
  intros b cr parent acc. destruct parent as [|n d]; cbn [bd_started_from].
  - fold (st_count b []). unfold st_b2, st_acc, st_b1.
    destruct (Nat.ltb 0 (st_count b [])); try reflexivity; destruct (mem_path [] cr); reflexivity.
  - fold (st_count b (n :: d)). unfold st_b2, st_acc, st_b1.
    destruct (Nat.ltb 0 (st_count b (n :: d))); try reflexivity; destruct (mem_path (n :: d) cr); reflexivity.
Qed.

Lemma in_counts_b1 : forall b parent x, in_counts (st_b1 b parent) x = path_eqb parent x || in_counts b x.
Proof.
  intros b parent x. unfold in_counts, st_b1. cbn [bd_counts bd_with]. rewrite cnt_get_set.
  destruct (path_eqb parent x); reflexivity.
Qed.

Lemma st_b2_facts : forall b cr parent,
  bd_maybe (st_b2 b cr parent) = bd_maybe b /\ bd_removed (st_b2 b cr parent) = bd_removed b /\
  bd_exists (st_b2 b cr parent) = bd_exists b /\
  (forall x, in_counts (st_b2 b cr parent) x = path_eqb parent x || in_counts b x) /\
  (forall a, mem_path a (bd_removed_files (st_b2 b cr parent)) = true -> mem_path a (bd_removed_files b) = true) /\
  (forall a, mem_path a (bd_removed_files b) = true -> mem_path a (bd_removed_files (st_b2 b cr parent)) = false ->
             a = parent).
Proof.
  intros b cr parent. unfold st_b2. destruct (mem_path parent cr).
  - cbn [bd_maybe bd_removed bd_exists bd_removed_files bd_with]. repeat split; try reflexivity.
    + intro x. rewrite <- in_counts_b1. reflexivity.
    + intros a H. eapply del_mem_sub. exact H.
    + intros a H1 H2. unfold st_b1 in H2. cbn [bd_removed_files bd_with] in H2.
      rewrite mem_del_path, H1, andb_true_r in H2. apply negb_false_iff in H2. apply path_eqb_eq in H2. auto.
  - repeat split; try reflexivity.
    + apply in_counts_b1.
    + auto.
    + intros a H1 H2. unfold st_b1 in H2. cbn in H2. congruence.
Qed.

Lemma st_b1_frame : forall b parent,
  (forall x y, suffix x parent -> in_counts b x = true -> suffix y x -> in_counts b y = true) ->
  in_counts b parent = true -> started_frame b parent (st_b1 b parent).
Proof.
  intros b parent. constructor; try reflexivity.
  - intros x Hx. rewrite in_counts_b1, Hx. apply orb_true_r.
  - intros x Hx. rewrite in_counts_b1 in Hx. apply orb_true_iff in Hx. destruct Hx as [Hx|Hx]; [right|left; exact Hx].
    apply path_eqb_eq in Hx. subst. apply suffix_refl.
  - intros Hcl x Hx. rewrite in_counts_b1. rewrite (Hcl parent x (suffix_refl _) H0 Hx). apply orb_true_r.
  - auto.
  - intros a H1 H2. unfold st_b1 in H2. cbn in H2. congruence.
Qed.

Lemma bd_started_from_frame : forall parent b cr acc,
  (forall x y, suffix x parent -> in_counts b x = true -> suffix y x -> in_counts b y = true) ->
  started_frame b parent (fst (bd_started_from b cr parent acc)).
Proof.
  induction parent as [|n d IH]; intros b cr acc Hcl; rewrite bd_started_from_eq.
  - destruct (Nat.ltb 0 (st_count b [])) eqn:Epos; cbn [fst].
    + apply st_b1_frame; [exact Hcl|].
      unfold in_counts. unfold st_count in Epos. destruct (cnt_get (bd_counts b) []); [reflexivity|discriminate].
    + destruct (st_b2_facts b cr []) as (M1 & M2 & M3 & M4 & M5 & M6).
      constructor; auto.
      * intros x Hx. rewrite M4, Hx. apply orb_true_r.
      * intros x Hx. rewrite M4 in Hx. apply orb_true_iff in Hx. destruct Hx as [Hx|Hx]; [right|left; exact Hx].
        apply path_eqb_eq in Hx. subst. apply suffix_refl.
      * intros _ x Hx. apply suffix_nil in Hx. subst. rewrite M4. reflexivity.
      * intros a H1 H2. rewrite (M6 a H1 H2). apply suffix_refl.
  - destruct (Nat.ltb 0 (st_count b (n :: d))) eqn:Epos; cbn [fst].
    + apply st_b1_frame; [exact Hcl|].
      unfold in_counts. unfold st_count in Epos. destruct (cnt_get (bd_counts b) (n :: d)); [reflexivity|discriminate].
    + destruct (st_b2_facts b cr (n :: d)) as (M1 & M2 & M3 & M4 & M5 & M6).
      assert (Hcl2: forall x y, suffix x d -> in_counts (st_b2 b cr (n :: d)) x = true -> suffix y x ->
                                in_counts (st_b2 b cr (n :: d)) y = true).
      { intros x y Hx Hc Hy. rewrite M4 in Hc. rewrite M4.
        destruct (path_eqb (n :: d) x) eqn:E.
        - apply path_eqb_eq in E. subst x. exfalso. apply suffix_length in Hx. simpl in Hx. lia.
        - cbn [orb] in Hc. rewrite (Hcl x y (suffix_cons _ _ _ Hx) Hc Hy). apply orb_true_r. }
      specialize (IH (st_b2 b cr (n :: d)) cr (st_acc cr (n :: d) acc) Hcl2).
      destruct IH as [I1 I2 I3 I4 I5 I6 I7 I8].
      constructor.
      * congruence.
      * congruence.
      * congruence.
      * intros x H. apply I4. rewrite M4, H. apply orb_true_r.
      * intros x H. apply I5 in H. destruct H as [H|H]; [|right; apply suffix_cons; exact H].
        rewrite M4 in H. apply orb_true_iff in H. destruct H as [H|H]; [right|left; exact H].
        apply path_eqb_eq in H. subst. apply suffix_refl.
      * intros _ x Hx. apply suffix_inv in Hx. destruct Hx as [->|Hx].
        -- apply I4. rewrite M4, path_eqb_refl. reflexivity.
        -- apply I6; [exact Hcl2|exact Hx].
      * intros a H. apply M5. apply I7. exact H.
      * intros a H1 H2. destruct (mem_path a (bd_removed_files (st_b2 b cr (n :: d)))) eqn:E.
        -- apply suffix_cons. apply (I8 a E H2).
        -- rewrite (M6 a H1 E). apply suffix_refl.
Qed.

Theorem started_BInv : forall w n d cr fs' (w' : world),
  BInv w -> fs_wf fs' ->
  (forall q, ~ suffix q d -> lookup fs' q = lookup (w_fs w) q) ->
  w_fs w' = fs' -> w_bd w' = fst (bd_started (w_bd w) (n :: d) cr) ->
  w_old w' = w_old w -> w_new w' = w_new w -> w_cachefile w' = w_cachefile w ->
  BInv w' /\
  (forall x, in_counts (w_bd w') x = false -> dead w' x = dead w x) /\
  (forall x, suffix x d -> in_counts (w_bd w') x = true).
Proof.
  intros w n d cr fs' w' HB Hwf Hoth E1 E2 E3 E4 E5.
  set (b0 := bd_with (w_bd w) (bd_counts (w_bd w)) (bd_created (w_bd w)) (bd_err_created (w_bd w))
                     (bd_removed (w_bd w)) (bd_exists (w_bd w)) (bd_maybe (w_bd w))
                     (del_path (n :: d) (bd_removed_files (w_bd w)))).
  assert (Eb: w_bd w' = fst (bd_started_from b0 cr d [])) by (rewrite E2; reflexivity).
  assert (Hc0: forall x, in_counts b0 x = in_counts (w_bd w) x) by reflexivity.
  assert (Hcl0: forall x y, suffix x d -> in_counts b0 x = true -> suffix y x -> in_counts b0 y = true).
  { intros x y _ Hx Hy. rewrite Hc0 in *. eapply counts_up_suffix; eassumption. }
  pose proof (bd_started_from_frame d b0 cr [] Hcl0) as F. rewrite <- Eb in F. destruct F as [F1 F2 F3 F4 F5 F6 F7 F8].
  assert (Hall: forall x, suffix x d -> in_counts (w_bd w') x = true) by (apply F6; exact Hcl0).
  assert (Hdn: forall q, in_counts (w_bd w') (dirname q) = false -> ~ suffix q d).
  { intros q Hq Hs. assert (suffix (dirname q) d).
    { destruct q as [|m q']; [exact Hs|]. cbn [dirname tl]. eapply suffix_trans; [|exact Hs]. apply suffix_cons, suffix_refl. }
    rewrite (Hall _ H) in Hq. discriminate. }
  assert (Hup: forall m x, in_counts (w_bd w') (m :: x) = true -> in_counts (w_bd w') x = true).
  { intros m x H. apply F5 in H. destruct H as [H|H].
    - apply F4. rewrite Hc0 in *. apply (bi_counts_up _ HB m x H).
    - apply Hall. eapply suffix_trans; [|exact H]. apply suffix_cons, suffix_refl. }
  assert (Hh: forall a, hid w' a = hid w a) by (intro a; unfold hid; rewrite E3, E4, E5; reflexivity).
  assert (L1: forall q, in_counts (w_bd w') (dirname q) = false -> lookup (w_fs w') q = lookup (w_fs w) q).
  { intros q Hq. rewrite E1. apply Hoth. apply Hdn. exact Hq. }
  assert (L2: forall q, in_counts (w_bd w') q = false -> isdir (w_fs w') q = true \/ isdir (w_fs w) q = true ->
                        lookup (w_fs w') q = lookup (w_fs w) q).
  { intros q Hq _. rewrite E1. apply Hoth. intro Hs. rewrite (Hall _ Hs) in Hq. discriminate. }
  assert (HBI: BInv w').
  { apply (local_BInv w w' HB); auto.
    - rewrite E1. exact Hwf.
    - intro x. rewrite F1. reflexivity.
    - intro x. rewrite F2. reflexivity.
    - intro x. rewrite F3. auto.
    - intros a H. apply F7 in H. cbn in H. eapply del_mem_sub. exact H.
    - intros a H1 H2. left.
      destruct (mem_path a (bd_removed_files b0)) eqn:E.
      + pose proof (F8 a E H2) as Hs. apply Hall.
        destruct a as [|m a']; [exact Hs|]. cbn [dirname tl]. eapply suffix_trans; [|exact Hs]. apply suffix_cons, suffix_refl.
      + cbn in E. rewrite mem_del_path, H1, andb_true_r in E. apply negb_false_iff in E. apply path_eqb_eq in E.
        subst a. cbn [dirname tl]. apply Hall. apply suffix_refl. }
  split; [exact HBI|]. split; [|exact Hall].
  intros x Hx. apply (loc_dead w w'); auto.
  - intro y. rewrite F1. reflexivity.
  - intro y. rewrite F2. reflexivity.
Qed.

Print Assumptions local_BInv.
Print Assumptions claim_change_BInv.
Print Assumptions write_target_BInv.
Print Assumptions started_BInv.
