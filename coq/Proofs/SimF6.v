(* Proofs/SimF6.v — the class okc across builds, closed: the cache that a committed build of the
   mechanism model writes is again in the class, for every clock value c1 not before the clock at
   the end of the run of the root function.  SimD7.okc_next with its hypothesis RestStatic
   discharged:
     RS_regs  (SimF2.new_cache_regs)    targets of a recorded tree pairwise different
     RS_keys  (SimF3.new_cache_keys)    subbuild keys pairwise different, entry key conditions
     RS_rest  (SimF4.new_cache_rest)    nested outputs registered as created, recorded arguments
     RS_times (SimF5.new_cache_times)   recorded METADATA times <= c1
   Two hypotheses are added to those of okc_next: no regular file of the pre-state is newer than
   the clock, and c1 is not before the clock when the root function has returned.            *)
From Coq Require Import List String Ascii NArith ZArith Bool Arith Lia.
From FB.Base Require Import PyVal Fs.
From FB.Gen Require Import JsonUtilGen.
From FB.Spec Require Import JsonSpec Prog Ref Oracle Faithful.
From FB.Model Require Import Types Monad CreatedFiles BuildDirs SimpleOps Builder Persist Build Run Frame Core CoreOracle.
From FB.Proofs Require Import FsLemmas JsonLaws ReplayLaws BuildFileLaws CoreLaws1 CoreLaws2 CoreLaws3 CoreLaws4
     CoreNextRegs CoreNextState
     HashMemoInv ViewDefs ViewLemmas ViewInit ViewXDefs ViewH4 ViewH6 ViewR2 ViewR3 ViewK3 ViewK4 ViewK8
     SimA0 SimA2Base SimAMain SimB2 SimB7 SimB9 SimC0 SimC5 SimC12 SimC14 SimC15 SimD5 SimD7 SimF1 SimF2 SimF3 SimF4 SimF5.
Import ListNotations.
Open Scope list_scope.

Theorem rest_static_new : forall w cachefile old nm svers root w1 w2 v l c1,
  okc (w_clock w) old -> fs_wf (w_fs w) -> old_ok old cachefile -> WfCache old -> old_keys_ok old -> w_faults w = [] ->
  path_ok (dirname cachefile) = true -> isdir (w_fs w) cachefile = false -> maxlen (w_fs w) < walk_fuel ->
  vdir (Build.start_world w cachefile old nm svers) (dirname cachefile) = true ->
  AllTargets tgtP root -> NoNest [] root -> QueriesOk root -> WfArgs root -> CmpMeta root ->
  TargetsClear old root -> TargetsApart old root -> RkNew old [] root ->
  NoCatch root ->
  make_dirs (dirname cachefile) (Build.start_world w cachefile old nm svers) = (w1, inl []) ->
  run root None [] (set_log (LInvoke "<root>"%string None PNone PNone :: w_log w1) w1) = (w2, (inl v, l)) ->
  (forall p f, lookup (w_fs w) p = Some (NFile f) -> (f_mtime f <= w_clock w)%N) ->
  (w_clock w2 <= c1)%N ->
  RestStatic c1 (w_new w2).
Proof.
  intros w cachefile old nm svers root w1 w2 v l c1 Hokc Hwf Hok HW HKo HF Hp Hnc Hml Hd Hat Hnn Hqk Hwa Hcm Hcl Hap Hnew Hno Emk Erun Hfo Hc1.
  apply rest_static_of_parts.
  - exact (new_cache_regs w cachefile old nm svers root w1 w2 (inl v) l Hokc Hwf Hok HW HKo HF Hp Hnc Hml Hd Hat Hnn Hqk Hwa Hcm Hcl Hap Emk Erun).
  - exact (new_cache_keys w cachefile old nm svers root w1 w2 v l Hokc Hwf Hok HW HKo HF Hp Hnc Hml Hd Hat Hnn Hqk Hwa Hcm Hcl Hap Hnew Hno Emk Erun).
  - apply rs_nodes_of_parts.
    + exact (new_cache_times w cachefile old nm svers root w1 w2 v l c1 Hokc Hwf Hok HW HKo HF Hp Hnc Hml Hd Hat Hnn Hqk Hwa Hcm Hcl Hap Hnew Hno Emk Erun Hfo Hc1).
    + exact (new_cache_rest w cachefile old nm svers root w1 w2 v l Hokc Hwf Hok HW HKo HF Hp Hnc Hml Hd Hat Hnn Hqk Hwa Hcm Hcl Hap Hnew Hno Emk Erun).
Qed.

Theorem okc_next_closed : forall w cachefile old nm svers root w1 w2 v l c1,
  okc (w_clock w) old -> fs_wf (w_fs w) -> old_ok old cachefile -> WfCache old -> old_keys_ok old -> w_faults w = [] ->
  path_ok (dirname cachefile) = true -> isdir (w_fs w) cachefile = false -> maxlen (w_fs w) < walk_fuel ->
  vdir (Build.start_world w cachefile old nm svers) (dirname cachefile) = true ->
  AllTargets tgtP root -> NoNest [] root -> QueriesOk root -> WfArgs root -> CmpMeta root ->
  TargetsClear old root -> TargetsApart old root -> RkNew old [] root ->
  (* no function catches the exception of a nested call *)
  NoCatch root ->
  make_dirs (dirname cachefile) (Build.start_world w cachefile old nm svers) = (w1, inl []) ->
  (* the root function returns *)
  run root None [] (set_log (LInvoke "<root>"%string None PNone PNone :: w_log w1) w1) = (w2, (inl v, l)) ->
  (* no regular file of the pre-state is newer than the clock; the next build does not start
     before the root function has returned *)
  (forall p f, lookup (w_fs w) p = Some (NFile f) -> (f_mtime f <= w_clock w)%N) ->
  (w_clock w2 <= c1)%N ->
  okc c1 (w_new w2).
Proof.
  intros w cachefile old nm svers root w1 w2 v l c1 Hokc Hwf Hok HW HKo HF Hp Hnc Hml Hd Hat Hnn Hqk Hwa Hcm Hcl Hap Hnew Hno Emk Erun Hfo Hc1.
  apply (okc_next w cachefile old nm svers root w1 w2 v l c1 Hokc Hwf Hok HW HKo HF Hp Hnc Hml Hd Hat Hnn Hqk Hwa Hcm Hcl Hap Hnew Hno Emk Erun).
  exact (rest_static_new w cachefile old nm svers root w1 w2 v l c1 Hokc Hwf Hok HW HKo HF Hp Hnc Hml Hd Hat Hnn Hqk Hwa Hcm Hcl Hap Hnew Hno Emk Erun Hfo Hc1).
Qed.

Print Assumptions rest_static_new.
Print Assumptions okc_next_closed.
