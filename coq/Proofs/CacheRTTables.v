(* Proofs/CacheRTTables.v — C16 at cache level, the derived tables: the file
   table and the subbuild table the reader builds from the normalised forest are,
   entry for entry and in the same order, the tables of the original forest with
   every record normalised; keys (paths, subbuild keys) are literally the same. *)
From Coq Require Import List String Ascii NArith ZArith Bool Arith Lia Permutation.
From FB.Base Require Import PyVal Fs.
From FB.Gen Require Import JsonUtilGen.
From FB.Spec Require Import JsonSpec.
From FB.Model Require Import Types Monad SimpleOps Builder PathNorm Persist PersistSpec.
From FB.Proofs Require Import FsLemmas JsonLaws PersistLaws CacheRTDefs CacheRTLaws.
Import ListNotations.
Local Open Scope string_scope.
Local Open Scope list_scope.

(* ================================================================== *)
(** * 1. Subbuild keys do not see the order of dictionary items        *)
(* ================================================================== *)

Lemma hf_vmap : forall g x, hf (vmap g x) = (fst x, to_hashable (g (snd x))).
Proof. intros g [k v]. reflexivity. Qed.

Theorem to_hashable_sort_deep : forall v, sanitized v = true -> to_hashable (sort_deep v) = to_hashable v.
Proof.
  unfold sanitized.
  induction v using pyval_ind'; intro Hs; try reflexivity.
  - rewrite sort_deep_list_eq, !to_hashable_list_eq. rewrite sanitized_gen_list in Hs.
    f_equal. f_equal. rewrite map_map. apply map_ext_in. intros x Hx.
    rewrite Forall_forall in H. rewrite forallb_forall in Hs. apply H; auto.
  - discriminate Hs.
  - apply sanitized_gen_dict_wfd in Hs. destruct Hs as [[P1 N1] V1].
    rewrite sort_deep_dict_eq, !to_hashable_dict_eq. f_equal. unfold dict_hash.
    assert (E : map hf (map (vmap sort_deep) d) = map hf d).
    { rewrite map_map. apply map_ext_in. intros [k v] Hin. cbn [vmap hf]. f_equal.
      rewrite Forall_forall in H. destruct (H _ Hin) as [_ Hsnd]. apply Hsnd.
      eapply forallb_snd_In in V1; eauto. }
    rewrite <- (sort_items_hf (map (vmap sort_deep) d)). rewrite E.
    rewrite sort_items_idem; [reflexivity|].
    assert (K : keys (map hf d) = keys d).
    { unfold keys. rewrite map_map. apply map_ext. intros [k v]. reflexivity. }
    rewrite K. exact N1.
Qed.

Theorem to_hashable_norm_val : forall v, sanitized v = true -> to_hashable (norm_val v) = to_hashable v.
Proof. intros v H. rewrite (norm_val_sort_deep v H). apply to_hashable_sort_deep. exact H. Qed.

Theorem subbuild_key_norm : forall f a k, sanitized a = true -> sanitized k = true ->
  subbuild_key f (norm_val a) (norm_val k) = subbuild_key f a k.
Proof.
  intros f a k Ha Hk. unfold subbuild_key. rewrite !to_hashable_list_eq. cbn [map].
  rewrite (to_hashable_norm_val a Ha), (to_hashable_norm_val k Hk). reflexivity.
Qed.

(* ================================================================== *)
(** * 2. Registering a normalised record                                *)
(* ================================================================== *)

Lemma files_set_map_norm : forall l p o,
  files_set (map norm_fentry l) p (Some (norm_op o)) = map norm_fentry (files_set l p (Some o)).
Proof.
  induction l as [|[q o'] l IH]; intros p o; [reflexivity|].
  cbn [map norm_fentry fst snd files_set]. destruct (path_eqb q p); [reflexivity|].
  cbn [map norm_fentry fst snd]. rewrite IH. reflexivity.
Qed.

Lemma subs_set_map_norm : forall l k o,
  subs_set (map norm_sentry l) k (Some (norm_op o)) = map norm_sentry (subs_set l k (Some o)).
Proof.
  induction l as [|[q o'] l IH]; intros k o; [reflexivity|].
  cbn [map norm_sentry fst snd subs_set]. destruct (py_eq q k); [reflexivity|].
  cbn [map norm_sentry fst snd]. rewrite IH. reflexivity.
Qed.

Theorem files_get_map_norm : forall l p,
  files_get (map norm_fentry l) p = option_map (option_map norm_op) (files_get l p).
Proof.
  induction l as [|[q o] l IH]; intro p; [reflexivity|].
  cbn [map norm_fentry fst snd files_get]. destruct (path_eqb q p); [reflexivity | apply IH].
Qed.

Theorem subs_get_map_norm : forall l k,
  subs_get (map norm_sentry l) k = option_map (option_map norm_op) (subs_get l k).
Proof.
  induction l as [|[q o] l IH]; intro k; [reflexivity|].
  cbn [map norm_sentry fst snd subs_get]. destruct (py_eq q k); [reflexivity | apply IH].
Qed.

(* two caches whose tables are related by normalisation of the records *)
Definition ntab (c1 c2 : cache) : Prop :=
  c_files c1 = map norm_fentry (c_files c2) /\ c_subs c1 = map norm_sentry (c_subs c2).

Lemma fold_register_parsed_norm : forall subs,
  Forall (fun o => op_wf o = true -> forall c1 c2, ntab c1 c2 ->
                   ntab (register_parsed c1 (norm_op o)) (register_parsed c2 o)) subs ->
  forallb op_wf subs = true ->
  forall c1 c2, ntab c1 c2 ->
  ntab (fold_left register_parsed (map norm_op subs) c1) (fold_left register_parsed subs c2).
Proof.
  intros subs HF. induction HF as [|s rest Hs HF IH]; intros Hwf c1 c2 Hn; [exact Hn|].
  cbn [forallb] in Hwf. apply andb_true_iff in Hwf. destruct Hwf as [W1 W2].
  cbn [map fold_left]. apply IH; [exact W2|]. apply Hs; assumption.
Qed.

Theorem register_parsed_norm : forall o, op_wf o = true -> forall c1 c2, ntab c1 c2 ->
  ntab (register_parsed c1 (norm_op o)) (register_parsed c2 o).
Proof.
  induction o as [q r e | p c0 f a k subs r cr ra sf IH | f a k subs r ra sf IH] using op_ind';
    intros Hwf c1 c2 Hn.
  - exact Hn.
  - rewrite op_wf_build_eq in Hwf. split_andb Hwf.
    cbn [norm_op register_parsed].
    pose proof (fold_register_parsed_norm subs IH Hwf0 c1 c2 Hn) as [G1 G2].
    destruct sf; [split; assumption|].
    unfold ntab. cbn [cache_with c_files c_subs]. split; [|exact G2].
    rewrite G1.
    exact (files_set_map_norm _ p (OBuildFile p c0 f a k subs r cr ra false)).
  - rewrite op_wf_sub_eq in Hwf. split_andb Hwf.
    cbn [norm_op register_parsed].
    pose proof (fold_register_parsed_norm subs IH Hwf0 c1 c2 Hn) as [G1 G2].
    destruct sf; [split; assumption|].
    unfold ntab. cbn [cache_with c_files c_subs]. split; [exact G1|].
    rewrite G2, (subbuild_key_norm f a k Hwf Hwf2).
    exact (subs_set_map_norm _ _ (OSubbuild f a k subs r ra false)).
Qed.

(* the tables of the normalised forest *)
Theorem tables_of_norm : forall nm fv dirs nm' fv' dirs' roots, forallb op_wf roots = true ->
  c_files (tables_of nm fv dirs (map norm_op roots)) = map norm_fentry (c_files (tables_of nm' fv' dirs' roots)) /\
  c_subs (tables_of nm fv dirs (map norm_op roots)) = map norm_sentry (c_subs (tables_of nm' fv' dirs' roots)).
Proof.
  intros nm fv dirs nm' fv' dirs' roots Hwf. unfold tables_of.
  apply (fold_register_parsed_norm roots); [| exact Hwf | split; reflexivity].
  apply Forall_forall. intros o _. apply register_parsed_norm.
Qed.

(* ================================================================== *)
(** * 3. The tables that come back                                      *)
(* ================================================================== *)

(* unconditionally: the tables read back are the tables of the forest of the
   written cache, record by record normalised, under literally the same keys *)
Theorem read_back_tables : forall c roots, forallb op_wf roots = true ->
  let d := tables_of (c_name c) (c_fvers c) (c_dirs c) roots in
  c_files (read_back c roots) = map norm_fentry (c_files d) /\
  c_subs (read_back c roots) = map norm_sentry (c_subs d).
Proof. intros c roots Hwf. unfold read_back. apply tables_of_norm. exact Hwf. Qed.

(* entry by entry, by lookup, when the tables of the written cache are those of
   its forest *)
Theorem read_back_lookup : forall c roots, forallb op_wf roots = true -> tables_from_forest c roots ->
  (forall p, files_get (c_files (read_back c roots)) p = option_map (option_map norm_op) (files_get (c_files c) p)) /\
  (forall p, cache_get_file (read_back c roots) p = option_map norm_op (cache_get_file c p)) /\
  (forall p, cache_has_file (read_back c roots) p = cache_has_file c p) /\
  (forall k, subs_get (c_subs (read_back c roots)) k = option_map (option_map norm_op) (subs_get (c_subs c) k)) /\
  (forall k, cache_has_subbuild (read_back c roots) k = cache_has_subbuild c k).
Proof.
  intros c roots Hwf [HF HS]. destruct (read_back_tables c roots Hwf) as [TF TS]. cbv zeta in *.
  assert (A : forall p, files_get (c_files (read_back c roots)) p =
                        option_map (option_map norm_op) (files_get (c_files c) p)).
  { intro p. rewrite TF, files_get_map_norm, <- HF. reflexivity. }
  assert (B : forall k, subs_get (c_subs (read_back c roots)) k =
                        option_map (option_map norm_op) (subs_get (c_subs c) k)).
  { intro k. rewrite TS, subs_get_map_norm, <- HS. reflexivity. }
  repeat split; auto.
  - intro p. unfold cache_get_file. rewrite A. destruct (files_get (c_files c) p) as [[o|]|]; reflexivity.
  - intro p. unfold cache_has_file. rewrite A. destruct (files_get (c_files c) p) as [[o|]|]; reflexivity.
  - intro k. unfold cache_has_subbuild. rewrite B. destruct (subs_get (c_subs c) k) as [[o|]|]; reflexivity.
Qed.

(* the same as lists: the entries of the tables read back are the entries of the
   written tables, normalised, in some order *)
Theorem read_back_perm : forall c roots, forallb op_wf roots = true -> tables_perm_forest c roots ->
  Permutation (c_files (read_back c roots)) (map norm_fentry (c_files c)) /\
  Permutation (c_subs (read_back c roots)) (map norm_sentry (c_subs c)).
Proof.
  intros c roots Hwf [HF HS]. destruct (read_back_tables c roots Hwf) as [TF TS]. cbv zeta in *.
  rewrite TF, TS. split; apply Permutation_map; apply Permutation_sym; assumption.
Qed.

(* created files (the order of the file table aside) and created directories *)
Theorem read_back_created_file : forall c roots, forallb op_wf roots = true -> tables_from_forest c roots ->
  forall p, cache_created_file (read_back c roots) p = cache_created_file c p.
Proof.
  intros c roots Hwf Ht p. destruct (read_back_lookup c roots Hwf Ht) as (_ & B & _).
  unfold cache_created_file. rewrite B. destruct (cache_get_file c p) as [o|]; [|reflexivity].
  cbn [option_map]. destruct o; reflexivity.
Qed.

(* ================================================================== *)
(** * 4. The forest                                                     *)
(* ================================================================== *)

Theorem forest_equivalent : forall roots, forallb op_wf roots = true ->
  all2 op_equiv roots (map norm_op roots) = true.
Proof.
  intros roots H. apply all2_map_self_gen. intros o Ho. rewrite forallb_forall in H.
  apply norm_op_equiv. apply H. exact Ho.
Qed.

Theorem forest_normal : forall roots, forallb op_wf roots = true ->
  map norm_op (map norm_op roots) = map norm_op roots /\ forallb op_wf (map norm_op roots) = true.
Proof.
  intros roots H. rewrite forallb_forall in H. split.
  - rewrite map_map. apply map_ext_in. intros o Ho. apply norm_op_idem. apply H. exact Ho.
  - apply forallb_forall. intros x Hx. apply in_map_iff in Hx. destruct Hx as [o [<- Ho]].
    apply norm_op_wf. apply H. exact Ho.
Qed.
