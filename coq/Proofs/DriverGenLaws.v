(* Proofs/DriverGenLaws.v — the definitions regenerated from file_backups.py and the build driver of
   file_builder.py (Gen/DriverGen.v, written by tools/translate/driver_tr.py) equal the hand-written
   routines of Model/Builder.v and Model/Build.v that the rest of the development uses.

   One lemma per generated routine, [forall args w, gen_X args w = <model routine> args w] (pointwise in
   the world: no functional extensionality).  Where the generated shape differs from the model's, the
   lemma states the relation that holds:
   - loops: [gen_.._loop<i>] are the model's [mapM_ ..] / local fixes, accumulators threaded
     (statements next to each lemma);
   - _dirs_to_make is a `while` loop with the accumulator `parents` (innermost first, reversed at the
     end), the model a recursion that appends on the way back: [gen_fb_dirs_to_make_loop1_eq];
   - fuel: _make_room receives it, the model's prepare_file_creation supplies [room_fuel];
   - set(l): a list that comes from a set has kind `pathset` and set(..) of it is the list itself
     (table CALLS of the translator); that this is the same as deduplicating a duplicate-free list is
     [set_of_paths_nodup];
   - FileBuilder.build_versioned / clean return values or raise, m_build / m_clean return a
     [build_result]: [res_of] maps one to the other; build_versioned includes `with FileBackups()`,
     which is [end_build] of Model/Build.v (applied by Run.run_build): [gen_fb_build_versioned_eq],
     [gen_fb_build_versioned_run_build];
   - _build takes the name of the cache file as a parameter and writes the cache there; the model's
     write_cache writes to [w_cachefile] of the world the root function left: equal when the root
     function does not change that field ([keeps_cachefile], which Run.run satisfies):
     the only hypothesis of [gen_fb_priv_build_eq] and of the lemmas above it.
   Imports Base, Model, Gen/{ExecGen,DriverGen} and the footprint toolkit of Proofs/ReplayLaws. *)
From Coq Require Import List String NArith ZArith Bool Arith Lia.
From FB.Base Require Import PyVal Fs.
From FB.Gen Require Import JsonUtilGen ExecGen DriverGen.
From FB.Model Require Import Types Monad CreatedFiles BuildDirs SimpleOps Builder Persist Build Run.
From FB.Proofs Require Import ReplayLaws.
Import ListNotations.
Open Scope list_scope.
Open Scope m_scope.

(* ---- the monad, pointwise (no functional extensionality) ---- *)
Lemma dg_bind_cong : forall {A B} (m1 m2 : M A) (f1 f2 : A -> M B),
  (forall w, m1 w = m2 w) -> (forall a w, f1 a w = f2 a w) -> forall w, bind m1 f1 w = bind m2 f2 w.
Proof.
  intros A B m1 m2 f1 f2 H1 H2 w. unfold bind. rewrite H1.
  destruct (m2 w) as [w' [a|e]]; [apply H2|reflexivity].
Qed.

Lemma dg_catch_cong : forall {A} (m1 m2 : M A) (h1 h2 : exn -> M A),
  (forall w, m1 w = m2 w) -> (forall e w, h1 e w = h2 e w) -> forall w, catch m1 h1 w = catch m2 h2 w.
Proof.
  intros A m1 m2 h1 h2 H1 H2 w. unfold catch. rewrite H1.
  destruct (m2 w) as [w' [a|e]]; [reflexivity|apply H2].
Qed.

Lemma dg_attempt_cong : forall {A} (m1 m2 : M A), (forall w, m1 w = m2 w) -> forall w, attempt m1 w = attempt m2 w.
Proof. intros A m1 m2 H w. unfold attempt. rewrite H. reflexivity. Qed.

Lemma dg_bind_assoc : forall {A B C} (m : M A) (f : A -> M B) (g : B -> M C) w,
  bind (bind m f) g w = bind m (fun a => bind (f a) g) w.
Proof. intros. unfold bind. destruct (m w) as [w' [a|e]]; reflexivity. Qed.

Lemma dg_bind_ret_r : forall {A} (m : M A) w, bind m (fun a => ret a) w = m w.
Proof. intros. unfold bind, ret. destruct (m w) as [w' [a|e]]; reflexivity. Qed.

Lemma dg_bind_tt : forall (m : M unit) w, bind m (fun _ => ret tt) w = m w.
Proof. intros. unfold bind, ret. destruct (m w) as [w' [[]|e]]; reflexivity. Qed.

Lemma dg_bind_ret_l : forall {A B} (a : A) (f : A -> M B) w, bind (ret a) f w = f a w.
Proof. reflexivity. Qed.

Lemma dg_bind_get : forall {B} (f : world -> M B) w, bind get f w = f w w.
Proof. reflexivity. Qed.

(* `try: m except C: h` followed by k, as the translator writes it, is a catch when nothing follows *)
Lemma dg_attempt_catch : forall {A} (m : M A) (h : exn -> M A) w,
  (r <- attempt m ;; match r with inl a => ret a | inr e => h e end) w = catch m h w.
Proof. intros. unfold bind, attempt, catch, ret. destruct (m w) as [w' [a|e]]; reflexivity. Qed.

Lemma dg_finally_ret : forall {A} (m : M A) w, finally m (ret tt) w = m w.
Proof. intros. unfold finally, ret. destruct (m w) as [w' r]. reflexivity. Qed.

(* ================= sets and sorting ================= *)

Lemma set_update_union : forall s l, set_update s l = union_paths s l.
Proof. reflexivity. Qed.

Lemma set_of_paths_union : forall l, set_of_paths l = union_paths [] l.
Proof. reflexivity. Qed.

Lemma path_eqb_refl : forall p, path_eqb p p = true.
Proof. induction p as [|x p IH]; cbn; [reflexivity|]. rewrite String.eqb_refl, IH. reflexivity. Qed.

Lemma path_eqb_eq : forall p q, path_eqb p q = true -> p = q.
Proof.
  induction p as [|x p IH]; destruct q as [|y q]; cbn; intro H; try discriminate; [reflexivity|].
  apply andb_true_iff in H. destruct H as [H1 H2]. apply String.eqb_eq in H1. rewrite H1, (IH q H2). reflexivity.
Qed.

Lemma mem_path_app : forall p a b, mem_path p (a ++ b) = mem_path p a || mem_path p b.
Proof. induction a as [|x a IH]; intro b; cbn; [reflexivity|]. rewrite IH, orb_assoc. reflexivity. Qed.

Lemma mem_path_add : forall p q l, mem_path p (add_path q l) = mem_path p l || path_eqb q p.
Proof.
  intros p q l. unfold add_path. destruct (mem_path q l) eqn:E.
  - destruct (path_eqb q p) eqn:F; [|rewrite orb_false_r; reflexivity].
    apply path_eqb_eq in F. subst. rewrite E. reflexivity.
  - rewrite mem_path_app. cbn. rewrite orb_false_r. reflexivity.
Qed.

Lemma mem_path_set_update : forall p l s, mem_path p (set_update s l) = mem_path p s || mem_path p l.
Proof.
  intros p. unfold set_update. induction l as [|x l IH]; intro s; cbn; [rewrite orb_false_r; reflexivity|].
  rewrite IH, mem_path_add, orb_assoc. reflexivity.
Qed.

(* membership in set(l) is membership in l *)
Lemma mem_path_set_of_paths : forall p l, mem_path p (set_of_paths l) = mem_path p l.
Proof. intros. unfold set_of_paths. apply (mem_path_set_update p l []). Qed.

(* a list without repetitions is its own set: the reading of the kind `pathset` *)
Fixpoint nodup_paths (l : list path) : bool :=
  match l with [] => true | x :: r => negb (mem_path x r) && nodup_paths r end.

Lemma set_update_nodup : forall l s, nodup_paths l = true -> (forall x, mem_path x l = true -> mem_path x s = false) ->
  set_update s l = s ++ l.
Proof.
  unfold set_update. induction l as [|x l IH]; intros s H Hs; cbn; [rewrite app_nil_r; reflexivity|].
  cbn in H. apply andb_true_iff in H. destruct H as [H1 H2]. apply negb_true_iff in H1.
  unfold add_path at 2. rewrite (Hs x) by (cbn; rewrite path_eqb_refl; reflexivity).
  rewrite IH; [rewrite <- app_assoc; reflexivity|exact H2|].
  intros y Hy. rewrite mem_path_app. cbn. rewrite orb_false_r.
  rewrite (Hs y) by (cbn; rewrite Hy; apply orb_true_r). cbn.
  destruct (path_eqb x y) eqn:E; [|reflexivity]. apply path_eqb_eq in E. subst. congruence.
Qed.

Lemma set_of_paths_nodup : forall l, nodup_paths l = true -> set_of_paths l = l.
Proof. intros l H. unfold set_of_paths. apply (set_update_nodup l [] H). reflexivity. Qed.

(* .. and only such a list: set([p, p]) = {p} *)
Example set_of_paths_dup : forall p, set_of_paths [p; p] = [p].
Proof. intro p. unfold set_of_paths. cbn [fold_left]. unfold add_path. cbn [mem_path app]. rewrite path_eqb_refl. reflexivity. Qed.

Lemma insert_by_ext : forall {A} (f g : A -> A -> bool), (forall a b, f a b = g a b) ->
  forall x l, insert_by f x l = insert_by g x l.
Proof. intros A f g H x. induction l as [|y l IH]; cbn; [reflexivity|]. rewrite H, IH. reflexivity. Qed.

Lemma sort_by_ext : forall {A} (f g : A -> A -> bool), (forall a b, f a b = g a b) ->
  forall l, sort_by f l = sort_by g l.
Proof.
  intros A f g H. unfold sort_by. induction l as [|y l IH]; cbn; [reflexivity|].
  rewrite IH. apply insert_by_ext. exact H.
Qed.

(* sorted(dirs, key=lambda d: -len(d)) / key=len *)
Lemma gen_sort_longest_first_eq : forall l,
  sort_by (fun a_ b_ => Z.leb (Z.opp (Z.of_nat (plen a_))) (Z.opp (Z.of_nat (plen b_)))) l = sort_longest_first l.
Proof.
  intro l. unfold sort_longest_first. apply sort_by_ext. intros a b.
  destruct (Nat.leb (plen b) (plen a)) eqn:E.
  - apply Nat.leb_le in E. apply Z.leb_le. lia.
  - apply Nat.leb_gt in E. apply Z.leb_gt. lia.
Qed.

Lemma gen_sort_shortest_first_eq : forall l,
  sort_by (fun a_ b_ => Z.leb (Z.of_nat (plen a_)) (Z.of_nat (plen b_))) l = sort_shortest_first l.
Proof.
  intro l. unfold sort_shortest_first. apply sort_by_ext. intros a b.
  destruct (Nat.leb (plen a) (plen b)) eqn:E.
  - apply Nat.leb_le in E. apply Z.leb_le. lia.
  - apply Nat.leb_gt in E. apply Z.leb_gt. lia.
Qed.

(* ================= FileBackups ================= *)

Lemma gen_bk_back_up_and_remove_eq : forall p w, gen_bk_back_up_and_remove p w = back_up_and_remove p w.
Proof.
  intros p w. unfold gen_bk_back_up_and_remove, back_up_and_remove, m_makedirs_tmp.
  apply dg_bind_cong; [reflexivity|]. intros _ w1.
  unfold bind, attempt, m_rename_out, bk_append, modify, ret, raise. cbv zeta.
  destruct (existsb (Nat.eqb (w_effects w1)) (w_faults w1)); [reflexivity|].
  destruct (rename_out (w_fs (set_effects (S (w_effects w1)) w1)) p) as [[fs' [f|]]|e]; try reflexivity.
  destruct e; reflexivity.
Qed.

Lemma gen_bk_restore_all_loop1_eq : forall l w, gen_bk_restore_all_loop1 l w = mapM_ restore_one l w.
Proof.
  induction l as [|[p f] l IH]; intro w; cbn [gen_bk_restore_all_loop1 mapM_]; [reflexivity|].
  unfold restore_one. rewrite dg_bind_assoc, !dg_bind_get.
  destruct (isdir (w_fs w) p); [rewrite dg_bind_ret_l; apply IH|].
  unfold bind, attempt, catch, m_makedirs_p, m_replace, ret, raise.
  destruct (effect_p "makedirs" (dirname p) (fun fs => makedirs_p fs (dirname p)) w) as [w1 [[]|e]].
  - destruct (effect "replace" p (fun fs => replace_in fs p f) w1) as [w2 [[]|e]]; [apply IH|].
    destruct (is_os e); [apply IH|reflexivity].
  - destruct (is_os e); [apply IH|reflexivity].
Qed.

Lemma gen_bk_restore_all_eq : forall w, gen_bk_restore_all w = restore_all w.
Proof.
  intro w. unfold gen_bk_restore_all, restore_all. rewrite !dg_bind_get. cbv zeta.
  unfold bind at 1 3. unfold modify, put. rewrite dg_bind_tt. apply gen_bk_restore_all_loop1_eq.
Qed.

(* FileBackups() + __enter__: nothing is backed up and the new temporary directory is empty;
   __exit__: the temporary directory is deleted = [end_build] *)
Lemma gen_bk_init_enter_eq : forall w,
  (gen_bk_init ;;; gen_bk_enter) w = (set_lost [] (set_backups [] w), inl tt).
Proof. reflexivity. Qed.

Lemma gen_bk_exit_eq : forall w, gen_bk_exit w = (end_build w, inl tt).
Proof. reflexivity. Qed.

(* FileBuilder.__init__ stores the two caches and the BuildDirs (the executor and the backups are the world
   itself, `_operation` is threaded explicitly, `_is_finished_build` / `_lock` have no field) *)
Lemma gen_fb_init_eq : forall o old new bd w,
  gen_fb_init o old new bd w = (set_bd bd (set_new new (set_old old w)), inl tt).
Proof. reflexivity. Qed.

(* the three constructors build_versioned runs, in its order, produce [start_world] of Model/Build.v *)
Lemma gen_fb_constructors_start_world : forall cf nm sv old w,
  let new := empty_cache nm sv in
  let bd := bd_init (c_dirs old) (cache_created_files old ++ [cf]) in
  (modify (gen_ex_init cf old new bd) ;;; gen_bk_init ;;; gen_bk_enter ;;; gen_fb_init None old new bd) w
  = (start_world w cf old nm sv, inl tt).
Proof. reflexivity. Qed.

(* ================= small helpers ================= *)

Lemma gen_fb_try_to_remove_file_eq : forall p w, gen_fb_try_to_remove_file p w = try_to_remove_file p w.
Proof.
  intros p w. unfold gen_fb_try_to_remove_file, try_to_remove_file. rewrite !dg_bind_get.
  destruct (isfile (w_fs w) p); [|reflexivity].
  unfold bind, attempt, catch, m_remove, ret, raise.
  destruct (effect "remove" p (fun fs => remove fs p) w) as [w1 [[]|e]]; [reflexivity|].
  destruct (is_os e); reflexivity.
Qed.

Lemma gen_fb_remove_empty_dirs_loop1_eq : forall l w,
  gen_fb_remove_empty_dirs_loop1 l w
  = mapM_ (fun d => catch (effect "rmdir" d (fun fs => rmdir fs d)) (fun e => if is_os e then ret tt else raise e)) l w.
Proof.
  induction l as [|d l IH]; intro w; cbn [gen_fb_remove_empty_dirs_loop1 mapM_]; [reflexivity|].
  unfold bind, attempt, catch, m_rmdir, ret, raise.
  destruct (effect "rmdir" d (fun fs => rmdir fs d) w) as [w1 [[]|e]]; [apply IH|].
  destruct (is_os e); [apply IH|reflexivity].
Qed.

Lemma gen_fb_remove_empty_dirs_eq : forall l w, gen_fb_remove_empty_dirs l w = remove_empty_dirs l w.
Proof.
  intros l w. unfold gen_fb_remove_empty_dirs, remove_empty_dirs. cbv zeta.
  rewrite dg_bind_tt, gen_sort_longest_first_eq. apply gen_fb_remove_empty_dirs_loop1_eq.
Qed.

Lemma gen_fb_create_dirs_loop1_eq : forall l w,
  gen_fb_create_dirs_loop1 l w
  = mapM_ (fun d => catch (effect "mkdir" d (fun fs => mkdir fs d)) (fun e => if is_os e then ret tt else raise e)) l w.
Proof.
  induction l as [|d l IH]; intro w; cbn [gen_fb_create_dirs_loop1 mapM_]; [reflexivity|].
  unfold bind, attempt, catch, m_mkdir, ret, raise.
  destruct (effect "mkdir" d (fun fs => mkdir fs d) w) as [w1 [[]|e]]; [apply IH|].
  destruct (is_os e); [apply IH|reflexivity].
Qed.

Lemma gen_fb_create_dirs_eq : forall l w, gen_fb_create_dirs l w = create_dirs l w.
Proof.
  intros l w. unfold gen_fb_create_dirs, create_dirs. cbv zeta.
  rewrite dg_bind_tt, gen_sort_shortest_first_eq. apply gen_fb_create_dirs_loop1_eq.
Qed.

(* POSIX: _IS_WINDOWS is false, so _has_case is True and _ensure_dir[s]_case do nothing (the model has no
   counterpart: set_created_dirs skips the call) *)
Lemma gen_fb_has_case_eq : forall p w, gen_fb_has_case p w = (w, inl true).
Proof. reflexivity. Qed.
Lemma gen_fb_ensure_dir_case_eq : forall d w, gen_fb_ensure_dir_case d w = (w, inl tt).
Proof. reflexivity. Qed.
Lemma gen_fb_ensure_dirs_case_eq : forall l w, gen_fb_ensure_dirs_case l w = (w, inl tt).
Proof.
  intros l w. unfold gen_fb_ensure_dirs_case. rewrite dg_bind_tt.
  induction l as [|d l IH]; cbn [gen_fb_ensure_dirs_case_loop1]; [reflexivity|]. exact IH.
Qed.

(* ================= _dirs_to_make ================= *)

Lemma dirs_to_make_unfold : forall parent cf w,
  dirs_to_make parent cf w
  = (isd <- m_is_dir parent cf ;;
     isf <- (if isd then ret false else m_is_file parent cf) ;;
     if isf then raise (XOS XNotADirectory) else
     if isd then ret [] else
     icf <- is_cache_file parent ;;
     if icf then raise (XOS XNotADirectory) else
     match parent with
     | [] => raise (XOS XFileNotFound)
     | _ :: d => r <- dirs_to_make d cf ;; ret (r ++ [parent])
     end) w.
Proof. intros [|x d] cf w; reflexivity. Qed.

Lemma gen_fb_dirs_to_make_loop1_unfold : forall dir_ cf parent parents is_dir is_file w,
  gen_fb_dirs_to_make_loop1 dir_ cf parent parents is_dir is_file w
  = (if andb (negb is_file) (negb is_dir) then
       r1_ <- is_cache_file parent ;;
       if r1_ then raise (XOS XNotADirectory) else
       match parent with
       | [] => raise (XOS XFileNotFound)
       | _ :: parent' =>
           is_dir <- m_is_dir parent' cf ;;
           is_file <- (if negb is_dir then m_is_file parent' cf else ret false) ;;
           gen_fb_dirs_to_make_loop1 dir_ cf parent' (parents ++ [parent]) is_dir is_file
       end
     else ret (parents, parent, is_dir, is_file)) w.
Proof. intros dir_ cf [|x d] parents isd isf w; reflexivity. Qed.

(* what follows the loop in _dirs_to_make *)
Definition dtm_after (x : list path * path * bool * bool) : M (list path) :=
  let '(parents, parent, is_dir, is_file) := x in
  if is_file then raise (XOS XNotADirectory) else ret (rev parents).

(* the `while` loop collects the missing directories innermost first in `parents`; the model's recursion
   returns them outermost first *)
Lemma gen_fb_dirs_to_make_loop1_eq : forall dir_ cf parent parents w,
  (isd <- m_is_dir parent cf ;;
   isf <- (if negb isd then m_is_file parent cf else ret false) ;;
   x <- gen_fb_dirs_to_make_loop1 dir_ cf parent parents isd isf ;; dtm_after x) w
  = (r <- dirs_to_make parent cf ;; ret (r ++ rev parents)) w.
Proof.
  intros dir_ cf. induction parent as [|a d IH]; intros parents w.
  - rewrite (dg_bind_cong _ _ _ _ (dirs_to_make_unfold [] cf) (fun _ _ => eq_refl)).
    rewrite dg_bind_assoc. apply dg_bind_cong; [reflexivity|]. intros [|] w1; cbn [negb].
    + rewrite !dg_bind_ret_l. reflexivity.
    + rewrite dg_bind_assoc. apply dg_bind_cong; [reflexivity|]. intros [|] w2.
      * unfold bind at 1. rewrite gen_fb_dirs_to_make_loop1_unfold. reflexivity.
      * unfold bind at 1. rewrite gen_fb_dirs_to_make_loop1_unfold. cbn [negb andb].
        unfold is_cache_file, bind, raise. destruct (path_eqb [] (w_cachefile w2)); reflexivity.
  - rewrite (dg_bind_cong _ _ _ _ (dirs_to_make_unfold (a :: d) cf) (fun _ _ => eq_refl)).
    rewrite dg_bind_assoc. apply dg_bind_cong; [reflexivity|]. intros [|] w1; cbn [negb].
    + rewrite !dg_bind_ret_l. reflexivity.
    + rewrite dg_bind_assoc. apply dg_bind_cong; [reflexivity|]. intros [|] w2.
      * unfold bind at 1. rewrite gen_fb_dirs_to_make_loop1_unfold. reflexivity.
      * rewrite (dg_bind_cong _ _ _ _ (gen_fb_dirs_to_make_loop1_unfold dir_ cf (a :: d) parents false false)
                                (fun _ _ => eq_refl)).
        cbn [negb andb]. rewrite !dg_bind_assoc. apply dg_bind_cong; [reflexivity|]. intros [|] w3; [reflexivity|].
        transitivity ((isd <- m_is_dir d cf ;;
                       isf <- (if negb isd then m_is_file d cf else ret false) ;;
                       x <- gen_fb_dirs_to_make_loop1 dir_ cf d (parents ++ [a :: d]) isd isf ;; dtm_after x) w3).
        { rewrite dg_bind_assoc. apply dg_bind_cong; [reflexivity|]. intros isd w4. apply dg_bind_assoc. }
        rewrite (IH (parents ++ [a :: d]) w3). rewrite dg_bind_assoc.
        apply dg_bind_cong; [reflexivity|]. intros r w4. rewrite dg_bind_ret_l.
        rewrite rev_app_distr. cbn [rev app]. rewrite <- app_assoc. reflexivity.
Qed.

Lemma gen_fb_dirs_to_make_eq : forall d cf w, gen_fb_dirs_to_make d cf w = dirs_to_make d cf w.
Proof.
  intros d cf w. unfold gen_fb_dirs_to_make. cbv zeta.
  transitivity ((r <- dirs_to_make d cf ;; ret (r ++ rev [])) w).
  - rewrite <- gen_fb_dirs_to_make_loop1_eq with (dir_ := d).
    apply dg_bind_cong; [reflexivity|]. intros isd w1. apply dg_bind_cong; [reflexivity|]. intros isf w2.
    apply dg_bind_cong; [reflexivity|]. intros [[[ps p] i] f] w3. reflexivity.
  - cbn [rev]. rewrite <- (dg_bind_ret_r (dirs_to_make d cf) w).
    apply dg_bind_cong; [reflexivity|]. intros r w1. rewrite app_nil_r. reflexivity.
Qed.

(* ================= _make_dirs ================= *)

(* the loop returns the list `made_dirs`, which nothing reads afterwards; the model's loop returns nothing *)
Lemma gen_fb_make_dirs_loop1_eq : forall ds made w,
  match gen_fb_make_dirs_loop1 ds made w with
  | (w', inl _) => (w', inl tt)
  | (w', inr e) => (w', inr e)
  end = make_dirs_loop ds made w.
Proof.
  induction ds as [|d ds IH]; intros made w; cbn [gen_fb_make_dirs_loop1 make_dirs_loop]; [reflexivity|].
  unfold make_one_dir, m_mkdir. unfold bind, attempt, catch, get, ret, raise.
  destruct (isfile (w_fs w) d && cache_created_file (w_old w) d).
  - rewrite gen_bk_back_up_and_remove_eq. destruct (back_up_and_remove d w) as [w1 [b|e]].
    + destruct (effect "mkdir" d (fun fs => mkdir fs d) w1) as [w2 [[]|e]]; [apply IH|].
      destruct (is_os_class XFileExists e); [apply IH|].
      destruct (is_os e); [|reflexivity].
      rewrite gen_fb_remove_empty_dirs_eq. destruct (remove_empty_dirs made w2) as [w3 [[]|e']]; reflexivity.
    + destruct (is_os e); [|reflexivity].
      rewrite gen_fb_remove_empty_dirs_eq. destruct (remove_empty_dirs made w1) as [w3 [[]|e']]; reflexivity.
  - destruct (effect "mkdir" d (fun fs => mkdir fs d) w) as [w2 [[]|e]]; [apply IH|].
    destruct (is_os_class XFileExists e); [apply IH|].
    destruct (is_os e); [|reflexivity].
    rewrite gen_fb_remove_empty_dirs_eq. destruct (remove_empty_dirs made w2) as [w3 [[]|e']]; reflexivity.
Qed.

Lemma gen_fb_make_dirs_eq : forall d w, gen_fb_make_dirs d w = make_dirs d w.
Proof.
  intros d w. unfold gen_fb_make_dirs, make_dirs. cbv zeta.
  apply dg_bind_cong; [apply gen_fb_dirs_to_make_eq|]. intros ds w1.
  unfold bind. rewrite <- gen_fb_make_dirs_loop1_eq.
  destruct (gen_fb_make_dirs_loop1 ds [] w1) as [w2 [m|e]]; reflexivity.
Qed.

(* ================= _make_room, _prepare_file_creation ================= *)

(* the loop over os.listdir(dir_); the recursive call is the parameter [self_rec] *)
Lemma gen_fb_make_room_loop1_eq : forall fuel' d mf rec,
  (forall d' mf' w, rec d' mf' w = make_room fuel' d' w) ->
  forall names w,
  gen_fb_make_room_loop1 rec d mf names w
  = mapM_ (fun n =>
             let a := n :: d in
             w' <- get ;;
             if isdir (w_fs w') a then
               vd <- m_is_dir a None ;;
               if vd then raise (XOS XIsADirectory) else make_room fuel' a
             else
               vf <- m_is_file a None ;;
               if vf then raise (XOS XIsADirectory) else
               b <- back_up_and_remove a ;; ret tt) names w.
Proof.
  intros fuel' d mf rec Hrec. induction names as [|n names IH]; intro w; cbn [gen_fb_make_room_loop1 mapM_]; [reflexivity|].
  cbv zeta. rewrite dg_bind_assoc, !dg_bind_get. destruct (isdir (w_fs w) (n :: d)).
  - rewrite dg_bind_assoc. apply dg_bind_cong; [reflexivity|]. intros [|] w1; [reflexivity|].
    apply dg_bind_cong; [apply Hrec|]. intros _ w2. apply IH.
  - rewrite dg_bind_assoc. apply dg_bind_cong; [reflexivity|]. intros [|] w1; [reflexivity|].
    rewrite dg_bind_assoc. apply dg_bind_cong; [apply gen_bk_back_up_and_remove_eq|]. intros b w2.
    rewrite dg_bind_ret_l. apply IH.
Qed.

Lemma gen_fb_make_room_eq : forall fuel d mf w, gen_fb_make_room fuel d mf w = make_room fuel d w.
Proof.
  induction fuel as [|fuel' IH]; intros d mf w; [reflexivity|].
  cbn [gen_fb_make_room make_room]. rewrite dg_bind_get.
  unfold bind at 1. unfold m_listdir. destruct (listdir (w_fs w) d) as [names|e]; [|reflexivity].
  apply dg_bind_cong; [apply gen_fb_make_room_loop1_eq; intros; apply IH|]. intros _ w1.
  unfold bind, attempt, catch, m_rmdir, ret, raise.
  destruct (effect "rmdir" d (fun fs => rmdir fs d) w1) as [w2 [[]|e]]; [reflexivity|].
  destruct (is_os e); reflexivity.
Qed.

(* the model supplies the recursion budget itself; `self._operation.filename` is the parameter *)
Lemma gen_fb_prepare_file_creation_eq : forall p w,
  gen_fb_prepare_file_creation room_fuel p w = prepare_file_creation p w.
Proof.
  intros p w. unfold gen_fb_prepare_file_creation, prepare_file_creation. cbv zeta. rewrite !dg_bind_get.
  destruct (isdir (w_fs w) p).
  - rewrite dg_bind_assoc. apply dg_bind_cong; [reflexivity|]. intros [|] w1; [reflexivity|].
    apply dg_bind_cong; [apply gen_fb_make_room_eq|]. intros _ w2. apply gen_fb_make_dirs_eq.
  - rewrite dg_bind_ret_l. apply gen_fb_make_dirs_eq.
Qed.

(* ================= footprints: w_old and w_cachefile are not written by the driver ================= *)

Definition keeps_old_cf (w w' : world) : Prop := w_old w' = w_old w /\ w_cachefile w' = w_cachefile w.
Lemma keeps_old_cf_refl : forall w, keeps_old_cf w w.
Proof. intro w. split; reflexivity. Qed.
Lemma keeps_old_cf_trans : forall a b c, keeps_old_cf a b -> keeps_old_cf b c -> keeps_old_cf a c.
Proof. unfold keeps_old_cf. intros a b c [A1 A2] [B1 B2]. split; congruence. Qed.
Definition okPO : PO := {| rel := keeps_old_cf; po_refl := keeps_old_cf_refl; po_trans := keeps_old_cf_trans |}.

Lemma new_ok : forall w w', newPO w w' -> okPO w w'.
Proof. cbn. unfold new_same, keeps_old_cf. intros w w' (_ & H1 & H2). split; assumption. Qed.
Lemma svb_ok : forall w w', svbPO w w' -> okPO w w'.
Proof. intros w w' H. apply new_ok, svb_new, H. Qed.

(* what follows a computation may rely on what the computation preserves *)
Lemma dg_bind_frame : forall (P : PO) {A B} (m : M A) (k1 k2 : A -> M B) w,
  pres P m -> (forall w', P w w' -> forall a, k1 a w' = k2 a w') -> bind m k1 w = bind m k2 w.
Proof.
  intros P A B m k1 k2 w Hm Hk. unfold bind. destruct (m w) as [w' [a|e]] eqn:E; [|reflexivity].
  apply Hk. eapply Hm. exact E.
Qed.

Lemma create_dirs_new : forall ds, pres newPO (create_dirs ds).
Proof.
  intro ds. unfold create_dirs. apply pres_mapM_. intro d. apply pres_catch; [apply effect_new|].
  intro e. destruct (is_os e); [apply pres_ret|apply pres_raise].
Qed.

Lemma restore_one_new : forall x, pres newPO (restore_one x).
Proof.
  intros [p f]. unfold restore_one.
  apply pres_bind; [apply pres_get|]. intro w1. destruct (isdir (w_fs w1) p); [apply pres_ret|].
  apply pres_catch.
  - apply pres_bind; [apply effect_p_new|]. intros _. apply effect_new.
  - intro e. destruct (is_os e); [apply pres_ret|apply pres_raise].
Qed.

Lemma restore_all_new : pres newPO restore_all.
Proof.
  intros w w' r H. unfold restore_all in H. rewrite dg_bind_get in H. unfold bind at 1 in H. unfold put in H.
  apply (po_trans newPO w (set_backups [] w) w').
  - cbn. unfold new_same. repeat split.
  - eapply (pres_mapM_ newPO _ restore_one (w_backups w) restore_one_new). exact H.
Qed.

Lemma set_created_dirs_ok : forall ccd, pres okPO (set_created_dirs ccd).
Proof.
  intros ccd w w' r H. unfold set_created_dirs in H. cbv zeta in H. unfold bind, get, put, ret in H.
  inversion H; subst. cbn. split; reflexivity.
Qed.

(* ================= _set_created_dirs ================= *)

Lemma gen_fb_set_created_dirs_loop1_eq : forall ncd xs cd err w,
  gen_fb_set_created_dirs_loop1 ncd xs cd err w
  = (w, inl (cd ++ filter (fun d => negb (mem_path d ncd)) xs,
             fold_left (fun acc d => del_path d acc) (filter (fun d => negb (mem_path d ncd)) xs) err)).
Proof.
  intro ncd. induction xs as [|d xs IH]; intros cd err w; cbn [gen_fb_set_created_dirs_loop1 filter].
  - rewrite app_nil_r. reflexivity.
  - cbv zeta. destruct (negb (mem_path d ncd)).
    + unfold bind at 1. rewrite gen_fb_ensure_dir_case_eq. rewrite IH. cbn [fold_left]. rewrite <- app_assoc. reflexivity.
    + apply IH.
Qed.

Lemma gen_fb_set_created_dirs_eq : forall ccd w, gen_fb_set_created_dirs ccd w = set_created_dirs ccd w.
Proof.
  intros ccd w. unfold gen_fb_set_created_dirs, set_created_dirs. cbv zeta. rewrite !dg_bind_get.
  unfold bind at 1. rewrite gen_fb_set_created_dirs_loop1_eq.
  rewrite (filter_ext _ (fun d => negb (mem_path d (bd_created (w_bd w))))) by (intro d; rewrite mem_path_set_of_paths; reflexivity).
  reflexivity.
Qed.

(* ================= _commit ================= *)

Definition commit_file (f : path) : M unit :=
  vf <- m_is_file f None ;;
  icf <- is_cache_file f ;;
  if negb vf && negb icf then try_to_remove_file f else ret tt.

Lemma commit_file_run : forall f w,
  commit_file f w
  = match m_is_file f None w with
    | (w1, inl vf) =>
        if negb vf && negb (path_eqb f (w_cachefile w1)) then try_to_remove_file f w1 else (w1, inl tt)
    | (w1, inr e) => (w1, inr e)
    end.
Proof.
  intros f w. unfold commit_file, bind, is_cache_file, ret.
  destruct (m_is_file f None w) as [w1 [vf|e]]; [|reflexivity].
  destruct (negb vf && negb (path_eqb f (w_cachefile w1))); reflexivity.
Qed.

Lemma gen_fb_commit_loop1_step : forall f l w,
  gen_fb_commit_loop1 (f :: l) w
  = match m_is_file f None w with
    | (w1, inl vf) =>
        if negb vf && negb (path_eqb f (w_cachefile w1))
        then (gen_fb_try_to_remove_file f ;;; gen_fb_commit_loop1 l) w1 else gen_fb_commit_loop1 l w1
    | (w1, inr e) => (w1, inr e)
    end.
Proof.
  intros f l w. cbn [gen_fb_commit_loop1]. unfold bind at 1 2 3. unfold ret, is_cache_file.
  destruct (m_is_file f None w) as [w1 [[|]|e]]; cbn [negb andb]; try reflexivity.
  unfold bind at 1. destruct (path_eqb f (w_cachefile w1)); reflexivity.
Qed.

Lemma gen_fb_commit_loop1_eq : forall l w, gen_fb_commit_loop1 l w = mapM_ commit_file l w.
Proof.
  induction l as [|f l IH]; intro w; [reflexivity|].
  rewrite gen_fb_commit_loop1_step. cbn [mapM_]. unfold bind at 2. rewrite commit_file_run.
  destruct (m_is_file f None w) as [w1 [vf|e]]; [|reflexivity].
  destruct (negb vf && negb (path_eqb f (w_cachefile w1))); [|apply IH].
  unfold bind. rewrite gen_fb_try_to_remove_file_eq.
  destruct (try_to_remove_file f w1) as [w2 [[]|e]]; [apply IH|reflexivity].
Qed.

(* the model's second loop (a local fix of [commit]) *)
Definition commit_go : list path -> M (list path) :=
  fix go (ds : list path) : M (list path) :=
    match ds with
    | [] => ret []
    | d :: r => vd <- m_is_dir d None ;; rest <- go r ;; ret (if vd then rest else d :: rest)
    end.

Lemma gen_fb_commit_loop2_eq : forall ds acc w,
  gen_fb_commit_loop2 ds acc w = (extra <- commit_go ds ;; ret (union_paths acc extra)) w.
Proof.
  induction ds as [|d ds IH]; intros acc w; cbn [gen_fb_commit_loop2 commit_go]; [reflexivity|].
  rewrite !dg_bind_assoc. apply dg_bind_cong; [reflexivity|]. intros vd w1. rewrite dg_bind_ret_l.
  rewrite dg_bind_assoc. destruct vd; cbn [negb]; cbv zeta; rewrite IH; apply dg_bind_cong; try reflexivity.
Qed.

Lemma commit_loop1_ok : forall l, pres okPO (mapM_ commit_file l).
Proof.
  intro l. apply pres_mapM_. intro f. unfold commit_file.
  apply pres_bind; [apply (pres_weaken svbPO okPO _ _ svb_ok), m_is_file_svb|]. intro vf.
  apply pres_bind; [apply (pres_weaken svbPO okPO _ _ svb_ok), is_cache_file_svb|]. intro icf.
  destruct (negb vf && negb icf); [apply (pres_weaken newPO okPO _ _ new_ok), try_to_remove_file_new|apply pres_ret].
Qed.

(* norm_cased_error_created_dirs has kind `pathset`: set(..) of it is the list itself *)
Lemma gen_fb_commit_eq : forall err w, gen_fb_commit err w = commit err w.
Proof.
  intros err w. unfold gen_fb_commit, commit. cbv zeta. rewrite !dg_bind_get.
  fold commit_file. fold commit_go.
  unfold bind at 1. unfold bind at 4. rewrite gen_fb_commit_loop1_eq.
  destruct (mapM_ commit_file (cache_created_files (w_old w)) w) as [w1 [[]|e]] eqn:E; [|reflexivity].
  apply commit_loop1_ok in E. destruct E as [E _]. rewrite dg_bind_get, E.
  rewrite (dg_bind_cong _ _ _ _ (gen_fb_commit_loop2_eq (c_dirs (w_old w)) err) (fun _ _ => eq_refl)).
  rewrite dg_bind_assoc. apply dg_bind_cong; [reflexivity|]. intros extra w2.
  rewrite dg_bind_ret_l, dg_bind_tt. apply gen_fb_remove_empty_dirs_eq.
Qed.

(* ================= _roll_back ================= *)

Lemma path_eqb_sym : forall p q, path_eqb p q = path_eqb q p.
Proof.
  induction p as [|x p IH]; destruct q as [|y q]; cbn; try reflexivity.
  rewrite String.eqb_sym, IH. reflexivity.
Qed.

Lemma filter_del_path : forall (P : path -> bool) d l,
  filter P (del_path d l) = filter (fun x => negb (path_eqb d x) && P x) l.
Proof.
  intros P d. induction l as [|q l IH]; cbn; [reflexivity|].
  rewrite (path_eqb_sym d q). destruct (path_eqb q d); cbn; [exact IH|]. rewrite IH. reflexivity.
Qed.

(* discarding every directory of a list = keeping what is not in it *)
Lemma fold_del_path_filter : forall ds l,
  fold_left (fun acc d => del_path d acc) ds l = filter (fun x => negb (mem_path x ds)) l.
Proof.
  induction ds as [|d ds IH]; intro l; cbn [fold_left mem_path].
  - induction l as [|x l IHl]; cbn; [reflexivity|]. f_equal. exact IHl.
  - rewrite IH, filter_del_path. apply filter_ext. intro x. rewrite negb_orb. reflexivity.
Qed.

Lemma gen_fb_roll_back_loop1_eq : forall ds acc w,
  gen_fb_roll_back_loop1 ds acc w = (w, inl (fold_left (fun a d => del_path d a) ds acc)).
Proof. induction ds as [|d ds IH]; intros acc w; cbn [gen_fb_roll_back_loop1 fold_left]; [reflexivity|apply IH]. Qed.

Lemma gen_fb_roll_back_loop2_eq : forall l w, gen_fb_roll_back_loop2 l w = mapM_ try_to_remove_file l w.
Proof.
  induction l as [|f l IH]; intro w; cbn [gen_fb_roll_back_loop2 mapM_]; [reflexivity|].
  apply dg_bind_cong; [apply gen_fb_try_to_remove_file_eq|]. intros _ w1. apply IH.
Qed.

Lemma roll_back_prefix_ok : forall l ds,
  pres okPO (mapM_ try_to_remove_file l ;;; remove_empty_dirs ds ;;; restore_all).
Proof.
  intros l ds. apply (pres_weaken newPO okPO _ _ new_ok).
  apply pres_bind; [apply pres_mapM_; intro; apply try_to_remove_file_new|]. intros _.
  apply pres_bind; [apply remove_empty_dirs_new|]. intros _. apply restore_all_new.
Qed.

Lemma gen_fb_roll_back_eq : forall ccd w, gen_fb_roll_back ccd w = roll_back ccd w.
Proof.
  intros ccd w. unfold gen_fb_roll_back, roll_back. cbv zeta. rewrite !dg_bind_get.
  unfold bind at 1. rewrite gen_fb_roll_back_loop1_eq. rewrite dg_bind_get.
  rewrite fold_del_path_filter, set_update_union, set_of_paths_union.
  set (dtr := filter _ _).
  transitivity (((mapM_ try_to_remove_file (c_built (w_new w)) ;;; remove_empty_dirs dtr ;;; restore_all) ;;;
                 create_dirs (c_dirs (w_old w))) w).
  - transitivity (((mapM_ try_to_remove_file (c_built (w_new w)) ;;; remove_empty_dirs dtr ;;; restore_all) ;;;
                   (w5_ <- get ;; gen_fb_create_dirs (c_dirs (w_old w5_)) ;;; ret tt)) w).
    + rewrite !dg_bind_assoc. apply dg_bind_cong; [apply gen_fb_roll_back_loop2_eq|]. intros _ w1.
      rewrite !dg_bind_assoc. apply dg_bind_cong; [apply gen_fb_remove_empty_dirs_eq|]. intros _ w2.
      apply dg_bind_cong; [apply gen_bk_restore_all_eq|]. intros; reflexivity.
    + apply dg_bind_frame with (P := okPO); [apply roll_back_prefix_ok|]. intros w' [H _] _.
      rewrite dg_bind_get, dg_bind_tt, H. apply gen_fb_create_dirs_eq.
  - rewrite !dg_bind_assoc. apply dg_bind_cong; [reflexivity|]. intros _ w1.
    rewrite !dg_bind_assoc. reflexivity.
Qed.

(* ================= _build ================= *)

(* the root function does not change the name of the cache file held by the executor (Run.run does not) *)
Definition keeps_cachefile (root : body) : Prop := forall w, w_cachefile (fst (root w)) = w_cachefile w.

(* Model/Build.v: the part of m_build that is FileBuilder._build (the local [accept] after start_world), as a
   computation in M; [m_build_core] below shows that m_build is made of it *)
Definition build_pre (cf : path) (ccd : list path) : M (list path) :=
  err <- set_created_dirs ccd ;;
  w <- get ;;
  (if isfile (w_fs w) cf then b <- back_up_and_remove cf ;; ret tt else ret tt) ;;;
  ret err.

Definition build_core (cf : path) (root : body) : M pyval :=
  r <- attempt (make_dirs (dirname cf)) ;;
  match r with
  | inr e => roll_back [] ;;; raise e
  | inl ccd =>
      r2 <- attempt (call_root root) ;;
      match r2 with
      | inr e => roll_back ccd ;;; raise e
      | inl v =>
          r3 <- attempt (build_pre cf ccd) ;;
          match r3 with
          | inr e => roll_back ccd ;;; raise e
          | inl err =>
              r4 <- attempt write_cache ;;
              match r4 with
              | inr e => _ <- attempt (try_to_remove_file cf) ;; roll_back ccd ;;; raise e
              | inl _ => commit err ;;; ret v
              end
          end
      end
  end.

Lemma m_write_cache_eq : forall p w, w_cachefile w = p -> m_write_cache p w = write_cache w.
Proof.
  intros p w H. unfold m_write_cache, write_cache. rewrite !dg_bind_get. cbv zeta. rewrite H. reflexivity.
Qed.

Lemma try_to_remove_file_total : forall p w, exists w', try_to_remove_file p w = (w', inl tt).
Proof.
  intros p w. unfold try_to_remove_file. rewrite dg_bind_get. destruct (isfile (w_fs w) p); [|eexists; reflexivity].
  unfold catch, effect. cbv zeta. destruct (existsb (Nat.eqb (w_effects w)) (w_faults w)); [eexists; reflexivity|].
  destruct (remove (w_fs (set_effects (S (w_effects w)) w)) p); eexists; reflexivity.
Qed.

Lemma call_root_cachefile : forall root w w' r,
  keeps_cachefile root -> call_root root w = (w', r) -> w_cachefile w' = w_cachefile w.
Proof.
  intros root w w' r H E. unfold call_root in E.
  specialize (H (set_log (LInvoke "<root>" None PNone PNone :: w_log w) w)).
  destruct (root (set_log (LInvoke "<root>" None PNone PNone :: w_log w) w)) as [w2 [res subs]].
  inversion E; subst. exact H.
Qed.

Lemma roll_back_raise_eq : forall ccd (e : exn) w,
  (gen_fb_roll_back ccd ;;; @raise pyval e) w = (roll_back ccd ;;; raise e) w.
Proof. intros. apply dg_bind_cong; [apply gen_fb_roll_back_eq|reflexivity]. Qed.

(* `try` as the translator writes it, compared piecewise; the continuations may use the run of the body *)
Lemma dg_try_cong : forall {A B} (m1 m2 : M A) (k1 k2 : A -> M B) (h1 h2 : exn -> M B) w,
  m1 w = m2 w ->
  (forall w' a, m2 w = (w', inl a) -> k1 a w' = k2 a w') ->
  (forall w' e, m2 w = (w', inr e) -> h1 e w' = h2 e w') ->
  (r <- attempt m1 ;; match r with inl a => k1 a | inr e => h1 e end) w
  = (r <- attempt m2 ;; match r with inl a => k2 a | inr e => h2 e end) w.
Proof.
  intros A B m1 m2 k1 k2 h1 h2 w Hm Hk Hh. unfold bind, attempt. rewrite Hm.
  destruct (m2 w) as [w' [a|e]] eqn:E; [apply Hk|apply Hh]; reflexivity.
Qed.

Lemma gen_fb_priv_build_eq : forall cf root w0,
  keeps_cachefile root -> w_cachefile w0 = cf ->
  gen_fb_priv_build cf root w0 = build_core cf root w0.
Proof.
  intros cf root w0 Hroot Hcf. unfold gen_fb_priv_build, build_core. cbv zeta.
  apply dg_try_cong; [apply gen_fb_make_dirs_eq| |intros; apply roll_back_raise_eq].
  intros w1 ccd E1. apply make_dirs_new in E1. destruct E1 as (_ & _ & C1).
  apply dg_try_cong; [reflexivity| |intros; apply roll_back_raise_eq].
  intros w2 v E2. apply (call_root_cachefile _ _ _ _ Hroot) in E2.
  (* set_created_dirs and the backup of the old cache file: two `try` scopes with the same handler *)
  unfold build_pre.
  transitivity ((r3 <- attempt (gen_fb_set_created_dirs ccd) ;;
                 match r3 with
                 | inl err =>
                     r4 <- attempt (w <- get ;; (if isfile (w_fs w) cf then back_up_and_remove cf else ret false)) ;;
                     match r4 with
                     | inl _ =>
                         r5 <- attempt write_cache ;;
                         match r5 with
                         | inr e => _ <- attempt (try_to_remove_file cf) ;; roll_back ccd ;;; raise e
                         | inl _ => commit err ;;; ret v
                         end
                     | inr e => roll_back ccd ;;; raise e
                     end
                 | inr e => roll_back ccd ;;; raise e
                 end) w2).
  - apply dg_try_cong; [reflexivity| |intros; apply roll_back_raise_eq].
    intros w3 err E3. rewrite gen_fb_set_created_dirs_eq in E3.
    apply set_created_dirs_ok in E3. destruct E3 as [_ C3].
    apply dg_try_cong; [| |intros; apply roll_back_raise_eq].
    + rewrite !dg_bind_get. destruct (isfile (w_fs w3) cf); [|reflexivity].
      apply gen_bk_back_up_and_remove_eq.
    + intros w4 u E4.
      assert (C4 : w_cachefile w4 = w_cachefile w3).
      { rewrite dg_bind_get in E4. destruct (isfile (w_fs w3) cf); [|inversion E4; reflexivity].
        apply back_up_and_remove_new in E4. destruct E4 as (_ & _ & C5). exact C5. }
      apply dg_try_cong; [apply m_write_cache_eq; congruence| |].
      * intros w5 [] _. apply dg_bind_cong; [apply gen_fb_commit_eq|reflexivity].
      * intros w5 e _. cbn [is_exception]. unfold bind at 1 3. unfold attempt.
        rewrite gen_fb_try_to_remove_file_eq. destruct (try_to_remove_file_total cf w5) as [w6 E6]. rewrite E6.
        apply roll_back_raise_eq.
  - unfold bind, attempt, get, ret. rewrite gen_fb_set_created_dirs_eq.
    destruct (set_created_dirs ccd w2) as [w3 [err|e]]; [|reflexivity].
    destruct (isfile (w_fs w3) cf); [|reflexivity].
    destruct (back_up_and_remove cf w3) as [w4 [b|e]]; reflexivity.
Qed.

(* ================= build_versioned, build ================= *)

Definition done (x : world * (pyval + exn)) : world * build_result := (fst x, Done (snd x)).

Ltac lockstep :=
  repeat (cbn [fst snd];
          match goal with
          | |- context [match ?x with inl _ => _ | inr _ => _ end] => is_var x; destruct x
          | |- context [let (_, _) := ?x in _] => is_var x; destruct x
          | |- context [let (_, _) := ?x in _] => destruct x
          | |- context [match ?x with inl _ => _ | inr _ => _ end] => destruct x
          | |- context [if ?x then _ else _] => destruct x
          end).

(* m_build is argument checking, reading the previous cache, and [build_core] in the world [start_world] *)
Lemma m_build_core : forall cf nm vers root w,
  m_build cf nm vers root w
  = match sanitize vers with
    | None => (w, Refused XType)
    | Some svers =>
        let accept old := done (build_core cf root (start_world w cf old nm svers)) in
        match lookup (w_fs w) cf with
        | Some (NFile f) =>
            match cache_of_json (f_json f) with
            | ReadOk old => if String.eqb (c_name old) nm then accept old else (w, Refused (XRuntime RBuildName))
            | ReadRuntime => (w, Refused (XRuntime RBadCache))
            | ReadMalformed => (w, Refused (XCrash "malformed cache"))
            end
        | Some NDir => (w, Refused (XOS XIsADirectory))
        | None => accept (empty_cache nm svers)
        end
    end.
Proof.
  intros cf nm vers root w. unfold m_build. destruct (sanitize vers) as [sv|]; [|reflexivity]. cbv zeta.
  destruct (lookup (w_fs w) cf) as [[f|]|]; [destruct (cache_of_json (f_json f)) as [old| |]; try reflexivity;
                                             destruct (String.eqb (c_name old) nm); [|reflexivity]| reflexivity |].
  - generalize (start_world w cf old nm sv). intro w0.
    unfold done, build_core, build_pre, call_root, bind, attempt, ret, raise, get.
    lockstep; reflexivity.
  - generalize (start_world w cf (empty_cache nm sv) nm sv). intro w0.
    unfold done, build_core, build_pre, call_root, bind, attempt, ret, raise, get. lockstep; reflexivity.
Qed.

(* what the caller of build_versioned / clean observes for a result of the model: a refusal is the exception
   (raised before `with FileBackups()` is entered); otherwise the temporary directory is deleted on the way out *)
Definition res_of_build (x : world * build_result) : world * (pyval + exn) :=
  match x with
  | (w', Refused e) => (w', inr e)
  | (w', Done r) => (end_build w', r)
  end.

(* SimpleOperationExecutor(..), FileBackups() entered, FileBuilder(None, ..): the world a build starts in;
   then _build, `finally: builder._is_finished_build = True` (no field), and FileBackups.__exit__ *)
Lemma gen_fb_start_eq : forall cf nm sv root old w,
  keeps_cachefile root ->
  ((modify (gen_ex_init cf old (empty_cache nm sv) (bd_init (c_dirs old) (cache_created_files old ++ [cf])))) ;;;
   gen_bk_init ;;; gen_bk_enter ;;;
   finally
     (gen_fb_init None old (empty_cache nm sv) (bd_init (c_dirs old) (cache_created_files old ++ [cf])) ;;;
      finally (gen_fb_priv_build cf root) (ret tt))
     gen_bk_exit) w
  = res_of_build (done (build_core cf root (start_world w cf old nm sv))).
Proof.
  intros cf nm sv root old w Hroot.
  cbv beta iota zeta delta [bind modify gen_bk_init gen_bk_enter m_mkdtemp ret finally gen_fb_init gen_bk_exit m_rmtree_tmp].
  match goal with |- context [gen_fb_priv_build cf root ?W] => change W with (start_world w cf old nm sv) end.
  rewrite gen_fb_priv_build_eq by (try assumption; reflexivity).
  unfold res_of_build, done. destruct (build_core cf root (start_world w cf old nm sv)) as [w' r]. reflexivity.
Qed.

Theorem gen_fb_build_versioned_eq : forall cf nm vers root w,
  keeps_cachefile root ->
  gen_fb_build_versioned cf nm vers root w = res_of_build (m_build cf nm vers root w).
Proof.
  intros cf nm vers root w Hroot. rewrite m_build_core. unfold gen_fb_build_versioned. cbv zeta.
  unfold bind at 1. unfold sanitize_m. destruct (sanitize vers) as [sv|]; [|reflexivity].
  unfold ret at 1. rewrite dg_bind_get. unfold isfile. destruct (lookup (w_fs w) cf) as [[f|]|] eqn:L.
  - unfold bind at 1. unfold m_read_cache. rewrite L.
    destruct (cache_of_json (f_json f)) as [old| |]; try reflexivity.
    destruct (String.eqb (c_name old) nm); cbn [negb]; [|reflexivity]. timeout 60 (apply gen_fb_start_eq). exact Hroot.
  - rewrite dg_bind_get. unfold isdir. rewrite L. reflexivity.
  - rewrite dg_bind_get. unfold isdir. rewrite L. timeout 60 (apply gen_fb_start_eq). exact Hroot.
Qed.

(* Run.run_build applies [end_build] to whatever m_build returns *)
Corollary gen_fb_build_versioned_run_build : forall cf nm vers pr w w' r,
  keeps_cachefile (fun w0 => run pr None [] w0) ->
  run_build cf nm vers pr w = (w', Done r) ->
  gen_fb_build_versioned cf nm vers (fun w0 => run pr None [] w0) w = (w', r).
Proof.
  intros cf nm vers pr w w' r Hroot H. rewrite gen_fb_build_versioned_eq by exact Hroot.
  unfold run_build in H. destruct (m_build cf nm vers (fun w0 => run pr None [] w0) w) as [w1 [e|r1]].
  - inversion H.
  - inversion H; subst. reflexivity.
Qed.

(* build(cache_filename, build_name, func, *args, **kwargs) = build_versioned(.., {}, ..) *)
Theorem gen_fb_build_eq : forall cf nm root w,
  keeps_cachefile root ->
  gen_fb_build cf nm root w = res_of_build (m_build cf nm (PDict []) root w).
Proof. intros. unfold gen_fb_build. apply gen_fb_build_versioned_eq. assumption. Qed.

(* ================= clean ================= *)

Definition res_of_clean (x : world * build_result) : world * (unit + exn) :=
  match x with
  | (w', Refused e) => (w', inr e)
  | (w', Done (inl _)) => (w', inl tt)
  | (w', Done (inr e)) => (w', inr e)
  end.

Lemma gen_fb_clean_loop1_eq : forall l w, gen_fb_clean_loop1 l w = mapM_ try_to_remove_file l w.
Proof.
  induction l as [|f l IH]; intro w; cbn [gen_fb_clean_loop1 mapM_]; [reflexivity|].
  apply dg_bind_cong; [apply gen_fb_try_to_remove_file_eq|]. intros _ w1. apply IH.
Qed.

Theorem gen_fb_clean_eq : forall cf nm w, gen_fb_clean cf nm w = res_of_clean (m_clean cf nm w).
Proof.
  intros cf nm w. unfold gen_fb_clean, m_clean. cbv zeta.
  replace (match nm with None => false | Some _ => false end) with false by (destruct nm; reflexivity).
  rewrite dg_bind_get. unfold lexists. destruct (lookup (w_fs w) cf) as [[f|]|] eqn:L; cbn [negb]; try reflexivity.
  - unfold bind at 1. unfold m_read_cache. rewrite L.
    destruct (cache_of_json (f_json f)) as [c| |]; try reflexivity.
    destruct (match nm with Some n => negb (String.eqb (c_name c) n) | None => false end) eqn:E.
    + replace (match nm with None => false | Some c3_ => negb (String.eqb (c_name c) c3_) end) with true
        by (destruct nm; [symmetry; exact E|discriminate]). reflexivity.
    + replace (match nm with None => false | Some c3_ => negb (String.eqb (c_name c) c3_) end) with false
        by (destruct nm; [symmetry; exact E|reflexivity]).
      transitivity ((mapM_ try_to_remove_file (cache_created_files c) ;;; try_to_remove_file cf ;;;
                     remove_empty_dirs (c_dirs c)) w).
      * apply dg_bind_cong; [apply gen_fb_clean_loop1_eq|]. intros _ w1.
        apply dg_bind_cong; [apply gen_fb_try_to_remove_file_eq|]. intros _ w2.
        rewrite dg_bind_tt. apply gen_fb_remove_empty_dirs_eq.
      * destruct ((mapM_ try_to_remove_file (cache_created_files c) ;;; try_to_remove_file cf ;;;
                   remove_empty_dirs (c_dirs c)) w) as [w' [[]|e]]; reflexivity.
  - unfold bind at 1. unfold m_read_cache. rewrite L. reflexivity.
Qed.
