(* Proofs/SimH11.v — second partial result for CacheRTOpen.committed_cache_wf_next_statement: the
   new cache of a committed build that started from the cache file written from a writable
   cache is [writable] again; its created directories are listed once; the cache file holds
   its serialisation [committed_cache_next_writable_partial].  More generally, for any accepted
   old cache whose records are well formed [accepted_cache_writable]. *)
From Coq Require Import List String Ascii NArith ZArith Bool Arith Lia Permutation.
From FB.Base Require Import PyVal Fs.
From FB.Gen Require Import JsonUtilGen.
From FB.Spec Require Import JsonSpec Prog.
From FB.Model Require Import Types Monad CreatedFiles BuildDirs SimpleOps Builder PathNorm Persist PersistSpec Build Run.
From FB.Proofs Require Import FsLemmas JsonLaws PersistLaws ReplayLaws BuildFileLaws RollbackDirsBase
  CacheRTDefs CacheRTLaws CacheRTTables CacheRTCycle CacheRTForest CacheRTOpen SimH1 SimH2 SimH3 SimH8 SimH9 SimH10.
Import ListNotations.
Local Open Scope list_scope.
Local Open Scope m_scope.

(* the records of the tables of a well-formed forest are well formed *)
Lemma fold_parsed_RW : forall subs,
  Forall (fun s => forall c, op_wf s = true -> RW c -> RW (register_parsed c s)) subs ->
  forallb op_wf subs = true -> forall c, RW c -> RW (fold_left register_parsed subs c).
Proof.
  intros subs HF. induction HF as [|s rest Hs HF IH]; intros Hw c Hc; cbn [fold_left]; [exact Hc|].
  cbn [forallb] in Hw. apply andb_true_iff in Hw. destruct Hw as [W1 W2']. apply IH; [exact W2'|]. apply Hs; assumption.
Qed.

Lemma register_parsed_RW : forall o c, op_wf o = true -> RW c -> RW (register_parsed c o).
Proof.
  induction o as [q r e | p c0 f a k subs r cr ra sf IH | f a k subs r ra sf IH] using op_ind'; intros c Ho Hc; cbn [register_parsed].
  - exact Hc.
  - assert (K : RW (fold_left register_parsed subs c)).
    { apply (fold_parsed_RW subs IH); [|exact Hc]. rewrite op_wf_build_eq in Ho. apply andb_true_iff in Ho. tauto. }
    destruct sf; [exact K|]. destruct K as [A B]. split; cbn [cache_with c_files c_subs]; [|exact B].
    intros q o' H. destruct (in_files_set _ _ _ _ _ H) as [K|K]; [eapply A; eauto | inversion K; subst; exact Ho].
  - assert (K : RW (fold_left register_parsed subs c)).
    { apply (fold_parsed_RW subs IH); [|exact Hc]. rewrite op_wf_sub_eq in Ho. apply andb_true_iff in Ho. tauto. }
    destruct sf; [exact K|]. destruct K as [A B]. split; cbn [cache_with c_files c_subs]; [exact A|].
    intros q o' H. destruct (in_subs_set _ _ _ _ _ H) as [K|K]; [eapply B; eauto | inversion K; subst; exact Ho].
Qed.

Lemma tables_of_RW : forall nm fv dirs R, forallb op_wf R = true -> RW (tables_of nm fv dirs R).
Proof.
  intros nm fv dirs R H. unfold tables_of. apply fold_parsed_RW; [|exact H|].
  - apply Forall_forall. intros s _. apply register_parsed_RW.
  - split; cbn [base_cache c_files c_subs]; intros ? ? [].
Qed.

Lemma read_back_RW : forall c0 roots0, writable c0 roots0 -> RW (read_back c0 roots0).
Proof.
  intros c0 roots0 (_ & Hr & _). unfold read_back. apply tables_of_RW. exact (proj2 (forest_normal roots0 Hr)).
Qed.

Lemma W2_start : forall w cf nm svers old, RW old -> W2 (start_world w cf old nm svers).
Proof.
  intros w cf nm svers old Ho. unfold W2, TW, HS, tracked, start_world, bd_init.
  cbn [w_new w_bd w_hash w_old bd_created bd_err_created].
  split; [split; cbn [empty_cache c_files c_subs]; intros ? ? []|]. split; [intros d [[]|[]]|]. split; [intros ? ? ? []|]. exact Ho.
Qed.

Lemma accepted_build_facts : forall cf nm vers svers root w w' v old,
  sanitize vers = Some svers -> path_wf cf = true -> prog_paths_wf root ->
  accepted cf nm svers w old -> RW old ->
  run_build cf nm vers root w = (w', Done (inl v)) ->
  exists ccd w2 l ops j,
    w_new w' = new_cache_of ccd w2 /\ W2 w2 /\ forallb op_wf l = true /\ forallb path_wf ccd = true /\
    c_name (w_new w2) = nm /\ c_fvers (w_new w2) = svers /\ c_dirs (w_new w2) = [] /\
    cache_to_json (w_new w') = Some j /\ cache_operations (w_new w') = Some ops /\
    (exists f, lookup (w_fs w') cf = Some (NFile f) /\ f_json f = cache_to_json (w_new w')) /\
    (exists w1, make_dirs (dirname cf) (start_world w cf old nm svers) = (w1, inl ccd) /\
       run root None [] (set_log (LInvoke "<root>" None PNone PNone :: w_log w1) w1) = (w2, (inl v, l))).
Proof.
  intros cf nm vers svers root w w' v old Hs Hcf Hroot Hacc Hold H.
  destruct (accepted_build_end _ _ _ _ _ _ _ _ _ Hs Hacc H) as (w1 & ccd & w2 & l & E1 & E2 & Hn & Hf & j & Hj).
  pose proof (W2_start w cf nm svers old Hold) as W0.
  pose proof (presW2 _ _ _ _ _ (make_dirs_wk2 _) E1 W0) as W1.
  assert (W1' : W2 (set_log (LInvoke "<root>" None PNone PNone :: w_log w1) w1)) by (refine ((_ : wk2 w1 _) W1); apply wk2_same; reflexivity).
  destruct (run_W2 root Hroot _ [] _ _ _ _ W1' eq_refl E2) as [W2' Hl2].
  pose proof (make_dirs_wf _ (path_wf_tl cf Hcf) _ _ _ E1) as Hccd. cbv beta in Hccd.
  pose proof (make_dirs_meta _ _ _ _ E1) as (M1 & M2 & M3).
  pose proof (run_meta _ _ _ _ _ _ E2) as (N1 & N2 & N3). cbn [w_new set_log] in N1, N2, N3.
  assert (Ho : exists ops, cache_operations (w_new w') = Some ops).
  { unfold cache_to_json in Hj. destruct (cache_operations (w_new w')) as [ops|]; [eauto | discriminate Hj]. }
  destruct Ho as [ops Ho].
  exists ccd, w2, l, ops, j. split; [exact Hn|]. split; [exact W2'|]. split; [exact Hl2|]. split; [exact Hccd|].
  split; [rewrite N1, M1; reflexivity|]. split; [rewrite N2, M2; reflexivity|]. split; [rewrite N3, M3; reflexivity|].
  split; [exact Hj|]. split; [exact Ho|]. split; [exact Hf|]. exists w1. split; assumption.
Qed.

Theorem accepted_cache_writable : forall cf nm vers svers root w w' v old,
  sanitize vers = Some svers -> path_wf cf = true -> prog_paths_wf root ->
  accepted cf nm svers w old -> RW old ->
  run_build cf nm vers root w = (w', Done (inl v)) ->
  let c := w_new w' in
  exists roots,
    writable c roots /\ paths_nodup (c_dirs c) = true /\
    exists f, lookup (w_fs w') cf = Some (NFile f) /\ f_json f = cache_to_json c.
Proof.
  intros cf nm vers svers root w w' v old Hs Hcf Hroot Hacc Hold H c.
  destruct (accepted_build_facts _ _ _ _ _ _ _ _ _ Hs Hcf Hroot Hacc Hold H)
    as (ccd & w2 & l & ops & j & Hn & W2' & Hl2 & Hccd & Mn & Mv & Md & Hj & Ho & Hf & _).
  destruct W2' as ((RWf & RWs) & TW2 & _ & _).
  exists (root_operations ops).
  assert (Ed : c_dirs c = union_paths [] (bd_created (w_bd w2) ++ filter (fun d => negb (mem_path d (bd_created (w_bd w2)))) ccd)).
  { unfold c. rewrite Hn. unfold new_cache_of. cbn [c_dirs cache_with]. rewrite Md. reflexivity. }
  split; [|split; [|exact Hf]].
  - split; [unfold cache_forest; fold c in Ho; rewrite Ho; reflexivity|]. split; [|split].
    + apply forallb_forall. intros o Hin. unfold root_operations in Hin. apply filter_In in Hin. destruct Hin as [Hin _].
      unfold cache_operations in Ho. pose proof (sequence_In _ _ _ _ Ho Hin) as K.
      rewrite Hn in K. unfold new_cache_of in K. cbn [c_files c_subs cache_with] in K.
      apply in_app_or in K. destruct K as [K|K]; apply In_snd in K; destruct K as [x K]; [eapply RWf | eapply RWs]; eauto.
    + rewrite Ed. apply forallb_forall. intros d Hd. apply In_union_paths in Hd. destruct Hd as [[]|Hd].
      apply in_app_or in Hd. destruct Hd as [Hd|Hd].
      * apply TW2. left. exact Hd.
      * apply filter_In in Hd. destruct Hd as [Hd _]. rewrite forallb_forall in Hccd. exact (Hccd d Hd).
    + unfold c. rewrite Hn. unfold new_cache_of. cbn [c_fvers cache_with]. rewrite Mv.
      apply sanitized_sanitized_t. eapply sanitize_sanitized; eauto.
  - rewrite Ed. unfold union_paths. apply dedup_fold_nodup'. reflexivity.
Qed.

Theorem committed_cache_next_writable_partial : forall cf nm vers svers root w w' v f0 c0 roots0,
  sanitize vers = Some svers -> path_wf cf = true -> prog_paths_wf root ->
  lookup (w_fs w) cf = Some (NFile f0) -> f_json f0 = cache_to_json c0 ->
  writable c0 roots0 -> c_name c0 = nm ->
  run_build cf nm vers root w = (w', Done (inl v)) ->
  let c := w_new w' in
  exists roots,
    writable c roots /\ paths_nodup (c_dirs c) = true /\
    exists f, lookup (w_fs w') cf = Some (NFile f) /\ f_json f = cache_to_json c.
Proof.
  intros cf nm vers svers root w w' v f0 c0 roots0 Hs Hcf Hroot Hl Hj Hw Hn H.
  exact (accepted_cache_writable cf nm vers svers root w w' v (read_back c0 roots0) Hs Hcf Hroot
           (next_accepted cf nm svers w f0 c0 roots0 Hl Hj Hw Hn) (read_back_RW c0 roots0 Hw) H).
Qed.

Print Assumptions committed_cache_next_writable_partial.
