(* Proofs/SimFEx.v — validation by evaluation (vm_compute) of the per-build hypothesis [link] of
   SimF8.mech_chain_partial (ReadBack: the cache the next build reads is, entry by entry, the
   normal form of the cache at the end of the run of the root function), and of the conclusion of
   SimF6.okc_next_closed, on the four-build history of SimCEx.Ex.                            *)
From Coq Require Import List String Ascii NArith ZArith Bool Arith Lia.
From FB.Base Require Import PyVal Fs.
From FB.Gen Require Import JsonUtilGen.
From FB.Spec Require Import JsonSpec Prog Ref Oracle Faithful.
From FB.Model Require Import Types Monad CreatedFiles BuildDirs SimpleOps Builder Persist PersistSpec Build Run Frame Dsl Core CoreOracle.
From FB.Proofs Require Import FsLemmas JsonLaws CacheRTDefs CacheRTCheck CacheRTTables ViewDefs ViewK2 ViewK3 SimA0 SimAEx SimB1 SimC0 SimCEx SimF8.
Import ListNotations.
Open Scope string_scope.
Open Scope list_scope.

(* the file table of c' is, by lookup, that of c record by record in normal form (the order of the
   entries differs: the tables read back are those of the forest); the table of subbuilds, as a list *)
Definition files_agree_b (l l' : list (path * option op)) : bool :=
  forallb (fun p => ooop_beq (files_get l p) (files_get l' p)) (map fst l ++ map fst l').

Lemma files_agree_b_sound : forall l l', files_agree_b l l' = true -> forall p, files_get l p = files_get l' p.
Proof.
  intros l l' H p. unfold files_agree_b in H. rewrite forallb_forall in H.
  destruct (in_dec (list_eq_dec string_dec) p (map fst l ++ map fst l')) as [Hin|Hn].
  - apply ooop_beq_eq. apply H. exact Hin.
  - assert (A : ~ In p (map fst l)) by (intro X; apply Hn, in_or_app; left; exact X).
    assert (B : ~ In p (map fst l')) by (intro X; apply Hn, in_or_app; right; exact X).
    apply files_get_None_notin in A. apply files_get_None_notin in B. congruence.
Qed.

Lemma readback_of_tables : forall c c',
  files_agree_b (c_files c') (map norm_fentry (c_files c)) = true -> c_subs c' = map norm_sentry (c_subs c) -> ReadBack c c'.
Proof.
  intros c c' E1 E2.
  assert (G : forall p, cache_get_file c' p = option_map norm_op (cache_get_file c p)).
  { intro p. unfold cache_get_file. rewrite (files_agree_b_sound _ _ E1 p), files_get_map_norm.
    destruct (files_get (c_files c) p) as [[o|]|]; reflexivity. }
  split; [exact G|]. split.
  - intro p. unfold cache_created_file. rewrite G. destruct (cache_get_file c p) as [o|]; [|reflexivity].
    destruct o; reflexivity.
  - intro k. rewrite E2. apply subs_get_map_norm.
Qed.

(* the cache at the end of the run of the root function of the build started in w, against the
   cache the build started in w' finds; and the conclusion of SimF6.okc_next_closed for the clock of w' *)
Definition link_b (cf : path) (nm : string) (vers : pyval) (root : prog) (w w' : world) : bool :=
  match sanitize vers, mech_root cf nm vers root w with
  | Some svers, Some (_, (w2, _)) =>
      let old' := old_cache_of (w_fs w') cf nm svers in
      (files_agree_b (c_files old') (map norm_fentry (c_files (w_new w2))) &&
       all2 sentry_beq (c_subs old') (map norm_sentry (c_subs (w_new w2))) &&
       N.leb (w_clock w2) (w_clock w') && okcb (w_clock w') (w_new w2) && okcb (w_clock w') old')%bool
  | _, _ => false
  end.

Lemma all2_sentry_eq : forall l l', all2 sentry_beq l l' = true -> l = l'.
Proof.
  induction l as [|x l IH]; intros [|y l'] H; cbn [all2] in H; try discriminate; [reflexivity|].
  apply andb_true_iff in H. destruct H as [H1 H2]. rewrite (sentry_beq_eq _ _ H1), (IH _ H2). reflexivity.
Qed.

(* what the checker establishes: the conclusion of [link]'s second clause for the run of the root
   function that mech_root computes, the clock condition, and both caches in the class *)
Lemma link_b_sound : forall cf nm vers svers root w w' wa w2 r,
  sanitize vers = Some svers -> mech_root cf nm vers root w = Some (wa, (w2, r)) ->
  link_b cf nm vers root w w' = true ->
  ReadBack (w_new w2) (old_cache_of (w_fs w') cf nm svers) /\ (w_clock w2 <= w_clock w')%N /\
  okc (w_clock w') (w_new w2) /\ okc (w_clock w') (old_cache_of (w_fs w') cf nm svers).
Proof.
  intros cf nm vers svers root w w' wa w2 r Hsv Hm H. unfold link_b in H. rewrite Hsv, Hm in H. cbv zeta in H.
  apply andb_true_iff in H. destruct H as [H H5]. apply andb_true_iff in H. destruct H as [H H4].
  apply andb_true_iff in H. destruct H as [H H3]. apply andb_true_iff in H. destruct H as [H1 H2].
  split; [exact (readback_of_tables _ _ H1 (all2_sentry_eq _ _ H2))|]. split; [apply N.leb_le; exact H3|].
  split; apply okcb_sound; assumption.
Qed.

Module Ex.
  Import SimCEx.Ex.
  (* build 1 -> 2, 2 -> 3 (a source changed in between), 3 -> 4 *)
  Example links : [link_b CF "n" V root w0 w1; link_b CF "n" V root w1 w2'; link_b CF "n" V root w2' w3] = [true; true; true].
  Proof. vm_compute. reflexivity. Qed.
End Ex.

Print Assumptions link_b_sound.
