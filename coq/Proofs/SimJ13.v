(* Proofs/SimJ13.v — HASH records across builds, part 3 (SimD5 / SimD7 with hk = true): the class
   okcH across builds.  For a build whose root function returns, with a previous cache in okcH
   and a program that satisfies the side conditions of SimJ9.build_agree_hash (NO condition on
   comparison modes), SimC15.RkNew and SimD5.NoCatch:
     new_cache_calmH, new_cache_shapeH, and
     okcH_next : okcH c1 (w_new w2) follows from SimD7.RestStatic c1 (w_new w2)
   (RestStatic: the conditions of the class that SimD7 leaves open; they do not mention
   comparison modes).  In particular a build that compares by HASH leaves a cache in okcH
   under the same residual conditions under which a METADATA build leaves one in okc.       *)
From Coq Require Import List String Ascii NArith ZArith Bool Arith Lia.
From FB.Base Require Import PyVal Fs.
From FB.Gen Require Import JsonUtilGen.
From FB.Spec Require Import JsonSpec Prog Ref Oracle Faithful.
From FB.Model Require Import Types Monad CreatedFiles BuildDirs SimpleOps Builder Persist Build Run Frame Core CoreOracle.
From FB.Proofs Require Import FsLemmas JsonLaws ReplayLaws BuildFileLaws CoreLaws1 CoreLaws2 CoreLaws3 CoreLaws4
     CoreNextRegs CoreNextState
     HashMemoInv ViewDefs ViewLemmas ViewInit ViewXDefs ViewH4 ViewH6 ViewR2 ViewR3 ViewK3 ViewK4 ViewK8
     SimA0 SimA2Base SimAMain SimB2 SimB7 SimB9 SimC0 SimC5 SimC12 SimC14 SimC15 SimD5 SimD7 SimG5 SimJ4 SimJ9 SimJ11 SimJ12.
Import ListNotations.
Open Scope list_scope.

Lemma okcH_ClassCalm : forall c0 old, okcH c0 old -> ClassCalm old.
Proof.
  intros c0 old [H1 H2]. split.
  - intros p p' c' f' a' k' subs' r' cr' sf' Eg. pose proof (H1 _ _ Eg) as K. cbn [frec_staticH orb] in K.
    apply andb_true_iff in K. destruct K as [_ K]. apply andb_true_iff in K. destruct K as [_ K].
    unfold subs_staticH in K.
    apply andb_true_iff in K. destruct K as [K _]. apply andb_true_iff in K. destruct K as [K _].
    apply andb_true_iff in K. destruct K as [K _]. apply andb_true_iff in K. destruct K as [K _].
    apply andb_true_iff in K. destruct K as [K _]. apply andb_true_iff in K. destruct K as [_ K]. exact K.
  - intros k f' a' k' subs' r' sf' Eg. destruct (H2 _ _ Eg) as (q & _ & K). cbn [srec_staticH orb] in K.
    do 6 (apply andb_true_iff in K; destruct K as [K _]).
    unfold subs_staticH in K.
    apply andb_true_iff in K. destruct K as [K _]. apply andb_true_iff in K. destruct K as [K _].
    apply andb_true_iff in K. destruct K as [K _]. apply andb_true_iff in K. destruct K as [K _].
    apply andb_true_iff in K. destruct K as [K _]. apply andb_true_iff in K. destruct K as [_ K]. exact K.
Qed.


Theorem new_cache_calmH : forall w cachefile old nm svers root w1 w2 v l,
  okcH (w_clock w) old -> fs_wf (w_fs w) -> old_ok old cachefile -> WfCache old -> old_keys_ok old -> w_faults w = [] ->
  path_ok (dirname cachefile) = true -> isdir (w_fs w) cachefile = false -> maxlen (w_fs w) < walk_fuel ->
  vdir (Build.start_world w cachefile old nm svers) (dirname cachefile) = true ->
  AllTargets tgtP root -> NoNest [] root -> QueriesOkP root -> WfArgs root ->
  TargetsClear old root -> TargetsApart old root ->
  NoCatch root ->
  make_dirs (dirname cachefile) (Build.start_world w cachefile old nm svers) = (w1, inl []) ->
  (* the root function returns *)
  run root None [] (set_log (LInvoke "<root>"%string None PNone PNone :: w_log w1) w1) = (w2, (inl v, l)) ->
  (forall p o, cache_get_file (w_new w2) p = Some o -> forallb calm (op_subs o) = true) /\
  (forall k o, subs_get (c_subs (w_new w2)) k = Some (Some o) -> forallb calm (op_subs o) = true).
Proof.
  intros w cachefile old nm svers root w1 w2 v l Hokc Hwf Hok HW HKo HF Hp Hnc Hml Hd Hat Hnn Hqk Hwa Hcl Hap Hno Emk Erun.
  destruct (build_run_hash w cachefile old nm svers root w1 w2 (inl v) l Hokc Hwf Hok HW HKo HF Hp Hnc Hml Hd Hat Hnn Hqk Hwa Hcl Hap Emk Erun)
    as (s1 & pd & sb & T' & W' & Ecore & [HS _]).
  pose proof (Sim4_sim3 _ _ _ _ HS) as HS3.
  set (s0 := ViewK4.core_start (w_fs w) cachefile old svers (w_clock w) (w_nextid w) (LInvoke "<root>"%string None PNone PNone :: w_log w1)) in *.
  assert (HT0: KC s0) by (split; intros q x []).
  destruct (core_run_calm old (okcH_ClassCalm _ _ Hokc) root Hno None None [] s0 s1 v pd sb (eq_refl : k_old s0 = old) HT0 eq_refl Ecore)
    as ([T1 T2] & _ & _).
  split.
  - intros p o Hg. pose proof (s3_recF _ _ _ HS3 p) as K. rewrite Hg in K.
    destruct (kf_get (k_newF s1) p) as [o'|] eqn:E; [|contradiction].
    apply (rec_rel_calm_subs o o' K). apply (T1 p o'). apply kf_get_in. exact E.
  - intros k o Hg. pose proof (s3_recS _ _ _ HS3 k) as K. rewrite Hg in K.
    destruct (ks_get (k_newS s1) k) as [o'|] eqn:E; [|contradiction].
    apply (rec_rel_calm_subs o o' K). destruct (ks_get_in _ _ _ E) as [q Hq]. apply (T2 q o' Hq).
Qed.


Theorem new_cache_shapeH : forall w cachefile old nm svers root w1 w2 r l,
  okcH (w_clock w) old -> fs_wf (w_fs w) -> old_ok old cachefile -> WfCache old -> old_keys_ok old -> w_faults w = [] ->
  path_ok (dirname cachefile) = true -> isdir (w_fs w) cachefile = false -> maxlen (w_fs w) < walk_fuel ->
  vdir (Build.start_world w cachefile old nm svers) (dirname cachefile) = true ->
  AllTargets tgtP root -> NoNest [] root -> QueriesOkP root -> WfArgs root ->
  TargetsClear old root -> TargetsApart old root ->
  make_dirs (dirname cachefile) (Build.start_world w cachefile old nm svers) = (w1, inl []) ->
  run root None [] (set_log (LInvoke "<root>"%string None PNone PNone :: w_log w1) w1) = (w2, (r, l)) ->
  forall p o, cache_get_file (w_new w2) p = Some o ->
    exists c' f' a' k' subs' r' cr' ra' sf', o = OBuildFile p c' f' a' k' subs' r' cr' ra' sf'.
Proof.
  intros w cachefile old nm svers root w1 w2 r l Hokc Hwf Hok HW HKo HF Hp Hnc Hml Hd Hat Hnn Hqk Hwa Hcl Hap Emk Erun p o Hg.
  destruct (build_run_hash w cachefile old nm svers root w1 w2 r l Hokc Hwf Hok HW HKo HF Hp Hnc Hml Hd Hat Hnn Hqk Hwa Hcl Hap Emk Erun)
    as (s1 & pd & sb & T' & W' & Ecore & [HS _]).
  pose proof (Sim4_sim3 _ _ _ _ HS) as HS3.
  destruct (core_run_ext root _ _ _ _ _ _ _ _ Ecore) as (produced & _ & HX).
  destruct (x_newF _ _ _ _ _ HX) as (nF & EnF & HnF). cbn [ViewK4.core_start k_newF app] in EnF.
  pose proof (s3_recF _ _ _ HS3 p) as K. rewrite Hg in K.
  destruct (kf_get (k_newF s1) p) as [o'|] eqn:E; [|contradiction].
  apply kf_get_in in E. rewrite EnF in E. destruct (HnF p o' E) as (_ & (c & f & a & k & subs & r0 & cr & ra & ->) & _).
  exact (rec_rel_path o p c f a k subs r0 cr ra false K).
Qed.


Theorem okcH_next : forall w cachefile old nm svers root w1 w2 v l c1,
  okcH (w_clock w) old -> fs_wf (w_fs w) -> old_ok old cachefile -> WfCache old -> old_keys_ok old -> w_faults w = [] ->
  path_ok (dirname cachefile) = true -> isdir (w_fs w) cachefile = false -> maxlen (w_fs w) < walk_fuel ->
  vdir (Build.start_world w cachefile old nm svers) (dirname cachefile) = true ->
  AllTargets tgtP root -> NoNest [] root -> QueriesOkP root -> WfArgs root ->
  TargetsClear old root -> TargetsApart old root -> RkNew old [] root ->
  (* no function catches the exception of a nested call *)
  NoCatch root ->
  make_dirs (dirname cachefile) (Build.start_world w cachefile old nm svers) = (w1, inl []) ->
  (* the root function returns *)
  run root None [] (set_log (LInvoke "<root>"%string None PNone PNone :: w_log w1) w1) = (w2, (inl v, l)) ->
  RestStatic c1 (w_new w2) ->
  okcH c1 (w_new w2).
Proof.
  intros w cachefile old nm svers root w1 w2 v l c1 Hokc Hwf Hok HW HKo HF Hp Hnc Hml Hd Hat Hnn Hqk Hwa Hcl Hap Hnew Hno Emk Erun [HR1 HR2].
  destruct (new_cache_rec_okH w cachefile old nm svers root w1 w2 (inl v) l Hokc Hwf Hok HW HKo HF Hp Hnc Hml Hd Hat Hnn Hqk Hwa Hcl Hap Hnew Emk Erun)
    as (A1 & A2 & A3).
  destruct (new_cache_calmH w cachefile old nm svers root w1 w2 v l Hokc Hwf Hok HW HKo HF Hp Hnc Hml Hd Hat Hnn Hqk Hwa Hcl Hap Hno Emk Erun)
    as (B1 & B2).
  pose proof (new_cache_shapeH w cachefile old nm svers root w1 w2 (inl v) l Hokc Hwf Hok HW HKo HF Hp Hnc Hml Hd Hat Hnn Hqk Hwa Hcl Hap Emk Erun) as Sh.
  split.
  - intros p rec Hg. destruct (Sh p rec Hg) as (c' & f' & a' & k' & subs' & r' & cr' & ra' & sf' & ->).
    cbn [frec_staticH]. replace (path_eqb p p) with true by (symmetry; apply path_eqb_eq; reflexivity). cbn [andb].
    destruct ra'; [reflexivity|]. cbn [orb].
    pose proof (A1 _ _ Hg) as K. cbn [rec_ok orb] in K.
    apply andb_true_iff in K. destruct K as [K K6]. apply andb_true_iff in K. destruct K as [K _].
    apply andb_true_iff in K. destruct K as [K K4]. apply andb_true_iff in K. destruct K as [K _].
    apply andb_true_iff in K. destruct K as [K1 K2].
    rewrite K1, K4, K2. cbn [andb].
    destruct (HR1 _ _ _ _ _ _ _ _ _ _ Hg) as (R1 & R2 & R3 & R4).
    unfold subs_staticH. cbn [ostack]. rewrite (A3 _ _ _ _ _ _ _ _ _ _ _ Hg). pose proof (B1 _ _ Hg) as Kc. cbn [op_subs] in Kc. rewrite Kc, R1, R2, R3, R4. cbn [andb].
    rewrite forallb_forall in K6. apply forallb_forall. intros x Hx. exact (rec_ok_wfrec true x _ (K6 x Hx)).
  - intros k rec Hg.
    destruct (subs_get_in _ _ _ Hg) as (qe & _ & Hqe).
    destruct rec as [q0 r0 e0|p' c' f' a' k' sb' rt' cr' ra' sf'|f0 a0 k0 sb0 r0 ra0 sf0];
      [exists qe; split; [exact Hqe|reflexivity]|exists qe; split; [exact Hqe|reflexivity]|].
    destruct ra0; [exists qe; split; [exact Hqe|reflexivity]|].
    destruct (HR2 _ _ _ _ _ _ _ Hg) as ((R1 & R2 & R3 & R4) & S1 & S2 & S3 & S4 & q & Q1 & Q2 & Q3).
    exists q. split; [exact Q1|]. cbn [srec_staticH orb].
    pose proof (A2 _ _ Hg) as K. cbn [rec_ok] in K.
    pose proof (B2 _ _ Hg) as Kc. cbn [op_subs] in Kc.
    unfold subs_staticH. cbn [ostack]. rewrite K, Kc, R1, R2, R3, R4, S1, S2, S3, S4, Q2, Q3. cbn [andb].
    rewrite !andb_true_r.
    rewrite forallb_forall in K. apply forallb_forall. intros x Hx. exact (rec_ok_wfrec true x _ (K x Hx)).
Qed.


Print Assumptions new_cache_calmH.
Print Assumptions new_cache_shapeH.
Print Assumptions okcH_next.
