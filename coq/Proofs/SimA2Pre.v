(* Proofs/SimA2Pre.v — C04, the link to Core, run level: the setup of build_file up to the
   reservation of the target (SimA2.bf_pre: claimed?  cache file?  _prepare_file_creation,
   started_building_file) against Core's claim_check / setup_fs: the same failure with related
   states, or the target reserved and the missing directories made on both sides. *)
From Coq Require Import List String Ascii NArith ZArith Bool Arith Lia.
From FB.Base Require Import PyVal Fs.
From FB.Gen Require Import JsonUtilGen.
From FB.Spec Require Import JsonSpec Prog Ref Oracle Faithful.
From FB.Model Require Import Types Monad CreatedFiles BuildDirs SimpleOps Builder Persist Build Run Frame Core CoreOracle.
From FB.Proofs Require Import FsLemmas JsonLaws CoreLawsChildren ReplayLaws CleanLaws BuildFileLaws HashMemoInv HashMemoRun CoreLaws1 CoreLaws2 CoreLaws3
     ViewDefs ViewLemmas ViewScan ViewQueries ViewAnswers ViewFrame ViewPrepare ViewInit ViewXDefs ViewXError ViewXQuery ViewXSteps
     ViewXMake1 ViewXMake2 ViewXFail ViewXRoom2 ViewXOld ViewXSetup ViewXRun
     ViewR1 ViewR2 ViewR3 ViewK1 ViewK2 ViewK3 ViewK4 ViewK5 ViewK6 ViewK7 ViewK8
     SimA0 SimA1 SimARun SimA2 SimA2Base SimA1Dirs SimA1Room SimA1Vlog SimA1Started.
Import ListNotations.
Open Scope list_scope.
Open Scope m_scope.

Local Notation RInv2' := (RInv2 (fun _ => True)).

(* ------------------------------------------------------------------ transport of Sim4pre *)
(* a step of the mechanism that Core does not see: Sim3 and RInv2 afterwards, and the
   components that Sim4pre reads besides are unchanged *)
Lemma Sim4pre_transport : forall T W w w' s, Sim4pre T W w s ->
  Sim3 W w' s -> RInv2' T w' ->
  (forall x, mem_path x (bd_created (w_bd w')) = mem_path x (bd_created (w_bd w))) ->
  w_cachefile w' = w_cachefile w -> w_new w' = w_new w -> Sim4pre T W w' s.
Proof.
  intros T W w w' s [P1 P2 P5 P6 P7 P8 P9 P10 P11 P12 P13 P14] HS HR Hc Hcf Hn.
  constructor; try assumption.
  - intro x. rewrite Hc. apply P7.
  - intros x Hx. rewrite Hcf in Hx. apply P10. exact Hx.
  - intros x Hx. rewrite Hcf. apply P11. exact Hx.
  - intros q v Hin. rewrite Hn in Hin. eapply P12. exact Hin.
  - rewrite Hn. exact P13.
Qed.

(* read-only steps *)
Lemma Sim4c_qrel : forall T W w w' s, Sim4c T W w s -> qrel w w' -> Sim4c T W w' s.
Proof.
  intros T W w w' s [HP HL] Q.
  pose proof (s4_rinv _ _ _ _ HP) as HR2. pose proof (RInv2_R' _ _ HR2) as HR. pose proof (RInv_X _ _ HR) as HX.
  destruct (qrel_facts _ _ _ HX Q) as (_ & Sa & _ & _).
  split.
  - apply (Sim4pre_transport T W w w' s HP).
    + apply (Sim3_qrel T W w w' s HX Q (s4_sim _ _ _ _ HP)).
    + apply (RInv2_step _ _ _ _ HR2).
      * apply (svb_gl walk_fuel). apply Q.
      * apply (qrel_RInv T _ _ Q HR).
    + intro x. rewrite (sv_created _ _ Sa). reflexivity.
    + apply (sv_cf _ _ Sa).
    + apply (sv_new _ _ Sa).
  - intros x Hx. rewrite (sv_new _ _ Sa). apply HL. exact Hx.
Qed.

Lemma qrel_same : forall T w w', XInv T w -> qrel w w' ->
  w_fs w' = w_fs w /\ w_new w' = w_new w /\ w_old w' = w_old w /\ w_cachefile w' = w_cachefile w.
Proof.
  intros T w w' HX Q. destruct (qrel_facts _ _ _ HX Q) as (_ & Sa & _ & _).
  split; [apply (sv_fs _ _ Sa)|]. split; [apply (sv_new _ _ Sa)|]. split; [apply (sv_old _ _ Sa)|apply (sv_cf _ _ Sa)].
Qed.

(* ------------------------------------------------------------------ small facts *)
Lemma created_file_In : forall c y, cache_created_file c y = true -> In y (cache_created_files c).
Proof.
  intros c y. unfold cache_created_file, cache_get_file, cache_created_files.
  induction (c_files c) as [|[q o] l IH]; cbn [files_get flat_map fst snd]; [discriminate|].
  destruct (path_eqb q y) eqn:E.
  - apply path_eqb_eq in E. subst q. destruct o as [o|]; [|discriminate]. intro H.
    destruct (op_raised o); [discriminate|]. left. reflexivity.
  - intro H. apply in_or_app. right. apply IH. exact H.
Qed.

Lemma suffix_dec' : forall p a : path, suffix p a \/ ~ suffix p a.
Proof.
  intros p a. induction a as [|m q IH].
  - destruct p; [left; apply suffix_refl|right; intro H; apply suffix_nil in H; discriminate].
  - destruct (list_eq_dec string_dec p (m :: q)) as [->|Hne]; [left; apply suffix_refl|].
    destruct IH as [H|H]; [left; apply suffix_cons; exact H|right].
    intro K. apply suffix_inv in K. destruct K; [congruence|contradiction].
Qed.

Lemma wf_below_absent : forall fs p a, fs_wf fs -> lookup fs p = None -> suffix p a -> lookup fs a = None.
Proof.
  intros fs p a Hwf Hp [l ->]. destruct l as [|m l]; [exact Hp|].
  destruct (lookup fs ((m :: l) ++ p)) as [x|] eqn:E; [|reflexivity].
  pose proof (Hwf _ _ E) as K. cbn [app dirname tl] in K.
  rewrite (wf_suffix_dir fs (l ++ p) p Hwf K) in Hp; [discriminate|]. exists l. reflexivity.
Qed.

Lemma dead_below_invisible : forall w p a, fs_wf (w_fs w) -> dead w p = true -> suffix p a -> visible w a = false.
Proof.
  intros w p a Hwf Hd Hs. destruct (visible w a) eqn:E; [|reflexivity].
  rewrite (visible_alive_up w a p Hwf E Hs) in Hd. discriminate.
Qed.

Lemma suffix_split : forall p a : path, suffix p a -> a = p \/ psuffix p a.
Proof. intros p a [l ->]. destruct l as [|m l]; [left; reflexivity|right; exists m, l; reflexivity]. Qed.

(* ------------------------------------------------------------------ _make_room on a dead directory *)
(* the view does not change: everything at or below the directory was invisible and is absent
   afterwards *)
Lemma room_view : forall T p w w1, XInv T w -> XInv T w1 -> rrel (below_eq p) w w1 ->
  dead w p = true -> lookup (w_fs w1) p = None ->
  forall a, lookup (view_fs w1) a = lookup (view_fs w) a.
Proof.
  intros T p w w1 HX HX1 R Hd Hg a. destruct a as [|m q]; [reflexivity|].
  rewrite !lookup_view by discriminate.
  destruct (suffix_dec' p (m :: q)) as [Hs|Hs].
  - rewrite (dead_below_invisible w p _ (bi_wf _ (x_binv _ _ HX)) Hd Hs).
    rewrite (wf_below_absent _ p _ (bi_wf _ (x_binv _ _ HX1)) Hg Hs). destruct (visible w1 (m :: q)); reflexivity.
  - destruct (rr_same _ _ _ R (m :: q) Hs) as [E1 E2].
    assert (Ev: visible w1 (m :: q) = visible w (m :: q)).
    { unfold visible. rewrite E1, E2. unfold hid. rewrite (rr_new _ _ _ R), (rr_old _ _ _ R), (rr_cf _ _ _ R). reflexivity. }
    rewrite Ev, E1. reflexivity.
Qed.

Lemma room_sim : forall st T W w s n d w1 r,
  Sim4c T W w s -> (forall y, In y st -> inprog w y) -> (forall y, In y st -> isdir (w_fs w) y = false) ->
  (forall a, In a (cache_created_files (w_old w)) -> ~ psuffix (n :: d) a) ->
  isdir (w_fs w) (n :: d) = true -> dead w (n :: d) = true ->
  make_room room_fuel (n :: d) w = (w1, r) ->
  r = inl tt /\ Sim4c T W w1 s /\ lookup (w_fs w1) (n :: d) = None /\
  w_new w1 = w_new w /\ w_old w1 = w_old w /\ w_cachefile w1 = w_cachefile w /\
  (forall y, In y st -> lookup (w_fs w1) y = lookup (w_fs w) y).
Proof.
  intros st T W w s n d w1 r [HP HL] HCp HCd Hbelow Hdir Hdead H.
  pose proof (s4_rinv _ _ _ _ HP) as HR2. pose proof (RInv2_R' _ _ HR2) as HR. pose proof HR as (HX & HPI & HF).
  pose proof (RInv2_maxlen _ _ HR2) as Hml.
  destruct (make_room_clear T (n :: d) w w1 r HR) as (-> & Hcnt & Hcre & Hlog); [unfold walk_fuel in Hml; unfold room_fuel; lia|exact Hdir|exact Hdead|exact H|].
  assert (HRI: RI T (n :: d) w) by (split; [exact HX|split; [exact Hdir|split; [exact Hdead|exact HF]]]).
  destruct (make_room_ok T _ _ _ _ _ HRI H) as (HX1 & R & Hgone). specialize (Hgone eq_refl).
  pose proof (RInv_rrel _ _ _ _ HR HX1 R) as HR1.
  pose proof (make_room_gl walk_fuel _ _ _ _ _ H) as G.
  pose proof (room_view T _ _ _ HX HX1 R Hdead Hgone) as Hview.
  pose proof (s4_sim _ _ _ _ HP) as HS.
  split; [reflexivity|]. split; [|split; [exact Hgone|split; [apply (rr_new _ _ _ R)|split; [apply (rr_old _ _ _ R)|split; [apply (rr_cf _ _ _ R)|]]]]].
  - split.
    + apply (Sim4pre_transport T W w w1 s HP).
      * destruct HS as [S1 S2 S3 S4 S5 S6 S7 S8 S9 S10].
        constructor; rewrite ?(rr_new _ _ _ R), ?(rr_old _ _ _ R), ?(rr_cf _ _ _ R), ?Hlog; try assumption.
        -- intro y. specialize (S1 y). rewrite (Hview y). exact S1.
        -- intro y. rewrite (S10 y).
           destruct (suffix_dec' (n :: d) y) as [Hs|Hs].
           ++ rewrite (wf_below_absent _ _ _ (bi_wf _ (x_binv _ _ HX1)) Hgone Hs).
              destruct (suffix_split _ _ Hs) as [->|Hps].
              ** apply isdir_lookup in Hdir. rewrite Hdir. reflexivity.
              ** destruct (lookup (w_fs w) y) as [[f|]|]; try reflexivity.
                 destruct (cache_created_file (w_old w) y) eqn:Ec; [|reflexivity].
                 exfalso. apply (Hbelow y (created_file_In _ _ Ec) Hps).
           ++ destruct (rr_same _ _ _ R y Hs) as [E1 _]. rewrite E1. reflexivity.
      * apply (RInv2_step _ _ _ _ HR2 G HR1).
      * intro x. rewrite Hcre. reflexivity.
      * apply (rr_cf _ _ _ R).
      * apply (rr_new _ _ _ R).
    + intros x Hx. rewrite (rr_new _ _ _ R). apply HL. exact Hx.
  - intros y Hy. apply (rr_same _ _ _ R). intro Hs. unfold below_eq in Hs.
    pose proof (HCp y Hy) as Hprog. pose proof (HPI y Hprog) as HinT.
    destruct (suffix_split _ _ Hs) as [->|Hps].
    + rewrite (HCd _ Hy) in Hdir. discriminate.
    + pose proof (X_target_parent _ _ _ HX HinT) as Hc.
      assert (Hs': suffix (n :: d) (dirname y)).
      { destruct Hps as [m [l ->]]. cbn [app dirname tl]. exists l. reflexivity. }
      pose proof (counts_up_suffix w _ _ (x_binv _ _ HX) Hc Hs') as Hcp.
      rewrite (dead_counts _ _ Hcp) in Hdead. discriminate.
Qed.

(* ------------------------------------------------------------------ _make_dirs against missing_dirs / mkdir_all *)
Lemma tgtP_parts : forall n d, tgtP (n :: d) -> path_ok d = true /\ List.length d < walk_fuel.
Proof.
  intros n d H. pose proof (tgtP_len _ H) as Hl. cbn [List.length] in Hl. split; [|lia].
  unfold tgtP, tgt_ok in H. apply andb_true_iff in H. destruct H as [H _].
  cbn [path_ok forallb] in H. apply andb_true_iff in H. apply H.
Qed.

Lemma kdir_false : forall W w s p, Sim3 W w s -> isdir (w_fs w) p = false -> isdir (k_fs s) p = false.
Proof.
  intros W w s p HS H. destruct (isdir (k_fs s) p) eqn:E; [|reflexivity].
  apply isdir_lookup in E. apply (sim3_dir_disk _ _ _ _ HS) in E. unfold isdir in H. rewrite E in H. discriminate.
Qed.

Lemma missing_dirs_sim : forall W w s d, Sim3 W w s ->
  missing_dirs (k_fs s) (k_cachefile s) d = missing_dirs (view_fs w) (w_cachefile w) d.
Proof.
  intros W w s d HS. rewrite (s3_cf _ _ _ HS). symmetry. apply missing_dirs_te. eapply trel_te. apply (Sim3_trel _ _ _ HS).
Qed.

(* no ancestor-or-self of the directory of the target is a target in progress *)
Lemma no_prog_above : forall st w n d, (forall y, inprog w y -> In y st) ->
  (forall t, In t st -> ~ psuffix t (n :: d)) ->
  forall y, suffix y d -> files_get (c_files (w_new w)) y <> Some None.
Proof.
  intros st w n d Hprog Hst y Hs Hy. apply (Hst y (Hprog y Hy)). apply psuffix_cons. exact Hs.
Qed.

Lemma dirs_sim_err : forall st T W w s n d wa e,
  Sim4c T W w s -> (forall y, inprog w y -> In y st) -> tgt_conds st (w_old w) (n :: d) ->
  isdir (w_fs w) (n :: d) = false ->
  make_dirs d w = (wa, inr e) ->
  setup_fs (k_fs s) (k_cachefile s) (n :: d) = inr e /\ Sim4c T W wa s /\
  w_fs wa = w_fs w /\ w_new wa = w_new w /\ w_old wa = w_old w.
Proof.
  intros st T W w s n d wa e HS4 Hprog (Htg & Hst & _ & _) Hnd H. pose proof HS4 as [HP HL].
  pose proof (s4_rinv _ _ _ _ HP) as HR2. pose proof (RInv2_R' _ _ HR2) as HR. pose proof (RInv_X _ _ HR) as HX.
  pose proof (s4_sim _ _ _ _ HP) as HS.
  destruct (tgtP_parts _ _ Htg) as [Hok Hlen].
  assert (Hd: dirs_to_make d None w = (wa, inr e)).
  { apply (make_dirs_noerr d T w wa e HR Hok); [|exact H].
    intros y Hy _. apply (no_prog_above st w n d Hprog Hst y Hy). }
  destruct (dirs_to_make_err d T w wa e HX Hok Hd) as (c & -> & Hmiss).
  pose proof (dirs_to_make_q _ _ _ _ _ Hd) as Q.
  destruct (qrel_same _ _ _ HX Q) as (F1 & F2 & F3 & _).
  split; [|split; [apply (Sim4c_qrel _ _ _ _ _ HS4 Q)|auto]].
  unfold setup_fs. rewrite (kdir_false _ _ _ _ HS Hnd). cbn [dirname tl].
  rewrite (missing_dirs_sim _ _ _ d HS), Hmiss. reflexivity.
Qed.

Lemma dirs_sim_ok : forall st T W w s n d wa ds wb locked,
  Sim4c T W w s -> (forall y, inprog w y -> In y st) -> tgt_conds st (w_old w) (n :: d) ->
  cache_has_file (w_new w) (n :: d) = false ->
  isdir (w_fs w) (n :: d) = false ->
  make_dirs d w = (wa, inl ds) ->
  m_bd_started (n :: d) ds wa = (wb, inl locked) ->
  exists fs1, setup_fs (k_fs s) (k_cachefile s) (n :: d) = inl (fs1, ds) /\
    SimSetup T W (n :: d) wb (core_s0 s (n :: d) fs1 ds) /\ w_new wb = w_new w /\ w_old wb = w_old w /\
    (forall y, In y st -> lookup (w_fs wb) y = lookup (w_fs w) y).
Proof.
  intros st T W w s n d wa ds wb locked HS4 Hprog (Htg & Hst & _ & Hold) Hunc Hnd Hmk Hstd.
  pose proof HS4 as [HP HL].
  pose proof (s4_rinv _ _ _ _ HP) as HR2. pose proof (RInv2_R' _ _ HR2) as HR. pose proof HR as (HX & HPI & HF).
  pose proof (s4_sim _ _ _ _ HP) as HS. pose proof (x_binv _ _ HX) as HB.
  destruct (tgtP_parts _ _ Htg) as [Hok Hlen].
  (* the mechanism side *)
  destruct (make_dirs_started_XInv T w n d wa ds wb locked HX HPI Hnd Hmk Hstd) as (HXb & HPb & Nb & Ob & Cb & Fsb).
  (* inside make_dirs *)
  pose proof Hmk as Hmk0. unfold make_dirs in Hmk0. apply bind_inv in Hmk0.
  destruct Hmk0 as [[w0 [ds0 [Eds H]]]|[e [_ H]]]; [|discriminate].
  apply bind_inv in H. destruct H as [[wx [u [Eloop H]]]|[e [_ H]]]; [|discriminate].
  inversion H; subst wx ds0. clear H.
  destruct (dirs_to_make_spec d T w w0 ds HX Eds) as [Q I O].
  destruct (qrel_facts _ _ _ HX Q) as (HX0 & Sa & _ & _).
  destruct (make_dirs_loop_res _ _ _ _ _ Eloop) as [((C1 & C2 & C3 & C4) & Sw2 & Sw3) M].
  assert (Ewb: wb = set_bd (fst (bd_started (w_bd wa) (n :: d) ds)) wa).
  { unfold m_bd_started in Hstd. destruct (bd_started (w_bd wa) (n :: d) ds) as [b' l]. inversion Hstd; reflexivity. }
  assert (Hnofile: forall y, In y ds -> isfile (w_fs wb) y = false).
  { intros y Hy. rewrite Ewb. cbn [w_fs set_bd]. destruct (I y Hy) as (A & B & C & D & E).
    destruct (M y Hy) as [K|(K1 & K2 & K3)]; [unfold isfile; rewrite K; reflexivity|].
    destruct (isfile (w_fs wa) y) eqn:Ef; [|reflexivity]. exfalso.
    unfold isfile in Ef. rewrite K1 in Ef. fold (isfile (w_fs w0) y) in Ef.
    pose proof (K3 Ef) as Hnc. rewrite (sv_old _ _ Sa) in Hnc. rewrite (sv_fs _ _ Sa) in Ef.
    unfold vfile in D. rewrite Ef in D. cbn [andb] in D. apply negb_false_iff in D.
    unfold hid in D. apply path_eqb_neq in E. rewrite E in D. cbn [orb] in D.
    unfold cache_has_file, cache_get_file in D.
    destruct (files_get (c_files (w_new w)) y) as [[o|]|] eqn:Eg; [discriminate| |congruence].
    apply (no_prog_above st w n d Hprog Hst y A Eg). }
  destruct (view_setup T w n d wa ds wb locked HX HPI Hnd Hok Hmk Hstd Hnofile) as (Hmiss & fsv & Mv & Lv).
  destruct (missing_made _ _ _ _ Hok Hmiss) as (fsv' & Mv' & Lv' & _ & _).
  rewrite Mv in Mv'. inversion Mv'; subst fsv'. clear Mv'.
  assert (Hmk_k: missing_dirs (k_fs s) (k_cachefile s) d = inl ds) by (rewrite (missing_dirs_sim _ _ _ d HS); exact Hmiss).
  destruct (missing_made _ _ _ _ Hok Hmk_k) as (fs1 & M1 & L1 & D1 & Sfx).
  exists fs1.
  assert (Hview_none: forall y, In y ds -> lookup (view_fs w) y = None).
  { intros y Hy. destruct (I y Hy) as (_ & _ & C & D & _). apply (view_kind_none w y HB C D). }
  assert (Hk_nodir: forall y, In y ds -> lookup (k_fs s) y <> Some NDir).
  { intros y Hy K. apply (trel_dir_r _ _ _ _ (Sim3_trel _ _ _ HS)) in K. rewrite (Hview_none y Hy) in K. discriminate. }
  assert (Hnosuf: forall y, In y st -> ~ suffix y d).
  { intros y Hy Hs. apply (Hst y Hy). apply psuffix_cons. exact Hs. }
  split; [|split; [|split; [exact Nb|split; [exact Ob|]]]].
  - unfold setup_fs. rewrite (kdir_false _ _ _ _ HS Hnd). cbn [dirname tl]. rewrite Hmk_k, M1. reflexivity.
  - assert (Hfaults: w_faults wb = []).
    { pose proof (make_dirs_quiet d _ _ _ Hmk) as [_ Q1]. rewrite Ewb. cbn [w_faults set_bd]. congruence. }
    assert (G: gl walk_fuel w wb).
    { eapply gl_trans; [apply (make_dirs_gl walk_fuel _ _ _ _ Hmk Hlen)|]. apply svb_gl. apply (m_bd_started_svb _ _ _ _ _ Hstd). }
    assert (HRb2: RInv2' ((n :: d) :: T) wb).
    { apply (RInv2_step _ _ _ _ HR2 G). split; [exact HXb|split; [exact HPb|exact Hfaults]]. }
    assert (Hlog: vis_log (w_log wb) = vis_log (w_log w)).
    { pose proof (make_dirs_vq d _ _ _ Hmk) as V. cbn in V. unfold vq in V. rewrite Ewb. cbn [w_log set_bd]. exact V. }
    assert (HnotinT: ~ In (n :: d) T).
    { intro K. rewrite (HL _ K) in Hunc. discriminate. }
    assert (Hnd_b: isdir (w_fs wb) (n :: d) = false).
    { unfold isdir. rewrite Fsb; [exact Hnd|]. intro Hs. apply suffix_length in Hs. cbn [List.length] in Hs. lia. }
    split; [|split; [|split; [rewrite Nb; exact Hunc|exact Hnd_b]]].
    2:{ intros x Hx. rewrite Nb. apply HL. exact Hx. }
    destruct HP as [P1 P2 P5 P6 P7 P8 P9 P10 P11 P12 P13 P14].
    constructor; cbn [core_s0 ks_with k_fs k_stale k_claimedF k_claimedS k_need k_made k_clock k_nextid k_log k_cachefile k_old k_vers k_newF k_newS].
    + (* Sim3 *)
      destruct HS as [S1 S2 S3 S4 S5 S6 S7 S8 S9 S10].
      constructor; cbn [core_s0 ks_with k_fs k_stale k_claimedF k_claimedS k_need k_made k_clock k_nextid k_log k_cachefile k_old k_vers k_newF k_newS];
        rewrite ?Nb, ?Ob, ?Cb, ?Hlog; try assumption.
      * (* the tree *)
        apply (trel_pointwise W (view_fs w) (k_fs s) (view_fs wb) fs1 (fun x => if mem_path x ds then Some (Some NDir) else None)).
        -- exact S1.
        -- intro x. rewrite (Lv x), (Lv' x). destruct (mem_path x ds); reflexivity.
        -- intro x. rewrite (L1 x). destruct (mem_path x ds); reflexivity.
      * (* the stale store *)
        intro y. rewrite (S10 y).
        destruct (cache_created_file (w_old w) y) eqn:Ec.
        -- rewrite Fsb; [reflexivity|]. intro Hs. apply (Hold y (created_file_In _ _ Ec)). apply psuffix_cons. exact Hs.
        -- cbn [andb]. destruct (lookup (w_fs w) y) as [[f|]|]; destruct (lookup (w_fs wb) y) as [[g|]|]; reflexivity.
    + exact HRb2.
    + constructor; assumption.
    + intro x. cbn [mem_path]. rewrite orb_true_iff, P6. cbn [In]. rewrite path_eqb_eq. reflexivity.
    + (* k_made ~ bd_created *)
      intro x. rewrite mem_path_app, P7. rewrite Ewb. cbn [w_bd set_bd]. rewrite C1.
      rewrite (bd_started_created (w_bd w0) n d ds (x_pos _ _ HX0)).
      * rewrite (sv_created _ _ Sa). reflexivity.
      * intros y Hy. destruct (I y Hy) as (A & _). split; [exact A|].
        destruct (in_counts (w_bd w0) y) eqn:Ec; [|reflexivity]. exfalso.
        assert (Ec': in_counts (w_bd w) y = true) by (unfold in_counts in *; rewrite <- (sv_counts _ _ Sa); exact Ec).
        destruct (reserved_has_live T w y HX Ec') as (t & Ht & Hps).
        pose proof (P9 t Ht) as Kd.
        assert (Hs: suffix y (dirname t)) by (destruct Hps as [m [l ->]]; exists l; reflexivity).
        apply (Hk_nodir y Hy). apply (wf_suffix_dir _ _ _ P8 Kd Hs).
      * intros y x0 Hy Hyx Hxd. destruct (in_dec (list_eq_dec string_dec) x0 ds) as [Hin|Hin]; [exact Hin|]. exfalso.
        destruct (O x0 Hxd Hin) as [_ Vx]. destruct (I y Hy) as (_ & _ & C & _).
        pose proof (vdir_visible _ _ Vx) as Vv.
        unfold vdir in C. rewrite (visible_alive_up w x0 y (bi_wf _ HB) Vv Hyx) in C.
        unfold vdir in Vx. apply andb_true_iff in Vx. destruct Vx as [Vi _]. apply isdir_lookup in Vi.
        unfold isdir in C. rewrite (wf_suffix_dir _ _ _ (bi_wf _ HB) Vi Hyx) in C. discriminate.
    + (* Core's tree is a tree *)
      destruct (setup_dirs _ _ _ _ _ P8 Hmk_k M1) as (_ & W1 & _). exact W1.
    + intros t [<-|Ht]; [exact D1|]. rewrite (L1 (dirname t)). rewrite (P9 t Ht). destruct (mem_path (dirname t) ds); reflexivity.
    + intros x Hx. rewrite Cb in Hx. rewrite (L1 x), (P10 x Hx). destruct (mem_path x ds); reflexivity.
    + intros x Hx Hs. rewrite Cb in Hs. apply in_app_or in Hx. destruct Hx as [Hx|Hx]; [apply (P11 x Hx Hs)|].
      apply (Hk_nodir x Hx). apply (P10 x Hs).
    + intros q v Hin. rewrite Nb in Hin. eapply P12; exact Hin.
    + rewrite Nb. exact P13.
    + exact P14.
  - intros y Hy. apply Fsb. apply Hnosuf. exact Hy.
Qed.

(* ------------------------------------------------------------------ _prepare_file_creation against setup_fs *)
Definition frame_st (st : list path) (w w' : world) : Prop :=
  forall y, In y st -> lookup (w_fs w') y = lookup (w_fs w) y.

Lemma prepare_sim : forall st tg pend T W w s p wa r,
  Sim4c T W w s -> Ctx4 st tg pend w -> tgt_conds st (w_old w) p ->
  cache_has_file (w_new w) p = false ->
  prepare_file_creation p w = (wa, r) ->
  match r with
  | inr e => setup_fs (k_fs s) (k_cachefile s) p = inr e /\ Sim4c T W wa s /\
             w_new wa = w_new w /\ w_old wa = w_old w /\ frame_st st w wa
  | inl ds => forall wb locked, m_bd_started p ds wa = (wb, inl locked) ->
      exists fs1, setup_fs (k_fs s) (k_cachefile s) p = inl (fs1, ds) /\
        SimSetup T W p wb (core_s0 s p fs1 ds) /\ w_new wb = w_new w /\ w_old wb = w_old w /\ frame_st st w wb
  end.
Proof.
  intros st tg pend T W w s p wa r HS4 HC Hcond Hunc H. pose proof HS4 as [HP HL].
  pose proof (s4_rinv _ _ _ _ HP) as HR2. pose proof (RInv2_R' _ _ HR2) as HR. pose proof (RInv_X _ _ HR) as HX.
  pose proof (s4_sim _ _ _ _ HP) as HS. pose proof (x_binv _ _ HX) as HB.
  unfold prepare_file_creation in H. apply bind_inv in H. unfold get in H.
  destruct H as [[wx [w0 [E0 H]]]|[e' [E0 _]]]; [|discriminate]. inversion E0; subst wx w0. clear E0.
  destruct p as [|n d].
  { (* the root: always a visible directory *)
    cbn [isdir lookup] in H. apply bind_inv in H.
    assert (Hroot: forall wc rc,
              (vd <- m_is_dir [] None ;; (if vd then raise (XOS XIsADirectory) else make_room room_fuel [])) w = (wc, rc) ->
              rc = inr (XOS XIsADirectory) /\ qrel w wc).
    { intros wc rc Hc. apply bind_inv in Hc. destruct Hc as [[wd [vd [Ed Hc]]]|[e'' [Ed _]]].
      - destruct (m_is_dir_inl _ _ _ _ _ HX Ed) as [Evd _]. rewrite (vdir_root _ HB) in Evd. subst vd.
        inversion Hc; subst. split; [reflexivity|apply (m_is_dir_q _ _ _ _ _ Ed)].
      - exfalso. apply (m_is_dir_noerr w [] wc e'' HB eq_refl Ed). }
    destruct H as [[wx [u2 [E4 _]]]|[e' [E4 Er]]].
    - destruct (Hroot _ _ E4) as [K _]. discriminate.
    - destruct (Hroot _ _ E4) as [K Q]. inversion K; subst e'. subst r.
      destruct (qrel_same _ _ _ HX Q) as (F1 & F2 & F3 & _).
      split; [reflexivity|]. split; [apply (Sim4c_qrel _ _ _ _ _ HS4 Q)|].
      split; [exact F2|]. split; [exact F3|]. intros y _. rewrite F1. reflexivity. }
  cbn [dirname tl] in H.
  pose proof Hcond as (Htg & Hst & Hbelow & Habove).
  assert (Hokp: path_ok (n :: d) = true).
  { unfold tgtP, tgt_ok in Htg. apply andb_true_iff in Htg. apply Htg. }
  (* the common end: make_dirs from a world in which the target is not a directory *)
  assert (Hend: forall wpre, Sim4c T W wpre s -> w_new wpre = w_new w -> w_old wpre = w_old w -> frame_st st w wpre ->
            isdir (w_fs wpre) (n :: d) = false -> make_dirs d wpre = (wa, r) ->
            match r with
            | inr e => setup_fs (k_fs s) (k_cachefile s) (n :: d) = inr e /\ Sim4c T W wa s /\
                       w_new wa = w_new w /\ w_old wa = w_old w /\ frame_st st w wa
            | inl ds => forall wb locked, m_bd_started (n :: d) ds wa = (wb, inl locked) ->
                exists fs1, setup_fs (k_fs s) (k_cachefile s) (n :: d) = inl (fs1, ds) /\
                  SimSetup T W (n :: d) wb (core_s0 s (n :: d) fs1 ds) /\ w_new wb = w_new w /\ w_old wb = w_old w /\
                  frame_st st w wb
            end).
  { intros wpre HSp En Eo Hfr Hnd Hmk.
    assert (Hprog: forall y, inprog wpre y -> In y st).
    { intros y Hy. apply (c4_prog _ _ _ _ HC). unfold inprog in *. rewrite <- En. exact Hy. }
    assert (Hcond': tgt_conds st (w_old wpre) (n :: d)) by (rewrite Eo; exact Hcond).
    destruct r as [ds|e].
    - intros wb locked Hstd.
      destruct (dirs_sim_ok st T W wpre s n d wa ds wb locked HSp Hprog Hcond') as (fs1 & A1 & A2 & A3 & A4 & A5);
        [rewrite En; exact Hunc|exact Hnd|exact Hmk|exact Hstd|].
      exists fs1. split; [exact A1|]. split; [exact A2|]. split; [congruence|]. split; [congruence|].
      intros y Hy. rewrite (A5 y Hy). apply Hfr. exact Hy.
    - destruct (dirs_sim_err st T W wpre s n d wa e HSp Hprog Hcond' Hnd Hmk) as (A1 & A2 & A3 & A4 & A5).
      split; [exact A1|]. split; [exact A2|]. split; [congruence|]. split; [congruence|].
      intros y Hy. rewrite A3. apply Hfr. exact Hy. }
  destruct (isdir (w_fs w) (n :: d)) eqn:Ei.
  - apply bind_inv in H.
    assert (Hfirst: forall wc rc,
              (vd <- m_is_dir (n :: d) None ;; (if vd then raise (XOS XIsADirectory) else make_room room_fuel (n :: d))) w = (wc, rc) ->
              (rc = inr (XOS XIsADirectory) /\ qrel w wc /\ isdir (k_fs s) (n :: d) = true) \/
              (rc = inl tt /\ Sim4c T W wc s /\ lookup (w_fs wc) (n :: d) = None /\
               w_new wc = w_new w /\ w_old wc = w_old w /\ frame_st st w wc)).
    { intros wc rc Hc. apply bind_inv in Hc. destruct Hc as [[wd [vd [Ed Hc]]]|[e'' [Ed _]]].
      2:{ exfalso. apply (m_is_dir_noerr w (n :: d) wc e'' HB Hokp Ed). }
      pose proof (m_is_dir_q _ _ _ _ _ Ed) as Q. destruct (m_is_dir_inl _ _ _ _ _ HX Ed) as [Evd _].
      destruct vd.
      - inversion Hc; subst. left. split; [reflexivity|]. split; [exact Q|].
        rewrite <- (trel_isdir _ _ _ (n :: d) (Sim3_trel _ _ _ HS)). rewrite isdir_view by discriminate.
        symmetry. exact Evd.
      - right.
        assert (Hdead: dead w (n :: d) = true).
        { unfold vdir in Evd. rewrite Ei in Evd. cbn [andb] in Evd. symmetry in Evd. apply negb_false_iff in Evd. exact Evd. }
        pose proof (Sim4c_qrel _ _ _ _ _ HS4 Q) as HS4d.
        destruct (qrel_facts _ _ _ HX Q) as (_ & Sa & _ & _).
        destruct (room_sim st T W wd s n d wc rc HS4d) as (B1 & B2 & B3 & B4 & B5 & B6 & B7).
        + intros y Hy. unfold inprog. rewrite (sv_new _ _ Sa). apply (c4_prog _ _ _ _ HC). exact Hy.
        + intros y Hy. rewrite (sv_fs _ _ Sa). apply (c4_nodir _ _ _ _ HC). exact Hy.
        + rewrite (sv_old _ _ Sa). exact Hbelow.
        + rewrite (sv_fs _ _ Sa). exact Ei.
        + rewrite (sv_dead _ _ Sa). exact Hdead.
        + exact Hc.
        + split; [exact B1|]. split; [exact B2|]. split; [exact B3|].
          split; [rewrite B4; apply (sv_new _ _ Sa)|]. split; [rewrite B5; apply (sv_old _ _ Sa)|].
          intros y Hy. rewrite (B7 y Hy). rewrite (sv_fs _ _ Sa). reflexivity. }
    destruct H as [[wx [u2 [E4 H]]]|[e' [E4 Er]]].
    + destruct (Hfirst _ _ E4) as [(K & _)|(_ & B2 & B3 & B4 & B5 & B6)]; [discriminate|].
      apply (Hend wx B2 B4 B5 B6); [|exact H]. unfold isdir. rewrite B3. reflexivity.
    + destruct (Hfirst _ _ E4) as [(K & Q & Kd)|(K & _)]; [|discriminate]. inversion K; subst e'. subst r.
      destruct (qrel_same _ _ _ HX Q) as (F1 & F2 & F3 & _).
      split; [unfold setup_fs; rewrite Kd; reflexivity|]. split; [apply (Sim4c_qrel _ _ _ _ _ HS4 Q)|].
      split; [exact F2|]. split; [exact F3|]. intros y _. rewrite F1. reflexivity.
  - apply bind_inv in H. destruct H as [[wx [u2 [E4 H]]]|[e' [E4 _]]]; [|discriminate].
    inversion E4; subst wx u2. apply (Hend w HS4 eq_refl eq_refl); [intros y _; reflexivity|exact Ei|exact H].
Qed.

(* ------------------------------------------------------------------ the statement *)
Theorem pre_ok : pre_statement.
Proof.
  intros st tg pend T W w s p wb r HS4 HC Hcond H. pose proof HS4 as [HP HL].
  pose proof (s4_sim _ _ _ _ HP) as HS.
  unfold bf_pre in H.
  apply bind_inv in H. destruct H as [[wa [u [E H]]]|[e [E Er]]].
  2:{ (* the target is claimed *)
      subst r. unfold new_assert_no_file in E. apply bind_inv in E. unfold get in E.
      destruct E as [[wx [w0 [E0 E]]]|[e' [E0 _]]]; [|discriminate]. inversion E0; subst wx w0.
      destruct (cache_has_file (w_new w) p) eqn:Ec; inversion E; subst.
      split; [left; unfold claim_check; rewrite (s3_claimsF _ _ _ HS), Ec; reflexivity|].
      split; [exact HS4|]. split; [reflexivity|]. split; [intros y _; reflexivity|reflexivity]. }
  assert (Hunclaimed: wa = w /\ cache_has_file (w_new w) p = false).
  { unfold new_assert_no_file in E. apply bind_inv in E. unfold get in E.
    destruct E as [[wx [w0 [E0 E]]]|[e' [E0 _]]]; [|discriminate]. inversion E0; subst wx w0.
    destruct (cache_has_file (w_new w) p); inversion E; subst. auto. }
  destruct Hunclaimed as [-> Hunc]. clear E.
  apply bind_inv in H. destruct H as [[wa [icf [E1 H]]]|[e [E1 _]]]; [|discriminate].
  unfold is_cache_file in E1. inversion E1; subst wa icf. clear E1.
  apply bind_inv in H. destruct H as [[wa [u1 [E2 H]]]|[e [E2 Er]]].
  2:{ (* the target is the cache file *)
      subst r. destruct (path_eqb p (w_cachefile w)) eqn:Ecf; inversion E2; subst.
      split; [left; unfold claim_check; rewrite (s3_claimsF _ _ _ HS), Hunc, (s3_cf _ _ _ HS), Ecf; reflexivity|].
      split; [exact HS4|]. split; [reflexivity|]. split; [intros y _; reflexivity|reflexivity]. }
  destruct (path_eqb p (w_cachefile w)) eqn:Ecf; [discriminate|]. inversion E2; subst wa u1. clear E2.
  assert (Hcc: claim_check (k_claimedF s) (k_cachefile s) p = None).
  { unfold claim_check. rewrite (s3_claimsF _ _ _ HS), Hunc, (s3_cf _ _ _ HS), Ecf. reflexivity. }
  apply bind_inv in H. destruct H as [[wa [created [E3 H]]]|[e [E3 Er]]].
  2:{ subst r. destruct (prepare_sim st tg pend T W w s p wb (inr e) HS4 HC Hcond Hunc E3) as (A1 & A2 & A3 & A4 & A5).
      split; [right; split; [exact Hcc|exact A1]|]. split; [exact A2|]. split; [exact A3|]. split; [exact A5|exact A4]. }
  pose proof (prepare_sim st tg pend T W w s p wa (inl created) HS4 HC Hcond Hunc E3) as Hp. cbv beta iota in Hp.
  apply bind_inv in H. destruct H as [[wc [locked [E4 H]]]|[e [E4 _]]].
  2:{ unfold m_bd_started in E4. destruct (bd_started (w_bd wa) p created); discriminate. }
  inversion H; subst wb r. destruct (Hp wc locked E4) as (fs1 & A1 & A2 & A3 & A4 & A5).
  split; [exact Hcc|]. exists fs1, created.
  split; [exact A1|]. split; [exact A2|]. split; [exact A3|]. split; [exact A5|exact A4].
Qed.

Print Assumptions pre_ok.
