(* Proofs/SimA2Pre.v — C04, the link to Core, run level: the setup of build_file up to the
   reservation of the target (SimA2.bf_pre: claimed?  cache file?  _prepare_file_creation,
   started_building_file) against Core's claim_check / setup_fs: the same failure with related
   states, or the target reserved and the missing directories made on both sides. *)
From Coq Require Import List String Ascii NArith ZArith Bool Arith Lia.
From FB.Base Require Import PyVal Fs.
From FB.Gen Require Import JsonUtilGen.
From FB.Spec Require Import JsonSpec Prog Ref Oracle Faithful.
From FB.Model Require Import Types Monad CreatedFiles BuildDirs SimpleOps Builder Persist Build Run Frame Core CoreOracle.
From FB.Proofs Require Import FsLemmas JsonLaws CoreLawsChildren ReplayLaws CleanLaws BuildFileLaws HashMemoInv HashMemoRun CoreLaws1 CoreLaws2 CoreLaws3
     ViewDefs ViewLemmas ViewScan ViewQueries ViewAnswers ViewFrame ViewPrepare ViewInit ViewXDefs ViewXError ViewXQuery ViewXSteps
     ViewXMake1 ViewXMake2 ViewXFail ViewXRoom2 ViewXOld ViewXSetup ViewXRun
     ViewR1 ViewR2 ViewR3 ViewK1 ViewK2 ViewK3 ViewK4 ViewK5 ViewK6 ViewK7 ViewK8
     SimA0 SimA1 SimARun SimA2 SimA2Base SimA1Dirs SimA1Room SimA1Vlog SimA1Started.
Import ListNotations.
Open Scope list_scope.
Open Scope m_scope.

Local Notation RInv2' := (RInv2 (fun _ => True)).

(* ------------------------------------------------------------------ transport of Sim4pre *)
(* a step of the mechanism that Core does not see: Sim3 and RInv2 afterwards, and the
   components that Sim4pre reads besides are unchanged *)
Lemma Sim4pre_transport : forall T W w w' s, Sim4pre T W w s ->
  Sim3 W w' s -> RInv2' T w' ->
  (forall x, mem_path x (bd_created (w_bd w')) = mem_path x (bd_created (w_bd w))) ->
  w_cachefile w' = w_cachefile w -> w_new w' = w_new w -> Sim4pre T W w' s.
Proof.
  intros T W w w' s [P1 P2 P5 P6 P7 P8 P9 P10 P11 P12 P13 P14] HS HR Hc Hcf Hn.
  constructor; try assumption.
  - intro x. rewrite Hc. apply P7.
  - intros x Hx. rewrite Hcf in Hx. apply P10. exact Hx.
  - intros x Hx. rewrite Hcf. apply P11. exact Hx.
  - intros q v Hin. rewrite Hn in Hin. eapply P12. exact Hin.
  - rewrite Hn. exact P13.
Qed.

(* read-only steps *)
Lemma Sim4c_qrel : forall T W w w' s, Sim4c T W w s -> qrel w w' -> Sim4c T W w' s.
Proof.
  intros T W w w' s [HP HL] Q.
  pose proof (s4_rinv _ _ _ _ HP) as HR2. pose proof (RInv2_R' _ _ HR2) as HR. pose proof (RInv_X _ _ HR) as HX.
  destruct (qrel_facts _ _ _ HX Q) as (_ & Sa & _ & _).
  split.
  - apply (Sim4pre_transport T W w w' s HP).
    + apply (Sim3_qrel T W w w' s HX Q (s4_sim _ _ _ _ HP)).
    + apply (RInv2_step _ _ _ _ HR2).
      * apply (svb_gl walk_fuel). apply Q.
      * apply (qrel_RInv T _ _ Q HR).
    + intro x. rewrite (sv_created _ _ Sa). reflexivity.
    + apply (sv_cf _ _ Sa).
    + apply (sv_new _ _ Sa).
  - intros x Hx. rewrite (sv_new _ _ Sa). apply HL. exact Hx.
Qed.

Lemma qrel_same : forall T w w', XInv T w -> qrel w w' ->
  w_fs w' = w_fs w /\ w_new w' = w_new w /\ w_old w' = w_old w /\ w_cachefile w' = w_cachefile w.
Proof.
  intros T w w' HX Q. destruct (qrel_facts _ _ _ HX Q) as (_ & Sa & _ & _).
  split; [apply (sv_fs _ _ Sa)|]. split; [apply (sv_new _ _ Sa)|]. split; [apply (sv_old _ _ Sa)|apply (sv_cf _ _ Sa)].
Qed.
