(* Proofs/SimG1.v — the side condition CmpMeta of SimC12 weakened to CmpOk old: a build_file call
   may compare by HASH when the previous cache holds no servable record for its target (always
   so for the empty cache: every first build).  The only places of SimC10.bf_node5 that need
   METADATA are the two uses of the hit theorems (SimC7.file_hit5); for an unservable target
   both sides miss (SimC6.lookup_unservable, file_lookup5), so that branch is void.
     bf_node5g        SimC10.bf_node5 for any comparison, under  c = METADATA \/ unservable old p
     sim5_run_g       SimC12.sim5_run with CmpOk old pr instead of CmpMeta pr
     build_agree_g    SimC12.build_agree_okc      ditto
     build_run_g      SimC15.build_run_okc        ditto
     CmpMeta_CmpOk, CmpOk_empty                                                        *)
From Coq Require Import List String Ascii NArith ZArith Bool Arith Lia.
From FB.Base Require Import PyVal Fs.
From FB.Gen Require Import JsonUtilGen.
From FB.Spec Require Import JsonSpec Prog Ref Oracle Faithful.
From FB.Model Require Import Types Monad CreatedFiles BuildDirs SimpleOps Builder Persist Build Run Frame Core CoreOracle.
From FB.Proofs Require Import FsLemmas JsonLaws ReplayLaws CleanLaws BuildFileLaws HashMemoInv HashMemoRun CoreLaws1 CoreLaws2 CoreLaws3 CoreLaws4 CoreLaws6
     ViewDefs ViewLemmas ViewFrame ViewInit ViewPres ViewXDefs ViewXFrame ViewXError ViewXQuery ViewXSteps ViewXMake1 ViewXMake2 ViewXFail ViewXSetup ViewXRun
     ViewH7 ViewR1 ViewR2 ViewR3 ViewR9 ViewK1 ViewK2 ViewK3 ViewK4 ViewK5 ViewK7 ViewK8
     SimA0 SimARun SimA1 SimA1Keys SimA1Vlog SimA2Base SimA2 SimA3 SimA3Built SimA3Log SimA3Cf SimA2Claim SimA2Pre SimA2Finish SimA2Sub SimA2Node SimAStart SimAMain
     SimC0 SimC6 SimC7 SimC8 SimC9 SimC10 SimC11 SimC12.
Import ListNotations.
Open Scope list_scope.
Open Scope m_scope.

Local Notation RInv2' := (RInv2 (fun _ => True)).

(* the previous cache holds no record that a build_file call for p could be served from *)
Definition unservable (old : cache) (p : path) : Prop :=
  forall p' c' f' a' k' subs' r' cr' sf',
    cache_get_file old p <> Some (OBuildFile p' c' f' a' k' subs' r' cr' false sf').

(* every build_file of the program compares by METADATA, or its target is unservable *)
Inductive CmpOk (old : cache) : prog -> Prop :=
| CO_Ret : forall v, CmpOk old (Ret v)
| CO_Raise : forall e, CmpOk old (Raise e)
| CO_Ask : forall s q k, (forall o, CmpOk old (k o)) -> CmpOk old (Ask s q k)
| CO_Write : forall c k, CmpOk old k -> CmpOk old (Write c k)
| CO_BuildFile : forall s p c f a kw fn k,
    (c = METADATA \/ unservable old p) ->
    (forall p' a' k', CmpOk old (fn p' a' k')) -> (forall o, CmpOk old (k o)) -> CmpOk old (BuildFile s p c f a kw fn k)
| CO_Subbuild : forall s f a kw fn k,
    (forall a' k', CmpOk old (fn a' k')) -> (forall o, CmpOk old (k o)) -> CmpOk old (Subbuild s f a kw fn k).

Lemma CmpMeta_CmpOk : forall old pr, CmpMeta pr -> CmpOk old pr.
Proof. intros old pr H. induction H; constructor; auto. Qed.

Lemma unservable_none : forall old p, cache_get_file old p = None -> unservable old p.
Proof. intros old p H p' c' f' a' k' subs' r' cr' sf' E. rewrite H in E. discriminate. Qed.

(* no condition at all on the comparisons when the previous cache has no file record *)
Lemma CmpOk_norec : forall old, (forall p, cache_get_file old p = None) -> forall pr, CmpOk old pr.
Proof.
  intros old H pr. induction pr; constructor; auto. right. apply unservable_none. apply H.
Qed.

Lemma CmpOk_empty : forall nm svers pr, CmpOk (empty_cache nm svers) pr.
Proof. intros nm svers. apply CmpOk_norec. intro p. reflexivity. Qed.

(* ------------------------------------------------------------------ the build_file node *)
Section Node5g.
  Variable c0 : N.

  Theorem bf_node5g : forall st p cmpc fname a kw fn T W w s tg pend w1 r o,
    okc c0 (w_old w) ->
    (cmpc = METADATA \/ unservable (w_old w) p) ->
    tgt_conds st (w_old w) p ->
    bf_body_ok5 c0 st (w_old w) p (fn p) ->
    Sim5 c0 T W w s -> Ctx4 st tg pend w ->
    m_build_file p cmpc fname a kw (fun p' sa skw w' => run (fn p' sa skw) (Some p') [] w') w = (w1, (r, o)) ->
    forall s1 r' o',
      core_bf_node p cmpc fname a kw (fun sa skw => core_run (fn p sa skw) (Some p) None []) s = (s1, (r', o')) ->
      node_post5 c0 st tg pend W w w1 r o s s1 r' o'.
  Proof.
    intros st p cmpc fname a kw fn T W w s tg pend w1 r o Hokc Hcmp Hconds Hbody HS5 HC E1 s1 r' o' E2.
    destruct Hcmp as [->|Hun]; [exact (bf_node5 c0 st p fname a kw fn T W w s tg pend w1 r o Hokc Hconds Hbody HS5 HC E1 s1 r' o' E2)|].
    destruct HS5 as [HS HE].
    pose proof HS as [[HP HL] [HI [HK HWb]]].
    destruct built as (Bclaim & Bpre & Blook & Breuse & Bfin & _).
    pose proof (node_HInv _ _ _ _ _ _ _ _ _ HI HK E1) as HI1.
    pose proof (node_old _ _ _ _ _ _ _ _ _ E1) as Hold1.
    pose proof (node_TSA tg _ _ _ _ _ _ _ _ _ HK (c4_tsa _ _ _ _ HC) E1) as HT1.
    assert (HK1: old_keys_ok (w_old w1)) by (rewrite Hold1; exact HK).
    pose proof (node_tq _ _ _ _ _ _ _ _ _ E1) as Htq1.
    pose proof (node_claims_has _ _ _ _ _ _ _ _ _ E1) as Hcl1.
    destruct (extra_mech c0 W w s w1 HE Htq1 Hcl1) as (M1 & M2 & M3).
    (* the common end *)
    assert (Hend: forall T' W' ro,
              Sim4c T' W' w1 s1 -> (forall y, inprog w1 y <-> inprog w y) ->
              (forall y, In y st -> lookup (w_fs w1) y = lookup (w_fs w) y) ->
              r = ro -> r' = ro -> orec_rel o o' -> Wincl W W' -> Wincl W' (c_built (w_new w1)) ->
              Extra c0 W' w1 s1 -> (k_clock s <= k_clock s1)%N ->
              node_post5 c0 st tg pend W w w1 r o s s1 r' o').
    { intros T' W' ro HS1 Hp1 Hf1 Er Er' Ho HW HWb1 HE1 Hck. exists T', W'.
      split; [split; [split; [exact HS1|split; [exact HI1|split; [exact HK1|exact HWb1]]]|exact HE1]|].
      split; [apply (ctx4_restore st tg pend w w1 HC Hp1 Hf1 HT1)|].
      split; [exact Hf1|]. split; [congruence|]. split; [exact Ho|]. split; [exact HW|]. split; [exact Hold1|exact Hck]. }
    (* Extra when Core's state is unchanged *)
    assert (HEsame: Extra c0 W w1 s).
    { constructor; [exact M1|exact M2|apply (ex_kclock _ _ _ _ HE)|exact M3|apply (ex_knew _ _ _ _ HE)]. }
    rewrite m_build_file_unfold in E1. unfold core_bf_node in E2.
    destruct (sanitize a) as [sa|].
    2:{ inversion E1; inversion E2; subst.
        apply (Hend T W (inr XType) (conj HP HL)); [intro; reflexivity|intros; reflexivity|reflexivity|reflexivity|exact I|apply Wincl_refl|exact HWb|exact HE|apply N.le_refl]. }
    destruct (sanitize kw) as [skw|].
    2:{ inversion E1; inversion E2; subst.
        apply (Hend T W (inr XType) (conj HP HL)); [intro; reflexivity|intros; reflexivity|reflexivity|reflexivity|exact I|apply Wincl_refl|exact HWb|exact HE|apply N.le_refl]. }
    cbv zeta in E2.
    destruct (bf_setup p cmpc fname sa skw w) as [wS rS] eqn:Es.
    pose proof Es as Es0. rewrite bf_setup_pre in Es.
    apply bind_inv in Es. destruct Es as [[wb [u [Epre Es]]]|[e [Epre Er]]].
    2:{ (* the setup fails before the reservation *)
        subst rS. pose proof (pre_ok st tg pend T W w s p wS (inr e) (conj HP HL) HC Hconds Epre) as (Hcore & HS1 & Hn1 & Hf1 & Ho1).
        inversion E1; subst w1 r o.
        assert (E2': (s, (@inr pyval exn e, Some (OBuildFile p cmpc fname sa skw [] PNone PNone true true))) = (s1, (r', o'))).
        { destruct Hcore as [Hc|[Hc Hs]]; [rewrite Hc in E2; exact E2|rewrite Hc, Hs in E2; exact E2]. }
        inversion E2'; subst s1 r' o'.
        apply (Hend T W (inr e) HS1); [|exact Hf1|reflexivity|reflexivity|apply rec_rel_refl|apply Wincl_refl|rewrite Hn1; exact HWb|exact HEsame|apply N.le_refl].
        intro y. unfold inprog. rewrite Hn1. reflexivity. }
    destruct u.
    pose proof (pre_ok st tg pend T W w s p wb (inl tt) (conj HP HL) HC Hconds Epre)
      as (Hcc & fs1 & dirs & Hsf & HSS & Hnb & Hfb & Hob).
    rewrite Hcc, Hsf in E2.
    set (s0 := core_s0 s p fs1 dirs) in *.
    pose proof HSS as (HPb & HLb & Huncb & Hndb).
    pose proof (s4_rinv _ _ _ _ HPb) as HR2b.
    (* what the lookup theorems need *)
    assert (Hncfb: path_eqb p (w_cachefile wb) = false).
    { rewrite <- (s3_cf _ _ _ (s4_sim _ _ _ _ HPb)). change (k_cachefile s0) with (k_cachefile s).
      unfold claim_check in Hcc. destruct (mem_path p (k_claimedF s)); [discriminate|].
      destruct (path_eqb p (k_cachefile s)); [discriminate|reflexivity]. }
    assert (HWclb: forall q, mem_path q W = true -> cache_has_file (w_new wb) q = true).
    { intros q Hq. rewrite Hnb. apply (ex_cl _ _ _ _ HE q Hq). }
    pose proof (bf_pre_fstep _ _ _ _ Epre) as (_ & _ & _ & Hfsub).
    assert (Hnewb: forall q g, mem_path q W = true ->
              lookup (w_fs wb) q = Some (NFile g) \/ lookup (k_fs s0) q = Some (NFile g) -> (c0 < f_mtime g)%N).
    { intros q g Hq [Hg|Hg].
      - apply (ex_wnew _ _ _ _ HE q g Hq). apply Hfsub. exact Hg.
      - apply (ex_knew _ _ _ _ HE q g Hq). apply (setup_fs_files _ _ _ _ _ (s4_kwf _ _ _ _ HP) Hsf q g Hg). }
    assert (Hokb: okc c0 (w_old wb)) by (rewrite Hob; exact Hokc).
    (* the lookup *)
    unfold catch in Es. destruct (bf_try p cmpc fname sa skw wb) as [wt rt] eqn:Et.
    unfold bf_try in Et. apply bind_inv in Et.
    destruct Et as [[wl [cached [El Et]]]|[e [El _]]].
    2:{ exfalso. apply (proj1 (noraise_holds (fun _ => True) _ _ HR2b) p fname sa skw wt e). exact El. }
    pose proof (build_file_cache_lookup_q _ _ _ _ _ _ _ El) as Ql.
    pose proof (simsetup_qrel _ _ _ _ _ _ HSS Ql) as HSSl.
    pose proof (RInv_X _ _ (RInv2_R' _ _ HR2b)) as HXb.
    destruct (qrel_facts _ _ _ HXb Ql) as (_ & Sl & _ & _).
    pose proof (file_lookup5 c0 T W wb s0 p Hokb HSS (proj1 Hconds) Hncfb HWclb Hnewb fname sa skw wl cached El) as Hdec.
    change (core_hit s s0 p fname sa skw) with (core_hit s0 s0 p fname sa skw) in E2.
    apply bind_inv in Et.
    destruct cached as [co|].
    - (* a hit is impossible: the target is unservable *)
      exfalso. destruct (lookup_unservable p fname sa skw wb) as [A _]; [rewrite Hob; exact Hun|].
      rewrite A in El. inversion El.
    - (* both sides miss: the function runs *)
      destruct Hdec as [Hdec _]. specialize (Hdec eq_refl). rewrite Hdec in E2.
      destruct Et as [[wr [reused [Er Et]]]|[e [Er _]]]; [|cbn in Er; discriminate].
      cbn [bf_reuse] in Er. inversion Er; subst wr reused.
      destruct (claim_ok T W wl s0 p fname sa skw wt rt HSSl (proj1 Hconds) Et) as (Ert & HS2 & Hp2 & Hf2 & Hnone2 & Ho2).
      subst rt. inversion Es; subst wS rS.
      destruct (bf_setup_None _ _ _ _ _ _ _ Es0 HI) as (HIt & Hpt & Hnft & Hnot).
      unfold bf_rebuild in E1. cbv beta in E1.
      destruct (run (fn p sa skw) (Some p) [] (bf_invoke_world p fname sa skw wt)) as [w3 [res subs3]] eqn:Ef.
      destruct (core_run (fn p sa skw) (Some p) None [] (CoreLaws3.core_start s0 p fname sa skw)) as [s2 [[res' pend2] bsubs]] eqn:Ec.
      destruct (core_finish s2 p cmpc fname sa skw bsubs res' pend2) as [[s3 out] o3] eqn:Efin.
      inversion E2; subst s1 r' o'.
      assert (Holdt: w_old wt = w_old w).
      { rewrite Ho2. rewrite (sv_old _ _ Sl). exact Hob. }
      assert (Hpst: ~ In p st).
      { intro Hin. apply (proj2 (c4_prog _ _ _ _ HC p)) in Hin. unfold inprog in Hin.
        pose proof HSS as (_ & _ & Hu & _). unfold cache_has_file in Hu. rewrite Hnb, Hin in Hu. discriminate. }
      assert (HS0: Sim4 (p :: T) (p :: W) (bf_invoke_world p fname sa skw wt) (CoreLaws3.core_start s0 p fname sa skw)).
      { split; [exact HS2|]. split; [apply HInv_set_log; exact HIt|]. split; [cbn [bf_invoke_world w_old set_log]; rewrite Holdt; exact HK|].
        cbn [bf_invoke_world w_new set_log]. rewrite (Bclaim _ _ _ _ Et), (Blook _ _ _ _ _ _ _ El), (Bpre _ _ _ _ Epre).
        intros x Hx. cbn [mem_path] in Hx. rewrite ViewXMkfail.mem_app_path. cbn [mem_path]. rewrite orb_false_r.
        destruct (path_eqb p x) eqn:Epx; [rewrite orb_true_r; reflexivity|]. cbn [orb] in Hx. rewrite (HWb x Hx). reflexivity. }
      (* Extra when the function starts *)
      pose proof (bf_setup_tq p cmpc fname sa skw w wt _ Es0) as Htqt.
      assert (HE0: Extra c0 (p :: W) (bf_invoke_world p fname sa skw wt) (CoreLaws3.core_start s0 p fname sa skw)).
      { constructor.
        - intros x Hx. rewrite <- (s3_claimsF _ _ _ (s4_sim _ _ _ _ (proj1 HS2)) x).
          cbn [CoreLaws3.core_start klog ks_with k_claimedF core_s0 s0 mem_path] in *.
          destruct (path_eqb p x); [reflexivity|]. cbn [orb] in Hx |- *.
          rewrite (s3_claimsF _ _ _ (s4_sim _ _ _ _ HP) x). apply (ex_cl _ _ _ _ HE x Hx).
        - cbn [bf_invoke_world w_clock set_log]. eapply N.le_trans; [apply (ex_wclock _ _ _ _ HE)|apply Htqt].
        - cbn [CoreLaws3.core_start klog ks_with k_clock core_s0 s0]. apply (ex_kclock _ _ _ _ HE).
        - intros x g Hx Hg. cbn [bf_invoke_world w_fs set_log] in Hg. cbn [mem_path] in Hx.
          destruct (path_eqb p x) eqn:Epx; [apply path_eqb_eq in Epx; subst x; congruence|]. cbn [orb] in Hx.
          destruct (proj2 Htqt x g Hg) as [K|K]; [apply (ex_wnew _ _ _ _ HE x g Hx K)|].
          eapply N.le_lt_trans; [apply (ex_wclock _ _ _ _ HE)|exact K].
        - intros x g Hx Hg. cbn [mem_path] in Hx.
          destruct (path_eqb p x) eqn:Epx.
          + (* the target itself: nothing is there in Core's tree *)
            apply path_eqb_eq in Epx. subst x. exfalso.
            pose proof (s3_tree _ _ _ (s4_sim _ _ _ _ (proj1 HS2)) p) as Kt. cbn [mem_path] in Kt. rewrite path_eqb_refl in Kt. cbn [orb] in Kt.
            rewrite Hg in Kt.
            assert (Kv: lookup (view_fs (bf_invoke_world p fname sa skw wt)) p = None).
            { destruct p as [|n d]; [cbn in Hnone2; discriminate|].
              rewrite lookup_view by discriminate. cbn [bf_invoke_world w_fs set_log]. rewrite Hnone2.
              destruct (visible _ _); reflexivity. }
            rewrite Kv in Kt. exact Kt.
          + cbn [orb] in Hx. apply (ex_knew _ _ _ _ HE x g Hx).
            apply (setup_fs_files _ _ _ _ _ (s4_kwf _ _ _ _ HP) Hsf x g).
            cbn [CoreLaws3.core_start klog ks_with k_fs core_s0 s0] in Hg. apply (try_remove_file _ _ _ _ Hg). }
      assert (HC0: Ctx4 (p :: st) (Some p) None (bf_invoke_world p fname sa skw wt)).
      { constructor.
        - intro y. change (inprog (bf_invoke_world p fname sa skw wt) y) with (inprog wt y). rewrite Hp2.
          assert (Hwl: inprog wl y <-> inprog w y) by (unfold inprog; rewrite (sv_new _ _ Sl), Hnb; reflexivity).
          rewrite Hwl, (c4_prog _ _ _ _ HC y). cbn [In]. split; [intros [H|H]; [right; exact H|left; symmetry; exact H]|intros [H|H]; [right; symmetry; exact H|left; exact H]].
        - intros q Eq. inversion Eq; subst q. split; [left; reflexivity|exact (proj1 Hconds)].
        - cbn [pend_rel bf_invoke_world w_new w_fs set_log]. split; [exact Hpt|exact Hnft].
        - intros y Hy. cbn [bf_invoke_world w_fs set_log]. destruct Hy as [<-|Hy].
          + unfold isdir. rewrite Hnone2. reflexivity.
          + assert (Hne: y <> p) by (intro; subst; contradiction).
            unfold isdir. rewrite (Hf2 y Hne), (sv_fs _ _ Sl), (Hfb y Hy). apply (c4_nodir _ _ _ _ HC y Hy).
        - intros t Et0. inversion Et0; subst t. split; [exact Hpt|exact Hnot]. }
      destruct (Hbody sa skw (p :: T) (p :: W) (bf_invoke_world p fname sa skw wt) (CoreLaws3.core_start s0 p fname sa skw)
                      w3 res subs3 s2 res' pend2 bsubs Holdt (conj HS0 HE0) HC0 Ef Ec)
        as (T3 & W3 & [HS3 HE3] & HC3 & Hfr3 & Eres & Hsubs3 & HW3 & Ho3 & Hck3 & Hpc3).
      subst res'. destruct HS3 as [HS3c [HI3 [HK3 HWb3]]].
      assert (Hpcf: p <> w_cachefile w3).
      { rewrite (run_cf _ _ _ _ _ _ Ef).
        rewrite <- (s3_cf _ _ _ (s4_sim _ _ _ _ (proj1 HS2))). cbn [CoreLaws3.core_start klog ks_with k_cachefile core_s0 s0].
        unfold claim_check in Hcc. destruct (mem_path p (k_claimedF s)); [discriminate|].
        destruct (path_eqb p (k_cachefile s)) eqn:Ecf; [discriminate|]. apply path_eqb_neq. exact Ecf. }
      destruct (finish_ok_cf st T3 W3 w3 s2 p cmpc fname sa skw res subs3 bsubs pend2 w1 r o s3 out o3 HS3c HI3 HC3
                       (HW3 p (eq_trans (f_equal (fun b => b || mem_path p W) (path_eqb_refl p)) eq_refl)) Hpcf Hsubs3 E1 Efin)
        as (T' & HS' & Eout & Horec & Hp' & Hf' & Ho').
      (* Extra after the end of the function *)
      pose proof (bf_finish_tq p cmpc fname sa skw res subs3 w3 w1 _ E1) as Htqf.
      assert (Ecl3: forall x, mem_path x (k_claimedF s3) = mem_path x (k_claimedF s2)).
      { intro x. unfold core_finish in Efin. cbv zeta in Efin.
        destruct res as [v|e]; [destruct (sanitize v) as [sv|]; [destruct pend2 as [bytes|];
          [destruct (write_file (k_fs s2) p bytes None (k_clock s2) (k_nextid s2))|]|]|]; inversion Efin; subst; reflexivity. }
      assert (Eck3: k_clock s3 = k_clock s2).
      { unfold core_finish in Efin. cbv zeta in Efin.
        destruct res as [v|e]; [destruct (sanitize v) as [sv|]; [destruct pend2 as [bytes|];
          [destruct (write_file (k_fs s2) p bytes None (k_clock s2) (k_nextid s2))|]|]|]; inversion Efin; subst; reflexivity. }
      assert (Efs3: forall x g, lookup (k_fs s3) x = Some (NFile g) -> lookup (k_fs s2) x = Some (NFile g) \/ (c0 < f_mtime g)%N).
      { intros x g Hg. unfold core_finish in Efin. cbv zeta in Efin.
        assert (Hprune: forall oo, lookup (k_fs (core_prune s2 p oo)) x = Some (NFile g) -> lookup (k_fs s2) x = Some (NFile g)).
        { intros oo Hx. cbn [core_prune ks_with k_fs] in Hx. apply (fold_try_rmdir_file' _ _ _ _ Hx). }
        destruct res as [v|e]; [|inversion Efin; subst; left; eapply Hprune; exact Hg].
        destruct (sanitize v) as [sv|]; [|inversion Efin; subst; left; eapply Hprune; exact Hg].
        destruct pend2 as [bytes|]; [|inversion Efin; subst; left; eapply Hprune; exact Hg].
        destruct (write_file (k_fs s2) p bytes None (k_clock s2) (k_nextid s2)) as [fs3|e] eqn:Ew; [|inversion Efin; subst; left; eapply Hprune; exact Hg].
        inversion Efin; subst. cbn [ks_with k_fs] in Hg.
        destruct (write_file_frame _ _ _ _ _ _ _ Ew) as [[g0 [Hg0 [_ [Hm _]]]] Hoth].
        destruct (list_eq_dec string_dec x p) as [->|Hne].
        - right. rewrite Hg0 in Hg. inversion Hg; subst g. rewrite Hm. apply Hpc3. discriminate.
        - left. rewrite (Hoth x Hne) in Hg. exact Hg. }
      assert (HE': Extra c0 W3 w1 s3).
      { constructor.
        - intros x Hx. rewrite (sim3_claims_eq W3 w3 s2 W3 w1 s3 (s4_sim _ _ _ _ (proj1 HS3c)) (s4_sim _ _ _ _ (proj1 HS')) Ecl3 x).
          apply (ex_cl _ _ _ _ HE3 x Hx).
        - eapply N.le_trans; [apply (ex_wclock _ _ _ _ HE3)|apply Htqf].
        - rewrite Eck3. apply (ex_kclock _ _ _ _ HE3).
        - intros x g Hx Hg. destruct (proj2 Htqf x g Hg) as [K|K]; [apply (ex_wnew _ _ _ _ HE3 x g Hx K)|].
          eapply N.le_lt_trans; [apply (ex_wclock _ _ _ _ HE3)|exact K].
        - intros x g Hx Hg. destruct (Efs3 x g Hg) as [K|K]; [apply (ex_knew _ _ _ _ HE3 x g Hx K)|exact K]. }
      apply (Hend T' W3 out HS'); [| |exact Eout|reflexivity| | |rewrite (Bfin _ _ _ _ _ _ _ _ _ _ E1); exact HWb3|exact HE'|].
      + intro y. rewrite Hp'. rewrite (c4_prog _ _ _ _ HC3 y), (c4_prog _ _ _ _ HC y). cbn [In].
        split; [intros [[H|H] Hne]; [exfalso; apply Hne; symmetry; exact H|exact H]|intro H; split; [right; exact H|intro; subst; contradiction]].
      + intros y Hy. assert (Hne: y <> p) by (intro; subst; contradiction).
        rewrite (Hf' y Hne). rewrite (Hfr3 y (or_intror Hy)) by (intro X; inversion X; subst; contradiction).
        cbn [bf_invoke_world w_fs set_log]. rewrite (Hf2 y Hne), (sv_fs _ _ Sl). apply Hfb. exact Hy.
      + destruct o as [x|]; [exact Horec|destruct Horec].
      + intros x Hx. apply HW3. cbn [mem_path]. rewrite Hx. apply orb_true_r.
      + rewrite Eck3. eapply N.le_trans; [|exact Hck3]. apply N.le_refl.
  Qed.
End Node5g.

(* ------------------------------------------------------------------ the induction over programs *)
Section Run5g.
  Variable c0 : N.

  Theorem sim5_run_g : forall pr old, okc c0 old ->
    AllTargets tgtP pr -> QueriesOk pr -> WfArgs pr -> CmpOk old pr -> TargetsClear old pr -> TargetsApart old pr ->
    forall st, NoNest st pr ->
    forall tg pend subs subs' T W w s w' r l s' r' pend' l',
      w_old w = old -> Sim5 c0 T W w s -> Ctx4 st tg pend w -> PendClock c0 pend s -> recs_rel subs subs' ->
      run pr tg subs w = (w', (r, l)) -> core_run pr tg pend subs' s = (s', (r', pend', l')) ->
      run_post5 c0 st tg W w w' r l s s' r' pend' l'.
  Proof.
    intros pr old Hok.
    induction pr as [v | e | stale q k IH | c k IH | stale p c f a kw fn IHfn k IHk | stale f a kw fn IHfn k IHk];
      intros Hat Hqk Hwa Hcm Hcl Hap st Hnn tg pend subs subs' T W w s w' r l s' r' pend' l' Hold HS HC HPc Hsubs H1 H2; subst old.
    - cbn [run core_run] in H1, H2. inversion H1; inversion H2; subst.
      exists T, W. split; [exact HS|]. split; [exact HC|]. split; [apply frame4_refl|].
      split; [reflexivity|]. split; [exact Hsubs|]. split; [apply Wincl_refl|]. split; [reflexivity|]. split; [apply N.le_refl|exact HPc].
    - cbn [run core_run] in H1, H2. inversion H1; inversion H2; subst.
      exists T, W. split; [exact HS|]. split; [exact HC|]. split; [apply frame4_refl|].
      split; [reflexivity|]. split; [exact Hsubs|]. split; [apply Wincl_refl|]. split; [reflexivity|]. split; [apply N.le_refl|exact HPc].
    - (* Ask *)
      inversion Hat as [| |s0 q0 k0 Hat'| | |]; subst. inversion Hqk as [| |s0 q0 k0 Hp Hread Hqk'| | |]; subst.
      inversion Hwa as [| |s0 q0 k0 Hwa'| | |]; subst. inversion Hcm as [| |s0 q0 k0 Hcm'| | |]; subst.
      unfold TargetsClear, TargetsApart in Hcl, Hap.
      inversion Hcl as [| |s0 q0 k0 Hcl'| | |]; subst. inversion Hap as [| |s0 q0 k0 Hap'| | |]; subst.
      inversion Hnn as [| |st0 s0 q0 k0 Hnn'| | |]; subst.
      rewrite core_run_Ask in H2. cbn [run] in H1.
      destruct stale.
      { apply (IH (inr (XRuntime RFinished)) (Hat' _) (Hqk' _) (Hwa' _) (Hcm' _) (Hcl' _) (Hap' _) st (Hnn' _) tg pend subs subs' T W w s w' r l s' r' pend' l' eq_refl HS HC HPc Hsubs H1 H2). }
      destruct (m_query q w) as [w1 [r1 o]] eqn:E.
      destruct (sim5_query c0 st tg pend T W w s q w1 r1 o HS HC Hp Hread E) as (Ho & Hua & HS2 & HC2 & Hfs & Hold2).
      destruct Ho as [o' [-> Hrec]]. rewrite Hua in H1. cbv zeta in H2.
      assert (Hsubs2: recs_rel (Run.app_op subs (Some o')) (subs' ++ [record_of q (record_answer (k_fs s) q)])).
      { cbn [Run.app_op]. apply recs_rel_app1; assumption. }
      assert (Hstep: forall ua,
                (match spec_answer (k_fs s) q with inl v => inl v | inr c1 => inr (XOS c1) end) = ua ->
                core_run (k ua) tg pend (subs' ++ [record_of q (record_answer (k_fs s) q)]) (klog (LAnswer q (spec_answer (k_fs s) q)) s) = (s', (r', pend', l')) ->
                run_post5 c0 st tg W w w' r l s s' r' pend' l').
      { intros ua Eua X2. rewrite Eua in H1, HS2, HC2, Hfs, Hold2.
        destruct (IH ua (Hat' ua) (Hqk' ua) (Hwa' ua) (Hcm' ua) (Hcl' ua) (Hap' ua) st (Hnn' ua) tg pend _ _ T W _ _ w' r l s' r' pend' l'
                     Hold2 HS2 HC2 HPc Hsubs2 H1 X2) as (T' & W' & A1 & A2 & A3 & A4 & A5 & A6 & A7 & A8 & A9).
        exists T', W'. split; [exact A1|]. split; [exact A2|]. split.
        - intros y Hy Hn. rewrite (A3 y Hy Hn). rewrite Hfs. reflexivity.
        - split; [exact A4|]. split; [exact A5|]. split; [exact A6|]. split; [congruence|]. split; [exact A8|exact A9]. }
      destruct (spec_answer (k_fs s) q) as [v|c1] eqn:Esp.
      + apply (Hstep (inl v) eq_refl H2).
      + apply (Hstep (inr (XOS c1)) eq_refl H2).
    - (* Write *)
      inversion Hat as [| | |c1 k0 Hat'| |]; subst. inversion Hqk as [| | |c1 k0 Hqk'| |]; subst.
      inversion Hwa as [| | |c1 k0 Hwa'| |]; subst. inversion Hcm as [| | |c1 k0 Hcm'| |]; subst.
      unfold TargetsClear, TargetsApart in Hcl, Hap.
      inversion Hcl as [| | |c1 k0 Hcl'| |]; subst. inversion Hap as [| | |c1 k0 Hap'| |]; subst.
      inversion Hnn as [| | |st0 c1 k0 Hnn'| |]; subst.
      rewrite core_run_Write in H2. cbn [run] in H1.
      destruct tg as [p|]; [|apply (IH Hat' Hqk' Hwa' Hcm' Hcl' Hap' st Hnn' None pend subs subs' T W w s w' r l s' r' pend' l' eq_refl HS HC HPc Hsubs H1 H2)].
      destruct (c4_tg _ _ _ _ HC p eq_refl) as [Hin Htg].
      assert (Hpok: path_ok p = true) by (unfold tgtP, tgt_ok in Htg; apply andb_true_iff in Htg; apply Htg).
      rewrite Hpok in H2.
      destruct (write_succeeds st pend T W w s p c (proj1 HS) HC) as [fs' Ew]. rewrite Ew in H1.
      destruct (sim5_write c0 st pend T W w s p c fs' HS HC Ew) as (HS2 & HC2 & Hfr & HPc2).
      destruct (IH Hat' Hqk' Hwa' Hcm' Hcl' Hap' st Hnn' (Some p) (Some c) subs subs' T W
                   (set_clock (N.succ (w_clock w)) (N.succ (w_nextid w)) (set_fs fs' w)) (ktick s) w' r l s' r' pend' l'
                   eq_refl HS2 HC2 HPc2 Hsubs H1 H2) as (T' & W' & A1 & A2 & A3 & A4 & A5 & A6 & A7 & A8 & A9).
      exists T', W'. split; [exact A1|]. split; [exact A2|]. split; [eapply frame4_trans; eassumption|].
      split; [exact A4|]. split; [exact A5|]. split; [exact A6|]. split; [exact A7|]. split; [|exact A9].
      cbn [ktick ks_with k_clock] in A8. lia.
    - (* BuildFile *)
      inversion Hat as [| | | |s0 p0 c1 f0 a0 kw0 fn0 k0 Hp Hatf Hatk|]; subst.
      inversion Hqk as [| | | |s0 p0 c1 f0 a0 kw0 fn0 k0 Hqf Hqkk|]; subst.
      inversion Hwa as [| | | |s0 p0 c1 f0 a0 kw0 fn0 k0 Hwf Hwk|]; subst.
      inversion Hcm as [| | | |s0 p0 c2 f0 a0 kw0 fn0 k0 Hcc Hcf Hck|]; subst.
      unfold TargetsClear, TargetsApart in Hcl, Hap.
      inversion Hcl as [| | | |s0 p0 c1 f0 a0 kw0 fn0 k0 Hclp Hclf Hclk|]; subst.
      inversion Hap as [| | | |s0 p0 c1 f0 a0 kw0 fn0 k0 Happ Hapf Hapk|]; subst.
      inversion Hnn as [| | | |st0 s0 p0 c1 f0 a0 kw0 fn0 k0 Hnp Hnf Hnk|]; subst.
      destruct stale.
      { cbn [run core_run] in H1, H2.
        apply (IHk (inr (XRuntime RFinished)) (Hatk _) (Hqkk _) (Hwk _) (Hck _) (Hclk _) (Hapk _) st (Hnk _) tg pend subs subs' T W w s w' r l s' r' pend' l' eq_refl HS HC HPc Hsubs H1 H2). }
      cbn [run] in H1. rewrite core_run_BF_node in H2.
      match type of H1 with (let '(_, _) := ?X in _) = _ => destruct X as [w1 [r1 o]] eqn:E1 end.
      destruct (core_bf_node p c f a kw (fun sa skw => core_run (fn p sa skw) (Some p) None []) s) as [s1 [r1' o']] eqn:E2.
      assert (Hbody: bf_body_ok5 c0 st (w_old w) p (fn p)).
      { intros sa skw T0 W0 w0 s0 w3 res l3 s3 res' pend3 l3' Ho0 HS0 HC0 X1 X2.
        apply (IHfn p sa skw (Hatf p sa skw) (Hqf p sa skw) (Hwf p sa skw) (Hcf p sa skw) (Hclf p sa skw) (Hapf p sa skw) (p :: st) (Hnf p sa skw)
                    (Some p) None [] [] T0 W0 w0 s0 w3 res l3 s3 res' pend3 l3'); auto; [intro K; contradiction|exact I]. }
      assert (Hconds: tgt_conds st (w_old w) p) by (repeat split; assumption).
      destruct (bf_node5g c0 st p c f a kw fn T W w s tg pend w1 r1 o Hok Hcc Hconds Hbody HS HC E1 s1 r1' o' E2)
        as (T1 & W1 & B1 & B2 & B3 & B4 & B5 & B6 & B7 & B8).
      subst r1'.
      destruct (IHk r1 (Hatk r1) (Hqkk r1) (Hwk r1) (Hck r1) (Hclk r1) (Hapk r1) st (Hnk r1) tg pend _ _ T1 W1 w1 s1 w' r l s' r' pend' l'
                    B7 B1 B2 (PendClock_mono _ _ _ _ HPc B8) (recs_rel_app_op _ _ _ _ Hsubs B5) H1 H2) as (T' & W' & A1 & A2 & A3 & A4 & A5 & A6 & A7 & A8 & A9).
      exists T', W'. split; [exact A1|]. split; [exact A2|]. split.
      + intros y Hy Hn. rewrite (A3 y Hy Hn). apply B3. exact Hy.
      + split; [exact A4|]. split; [exact A5|]. split; [eapply Wincl_trans; eassumption|]. split; [congruence|]. split; [lia|exact A9].
    - (* Subbuild *)
      inversion Hat as [| | | | |s0 f0 a0 kw0 fn0 k0 Hatf Hatk]; subst.
      inversion Hqk as [| | | | |s0 f0 a0 kw0 fn0 k0 Hqf Hqkk]; subst.
      inversion Hwa as [| | | | |s0 f0 a0 kw0 fn0 k0 Hwa1 Hwa2 Hwf Hwk]; subst.
      inversion Hcm as [| | | | |s0 f0 a0 kw0 fn0 k0 Hcf Hck]; subst.
      unfold TargetsClear, TargetsApart in Hcl, Hap.
      inversion Hcl as [| | | | |s0 f0 a0 kw0 fn0 k0 Hclf Hclk]; subst.
      inversion Hap as [| | | | |s0 f0 a0 kw0 fn0 k0 Hapf Hapk]; subst.
      inversion Hnn as [| | | | |st0 s0 f0 a0 kw0 fn0 k0 Hnf Hnk]; subst.
      destruct stale.
      { cbn [run core_run] in H1, H2.
        apply (IHk (inr (XRuntime RFinished)) (Hatk _) (Hqkk _) (Hwk _) (Hck _) (Hclk _) (Hapk _) st (Hnk _) tg pend subs subs' T W w s w' r l s' r' pend' l' eq_refl HS HC HPc Hsubs H1 H2). }
      cbn [run] in H1. rewrite core_run_SB_node in H2.
      match type of H1 with (let '(_, _) := ?X in _) = _ => destruct X as [w1 [r1 o]] eqn:E1 end.
      destruct (core_sb_node f a kw (fun sa skw => core_run (fn sa skw) None None []) s) as [s1 [r1' o']] eqn:E2.
      assert (Hbody: sb_body_ok5 c0 st (w_old w) fn).
      { intros sa skw T0 W0 w0 s0 w3 res l3 s3 res' pend3 l3' Ho0 HS0 HC0 X1 X2.
        apply (IHfn sa skw (Hatf sa skw) (Hqf sa skw) (Hwf sa skw) (Hcf sa skw) (Hclf sa skw) (Hapf sa skw) st (Hnf sa skw)
                    None None [] [] T0 W0 w0 s0 w3 res l3 s3 res' pend3 l3'); auto; [intro K; contradiction|exact I]. }
      destruct (sb_node5 c0 st f a kw fn T W w s tg pend w1 r1 o Hok Hwa1 Hwa2 Hbody HS HC E1 s1 r1' o' E2)
        as (T1 & W1 & B1 & B2 & B3 & B4 & B5 & B6 & B7 & B8).
      subst r1'.
      destruct (IHk r1 (Hatk r1) (Hqkk r1) (Hwk r1) (Hck r1) (Hclk r1) (Hapk r1) st (Hnk r1) tg pend _ _ T1 W1 w1 s1 w' r l s' r' pend' l'
                    B7 B1 B2 (PendClock_mono _ _ _ _ HPc B8) (recs_rel_app_op _ _ _ _ Hsubs B5) H1 H2) as (T' & W' & A1 & A2 & A3 & A4 & A5 & A6 & A7 & A8 & A9).
      exists T', W'. split; [exact A1|]. split; [exact A2|]. split.
      + intros y Hy Hn. rewrite (A3 y Hy Hn). apply B3. exact Hy.
      + split; [exact A4|]. split; [exact A5|]. split; [eapply Wincl_trans; eassumption|]. split; [congruence|]. split; [lia|exact A9].
  Qed.
End Run5g.

(* ------------------------------------------------------------------ one build *)
Theorem build_agree_g : forall w cachefile old nm svers root w1 w2 r l,
  okc (w_clock w) old -> fs_wf (w_fs w) -> old_ok old cachefile -> WfCache old -> old_keys_ok old -> w_faults w = [] ->
  path_ok (dirname cachefile) = true -> isdir (w_fs w) cachefile = false -> maxlen (w_fs w) < walk_fuel ->
  vdir (Build.start_world w cachefile old nm svers) (dirname cachefile) = true ->
  AllTargets tgtP root -> NoNest [] root -> QueriesOk root -> WfArgs root -> CmpOk old root ->
  TargetsClear old root -> TargetsApart old root ->
  make_dirs (dirname cachefile) (Build.start_world w cachefile old nm svers) = (w1, inl []) ->
  run root None [] (set_log (LInvoke "<root>"%string None PNone PNone :: w_log w1) w1) = (w2, (r, l)) ->
  let cr := core_build (w_fs w) cachefile old svers (w_clock w) (w_nextid w) root in
  cr_outcome cr = r /\
  (exists L0, vis_log (w_log w2) = rev (cr_log cr) ++ L0) /\
  trel (c_built (w_new w2)) (view_fs w2) (cr_tree cr).
Proof.
  intros w cachefile old nm svers root w1 w2 r l Hokc Hwf Hok HW HKo HF Hp Hnc Hml Hd Hat Hnn Hqk Hwa Hcm Hcl Hap Emk Erun cr.
  destruct (sim4_start w cachefile old nm svers Hwf Hok HW HKo HF Hp Hnc Hml Hd) as (w1b & Eb & HS0 & HC0 & Hold0).
  assert (w1b = w1) by congruence. subst w1b. clear Eb. cbv zeta in HS0, HC0, Hold0.
  destruct (sim3_start w cachefile old nm svers Hwf Hok HF Hp Hd) as (w1c & Ec & Hmiss & _).
  set (lg := LInvoke "<root>"%string None PNone PNone :: w_log w1) in *.
  set (s0 := ViewK4.core_start (w_fs w) cachefile old svers (w_clock w) (w_nextid w) lg) in *.
  assert (Ecr: cr = let '(s1, (res, _, _)) := core_run root None None [] (with_log [LInvoke "<root>"%string None PNone PNone] s0) in
                    {| cr_outcome := res; cr_tree := k_fs s1; cr_log := rev (k_log s1); cr_state := Some s1 |}).
  { unfold cr, core_build. rewrite Hmiss. cbn [mkdir_all fold_left]. reflexivity. }
  destruct (core_run root None None [] (with_log [LInvoke "<root>"%string None PNone PNone] s0)) as [s1 [[res pd] sb]] eqn:Ecore.
  destruct (core_log root None None [] s0 [LInvoke "<root>"%string None PNone PNone] s1 (res, pd, sb) Ecore lg) as (ex & Elog & Erun2).
  assert (Es0: with_log lg s0 = s0) by (apply (with_log_self s0)).
  rewrite Es0 in Erun2.
  destruct (core_log_noeffect root None None [] _ _ _ Ecore) as (ex' & Elog' & Hne).
  assert (ex' = ex).
  { change (k_log (with_log [LInvoke "<root>"%string None PNone PNone] s0)) with [LInvoke "<root>"%string None PNone PNone] in Elog'.
    rewrite Elog in Elog'. apply app_inv_tail in Elog'. symmetry. exact Elog'. }
  subst ex'.
  (* the extra invariant when the root function starts *)
  assert (HE0: Extra (w_clock w) [] (set_log lg w1) s0).
  { constructor.
    - intros p Hp0. discriminate.
    - cbn [w_clock set_log]. apply (make_dirs_tq _ _ _ _ Emk).
    - apply N.le_refl.
    - intros p f Hp0. discriminate.
    - intros p f Hp0. discriminate. }
  assert (HP0: PendClock (w_clock w) None s0) by (intro K; contradiction).
  destruct (sim5_run_g (w_clock w) root old Hokc Hat Hqk Hwa Hcm Hcl Hap [] Hnn None None [] [] [] []
              (set_log lg w1) s0 w2 r l (with_log (ex ++ lg) s1) res pd sb Hold0 (conj HS0 HE0) HC0 HP0 I Erun Erun2)
    as (T' & W' & [A1 AE] & A2 & A3 & A4 & A5 & A6 & A7 & _).
  rewrite Ecr. cbn [cr_outcome cr_log cr_tree].
  split; [symmetry; exact A4|]. split.
  - exists (vis_log (w_log w1)). rewrite rev_involutive, Elog.
    rewrite (s3_log _ _ _ (Sim4_sim3 _ _ _ _ A1)).
    change (k_log (with_log (ex ++ lg) s1)) with (ex ++ lg). rewrite vis_log_app, (vis_log_noeffect _ Hne).
    unfold lg. cbn [vis_log filter]. rewrite <- app_assoc. reflexivity.
  - pose proof (Sim4_trel _ _ _ _ A1) as Ht. destruct A1 as (_ & _ & _ & HWb).
    apply (trel_mono W' _ _ _ HWb Ht).
Qed.

(* the two runs of a build, with the relation at the end (SimC15.build_run_okc) *)
Lemma build_run_g : forall w cachefile old nm svers root w1 w2 r l,
  okc (w_clock w) old -> fs_wf (w_fs w) -> old_ok old cachefile -> WfCache old -> old_keys_ok old -> w_faults w = [] ->
  path_ok (dirname cachefile) = true -> isdir (w_fs w) cachefile = false -> maxlen (w_fs w) < walk_fuel ->
  vdir (Build.start_world w cachefile old nm svers) (dirname cachefile) = true ->
  AllTargets tgtP root -> NoNest [] root -> QueriesOk root -> WfArgs root -> CmpOk old root ->
  TargetsClear old root -> TargetsApart old root ->
  make_dirs (dirname cachefile) (Build.start_world w cachefile old nm svers) = (w1, inl []) ->
  run root None [] (set_log (LInvoke "<root>"%string None PNone PNone :: w_log w1) w1) = (w2, (r, l)) ->
  let lg := LInvoke "<root>"%string None PNone PNone :: w_log w1 in
  let s0 := ViewK4.core_start (w_fs w) cachefile old svers (w_clock w) (w_nextid w) lg in
  exists s1 pd sb T' W',
    core_run root None None [] s0 = (s1, (r, pd, sb)) /\ Sim5 (w_clock w) T' W' w2 s1.
Proof.
  intros w cachefile old nm svers root w1 w2 r l Hokc Hwf Hok HW HKo HF Hp Hnc Hml Hd Hat Hnn Hqk Hwa Hcm Hcl Hap Emk Erun lg s0.
  destruct (sim4_start w cachefile old nm svers Hwf Hok HW HKo HF Hp Hnc Hml Hd) as (w1b & Eb & HS0 & HC0 & Hold0).
  assert (w1b = w1) by congruence. subst w1b. clear Eb. cbv zeta in HS0, HC0, Hold0. fold lg in HS0, HC0, Hold0. fold s0 in HS0.
  destruct (core_run root None None [] s0) as [s1 [[res pd] sb]] eqn:Ecore.
  assert (HE0: Extra (w_clock w) [] (set_log lg w1) s0).
  { constructor.
    - intros p Hp0. discriminate.
    - cbn [w_clock set_log]. apply (make_dirs_tq _ _ _ _ Emk).
    - apply N.le_refl.
    - intros p f Hp0. discriminate.
    - intros p f Hp0. discriminate. }
  assert (HP0: PendClock (w_clock w) None s0) by (intro K; contradiction).
  destruct (sim5_run_g (w_clock w) root old Hokc Hat Hqk Hwa Hcm Hcl Hap [] Hnn None None [] [] [] []
              (set_log lg w1) s0 w2 r l s1 res pd sb Hold0 (conj HS0 HE0) HC0 HP0 I Erun Ecore)
    as (T' & W' & A1 & A2 & A3 & A4 & _).
  exists s1, pd, sb, T', W'. split; [rewrite A4; reflexivity|exact A1].
Qed.

Print Assumptions bf_node5g.
Print Assumptions sim5_run_g.
Print Assumptions build_agree_g.
Print Assumptions build_run_g.
