(* Proofs/ViewH2.v — C04, the overlay: get_size, read and walk against an overlay answer
   like POSIX on the overlay tree (ViewOverlay.v).  Latitude found: get_size of a directory
   that exists only in the overlay (or is physically a hidden regular file) does not answer
   like a directory: it stats the physical path (the size of a directory is unspecified
   anyway); the theorem for get_size therefore asks overlay directories asked for to be
   physical directories. *)
From Coq Require Import List String Ascii NArith ZArith Bool Arith Lia.
From FB.Base Require Import PyVal Fs.
From FB.Model Require Import Types Monad CreatedFiles BuildDirs SimpleOps Builder Core.
From FB.Spec Require Import Ref.
From FB.Proofs Require Import FsLemmas CleanLaws JsonLaws CoreLawsChildren
     ViewDefs ViewLemmas ViewScan ViewQueries ViewAnswers ViewPres ViewOverlay ViewOverlay2.
Import ListNotations.
Open Scope list_scope.
Open Scope m_scope.

(* ------------------------------------------------------------------ get_size *)
Theorem m_get_size_overlay : forall w c p, BInv w -> CInv w c -> pok w p ->
  (odir w c p = true -> isdir (w_fs w) p = true) ->
  yields (m_get_size p (Some c)) w (to_res (spec_answer_raw (overlay_fs w c) (QGetSize p))).
Proof.
  intros w c p HB HC Hp Hdir. unfold m_get_size. cbn [spec_answer_raw to_res].
  eapply yields_bind; [apply m_exists_overlay; assumption|]. intros w1 G1.
  pose proof (lookup_overlay_kind w c p HB HC) as K. unfold ovisible.
  destruct (lookup (overlay_fs w c) p) as [[g|]|] eqn:El.
  - destruct K as [K1 K2]. rewrite K1. cbn [orb negb]. apply yields_get. rewrite (sv_fs _ _ (good_sv _ _ G1)).
    (* an overlay file is the physical file *)
    assert (E: lookup (w_fs w) p = Some (NFile g)).
    { destruct p as [|n d]; [cbn in El; discriminate|]. rewrite lookup_overlay in El by discriminate.
      unfold ofile in K1. destruct (mem_path (n :: d) (cf_dirs c)) eqn:Ed.
      - destruct (mem_path (n :: d) (cf_files c)) eqn:Ef; [rewrite (ci_disj _ _ HC _ Ef) in Ed|]; discriminate.
      - destruct (mem_path (n :: d) (cf_files c)); [exact El|].
        rewrite lookup_view in El by discriminate. destruct (visible w (n :: d)); [exact El|discriminate]. }
    rewrite E. apply yields_ret. apply (good_BInv _ _ G1).
  - destruct K as [K1 K2]. rewrite K1, K2. cbn [orb negb]. apply yields_get. rewrite (sv_fs _ _ (good_sv _ _ G1)).
    pose proof (Hdir K1) as Hd. apply isdir_lookup in Hd. rewrite Hd. apply yields_ret. apply (good_BInv _ _ G1).
  - destruct K as [K1 K2]. rewrite K1, K2. cbn [orb negb]. apply yields_raise. apply (good_BInv _ _ G1).
Qed.

(* ------------------------------------------------------------------ read *)
Lemma m_read_plain : forall p cm c, mem_path p (cf_files c) = false -> mem_path p (cf_dirs c) = false ->
  forall w, m_read p cm (Some c) w = m_read p cm None w.
Proof.
  intros p cm c Ef Ed w. unfold m_read, is_file_no_read, m_is_dir. cbn [cf_has_file cf_has_dir]. rewrite Ef, Ed. reflexivity.
Qed.

Theorem m_read_overlay : forall w c p cm, BInv w -> CInv w c -> path_ok p = true -> (cm = METADATA \/ hash_ok w) ->
  yields (m_read p cm (Some c)) w (to_res (record_answer (overlay_fs w c) (QRead p cm))).
Proof.
  intros w c p cm HB HC Hp Hc.
  assert (Hstat: match stat_err (overlay_fs w c) p with EOTHER => XOSError | _ => XFileNotFound end = XFileNotFound).
  { unfold stat_err. pose proof (absent_err_path_ok (overlay_fs w c) p Hp). destruct (absent_err (overlay_fs w c) p); try reflexivity. congruence. }
  destruct (mem_path p (cf_files c)) eqn:Ef.
  - (* an overlay file: the physical file is compared *)
    pose proof (ci_file _ _ HC _ Ef) as Hfile. pose proof (ci_disj _ _ HC _ Ef) as Ed.
    apply isfile_lookup in Hfile. destruct Hfile as [g Hg].
    assert (El: lookup (overlay_fs w c) p = Some (NFile g)).
    { destruct p as [|n d]; [cbn in Hg; discriminate|]. rewrite lookup_overlay by discriminate. rewrite Ed, Ef. exact Hg. }
    cbn [record_answer to_res]. rewrite El.
    unfold m_read, is_file_no_read. cbn [cf_has_file cf_has_dir]. rewrite Ef.
    eapply yields_pure; [reflexivity|]. eapply yields_pure; [reflexivity|].
    destruct (fcr_view w p cm HB) as [w1 [r [E1 [G1 [P1 _]]]]]. unfold fcr_post in P1. rewrite Hg in P1. specialize (P1 Hc). subst r.
    eapply yields_bind; [exists w1; split; [unfold catch; rewrite E1; reflexivity|exact G1]|].
    intros w2 G2. eapply yields_pure; [reflexivity|]. apply yields_ret. apply (good_BInv _ _ G2).
  - destruct (mem_path p (cf_dirs c)) eqn:Ed.
    + (* an overlay directory *)
      assert (El: lookup (overlay_fs w c) p = Some NDir).
      { destruct p as [|n d]; [reflexivity|]. rewrite lookup_overlay by discriminate. rewrite Ed. reflexivity. }
      cbn [record_answer to_res]. rewrite El.
      unfold m_read, is_file_no_read. cbn [cf_has_file cf_has_dir]. rewrite Ef, Ed.
      eapply yields_pure; [reflexivity|]. apply yields_bind_err.
      unfold m_is_dir. cbn [cf_has_dir]. rewrite Ed.
      eapply yields_pure; [reflexivity|]. apply yields_raise. exact HB.
    + (* not in the overlay: the live routine on the view *)
      pose proof (exec_query_view w (QRead p cm) HB Hp) as H. cbn [exec_query] in H.
      assert (Hy: yields (m_read p cm None) w (to_res (record_answer (view_fs w) (QRead p cm)))).
      { apply H; [intros q td Hq; discriminate|intros q c0 Hq; inversion Hq; subst; exact Hc]. }
      assert (El: lookup (overlay_fs w c) p = lookup (view_fs w) p).
      { destruct p as [|n d]; [reflexivity|]. rewrite lookup_overlay by discriminate. rewrite Ed, Ef. reflexivity. }
      assert (Hstat2: match stat_err (view_fs w) p with EOTHER => XOSError | _ => XFileNotFound end = XFileNotFound)
        by (apply stat_err_view_ok; exact Hp).
      destruct Hy as [w' [E G]]. exists w'. split; [|exact G]. rewrite (m_read_plain p cm c Ef Ed w), E.
      cbn [record_answer]. rewrite El, Hstat, Hstat2. reflexivity.
Qed.

(* ------------------------------------------------------------------ walk *)
Lemma ofile_not_odir : forall w c p, CInv w c -> ofile w c p = true -> odir w c p = false.
Proof.
  intros w c p HC H. unfold ofile, odir in *. destruct (mem_path p (cf_files c)) eqn:Ef.
  - rewrite (ci_disj _ _ HC _ Ef). reflexivity.
  - destruct (mem_path p (cf_dirs c)); [discriminate|]. apply vfile_not_vdir. exact H.
Qed.

Section OWalk.
  Variables (w0 : world) (c : cfiles).
  Hypothesis HC : CInv w0 c.
  (* the entries of the overlay can be named *)
  Hypothesis Hov : forall p, mem_path p (cf_dirs c) = true \/ mem_path p (cf_files c) = true -> path_ok p = true.

  Lemma cand_pok : forall w1 d n, good w0 w1 -> In n (osuperset w0 c d) -> pok w1 (n :: d).
  Proof.
    intros w1 d n G1 Hn. unfold osuperset, sort_strs in Hn. apply In_sort_by in Hn. apply in_app_iff in Hn.
    destruct Hn as [Hn|Hn].
    - right. rewrite (sv_fs _ _ (good_sv _ _ G1)). destruct (lookup (w_fs w0) d) as [[g|]|]; try destruct Hn. apply children_In. exact Hn.
    - left. apply filter_In in Hn. destruct Hn as [Hn _]. apply Hov. destruct (ci_sub_in _ _ HC _ _ Hn) as [K|K]; auto.
  Qed.

  Lemma classify_overlay : forall d l,
    (forall n, In n l -> In n (osuperset w0 c d)) ->
    forall w1, good w0 w1 ->
    yields (classify d (Some c) l) w1
           (inl (filter (fun n => odir w0 c (n :: d)) l, filter (fun n => ofile w0 c (n :: d)) l)).
  Proof.
    intros d l. induction l as [|n r IH]; intros Hl w1 G1.
    - apply yields_ret. apply (good_BInv _ _ G1).
    - cbn [classify filter].
      eapply yields_bind; [apply m_is_file_overlay; apply (good_BInv _ _ G1)|].
      intros w2 G2. rewrite (ofile_good _ _ _ _ G1). pose proof (good_trans _ _ _ G1 G2) as G02.
      assert (Hisd: yields (if ofile w0 c (n :: d) then ret false else m_is_dir (n :: d) (Some c)) w2
                           (inl (if ofile w0 c (n :: d) then false else odir w0 c (n :: d)))).
      { destruct (ofile w0 c (n :: d)); [apply yields_ret; apply (good_BInv _ _ G2)|].
        rewrite <- (odir_good _ _ _ _ G02). apply m_is_dir_overlay; [apply (good_BInv _ _ G2)|].
        apply cand_pok; [exact G02|apply Hl; left; reflexivity]. }
      eapply yields_bind; [exact Hisd|]. intros w3 G3. pose proof (good_trans _ _ _ G02 G3) as G03.
      eapply yields_bind; [apply IH; [intros m Hm; apply Hl; right; exact Hm|exact G03]|].
      intros w4 G4. cbn [fst snd]. destruct (ofile w0 c (n :: d)) eqn:Ef.
      + rewrite (ofile_not_odir _ _ _ HC Ef). apply yields_ret. apply (good_BInv _ _ G4).
      + destruct (odir w0 c (n :: d)); apply yields_ret; apply (good_BInv _ _ G4).
  Qed.
End OWalk.

Lemma ref_walk_overlay : forall w c f d td, BInv w -> CInv w c -> odir w c d = true ->
  ref_walk (S f) (overlay_fs w c) d td =
  let subdirs := filter (fun n => odir w c (n :: d)) (osuperset w c d) in
  let subfiles := filter (fun n => ofile w c (n :: d)) (osuperset w c d) in
  let below := flat_map (fun n => ref_walk f (overlay_fs w c) (n :: d) td) subdirs in
  if td then walk_entry d subdirs subfiles :: below else below ++ [walk_entry d subdirs subfiles].
Proof.
  intros w c f d td HB HC Hd. cbn [ref_walk]. cbv zeta. rewrite <- (onames_children w c d HB HC Hd). unfold onames.
  assert (E1: filter (fun n => isdir (overlay_fs w c) (n :: d)) (filter (fun n => ovisible w c (n :: d)) (osuperset w c d))
              = filter (fun n => odir w c (n :: d)) (osuperset w c d)).
  { rewrite (filter_ext (fun n => isdir (overlay_fs w c) (n :: d)) (fun n => odir w c (n :: d)))
      by (intro n; apply (isdir_overlay w c HB HC)).
    apply filter_filter_imp. intros n H. unfold ovisible. rewrite H. apply orb_true_r. }
  assert (E2: filter (fun n => isfile (overlay_fs w c) (n :: d)) (filter (fun n => ovisible w c (n :: d)) (osuperset w c d))
              = filter (fun n => ofile w c (n :: d)) (osuperset w c d)).
  { rewrite (filter_ext (fun n => isfile (overlay_fs w c) (n :: d)) (fun n => ofile w c (n :: d)))
      by (intro n; apply (isfile_overlay w c HC)).
    apply filter_filter_imp. intros n H. unfold ovisible. rewrite H. reflexivity. }
  rewrite E1, E2. reflexivity.
Qed.

Theorem append_walk_overlay : forall w0 c td, CInv w0 c ->
  (forall p, mem_path p (cf_dirs c) = true \/ mem_path p (cf_files c) = true -> path_ok p = true) ->
  forall fuel d w1, good w0 w1 -> BInv w0 -> odir w0 c d = true -> pok w0 d ->
  maxlen (overlay_fs w0 c) < fuel + List.length d ->
  yields (append_walk fuel d td (Some c)) w1 (inl (ref_walk fuel (overlay_fs w0 c) d td)).
Proof.
  intros w0 c td HC Hov. induction fuel as [|f IH]; intros d w1 G1 HB Hd Hp Hlen.
  - exfalso. rewrite <- (isdir_overlay w0 c HB HC) in Hd. apply isdir_lookup in Hd. apply lookup_maxlen in Hd. simpl in Hlen. lia.
  - rewrite append_walk_eq, (ref_walk_overlay w0 c f d td HB HC Hd). cbv zeta.
    pose proof (good_BInv _ _ G1) as B1. pose proof (CInv_good _ _ _ G1 HC) as C1.
    eapply yields_bind.
    { exists w1. split; [|apply good_refl; exact B1]. unfold catch.
      rewrite (list_dir_superset_overlay w1 c d); [reflexivity|rewrite (odir_good _ _ _ _ G1); exact Hd|eapply pok_good; eassumption|exact B1|exact C1]. }
    intros w2 G2. pose proof (good_trans _ _ _ G1 G2) as G02.
    assert (Esup: osuperset w1 c d = osuperset w0 c d) by (unfold osuperset; rewrite (sv_fs _ _ (good_sv _ _ G1)); reflexivity).
    rewrite Esup.
    eapply yields_bind.
    { apply (classify_overlay w0 c HC Hov d (osuperset w0 c d)); [auto|exact G02]. }
    intros w3 G3. pose proof (good_trans _ _ _ G02 G3) as G03. cbn [fst snd].
    eapply yields_bind.
    { apply (walk_go_view w0 (fun a => append_walk f a td (Some c)) (fun n => ref_walk f (overlay_fs w0 c) (n :: d) td) d); [|exact G03].
      intros n w4 Hn G4. apply filter_In in Hn. destruct Hn as [Hn Hv].
      apply IH; [exact G4|exact HB|exact Hv|apply (cand_pok w0 c HC Hov w0 d n (good_refl _ HB) Hn)|]. simpl. lia. }
    intros w4 G4. apply yields_ret. apply (good_BInv _ _ G4).
Qed.

Theorem m_walk_overlay : forall w c d td, BInv w -> CInv w c -> pok w d ->
  (forall p, mem_path p (cf_dirs c) = true \/ mem_path p (cf_files c) = true -> path_ok p = true) ->
  (odir w c d = true -> maxlen (overlay_fs w c) < walk_fuel + List.length d) ->
  yields (m_walk d td (Some c)) w (to_res (spec_answer_raw (overlay_fs w c) (QWalk d td))).
Proof.
  intros w c d td HB HC Hp Hov Hlen. unfold m_walk. cbn [spec_answer_raw to_res].
  eapply yields_bind; [apply m_is_dir_overlay; assumption|]. intros w1 G1.
  rewrite (isdir_overlay w c HB HC). destruct (odir w c d) eqn:Ed.
  - eapply yields_bind; [apply (append_walk_overlay w c td HC Hov walk_fuel d w1 G1 HB Ed Hp (Hlen eq_refl))|].
    intros w2 G2. apply yields_ret. apply (good_BInv _ _ G2).
  - apply yields_ret. apply (good_BInv _ _ G1).
Qed.

Print Assumptions m_get_size_overlay.
Print Assumptions m_read_overlay.
Print Assumptions m_walk_overlay.
