(* Proofs/SimA1Started.v — C04, the link to Core, run level: (D5) the directories created by
   started_building_file, (D6) every reserved directory lies above a live target. *)
From Coq Require Import List String Ascii NArith ZArith Bool Arith Lia.
From FB.Base Require Import PyVal Fs.
From FB.Model Require Import Types Monad CreatedFiles BuildDirs SimpleOps Builder.
From FB.Proofs Require Import FsLemmas ViewDefs ViewLemmas ViewScan ViewFrame ViewXDefs ViewXCount ViewXStart1
     SimA0 SimA1.
Import ListNotations.
Open Scope list_scope.

(* ------------------------------------------------------------------ (D5) *)
(* the walk reaches every ancestor y of [parent] below which (up to [parent]) nothing is reserved *)
Lemma started_reach : forall parent b cr acc y,
  suffix y parent ->
  (forall x, suffix y x -> suffix x parent -> in_counts b x = false) ->
  in_counts (fst (bd_started_from b cr parent acc)) y = true.
Proof.
  induction parent as [|n d IH]; intros b cr acc y Hy Hfree; rewrite bd_started_from_eq.
  - destruct (Nat.ltb 0 (st_count b [])) eqn:Epos; cbn [fst].
    + apply counted_pos in Epos. rewrite (Hfree [] Hy (suffix_refl _)) in Epos. discriminate.
    + apply suffix_nil in Hy. subst y.
      destruct (st_b2_facts b cr []) as (_ & _ & _ & M4 & _ & _). rewrite M4. reflexivity.
  - destruct (Nat.ltb 0 (st_count b (n :: d))) eqn:Epos; cbn [fst].
    + apply counted_pos in Epos. rewrite (Hfree (n :: d) Hy (suffix_refl _)) in Epos. discriminate.
    + destruct (st_b2_facts b cr (n :: d)) as (_ & _ & _ & M4 & _ & _).
      apply suffix_inv in Hy. destruct Hy as [->|Hy].
      * apply started_mono. rewrite M4, path_eqb_refl. reflexivity.
      * apply IH; [exact Hy|]. intros x H1 H2. rewrite M4.
        rewrite (Hfree x H1 (suffix_cons _ _ _ H2)), orb_false_r.
        destruct (path_eqb (n :: d) x) eqn:E; [|reflexivity].
        apply path_eqb_eq in E. subst x. apply suffix_length in H2. cbn [List.length] in H2. lia.
Qed.

Theorem bd_started_created : bd_started_created_statement.
Proof.
  unfold bd_started_created_statement. intros b n d ds Hpos Hds Hcl x.
  destruct (bd_started_frame2 b n d ds Hpos) as (I1 & I2 & I3 & _ & _).
  assert (Hreach: forall y, In y ds -> in_counts (fst (bd_started b (n :: d) ds)) y = true).
  { intros y Hy. unfold bd_started. apply started_reach.
    - apply (Hds y Hy).
    - intros z H1 H2. apply (Hds z (Hcl y z Hy H1 H2)). }
  destruct (mem_path x (bd_created b)) eqn:E1; cbn [orb].
  - apply I1. exact E1.
  - destruct (mem_path x ds) eqn:E2.
    + pose proof (proj1 (mem_path_In _ _) E2) as Hin.
      apply (I3 x (proj2 (Hds x Hin)) (Hreach x Hin) E2).
    + destruct (mem_path x (bd_created (fst (bd_started b (n :: d) ds)))) eqn:E3; [|reflexivity].
      destruct (I2 x E3) as [H|(H & _)]; congruence.
Qed.

(* ------------------------------------------------------------------ (D6) *)
Lemma filter_pos_ex : forall (f : path -> bool) l, 0 < List.length (filter f l) -> exists y, In y l /\ f y = true.
Proof.
  intros f l H. destruct (filter f l) as [|y r] eqn:E; [cbn in H; lia|].
  assert (Hy: In y (filter f l)) by (rewrite E; left; reflexivity).
  apply filter_In in Hy. eauto.
Qed.

Lemma psuffix_child : forall x m, psuffix x (m :: x).
Proof. intros x m. exists m, []. reflexivity. Qed.

Lemma psuffix_child_trans : forall x m t, psuffix (m :: x) t -> psuffix x t.
Proof.
  intros x m t (k & l & ->). exists k, (l ++ [m]). cbn [app]. rewrite <- app_assoc. reflexivity.
Qed.

Lemma keys_bound : forall l : list path, exists M, forall y, In y l -> List.length y <= M.
Proof.
  induction l as [|a l [M IH]].
  - exists 0. intros y [].
  - exists (Nat.max (List.length a) M). intros y [->|H]; [lia|]. specialize (IH y H). lia.
Qed.

Theorem reserved_has_live : reserved_has_live_statement.
Proof.
  unfold reserved_has_live_statement. intros T w x HX Hx.
  destruct (keys_bound (ckeys (w_bd w))) as [M HM].
  assert (Hmain: forall k y, in_counts (w_bd w) y = true -> M < List.length y + k ->
                 exists t, In t T /\ psuffix y t).
  { induction k as [|k IH]; intros y Hy Hk.
    - apply in_counts_keys in Hy. specialize (HM y Hy). lia.
    - pose proof (proj1 (in_counts_cval _ y (x_pos _ _ HX)) Hy) as Hc.
      rewrite (x_count _ _ HX) in Hc.
      destruct (Nat.eq_dec (nt T y) 0) as [Hz|Hnz].
      + assert (Hk2: 0 < nk (w_bd w) y) by lia. unfold nk in Hk2.
        apply filter_pos_ex in Hk2. destruct Hk2 as (c & Hc1 & Hc2).
        apply is_child_inv in Hc2. destruct Hc2 as [m ->].
        apply in_counts_keys in Hc1.
        destruct (IH (m :: y) Hc1) as (t & Ht1 & Ht2); [cbn [List.length]; lia|].
        exists t. split; [exact Ht1|]. eapply psuffix_child_trans. exact Ht2.
      + assert (Hk2: 0 < nt T y) by lia. unfold nt in Hk2.
        apply filter_pos_ex in Hk2. destruct Hk2 as (c & Hc1 & Hc2).
        apply is_child_inv in Hc2. destruct Hc2 as [m ->].
        exists (m :: y). split; [exact Hc1|apply psuffix_child]. }
  apply (Hmain (S M) x Hx). lia.
Qed.

Print Assumptions bd_started_created.
Print Assumptions reserved_has_live.
