(* Proofs/SimA1Error.v — C04, the link to Core, run level: (D7) of SimA1.v.
   BuildDirs.error_building_file seen through the view: the directories whose last
   reservation is released and that this build had created disappear from the view and
   nothing else changes; they are the created ancestors of the failed target with no other
   live target below them; bd_created loses exactly them; in the view each of them is a
   directory that holds at most the next one of them. *)
From Coq Require Import List String Ascii NArith ZArith Bool Arith Lia.
From FB.Base Require Import PyVal Fs.
From FB.Model Require Import Types Monad CreatedFiles BuildDirs SimpleOps Builder.
From FB.Proofs Require Import FsLemmas CleanLaws JsonLaws CoreLawsChildren
     ViewDefs ViewLemmas ViewScan ViewQueries ViewFrame ViewXDefs ViewXFrame ViewXCount ViewXErr1 ViewXError
     ViewXSteps SimA0 SimA1.
Import ListNotations.
Open Scope list_scope.

(* ------------------------------------------------------------------ the counting law, downwards *)
Lemma filter_pos_ex : forall (f : path -> bool) l, 0 < List.length (filter f l) -> exists y, In y l /\ f y = true.
Proof.
  intros f l H. destruct (filter f l) as [|y r] eqn:E; [simpl in H; lia|].
  assert (Hy: In y (filter f l)) by (rewrite E; left; reflexivity).
  apply filter_In in Hy. exists y. exact Hy.
Qed.

Definition maxklen (l : list path) : nat := fold_right (fun y m => Nat.max (List.length y) m) 0 l.

Lemma maxklen_In : forall l y, In y l -> List.length y <= maxklen l.
Proof.
  induction l as [|a l IH]; intros y H; [destruct H|]. simpl. destruct H as [->|H]; [lia|].
  apply IH in H. lia.
Qed.

(* a reserved directory holds a reserved directory or a live target *)
Lemma claw_step_down : forall T b x, claw T b -> in_counts b x = true ->
  (exists m, in_counts b (m :: x) = true) \/ (exists m, In (m :: x) T).
Proof.
  intros T b x [K P C] H. apply (in_counts_cval _ _ P) in H. rewrite (C x) in H.
  destruct (Nat.eq_dec (nk b x) 0) as [E|E].
  - right. assert (H0: 0 < nt T x) by lia. unfold nt in H0. apply filter_pos_ex in H0.
    destruct H0 as (y & Hy & Hc). apply is_child_inv in Hc. destruct Hc as [m ->]. exists m. exact Hy.
  - left. assert (H0: 0 < nk b x) by lia. unfold nk in H0. apply filter_pos_ex in H0.
    destruct H0 as (y & Hy & Hc). apply is_child_inv in Hc. destruct Hc as [m ->]. exists m.
    apply in_counts_keys. exact Hy.
Qed.

Lemma claw_reserved_live : forall T b, claw T b -> forall x, in_counts b x = true -> exists t, In t T /\ psuffix x t.
Proof.
  intros T b CL.
  assert (G: forall k x, S (maxklen (ckeys b)) - List.length x <= k -> in_counts b x = true ->
                         exists t, In t T /\ psuffix x t).
  { induction k as [|k IH]; intros x Hk H.
    - apply in_counts_keys in H. apply maxklen_In in H. lia.
    - destruct (claw_step_down T b x CL H) as [[m Hm]|[m Hm]].
      + destruct (IH (m :: x)) as (t & Ht & Hs); [simpl; lia|exact Hm|].
        exists t. split; [exact Ht|]. destruct Hs as (a & l & E). exists a, (l ++ [m]).
        rewrite E. cbn [app]. rewrite <- app_assoc. reflexivity.
      + exists (m :: x). split; [exact Hm|]. exists m, []. reflexivity. }
  intros x H. eapply G; [apply Nat.le_refl|exact H].
Qed.

(* ------------------------------------------------------------------ the step *)
Section ErrView.
  Variables (T : list path) (w : world) (n : name) (d : path) (b' : bdirs).
  Local Notation p := (n :: d).
  Local Notation b := (w_bd w).
  Local Notation T' := (rm1 p T).
  Local Notation w' := (set_bd b' w).
  Hypothesis HX : XInv T w.
  Hypothesis Hin : In p T.
  Hypothesis Habs : lookup (w_fs w) p = None.
  Hypothesis Hdirs : forall x, suffix x d -> isdir (w_fs w) x = true.
  Hypothesis C' : claw T' b'.
  Hypothesis F : err_frame b d b'.

  Definition relD (x : path) : bool :=
    in_counts b x && negb (in_counts b' x) && mem_path x (bd_created b).

  Lemma relD_inv : forall x, relD x = true ->
    in_counts b x = true /\ in_counts b' x = false /\ mem_path x (bd_created b) = true.
  Proof.
    intros x H. unfold relD in H. apply andb_true_iff in H. destruct H as [H H3].
    apply andb_true_iff in H. destruct H as [H1 H2]. apply negb_true_iff in H2. auto.
  Qed.

  Lemma relD_intro : forall x, in_counts b x = true -> in_counts b' x = false -> mem_path x (bd_created b) = true ->
    relD x = true.
  Proof. intros x H1 H2 H3. unfold relD. rewrite H1, H2, H3. reflexivity. Qed.

  Let Hnf : isfile (w_fs w) p = false.
  Proof. unfold isfile. rewrite Habs. reflexivity. Qed.

  Let HX' : XInv T' w' := e_XInv T w n d b' HX Hin Hnf C' F.

  Lemma relD_dir : forall x, relD x = true -> isdir (w_fs w) x = true.
  Proof.
    intros x H. destruct (relD_inv x H) as (H1 & H2 & _). apply Hdirs. apply (ef_rel _ _ _ F x H1 H2).
  Qed.

  (* ---- (1) the view ---- *)
  Lemma ev_trk_same : forall a, in_counts b a = false -> trk b' a = trk b a.
  Proof.
    intros a Hc. pose proof (e_sub_false w d b' F a Hc) as Hc'. unfold trk. rewrite Hc, Hc', (ef_removed _ _ _ F).
    f_equal. f_equal. destruct (mem_path a (bd_maybe b)) eqn:E.
    - apply (ef_mb_keep _ _ _ F). exact E.
    - destruct (mem_path a (bd_maybe b')) eqn:E'; [|reflexivity].
      destruct (ef_mb_sub _ _ _ F a E') as [H|(_ & H & _)]; congruence.
  Qed.

  Lemma ev_dead_same : forall a, relD a = false -> dead w' a = dead w a.
  Proof.
    apply (depth_ind (w_fs w) (fun a => relD a = false -> dead w' a = dead w a)).
    intros a IH HD. destruct (in_counts b a) eqn:Hc.
    - rewrite (dead_counts w a Hc). destruct (in_counts b' a) eqn:Hc'.
      + apply dead_counts. exact Hc'.
      + apply X_untracked_alive. cbn [w_bd set_bd]. apply (e_released_settled T w d b' HX F a Hc Hc').
        unfold relD in HD. rewrite Hc, Hc' in HD. cbn in HD. exact HD.
    - rewrite !dead_unfold. cbn [w_fs w_bd set_bd]. rewrite (ev_trk_same a Hc). f_equal.
      destruct (lookup (w_fs w) a) as [[f|]|]; try reflexivity.
      apply forallb_ext_in. intros m Hm. rewrite !invis_unfold. cbn [w_fs set_bd].
      change (hid w' (m :: a)) with (hid w (m :: a)).
      destruct (lookup (w_fs w) (m :: a)) as [[g|]|]; try reflexivity.
      apply IH; [exact Hm|].
      destruct (claw_no_kids _ _ a (XInv_claw _ _ HX) Hc) as [Hk _]. unfold relD. rewrite (Hk m). reflexivity.
  Qed.

  Lemma ev_invis : forall a, invis w' a = relD a || invis w a.
  Proof.
    intro a. destruct (relD a) eqn:HD; cbn [orb].
    - destruct (relD_inv a HD) as (H1 & H2 & H3). pose proof (relD_dir a HD) as Hd.
      apply (e_invis_dir w b' a Hd).
      apply (e_released_dead T w n d b' HX Hin Hnf C' F a H1 H2 H3 Hd).
    - rewrite !invis_unfold. cbn [w_fs set_bd]. change (hid w' a) with (hid w a).
      rewrite (ev_dead_same a HD). reflexivity.
  Qed.

  Lemma relD_nonroot : forall x, relD x = true -> x <> [].
  Proof. intros x H. destruct (relD_inv x H) as (_ & _ & H3). apply (s_created _ (x_sinv _ _ HX) x H3). Qed.

  Lemma ev_view : forall a, lookup (view_fs w') a = if relD a then None else lookup (view_fs w) a.
  Proof.
    intro a. destruct a as [|m q].
    - destruct (relD []) eqn:E; [|reflexivity]. exfalso. apply (relD_nonroot [] E). reflexivity.
    - rewrite (lookup_view w' (m :: q)), (lookup_view w (m :: q)) by discriminate.
      assert (Ev: forall u, visible u (m :: q) = negb (invis u (m :: q))).
      { intro u. unfold visible. rewrite invis_unfold. destruct (lookup (w_fs u) (m :: q)) as [[f|]|]; reflexivity. }
      rewrite !Ev, ev_invis. cbn [w_fs set_bd]. destruct (relD (m :: q)); reflexivity.
  Qed.

  (* ---- (2) which directories ---- *)
  Lemma ev_char : forall x, relD x = true <->
    (suffix x d /\ mem_path x (bd_created b) = true /\ ~ exists t, In t T' /\ psuffix x t).
  Proof.
    intro x. split.
    - intro H. destruct (relD_inv x H) as (H1 & H2 & H3). split; [apply (ef_rel _ _ _ F x H1 H2)|]. split; [exact H3|].
      intros (t & Ht & Hs). pose proof (X_target_parent _ _ _ HX' Ht) as Hp. cbn [w_bd set_bd] in Hp.
      assert (Hsd: suffix x (dirname t)).
      { destruct Hs as (a & l & E). subst t. cbn [app dirname tl]. exists l. reflexivity. }
      pose proof (counts_up_suffix w' (dirname t) x (x_binv _ _ HX') Hp Hsd) as Hc. cbn [w_bd set_bd] in Hc. congruence.
    - intros (Hs & Hcr & Hno). destruct (s_created _ (x_sinv _ _ HX) x Hcr) as [Hc _].
      apply relD_intro; [exact Hc| |exact Hcr].
      destruct (in_counts b' x) eqn:E; [|reflexivity]. exfalso. apply Hno. apply (claw_reserved_live _ _ C' x E).
  Qed.

  (* ---- (3) bd_created ---- *)
  Lemma ev_created : forall x, mem_path x (bd_created b') = mem_path x (bd_created b) && negb (relD x).
  Proof.
    intro x. destruct (mem_path x (bd_created b')) eqn:E.
    - rewrite (ef_cr_sub _ _ _ F x E). cbn [andb]. symmetry. apply negb_true_iff.
      destruct (relD x) eqn:HD; [|reflexivity]. destruct (relD_inv x HD) as (H1 & H2 & _).
      rewrite (ef_rel_cr _ _ _ F x H1 H2) in E. discriminate.
    - destruct (mem_path x (bd_created b)) eqn:E0; [|reflexivity]. cbn [andb].
      destruct (ef_cr_rel _ _ _ F x E0 E) as [H1 H2]. rewrite (relD_intro x H1 H2 E0). reflexivity.
  Qed.

  (* ---- (4) what they hold ---- *)
  Lemma ev_chain : forall x, relD x = true ->
    lookup (view_fs w) x = Some NDir /\ forall m, lexists (view_fs w) (m :: x) = true -> relD (m :: x) = true.
  Proof.
    intros x HD. destruct (relD_inv x HD) as (H1 & H2 & H3). pose proof (relD_dir x HD) as Hd. split.
    - rewrite (lookup_view w x (relD_nonroot x HD)). unfold visible. apply isdir_lookup in Hd. rewrite Hd.
      rewrite (dead_counts w x H1). reflexivity.
    - intros m Hv. rewrite lexists_view in Hv by discriminate. pose proof (visible_lexists _ _ Hv) as Hex.
      destruct (claw_no_kids _ _ x C' H2) as [Hnk Hnt].
      destruct (x_kids _ _ HX x m H3 Hex) as [H|[H|H]].
      + apply relD_intro; [exact H|apply Hnk|apply (x_cc _ _ HX x m H3 H)].
      + exfalso. destruct (path_eqb (m :: x) p) eqn:E.
        * apply path_eqb_eq in E. rewrite E in Hex. unfold lexists in Hex. rewrite Habs in Hex. discriminate.
        * apply path_eqb_neq in E. apply (Hnt m). apply rm1_other; assumption.
      + exfalso. rewrite (invis_visible w _ Hex), Hv in H. discriminate.
  Qed.
End ErrView.

(* ------------------------------------------------------------------ (D7) *)
Theorem bd_error_view : bd_error_view_statement.
Proof.
  intros T w n d b' HX Hin Habs Hdirs Hm D.
  destruct (bd_error_spec T (w_bd w) n d (XInv_claw _ _ HX) Hin) as (b0 & E & C' & F).
  unfold m_bd_error in Hm. rewrite E in Hm.
  assert (Eb: b0 = b').
  { assert (H: set_bd b0 w = set_bd b' w) by congruence. apply (f_equal w_bd) in H. exact H. }
  subst b0.
  change D with (relD w b'). split; [|split; [|split]].
  - eapply ev_view; eassumption.
  - eapply ev_char; eassumption.
  - eapply ev_created; eassumption.
  - eapply ev_chain; eassumption.
Qed.

Print Assumptions bd_error_view.
