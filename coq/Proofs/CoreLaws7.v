(* Proofs/CoreLaws7.v — the hypotheses of the transparency theorem are satisfiable:
   a generic content oracle read off a tree ([kp_of]) satisfies kp_init always and kp_new
   when no file of the tree is newer than the start of the build (METADATA assumption;
   for HASH by injectivity of hash_of); and a concrete instance — a build_file whose
   function reads a file, a previous cache holding its record, a tree on which the replay
   succeeds — satisfies all hypotheses of [build_transparent]. *)
From Coq Require Import List String Ascii NArith ZArith Bool Arith Lia.
From FB.Base Require Import PyVal Fs.
From FB.Gen Require Import JsonUtilGen.
From FB.Spec Require Import JsonSpec Prog Ref Oracle Faithful.
From FB.Model Require Import Types SimpleOps Builder Persist Dsl Core CoreOracle.
From FB.Proofs Require Import FsLemmas JsonLaws CleanLaws CoreLawsJson CoreLaws1 CoreLaws5 CoreLaws6.
Import ListNotations.
Local Open Scope list_scope.
Local Open Scope string_scope.

(* ------------------------------------------------------------------ *)
(* a content oracle read off a tree                                   *)
(* ------------------------------------------------------------------ *)
Definition kp_of (fs : fsT) : kappa := fun p c r =>
  match lookup fs p with
  | Some (NFile f) => if pyval_same r (cmp_of c f) then Some (f_bytes f) else None
  | _ => None
  end.

Lemma kp_of_init : forall fs, kp_init (kp_of fs) fs.
Proof.
  intros fs p f Hp c r x Hk _. unfold kp_of in Hk. rewrite Hp in Hk.
  destruct (pyval_same r (cmp_of c f)); inversion Hk. reflexivity.
Qed.

Lemma metadata_time : forall f g,
  is_equal (cmp_of METADATA f) (cmp_of METADATA g) = true -> f_mtime f = f_mtime g.
Proof.
  intros f g H. cbn in H.
  destruct (Z.of_nat (String.length (f_bytes f)) =? Z.of_nat (String.length (f_bytes g)))%Z; cbn in H; [|discriminate].
  destruct (Z.of_N (f_mtime f) =? Z.of_N (f_mtime g))%Z eqn:E; cbn in H; [|discriminate].
  apply Z.eqb_eq in E. lia.
Qed.

(* METADATA: size + mtime determine the content, given that nothing on the tree is newer than the
   start of the build; HASH: hash_of is injective *)
Lemma kp_of_new : forall fs clock,
  (forall p f, lookup fs p = Some (NFile f) -> (f_mtime f <= clock)%N) -> kp_new (kp_of fs) clock.
Proof.
  intros fs clock Hold p g Hg c r x Hk Hcmp. unfold kp_of in Hk.
  destruct (lookup fs p) as [[f|]|] eqn:Hp; try discriminate.
  destruct (pyval_same r (cmp_of c f)) eqn:Er; [|discriminate]. inversion Hk; subst x. apply pyval_same_eq in Er. subst r.
  pose proof (Hold p f Hp) as Hle. destruct c.
  - exfalso. destruct Hcmp as [H|H]; apply metadata_time in H; lia.
  - cbn [cmp_of] in Hcmp. apply (is_equal_hash (hash_of (f_bytes f))); [|exact Hcmp].
    left. cbn. apply String.eqb_refl.
Qed.

(* ------------------------------------------------------------------ *)
(* a concrete instance                                                *)
(* ------------------------------------------------------------------ *)
Definition g_copy (p : path) (a k : pyval) : prog :=
  Ask false (QRead ["src"] METADATA) (fun o =>
    match o with
    | inl (PStr s) => Write (s ++ "!") (Ret (PInt 1))
    | inl _ => Raise (XUser 0)
    | inr e => Raise e
    end).
Definition G : ftable := {| ft_file := fun _ => g_copy; ft_sub := fun _ _ _ => Ret PNone |}.

(* this build asks for ["out"] with an argument that is JSON-equal, not identical, to the recorded one *)
Definition g_root : prog :=
  BuildFile false ["out"] METADATA "copy" (PTuple [PFloat (FFin false 1 0)]) (PDict []) g_copy (fun _ => Ret (PStr "ok")).

Definition g_src : fnode := {| f_bytes := "hello"; f_mtime := 3; f_id := 1; f_json := None |}.
Definition g_out : fnode := {| f_bytes := "hello!"; f_mtime := 11; f_id := 10; f_json := None |}.
Definition g_cf : path := ["cache"].
Definition g_fs : fsT :=
  [(g_cf, Some (NFile cache_marker)); (["out"], Some (NFile g_out)); (["src"], Some (NFile g_src))].
Definition g_vers : pyval := PDict [(PStr "copy", PInt 1)].
Definition g_rec : op :=
  OBuildFile ["out"] METADATA "copy" (PList [PInt 1]) (PDict [])
             [OSimple (QRead ["src"] METADATA) (cmp_of METADATA g_src) None]
             (PInt 1) (cmp_of METADATA g_out) false false.
Definition g_old : cache :=
  {| c_name := "b"; c_files := [(["out"], Some g_rec)]; c_subs := []; c_dirs := []; c_fvers := g_vers; c_built := [] |}.
Definition g_kp : kappa := kp_of g_fs.

Lemma g_obeys : Obeys G g_root.
Proof.
  assert (H : forall p a k, Obeys G (g_copy p a k)).
  { intros p a k. constructor. intros [v|e]; [destruct v|]; repeat constructor. }
  constructor; [reflexivity|exact H|]. intro o. constructor.
Qed.

Lemma g_respects : Respects G.
Proof. intros f p a a' k k' _ _. reflexivity. Qed.

Lemma g_files : forall p o, files_get (c_files g_old) p = Some (Some o) -> p = ["out"] /\ o = g_rec.
Proof.
  intros p o H. change (c_files g_old) with [(["out"], Some g_rec)]%list in H. cbn [files_get] in H. destruct (path_eqb ["out"] p) eqn:E; [|discriminate].
  apply path_eqb_eq in E. inversion H. auto.
Qed.

Lemma g_cache_wf : cache_wf g_old.
Proof.
  split.
  - intros p o H. destruct (g_files p o H) as [-> ->]. unfold g_rec. repeat eexists. discriminate.
  - intros key o H. discriminate.
Qed.

Lemma g_faithful : faithful_cache g_kp G g_old g_vers.
Proof.
  split.
  - intros p o H _ _. destruct (g_files p o H) as [-> ->]. vm_compute. reflexivity.
  - intros key f a k subs ret_ raised sf H. discriminate.
Qed.

Lemma g_lookup : forall p f, lookup g_fs p = Some (NFile f) -> f = cache_marker \/ f = g_out \/ f = g_src.
Proof.
  intros p f H. destruct p as [|x d]; [discriminate|]. unfold g_fs, lookup in H. cbn [raw_lookup] in H.
  destruct (path_eqb g_cf (x :: d)); [inversion H; auto|].
  destruct (path_eqb ["out"] (x :: d)); [inversion H; auto|].
  destruct (path_eqb ["src"] (x :: d)); [inversion H; auto|discriminate].
Qed.

Lemma g_fs_wf : fs_wf g_fs.
Proof.
  intros p n H. destruct p as [|x d]; [reflexivity|]. destruct d as [|y d]; [reflexivity|]. exfalso.
  unfold g_fs, g_cf, lookup in H. cbn in H. rewrite !andb_false_r in H. discriminate.
Qed.

(* all hypotheses of the theorem hold for the instance (start of the build: clock 20) *)
Example instance_hypotheses :
  Obeys G g_root /\ Respects G /\ cache_wf g_old /\ faithful_cache g_kp G g_old g_vers /\
  kp_init g_kp g_fs /\ kp_new g_kp 20 /\ fs_wf g_fs.
Proof.
  split; [exact g_obeys|]. split; [exact g_respects|]. split; [exact g_cache_wf|]. split; [exact g_faithful|].
  split; [apply kp_of_init|]. split; [|exact g_fs_wf].
  apply kp_of_new. intros p f H. destruct (g_lookup p f H) as [-> | [-> | ->]]; cbn; lia.
Qed.

(* the replay does succeed: Core serves ["out"] from the cache (its log has no invocation of "copy"),
   the reference build runs the function *)
Example instance_hit :
  let cr := core_build g_fs g_cf g_old g_vers 20 20 g_root in
  let rr := ref_build g_fs g_cf (prev_of_cache g_old) 20 20 g_root in
  cr_outcome cr = inl (PStr "ok") /\
  flat_map show_log1 (cr_log cr) = ["invoke <root> - N N"]%list /\
  List.length (rr_log rr) = 3%nat /\
  red_tree (cr_tree cr) g_cf = red_tree (rr_tree rr) g_cf.
Proof. vm_compute. repeat split; reflexivity. Qed.

(* and the theorem applies *)
Example instance_conclusion :
  let cr := core_build g_fs g_cf g_old g_vers 20 20 g_root in
  let rr := ref_build g_fs g_cf (prev_of_cache g_old) 20 20 g_root in
  cr_outcome cr = rr_outcome rr /\ tree_equiv (cr_tree cr) (rr_tree rr) /\ sublog (cr_log cr) (rr_log rr).
Proof.
  destruct instance_hypotheses as [H1 [H2 [H3 [H4 [H5 [H6 H7]]]]]].
  exact (build_transparent g_kp G g_fs g_cf g_old g_vers 20 20 g_root H1 H2 H3 H4 H5 H6 H7).
Qed.

Print Assumptions T1.
Print Assumptions build_transparent.
Print Assumptions instance_hypotheses.
Print Assumptions instance_conclusion.
