(* Proofs/CoreLaws5.v — cache transparency of the Core model, one run (Theorem T1):
   Core and the reference semantics, started in similar states, end in similar states
   with the same outcome; Core's log is a subsequence of the reference log. *)
From Coq Require Import List String Ascii NArith ZArith Bool Arith Lia.
From FB.Base Require Import PyVal Fs.
From FB.Gen Require Import JsonUtilGen.
From FB.Spec Require Import JsonSpec Prog Ref Faithful.
From FB.Model Require Import Types SimpleOps Builder Persist Core.
From FB.Proofs Require Import FsLemmas JsonLaws CleanLaws CoreLawsChildren CoreLawsJson CoreLaws1 CoreLaws2 CoreLaws3 CoreLaws4.
Import ListNotations.
Local Open Scope list_scope.

(* ------------------------------------------------------------------ *)
(* logs                                                               *)
(* ------------------------------------------------------------------ *)
Lemma sublog_refl : forall {A} (l : list A), sublog l l.
Proof. induction l; constructor; auto. Qed.
Lemma sublog_app_r : forall {A} (ex a b : list A), sublog a b -> sublog a (ex ++ b).
Proof. induction ex; simpl; intros; [assumption|]. constructor. auto. Qed.

(* ------------------------------------------------------------------ *)
(* the stale store                                                    *)
(* ------------------------------------------------------------------ *)
Lemma stale_del_same : forall l p, stale_get (stale_del l p) p = None.
Proof.
  induction l as [|[k g] l IH]; simpl; intro p; [reflexivity|].
  destruct (path_eqb k p) eqn:E; [apply IH|]. simpl. rewrite E. apply IH.
Qed.

Lemma stale_del_get : forall l p q f, stale_get (stale_del l p) q = Some f -> stale_get l q = Some f.
Proof.
  induction l as [|[k g] l IH]; simpl; intros p q f H; [discriminate|].
  destruct (path_eqb k p) eqn:E.
  - destruct (path_eqb k q) eqn:E2; [|eapply IH; eauto].
    apply path_eqb_eq in E, E2. subst. rewrite stale_del_same in H. discriminate.
  - simpl in H. destruct (path_eqb k q); [exact H|]. eapply IH; eauto.
Qed.

Lemma fold_stale_del_get : forall ps l q f, stale_get (fold_left stale_del ps l) q = Some f -> stale_get l q = Some f.
Proof.
  induction ps as [|p ps IH]; simpl; intros l q f H; [exact H|]. apply IH in H. eapply stale_del_get; eauto.
Qed.

Lemma phys_cases : forall fs st p f, phys fs st p = Some f -> lookup fs p = Some (NFile f) \/ stale_get st p = Some f.
Proof.
  intros fs st p f H. unfold phys in H. destruct (lookup fs p) as [[g|]|]; [left; congruence|discriminate|right; exact H].
Qed.

Lemma cache_get_file_files : forall old p o, cache_get_file old p = Some o -> files_get (c_files old) p = Some (Some o).
Proof. intros old p o H. unfold cache_get_file in H. destruct (files_get (c_files old) p) as [[x|]|]; congruence. Qed.

Lemma bf_end_nonraised : forall kp p c nsubs ret_ cmpres out bytes cl2 o,
  bf_end kp p c nsubs ret_ cmpres false out bytes cl2 = Some o -> o = inl ret_.
Proof.
  intros kp p c nsubs ret_ cmpres out bytes cl2 o H. unfold bf_end in H.
  destruct out as [v|e]; [|discriminate]. destruct (sanitize v) as [sv|]; [|discriminate].
  destruct bytes as [b|]; [|discriminate].
  destruct (existsb (is_ancestor p) (flat_map tree_outputs nsubs)); [discriminate|].
  destruct (existsb (is_ancestor p) (fst cl2)); [discriminate|]. cbn [negb andb] in H.
  destruct (pyval_same ret_ sv) eqn:E; [|discriminate]. apply pyval_same_eq in E. subst.
  cbn [andb] in H. destruct (kp p c cmpres); [|discriminate]. destruct (String.eqb b s); inversion H. reflexivity.
Qed.

Lemma sb_end_nonraised : forall ret_ out o, sb_end ret_ false out = Some o -> o = inl ret_.
Proof.
  intros ret_ out o H. unfold sb_end in H. destruct out as [v|e]; [|discriminate].
  destruct (sanitize v) as [sv|]; [|discriminate]. cbn [negb andb] in H.
  destruct (pyval_same ret_ sv) eqn:E; [|discriminate]. apply pyval_same_eq in E. subst. inversion H. reflexivity.
Qed.

(* ------------------------------------------------------------------ *)
(* similarity is kept by the common steps                             *)
(* ------------------------------------------------------------------ *)
Lemma sim_klog_rlog : forall s r e e', sim s r -> sim (klog e s) (rlog e' r).
Proof. intros s r e e' H. exact H. Qed.
Lemma sim_klog : forall s r e, sim s r -> sim (klog e s) r.
Proof. intros s r e H. exact H. Qed.
Lemma sim_tick : forall s r, sim s r -> sim (ktick s) (rtick r).
Proof. intros s r H. exact H. Qed.

Lemma claim_check_sim : forall s r p, sim s r ->
  claim_check (k_claimedF s) (k_cachefile s) p = claim_check (r_claimedF r) (r_cachefile r) p.
Proof. intros s r p [_ [H [_ [_ [_ E]]]]]. unfold claim_check. rewrite (H p), E. reflexivity. Qed.

Lemma setup_sim : forall s r p, sim s r ->
  setup_rel (setup_fs (k_fs s) (k_cachefile s) p) (setup_fs (r_fs r) (r_cachefile r) p).
Proof. intros s r p [T [_ [_ [_ [_ E]]]]]. rewrite <- E. apply setup_fs_te. exact T. Qed.

Lemma start_sim : forall s r p fname sa skw fs1 fs1r dirs, sim s r -> tree_equiv fs1 fs1r ->
  sim (core_start (core_s0 s p fs1 dirs) p fname sa skw) (ref_start r p fname sa skw fs1r dirs).
Proof.
  intros s r p fname sa skw fs1 fs1r dirs [T [CF [CS [N [M E]]]]] T1.
  repeat split; cbn.
  - apply try_remove_te. exact T1.
  - intro q. cbn. rewrite (CF q). reflexivity.
  - exact CS.
  - rewrite N. reflexivity.
  - rewrite M. reflexivity.
  - exact E.
Qed.

Section Main.
  Variable kp : kappa.
  Variable F : ftable.
  Variable old : cache.
  Variable vers : pyval.
  Variable clock0 : N.
  Hypothesis HR : Respects F.
  Hypothesis HW : cache_wf old.
  Hypothesis HF : faithful_cache kp F old vers.
  Hypothesis HN : kp_new kp clock0.

  Notation KI := (KInv kp old vers clock0).

  Lemma KInv_klog : forall s e, KI s -> KI (klog e s).
  Proof. intros s e H. exact H. Qed.
  Lemma KInv_ktick : forall s, KI s -> KI (ktick s).
  Proof. intros s [H1 [H2 [H3 [H4 H5]]]]. repeat split; auto. cbn. lia. Qed.

  Lemma KInv_s0 : forall s p fs1 dirs, KI s -> fs_wf (k_fs s) ->
    setup_fs (k_fs s) (k_cachefile s) p = inl (fs1, dirs) -> KI (core_s0 s p fs1 dirs).
  Proof.
    intros s p fs1 dirs [H1 [H2 [H3 [H4 H5]]]] W Hs. repeat split; auto; cbn.
    - intros q f [Hq|Hq]; [|eapply H3; eauto]. eapply H3. left. eapply setup_fs_file_rev; eauto.
    - intros q o Ho Hr Hq. destruct (setup_fs_ok _ _ _ _ _ W Hs) as [_ [_ [_ [_ [_ [_ [_ [_ Hisf]]]]]]]].
      rewrite Hisf in Hq. eapply H4; eauto.
  Qed.

  Lemma KInv_start : forall s0 p fname sa skw, KI s0 -> KI (core_start s0 p fname sa skw).
  Proof.
    intros s0 p fname sa skw [H1 [H2 [H3 [H4 H5]]]]. repeat split; auto; cbn.
    - intros q f [Hq|Hq]; eapply H3; [left; eapply try_remove_file; eauto|right; eapply stale_del_get; eauto].
    - intros q o Ho Hr Hq. apply try_remove_isfile in Hq. rewrite (H4 q o Ho Hr Hq). apply orb_true_r.
  Qed.

  Lemma core_prune_fs : forall s2 p o, k_fs (core_prune s2 p o) = prune_fs (k_fs s2) (k_need s2) (k_made s2) p.
  Proof. reflexivity. Qed.

  Lemma prune_sim : forall s2 r2 p o, sim s2 r2 -> sim (core_prune s2 p o) (prune_made r2 p).
  Proof.
    intros s2 r2 p o [T [CF [CS [N [M E]]]]]. repeat split; try assumption.
    - rewrite core_prune_fs, prune_made_fs, N, M. apply prune_fs_te. exact T.
    - cbn. rewrite N. reflexivity.
    - cbn. rewrite N, M. reflexivity.
  Qed.

  Lemma KInv_prune : forall s2 p o, KI s2 -> KI (core_prune s2 p o).
  Proof.
    intros s2 p o [H1 [H2 [H3 [H4 H5]]]]. repeat split; auto.
    - intros q f [Hq|Hq]; [|eapply H3; eauto]. rewrite core_prune_fs in Hq. apply prune_fs_file in Hq. eapply H3; eauto.
    - intros q o' Ho Hr Hq. rewrite core_prune_fs, prune_fs_isfile in Hq. eapply H4; eauto.
  Qed.

  Lemma finish_sim : forall s2 r2 p c fname sa skw bsubs res pend2 s3 out o r3 out_r,
    sim s2 r2 -> KI s2 -> mem_path p (k_claimedF s2) = true -> (pend2 = None \/ (clock0 < k_clock s2)%N) ->
    core_finish s2 p c fname sa skw bsubs res pend2 = (s3, out, o) -> ref_finish r2 p res pend2 = (r3, out_r) ->
    out = out_r /\ sim s3 r3 /\ KI s3 /\ k_log s3 = k_log s2 /\ r_log r3 = r_log r2 /\ k_clock s3 = k_clock s2.
  Proof.
    intros s2 r2 p c fname sa skw bsubs res pend2 s3 out o r3 out_r S K Hcl Hclk Hc Hr.
    unfold core_finish in Hc. unfold ref_finish in Hr.
    assert (Fl : forall e o', (core_prune s2 p o', @inr pyval exn e, o') = (s3, out, o) ->
                 (prune_made r2 p, @inr pyval exn e) = (r3, out_r) ->
                 out = out_r /\ sim s3 r3 /\ KI s3 /\ k_log s3 = k_log s2 /\ r_log r3 = r_log r2 /\ k_clock s3 = k_clock s2).
    { intros e o' E1 E2. inversion E1; subst. inversion E2; subst.
      split; [reflexivity|]. split; [apply prune_sim; exact S|]. split; [apply KInv_prune; exact K|]. auto. }
    destruct res as [v|e]; [|eapply Fl; eauto].
    destruct (sanitize v) as [sv|]; [|eapply Fl; eauto].
    destruct pend2 as [bytes|]; [|eapply Fl; eauto].
    destruct S as [T [CF [CS [N [M E]]]]].
    pose proof (write_file_te (k_fs s2) (r_fs r2) p bytes None None (k_clock s2) (r_clock r2) (k_nextid s2) (r_nextid r2) T) as R.
    destruct (write_file (k_fs s2) p bytes None (k_clock s2) (k_nextid s2)) as [fs3|e1] eqn:Ew1;
      destruct (write_file (r_fs r2) p bytes None (r_clock r2) (r_nextid r2)) as [fs3r|e2] eqn:Ew2; simpl in R; try contradiction.
    - inversion Hc; subst. inversion Hr; subst. clear Fl Hc Hr.
      split; [reflexivity|]. split; [repeat split; assumption|]. split; [|auto].
      destruct K as [H1 [H2 [H3 [H4 H5]]]].
      destruct (write_file_ok _ _ _ _ _ _ _ Ew1) as [Hne [_ [[g [Hg [_ Hgm]]] Hoth]]].
      repeat split; auto; cbn.
      + intros q f [Hq|Hq]; [|eapply H3; eauto].
        destruct (path_eqb q p) eqn:Eq.
        * apply path_eqb_eq in Eq. subst q. rewrite Hg in Hq. inversion Hq; subst. apply HN.
          destruct Hclk as [Hx|Hx]; [discriminate|]. rewrite Hgm. exact Hx.
        * apply path_eqb_neq in Eq. rewrite Hoth in Hq by exact Eq. eapply H3; eauto.
      + intros q o' Ho Hr' Hq. destruct (path_eqb q p) eqn:Eq.
        * apply path_eqb_eq in Eq. subst q. exact Hcl.
        * apply path_eqb_neq in Eq. unfold isfile in Hq. rewrite Hoth in Hq by exact Eq. eapply H4; eauto.
    - subst e2. eapply Fl; eauto.
  Qed.

  (* ---------------------------------------------------------------- *)
  (* adoption of a replayed subtree                                   *)
  (* ---------------------------------------------------------------- *)
  Lemma adopted : forall s0 sF rp1 r3 cl2,
    KI s0 -> RM kp s0 rp1 r3 cl2 ->
    k_fs sF = rp_fs rp1 ->
    (forall q f, stale_get (k_stale sF) q = Some f -> stale_get (k_stale s0) q = Some f) ->
    k_claimedF sF = fst cl2 ++ k_claimedF s0 -> k_claimedS sF = snd cl2 ++ k_claimedS s0 ->
    k_need sF = rp_need rp1 -> k_made sF = rp_made rp1 -> k_clock sF = k_clock s0 ->
    k_old sF = k_old s0 -> k_vers sF = k_vers s0 -> k_cachefile sF = k_cachefile s0 ->
    sim sF r3 /\ KI sF.
  Proof.
    intros s0 sF rp1 r3 cl2 [H1 [H2 [H3 [H4 H5]]]] [M1 M2 M3 M4 M5 M6 M7 M8 M9 M10 M11] Efs Est EcF EcS En Em Eck Eo Ev Ecf.
    split.
    - repeat split.
      + rewrite Efs. exact M1.
      + intro q. rewrite EcF, mem_path_app, M5, M10. apply orb_comm.
      + intro k. rewrite EcS, existsb_app, M6, M11. apply orb_comm.
      + rewrite En. exact M2.
      + rewrite Em. exact M3.
      + rewrite Ecf. symmetry. exact M4.
    - repeat split; try congruence.
      + intros q f [Hq|Hq]; [rewrite Efs in Hq; eapply M8; eauto|eapply H3; eauto].
      + intros q o Ho Hr Hq. rewrite Efs in Hq. rewrite EcF, mem_path_app.
        destruct (M9 q Hq) as [Hx|Hx]; [rewrite (H4 q o Ho Hr Hx); apply orb_true_r|rewrite Hx; reflexivity].
  Qed.

  Lemma hit_file : forall s r tgt p c fname sa skw fs1 fs1r dirs f subs' ret' rp' (fn : path -> pyval -> pyval -> prog),
    sim s r -> KI s -> RInv' tgt r ->
    claim_check (r_claimedF r) (r_cachefile r) p = None ->
    setup_fs (k_fs s) (k_cachefile s) p = inl (fs1, dirs) ->
    setup_fs (r_fs r) (r_cachefile r) p = inl (fs1r, dirs) -> tree_equiv fs1 fs1r ->
    core_hit s (core_s0 s p fs1 dirs) p fname sa skw = Some (f, subs', ret', rp') ->
    fn p sa skw = ft_file F fname p sa skw ->
    exists r2 res pend2 r3,
      ref_run (fn p sa skw) (Some p) None (ref_start r p fname sa skw fs1r dirs) = (r2, (res, pend2)) /\
      ref_finish r2 p res pend2 = (r3, inl ret') /\
      sim (core_put (adopt (core_s0 s p fs1 dirs) rp' (OBuildFile p c fname sa skw subs' ret' (cmp_of c f) false false)) p f) r3 /\
      KI (core_put (adopt (core_s0 s p fs1 dirs) rp' (OBuildFile p c fname sa skw subs' ret' (cmp_of c f) false false)) p f) /\
      RInv' tgt r3 /\ rext r r3.
  Proof.
    intros s r tgt p c fname sa skw fs1 fs1r dirs f subs' ret' rp' fn S K I Hcc Hsk Hsr T1 Hhit Hfn.
    assert (Wk : fs_wf (k_fs s)) by (eapply te_wf; [apply te_sym; exact (proj1 S)|exact (RInv_wf _ _ I)]).
    pose proof (KInv_s0 s p fs1 dirs K Wk Hsk) as K0.
    set (s0 := core_s0 s p fs1 dirs) in *.
    destruct K as [Hold [Hvers [K1 [K2 Kc]]]].
    unfold core_hit in Hhit. rewrite Hold in Hhit.
    destruct (cache_get_file old p) as [orec|] eqn:Eg; [|discriminate].
    destruct orec as [|p' c' fname' a' k' subs0 ret0 cmpres' raised' sf'|]; try discriminate.
    destruct raised'; [discriminate|].
    destruct (negb (String.eqb fname' fname)) eqn:Efn; [discriminate|]. apply negb_false_iff, String.eqb_eq in Efn. subst fname'.
    destruct (negb (kversion_equal s fname)) eqn:Ev; [discriminate|]. apply negb_false_iff in Ev.
    destruct (negb (is_equal a' sa) || negb (is_equal k' skw)) eqn:Ea; [discriminate|].
    apply orb_false_iff in Ea. destruct Ea as [Ea Ek]. apply negb_false_iff in Ea, Ek.
    destruct (phys (k_fs s0) (k_stale s0) p) as [f0|] eqn:Eph; [|discriminate].
    destruct (negb (is_equal cmpres' (cmp_of c' f0))) eqn:Ecmp; [discriminate|]. apply negb_false_iff in Ecmp.
    destruct (kreplay_list s0 subs0 (start_replay s0)) as [rpx|] eqn:Ekr; [|discriminate].
    inversion Hhit; subst f0 subs0 ret0 rpx. clear Hhit.
    pose proof (cache_get_file_files _ _ _ Eg) as Hfiles.
    destruct HW as [HWf _]. destruct (HWf p _ Hfiles) as (c2 & f2 & a2 & k2 & subs2 & ret2 & cmp2 & ra2 & sf2 & Heq & Hsf).
    inversion Heq; subst p' c2 f2 a2 k2 subs2 ret2 cmp2 ra2 sf2. clear Heq.
    destruct sf'; [specialize (Hsf eq_refl); discriminate|]. clear Hsf.
    assert (Hrep : replayable old vers (OBuildFile p c' fname a' k' subs' ret' cmpres' false false) = true).
    { cbn [replayable negb andb]. rewrite kversion_vers, Hold, Hvers in Ev. rewrite Ev. cbn [andb].
      pose proof (kreplay_list_replayable _ _ _ _ Ekr) as Hx. cbn in Hx. rewrite Hold, Hvers in Hx. exact Hx. }
    destruct HF as [HFf _]. pose proof (HFf p _ Hfiles eq_refl Hrep) as Hfa. cbn [faithful_op] in Hfa.
    destruct (follows kp (Some p) (ft_file F fname p a' k') subs' None ([p], [])) as [[[[out_n bytes_n] rest_n] cl2]|] eqn:Efo;
      [|discriminate].
    destruct rest_n; [|discriminate].
    destruct (bf_end kp p c' subs' ret' cmpres' false out_n bytes_n cl2) as [oo|] eqn:Ebe; [|discriminate].
    pose proof (bf_end_nonraised _ _ _ _ _ _ _ _ _ _ Ebe). subst oo. clear Hfa.
    rewrite (HR fname p a' sa k' skw Ea Ek) in Efo. rewrite <- Hfn in Efo.
    destruct (RInv_start tgt r p fname sa skw fs1r dirs I Hcc Hsr) as [I1 X1].
    destruct (claim_check_none _ _ _ Hcc) as [Hpc _].
    assert (Hnf : isfile (k_fs s) p = false).
    { destruct (isfile (k_fs s) p) eqn:Ei; [|reflexivity].
      pose proof (K2 p _ Eg eq_refl Ei) as Hx. rewrite (proj1 (proj2 S) p) in Hx. congruence. }
    assert (Htr : try_remove fs1r p = fs1r).
    { unfold try_remove. rewrite <- (te_isfile _ _ p T1).
      destruct (setup_fs_ok _ _ _ _ _ Wk Hsk) as [_ [_ [_ [_ [_ [_ [_ [_ Hisf]]]]]]]]. rewrite Hisf, Hnf. reflexivity. }
    assert (Hph : forall q g, phys (k_fs s0) (k_stale s0) q = Some g -> agrees kp q g).
    { intros q g Hq. destruct K0 as [_ [_ [K1' _]]]. apply K1'. apply phys_cases. exact Hq. }
    assert (M0 : RM kp s0 (start_replay s0) (ref_start r p fname sa skw fs1r dirs) ([p], [])).
    { destruct S as [T [CF [CS [N [Md E]]]]]. constructor; cbn.
      - rewrite Htr. exact T1.
      - rewrite N. reflexivity.
      - rewrite Md. reflexivity.
      - symmetry. exact E.
      - intro q. rewrite (CF q), orb_false_r. apply orb_comm.
      - intro k. rewrite (CS k), orb_false_r. reflexivity.
      - intros q Hq. left. exact Hq.
      - intros q g Hq. destruct K0 as [_ [_ [K1' _]]]. apply K1'. left. exact Hq.
      - intros q Hq. left. exact Hq.
      - reflexivity.
      - reflexivity. }
    destruct (replay_sound kp s0 Hph (fn p sa skw) (Some p) subs' None ([p], []) out_n bytes_n cl2 (start_replay s0) rp' _
                Efo Ekr M0 I1) as [r2 [Er2 [M2 O2]]].
    destruct (ref_run_inv _ _ _ _ _ _ _ I1 Er2) as [I2 X2].
    pose proof (follows_claims _ _ _ _ _ _ _ _ _ Efo) as Hcl2.
    assert (Hpcl2 : mem_path p (fst cl2) = true) by (rewrite Hcl2; cbn; rewrite path_eqb_refl; reflexivity).
    assert (Hok : bytes_n = None \/ path_ok p = true).
    { destruct (follows_written _ _ _ _ _ _ _ _ _ _ Efo) as [Hx|Hx]; auto. }
    assert (Hod : on_disk s0 p c' cmpres' false = true) by (unfold on_disk; rewrite Eph; exact Ecmp).
    destruct (finish_sound kp s0 Hph p c' subs' ret' cmpres' false out_n bytes_n cl2 (inl ret') rp' r2 (rp_put rp' p f)
                Ebe M2 I2 Hod Hok Hpcl2 (fun q Hq => proj1 (O2 q Hq))) as [r3 [Ef [M3 _]]].
    { rewrite Eph. reflexivity. }
    destruct (RInv_finish tgt r r2 p out_n bytes_n r3 (inl ret') I2 (rext_trans _ _ _ X1 X2) I Hpc Ef) as [I3 X3].
    exists r2, out_n, bytes_n, r3. split; [exact Er2|]. split; [exact Ef|].
    destruct (adopted s0 (core_put (adopt s0 rp' (OBuildFile p c fname sa skw subs' ret' (cmp_of c f) false false)) p f)
                (rp_put rp' p f) r3 cl2 K0 M3) as [S3 K3]; try reflexivity.
    - cbn. intros q g Hq. apply stale_del_get in Hq. apply fold_stale_del_get in Hq. apply stale_del_get in Hq. exact Hq.
    - cbn [core_put adopt ks_with k_claimedF]. rewrite tree_claims_BF, Hcl2. reflexivity.
    - cbn [core_put adopt ks_with k_claimedS]. rewrite tree_claims_BF, Hcl2. reflexivity.
    - auto.
  Qed.

  Lemma hit_sub : forall s r tgt fname sa skw subs' ret' rp' (fn : pyval -> pyval -> prog),
    sim s r -> KI s -> RInv' tgt r -> sanitized sa = true -> sanitized skw = true ->
    core_subhit s fname (subbuild_key fname sa skw) = Some (subs', ret', rp') ->
    fn sa skw = ft_sub F fname sa skw ->
    exists r2 res pd,
      ref_run (fn sa skw) None None (ref_substart r fname sa skw) = (r2, (res, pd)) /\
      sub_out res = inl ret' /\
      sim (adopt s rp' (OSubbuild fname sa skw subs' ret' false false)) r2 /\
      KI (adopt s rp' (OSubbuild fname sa skw subs' ret' false false)) /\
      RInv' tgt r2 /\ rext r r2.
  Proof.
    intros s r tgt fname sa skw subs' ret' rp' fn S K I Ssa Sskw Hhit Hfn.
    pose proof K as K'. destruct K as [Hold [Hvers [K1 [K2 Kc]]]].
    unfold core_subhit in Hhit. rewrite Hold in Hhit.
    destruct (subs_get (c_subs old) (subbuild_key fname sa skw)) as [[orec|]|] eqn:Eg; try discriminate.
    destruct orec as [| |f' a' k' subs0 ret0 raised' sf']; try discriminate.
    destruct raised'; [discriminate|].
    destruct (negb (kversion_equal s fname)) eqn:Ev; [discriminate|]. apply negb_false_iff in Ev.
    destruct (kreplay_list s subs0 (start_replay s)) as [rpx|] eqn:Ekr; [|discriminate].
    inversion Hhit; subst subs0 ret0 rpx. clear Hhit.
    destruct HW as [_ HWs]. destruct (HWs _ _ Eg) as (f2 & a2 & k2 & subs2 & ret2 & ra2 & sf2 & Heq & Hsf & Sa' & Sk' & Hkey).
    inversion Heq; subst f2 a2 k2 subs2 ret2 ra2 sf2. clear Heq.
    destruct sf'; [specialize (Hsf eq_refl); discriminate|]. clear Hsf.
    unfold subbuild_key in Hkey. rewrite (subbuild_key_iff f' a' k' fname sa skw Sa' Sk' Ssa Sskw) in Hkey.
    apply andb_true_iff in Hkey. destruct Hkey as [Hkey Ek]. apply andb_true_iff in Hkey. destruct Hkey as [Efn Ea].
    apply String.eqb_eq in Efn. subst f'.
    assert (Hrep : replayable old vers (OSubbuild fname a' k' subs' ret' false false) = true).
    { cbn [replayable negb andb]. rewrite kversion_vers, Hold, Hvers in Ev. rewrite Ev. cbn [andb].
      pose proof (kreplay_list_replayable _ _ _ _ Ekr) as Hx. rewrite Hold, Hvers in Hx. exact Hx. }
    destruct HF as [_ HFs].
    pose proof (HFs _ _ _ _ _ _ _ _ Eg eq_refl Hrep sa skw Ssa Sskw Ea Ek) as Hfa. cbn [faithful_sub_at] in Hfa.
    destruct (follows kp None (ft_sub F fname sa skw) subs' None ([], [subbuild_key fname sa skw])) as [[[[out_n bytes_n] rest_n] cl2]|] eqn:Efo;
      [|discriminate].
    destruct rest_n; [|discriminate].
    destruct (sb_end ret' false out_n) as [oo|] eqn:Ebe; [|discriminate]. clear Hfa.
    pose proof (sb_end_nonraised _ _ _ Ebe). subst oo. apply sb_end_out in Ebe.
    rewrite <- Hfn in Efo.
    destruct (RInv_substart tgt r fname sa skw I) as [I1 X1].
    assert (Hph : forall q g, phys (k_fs s) (k_stale s) q = Some g -> agrees kp q g).
    { intros q g Hq. apply K1. apply phys_cases. exact Hq. }
    assert (M0 : RM kp s (start_replay s) (ref_substart r fname sa skw) ([], [subbuild_key fname sa skw])).
    { destruct S as [T [CF [CS [N [Md E]]]]]. constructor.
      - exact T.
      - exact N.
      - exact Md.
      - symmetry. exact E.
      - cbn. intro q. rewrite (CF q), orb_false_r. reflexivity.
      - intro k. cbn [fst snd]. change (r_claimedS (ref_substart r fname sa skw)) with (subbuild_key fname sa skw :: r_claimedS r).
        cbn [existsb start_replay rp_claimedS]. rewrite (CS k), orb_false_r. apply orb_comm.
      - intros q Hq. left. exact Hq.
      - cbn. intros q g Hq. apply K1. left. exact Hq.
      - intros q Hq. left. exact Hq.
      - reflexivity.
      - reflexivity. }
    destruct (replay_sound kp s Hph (fn sa skw) None subs' None _ out_n bytes_n cl2 (start_replay s) rp' _ Efo Ekr M0 I1)
      as [r2 [Er2 [M2 O2]]].
    destruct (ref_run_inv _ _ _ _ _ _ _ I1 Er2) as [I2 X2].
    pose proof (follows_claims _ _ _ _ _ _ _ _ _ Efo) as Hcl2.
    assert (I2' : RInv' tgt r2).
    { eapply RInv_target; [exact I2|]. intros q Hq. destruct X2 as [X2 _]. destruct X1 as [X1' _].
      apply X2, X1'. destruct I as [[_ [_ T]] _]. apply T. exact Hq. }
    exists r2, out_n, bytes_n. split; [exact Er2|]. split; [symmetry; exact Ebe|].
    destruct (adopted s (adopt s rp' (OSubbuild fname sa skw subs' ret' false false)) rp' r2 cl2 K' M2) as [S3 K3]; try reflexivity.
    - cbn. intros q g Hq. apply fold_stale_del_get in Hq. exact Hq.
    - cbn [adopt ks_with k_claimedF]. rewrite tree_claims_SB, Hcl2. reflexivity.
    - cbn [adopt ks_with k_claimedS]. rewrite tree_claims_SB, Hcl2. reflexivity.
    - split; [exact S3|]. split; [exact K3|]. split; [exact I2'|]. eapply rext_trans; eauto.
  Qed.

  (* ---------------------------------------------------------------- *)
  (* Theorem T1                                                       *)
  (* ---------------------------------------------------------------- *)
  (* the clock never runs backwards, and bytes are only written after a tick *)
  Definition cext (s s' : kstate) (pend pend' : option string) : Prop :=
    (k_clock s <= k_clock s')%N /\ (pend' = pend \/ (k_clock s < k_clock s')%N).

  Definition T1_at (pr : prog) : Prop :=
    forall tgt pend subs s r s' out pend' subs' r' out_r pend_r,
      sim s r -> KI s -> RInv' tgt r -> sublog (k_log s) (r_log r) ->
      core_run pr tgt pend subs s = (s', (out, pend', subs')) ->
      ref_run pr tgt pend r = (r', (out_r, pend_r)) ->
      out = out_r /\ pend' = pend_r /\ sim s' r' /\ KI s' /\ sublog (k_log s') (r_log r') /\ cext s s' pend pend'.

  Lemma cext_refl : forall s pend, cext s s pend pend.
  Proof. intros. split; [lia|left; reflexivity]. Qed.

  Theorem T1 : forall pr, Obeys F pr -> T1_at pr.
  Proof.
    induction 1 as [v|e|st q k Hk IHk|c k Hk IHk|st p c f a kw fn k Hfn Hob IHfn Hk IHk|st f a kw fn k Hfn Hob IHfn Hk IHk];
      intros tgt pend subs s r s' out pend' subs' r' out_r pend_r S K I L Hc Hr.
    - inversion Hc; inversion Hr; subst. repeat split; auto; try apply S; try apply K; try lia.
    - inversion Hc; inversion Hr; subst. repeat split; auto; try apply S; try apply K; try lia.
    - (* Ask *)
      rewrite core_run_Ask in Hc. rewrite ref_run_Ask in Hr. destruct st; [eapply IHk; eauto|].
      cbv zeta in Hc. rewrite <- (spec_answer_te _ _ q (proj1 S)) in Hr.
      destruct (spec_answer (k_fs s) q) as [v|cl].
      + exact (IHk _ _ _ _ _ _ _ _ _ _ _ _ _ (sim_klog_rlog _ _ _ _ S) (KInv_klog _ _ K) (RInv_rlog _ _ _ I) (sl_keep _ _ _ L) Hc Hr).
      + exact (IHk _ _ _ _ _ _ _ _ _ _ _ _ _ (sim_klog_rlog _ _ _ _ S) (KInv_klog _ _ K) (RInv_rlog _ _ _ I) (sl_keep _ _ _ L) Hc Hr).
    - (* Write *)
      rewrite core_run_Write in Hc. rewrite ref_run_Write in Hr. destruct tgt as [p|]; [|eapply IHk; eauto].
      destruct (path_ok p).
      + destruct (IHk _ _ _ _ _ _ _ _ _ _ _ _ (sim_tick _ _ S) (KInv_ktick _ K) (RInv_rtick _ _ I) L Hc Hr)
          as [E1 [E2 [S' [K' [L' [C1 C2]]]]]].
        repeat split; auto; try apply S'; try apply K'; cbn in C1; [lia|right; lia].
      + inversion Hc; inversion Hr; subst. repeat split; auto; try apply S; try apply K; try lia.
    - (* BuildFile *)
      rewrite core_run_BuildFile in Hc. rewrite ref_run_BuildFile in Hr. destruct st; [eapply IHk; eauto|].
      destruct (sanitize a) as [sa|]; [|eapply IHk; eauto]. destruct (sanitize kw) as [skw|]; [|eapply IHk; eauto].
      cbv zeta in Hc. rewrite (claim_check_sim s r p S) in Hc.
      destruct (claim_check (r_claimedF r) (r_cachefile r) p) as [ec|] eqn:Ecc; [eapply IHk; eauto|].
      pose proof (setup_sim s r p S) as R.
      destruct (setup_fs (k_fs s) (k_cachefile s) p) as [[fs1 dirs]|e1] eqn:Esk;
        destruct (setup_fs (r_fs r) (r_cachefile r) p) as [[fs1r dirs']|e2] eqn:Esr; simpl in R; try contradiction;
        [|subst e2; eapply IHk; eauto].
      destruct R as [T1' <-].
      assert (Wk : fs_wf (k_fs s)) by (eapply te_wf; [apply te_sym; exact (proj1 S)|exact (RInv_wf _ _ I)]).
      destruct (claim_check_none _ _ _ Ecc) as [Hpc _].
      destruct (core_hit s (core_s0 s p fs1 dirs) p f sa skw) as [[[[fh subs1] ret1] rp1]|] eqn:Ehit.
      + (* served from the cache *)
        destruct (hit_file s r tgt p c f sa skw fs1 fs1r dirs fh subs1 ret1 rp1 fn S K I Ecc Esk Esr T1' Ehit (Hfn p sa skw))
          as (r2 & res & pend2 & r3 & Er2 & Ef & S3 & K3 & I3 & X3).
        rewrite Er2, Ef in Hr.
        assert (L3 : sublog (k_log (core_put (adopt (core_s0 s p fs1 dirs) rp1 (OBuildFile p c f sa skw subs1 ret1 (cmp_of c fh) false false)) p fh)) (r_log r3)).
        { destruct X3 as [_ [_ [_ [ex Hex]]]]. rewrite Hex. apply sublog_app_r. exact L. }
        exact (IHk _ _ _ _ _ _ _ _ _ _ _ _ _ S3 K3 I3 L3 Hc Hr).
      + (* the function runs *)
        destruct (core_run (fn p sa skw) (Some p) None [] (core_start (core_s0 s p fs1 dirs) p f sa skw)) as [s2 [[res pend2] bsubs]] eqn:Ec2.
        destruct (ref_run (fn p sa skw) (Some p) None (ref_start r p f sa skw fs1r dirs)) as [r2 [res_r pend2_r]] eqn:Er2.
        destruct (RInv_start tgt r p f sa skw fs1r dirs I Ecc Esr) as [I1 X1].
        pose proof (KInv_start _ p f sa skw (KInv_s0 s p fs1 dirs K Wk Esk)) as K1.
        rewrite Hfn in Ec2, Er2.
        assert (L1 : sublog (k_log (core_start (core_s0 s p fs1 dirs) p f sa skw)) (r_log (ref_start r p f sa skw fs1r dirs)))
          by (cbn; apply sl_keep; exact L).
        destruct (IHfn p sa skw _ _ _ _ _ _ _ _ _ _ _ _ (start_sim s r p f sa skw fs1 fs1r dirs S T1') K1 I1 L1 Ec2 Er2)
          as [E1 [E2 [S2 [K2 [L2 [C1 C2]]]]]].
        subst res_r pend2_r.
        destruct (ref_run_inv _ _ _ _ _ _ _ I1 Er2) as [I2 X2].
        destruct (core_finish s2 p c f sa skw bsubs res pend2) as [[s3 out3] o3] eqn:Ef.
        destruct (ref_finish r2 p res pend2) as [r3 out3r] eqn:Efr.
        assert (Hcl2 : mem_path p (k_claimedF s2) = true).
        { rewrite (proj1 (proj2 S2) p). destruct X2 as [_ [X2 _]]. apply X2. cbn. rewrite path_eqb_refl. reflexivity. }
        assert (Hclk : pend2 = None \/ (clock0 < k_clock s2)%N).
        { destruct C2 as [C2|C2]; [left; exact C2|right]. destruct K1 as [_ [_ [_ [_ Kc]]]]. lia. }
        destruct (finish_sim s2 r2 p c f sa skw bsubs res pend2 s3 out3 o3 r3 out3r S2 K2 Hcl2 Hclk Ef Efr)
          as [E3 [S3 [K3 [Lk [Lr Ck]]]]].
        subst out3r.
        destruct (RInv_finish tgt r r2 p res pend2 r3 out3 I2 (rext_trans _ _ _ X1 X2) I Hpc Efr) as [I3 X3].
        assert (L3 : sublog (k_log s3) (r_log r3)) by (rewrite Lk, Lr; exact L2).
        destruct (IHk _ _ _ _ _ _ _ _ _ _ _ _ _ S3 K3 I3 L3 Hc Hr) as [E4 [E5 [S4 [K4 [L4 [C3 C4]]]]]].
        repeat split; auto; try apply S4; try apply K4; cbn in C1; [lia|].
        destruct C4 as [C4|C4]; [left; exact C4|right; lia].
    - (* Subbuild *)
      rewrite core_run_Subbuild in Hc. rewrite ref_run_Subbuild in Hr. destruct st; [eapply IHk; eauto|].
      destruct (sanitize a) as [sa|] eqn:Esa; [|eapply IHk; eauto]. destruct (sanitize kw) as [skw|] eqn:Eskw; [|eapply IHk; eauto].
      cbv zeta in Hc. rewrite (proj1 (proj2 (proj2 S)) (subbuild_key f sa skw)) in Hc.
      destruct (existsb (py_eq (subbuild_key f sa skw)) (r_claimedS r)) eqn:Edup; [eapply IHk; eauto|].
      destruct (core_subhit s f (subbuild_key f sa skw)) as [[[subs1 ret1] rp1]|] eqn:Ehit.
      + destruct (hit_sub s r tgt f sa skw subs1 ret1 rp1 fn S K I (sanitize_sanitized _ _ Esa) (sanitize_sanitized _ _ Eskw) Ehit (Hfn sa skw))
          as (r2 & res & pd & Er2 & Hout & S3 & K3 & I3 & X3).
        rewrite Er2, Hout in Hr.
        assert (L3 : sublog (k_log (adopt s rp1 (OSubbuild f sa skw subs1 ret1 false false))) (r_log r2)).
        { destruct X3 as [_ [_ [_ [ex Hex]]]]. rewrite Hex. apply sublog_app_r. exact L. }
        exact (IHk _ _ _ _ _ _ _ _ _ _ _ _ _ S3 K3 I3 L3 Hc Hr).
      + destruct (core_run (fn sa skw) None None [] (core_substart s f sa skw)) as [s2 [[res pd] bsubs]] eqn:Ec2.
        destruct (ref_run (fn sa skw) None None (ref_substart r f sa skw)) as [r2 [res_r pd_r]] eqn:Er2.
        destruct (RInv_substart tgt r f sa skw I) as [I1 X1].
        rewrite Hfn in Ec2, Er2.
        assert (S1 : sim (core_substart s f sa skw) (ref_substart r f sa skw)).
        { destruct S as [T [CF [CS [N [Md E]]]]]. repeat split; try assumption.
          intro k0. cbn. rewrite (CS k0). reflexivity. }
        assert (K1 : KI (core_substart s f sa skw)) by exact K.
        assert (L1 : sublog (k_log (core_substart s f sa skw)) (r_log (ref_substart r f sa skw)))
          by (cbn; apply sl_keep; exact L).
        destruct (IHfn sa skw _ _ _ _ _ _ _ _ _ _ _ _ S1 K1 I1 L1 Ec2 Er2) as [E1 [E2 [S2 [K2 [L2 [C1 C2]]]]]].
        subst res_r.
        destruct (ref_run_inv _ _ _ _ _ _ _ I1 Er2) as [I2 X2].
        assert (I2' : RInv' tgt r2).
        { eapply RInv_target; [exact I2|]. intros q Hq. destruct X2 as [X2 _]. destruct X1 as [X1' _].
          apply X2, X1'. destruct I as [[_ [_ T]] _]. apply T. exact Hq. }
        assert (S3 : sim (core_subreg s2 (subbuild_key f sa skw) (sub_rec f sa skw bsubs res)) r2) by exact S2.
        assert (K3 : KI (core_subreg s2 (subbuild_key f sa skw) (sub_rec f sa skw bsubs res))) by exact K2.
        destruct (IHk _ _ _ _ _ _ _ _ _ _ _ _ _ S3 K3 I2' L2 Hc Hr) as [E4 [E5 [S4 [K4 [L4 [C3 C4]]]]]].
        change (k_clock (core_substart s f sa skw)) with (k_clock s) in C1, C2.
        change (k_clock (core_subreg s2 (subbuild_key f sa skw) (sub_rec f sa skw bsubs res))) with (k_clock s2) in C3, C4.
        repeat split; auto; try apply S4; try apply K4; [lia|].
        destruct C4 as [C4|C4]; [left; exact C4|right; lia].
  Qed.
End Main.
