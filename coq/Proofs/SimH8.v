(* Proofs/SimH8.v — the end of a committed build that started from an ACCEPTED old cache (the
   cache file of a previous build, or none): shape of the run, the new cache of the final
   world, the cache file.  Generalises SimH1.first_build_end: _commit now removes the outputs
   of the old cache that the new one does not hold and empty directories, never the cache
   file (is_cache_file guards the removal; rmdir cannot remove a regular file). *)
From Coq Require Import List String Ascii NArith ZArith Bool Arith Lia.
From FB.Base Require Import PyVal Fs.
From FB.Gen Require Import JsonUtilGen.
From FB.Spec Require Import JsonSpec Prog.
From FB.Model Require Import Types Monad CreatedFiles BuildDirs SimpleOps Builder Persist PersistSpec Build Run.
From FB.Proofs Require Import FsLemmas ReplayLaws ViewXOld SimH1.
Import ListNotations.
Local Open Scope list_scope.
Local Open Scope m_scope.

Section KeepCf.
Variable cf : path.
Variable g : fnode.

Definition CK (w : world) : Prop := w_cachefile w = cf /\ lookup (w_fs w) cf = Some (NFile g).
Definition ck (w w' : world) : Prop := CK w -> CK w'.
Lemma ck_refl : forall w, ck w w.
Proof. intros w H. exact H. Qed.
Lemma ck_trans : forall a b c, ck a b -> ck b c -> ck a c.
Proof. intros a b c A B H. apply B, A, H. Qed.
Definition ckPO : PO := {| rel := ck; po_refl := ck_refl; po_trans := ck_trans |}.

Lemma svb_ck : forall w w', svbPO w w' -> ckPO w w'.
Proof.
  cbn. unfold same_but_view. intros w w' H.
  destruct H as (A1 & A2 & A3 & A4 & A5 & A6 & A7 & A8 & A9 & A10 & A11).
  intros [C1 C2]. split; congruence.
Qed.

Lemma remove_empty_dirs_ck : forall ds, pres ckPO (remove_empty_dirs ds).
Proof.
  intros ds w w' r H [C1 C2]. split.
  - destruct (remove_empty_dirs_new _ _ _ _ H) as (_ & _ & X). congruence.
  - exact (remove_empty_dirs_fk cf g ds _ _ _ H C2).
Qed.

Lemma try_to_remove_file_ck : forall q, q <> cf -> pres ckPO (try_to_remove_file q).
Proof.
  intros q Hq w w' r H [C1 C2]. split.
  - destruct (try_to_remove_file_new _ _ _ _ H) as (_ & _ & X). congruence.
  - unfold try_to_remove_file in H. unfold bind at 1, get in H.
    destruct (isfile (w_fs w) q); [|inversion H; subst; exact C2].
    unfold catch, effect in H. cbv zeta in H.
    destruct (existsb (Nat.eqb (w_effects w)) (w_faults w)); [cbn in H; inversion H; subst; exact C2|].
    cbn [w_fs set_effects] in H.
    destruct (remove (w_fs w) q) as [fs'|e] eqn:E.
    + inversion H; subst. cbn [w_fs set_log set_fs set_effects].
      destruct (remove_frame _ _ _ E) as (_ & _ & F). rewrite F; [exact C2 | congruence].
    + cbn in H. inversion H; subst. exact C2.
Qed.

Lemma rm_step_ck : forall f, pres ckPO
  (vf <- m_is_file f None ;; icf <- is_cache_file f ;;
   if negb vf && negb icf then try_to_remove_file f else ret tt).
Proof.
  intros f w w' r H HC.
  apply bind_inv in H. destruct H as [(w1 & vf & E1 & H) | (e & E1 & _)].
  2:{ exact (svb_ck _ _ (m_is_file_svb _ _ _ _ _ E1) HC). }
  pose proof (svb_ck _ _ (m_is_file_svb _ _ _ _ _ E1) HC) as C1.
  unfold bind at 1, is_cache_file in H.
  destruct (negb vf && negb (path_eqb f (w_cachefile w1))) eqn:G; [|inversion H; subst; exact C1].
  apply andb_true_iff in G. destruct G as [_ G]. apply negb_true_iff in G. apply path_eqb_neq in G.
  refine (try_to_remove_file_ck f _ _ _ _ H C1). destruct C1 as [X _]. congruence.
Qed.

Lemma commit_ck : forall err, pres ckPO (commit err).
Proof.
  intro err. unfold commit. apply pres_bind; [apply pres_get|]. intro w0.
  apply pres_bind.
  - apply pres_mapM_. intro f. apply rm_step_ck.
  - intros _. apply pres_bind; [|intros extra; apply remove_empty_dirs_ck].
    induction (c_dirs (w_old w0)) as [|d ds IH]; [apply pres_ret|].
    apply pres_bind; [apply (pres_weaken svbPO ckPO _ _ svb_ck); apply m_is_dir_svb|]. intro vd.
    apply pres_bind; [exact IH|]. intro rest. apply pres_ret.
Qed.
End KeepCf.

Lemma commit_new : forall err, pres newPO (commit err).
Proof.
  intro err. unfold commit. apply pres_bind; [apply pres_get|]. intro w0.
  apply pres_bind.
  - apply pres_mapM_. intro f.
    apply pres_bind; [apply (pres_weaken svbPO newPO _ _ svb_new); apply m_is_file_svb|]. intro vf.
    apply pres_bind; [apply (pres_weaken svbPO newPO _ _ svb_new); apply is_cache_file_svb|]. intro icf.
    destruct (negb vf && negb icf); [apply try_to_remove_file_new | apply pres_ret].
  - intros _. apply pres_bind; [|intros extra; apply remove_empty_dirs_new].
    induction (c_dirs (w_old w0)) as [|d ds IH]; [apply pres_ret|].
    apply pres_bind; [apply (pres_weaken svbPO newPO _ _ svb_new); apply m_is_dir_svb|]. intro vd.
    apply pres_bind; [exact IH|]. intro rest. apply pres_ret.
Qed.

(* the build is accepted with [old] as its previous cache *)
Definition accepted (cf : path) (nm : string) (svers : pyval) (w : world) (old : cache) : Prop :=
  (lookup (w_fs w) cf = None /\ old = empty_cache nm svers) \/
  (exists f0, lookup (w_fs w) cf = Some (NFile f0) /\ cache_of_json (f_json f0) = ReadOk old /\ c_name old = nm).

Theorem accepted_build_end : forall cf nm vers svers root w w' v old,
  sanitize vers = Some svers -> accepted cf nm svers w old ->
  run_build cf nm vers root w = (w', Done (inl v)) ->
  exists w1 ccd w2 l,
    make_dirs (dirname cf) (start_world w cf old nm svers) = (w1, inl ccd) /\
    run root None [] (set_log (LInvoke "<root>" None PNone PNone :: w_log w1) w1) = (w2, (inl v, l)) /\
    w_new w' = new_cache_of ccd w2 /\
    (exists f, lookup (w_fs w') cf = Some (NFile f) /\ f_json f = cache_to_json (w_new w')) /\
    exists j, cache_to_json (w_new w') = Some j.
Proof.
  intros cf nm vers svers root w w' v old Hs Hacc H. unfold run_build in H.
  destruct (m_build cf nm vers (fun w0 => run root None [] w0) w) as [wz rz] eqn:E.
  inversion H; subst w' rz; clear H.
  unfold m_build in E. rewrite Hs in E. cbv zeta in E.
  assert (E' : (let w0 := start_world w cf old nm svers in
     match make_dirs (dirname cf) w0 with
     | (w1, inl ccd) =>
        let w1' := set_log (LInvoke "<root>" None PNone PNone :: w_log w1) w1 in
        let '(w2, (res, _)) := run root None [] w1' in
        let rollback := fun (e : exn) (w3 : world) =>
                        match roll_back ccd w3 with
                        | (w'0, inl _) => (w'0, Done (inr e))
                        | (w'0, inr e') => (w'0, Done (inr e'))
                        end in
        match res with
        | inl v0 =>
            match (err <- set_created_dirs ccd;; w3 <- get;;
                   (if isfile (w_fs w3) cf then b <- back_up_and_remove cf;; ret tt else ret tt);;; ret err) w2 with
            | (w3, inl err) =>
                match write_cache w3 with
                | (w4, inl _) => match commit err w4 with
                                 | (w5, inl _) => (w5, Done (inl v0))
                                 | (w5, inr e) => (w5, Done (inr e))
                                 end
                | (w4, inr e) => let (w5, _) := try_to_remove_file cf w4 in rollback e w5
                end
            | (w3, inr e) => rollback e w3
            end
        | inr e => rollback e w2
        end
     | (w1, inr e) =>
        match roll_back [] w1 with
        | (w2, inl _) => (w2, Done (inr e))
        | (w2, inr e') => (w2, Done (inr e'))
        end
     end) = (wz, Done (inl v))).
  { destruct Hacc as [[Hl ->] | (f0 & Hl & Hr & Hn)]; rewrite Hl in E.
    - exact E.
    - rewrite Hr in E. apply String.eqb_eq in Hn. rewrite Hn in E. exact E. }
  clear E. rename E' into E. cbv zeta in E.
  set (w0 := start_world w cf old nm svers) in *.
  destruct (make_dirs (dirname cf) w0) as [w1 [ccd|e1]] eqn:E1.
  2:{ destruct (roll_back [] w1) as [wr [u|e']]; discriminate E. }
  destruct (run root None [] (set_log (LInvoke "<root>" None PNone PNone :: w_log w1) w1)) as [w2 [res l]] eqn:E2.
  destruct res as [v0|e2]; [|destruct (roll_back ccd w2) as [wr [u|e']]; discriminate E].
  exists w1, ccd, w2, l.
  pose proof (make_dirs_new _ _ _ _ E1) as (_ & O1 & C1).
  destruct (run_old _ _ _ _ _ _ E2) as [O2 C2]. cbn [w_old w_cachefile set_log] in O2, C2.
  assert (Hc2 : w_cachefile w2 = cf) by (rewrite C2, C1; reflexivity).
  match type of E with (match ?X with _ => _ end) = _ => destruct X as [w3 [err|e3]] eqn:E3 end.
  2:{ destruct (roll_back ccd w3) as [wr [u|e']]; discriminate E. }
  destruct (write_cache w3) as [w4 [u4|e4]] eqn:E4.
  2:{ destruct (try_to_remove_file cf w4) as [w5 r5]. destruct (roll_back ccd w5) as [wr [u|e']]; discriminate E. }
  destruct (commit err w4) as [w5 [u5|e5]] eqn:E5; [|discriminate E].
  inversion E; subst wz v0; clear E.
  apply bind_inv in E3. destruct E3 as [(wa & erra & Ea & E3) | (e & _ & Y)]; [|discriminate Y].
  destruct (set_created_dirs_ok _ _ _ _ Ea) as [Ewa _].
  unfold bind at 1, get in E3.
  assert (K3 : w_new w3 = new_cache_of ccd w2 /\ w_old w3 = w_old w2 /\ w_cachefile w3 = w_cachefile w2).
  { destruct (isfile (w_fs wa) cf).
    - apply bind_inv in E3. destruct E3 as [(wb & ub & Eb & E3) | (e & _ & Y)]; [|discriminate Y].
      inversion E3; subst w3.
      apply bind_inv in Eb. destruct Eb as [(wc & b & Ec & Eb) | (e & _ & Y)]; [|discriminate Y].
      inversion Eb; subst wb.
      pose proof (back_up_and_remove_new _ _ _ _ Ec) as (A1 & A2 & A3).
      rewrite A1, A2, A3, Ewa. repeat split; reflexivity.
    - unfold bind, ret in E3. inversion E3; subst w3. rewrite Ewa. repeat split; reflexivity. }
  destruct K3 as (N3 & O3 & C3).
  destruct (write_cache_ok _ _ _ E4) as (f & L4 & J4 & N4 & O4 & C4 & j & Ej).
  pose proof (commit_new _ _ _ _ E5) as (N5 & _ & _).
  split; [reflexivity|]. split; [exact E2|]. cbn [end_build w_new w_fs set_lost set_backups].
  split; [congruence|]. split.
  - exists f. split.
    + refine (proj2 (commit_ck cf f err _ _ _ E5 _)). split; [congruence|]. rewrite C3, Hc2 in L4. exact L4.
    + rewrite N5, N4. exact J4.
  - exists j. rewrite N5, N4. exact Ej.
Qed.

Print Assumptions accepted_build_end.
