(* Proofs/SimH6.v — from claim order to the forest.  A cache whose tables list, in claim order
   (SimH4.pre), the registered records of a list S of record trees that have the first-build
   shape and are well formed, with pairwise different keys: its operation forest is
   R0 = the registered build_file records of S followed by the registered subbuild records of S;
   R0 is forest_good; the tables are a permutation of the tables of R0 and agree with them by
   lookup.  Pure list reasoning over CacheRTForest. *)
From Coq Require Import List String Ascii NArith ZArith Bool Arith Lia Permutation.
From FB.Base Require Import PyVal Fs.
From FB.Gen Require Import JsonUtilGen.
From FB.Spec Require Import JsonSpec.
From FB.Model Require Import Types Monad SimpleOps Builder PathNorm Persist PersistSpec.
From FB.Proofs Require Import FsLemmas JsonLaws PersistLaws ReplayLaws CacheRTDefs CacheRTForest SimH4 SimH5.
Import ListNotations.
Local Open Scope list_scope.

(* ------------------------------------------------------------------ pre and kl *)
Lemma pre_eq : forall o, pre o = (if keyed o then [o] else []) ++ flat_map pre (op_subs o).
Proof. destruct o as [q r e | p c f a k subs r cr ra sf | f a k subs r ra sf]; try reflexivity; destruct sf; reflexivity. Qed.

Lemma perm_flat_map_pw : forall {A B} (f g : A -> list B) l,
  Forall (fun x => Permutation (f x) (g x)) l -> Permutation (flat_map f l) (flat_map g l).
Proof.
  intros A B f g l H. induction H as [|x l Hx HF IH]; cbn [flat_map]; [constructor|].
  apply Permutation_app; assumption.
Qed.

Lemma pre_kl : forall o, Permutation (pre o) (kl o).
Proof.
  induction o as [q r e | p c f a k subs r cr ra sf IH | f a k subs r ra sf IH] using op_ind'.
  - constructor.
  - cbn [pre kl]. eapply Permutation_trans; [apply Permutation_app_comm|].
    apply Permutation_app_tail. apply perm_flat_map_pw. exact IH.
  - cbn [pre kl]. eapply Permutation_trans; [apply Permutation_app_comm|].
    apply Permutation_app_tail. apply perm_flat_map_pw. exact IH.
Qed.

Lemma flat_pre_kl : forall l, Permutation (flat_map pre l) (flat_map kl l).
Proof. intro l. apply perm_flat_map_pw. apply Forall_forall. intros x _. apply pre_kl. Qed.

Lemma shape_unkeyed : forall o, shape o = true -> keyed o = false -> op_subs o = [].
Proof.
  destruct o as [q r e | p c f a k subs r cr ra sf | f a k subs r ra sf]; cbn [shape keyed op_subs]; intros H K; try reflexivity.
  all: destruct sf; [|discriminate K]; destruct subs; [reflexivity | discriminate H].
Qed.

Lemma shape_subs : forall o, shape o = true -> forallb shape (op_subs o) = true.
Proof.
  destruct o as [q r e | p c f a k subs r cr ra sf | f a k subs r ra sf]; cbn [shape op_subs]; intro H; try reflexivity.
  all: apply andb_true_iff in H; tauto.
Qed.

Lemma shape_sfclean : forall o, shape o = true -> sfclean o = true.
Proof.
  induction o as [q r e | p c f a k subs r cr ra sf IH | f a k subs r ra sf IH] using op_ind'; intro H; [reflexivity| |].
  - cbn [shape] in H. apply andb_true_iff in H. destruct H as [H1 H2]. cbn [sfclean].
    apply andb_true_iff. split.
    + destruct sf; [|reflexivity]. destruct subs; [reflexivity | discriminate H1].
    + apply forallb_forall. intros s Hs. rewrite Forall_forall in IH. rewrite forallb_forall in H2. auto.
  - cbn [shape] in H. apply andb_true_iff in H. destruct H as [H1 H2]. cbn [sfclean].
    apply andb_true_iff. split.
    + destruct sf; [|reflexivity]. destruct subs; [reflexivity | discriminate H1].
    + apply forallb_forall. intros s Hs. rewrite Forall_forall in IH. rewrite forallb_forall in H2. auto.
Qed.

Lemma unkeyed_kl : forall o, shape o = true -> keyed o = false -> kl o = [].
Proof. intros o H K. rewrite kl_eq, K, (shape_unkeyed o H K). reflexivity. Qed.

Lemma flat_kl_keyed : forall S, forallb shape S = true -> flat_map kl (filter keyed S) = flat_map kl S.
Proof.
  induction S as [|s S IH]; intro H; [reflexivity|]. cbn [forallb] in H. apply andb_true_iff in H. destruct H as [H1 H2].
  cbn [filter flat_map]. destruct (keyed s) eqn:K; cbn [flat_map]; rewrite (IH H2); [reflexivity|].
  rewrite (unkeyed_kl s H1 K). reflexivity.
Qed.

Lemma perm_partition : forall S, forallb keyed S = true -> Permutation S (filter is_bf S ++ filter is_sb S).
Proof.
  induction S as [|s S IH]; intro H; [constructor|]. cbn [forallb] in H. apply andb_true_iff in H. destruct H as [H1 H2].
  cbn [filter]. destruct s as [q r e | p c f a k subs r cr ra sf | f a k subs r ra sf]; cbn [is_bf is_sb].
  - discriminate H1.
  - cbn [app]. constructor. apply IH. exact H2.
  - apply Permutation_cons_app. apply IH. exact H2.
Qed.

Lemma forallb_filter_self : forall {A} (P : A -> bool) l, forallb P (filter P l) = true.
Proof. intros A P l. apply forallb_forall. intros x Hx. apply filter_In in Hx. tauto. Qed.

(* ------------------------------------------------------------------ pw under permutation *)
Lemma pw_perm : forall {A} (E : A -> A -> bool) l l', Permutation l l' ->
  (forall x y, In x l -> In y l -> E x y = E y x) -> pw E l = true -> pw E l' = true.
Proof.
  intros A E l l' P. induction P as [|x l l' P IH|x y l|l l' l'' P1 IH1 P2 IH2]; intros Hs H.
  - reflexivity.
  - cbn [pw] in *. apply andb_true_iff in H. destruct H as [H1 H2]. apply andb_true_iff. split.
    + apply forallb_forall. intros z Hz. rewrite forallb_forall in H1. apply H1. eapply Permutation_in; [apply Permutation_sym; exact P | exact Hz].
    + apply IH; [|exact H2]. intros a b Ha Hb. apply Hs; right; assumption.
  - cbn [pw forallb] in *. rewrite (Hs x y) by (cbn; auto).
    destruct (negb (E y x)), (forallb (fun z => negb (E y z)) l), (forallb (fun z => negb (E x z)) l), (pw E l);
      cbn in *; try reflexivity; try discriminate H.
  - apply IH2; [|apply IH1; assumption].
    intros a b Ha Hb. apply Hs; eapply Permutation_in; try (apply Permutation_sym; exact P1); assumption.
Qed.

Lemma py_eq_key_sym : forall f1 a1 k1 f2 a2 k2,
  sanitized a1 = true -> sanitized k1 = true -> sanitized a2 = true -> sanitized k2 = true ->
  py_eq (subbuild_key f1 a1 k1) (subbuild_key f2 a2 k2) = py_eq (subbuild_key f2 a2 k2) (subbuild_key f1 a1 k1).
Proof.
  intros f1 a1 k1 f2 a2 k2 A1 K1 A2 K2. unfold subbuild_key.
  rewrite (subbuild_key_iff f1 a1 k1 f2 a2 k2 A1 K1 A2 K2), (subbuild_key_iff f2 a2 k2 f1 a1 k1 A2 K2 A1 K1).
  rewrite (String.eqb_sym f1 f2), (is_equal_sym a1 a2), (is_equal_sym k1 k2) by (apply sanitized_sanitized_t; assumption).
  reflexivity.
Qed.

Lemma sents_key_In : forall L k, In k (map fst (sents L)) ->
  exists f a kk subs r ra sf, In (OSubbuild f a kk subs r ra sf) L /\ k = subbuild_key f a kk.
Proof.
  intros L k H. apply in_map_iff in H. destruct H as ([k' o'] & E & H). cbn in E. subst k'.
  unfold sents in H. apply in_flat_map in H. destruct H as (o & Ho & H).
  destruct o as [q r e | p c f a kk subs r cr ra sf | f a kk subs r ra sf]; cbn [sentry_of] in H; try destruct H.
  - inversion H; subst. repeat eexists. exact Ho.
  - destruct H.
Qed.

(* ------------------------------------------------------------------ lookups in tables with different keys *)
Lemma fg_in : forall l p v, pw path_eqb (map fst l) = true -> In (p, v) l -> files_get l p = Some v.
Proof.
  induction l as [|[q o] l IH]; intros p v H Hin; [destruct Hin|].
  cbn [map fst pw] in H. apply andb_true_iff in H. destruct H as [H1 H2]. cbn [files_get].
  destruct Hin as [Hin|Hin].
  - inversion Hin; subst. rewrite path_eqb_refl. reflexivity.
  - destruct (path_eqb q p) eqn:E; [|apply IH; assumption]. exfalso.
    apply path_eqb_eq in E. subst q. rewrite forallb_forall in H1.
    assert (K : In p (map fst l)) by (apply in_map_iff; exists (p, v); auto).
    specialize (H1 p K). rewrite path_eqb_refl in H1. discriminate H1.
Qed.
Lemma fg_some_in : forall l p v, files_get l p = Some v -> In (p, v) l.
Proof.
  induction l as [|[q o] l IH]; intros p v H; [discriminate H|]. cbn [files_get] in H.
  destruct (path_eqb q p) eqn:E.
  - apply path_eqb_eq in E. inversion H; subst. left. reflexivity.
  - right. apply IH. exact H.
Qed.
Lemma fg_perm : forall l l' p, Permutation l l' -> pw path_eqb (map fst l) = true -> pw path_eqb (map fst l') = true ->
  files_get l p = files_get l' p.
Proof.
  intros l l' p P H H'. destruct (files_get l p) as [v|] eqn:E.
  - symmetry. apply fg_in; [exact H'|]. eapply Permutation_in; [exact P|]. apply fg_some_in. exact E.
  - destruct (files_get l' p) as [v|] eqn:E'; [|reflexivity].
    apply fg_some_in in E'. apply (Permutation_in _ (Permutation_sym P)) in E'.
    rewrite (fg_in _ _ _ H E') in E. discriminate E.
Qed.

Lemma existsb_perm : forall {A} (P : A -> bool) l l', Permutation l l' -> existsb P l = existsb P l'.
Proof.
  intros A P l l' H. destruct (existsb P l) eqn:E; symmetry.
  - apply existsb_exists in E. destruct E as (x & Hx & Px). apply existsb_exists. exists x. split; [eapply Permutation_in; eauto | exact Px].
  - destruct (existsb P l') eqn:E'; [|reflexivity]. apply existsb_exists in E'. destruct E' as (x & Hx & Px).
    assert (K : existsb P l = true) by (apply existsb_exists; exists x; split; [eapply Permutation_in; [apply Permutation_sym; exact H | exact Hx] | exact Px]).
    congruence.
Qed.

Lemma filter_perm : forall {A} (P : A -> bool) l l', Permutation l l' -> Permutation (filter P l) (filter P l').
Proof.
  intros A P l l' H. induction H; cbn [filter].
  - constructor.
  - destruct (P x); [constructor|]; assumption.
  - destruct (P x), (P y); try constructor; try apply Permutation_refl. 
  - eapply Permutation_trans; eassumption.
Qed.

(* ------------------------------------------------------------------ the forest *)
Section Forest.
Variable S : list op.
Hypothesis HSh : forallb shape S = true.
Hypothesis HWf : forallb op_wf S = true.
Let K := flat_map pre S.
Hypothesis HKf : pw path_eqb (map fst (fents K)) = true.
Hypothesis HKs : pw py_eq (map fst (sents K)) = true.

Definition forest_of (S : list op) : list op := filter is_bf (filter keyed S) ++ filter is_sb (filter keyed S).
Let R0 := forest_of S.
Let L := flat_map kl R0.

Lemma perm_K_L : Permutation K L.
Proof.
  unfold K, L, R0, forest_of. eapply Permutation_trans; [apply flat_pre_kl|].
  rewrite <- (flat_kl_keyed S HSh). apply Permutation_flat_map. apply perm_partition. apply forallb_filter_self.
Qed.

Lemma R0_wf : forallb op_wf R0 = true.
Proof.
  apply forallb_forall. intros o Ho. unfold R0, forest_of in Ho. apply in_app_or in Ho.
  rewrite forallb_forall in HWf. apply HWf. destruct Ho as [Ho|Ho]; apply filter_In in Ho; destruct Ho as [Ho _];
    apply filter_In in Ho; tauto.
Qed.

Lemma L_wf : forallb op_wf L = true.
Proof. apply flat_kl_wf. exact R0_wf. Qed.

Lemma K_wf : forall o, In o K -> op_wf o = true.
Proof. intros o Ho. pose proof L_wf as H. rewrite forallb_forall in H. apply H. eapply Permutation_in; [exact perm_K_L | exact Ho]. Qed.

Lemma perm_fents : Permutation (fents K) (fents L).
Proof. unfold fents. apply Permutation_flat_map. exact perm_K_L. Qed.
Lemma perm_sents : Permutation (sents K) (sents L).
Proof. unfold sents. apply Permutation_flat_map. exact perm_K_L. Qed.

Lemma pw_L_f : pw path_eqb (map fst (fents L)) = true.
Proof.
  apply (pw_perm path_eqb (map fst (fents K))); [apply Permutation_map; exact perm_fents | | exact HKf].
  intros x y _ _. apply path_eqb_sym.
Qed.
Lemma pw_L_s : pw py_eq (map fst (sents L)) = true.
Proof.
  apply (pw_perm py_eq (map fst (sents K))); [apply Permutation_map; exact perm_sents | | exact HKs].
  intros x y Hx Hy.
  destruct (sents_key_In _ _ Hx) as (f1 & a1 & k1 & s1 & r1 & ra1 & sf1 & I1 & ->).
  destruct (sents_key_In _ _ Hy) as (f2 & a2 & k2 & s2 & r2 & ra2 & sf2 & I2 & ->).
  pose proof (K_wf _ I1) as W1. pose proof (K_wf _ I2) as W2. rewrite op_wf_sub_eq in W1, W2.
  split_andb W1. split_andb W2. apply py_eq_key_sym; assumption.
Qed.

Theorem R0_good : forest_good R0.
Proof.
  split; [|split; [exact pw_L_f | split; [exact pw_L_s|]]].
  - exists (filter is_bf (filter keyed S)), (filter is_sb (filter keyed S)). split; [reflexivity|]. split.
    + apply forallb_forall. intros o Ho. apply filter_In in Ho. destruct Ho as [Ho B]. apply filter_In in Ho. destruct Ho as [_ Kk].
      rewrite B, Kk. reflexivity.
    + apply forallb_forall. intros o Ho. apply filter_In in Ho. destruct Ho as [Ho B]. apply filter_In in Ho. destruct Ho as [_ Kk].
      rewrite B, Kk. reflexivity.
  - apply forallb_forall. intros o Ho. apply shape_sfclean. rewrite forallb_forall in HSh. apply HSh.
    unfold R0, forest_of in Ho. apply in_app_or in Ho. destruct Ho as [Ho|Ho]; apply filter_In in Ho; destruct Ho as [Ho _];
      apply filter_In in Ho; tauto.
Qed.

Let opsK := filter is_bf K ++ filter is_sb K.
Let opsL := filter is_bf L ++ filter is_sb L.

Lemma perm_ops : Permutation opsK opsL.
Proof. unfold opsK, opsL. apply Permutation_app; apply filter_perm; exact perm_K_L. Qed.

Lemma notroot_eq : forall o, existsb (op_eqb o) (flat_map op_subs opsK) = existsb (op_eqb o) (flat_map op_subs opsL).
Proof. intro o. apply existsb_perm. apply Permutation_flat_map. exact perm_ops. Qed.

Lemma In_R0 : forall s, In s S -> keyed s = true -> In s R0.
Proof.
  intros s Hs Kk. unfold R0, forest_of. apply in_or_app.
  destruct (keyed_kind s Kk) as [B|B]; [left | right]; apply filter_In; (split; [apply filter_In; auto | exact B]).
Qed.

Lemma filter_roots_pre : forall (Q : op -> bool) S', (forall s, In s S' -> In s S) ->
  filter (fun o => negb (existsb (op_eqb o) (flat_map op_subs opsK))) (filter Q (flat_map pre S')) = filter Q (filter keyed S').
Proof.
  intros Q S'. induction S' as [|s S' IH]; intro Hsub; [reflexivity|].
  assert (Hs : In s S) by (apply Hsub; left; reflexivity).
  assert (Hsh : shape s = true) by (rewrite forallb_forall in HSh; exact (HSh s Hs)).
  cbn [flat_map filter]. rewrite !filter_app, IH by (intros; apply Hsub; right; assumption).
  destruct (keyed s) eqn:Kk.
  - rewrite pre_eq, Kk, !filter_app.
    rewrite (filter_none _ (filter Q (flat_map pre (op_subs s)))).
    2:{ intros x Hx. apply filter_In in Hx. destruct Hx as [Hx _]. rewrite notroot_eq. unfold opsL, L.
        rewrite (inner_notroot R0 R0_good s x (In_R0 s Hs Kk)); [reflexivity|].
        eapply Permutation_in; [apply flat_pre_kl | exact Hx]. }
    cbn [filter app]. destruct (Q s); [|reflexivity]. cbn [filter].
    rewrite notroot_eq. unfold opsL, L. rewrite (top_root R0 R0_good R0_wf s (In_R0 s Hs Kk)). reflexivity.
  - rewrite pre_eq, Kk, (shape_unkeyed s Hsh Kk). reflexivity.
Qed.

Theorem roots_pre : root_operations opsK = R0.
Proof.
  unfold root_operations. unfold opsK at 2. unfold K. rewrite filter_app, !filter_roots_pre by auto. reflexivity.
Qed.

(* a cache whose tables are the claim-order lists *)
Variable c : cache.
Hypothesis Hcf : c_files c = fents K.
Hypothesis Hcs : c_subs c = sents K.

Theorem claim_order_forest :
  cache_forest c = Some R0 /\ tables_perm_forest c R0 /\
  (forall p, files_get (c_files c) p = files_get (c_files (tables_of (c_name c) (c_fvers c) (c_dirs c) R0)) p) /\
  forest_good R0.
Proof.
  destruct (tables_of_lists (c_name c) (c_fvers c) (c_dirs c) R0 pw_L_f pw_L_s) as [T1 T2].
  split; [|split; [|split; [|exact R0_good]]].
  - unfold cache_forest, cache_operations. rewrite Hcf, Hcs, snd_fents, snd_sents, <- map_app, sequence_map_Some.
    cbn [option_map]. f_equal. exact roots_pre.
  - unfold tables_perm_forest. cbv zeta. rewrite T1, T2, Hcf, Hcs. split; [exact perm_fents | exact perm_sents].
  - intro p. rewrite T1, Hcf. apply fg_perm; [exact perm_fents | exact HKf | exact pw_L_f].
Qed.
End Forest.

Print Assumptions claim_order_forest.
