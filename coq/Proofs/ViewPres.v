(* Proofs/ViewPres.v — C04 (stretch): every query, live or replayed against an overlay
   (cf = Some c), and the whole cache lookup / replay machinery (dirs_to_make,
   is_op_cached, build_file_cache_lookup, subbuild_cache_lookup) preserve the invariant
   BInv and leave the view unchanged, whatever they answer (errors included). *)
From Coq Require Import List String Ascii NArith ZArith Bool Arith Lia.
From FB.Base Require Import PyVal Fs.
From FB.Model Require Import Types Monad CreatedFiles BuildDirs SimpleOps Builder.
From FB.Proofs Require Import FsLemmas CleanLaws JsonLaws CoreLawsChildren ReplayLaws
     ViewDefs ViewLemmas ViewScan ViewQueries ViewAnswers.
Import ListNotations.
Open Scope list_scope.
Open Scope m_scope.

(* from a world satisfying BInv: same view, BInv again *)
Definition vrel (w w' : world) : Prop := BInv w -> good w w'.

Lemma vrel_refl : forall w, vrel w w.
Proof. intros w H. apply good_refl. exact H. Qed.

Lemma vrel_trans : forall a b c, vrel a b -> vrel b c -> vrel a c.
Proof.
  intros a b c H1 H2 HB. pose proof (H1 HB) as G1. eapply good_trans; [exact G1|]. apply H2. apply (good_BInv _ _ G1).
Qed.

Definition vPO : PO := {| rel := vrel; po_refl := vrel_refl; po_trans := vrel_trans |}.

(* ---- leaves ---- *)
Lemma m_is_removed_v : forall d, pres vPO (m_is_removed d).
Proof.
  intros d w w1 r H HB. destruct (m_is_removed_sound w d HB) as [w' [G [[r' [E _]]|[E _]]]];
    rewrite E in H; inversion H; subst; exact G.
Qed.

Ltac pure_v f := intros w w' r H HB; unfold f in H; repeat dm H; inversion H; subst; apply good_refl; exact HB.

Lemma is_file_no_read_v : forall p cf, pres vPO (is_file_no_read p cf).
Proof. intros p cf. cbn. pure_v is_file_no_read. Qed.

Lemma is_cache_file_v : forall p, pres vPO (is_cache_file p).
Proof. intros p. cbn. pure_v is_cache_file. Qed.

Lemma file_metadata_v : forall p, pres vPO (file_metadata p).
Proof. intros p. cbn. pure_v file_metadata. Qed.

Lemma list_dir_superset_v : forall d cf, pres vPO (list_dir_superset d cf).
Proof. intros d cf. cbn. pure_v list_dir_superset. Qed.

Lemma file_comparison_result_v : forall p c, pres vPO (file_comparison_result p c).
Proof.
  intros p c w w1 r H HB. destruct (fcr_view w p c HB) as [w' [r' [E [G _]]]].
  rewrite E in H. inversion H; subst. exact G.
Qed.

Lemma version_equal_v : forall f, pres vPO (version_equal f).
Proof. intros f w w' r H HB. unfold version_equal, bind, get, ret in H. inversion H; subst. apply good_refl; exact HB. Qed.

#[local] Hint Resolve m_is_removed_v is_file_no_read_v is_cache_file_v file_metadata_v list_dir_superset_v
  file_comparison_result_v version_equal_v : pres.

(* ---- the routines that call handle_dir_exists ---- *)
Lemma is_file_no_read_cf : forall p cf w, exists x,
  is_file_no_read p cf w = (w, inl x) /\
  (x = None -> hid w p = false) /\ (x = Some true -> cf_has_file cf p = true).
Proof.
  intros p cf w. unfold is_file_no_read, hid.
  destruct (cf_has_file cf p); [eexists; split; [reflexivity|split; [discriminate|reflexivity]]|].
  destruct (cf_has_dir cf p); [eexists; split; [reflexivity|split; discriminate]|].
  destruct (path_eqb p (w_cachefile w)); [eexists; split; [reflexivity|split; discriminate]|]. cbn [orb].
  destruct (cache_has_file (w_new w) p).
  - destruct (cache_get_file (w_new w) p); eexists; (split; [reflexivity|]); split; try discriminate; auto.
  - destruct (cache_created_file (w_old w) p); eexists; (split; [reflexivity|]); split; try discriminate; auto.
Qed.

Lemma bind_inv : forall A B (m : M A) (f : A -> M B) w w1 r, bind m f w = (w1, r) ->
  (exists wa a, m w = (wa, inl a) /\ f a wa = (w1, r)) \/ (exists e, m w = (w1, inr e) /\ r = inr e).
Proof.
  intros A B m f w w1 r H. unfold bind in H. destruct (m w) as [wa [a|e]].
  - left. eauto.
  - right. inversion H; subst. eauto.
Qed.

Lemma hde_v : forall w p w1 r, BInv w -> hde_ok w p -> m_handle_dir_exists p w = (w1, r) -> good w w1.
Proof.
  intros w p w1 r HB Hok H. destruct (m_hde_yields w p HB Hok) as [w' [E G]]. rewrite E in H. inversion H; subst. exact G.
Qed.

Lemma hde_parent_of_file : forall w p, BInv w -> isfile (w_fs w) p = true -> hid w p = false -> hde_ok w (dirname p).
Proof.
  intros w p HB Hi Hh. destruct p as [|n d]; [discriminate|]. cbn [dirname tl].
  apply (hde_ok_parent w n d (bi_wf _ HB)). apply vfile_visible. unfold vfile. rewrite Hi, Hh. reflexivity.
Qed.

Lemma m_is_file_v : forall p cf, pres vPO (m_is_file p cf).
Proof.
  intros p cf w w1 r H HB. unfold m_is_file in H.
  destruct (is_file_no_read_cf p cf w) as [x [E [Hx _]]].
  apply bind_inv in H. rewrite E in H. destruct H as [[wa [a [Ea H]]]|[e [Ee _]]]; [|discriminate].
  inversion Ea; subst wa a. destruct x as [bb|]; [inversion H; subst; apply good_refl; exact HB|].
  specialize (Hx eq_refl). apply bind_inv in H. unfold get in H.
  destruct H as [[wa [a [Ea' H]]]|[e [Ee _]]]; [|discriminate]. inversion Ea'; subst wa a.
  destruct (isfile (w_fs w) p) eqn:Ei; [|inversion H; subst; apply good_refl; exact HB].
  assert (Hok: hde_ok w (dirname p)) by (apply hde_parent_of_file; assumption).
  apply bind_inv in H. destruct H as [[wa [a [Ea'' H]]]|[e [Ee _]]].
  - inversion H; subst. eapply hde_v; eassumption.
  - eapply hde_v; eassumption.
Qed.

Lemma m_is_dir_v : forall p cf, pres vPO (m_is_dir p cf).
Proof.
  intros p cf w w1 r H HB. unfold m_is_dir in H.
  destruct (cf_has_dir cf p); [inversion H; subst; apply good_refl; exact HB|].
  destruct (cf_has_file cf p); [inversion H; subst; apply good_refl; exact HB|].
  apply bind_inv in H.
  destruct (m_is_removed_sound w p HB) as [w' [G [[r' [E Hr]]|[E _]]]]; rewrite E in H.
  2:{ destruct H as [[wa [a [Ea _]]]|[e [Ee _]]]; [discriminate|]. inversion Ee; subst. exact G. }
  destruct H as [[wa [a [Ea H]]]|[e [Ee _]]]; [|discriminate]. inversion Ea; subst wa a.
  destruct r'; [inversion H; subst; exact G|].
  apply bind_inv in H. unfold get in H.
  destruct H as [[wa [a [Ea' H]]]|[e [Ee _]]]; [|discriminate]. inversion Ea'; subst wa a.
  rewrite (sv_fs _ _ (good_sv _ _ G)) in H.
  destruct (isdir (w_fs w) p) eqn:Ei; [|inversion H; subst; exact G].
  pose proof (good_BInv _ _ G) as B'.
  assert (Hok: hde_ok w' p).
  { apply hde_ok_vdir; [apply (bi_wf _ B')|]. rewrite (same_view_vdir _ _ _ (good_sv _ _ G)).
    unfold vdir. rewrite Ei, <- (Hr eq_refl). reflexivity. }
  eapply good_trans; [exact G|].
  apply bind_inv in H. destruct H as [[wa [a [Ea'' H]]]|[e [Ee _]]].
  - inversion H; subst. eapply hde_v; eassumption.
  - eapply hde_v; eassumption.
Qed.
#[local] Hint Resolve m_is_file_v m_is_dir_v : pres.

Lemma m_exists_v : forall p cf, pres vPO (m_exists p cf).
Proof. intros p cf. unfold m_exists. pres_auto. Qed.
#[local] Hint Resolve m_exists_v : pres.

Lemma m_get_size_v : forall p cf, pres vPO (m_get_size p cf).
Proof. intros p cf. unfold m_get_size. pres_auto. Qed.

Lemma m_assert_is_dir_v : forall p cf, pres vPO (m_assert_is_dir p cf).
Proof. intros p cf. unfold m_assert_is_dir. pres_auto. Qed.
#[local] Hint Resolve m_get_size_v m_assert_is_dir_v : pres.

(* read: the final handle_dir_exists is reached only for a visible regular file *)
Definition read_cmp (p : path) (c : cmpmode) (cf : option cfiles) : M pyval :=
  catch (file_comparison_result p c)
        (fun e => if is_os_class XFileNotFound e || is_os_class XNotADirectory e then raise (XOS XFileNotFound)
                  else if is_os_class XIsADirectory e then
                         d <- m_is_dir p cf ;;
                         if d then raise (XOS XIsADirectory) else raise (XOS XFileNotFound)
                       else raise e).

Lemma read_cmp_v : forall p c cf, pres vPO (read_cmp p c cf).
Proof. intros p c cf. unfold read_cmp. pres_auto. Qed.

Lemma read_cmp_success : forall p c cf w wa v, BInv w -> read_cmp p c cf w = (wa, inl v) -> isfile (w_fs w) p = true.
Proof.
  intros p c cf w wa v HB H. unfold read_cmp, catch in H.
  destruct (fcr_view w p c HB) as [wc [rc [E1 [G1 [P1 _]]]]]. rewrite E1 in H.
  unfold isfile. destruct (lookup (w_fs w) p) as [[f|]|] eqn:El; [reflexivity| |]; exfalso.
  - subst rc. cbn in H. apply bind_inv in H. destruct H as [[wd [d [_ H]]]|[e [_ H]]]; [destruct d|]; discriminate.
  - destruct P1 as [->|[->|[-> _]]]; cbn in H; discriminate.
Qed.

Lemma m_read_v : forall p c cf, pres vPO (m_read p c cf).
Proof.
  intros p c cf. destruct (cf_has_file cf p) eqn:Ecf.
  - (* the overlay holds the file: handle_dir_exists is not called *)
    unfold m_read. rewrite Ecf. fold (read_cmp p c cf). pose proof (read_cmp_v p c cf).
    apply pres_bind; [auto with pres|]. intro nr. apply pres_bind; [destruct nr as [[|]|]; pres_auto|].
    intros _. apply pres_bind; [assumption|]. intro result. apply pres_bind; [apply pres_ret|]. intros _. apply pres_ret.
  - intros w w1 r H HB. unfold m_read in H. rewrite Ecf in H. fold (read_cmp p c cf) in H.
    destruct (is_file_no_read_cf p cf w) as [x [E [Hx Hx']]].
    apply bind_inv in H. rewrite E in H. destruct H as [[wa [a [Ea H]]]|[e [Ee _]]]; [|discriminate].
    inversion Ea; subst wa a. destruct x as [[|]|].
    + specialize (Hx' eq_refl). congruence.
    + (* known not to be a file: the guard raises *)
      apply bind_inv in H. destruct H as [[wa [a [Ea' _]]]|[e [Ee _]]].
      * exfalso. apply bind_inv in Ea'. destruct Ea' as [[wd [d [_ Hd]]]|[e [_ Hd]]]; [destruct d|]; discriminate.
      * assert (Hg: pres vPO (d <- m_is_dir p cf ;; (if d then raise (XOS XIsADirectory) else @raise unit (XOS XFileNotFound))))
          by pres_auto.
        apply (Hg _ _ _ Ee HB).
    + specialize (Hx eq_refl).
      apply bind_inv in H. destruct H as [[wa [a [Ea' H]]]|[e [Ee _]]]; [|discriminate].
      inversion Ea'; subst wa a.
      apply bind_inv in H. destruct H as [[wa [v [Ec H]]]|[e [Ee _]]].
      2:{ apply (read_cmp_v _ _ _ _ _ _ Ee HB). }
      pose proof (read_cmp_v _ _ _ _ _ _ Ec HB) as Ga. pose proof (good_BInv _ _ Ga) as Ba.
      pose proof (read_cmp_success _ _ _ _ _ _ HB Ec) as Hfile.
      assert (Hok: hde_ok wa (dirname p)).
      { apply hde_parent_of_file; [exact Ba|rewrite (sv_fs _ _ (good_sv _ _ Ga)); exact Hfile|].
        rewrite (same_view_hid _ _ _ (good_sv _ _ Ga)). exact Hx. }
      eapply good_trans; [exact Ga|].
      apply bind_inv in H. destruct H as [[wb [u [Eh H]]]|[e [Eh _]]].
      * inversion H; subst. eapply hde_v; eassumption.
      * eapply hde_v; eassumption.
Qed.
#[local] Hint Resolve m_read_v : pres.

Lemma m_list_dir_v : forall d cf, pres vPO (m_list_dir d cf).
Proof. intros d cf. unfold m_list_dir. pres_auto. apply filterM_pres. intro; pres_auto. Qed.

Lemma classify_v : forall d cf l, pres vPO (classify d cf l).
Proof. intros d cf l. induction l as [|n l IH]; cbn [classify]; pres_auto. Qed.
#[local] Hint Resolve m_list_dir_v classify_v : pres.

Lemma append_walk_v : forall fuel d td cf, pres vPO (append_walk fuel d td cf).
Proof.
  induction fuel as [|fuel IH]; intros d td cf; cbn [append_walk].
  - apply pres_raise.
  - pres_auto.
    generalize (fst a0). intro ds. induction ds as [|n ds IHds].
    + apply pres_ret.
    + pres_auto.
Qed.
#[local] Hint Resolve append_walk_v : pres.

Lemma m_walk_v : forall d td cf, pres vPO (m_walk d td cf).
Proof. intros d td cf. unfold m_walk. pres_auto. Qed.
#[local] Hint Resolve m_walk_v : pres.

(* every query, live or against an overlay *)
Theorem exec_query_v : forall q cf, pres vPO (exec_query q cf).
Proof. intros q cf. destruct q; cbn [exec_query]; pres_auto. Qed.
#[local] Hint Resolve exec_query_v : pres.

Theorem exec_query_good : forall q cf w w' r, BInv w -> exec_query q cf w = (w', r) -> good w w'.
Proof. intros q cf w w' r HB H. exact (exec_query_v q cf w w' r H HB). Qed.

(* ------------------------------------------------------------------ replay *)
Lemma noneable_cmp_v : forall p c, pres vPO (noneable_cmp p c).
Proof. intros p c. unfold noneable_cmp. pres_auto. Qed.
#[local] Hint Resolve noneable_cmp_v : pres.

Lemma is_build_file_cached_v : forall p c r, pres vPO (is_build_file_cached p c r).
Proof. intros p c r. unfold is_build_file_cached. pres_auto. Qed.
#[local] Hint Resolve is_build_file_cached_v : pres.

Lemma dirs_to_make_v : forall p cf, pres vPO (dirs_to_make p cf).
Proof. induction p as [|n d IH]; intro cf; cbn [dirs_to_make]; pres_auto. Qed.
#[local] Hint Resolve dirs_to_make_v : pres.

Lemma is_simple_operation_cached_v : forall q r e cf, pres vPO (is_simple_operation_cached q r e cf).
Proof. intros q r e cf. unfold is_simple_operation_cached. pres_auto. Qed.
#[local] Hint Resolve is_simple_operation_cached_v : pres.

Lemma subs_go_v : forall subs, Forall (fun o => forall cf, pres vPO (is_op_cached o cf)) subs ->
  forall cf, pres vPO
    ((fix go (subs : list op) (cf : cfiles) {struct subs} : M (bool * cfiles) :=
        match subs with
        | [] => ret (true, cf)
        | s :: rest => r <- is_op_cached s cf ;; if fst r then go rest (snd r) else ret (false, snd r)
        end) subs cf).
Proof.
  intros subs H. induction H as [|s rest Hs Hrest IH]; intro cf.
  - apply pres_ret.
  - apply pres_bind; [apply Hs|]. intro r. destruct (fst r); [apply IH|apply pres_ret].
Qed.

Lemma is_op_cached_v : forall o cf, pres vPO (is_op_cached o cf).
Proof.
  induction o as [q r e|p c f a k subs r cr ra sf IH|f a k subs r ra sf IH] using op_ind'; intro cf; cbn [is_op_cached].
  - pres_auto.
  - pose proof (subs_go_v subs IH) as Hgo. pres_auto.
  - pose proof (subs_go_v subs IH) as Hgo. pres_auto.
Qed.
#[local] Hint Resolve is_op_cached_v : pres.

Lemma are_subs_cached_v : forall subs cf, pres vPO (are_subs_cached subs cf).
Proof. induction subs as [|s rest IH]; intro cf; cbn [are_subs_cached]; pres_auto. Qed.
#[local] Hint Resolve are_subs_cached_v : pres.

Theorem build_file_cache_lookup_v : forall p f a k, pres vPO (build_file_cache_lookup p f a k).
Proof. intros p f a k. unfold build_file_cache_lookup. pres_auto. Qed.

Theorem subbuild_cache_lookup_v : forall key f, pres vPO (subbuild_cache_lookup key f).
Proof. intros key f. unfold subbuild_cache_lookup. pres_auto. Qed.

(* in words *)
Theorem replay_good : forall o cf w w' r, BInv w -> is_op_cached o cf w = (w', r) -> good w w'.
Proof. intros o cf w w' r HB H. exact (is_op_cached_v o cf w w' r H HB). Qed.

Theorem lookup_good : forall p f a k w w' r, BInv w -> build_file_cache_lookup p f a k w = (w', r) -> good w w'.
Proof. intros p f a k w w' r HB H. exact (build_file_cache_lookup_v p f a k w w' r H HB). Qed.

Theorem sublookup_good : forall key f w w' r, BInv w -> subbuild_cache_lookup key f w = (w', r) -> good w w'.
Proof. intros key f w w' r HB H. exact (subbuild_cache_lookup_v key f w w' r H HB). Qed.

Theorem dirs_to_make_good : forall p cf w w' r, BInv w -> dirs_to_make p cf w = (w', r) -> good w w'.
Proof. intros p cf w w' r HB H. exact (dirs_to_make_v p cf w w' r H HB). Qed.

Print Assumptions exec_query_good.
Print Assumptions lookup_good.
