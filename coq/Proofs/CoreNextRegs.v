(* Proofs/CoreNextRegs.v — the records registered by adopting a cached subtree (tree_regs) and the
   cache made of the registered records (cache_of_state): shapes and membership. *)
From Coq Require Import List String Ascii NArith ZArith Bool Arith Lia.
From FB.Base Require Import PyVal Fs.
From FB.Gen Require Import JsonUtilGen.
From FB.Spec Require Import JsonSpec Prog Ref Oracle Faithful.
From FB.Model Require Import Types SimpleOps Builder Persist Core CoreOracle CoreCache.
From FB.Proofs Require Import FsLemmas JsonLaws CoreLawsJson CoreLaws1 CoreLaws2 CoreLaws3 CoreLaws4 CoreNextDefs.
Import ListNotations.
Local Open Scope list_scope.

(* all records inside a record, itself included *)
Fixpoint deep (o : op) {struct o} : list op :=
  o :: match o with
       | OSimple _ _ _ => []
       | OBuildFile _ _ _ _ _ subs _ _ _ _ => flat_map deep subs
       | OSubbuild _ _ _ subs _ _ _ => flat_map deep subs
       end.
Definition deepl (l : list op) : list op := flat_map deep l.

Lemma deep_self : forall o, In o (deep o).
Proof. intro o. destruct o; left; reflexivity. Qed.
Lemma deep_subs : forall o x, In x (deepl (op_subs o)) -> In x (deep o).
Proof. intros o x H. destruct o; cbn [op_subs deepl flat_map] in H; [destruct H|right; exact H|right; exact H]. Qed.
Lemma deepl_app : forall a b, deepl (a ++ b) = deepl a ++ deepl b.
Proof. intros. unfold deepl. apply flat_map_app. Qed.
Lemma deepl_top : forall l x, In x l -> In x (deepl l).
Proof. intros l x H. unfold deepl. apply in_flat_map. exists x. split; [exact H|apply deep_self]. Qed.
Lemma deepl_in : forall l x y, In x l -> In y (deep x) -> In y (deepl l).
Proof. intros l x y H1 H2. unfold deepl. apply in_flat_map. eauto. Qed.

Definition shapeF (p : path) (o : op) : Prop :=
  exists c f a k subs r cr ra, o = OBuildFile p c f a k subs r cr ra false.
Definition shapeS (key : pyval) (o : op) : Prop :=
  exists f a k subs r ra, o = OSubbuild f a k subs r ra false /\ key = subbuild_key f a k.

(* ---- tree_regs ---- *)
Definition rstep (acc : list (path * op) * list (pyval * op)) (x : op) :=
  let c := tree_regs x in (fst acc ++ fst c, snd acc ++ snd c).
Definition rll (subs : list op) := fold_left rstep subs ([], []).

Lemma rstep_fold : forall subs a b,
  fold_left rstep subs (a, b) = (a ++ fst (rll subs), b ++ snd (rll subs)).
Proof.
  unfold rll. induction subs as [|x rest IH]; intros a b; cbn [fold_left].
  - rewrite !app_nil_r. reflexivity.
  - unfold rstep at 2 4 6. cbn [fst snd]. rewrite IH. rewrite (IH ([] ++ _) ([] ++ _)). cbn [app fst snd].
    rewrite !app_assoc. reflexivity.
Qed.
Lemma rll_cons : forall x rest, rll (x :: rest) = (fst (tree_regs x) ++ fst (rll rest), snd (tree_regs x) ++ snd (rll rest)).
Proof. intros. unfold rll at 1. cbn [fold_left]. unfold rstep at 2. cbn [fst snd app]. apply rstep_fold. Qed.

Lemma tree_regs_BF : forall p c f a k subs r cr ra sf,
  tree_regs (OBuildFile p c f a k subs r cr ra sf) =
  if sf then rll subs else ((p, OBuildFile p c f a k subs r cr ra sf) :: fst (rll subs), snd (rll subs)).
Proof. reflexivity. Qed.
Lemma tree_regs_SB : forall f a k subs r ra sf,
  tree_regs (OSubbuild f a k subs r ra sf) =
  if sf then rll subs else (fst (rll subs), (subbuild_key f a k, OSubbuild f a k subs r ra sf) :: snd (rll subs)).
Proof. reflexivity. Qed.

Lemma tree_regs_spec : forall o0,
  (forall p o, In (p, o) (fst (tree_regs o0)) -> In o (deep o0) /\ shapeF p o /\ In p (fst (tree_claims o0))) /\
  (forall k o, In (k, o) (snd (tree_regs o0)) -> In o (deep o0) /\ shapeS k o /\ In k (snd (tree_claims o0))).
Proof.
  induction o0 as [q r e|p c f a k subs r cr ra sf IH|f a k subs r ra sf IH] using op_ind'.
  - split; intros ? ? [].
  - assert (L : (forall p0 o, In (p0, o) (fst (rll subs)) -> In o (deepl subs) /\ shapeF p0 o /\ In p0 (fst (cll subs))) /\
                (forall k0 o, In (k0, o) (snd (rll subs)) -> In o (deepl subs) /\ shapeS k0 o /\ In k0 (snd (cll subs)))).
    { clear -IH. induction subs as [|x rest IHl]; [split; intros ? ? []|].
      inversion IH; subst. destruct (IHl H2) as [L1 L2]. destruct H1 as [X1 X2].
      rewrite rll_cons, cll_cons. cbn [fst snd deepl flat_map]. split.
      - intros p0 o Hin. apply in_app_or in Hin. destruct Hin as [Hin|Hin].
        + destruct (X1 _ _ Hin) as [A [B C]]. split; [apply in_or_app; left; assumption|]. split; [assumption|apply in_or_app; left; assumption].
        + destruct (L1 _ _ Hin) as [A [B C]]. split; [apply in_or_app; right; assumption|]. split; [assumption|apply in_or_app; right; assumption].
      - intros k0 o Hin. apply in_app_or in Hin. destruct Hin as [Hin|Hin].
        + destruct (X2 _ _ Hin) as [A [B C]]. split; [apply in_or_app; left; assumption|]. split; [assumption|].
          apply in_or_app; left; assumption.
        + destruct (L2 _ _ Hin) as [A [B C]]. split; [apply in_or_app; right; assumption|]. split; [assumption|].
          apply in_or_app; right; assumption. }
    destruct L as [L1 L2]. rewrite tree_regs_BF, tree_claims_BF. destruct sf.
    + split.
      * intros p0 o Hin. destruct (L1 _ _ Hin) as [A [B C]]. split; [right; assumption|]. split; assumption.
      * intros k0 o Hin. destruct (L2 _ _ Hin) as [A [B C]]. split; [right; assumption|]. split; assumption.
    + cbn [fst snd]. split.
      * intros p0 o [Hin|Hin].
        -- inversion Hin; subst. split; [left; reflexivity|]. split; [repeat eexists|left; reflexivity].
        -- destruct (L1 _ _ Hin) as [A [B C]]. split; [right; assumption|]. split; [assumption|right; assumption].
      * intros k0 o Hin. destruct (L2 _ _ Hin) as [A [B C]]. split; [right; assumption|]. split; assumption.
  - assert (L : (forall p0 o, In (p0, o) (fst (rll subs)) -> In o (deepl subs) /\ shapeF p0 o /\ In p0 (fst (cll subs))) /\
                (forall k0 o, In (k0, o) (snd (rll subs)) -> In o (deepl subs) /\ shapeS k0 o /\ In k0 (snd (cll subs)))).
    { clear -IH. induction subs as [|x rest IHl]; [split; intros ? ? []|].
      inversion IH; subst. destruct (IHl H2) as [L1 L2]. destruct H1 as [X1 X2].
      rewrite rll_cons, cll_cons. cbn [fst snd deepl flat_map]. split.
      - intros p0 o Hin. apply in_app_or in Hin. destruct Hin as [Hin|Hin].
        + destruct (X1 _ _ Hin) as [A [B C]]. split; [apply in_or_app; left; assumption|]. split; [assumption|apply in_or_app; left; assumption].
        + destruct (L1 _ _ Hin) as [A [B C]]. split; [apply in_or_app; right; assumption|]. split; [assumption|apply in_or_app; right; assumption].
      - intros k0 o Hin. apply in_app_or in Hin. destruct Hin as [Hin|Hin].
        + destruct (X2 _ _ Hin) as [A [B C]]. split; [apply in_or_app; left; assumption|]. split; [assumption|].
          apply in_or_app; left; assumption.
        + destruct (L2 _ _ Hin) as [A [B C]]. split; [apply in_or_app; right; assumption|]. split; [assumption|].
          apply in_or_app; right; assumption. }
    destruct L as [L1 L2]. rewrite tree_regs_SB, tree_claims_SB. destruct sf.
    + split.
      * intros p0 o Hin. destruct (L1 _ _ Hin) as [A [B C]]. split; [right; assumption|]. split; assumption.
      * intros k0 o Hin. destruct (L2 _ _ Hin) as [A [B C]]. split; [right; assumption|]. split; assumption.
    + cbn [fst snd]. split.
      * intros p0 o Hin. destruct (L1 _ _ Hin) as [A [B C]]. split; [right; assumption|]. split; assumption.
      * intros k0 o [Hin|Hin].
        -- inversion Hin; subst. split; [left; reflexivity|]. split; [repeat eexists|left; reflexivity].
        -- destruct (L2 _ _ Hin) as [A [B C]]. split; [right; assumption|]. split; [assumption|right; assumption].
Qed.

(* ---- the cache made of the registered records ---- *)
Lemma files_set_get : forall l p o q x,
  files_get (files_set l p (Some o)) q = Some (Some x) -> (q = p /\ x = o) \/ files_get l q = Some (Some x).
Proof.
  induction l as [|[k v] l IH]; intros p o q x H; cbn [files_set files_get] in *.
  - destruct (path_eqb p q) eqn:E; [|discriminate]. apply path_eqb_eq in E. inversion H; subst. left. split; reflexivity.
  - destruct (path_eqb k p) eqn:Ekp.
    + cbn [files_get] in H. destruct (path_eqb k q) eqn:Ekq.
      * apply path_eqb_eq in Ekp, Ekq. subst. inversion H; subst. left. split; reflexivity.
      * right. exact H.
    + cbn [files_get] in H. destruct (path_eqb k q) eqn:Ekq; [right; exact H|]. apply IH. exact H.
Qed.

Lemma files_fold_get : forall regs l q x,
  files_get (fold_left (fun acc (e : path * op) => files_set acc (fst e) (Some (snd e))) regs l) q = Some (Some x) ->
  In (q, x) regs \/ files_get l q = Some (Some x).
Proof.
  induction regs as [|[p o] regs IH]; intros l q x H; cbn [fold_left] in H; [right; exact H|].
  apply IH in H. destruct H as [H|H]; [left; right; exact H|].
  cbn [fst snd] in H. apply files_set_get in H. destruct H as [[-> ->]|H]; [left; left; reflexivity|right; exact H].
Qed.

Lemma subs_set_get_any : forall l k o q x,
  subs_get (subs_set l k (Some o)) q = Some (Some x) -> x = o \/ subs_get l q = Some (Some x).
Proof.
  induction l as [|[k0 v] l IH]; intros k o q x H; cbn [subs_set subs_get] in *.
  - destruct (py_eq k q); [|discriminate]. inversion H; subst. left. reflexivity.
  - destruct (py_eq k0 k) eqn:Ekp.
    + cbn [subs_get] in H. destruct (py_eq k0 q); [inversion H; subst; left; reflexivity|right; exact H].
    + cbn [subs_get] in H. destruct (py_eq k0 q); [right; exact H|]. exact (IH _ _ _ _ H).
Qed.

Lemma subs_fold_get_any : forall regs l q x,
  subs_get (fold_left (fun acc (e : pyval * op) => subs_set acc (fst e) (Some (snd e))) regs l) q = Some (Some x) ->
  (exists k, In (k, x) regs) \/ subs_get l q = Some (Some x).
Proof.
  induction regs as [|[p o] regs IH]; intros l q x H; cbn [fold_left] in H; [right; exact H|].
  apply IH in H. destruct H as [[k H]|H]; [left; exists k; right; exact H|].
  cbn [fst snd] in H. apply subs_set_get_any in H. destruct H as [->|H]; [left; exists p; left; reflexivity|right; exact H].
Qed.

(* with pairwise different keys nothing is overwritten: the entry found is registered under a key equal to the one asked *)
Definition keys_distinct (ks : list pyval) : Prop :=
  forall l1 x l2, ks = l1 ++ x :: l2 -> forall y, In y l2 -> py_eq x y = false /\ py_eq y x = false.

Lemma keys_distinct_tail : forall x l, keys_distinct (x :: l) -> keys_distinct l.
Proof. intros x l H l1 y l2 E. apply (H (x :: l1) y l2). rewrite E. reflexivity. Qed.

Lemma subs_set_fresh : forall l k o, (forall k0 v, In (k0, v) l -> py_eq k0 k = false) -> subs_set l k (Some o) = l ++ [(k, Some o)].
Proof.
  induction l as [|[k0 v] l IH]; intros k o H; cbn [subs_set]; [reflexivity|].
  rewrite (H k0 v) by (left; reflexivity). cbn [app]. f_equal. apply IH. intros k1 v1 Hin. apply (H k1 v1). right. exact Hin.
Qed.

Lemma subs_fold_distinct : forall regs l,
  keys_distinct (map fst l ++ map fst regs) ->
  fold_left (fun acc (e : pyval * op) => subs_set acc (fst e) (Some (snd e))) regs l
  = l ++ map (fun e => (fst e, Some (snd e))) regs.
Proof.
  induction regs as [|[k o] regs IH]; intros l H; cbn [fold_left map]; [rewrite app_nil_r; reflexivity|].
  cbn [fst snd]. rewrite subs_set_fresh.
  - rewrite IH.
    + rewrite <- app_assoc. reflexivity.
    + rewrite map_app. cbn [map fst]. rewrite <- app_assoc. exact H.
  - intros k0 v Hin. apply in_split in Hin. destruct Hin as [l1 [l2 ->]].
    rewrite map_app in H. cbn [map fst] in H. rewrite <- app_assoc in H. cbn [app] in H.
    refine (proj1 (H (map fst l1) k0 (map fst l2 ++ k :: map fst regs) eq_refl k _)).
    apply in_or_app. right. left. reflexivity.
Qed.

Lemma subs_get_map : forall (regs : list (pyval * op)) q x,
  subs_get (map (fun e => (fst e, Some (snd e))) regs) q = Some (Some x) ->
  exists k, In (k, x) regs /\ py_eq k q = true.
Proof.
  induction regs as [|[k o] regs IH]; intros q x H; cbn [map subs_get fst snd] in H; [discriminate|].
  destruct (py_eq k q) eqn:E.
  - inversion H; subst. exists k. split; [left; reflexivity|exact E].
  - destruct (IH _ _ H) as [k' [H1 H2]]. exists k'. split; [right; exact H1|exact H2].
Qed.

Print Assumptions tree_regs_spec.
Print Assumptions subs_fold_distinct.
