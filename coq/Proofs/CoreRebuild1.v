(* Proofs/CoreRebuild1.v — basic facts for the rebuild theorem: everything the file-system
   operations, the set-up of a target and the answers compute depends on the tree only through
   [lookup] (pointwise equal trees are interchangeable, node for node); frames of mkdir_all;
   the stale store; the tables of a committed cache; "deepest first" is descendants first. *)
From Coq Require Import List String Ascii NArith ZArith Bool Arith Lia.
From FB.Base Require Import PyVal Fs.
From FB.Gen Require Import JsonUtilGen.
From FB.Spec Require Import JsonSpec Prog Ref Oracle Faithful.
From FB.Model Require Import Types SimpleOps Builder Persist Core CoreOracle CoreCache.
From FB.Proofs Require Import FsLemmas JsonLaws PersistLaws CleanLaws CoreLawsChildren CoreLawsJson CoreLaws1 CoreLaws2 CoreLaws3 CoreLaws4
     CoreRebuildDefs.
Import ListNotations.
Local Open Scope list_scope.

(* ------------------------------------------------------------------ *)
(* pointwise equal trees                                              *)
(* ------------------------------------------------------------------ *)
Lemma leq_refl : forall a, leq a a.
Proof. intros a p. reflexivity. Qed.
Lemma leq_sym : forall a b, leq a b -> leq b a.
Proof. intros a b H p. symmetry. apply H. Qed.
Lemma leq_trans : forall a b c, leq a b -> leq b c -> leq a c.
Proof. intros a b c H1 H2 p. rewrite H1. apply H2. Qed.

Lemma leq_te : forall a b, leq a b -> tree_equiv a b.
Proof. intros a b H p. rewrite (H p). apply node_equiv_refl. Qed.

Lemma leq_upd : forall a b p n, leq a b -> leq (upd p n a) (upd p n b).
Proof.
  intros a b p n H q. destruct q as [|y q]; [reflexivity|].
  destruct (path_eqb p (y :: q)) eqn:E.
  - apply path_eqb_eq in E. subst p. rewrite !lookup_upd_eq by discriminate. reflexivity.
  - apply path_eqb_neq in E. rewrite !lookup_upd_neq by congruence. apply H.
Qed.

Lemma leq_isfile : forall a b p, leq a b -> isfile a p = isfile b p.
Proof. intros a b p H. unfold isfile. rewrite (H p). reflexivity. Qed.
Lemma leq_isdir : forall a b p, leq a b -> isdir a p = isdir b p.
Proof. intros a b p H. unfold isdir. rewrite (H p). reflexivity. Qed.
Lemma leq_lexists : forall a b p, leq a b -> lexists a p = lexists b p.
Proof. intros a b p H. unfold lexists. rewrite (H p). reflexivity. Qed.

Lemma leq_children : forall a b p, leq a b -> children a p = children b p.
Proof. intros a b p H. apply children_ext. intro n. apply leq_lexists. exact H. Qed.

Lemma leq_absent_err : forall a b p, leq a b -> absent_err a p = absent_err b p.
Proof. intros. apply absent_err_te. apply leq_te. assumption. Qed.

Lemma leq_missing_dirs : forall a b cf d, leq a b -> missing_dirs a cf d = missing_dirs b cf d.
Proof. intros. apply missing_dirs_te. apply leq_te. assumption. Qed.

Definition sum_leq (x y : fsT + oserr) : Prop :=
  match x, y with
  | inl a, inl b => leq a b
  | inr e, inr e' => e = e'
  | _, _ => False
  end.

Lemma leq_mkdir : forall a b p, leq a b -> sum_leq (mkdir a p) (mkdir b p).
Proof.
  intros a b p H. unfold mkdir. destruct p as [|n d]; [reflexivity|].
  unfold stat_err. rewrite (leq_absent_err a b (n :: d) H), (H (n :: d)), (H d).
  destruct (lookup b (n :: d)); [reflexivity|].
  destruct (lookup b d) as [[f|]|]; try reflexivity.
  destruct (name_ok n); [|reflexivity]. simpl. apply leq_upd. exact H.
Qed.

Lemma leq_mkdir_all : forall l a b, leq a b -> sum_leq (mkdir_all a l) (mkdir_all b l).
Proof.
  intros l a b H. rewrite !mkdir_all_fold.
  assert (G : forall l x y, sum_leq x y -> sum_leq (fold_left mkstep l x) (fold_left mkstep l y)).
  { clear. induction l as [|d l IH]; simpl; intros x y R; [exact R|]. apply IH.
    destruct x as [f|e], y as [g|e']; simpl in R; try contradiction; simpl; [apply leq_mkdir; exact R|exact R]. }
  apply G. exact H.
Qed.

Lemma leq_try_remove : forall a b p, leq a b -> leq (try_remove a p) (try_remove b p).
Proof.
  intros a b p H. unfold try_remove. rewrite (leq_isfile a b p H). destruct (isfile b p); [|exact H].
  unfold remove, stat_err. rewrite (leq_absent_err a b p H), (H p).
  destruct (lookup b p) as [[f|]|]; destruct p as [|n d]; try exact H. apply leq_upd. exact H.
Qed.

Lemma leq_try_rmdir : forall a b p, leq a b -> leq (try_rmdir a p) (try_rmdir b p).
Proof.
  intros a b p H. unfold try_rmdir, rmdir, stat_err.
  rewrite (leq_absent_err a b p H), (leq_children a b p H). destruct p as [|n d]; [exact H|].
  rewrite (H (n :: d)). destruct (lookup b (n :: d)) as [[f|]|]; try exact H.
  destruct (children b (n :: d)); [|exact H]. apply leq_upd. exact H.
Qed.

Lemma leq_fold : forall (g : fsT -> path -> fsT),
  (forall a b p, leq a b -> leq (g a p) (g b p)) ->
  forall l a b, leq a b -> leq (fold_left g l a) (fold_left g l b).
Proof. intros g Hg l. induction l as [|x l IH]; simpl; intros a b H; [exact H|]. apply IH, Hg, H. Qed.

Definition setup_leq (x y : (fsT * list path) + exn) : Prop :=
  match x, y with
  | inl (a, d), inl (b, d') => leq a b /\ d = d'
  | inr e, inr e' => e = e'
  | _, _ => False
  end.

Lemma leq_setup_fs : forall a b cf p, leq a b -> setup_leq (setup_fs a cf p) (setup_fs b cf p).
Proof.
  intros a b cf p H. unfold setup_fs. rewrite (leq_isdir a b p H). destruct (isdir b p); [reflexivity|].
  rewrite (leq_missing_dirs a b cf (dirname p) H).
  destruct (missing_dirs b cf (dirname p)) as [dirs|c]; [|reflexivity].
  pose proof (leq_mkdir_all dirs a b H) as R.
  destruct (mkdir_all a dirs), (mkdir_all b dirs); simpl in R; try contradiction; simpl; auto. subst. reflexivity.
Qed.

Lemma leq_spec_answer_raw : forall a b q, leq a b -> spec_answer_raw a q = spec_answer_raw b q.
Proof. intros. apply spec_answer_raw_te. apply leq_te. assumption. Qed.
Lemma leq_spec_answer : forall a b q, leq a b -> spec_answer a q = spec_answer b q.
Proof. intros. apply spec_answer_te. apply leq_te. assumption. Qed.

Lemma leq_record_answer : forall a b q, leq a b -> record_answer a q = record_answer b q.
Proof.
  intros a b q H. destruct q as [p|p|p|p|p td|p|p c]; cbn [record_answer]; try (apply leq_spec_answer_raw; exact H).
  unfold stat_err. rewrite (H p), (leq_absent_err a b p H). reflexivity.
Qed.

Lemma leq_phys : forall a b st p, leq a b -> phys a st p = phys b st p.
Proof. intros a b st p H. unfold phys. rewrite (H p). reflexivity. Qed.

(* ------------------------------------------------------------------ *)
(* frames                                                             *)
(* ------------------------------------------------------------------ *)
Lemma mkdir_all_frame : forall l fs fs1, mkdir_all fs l = inl fs1 ->
  forall q, lookup fs1 q = lookup fs q \/ (lookup fs q = None /\ lookup fs1 q = Some NDir /\ In q l).
Proof.
  induction l as [|d l IH] using rev_ind; intros fs fs1 H q.
  - simpl in H. inversion H; subst. left. reflexivity.
  - rewrite mkdir_all_app1 in H. destruct (mkdir_all fs l) as [f0|e] eqn:E; [|discriminate]. cbn [mkstep] in H.
    destruct (mkdir_frame _ _ _ H) as [Hd [Hnone Hoth]].
    destruct (path_eqb q d) eqn:Eq.
    + apply path_eqb_eq in Eq. subst q. right. split; [|split; [exact Hd|apply in_or_app; right; left; reflexivity]].
      destruct (IH _ _ E d) as [H1|[H1 [H2 _]]]; congruence.
    + apply path_eqb_neq in Eq. rewrite Hoth by exact Eq.
      destruct (IH _ _ E q) as [H1|[H1 [H2 H3]]]; [left; exact H1|right].
      split; [exact H1|]. split; [exact H2|]. apply in_or_app. left. exact H3.
Qed.

Lemma setup_fs_frame : forall fs cf p fs1 dirs, setup_fs fs cf p = inl (fs1, dirs) ->
  isdir fs p = false /\ p <> [] /\
  forall q, lookup fs1 q = lookup fs q \/ (lookup fs q = None /\ lookup fs1 q = Some NDir /\ In q dirs).
Proof.
  intros fs cf p fs1 dirs H. unfold setup_fs in H. destruct (isdir fs p) eqn:Ed; [discriminate|].
  destruct (missing_dirs fs cf (dirname p)) as [l|c]; [|discriminate].
  destruct (mkdir_all fs l) as [f1|e] eqn:Ek; [|discriminate]. inversion H; subst.
  split; [reflexivity|]. split; [intro; subst p; discriminate|]. apply mkdir_all_frame. exact Ek.
Qed.

Lemma try_remove_cases : forall fs p q,
  lookup (try_remove fs p) q = lookup fs q \/ (q = p /\ lookup (try_remove fs p) q = None /\ isfile fs p = true).
Proof.
  intros fs p q. destruct (try_remove_char fs p q) as [H|[H1 [H2 [f H3]]]]; [left; exact H|right].
  split; [exact H1|]. split; [exact H2|]. subst q. unfold isfile. rewrite H3. reflexivity.
Qed.

Lemma try_remove_noop : forall fs p, isfile fs p = false -> try_remove fs p = fs.
Proof. intros fs p H. unfold try_remove. rewrite H. reflexivity. Qed.

(* ------------------------------------------------------------------ *)
(* the stale store                                                    *)
(* ------------------------------------------------------------------ *)
Lemma stale_del_other : forall l p q, q <> p -> stale_get (stale_del l p) q = stale_get l q.
Proof.
  induction l as [|[k g] l IH]; simpl; intros p q H; [reflexivity|].
  destruct (path_eqb k p) eqn:E.
  - apply path_eqb_eq in E. subst k. destruct (path_eqb p q) eqn:E2; [apply path_eqb_eq in E2; congruence|]. apply IH. exact H.
  - simpl. destruct (path_eqb k q); [reflexivity|]. apply IH. exact H.
Qed.

Lemma fold_stale_del_other : forall ps l q, ~ In q ps -> stale_get (fold_left stale_del ps l) q = stale_get l q.
Proof.
  induction ps as [|p ps IH]; simpl; intros l q H; [reflexivity|].
  rewrite IH by tauto. apply stale_del_other. intro; subst; tauto.
Qed.

Definition stale_of (fs : fsT) (outs : list path) : list (path * fnode) :=
  flat_map (fun p => match lookup fs p with Some (NFile f) => [(p, f)] | _ => [] end) outs.

Lemma stale_of_get : forall fs outs q f, In q outs -> lookup fs q = Some (NFile f) -> stale_get (stale_of fs outs) q = Some f.
Proof.
  intros fs outs q f. unfold stale_of. induction outs as [|p outs IH]; simpl; intros Hin Hq; [contradiction|].
  destruct (path_eqb p q) eqn:E.
  - apply path_eqb_eq in E. subst p. rewrite Hq. simpl. rewrite path_eqb_refl. reflexivity.
  - apply path_eqb_neq in E. destruct Hin as [->|Hin]; [congruence|].
    destruct (lookup fs p) as [[g|]|]; simpl; auto.
    destruct (path_eqb p q) eqn:E2; [apply path_eqb_eq in E2; congruence|]. auto.
Qed.

(* ------------------------------------------------------------------ *)
(* the tables of a committed cache                                    *)
(* ------------------------------------------------------------------ *)
Definition files_of (regs : list (path * op)) : list (path * option op) :=
  fold_left (fun acc e => files_set acc (fst e) (Some (snd e))) regs [].
Definition subs_of (regs : list (pyval * op)) : list (pyval * option op) :=
  fold_left (fun acc e => subs_set acc (fst e) (Some (snd e))) regs [].

Lemma files_set_get_same : forall l p o, files_get (files_set l p o) p = Some o.
Proof.
  induction l as [|[q o'] l IH]; simpl; intros p o; [rewrite path_eqb_refl; reflexivity|].
  destruct (path_eqb q p) eqn:E; simpl; rewrite E; [reflexivity|apply IH].
Qed.
Lemma files_set_get_other : forall l p o q, q <> p -> files_get (files_set l p o) q = files_get l q.
Proof.
  induction l as [|[k o'] l IH]; simpl; intros p o q H.
  - destruct (path_eqb p q) eqn:E; [apply path_eqb_eq in E; congruence|reflexivity].
  - destruct (path_eqb k p) eqn:E; simpl.
    + apply path_eqb_eq in E. subst k. destruct (path_eqb p q) eqn:E2; [apply path_eqb_eq in E2; congruence|reflexivity].
    + destruct (path_eqb k q); [reflexivity|]. apply IH. exact H.
Qed.

Lemma files_set_keys : forall l p o q, In q (map fst (files_set l p o)) <-> q = p \/ In q (map fst l).
Proof.
  induction l as [|[k o'] l IH]; simpl; intros p o q; [intuition|].
  destruct (path_eqb k p) eqn:E; simpl.
  - apply path_eqb_eq in E. subst k. intuition.
  - rewrite IH. intuition.
Qed.

Lemma distinct_paths_app : forall a p, distinct_paths (a ++ [p]) = true -> distinct_paths a = true /\ mem_path p a = false.
Proof.
  induction a as [|x a IH]; simpl; intros p H; [auto|].
  apply andb_true_iff in H. destruct H as [H1 H2]. apply negb_true_iff in H1. rewrite mem_path_app in H1.
  apply orb_false_iff in H1. destruct H1 as [H1 H3]. simpl in H3. rewrite orb_false_r in H3.
  destruct (IH _ H2) as [H4 H5]. rewrite H1, H4, H5. simpl. split; [reflexivity|].
  rewrite path_eqb_sym. rewrite H3. reflexivity.
Qed.

Lemma files_of_snoc : forall regs e, files_of (regs ++ [e]) = files_set (files_of regs) (fst e) (Some (snd e)).
Proof. intros. unfold files_of. rewrite fold_left_app. reflexivity. Qed.

Lemma files_of_keys : forall regs q, In q (map fst (files_of regs)) <-> In q (map fst regs).
Proof.
  induction regs as [|e regs IH] using rev_ind; intro q; [simpl; tauto|].
  rewrite files_of_snoc, files_set_keys, IH, map_app, in_app_iff. simpl. intuition.
Qed.

Lemma files_get_none : forall l q, ~ In q (map fst l) -> files_get l q = None.
Proof.
  induction l as [|[k o] l IH]; simpl; intros q H; [reflexivity|].
  destruct (path_eqb k q) eqn:E; [apply path_eqb_eq in E; subst; tauto|]. apply IH. tauto.
Qed.

Lemma files_of_get : forall regs p o, distinct_paths (map fst regs) = true -> In (p, o) regs ->
  files_get (files_of regs) p = Some (Some o).
Proof.
  induction regs as [|e regs IH] using rev_ind; intros p o D Hin; [contradiction|].
  rewrite map_app in D. simpl in D. apply distinct_paths_app in D. destruct D as [D1 D2].
  rewrite files_of_snoc. apply in_app_or in Hin. destruct Hin as [Hin|[E|[]]].
  - rewrite files_set_get_other; [apply IH; assumption|].
    intro; subst p. apply mem_path_false in D2. apply D2. apply in_map_iff. exists (fst e, o). split; [reflexivity|exact Hin].
  - subst e. simpl. apply files_set_get_same.
Qed.

(* a registered target has an entry, and every entry is a registered record *)
Lemma files_of_get_in : forall regs p x, files_get (files_of regs) p = Some x -> exists o, x = Some o /\ In (p, o) regs.
Proof.
  induction regs as [|e regs IH] using rev_ind; intros p x H; [discriminate|].
  rewrite files_of_snoc in H. destruct (path_eqb p (fst e)) eqn:E.
  - apply path_eqb_eq in E. subst p. rewrite files_set_get_same in H. inversion H; subst.
    exists (snd e). split; [reflexivity|]. apply in_or_app. right. left. destruct e; reflexivity.
  - apply path_eqb_neq in E. rewrite files_set_get_other in H by exact E.
    destruct (IH _ _ H) as [o [Ho Hin]]. exists o. split; [exact Ho|]. apply in_or_app. left. exact Hin.
Qed.

(* subbuild keys: compared with ==, stored first *)
Lemma subs_set_get_same : forall l k o, py_eq k k = true ->
  (forall q, In q (map fst l) -> py_eq q k = true -> q = k) ->
  subs_get (subs_set l k o) k = Some o.
Proof.
  induction l as [|[q o'] l IH]; simpl; intros k o R U; [rewrite R; reflexivity|].
  destruct (py_eq q k) eqn:E; simpl; rewrite E; [reflexivity|]. apply IH; [exact R|]. intros; apply U; auto.
Qed.

Lemma subs_set_get_other : forall l k o k', py_eq k k' = false ->
  (forall q, In q (map fst l) -> py_eq q k = true -> q = k) ->
  subs_get (subs_set l k o) k' = subs_get l k'.
Proof.
  induction l as [|[q o'] l IH]; simpl; intros k o k' N U; [rewrite N; reflexivity|].
  destruct (py_eq q k) eqn:E; simpl.
  - assert (q = k) by (apply U; auto). subst q. rewrite N. reflexivity.
  - destruct (py_eq q k'); [reflexivity|]. apply IH; [exact N|]. intros; apply U; auto.
Qed.

Lemma subs_set_keys : forall l k o q, In q (map fst (subs_set l k o)) -> q = k \/ In q (map fst l).
Proof.
  induction l as [|[k0 o'] l IH]; simpl; intros k o q H; [intuition|].
  destruct (py_eq k0 k) eqn:E; simpl in H.
  - intuition.
  - destruct H as [H|H]; [auto|]. apply IH in H. intuition.
Qed.

Lemma subs_of_snoc : forall regs e, subs_of (regs ++ [e]) = subs_set (subs_of regs) (fst e) (Some (snd e)).
Proof. intros. unfold subs_of. rewrite fold_left_app. reflexivity. Qed.

Lemma subs_of_keys : forall regs q, In q (map fst (subs_of regs)) -> In q (map fst regs).
Proof.
  induction regs as [|e regs IH] using rev_ind; intros q H; [contradiction|].
  rewrite subs_of_snoc in H. apply subs_set_keys in H. rewrite map_app, in_app_iff. simpl.
  destruct H as [H|H]; [right; left; congruence|left; apply IH; exact H].
Qed.

Lemma distinct_keys_app : forall a k, distinct_keys (a ++ [k]) = true ->
  distinct_keys a = true /\ forall q, In q a -> py_eq q k = false /\ py_eq k q = false.
Proof.
  induction a as [|x a IH]; simpl; intros k H; [split; [reflexivity|intros q []]|].
  apply andb_true_iff in H. destruct H as [H1 H2]. apply negb_true_iff in H1. rewrite existsb_app in H1.
  apply orb_false_iff in H1. destruct H1 as [H1 H3]. simpl in H3. rewrite orb_false_r in H3.
  apply orb_false_iff in H3. destruct (IH _ H2) as [H4 H5]. rewrite H1, H4. split; [reflexivity|].
  intros q [<-|Hq]; [tauto|]. apply H5. exact Hq.
Qed.

Lemma subs_of_get : forall regs k o, distinct_keys (map fst regs) = true ->
  (forall e, In e regs -> py_eq (fst e) (fst e) = true) -> In (k, o) regs ->
  subs_get (subs_of regs) k = Some (Some o).
Proof.
  induction regs as [|e regs IH] using rev_ind; intros k o D R Hin; [contradiction|].
  rewrite map_app in D. simpl in D. apply distinct_keys_app in D. destruct D as [D1 D2].
  assert (U : forall q, In q (map fst (subs_of regs)) -> py_eq q (fst e) = true -> q = fst e).
  { intros q Hq Hp. apply subs_of_keys in Hq. destruct (D2 q Hq) as [Hx _]. congruence. }
  rewrite subs_of_snoc. apply in_app_or in Hin. destruct Hin as [Hin|[E|[]]].
  - rewrite subs_set_get_other; [apply IH; auto; intros; apply R; apply in_or_app; auto| |exact U].
    apply D2. apply in_map_iff. exists (k, o). split; [reflexivity|exact Hin].
  - subst e. simpl. simpl in U. apply subs_set_get_same; [|exact U]. apply (R (k, o)). apply in_or_app. right. left. reflexivity.
Qed.

(* ------------------------------------------------------------------ *)
(* cached files of the committed cache                                *)
(* ------------------------------------------------------------------ *)
Lemma created_files_iff : forall l p,
  In p (flat_map (fun e : path * option op => match snd e with Some o => if op_raised o then [] else [fst e] | None => [] end) l)
  <-> exists o, In (p, Some o) l /\ op_raised o = false.
Proof.
  intros l p. rewrite in_flat_map. split.
  - intros [[q [o|]] [Hin Hp]]; simpl in Hp; [|contradiction].
    destruct (op_raised o) eqn:Er; [contradiction|]. destruct Hp as [<-|[]]. exists o. auto.
  - intros [o [Hin Hr]]. exists (p, Some o). split; [exact Hin|]. simpl. rewrite Hr. left. reflexivity.
Qed.

Lemma files_get_In : forall l p x, files_get l p = Some x -> In (p, x) l.
Proof.
  induction l as [|[q o] l IH]; simpl; intros p x H; [discriminate|].
  destruct (path_eqb q p) eqn:E; [apply path_eqb_eq in E; inversion H; subst; left; reflexivity|]. right. apply IH. exact H.
Qed.

Lemma files_of_In : forall regs p x, In (p, x) (files_of regs) -> exists o, x = Some o /\ In (p, o) regs.
Proof.
  induction regs as [|e regs IH] using rev_ind; intros p x H; [contradiction|].
  rewrite files_of_snoc in H.
  assert (G : forall l q y, In (q, y) (files_set l (fst e) (Some (snd e))) -> In (q, y) l \/ (q = fst e /\ y = Some (snd e))).
  { clear. induction l as [|[k o'] l IHl]; simpl; intros q y H.
    - destruct H as [H|[]]. inversion H; subst. auto.
    - destruct (path_eqb k (fst e)) eqn:E; simpl in H.
      + apply path_eqb_eq in E. subst k. destruct H as [H|H]; [inversion H; subst; auto|auto].
      + destruct H as [H|H]; [auto|]. apply IHl in H. tauto. }
  apply G in H. destruct H as [H|[-> ->]].
  - destruct (IH _ _ H) as [o [Ho Hin]]. exists o. split; [exact Ho|]. apply in_or_app. auto.
  - exists (snd e). split; [reflexivity|]. apply in_or_app. right. left. destruct e; reflexivity.
Qed.

(* ------------------------------------------------------------------ *)
(* deepest first                                                      *)
(* ------------------------------------------------------------------ *)
Lemma string_app_length : forall a b, String.length (a ++ b)%string = String.length a + String.length b.
Proof. induction a as [|c a IH]; simpl; intro b; [reflexivity|]. rewrite IH. reflexivity. Qed.

Lemma path_text_cons : forall x d, path_text (x :: d) = (path_text d ++ "/" ++ x)%string.
Proof. intros. unfold path_text. simpl. rewrite fold_left_app. reflexivity. Qed.

Lemma plen_cons : forall x d, plen d < plen (x :: d).
Proof.
  intros. unfold plen. rewrite path_text_cons, !string_app_length.
  change (String.length "/") with 1.
  change (String.length (path_text d) < String.length (path_text d) + (1 + String.length x)). lia.
Qed.

Lemma plen_ancestor : forall d q, is_ancestor d q = true -> plen d < plen q.
Proof.
  intros d q. induction q as [|x q IH]; simpl; [discriminate|].
  rewrite orb_true_iff. intros [H|H].
  - apply path_eqb_eq in H. subst. apply plen_cons.
  - apply IH in H. pose proof (plen_cons x q). lia.
Qed.

(* sorted: earlier elements are not shorter *)
Fixpoint desc_sorted (l : list path) : Prop :=
  match l with
  | [] => True
  | x :: r => (forall y, In y r -> plen y <= plen x) /\ desc_sorted r
  end.

Lemma insert_desc_sorted : forall x l, desc_sorted l ->
  desc_sorted (insert_by (fun a b => Nat.leb (plen b) (plen a)) x l).
Proof.
  intros x l. induction l as [|y l IH]; simpl; intro H; [split; [intros ? []|exact I]|].
  destruct H as [H1 H2]. destruct (Nat.leb (plen y) (plen x)) eqn:E.
  - apply Nat.leb_le in E. simpl. split; [|split; assumption].
    intros z [<-|Hz]; [exact E|]. specialize (H1 z Hz). lia.
  - apply Nat.leb_gt in E. simpl. split; [|apply IH; exact H2].
    intros z Hz. apply In_insert_by in Hz. destruct Hz as [<-|Hz]; [lia|auto].
Qed.

Lemma deepest_first_sorted : forall l, desc_sorted (deepest_first l).
Proof.
  intro l. unfold deepest_first, sort_by. induction l as [|x l IH]; simpl; [exact I|].
  apply insert_desc_sorted. exact IH.
Qed.

(* ------------------------------------------------------------------ *)
(* JSON equality of a value with itself                               *)
(* ------------------------------------------------------------------ *)
Lemma cmp_of_refl : forall c f, is_equal (cmp_of c f) (cmp_of c f) = true.
Proof. intros c f. apply is_equal_refl. destruct c; reflexivity. Qed.

Lemma sanitize_refl : forall a sa, sanitize a = Some sa -> is_equal sa sa = true.
Proof. intros a sa H. apply is_equal_refl, sanitized_sanitized_t. eapply sanitize_sanitized; eauto. Qed.

Lemma assoc_get_sanitized : forall k d v, forallb (fun kv => is_pstr (fst kv) && sanitized_gen false (snd kv)) d = true ->
  assoc_get k d = Some v -> sanitized v = true.
Proof.
  intros k d. induction d as [|[k' v'] d IH]; simpl; intros v H Hg; [discriminate|].
  apply andb_true_iff in H. destruct H as [H1 H2]. destruct (py_eq k k').
  - inversion Hg; subst. apply andb_true_iff in H1. apply H1.
  - apply IH; assumption.
Qed.

Lemma dict_get_refl : forall vers k, sanitized vers = true -> is_equal (py_dict_get k vers) (py_dict_get k vers) = true.
Proof.
  intros vers k H. apply is_equal_refl, sanitized_sanitized_t. unfold py_dict_get.
  destruct (assoc_get k (py_items vers)) as [v|] eqn:E; [|reflexivity].
  destruct vers; simpl in E; try discriminate. unfold sanitized in H. rewrite sanitized_gen_dict in H.
  apply andb_true_iff in H. eapply assoc_get_sanitized; [apply H|exact E].
Qed.

Lemma subbuild_key_refl : forall f a k sa skw, sanitize a = Some sa -> sanitize k = Some skw ->
  py_eq (subbuild_key f sa skw) (subbuild_key f sa skw) = true.
Proof.
  intros f a k sa skw Ha Hk. unfold subbuild_key.
  pose proof (sanitize_sanitized _ _ Ha) as Sa. pose proof (sanitize_sanitized _ _ Hk) as Sk.
  rewrite (subbuild_key_iff f sa skw f sa skw Sa Sk Sa Sk), String.eqb_refl.
  rewrite (sanitize_refl _ _ Ha), (sanitize_refl _ _ Hk). reflexivity.
Qed.
