(* Proofs/SimH13.v — Cache.use_cached_operation cannot fail in a sequential build.
   [cached_no_repeats]: a record tree that is_op_cached accepts passes Builder.assert_no_repeats
   against the new cache (the replay refuses every claimed key, and setup-failed nodes);
   [bf_lookup_no_repeats / sb_lookup_no_repeats]: so do the suboperations of a record found by
   _build_file_cache_lookup / _subbuild_cache_lookup;
   [bf_setup_reuse_total / sb_setup_reuse_total]: the setup of build_file / subbuild never yields
   the "use_cached_operation raised" outcome, i.e. no record marked setup_failed that carries
   suboperations is ever made.  (Step (1) of what SimH12 lists as open.) *)
From Coq Require Import List String Ascii NArith ZArith Bool Arith Lia.
From FB.Base Require Import PyVal Fs.
From FB.Gen Require Import JsonUtilGen.
From FB.Spec Require Import JsonSpec Prog.
From FB.Model Require Import Types Monad CreatedFiles BuildDirs SimpleOps Builder Persist PersistSpec Build Run.
From FB.Proofs Require Import FsLemmas JsonLaws PersistLaws ReplayLaws BuildFileLaws SimH2.
Import ListNotations.
Local Open Scope list_scope.
Local Open Scope m_scope.

Lemma svb_new_eq : forall X (m : world -> world * X) w w' r, pres svbPO m -> m w = (w', r) -> w_new w' = w_new w.
Proof. intros X m w w' r P E. destruct (P _ _ _ E) as (_ & _ & _ & _ & A & _). exact A. Qed.

Ltac note_new :=
  repeat match goal with
  | E : dirs_to_make ?d ?c ?a = (?b, _) |- _ =>
      lazymatch goal with | _ : w_new b = w_new a |- _ => fail | _ => pose proof (svb_new_eq _ _ _ _ _ (dirs_to_make_svb d c) E) end
  | E : is_build_file_cached ?p ?c ?r ?a = (?b, _) |- _ =>
      lazymatch goal with | _ : w_new b = w_new a |- _ => fail | _ => pose proof (svb_new_eq _ _ _ _ _ (is_build_file_cached_svb p c r) E) end
  | E : are_subs_cached ?s ?c ?a = (?b, _) |- _ =>
      lazymatch goal with | _ : w_new b = w_new a |- _ => fail | _ => pose proof (svb_new_eq _ _ _ _ _ (are_subs_cached_svb s c) E) end
  | E : is_op_cached ?s ?c ?a = (?b, _) |- _ =>
      lazymatch goal with | _ : w_new b = w_new a |- _ => fail | _ => pose proof (svb_new_eq _ _ _ _ _ (is_op_cached_svb s c) E) end
  end.

Lemma subs_no_repeats : forall subs,
  Forall (fun s => forall cf w w' cf', is_op_cached s cf w = (w', inl (true, cf')) -> assert_no_repeats (w_new w) s = true) subs ->
  forall cf w w' cf', are_subs_cached subs cf w = (w', inl (true, cf')) ->
  forallb (assert_no_repeats (w_new w)) subs = true.
Proof.
  intros subs HF. induction HF as [|s rest Hs HF IH]; intros cf w w' cf' H; [reflexivity|].
  cbn [are_subs_cached] in H. minv H.
  match goal with E : is_op_cached s _ _ = (_, inl ?x) |- _ => destruct x as [b1 cf1] end.
  cbn [fst snd] in *. subst b1. note_new. cbn [forallb].
  rewrite (Hs _ _ _ _ E). cbn [andb].
  match goal with K : w_new ?b = w_new w |- _ => rewrite <- K end. eapply IH; eauto.
Qed.

Theorem cached_no_repeats : forall o cf w w' cf',
  is_op_cached o cf w = (w', inl (true, cf')) -> assert_no_repeats (w_new w) o = true.
Proof.
  induction o as [q r e | p c f a k subs r cr ra sf IH | f a k subs r ra sf IH] using op_ind';
    intros cf w w' cf' H.
  - reflexivity.
  - cbn [is_op_cached] in H. minv H; rewrite ?subs_go_eq in *.
    all: match goal with E : are_subs_cached _ _ _ = (_, inl ?x) |- _ => destruct x as [b1 cf1] end.
    all: cbn [fst snd] in *.
    all: repeat match goal with Hn : negb _ = false |- _ => apply negb_false_iff in Hn end; subst.
    all: note_new.
    all: cbn [assert_no_repeats].
    all: match goal with Hb : cache_has_file _ _ || _ = false |- _ => apply orb_false_iff in Hb; destruct Hb as [Hb _]; rewrite Hb end; cbn [orb negb andb].
    all: match goal with E : are_subs_cached ?s _ _ = (_, inl (true, _)) |- _ => pose proof (subs_no_repeats s IH _ _ _ _ E) as X end.
    all: congruence.
  - cbn [is_op_cached] in H. minv H; rewrite ?subs_go_eq in *.
    cbn [assert_no_repeats]. rewrite Heqb0. apply orb_false_iff in Heqb. destruct Heqb as [_ ->]. cbn [orb negb andb].
    exact (subs_no_repeats subs IH _ _ _ _ H).
Qed.

(* a record found by a lookup passes the check of Cache.use_cached_operation *)
Theorem bf_lookup_no_repeats : forall p f a k w w' co, build_file_cache_lookup p f a k w = (w', inl (Some co)) ->
  forallb (assert_no_repeats (w_new w)) (op_subs co) = true /\ w_new w' = w_new w.
Proof.
  intros p f a k w w' co H. split; [|exact (svb_new_eq _ _ _ _ _ (build_file_cache_lookup_svb p f a k) H)].
  unfold build_file_cache_lookup in H. minv H.
  match goal with E : are_subs_cached _ _ _ = (_, inl ?x) |- _ => destruct x as [b1 cf1] end.
  cbn [fst snd] in *. subst b1. note_new. cbn [op_subs].
  match goal with E : are_subs_cached ?s _ _ = (_, inl (true, _)) |- _ =>
    pose proof (subs_no_repeats s (proj2 (Forall_forall _ _) (fun o _ => cached_no_repeats o)) _ _ _ _ E) as X end.
  congruence.
Qed.

Theorem sb_lookup_no_repeats : forall key f w w' co, subbuild_cache_lookup key f w = (w', inl (Some co)) ->
  forallb (assert_no_repeats (w_new w)) (op_subs co) = true /\ w_new w' = w_new w.
Proof.
  intros key f w w' co H. split; [|exact (svb_new_eq _ _ _ _ _ (subbuild_cache_lookup_svb key f) H)].
  unfold subbuild_cache_lookup in H. minv H.
  match goal with E : are_subs_cached _ _ _ = (_, inl ?x) |- _ => destruct x as [b1 cf1] end.
  cbn [fst snd] in *. subst b1. note_new. cbn [op_subs].
  match goal with E : are_subs_cached ?s _ _ = (_, inl (true, _)) |- _ =>
    pose proof (subs_no_repeats s (proj2 (Forall_forall _ _) (fun o _ => cached_no_repeats o)) _ _ _ _ E) as X end.
  congruence.
Qed.

Lemma newPO_new_eq : forall X (m : world -> world * X) w w' r, pres newPO m -> m w = (w', r) -> w_new w' = w_new w.
Proof. intros X m w w' r P E. destruct (P _ _ _ E) as (A & _). exact A. Qed.

Lemma use_cached_ok : forall o w, assert_no_repeats (w_new w) o = true ->
  exists w', new_use_cached_operation o w = (w', inl tt).
Proof.
  intros o w H. unfold new_use_cached_operation. unfold bind, get. rewrite H. unfold put. eexists. reflexivity.
Qed.

Theorem bf_setup_reuse_total : forall p c f sa skw w w1 e o,
  bf_setup p c f sa skw w <> (w1, inl (Some (inr (e, o)))).
Proof.
  intros p c f sa skw w w1 e o H. unfold bf_setup in H.
  apply bind_inv in H. destruct H as [(wa & ua & Ea & H) | (e0 & _ & Y)]; [|discriminate Y].
  assert (Hf : cache_has_file (w_new w) p = false).
  { unfold new_assert_no_file, bind, get in Ea. destruct (cache_has_file (w_new w) p); [discriminate Ea | reflexivity]. }
  pose proof (svb_new_eq _ _ _ _ _ (new_assert_no_file_svb p) Ea) as Na.
  apply bind_inv in H. destruct H as [(wb & icf & Eb & H) | (e0 & _ & Y)]; [|discriminate Y].
  pose proof (svb_new_eq _ _ _ _ _ (is_cache_file_svb p) Eb) as Nb.
  apply bind_inv in H. destruct H as [(wc & uc & Ec & H) | (e0 & _ & Y)]; [|discriminate Y].
  assert (wc = wb) by (destruct icf; inversion Ec; reflexivity). subst wc.
  apply bind_inv in H. destruct H as [(wd & created & Ed & H) | (e0 & _ & Y)]; [|discriminate Y].
  pose proof (newPO_new_eq _ _ _ _ _ (prepare_file_creation_new p) Ed) as Nd.
  apply bind_inv in H. destruct H as [(we & locked & Ee & H) | (e0 & _ & Y)]; [|discriminate Y].
  pose proof (svb_new_eq _ _ _ _ _ (m_bd_started_svb p created) Ee) as Ne.
  apply catch_inv in H. destruct H as [(x & H & Y) | (wf & e0 & _ & H2)].
  2:{ apply bind_inv in H2. destruct H2 as [(wg & ug & _ & H2) | (e' & _ & Y)]; [inversion H2 | discriminate Y]. }
  inversion Y; subst x; clear Y.
  apply bind_inv in H. destruct H as [(wg & cached & Eg & H) | (e0 & _ & Y)]; [|discriminate Y].
  apply bind_inv in H. destruct H as [(wh & reused & Eh & H) | (e0 & _ & Y)]; [|discriminate Y].
  destruct reused as [[o0|eo]|].
  - inversion H.
  - (* the reuse attempt reported a failure of use_cached_operation: impossible *)
    clear H. unfold bf_reuse in Eh. destruct cached as [co|]; [|inversion Eh].
    destruct (bf_lookup_no_repeats _ _ _ _ _ _ _ Eg) as [Hsub Ng].
    apply bind_inv in Eh. destruct Eh as [(wi & cmp & Ei & Eh) | (e0 & _ & Y)]; [|discriminate Y].
    pose proof (svb_new_eq _ _ _ _ _ (noneable_cmp_svb p c) Ei) as Ni.
    assert (T : forall cmp0 : pyval,
      (apply_cached_subs_of co ;;;
       r <- attempt (new_use_cached_operation (OBuildFile p c f sa skw (op_subs co) (op_ret co) cmp0 false false)) ;;
       match r with
       | inl _ => ret (Some (inl (OBuildFile p c f sa skw (op_subs co) (op_ret co) cmp0 false false)))
       | inr e1 => ret (Some (@inr op (exn * op) (e1, OBuildFile p c f sa skw (op_subs co) (op_ret co) cmp0 true true)))
       end) wi <> (wh, inl (Some (inr eo)))).
    { intros cmp0 E. apply bind_inv in E. destruct E as [(wj & uj & Ej & E) | (e0 & _ & Y)]; [|discriminate Y].
      pose proof (newPO_new_eq _ _ _ _ _ (apply_cached_subs_of_new co) Ej) as Nj.
      apply bind_inv in E. destruct E as [(wk & rk & Ek & E) | (e0 & _ & Y)]; [|discriminate Y].
      apply attempt_inv in Ek. destruct Ek as (x & Ek & Y). inversion Y; subst rk; clear Y.
      assert (A : assert_no_repeats (w_new wj) (OBuildFile p c f sa skw (op_subs co) (op_ret co) cmp0 false false) = true).
      { cbn [assert_no_repeats]. replace (w_new wj) with (w_new w) by congruence. rewrite Hf. cbn [orb negb andb].
        replace (w_new w) with (w_new we) by congruence. exact Hsub. }
      destruct (use_cached_ok _ _ A) as [w2 E2]. rewrite E2 in Ek. inversion Ek; subst. inversion E. }
    destruct cmp; try (exact (T _ Eh)). inversion Eh.
  - pose proof (bf_claim_none p wh w1 _ H) as Z. discriminate Z.
Qed.

Theorem sb_setup_reuse_total : forall f sa skw w w1 e o,
  sb_setup f sa skw w <> (w1, inl (Some (inr (e, o)))).
Proof.
  intros f sa skw w w1 e o H. unfold sb_setup in H. cbv zeta in H.
  apply bind_inv in H. destruct H as [(wa & ua & Ea & H) | (e0 & _ & Y)]; [|discriminate Y].
  assert (Hf : cache_has_subbuild (w_new w) (subbuild_key f sa skw) = false).
  { unfold new_assert_no_subbuild, bind, get in Ea.
    destruct (cache_has_subbuild (w_new w) (subbuild_key f sa skw)); [discriminate Ea | reflexivity]. }
  pose proof (svb_new_eq _ _ _ _ _ (new_assert_no_subbuild_svb _) Ea) as Na.
  apply bind_inv in H. destruct H as [(wb & cached & Eb & H) | (e0 & _ & Y)]; [|discriminate Y].
  destruct cached as [co|].
  - destruct (sb_lookup_no_repeats _ _ _ _ _ Eb) as [Hsub Nb].
    apply bind_inv in H. destruct H as [(wj & uj & Ej & H) | (e0 & _ & Y)]; [|discriminate Y].
    pose proof (newPO_new_eq _ _ _ _ _ (apply_cached_subs_of_new co) Ej) as Nj.
    apply bind_inv in H. destruct H as [(wk & rk & Ek & H) | (e0 & _ & Y)]; [|discriminate Y].
    apply attempt_inv in Ek. destruct Ek as (x & Ek & Y). inversion Y; subst rk; clear Y.
    assert (A : assert_no_repeats (w_new wj) (OSubbuild f sa skw (op_subs co) (op_ret co) false false) = true).
    { cbn [assert_no_repeats]. replace (w_new wj) with (w_new w) by congruence. rewrite Hf. cbn [orb negb andb].
      replace (w_new w) with (w_new wa) by congruence. exact Hsub. }
    destruct (use_cached_ok _ _ A) as [w2 E2]. rewrite E2 in Ek. inversion Ek; subst. inversion H.
  - apply bind_inv in H. destruct H as [(wc & uc & _ & H) | (e0 & _ & Y)]; [inversion H | discriminate Y].
Qed.

(* hence: every record of a sequential build that is marked setup_failed has no suboperation *)
Theorem m_build_file_sf_leaf : forall p c f a kw fn w w1 r o,
  m_build_file p c f a kw fn w = (w1, (r, Some o)) -> op_setup_failed o = true -> op_subs o = [].
Proof.
  intros p c f a kw fn w w1 r o H Hsf. rewrite m_build_file_unfold in H.
  destruct (sanitize a) as [sa|]; [|inversion H]. destruct (sanitize kw) as [skw|]; [|inversion H].
  destruct (bf_setup p c f sa skw w) as [w2 [[[o0|[e0 o0]]|]|e0]] eqn:Es.
  - inversion H; subst. exfalso.
    (* a record served from the cache is not marked setup_failed *)
    destruct (bf_setup_shape _ _ _ _ _ _ _ _ Es) as (s0 & r0 & c0 & ->). discriminate Hsf.
  - exfalso. exact (bf_setup_reuse_total _ _ _ _ _ _ _ _ _ Es).
  - unfold bf_rebuild in H. destruct (fn p sa skw (bf_invoke_world p f sa skw w2)) as [w3 [res subs]].
    unfold bf_finish, bf_fail in H. exfalso.
    repeat match type of H with context [match ?x with _ => _ end] => destruct x end; inversion H; subst; discriminate Hsf.
  - inversion H; subst. reflexivity.
Qed.

Theorem m_subbuild_sf_leaf : forall f a kw fn w w1 r o,
  m_subbuild f a kw fn w = (w1, (r, Some o)) -> op_setup_failed o = true -> op_subs o = [].
Proof.
  intros f a kw fn w w1 r o H Hsf. rewrite m_subbuild_unfold in H.
  destruct (sanitize a) as [sa|]; [|inversion H]. destruct (sanitize kw) as [skw|]; [|inversion H].
  destruct (sb_setup f sa skw w) as [w2 [[[o0|[e0 o0]]|]|e0]] eqn:Es.
  - inversion H; subst. exfalso.
    destruct (sb_setup_shape _ _ _ _ _ _ Es) as (s0 & r0 & ->). discriminate Hsf.
  - exfalso. exact (sb_setup_reuse_total _ _ _ _ _ _ _ Es).
  - unfold sb_rebuild in H. destruct (fn sa skw (sb_invoke_world f sa skw w2)) as [w3 [res subs]].
    unfold sb_finish in H. cbv zeta in H. exfalso.
    repeat match type of H with context [match ?x with _ => _ end] => destruct x end; inversion H; subst; discriminate Hsf.
  - inversion H; subst. reflexivity.
Qed.

Print Assumptions bf_setup_reuse_total.
Print Assumptions sb_setup_reuse_total.
Print Assumptions m_build_file_sf_leaf.
Print Assumptions m_subbuild_sf_leaf.
