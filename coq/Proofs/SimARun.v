(* Proofs/SimARun.v — C04, the link to Core, run level: the induction over programs.
   From the two node statements of SimA0.v (build_file, subbuild) the simulation holds for
   every program that satisfies the side conditions: `run` on the mechanism model and
   `core_run` on Core from Sim4-related states end in Sim4-related states with the same
   outcome and related records.  Here also: the steps of a query and of a write. *)
From Coq Require Import List String Ascii NArith ZArith Bool Arith Lia.
From FB.Base Require Import PyVal Fs.
From FB.Gen Require Import JsonUtilGen.
From FB.Spec Require Import JsonSpec Prog Ref Oracle Faithful.
From FB.Model Require Import Types Monad CreatedFiles BuildDirs SimpleOps Builder Persist Build Run Frame Core CoreOracle.
From FB.Proofs Require Import FsLemmas JsonLaws ReplayLaws BuildFileLaws HashMemoInv HashMemoRun CoreLaws1 CoreLaws2 CoreLaws3
     ViewDefs ViewLemmas ViewInit ViewXDefs ViewXQuery ViewXMake1 ViewXMake2 ViewXFail ViewXSetup ViewXRun ViewR1 ViewR2 ViewR3
     ViewK1 ViewK2 ViewK3 ViewK4 ViewK5 ViewK8 SimA0.
Import ListNotations.
Open Scope list_scope.

Local Notation RInv2' := (RInv2 (fun _ => True)).

(* ------------------------------------------------------------------ small facts *)
Lemma Wincl_refl : forall W, Wincl W W.
Proof. intros W x H. exact H. Qed.
Lemma Wincl_trans : forall a b c, Wincl a b -> Wincl b c -> Wincl a c.
Proof. intros a b c H1 H2 x H. apply H2. apply H1. exact H. Qed.

Lemma frame4_refl : forall st tg w, frame4 st tg w w.
Proof. intros st tg w y _ _. reflexivity. Qed.
Lemma frame4_trans : forall st tg a b c, frame4 st tg a b -> frame4 st tg b c -> frame4 st tg a c.
Proof. intros st tg a b c H1 H2 y Hy Hn. rewrite (H2 y Hy Hn). apply H1; assumption. Qed.

Lemma recs_rel_app1 : forall a b x y, recs_rel a b -> rec_rel x y -> recs_rel (a ++ [x]) (b ++ [y]).
Proof.
  induction a as [|u a IH]; intros [|v b] x y H Hxy; cbn in H; try contradiction.
  - cbn. split; [exact Hxy|exact I].
  - destruct H as [H1 H2]. cbn [app]. split; [exact H1|]. apply IH; assumption.
Qed.

Lemma recs_rel_app_op : forall a b o o', recs_rel a b -> orec_rel o o' -> recs_rel (Run.app_op a o) (Core.app_op b o').
Proof.
  intros a b [x|] [y|] H Ho; cbn in Ho; try contradiction; cbn [Run.app_op Core.app_op]; [apply recs_rel_app1; assumption|exact H].
Qed.

Lemma node_equiv_dir_r : forall x, node_equiv x (Some NDir) -> x = Some NDir.
Proof. intros [[f|]|] H; cbn in H; try contradiction; reflexivity. Qed.
Lemma node_equiv_none_r : forall x, node_equiv x None -> x = None.
Proof. intros [[f|]|] H; cbn in H; try contradiction; reflexivity. Qed.

(* a directory of Core's tree is a directory of the view, hence on disk *)
Lemma sim3_dir_view : forall W w s x, Sim3 W w s -> lookup (k_fs s) x = Some NDir -> lookup (view_fs w) x = Some NDir.
Proof.
  intros W w s x HS H. pose proof (s3_tree _ _ _ HS x) as K. rewrite H in K.
  destruct (mem_path x W); [apply node_equiv_dir_r; exact K|exact K].
Qed.

Lemma view_dir_disk : forall w x, lookup (view_fs w) x = Some NDir -> lookup (w_fs w) x = Some NDir.
Proof.
  intros w x H. destruct x as [|n d]; [reflexivity|]. rewrite lookup_view in H by discriminate.
  destruct (visible w (n :: d)); [exact H|discriminate].
Qed.

Lemma sim3_dir_disk : forall W w s x, Sim3 W w s -> lookup (k_fs s) x = Some NDir -> lookup (w_fs w) x = Some NDir.
Proof. intros W w s x HS H. apply view_dir_disk. eapply sim3_dir_view; eassumption. Qed.

Lemma RInv2_R' : forall T w, RInv2' T w -> RInv T w.
Proof. intros T w H. apply H. Qed.

Lemma RInv2_maxlen : forall T w, RInv2' T w -> maxlen (w_fs w) < walk_fuel.
Proof. intros T w (_ & (_ & H) & _). exact H. Qed.

Lemma w_new_log_answer : forall q r w, w_new (log_answer q r w) = w_new w.
Proof. intros q r w. unfold log_answer. destruct r as [v|[]]; reflexivity. Qed.
Lemma w_fs_log_answer : forall q r w, w_fs (log_answer q r w) = w_fs w.
Proof. intros q r w. unfold log_answer. destruct r as [v|[]]; reflexivity. Qed.
Lemma w_bd_log_answer : forall q r w, w_bd (log_answer q r w) = w_bd w.
Proof. intros q r w. unfold log_answer. destruct r as [v|[]]; reflexivity. Qed.
Lemma w_cf_log_answer : forall q r w, w_cachefile (log_answer q r w) = w_cachefile w.
Proof. intros q r w. unfold log_answer. destruct r as [v|[]]; reflexivity. Qed.
Lemma w_hash_log_answer : forall q r w, w_hash (log_answer q r w) = w_hash w.
Proof. intros q r w. unfold log_answer. destruct r as [v|[]]; reflexivity. Qed.

(* ------------------------------------------------------------------ a query *)
Lemma sim4_query : forall st tg pend T W w s q w1 r o,
  Sim4 T W w s -> Ctx4 st tg pend w -> path_ok (spec_query_path q) = true ->
  (forall p c, q = QRead p c -> c = METADATA) ->
  m_query q w = (w1, (r, o)) ->
  let a := spec_answer (k_fs s) q in
  let ua := match a with inl v => inl v | inr c => inr (XOS c) end in
  let w2 := log_answer q ua w1 in
  (exists o', o = Some o' /\ rec_rel o' (record_of q (record_answer (k_fs s) q))) /\
  user_answer q r w1 = ua /\
  Sim4 T W w2 (klog (LAnswer q a) s) /\ Ctx4 st tg pend w2 /\ w_fs w2 = w_fs w /\ w_old w2 = w_old w.
Proof.
  intros st tg pend T W w s q w1 r o [[HP HL] [HI [HK HWb]]] HC Hp Hread H a ua w2.
  pose proof (s4_rinv _ _ _ _ HP) as HR2. pose proof (RInv2_R' _ _ HR2) as HR. pose proof (RInv_X _ _ HR) as HX.
  destruct (sim3_query T W w s q w1 r o (s4_sim _ _ _ _ HP) HR Hp) as (Ho & Hua & HS2 & HR2' & Hfs & Hnew); [| |exact H|].
  { intros p td _ _. pose proof (RInv2_maxlen _ _ HR2). lia. }
  { intros p c Hq. left. eapply Hread. exact Hq. }
  fold a in Hua, HS2, HR2', Hfs, Hnew. fold ua in Hua, HS2, HR2', Hfs, Hnew. fold w2 in HS2, HR2', Hfs, Hnew.
  pose proof (m_query_strict q w w1 _ H) as Hx. pose proof Hx as (Ho1 & Hf1 & Hn1 & _).
  assert (Hq: qrel w w1).
  { unfold m_query in H. destruct (exec_query q None w) as [wq x] eqn:E.
    assert (wq = w1) by (destruct x as [v|[]]; inversion H; reflexivity). subst wq. apply (exec_query_q _ _ _ _ _ E). }
  destruct (qrel_facts _ _ _ HX Hq) as (_ & Sa & _ & _).
  assert (Hold: w_old w2 = w_old w) by (unfold w2; rewrite w_old_log_answer; exact Ho1).
  assert (Hbd: bd_created (w_bd w2) = bd_created (w_bd w)) by (unfold w2; rewrite w_bd_log_answer; apply (sv_created _ _ Sa)).
  assert (Hcf: w_cachefile w2 = w_cachefile w) by (unfold w2; rewrite w_cf_log_answer; apply (sv_cf _ _ Sa)).
  split; [exact Ho|]. split; [exact Hua|]. split; [|split; [|split; [exact Hfs|exact Hold]]].
  - split; [split|split; [|split]].
    + destruct HP as [P1 P2 P5 P6 P7 P8 P9 P10 P11 P12 P13 P14].
      constructor; cbn [klog ks_with k_need k_made k_fs k_newS]; try assumption.
      * apply log_answer_RInv2. eapply m_query_RInv2; eassumption.
      * intro x. rewrite Hbd. apply P7.
      * intros x Hx0. rewrite Hcf in Hx0. apply P10. exact Hx0.
      * intros x Hx0. rewrite Hcf. apply P11. exact Hx0.
      * intros k v Hin. rewrite Hnew in Hin. eapply P12. exact Hin.
      * rewrite Hnew. exact P13.
    + intros x Hx0. rewrite Hnew. apply HL. exact Hx0.
    + apply HInv_log_answer. apply (hx_HInv true w w1 Hx HI).
    + rewrite Hold. exact HK.
    + rewrite Hnew. exact HWb.
  - destruct HC as [C1 C2 C3 C4 C5]. constructor.
    + intro y. unfold inprog. rewrite Hnew. apply C1.
    + exact C2.
    + unfold pend_rel in *. destruct tg as [p|]; [|exact I]. rewrite Hnew, Hfs. exact C3.
    + intros y Hy. rewrite Hfs. apply C4. exact Hy.
    + unfold w2. apply TSA_log_answer. apply (TSA_query tg w w1 Hx C5).
Qed.

(* ------------------------------------------------------------------ a write of the running function *)
Lemma write_succeeds : forall st pend T W w s p c,
  Sim4 T W w s -> Ctx4 st (Some p) pend w ->
  exists fs', write_file (w_fs w) p c None (N.succ (w_clock w)) (w_nextid w) = inl fs'.
Proof.
  intros st pend T W w s p c [[HP HL] _] HC.
  destruct (c4_tg _ _ _ _ HC p eq_refl) as [Hin Htg].
  pose proof (proj2 (c4_prog _ _ _ _ HC p) Hin) as Hprog.
  pose proof (s4_rinv _ _ _ _ HP) as HR2. destruct (RInv2_R' _ _ HR2) as (HX & HPI & HF).
  pose proof (HPI p Hprog) as HinT.
  destruct (x_tgt _ _ HX p HinT) as (Hne & _ & _).
  destruct p as [|n d]; [contradiction|].
  pose proof (c4_nodir _ _ _ _ HC _ Hin) as Hnd.
  pose proof (sim3_dir_disk _ _ _ _ (s4_sim _ _ _ _ HP) (s4_kneed _ _ _ _ HP _ HinT)) as Hd. cbn [dirname tl] in Hd.
  unfold tgtP, tgt_ok in Htg. apply andb_true_iff in Htg. destruct Htg as [Hok _].
  cbn [path_ok forallb] in Hok. apply andb_true_iff in Hok. destruct Hok as [Hn _].
  unfold write_file. unfold isdir in Hnd.
  destruct (lookup (w_fs w) (n :: d)) as [[f|]|]; [eauto|discriminate|]. rewrite Hd, Hn. eauto.
Qed.

Lemma sim4_write : forall st pend T W w s p c fs',
  Sim4 T W w s -> Ctx4 st (Some p) pend w ->
  write_file (w_fs w) p c None (N.succ (w_clock w)) (w_nextid w) = inl fs' ->
  let w' := set_clock (N.succ (w_clock w)) (N.succ (w_nextid w)) (set_fs fs' w) in
  Sim4 T W w' (ktick s) /\ Ctx4 st (Some p) (Some c) w' /\ frame4 st (Some p) w w'.
Proof.
  intros st pend T W w s p c fs' [[HP HL] [HI [HK HWb]]] HC Ew w'.
  destruct (c4_tg _ _ _ _ HC p eq_refl) as [Hin Htg].
  pose proof (proj2 (c4_prog _ _ _ _ HC p) Hin) as Hprog.
  pose proof (s4_rinv _ _ _ _ HP) as HR2. pose proof (RInv2_R' _ _ HR2) as HR. destruct HR as (HX & HPI & HF).
  pose proof (HPI p Hprog) as HinT.
  destruct (sim3_write T W w s p c fs' (s4_sim _ _ _ _ HP) (RInv2_R' _ _ HR2) HinT Hprog Ew) as (HS' & HR' & Hpend).
  fold w' in HS', HR', Hpend.
  destruct (write_file_frame _ _ _ _ _ _ _ Ew) as [[f [Hf _]] Hoth].
  destruct (c4_tsa _ _ _ _ HC p eq_refl) as [Tp Tn].
  split; [|split].
  - split; [split|split; [|split]].
    + destruct HP as [P1 P2 P5 P6 P7 P8 P9 P10 P11 P12 P13 P14].
      constructor; try assumption.
      apply (write_RInv2 _ T w p c fs' HR2 HinT (tgtP_len _ Htg) Ew).
    + exact HL.
    + apply (write_keeps_HInv w p c fs' Ew HI). intros h E. rewrite (pending_has_file _ _ Tp) in E. exfalso. exact (Tn h E).
    + exact HK.
    + exact HWb.
  - destruct HC as [C1 C2 C3 C4 C5]. constructor.
    + exact C1.
    + exact C2.
    + exact Hpend.
    + intros y Hy. cbn [w' w_fs set_clock set_fs]. destruct (list_eq_dec string_dec y p) as [->|Hne].
      * unfold isdir. rewrite Hf. reflexivity.
      * unfold isdir. rewrite (Hoth y Hne). apply C4. exact Hy.
    + intros t Et. inversion Et; subst t. split; [exact Tp|exact Tn].
  - intros y Hy Hn. cbn [w' w_fs set_clock set_fs]. apply Hoth. intro E. subst y. apply Hn. reflexivity.
Qed.

(* ------------------------------------------------------------------ the induction *)
Section Run.
  Variable ok : cache -> Prop.
  Hypothesis HBF : bf_node_statement_for ok.
  Hypothesis HSB : sb_node_statement_for ok.

  Theorem sim4_run : forall pr old, ok old ->
    AllTargets tgtP pr -> QueriesOk pr -> WfArgs pr -> TargetsClear old pr -> TargetsApart old pr ->
    forall st, NoNest st pr ->
    forall tg pend subs subs' T W w s w' r l s' r' pend' l',
      w_old w = old -> Sim4 T W w s -> Ctx4 st tg pend w -> recs_rel subs subs' ->
      run pr tg subs w = (w', (r, l)) -> core_run pr tg pend subs' s = (s', (r', pend', l')) ->
      run_post st tg W w w' r l s' r' pend' l'.
  Proof.
    intros pr old Hok.
    induction pr as [v | e | stale q k IH | c k IH | stale p c f a kw fn IHfn k IHk | stale f a kw fn IHfn k IHk];
      intros Hat Hqk Hwa Hcl Hap st Hnn tg pend subs subs' T W w s w' r l s' r' pend' l' Hold HS HC Hsubs H1 H2; subst old.
    - cbn [run core_run] in H1, H2. inversion H1; inversion H2; subst.
      exists T, W. split; [exact HS|]. split; [exact HC|]. split; [apply frame4_refl|].
      split; [reflexivity|]. split; [exact Hsubs|]. split; [apply Wincl_refl|reflexivity].
    - cbn [run core_run] in H1, H2. inversion H1; inversion H2; subst.
      exists T, W. split; [exact HS|]. split; [exact HC|]. split; [apply frame4_refl|].
      split; [reflexivity|]. split; [exact Hsubs|]. split; [apply Wincl_refl|reflexivity].
    - (* Ask *)
      inversion Hat as [| |s0 q0 k0 Hat'| | |]; subst. inversion Hqk as [| |s0 q0 k0 Hp Hread Hqk'| | |]; subst.
      inversion Hwa as [| |s0 q0 k0 Hwa'| | |]; subst. unfold TargetsClear, TargetsApart in Hcl, Hap.
      inversion Hcl as [| |s0 q0 k0 Hcl'| | |]; subst. inversion Hap as [| |s0 q0 k0 Hap'| | |]; subst.
      inversion Hnn as [| |st0 s0 q0 k0 Hnn'| | |]; subst.
      rewrite core_run_Ask in H2. cbn [run] in H1.
      destruct stale.
      { apply (IH (inr (XRuntime RFinished)) (Hat' _) (Hqk' _) (Hwa' _) (Hcl' _) (Hap' _) st (Hnn' _) tg pend subs subs' T W w s w' r l s' r' pend' l' eq_refl HS HC Hsubs H1 H2). }
      destruct (m_query q w) as [w1 [r1 o]] eqn:E.
      destruct (sim4_query st tg pend T W w s q w1 r1 o HS HC Hp Hread E) as (Ho & Hua & HS2 & HC2 & Hfs & Hold2).
      destruct Ho as [o' [-> Hrec]]. rewrite Hua in H1. cbv zeta in H2.
      assert (Hsubs2: recs_rel (Run.app_op subs (Some o')) (subs' ++ [record_of q (record_answer (k_fs s) q)])).
      { cbn [Run.app_op]. apply recs_rel_app1; assumption. }
      assert (Hstep: forall ua,
                (match spec_answer (k_fs s) q with inl v => inl v | inr c0 => inr (XOS c0) end) = ua ->
                core_run (k ua) tg pend (subs' ++ [record_of q (record_answer (k_fs s) q)]) (klog (LAnswer q (spec_answer (k_fs s) q)) s) = (s', (r', pend', l')) ->
                run_post st tg W w w' r l s' r' pend' l').
      { intros ua Eua X2. rewrite Eua in H1, HS2, HC2, Hfs, Hold2.
        destruct (IH ua (Hat' ua) (Hqk' ua) (Hwa' ua) (Hcl' ua) (Hap' ua) st (Hnn' ua) tg pend _ _ T W _ _ w' r l s' r' pend' l'
                     Hold2 HS2 HC2 Hsubs2 H1 X2) as (T' & W' & A1 & A2 & A3 & A4 & A5 & A6 & A7).
        exists T', W'. split; [exact A1|]. split; [exact A2|]. split.
        - intros y Hy Hn. rewrite (A3 y Hy Hn). rewrite Hfs. reflexivity.
        - split; [exact A4|]. split; [exact A5|]. split; [exact A6|]. congruence. }
      destruct (spec_answer (k_fs s) q) as [v|c0] eqn:Esp.
      + apply (Hstep (inl v) eq_refl H2).
      + apply (Hstep (inr (XOS c0)) eq_refl H2).
    - (* Write *)
      inversion Hat as [| | |c0 k0 Hat'| |]; subst. inversion Hqk as [| | |c0 k0 Hqk'| |]; subst.
      inversion Hwa as [| | |c0 k0 Hwa'| |]; subst. unfold TargetsClear, TargetsApart in Hcl, Hap.
      inversion Hcl as [| | |c0 k0 Hcl'| |]; subst. inversion Hap as [| | |c0 k0 Hap'| |]; subst.
      inversion Hnn as [| | |st0 c0 k0 Hnn'| |]; subst.
      rewrite core_run_Write in H2. cbn [run] in H1.
      destruct tg as [p|]; [|apply (IH Hat' Hqk' Hwa' Hcl' Hap' st Hnn' None pend subs subs' T W w s w' r l s' r' pend' l' eq_refl HS HC Hsubs H1 H2)].
      destruct (c4_tg _ _ _ _ HC p eq_refl) as [Hin Htg].
      assert (Hpok: path_ok p = true) by (unfold tgtP, tgt_ok in Htg; apply andb_true_iff in Htg; apply Htg).
      rewrite Hpok in H2.
      destruct (write_succeeds st pend T W w s p c HS HC) as [fs' Ew]. rewrite Ew in H1.
      destruct (sim4_write st pend T W w s p c fs' HS HC Ew) as (HS2 & HC2 & Hfr).
      destruct (IH Hat' Hqk' Hwa' Hcl' Hap' st Hnn' (Some p) (Some c) subs subs' T W
                   (set_clock (N.succ (w_clock w)) (N.succ (w_nextid w)) (set_fs fs' w)) (ktick s) w' r l s' r' pend' l'
                   eq_refl HS2 HC2 Hsubs H1 H2) as (T' & W' & A1 & A2 & A3 & A4 & A5 & A6 & A7).
      exists T', W'. split; [exact A1|]. split; [exact A2|]. split; [eapply frame4_trans; eassumption|].
      split; [exact A4|]. split; [exact A5|]. split; [exact A6|exact A7].
    - (* BuildFile *)
      inversion Hat as [| | | |s0 p0 c0 f0 a0 kw0 fn0 k0 Hp Hatf Hatk|]; subst.
      inversion Hqk as [| | | |s0 p0 c0 f0 a0 kw0 fn0 k0 Hqf Hqkk|]; subst.
      inversion Hwa as [| | | |s0 p0 c0 f0 a0 kw0 fn0 k0 Hwf Hwk|]; subst.
      unfold TargetsClear, TargetsApart in Hcl, Hap.
      inversion Hcl as [| | | |s0 p0 c0 f0 a0 kw0 fn0 k0 Hclp Hclf Hclk|]; subst.
      inversion Hap as [| | | |s0 p0 c0 f0 a0 kw0 fn0 k0 Happ Hapf Hapk|]; subst.
      inversion Hnn as [| | | |st0 s0 p0 c0 f0 a0 kw0 fn0 k0 Hnp Hnf Hnk|]; subst.
      destruct stale.
      { cbn [run core_run] in H1, H2.
        apply (IHk (inr (XRuntime RFinished)) (Hatk _) (Hqkk _) (Hwk _) (Hclk _) (Hapk _) st (Hnk _) tg pend subs subs' T W w s w' r l s' r' pend' l' eq_refl HS HC Hsubs H1 H2). }
      cbn [run] in H1. rewrite core_run_BF_node in H2.
      match type of H1 with (let '(_, _) := ?X in _) = _ => destruct X as [w1 [r1 o]] eqn:E1 end.
      destruct (core_bf_node p c f a kw (fun sa skw => core_run (fn p sa skw) (Some p) None []) s) as [s1 [r1' o']] eqn:E2.
      assert (Hbody: bf_body_ok st (w_old w) p (fn p)).
      { intros sa skw T0 W0 w0 s0 w3 res l3 s3 res' pend3 l3' Ho0 HS0 HC0 X1 X2.
        apply (IHfn p sa skw (Hatf p sa skw) (Hqf p sa skw) (Hwf p sa skw) (Hclf p sa skw) (Hapf p sa skw) (p :: st) (Hnf p sa skw)
                    (Some p) None [] [] T0 W0 w0 s0 w3 res l3 s3 res' pend3 l3'); auto. exact I. }
      assert (Hconds: tgt_conds st (w_old w) p) by (repeat split; assumption).
      destruct (HBF st p c f a kw fn T W w s tg pend w1 r1 o Hok Hconds Hbody HS HC E1 s1 r1' o' E2)
        as (T1 & W1 & B1 & B2 & B3 & B4 & B5 & B6 & B7).
      subst r1'.
      destruct (IHk r1 (Hatk r1) (Hqkk r1) (Hwk r1) (Hclk r1) (Hapk r1) st (Hnk r1) tg pend _ _ T1 W1 w1 s1 w' r l s' r' pend' l'
                    B7 B1 B2 (recs_rel_app_op _ _ _ _ Hsubs B5) H1 H2) as (T' & W' & A1 & A2 & A3 & A4 & A5 & A6 & A7).
      exists T', W'. split; [exact A1|]. split; [exact A2|]. split.
      + intros y Hy Hn. rewrite (A3 y Hy Hn). apply B3. exact Hy.
      + split; [exact A4|]. split; [exact A5|]. split; [eapply Wincl_trans; eassumption|]. congruence.
    - (* Subbuild *)
      inversion Hat as [| | | | |s0 f0 a0 kw0 fn0 k0 Hatf Hatk]; subst.
      inversion Hqk as [| | | | |s0 f0 a0 kw0 fn0 k0 Hqf Hqkk]; subst.
      inversion Hwa as [| | | | |s0 f0 a0 kw0 fn0 k0 Hwa1 Hwa2 Hwf Hwk]; subst.
      unfold TargetsClear, TargetsApart in Hcl, Hap.
      inversion Hcl as [| | | | |s0 f0 a0 kw0 fn0 k0 Hclf Hclk]; subst.
      inversion Hap as [| | | | |s0 f0 a0 kw0 fn0 k0 Hapf Hapk]; subst.
      inversion Hnn as [| | | | |st0 s0 f0 a0 kw0 fn0 k0 Hnf Hnk]; subst.
      destruct stale.
      { cbn [run core_run] in H1, H2.
        apply (IHk (inr (XRuntime RFinished)) (Hatk _) (Hqkk _) (Hwk _) (Hclk _) (Hapk _) st (Hnk _) tg pend subs subs' T W w s w' r l s' r' pend' l' eq_refl HS HC Hsubs H1 H2). }
      cbn [run] in H1. rewrite core_run_SB_node in H2.
      match type of H1 with (let '(_, _) := ?X in _) = _ => destruct X as [w1 [r1 o]] eqn:E1 end.
      destruct (core_sb_node f a kw (fun sa skw => core_run (fn sa skw) None None []) s) as [s1 [r1' o']] eqn:E2.
      assert (Hbody: sb_body_ok st (w_old w) fn).
      { intros sa skw T0 W0 w0 s0 w3 res l3 s3 res' pend3 l3' Ho0 HS0 HC0 X1 X2.
        apply (IHfn sa skw (Hatf sa skw) (Hqf sa skw) (Hwf sa skw) (Hclf sa skw) (Hapf sa skw) st (Hnf sa skw)
                    None None [] [] T0 W0 w0 s0 w3 res l3 s3 res' pend3 l3'); auto. exact I. }
      destruct (HSB st f a kw fn T W w s tg pend w1 r1 o Hok Hwa1 Hwa2 Hbody HS HC E1 s1 r1' o' E2)
        as (T1 & W1 & B1 & B2 & B3 & B4 & B5 & B6 & B7).
      subst r1'.
      destruct (IHk r1 (Hatk r1) (Hqkk r1) (Hwk r1) (Hclk r1) (Hapk r1) st (Hnk r1) tg pend _ _ T1 W1 w1 s1 w' r l s' r' pend' l'
                    B7 B1 B2 (recs_rel_app_op _ _ _ _ Hsubs B5) H1 H2) as (T' & W' & A1 & A2 & A3 & A4 & A5 & A6 & A7).
      exists T', W'. split; [exact A1|]. split; [exact A2|]. split.
      + intros y Hy Hn. rewrite (A3 y Hy Hn). apply B3. exact Hy.
      + split; [exact A4|]. split; [exact A5|]. split; [eapply Wincl_trans; eassumption|]. congruence.
  Qed.
End Run.

Print Assumptions sim4_run.
