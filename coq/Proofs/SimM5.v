(* Proofs/SimM5.v — the cache-file hypotheses of SimJ10.mech_commit3_hash.
   mech_commit3_hash assumes three facts about the place of the cache file:
     (a) path_ok (dirname cachefile) = true,
     (b) isdir (w_fs w) cachefile = false,
     (c) vdir (start_world ...) (dirname cachefile) = true   (its directory is visible in the view).
   PROVED here:
     run_build_cf_nodir          a build that commits did not find a directory at the cache file: (b);
     mech_commit3_hash_partial   mech_commit3_hash without (b).
   NOT provable as stated: dropping (c) makes the conclusion false at the proper ancestors of the
   cache file (SimMEx.v, by evaluation: cache file k1/k2/cache.gz, program = one failing
   build_file call of k1/k2/x; the build commits, the outcome is the reference outcome, the
   mechanism's tree has the directories k1, k1/k2 -- they hold the cache file -- and the
   reference tree has not: the reference made them for the cache file (r_made) and removes them
   when the call fails, its tree never holds a cache file).  This happens on a first build (the
   directories do not exist) and on a rebuild (they are recorded, hence dead in the view).
     mech_commit3_hash_anycf_statement        (a),(b),(c) dropped: refuted by evaluation on the
                                              decidable hypotheses, SimMEx.anycf_refuted_*
     mech_commit3_hash_anycf_weak_statement   the same with the conclusion restricted to paths
                                              that are not proper ancestors of the cache file:
                                              holds on the histories of SimMEx; open.  A proof needs
                                              Core's start state with the reference's made
                                              directories (ViewK4.core_start has k_made = [], k_fs =
                                              ref_clean ...: SimAStart.sim4_start, ViewK4.sim3_start,
                                              ViewK1 BInv_root_entry all use (a) and (c)), and
                                              SimD1.Committed / accept_committed for any ccd
                                              (SimI1's entry theorems give RInv2 for any ccd).   *)
From Coq Require Import List String Ascii NArith ZArith Bool Arith Lia.
From FB.Base Require Import PyVal Fs.
From FB.Gen Require Import JsonUtilGen.
From FB.Spec Require Import JsonSpec Prog Ref Oracle Faithful.
From FB.Model Require Import Types Monad CreatedFiles BuildDirs SimpleOps Builder Persist Build Run Frame Core CoreOracle.
From FB.Proofs Require Import FsLemmas JsonLaws BuildFileLaws HashMemoInv CoreLaws1 CoreLaws2 CoreLaws6
     ViewDefs ViewLemmas ViewInit ViewXDefs ViewXFail ViewR2 ViewR3 ViewK3 ViewK4 ViewK8 SimA0 SimAMain SimC0 SimC12 SimC13 SimC15.
From FB.Proofs Require Import ReplayLaws RollbackLaws RollbackDirsLaws RollbackDirsBase RollbackDirsInv RollbackDirsMain
     CommitDirsInv CommitDirsMain CommitDirs2FileMain CommitDirs2Y CommitDirs3Run CommitDirs3Main SimD1 SimD2 SimD3 SimD4 SimD8 SimD9.
From FB.Proofs Require Import FrameLaws CleanLaws RollbackDirsLaws
  RollbackDirsView RollbackDirsBase RollbackDirsInv RollbackDirsMake RollbackDirsRun
  RollbackDirsMain CommitDirsInv CommitDirsRun CommitDirsMain
  CommitDirs2Y CommitDirs2Bd CommitDirs2Step CommitDirs2Run CommitDirs2Main CommitDirs3Adopt CommitDirs3Run SimE1 SimE2 SimG1 SimG2 SimG3 SimG5 SimJ4 SimJ9.
From FB.Proofs Require Import SimJ10.
Import ListNotations.
Open Scope list_scope.

Lemma run_build_cf_nodir : forall cf nm vers svers root w w' v,
  sanitize vers = Some svers -> run_build cf nm vers root w = (w', Done (inl v)) ->
  isdir (w_fs w) cf = false.
Proof.
  intros cf nm vers svers root w w' v Hsv H.
  destruct (isdir (w_fs w) cf) eqn:E; [|reflexivity]. exfalso.
  apply isdir_lookup in E. unfold run_build in H.
  destruct (m_build cf nm vers (fun w0 => run root None [] w0) w) as [w1 r1] eqn:E1.
  inversion H; subst w' r1; clear H.
  rewrite RollbackDirsLaws.m_build_unfold, Hsv in E1. rewrite E in E1. discriminate E1.
Qed.

Theorem mech_commit3_hash_partial : forall (kp : kappa) (F : ftable) w cachefile nm vers svers root (P : path -> Prop) w' v,
  let old := old_cache_of (w_fs w) cachefile nm svers in
  let rr := ref_build (w_fs w) cachefile (prev_of_cache old) (w_clock w) (w_nextid w) root in
  sanitize vers = Some svers ->
  Obeys F root -> Respects F ->
  kp_init kp (w_fs w) -> kp_new kp (w_clock w) ->
  cache_wf old -> faithful_cache kp F old svers -> okcH (w_clock w) old ->
  old_ok old cachefile -> WfCache old -> cache_created_file old cachefile = false ->
  fs_wf (w_fs w) -> w_faults w = [] ->
  path_ok (dirname cachefile) = true -> maxlen (w_fs w) < walk_fuel ->
  vdir (Build.start_world w cachefile old nm svers) (dirname cachefile) = true ->
  AllTargets tgtP root -> NoNest [] root -> QueriesOkP root -> WfArgs root ->
  TargetsClear old root -> TargetsApart old root ->
  AllTargets P root -> (forall p, P p -> tgtP p) ->
  (forall a t, (P t \/ t = cachefile \/ In t (cache_targets old)) ->
     below a t = true -> (forall f, lookup (w_fs w) a <> Some (NFile f)) /\ ~ P a) ->
  (forall d, In d (c_dirs old) -> path_ok d = true) ->
  run_build cachefile nm vers root w = (w', Done (inl v)) ->
  rr_outcome rr = inl v /\
  forall p, p <> cachefile -> node_equiv (lookup (w_fs w') p) (lookup (rr_tree rr) p).
Proof.
  intros kp F w cachefile nm vers svers root P w' v old rr Hsv HO HR HI HN HCw HF HokcH Hok HW Hcfo Hwf Hfa Hp Hml Hd
         Hat Hnn Hqk Hwa Hcl Hap HatP HPt HA HE H.
  exact (mech_commit3_hash kp F w cachefile nm vers svers root P w' v Hsv HO HR HI HN HCw HF HokcH Hok HW Hcfo Hwf Hfa Hp
           (run_build_cf_nodir cachefile nm vers svers root w w' v Hsv H) Hml Hd
           Hat Hnn Hqk Hwa Hcl Hap HatP HPt HA HE H).
Qed.

(* (a), (b), (c) dropped, conclusion unchanged: false at the proper ancestors of the cache file
   (SimMEx.v) *)
Definition mech_commit3_hash_anycf_statement : Prop :=
  forall (kp : kappa) (F : ftable) w cachefile nm vers svers root (P : path -> Prop) w' v,
  let old := old_cache_of (w_fs w) cachefile nm svers in
  let rr := ref_build (w_fs w) cachefile (prev_of_cache old) (w_clock w) (w_nextid w) root in
  sanitize vers = Some svers ->
  Obeys F root -> Respects F ->
  kp_init kp (w_fs w) -> kp_new kp (w_clock w) ->
  cache_wf old -> faithful_cache kp F old svers -> okcH (w_clock w) old ->
  old_ok old cachefile -> WfCache old -> cache_created_file old cachefile = false ->
  fs_wf (w_fs w) -> w_faults w = [] -> maxlen (w_fs w) < walk_fuel ->
  AllTargets tgtP root -> NoNest [] root -> QueriesOkP root -> WfArgs root ->
  TargetsClear old root -> TargetsApart old root ->
  AllTargets P root -> (forall p, P p -> tgtP p) ->
  (forall a t, (P t \/ t = cachefile \/ In t (cache_targets old)) ->
     below a t = true -> (forall f, lookup (w_fs w) a <> Some (NFile f)) /\ ~ P a) ->
  (forall d, In d (c_dirs old) -> path_ok d = true) ->
  run_build cachefile nm vers root w = (w', Done (inl v)) ->
  rr_outcome rr = inl v /\
  forall p, p <> cachefile -> node_equiv (lookup (w_fs w') p) (lookup (rr_tree rr) p).

(* the same, the trees compared away from the cache file and its proper ancestors *)
Definition mech_commit3_hash_anycf_weak_statement : Prop :=
  forall (kp : kappa) (F : ftable) w cachefile nm vers svers root (P : path -> Prop) w' v,
  let old := old_cache_of (w_fs w) cachefile nm svers in
  let rr := ref_build (w_fs w) cachefile (prev_of_cache old) (w_clock w) (w_nextid w) root in
  sanitize vers = Some svers ->
  Obeys F root -> Respects F ->
  kp_init kp (w_fs w) -> kp_new kp (w_clock w) ->
  cache_wf old -> faithful_cache kp F old svers -> okcH (w_clock w) old ->
  old_ok old cachefile -> WfCache old -> cache_created_file old cachefile = false ->
  fs_wf (w_fs w) -> w_faults w = [] -> maxlen (w_fs w) < walk_fuel ->
  AllTargets tgtP root -> NoNest [] root -> QueriesOkP root -> WfArgs root ->
  TargetsClear old root -> TargetsApart old root ->
  AllTargets P root -> (forall p, P p -> tgtP p) ->
  (forall a t, (P t \/ t = cachefile \/ In t (cache_targets old)) ->
     below a t = true -> (forall f, lookup (w_fs w) a <> Some (NFile f)) /\ ~ P a) ->
  (forall d, In d (c_dirs old) -> path_ok d = true) ->
  run_build cachefile nm vers root w = (w', Done (inl v)) ->
  rr_outcome rr = inl v /\
  forall p, p <> cachefile -> below p cachefile = false ->
    node_equiv (lookup (w_fs w') p) (lookup (rr_tree rr) p).

Print Assumptions run_build_cf_nodir.
Print Assumptions mech_commit3_hash_partial.
