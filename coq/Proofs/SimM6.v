(* Proofs/SimM6.v — successive committed builds of the mechanism model, programs free to compare
   by HASH (SimF8 with the class okcH of SimJ4, SimJ10.mech_commit3_hash, SimM3.okcH_next_closed,
   SimM4.okcH_readback / new_cache_wfH).
   [mech_stepH]: a committed build whose previous cache is in okcH, well formed and of the shape
   of Faithful.cache_wf hands these properties (and "the cache file is not an output") on to the
   cache that the next build reads, provided that cache is entry by entry the normal form of the
   cache the build wrote (SimF8.ReadBack, per-build hypothesis SimF8.link).
   [mech_chain_hash_partial]: along a chain of builds that starts without a cache file, every
   build returns the value of the reference build and leaves its tree.  Per build, still assumed
   about the previous cache: Faithful.faithful_cache, ViewInit.old_ok and [link] (the missing
   parts: [mech_readback_hash_statement], [mech_next_cache_hash_statement]).
   SimF8's bstep, b_old, good, link, ReadBack are reused; SideH = SimF8.Side with QueriesOkP
   (SimG5) in place of QueriesOk, without CmpMeta and without "the cache file is not a directory"
   (SimM5.run_build_cf_nodir: a build that commits did not find one). *)
From Coq Require Import List String Ascii NArith ZArith Bool Arith Lia.
From FB.Base Require Import PyVal Fs.
From FB.Gen Require Import JsonUtilGen.
From FB.Spec Require Import JsonSpec Prog Ref Oracle Faithful.
From FB.Model Require Import Types Monad CreatedFiles BuildDirs SimpleOps Builder Persist PersistSpec Build Run Frame Core CoreOracle.
From FB.Proofs Require Import FsLemmas JsonLaws BuildFileLaws HashMemoInv CoreLaws1 CoreLaws2 CoreLaws6
     ViewDefs ViewLemmas ViewInit ViewXDefs ViewXFail ViewR2 ViewR3 ViewR8 ViewK3 ViewK4 ViewK8 SimA0 SimAMain SimB7 SimC0 SimC12 SimC13 SimC14 SimC15.
From FB.Proofs Require Import ReplayLaws RollbackLaws RollbackDirsLaws RollbackDirsBase RollbackDirsInv RollbackDirsMain
     CommitDirsInv CommitDirsMain CommitDirs2FileMain CommitDirs2Y CommitDirs3Run CommitDirs3Main SimD1 SimD2 SimD3 SimD4 SimD5 SimD6 SimD7 SimD8 SimD9.
From FB.Proofs Require Import SimE3 SimF1 SimF6 SimF7 SimF8 SimF9 SimG5 SimJ4 SimJ9 SimJ10 SimJ12 SimJ13 SimM3 SimM4 SimM5.
Import ListNotations.
Open Scope list_scope.

(* the hypotheses of SimE3.mech_commit3_hash other than okcH / WfCache / cache_wf / "cf is not an output"
   of the previous cache, the two syntactic conditions and the two time conditions of
   SimF6.okcH_next_closed, and the build *)
Record SideH (cf : path) (nm : string) (b : bstep) : Prop := {
  sh_vers : sanitize (b_vers b) = Some (b_svers b);
  sh_obeys : Obeys (b_F b) (b_root b);
  sh_resp : Respects (b_F b);
  sh_init : kp_init (b_kp b) (w_fs (b_w b));
  sh_new : kp_new (b_kp b) (w_clock (b_w b));
  (* the previous cache: what is still assumed *)
  sh_faith : faithful_cache (b_kp b) (b_F b) (b_old cf nm b) (b_svers b);
  sh_ok : old_ok (b_old cf nm b) cf;
  (* the world *)
  sh_wf : fs_wf (w_fs (b_w b));
  sh_faults : w_faults (b_w b) = [];
  sh_pok : path_ok (dirname cf) = true;
  sh_len : maxlen (w_fs (b_w b)) < walk_fuel;
  sh_vdir : vdir (Build.start_world (b_w b) cf (b_old cf nm b) nm (b_svers b)) (dirname cf) = true;
  sh_old : forall p f, lookup (w_fs (b_w b)) p = Some (NFile f) -> (f_mtime f <= w_clock (b_w b))%N;
  (* the program *)
  sh_at : AllTargets tgtP (b_root b);
  sh_nn : NoNest [] (b_root b);
  sh_qk : QueriesOkP (b_root b);
  sh_wa : WfArgs (b_root b);
  sh_cl : TargetsClear (b_old cf nm b) (b_root b);
  sh_ap : TargetsApart (b_old cf nm b) (b_root b);
  sh_rk : RkNew (b_old cf nm b) [] (b_root b);
  sh_nc : NoCatch (b_root b);
  (* the targets *)
  sh_atP : AllTargets (b_P b) (b_root b);
  sh_Pt : forall p, b_P b p -> tgtP p;
  sh_below : forall a t, (b_P b t \/ t = cf \/ In t (cache_targets (b_old cf nm b))) ->
     below a t = true -> (forall f, lookup (w_fs (b_w b)) a <> Some (NFile f)) /\ ~ b_P b a;
  sh_dirs : forall d, In d (c_dirs (b_old cf nm b)) -> path_ok d = true;
  (* the build commits *)
  sh_run : run_build cf nm (b_vers b) (b_root b) (b_w b) = (b_w' b, Done (inl (b_v b)))
}.

(* what a build hands on to the next *)
Definition CacheOkH (cf : path) (nm : string) (b : bstep) : Prop :=
  okcH (w_clock (b_w b)) (b_old cf nm b) /\ WfCache (b_old cf nm b) /\
  cache_wf (b_old cf nm b) /\ cache_created_file (b_old cf nm b) cf = false.

Theorem side_goodH : forall cf nm b, SideH cf nm b -> CacheOkH cf nm b -> good cf nm b.
Proof.
  intros cf nm b S (Hokc & HW & Hcwf & Hcfo). unfold good.
  exact (mech_commit3_hash (b_kp b) (b_F b) (b_w b) cf nm (b_vers b) (b_svers b) (b_root b) (b_P b) (b_w' b) (b_v b)
           (sh_vers _ _ _ S) (sh_obeys _ _ _ S) (sh_resp _ _ _ S) (sh_init _ _ _ S) (sh_new _ _ _ S)
           Hcwf (sh_faith _ _ _ S) Hokc (sh_ok _ _ _ S) HW Hcfo
           (sh_wf _ _ _ S) (sh_faults _ _ _ S) (sh_pok _ _ _ S) (run_build_cf_nodir _ _ _ _ _ _ _ _ (sh_vers _ _ _ S) (sh_run _ _ _ S)) (sh_len _ _ _ S) (sh_vdir _ _ _ S)
           (sh_at _ _ _ S) (sh_nn _ _ _ S) (sh_qk _ _ _ S) (sh_wa _ _ _ S) (sh_cl _ _ _ S) (sh_ap _ _ _ S)
           (sh_atP _ _ _ S) (sh_Pt _ _ _ S) (sh_below _ _ _ S) (sh_dirs _ _ _ S) (sh_run _ _ _ S)).
Qed.

Theorem mech_stepH : forall cf nm b b',
  SideH cf nm b -> CacheOkH cf nm b -> link cf nm b b' -> CacheOkH cf nm b'.
Proof.
  intros cf nm b b' S (Hokc & HW & _ & _) [Hclk Hlink].
  destruct (run_build_committed cf nm (b_vers b) (b_svers b) (b_root b) (b_w b) (b_w' b) (b_v b) (b_P b)
              (sh_faults _ _ _ S) (sh_vers _ _ _ S) (sh_atP _ _ _ S) (sh_wf _ _ _ S) (sh_below _ _ _ S) (sh_dirs _ _ _ S)
              HW (sh_ok _ _ _ S) (sh_Pt _ _ _ S) (run_build_cf_nodir _ _ _ _ _ _ _ _ (sh_vers _ _ _ S) (sh_run _ _ _ S)) (sh_len _ _ _ S) (sh_pok _ _ _ S) (sh_vdir _ _ _ S) (sh_run _ _ _ S))
    as (wfin & w1 & w2 & x & _ & HC).
  pose proof (cm_mk _ _ _ _ _ _ _ _ _ _ _ _ _ HC) as Emk. pose proof (cm_run _ _ _ _ _ _ _ _ _ _ _ _ _ HC) as Erun.
  fold (b_old cf nm b) in Emk.
  pose proof (Hlink w1 w2 x Emk Erun) as RB.
  pose proof (run_build_run_clock cf nm (b_vers b) (b_svers b) (b_root b) (b_w b) (b_w' b) (b_v b) (sh_vers _ _ _ S) (sh_run _ _ _ S)
                w1 w2 [] (inl (b_v b)) x Emk Erun) as Hc2.
  assert (Hc1 : (w_clock w2 <= w_clock (b_w b'))%N) by (eapply N.le_trans; eassumption).
  pose proof (old_cache_keys_ok (w_fs (b_w b)) cf nm (b_svers b)) as HKo. fold (b_old cf nm b) in HKo.
  pose proof (okcH_next_closed (b_w b) cf (b_old cf nm b) nm (b_svers b) (b_root b) w1 w2 (b_v b) x (w_clock (b_w b'))
                Hokc (sh_wf _ _ _ S) (sh_ok _ _ _ S) HW HKo (sh_faults _ _ _ S) (sh_pok _ _ _ S) (run_build_cf_nodir _ _ _ _ _ _ _ _ (sh_vers _ _ _ S) (sh_run _ _ _ S)) (sh_len _ _ _ S)
                (sh_vdir _ _ _ S) (sh_at _ _ _ S) (sh_nn _ _ _ S) (sh_qk _ _ _ S) (sh_wa _ _ _ S) (sh_cl _ _ _ S) (sh_ap _ _ _ S)
                (sh_rk _ _ _ S) (sh_nc _ _ _ S) Emk Erun (sh_old _ _ _ S) Hc1) as Hnext.
  destruct (new_cache_rec_okH (b_w b) cf (b_old cf nm b) nm (b_svers b) (b_root b) w1 w2 (inl (b_v b)) x
                Hokc (sh_wf _ _ _ S) (sh_ok _ _ _ S) HW HKo (sh_faults _ _ _ S) (sh_pok _ _ _ S) (run_build_cf_nodir _ _ _ _ _ _ _ _ (sh_vers _ _ _ S) (sh_run _ _ _ S)) (sh_len _ _ _ S)
                (sh_vdir _ _ _ S) (sh_at _ _ _ S) (sh_nn _ _ _ S) (sh_qk _ _ _ S) (sh_wa _ _ _ S) (sh_cl _ _ _ S) (sh_ap _ _ _ S)
                (sh_rk _ _ _ S) Emk Erun) as (A1 & A2 & _).
  pose proof (new_cache_wfH (b_w b) cf (b_old cf nm b) nm (b_svers b) (b_root b) w1 w2 (b_v b) x
                Hokc (sh_wf _ _ _ S) (sh_ok _ _ _ S) HW HKo (sh_faults _ _ _ S) (sh_pok _ _ _ S) (run_build_cf_nodir _ _ _ _ _ _ _ _ (sh_vers _ _ _ S) (sh_run _ _ _ S)) (sh_len _ _ _ S)
                (sh_vdir _ _ _ S) (sh_at _ _ _ S) (sh_nn _ _ _ S) (sh_qk _ _ _ S) (sh_wa _ _ _ S) (sh_cl _ _ _ S) (sh_ap _ _ _ S)
                (sh_nc _ _ _ S) Emk Erun) as Hshape.
  assert (HWn : WfCache (w_new w2)).
  { split; [intros p rec Hg; exact (rec_ok_wfrec true rec _ (A1 p rec Hg))|intros k rec Hg; exact (rec_ok_wfrec true rec _ (A2 k rec Hg))]. }
  pose proof RB as (T1 & T2 & T3).
  destruct (cache_wf_readback cf _ _ T1 T3 Hshape) as [Hcwf Hcfo].
  split; [exact (okcH_readback _ _ _ T1 T2 T3 Hnext)|]. split; [exact (WfCache_readback _ _ RB HWn)|]. split; assumption.
Qed.

(* ------------------------------------------------------------------ the chainH *)
Fixpoint chainH (cf : path) (nm : string) (b : bstep) (l : list bstep) : Prop :=
  match l with
  | [] => True
  | b' :: r => link cf nm b b' /\ SideH cf nm b' /\ chainH cf nm b' r
  end.

Theorem mech_chain_fromH : forall cf nm l b,
  SideH cf nm b -> CacheOkH cf nm b -> chainH cf nm b l -> Forall (good cf nm) (b :: l).
Proof.
  intros cf nm l. induction l as [|b' r IH]; intros b S HC Hch.
  - constructor; [exact (side_goodH cf nm b S HC)|constructor].
  - destruct Hch as (Hl & S' & Hr). constructor; [exact (side_goodH cf nm b S HC)|].
    exact (IH b' S' (mech_stepH cf nm b b' S HC Hl) Hr).
Qed.

(* the first build finds no cache file *)
Theorem mech_chain_hash_partial : forall cf nm l b,
  lookup (w_fs (b_w b)) cf = None ->
  SideH cf nm b -> chainH cf nm b l -> Forall (good cf nm) (b :: l).
Proof.
  intros cf nm l b Hnone S Hch.
  assert (Eold : b_old cf nm b = empty_cache nm (b_svers b)) by (unfold b_old, old_cache_of; rewrite Hnone; reflexivity).
  apply (mech_chain_fromH cf nm l b S); [|exact Hch].
  unfold CacheOkH. rewrite Eold. split; [apply okcH_empty|]. split; [|split].
  - split; [intros p rec H0; discriminate|intros k rec H0; discriminate].
  - split; [intros p o H0; discriminate|intros k o H0; discriminate].
  - reflexivity.
Qed.

(* ------------------------------------------------------------------ what remains *)
(* (1) the cache file a committed build leaves is read back, by the next build, as the normal form
       of the cache at the end of the run of the root function (needs: CacheRTDefs.writable and
       tables_from_forest of the committed cache of the mechanism model, and the contents of the
       cache file after _commit: SimD1.Committed only says that there is a regular file) *)
Definition mech_readback_hash_statement : Prop :=
  forall cf nm b svers', SideH cf nm b -> CacheOkH cf nm b ->
    forall w1 w2 x,
      make_dirs (dirname cf) (Build.start_world (b_w b) cf (b_old cf nm b) nm (b_svers b)) = (w1, inl []) ->
      run (b_root b) None [] (set_log (LInvoke "<root>"%string None PNone PNone :: w_log w1) w1) = (w2, (inl (b_v b), x)) ->
      ReadBack (w_new w2) (old_cache_of (w_fs (b_w' b)) cf nm svers').

(* (2) the conditions on the previous cache that are still assumed per build: old_ok of the cache
       read back (its lists c_files / c_dirs: not determined by ReadBack), and faithful_cache for an
       oracle that knows the tree the build leaves (for Core: CoreNextThm.core_build_next, from
       deep_cache; nothing of the kind exists for the records of the mechanism model, whose
       recorded modification times differ from Core's) *)
Definition mech_next_cache_hash_statement : Prop :=
  forall cf nm b b', SideH cf nm b -> CacheOkH cf nm b -> link cf nm b b' ->
    w_fs (b_w b') = w_fs (b_w' b) -> b_F b' = b_F b ->
    old_ok (b_old cf nm b') cf /\
    exists kp', kp_init kp' (w_fs (b_w b')) /\ kp_new kp' (w_clock (b_w b')) /\
                faithful_cache kp' (b_F b') (b_old cf nm b') (b_svers b').

Print Assumptions mech_stepH.
Print Assumptions mech_chain_fromH.
Print Assumptions mech_chain_hash_partial.
