(* Proofs/ViewH5.v — C04, cache hits: adopting a validated record.  For a record that is
   [reusable] in the current world (ViewH4.v), _apply_cached_suboperations never fails, does
   not change the tree nor the claims, and keeps the invariant package RInv with the adopted
   targets as new live targets.  Needed besides RInv: the cache file path is not a
   directory (true along every build: a build is refused when it is, and nothing creates a
   directory there; it is not part of RInv). *)
From Coq Require Import List String Ascii NArith ZArith Bool Arith Lia.
From FB.Base Require Import PyVal Fs.
From FB.Gen Require Import JsonUtilGen.
From FB.Model Require Import Types Monad CreatedFiles BuildDirs SimpleOps Builder.
From FB.Proofs Require Import FsLemmas CleanLaws JsonLaws CoreLawsChildren ReplayLaws BuildFileLaws
     ViewDefs ViewLemmas ViewScan ViewQueries ViewAnswers ViewPres ViewFrame ViewPrepare
     ViewXDefs ViewXFrame ViewXQuery ViewXSteps ViewXMake1 ViewXMake2 ViewXFail ViewXSetup ViewH4.
Import ListNotations.
Open Scope list_scope.
Open Scope m_scope.

(* ------------------------------------------------------------------ _make_dirs above an existing file *)
Lemma dirs_to_make_existing : forall d T w w1 r, XInv T w ->
  (forall x, suffix x d -> isdir (w_fs w) x = true) -> isdir (w_fs w) (w_cachefile w) = false ->
  dirs_to_make d None w = (w1, r) -> exists ds, r = inl ds.
Proof.
  induction d as [|n d IH]; intros T w w1 r HX Hd Hcf H; cbn [dirs_to_make] in H.
  - destruct (m_is_dir_view w [] (x_binv _ _ HX) (or_introl eq_refl)) as [wa [E G]].
    rewrite (vdir_root _ (x_binv _ _ HX)) in E. unfold bind in H. rewrite E in H. cbn in H. inversion H. eauto.
  - assert (Hex: pok w (n :: d)).
    { right. unfold lexists. pose proof (Hd (n :: d) (suffix_refl _)) as K. apply isdir_lookup in K. rewrite K. reflexivity. }
    destruct (m_is_dir_view w (n :: d) (x_binv _ _ HX) Hex) as [wa [E G]].
    pose proof (qrel_XInv T w wa (m_is_dir_q _ _ _ _ _ E) HX) as HXa. pose proof (good_sv _ _ G) as Sa.
    apply bind_inv in H. rewrite E in H. destruct H as [[wb [isd [E0 H]]]|[e [E0 _]]]; [|discriminate].
    inversion E0; subst wb isd.
    apply bind_inv in H. destruct H as [[wb [isf [Ef H]]]|[e [Ef _]]].
    2:{ exfalso. destruct (vdir w (n :: d)); [discriminate|].
        destruct (m_is_file_view wa (n :: d) (x_binv _ _ HXa)) as [wc [E' _]]. rewrite E' in Ef. discriminate. }
    destruct (vdir w (n :: d)) eqn:Ev.
    + inversion Ef; subst. inversion H. eauto.
    + destruct (m_is_file_view wa (n :: d) (x_binv _ _ HXa)) as [wc [E' G']]. rewrite E' in Ef. inversion Ef; subst wc isf.
      pose proof (qrel_XInv T wa wb (m_is_file_q _ _ _ _ _ E') HXa) as HXb. pose proof (good_sv _ _ G') as Sb.
      assert (Hvf: vfile wa (n :: d) = false).
      { unfold vfile. rewrite (sv_fs _ _ Sa). unfold isfile. pose proof (Hd (n :: d) (suffix_refl _)) as K. apply isdir_lookup in K. rewrite K. reflexivity. }
      rewrite Hvf in H.
      apply bind_inv in H. destruct H as [[wc [icf [Ec H]]]|[e [Ec _]]]; [|discriminate].
      unfold is_cache_file in Ec. assert (wc = wb) by congruence. assert (icf = path_eqb (n :: d) (w_cachefile wb)) by congruence. subst wc icf.
      destruct (path_eqb (n :: d) (w_cachefile wb)) eqn:Ecf.
      { exfalso. apply path_eqb_eq in Ecf. rewrite (sv_cf _ _ Sb), (sv_cf _ _ Sa) in Ecf. rewrite <- Ecf in Hcf.
        rewrite (Hd (n :: d) (suffix_refl _)) in Hcf. discriminate. }
      apply bind_inv in H. destruct H as [[wd [rr [Er H]]]|[e [Er _]]].
      * inversion H. eauto.
      * exfalso. destruct (IH T wb w1 (inr e) HXb) as [ds Hds]; try exact Er; [| |discriminate].
        -- intros x Hx. rewrite (sv_fs _ _ Sb), (sv_fs _ _ Sa). apply Hd. apply suffix_cons. exact Hx.
        -- rewrite (sv_fs _ _ Sb), (sv_fs _ _ Sa), (sv_cf _ _ Sb), (sv_cf _ _ Sa). exact Hcf.
Qed.

Lemma make_one_dir_existing : forall q w w1 r, w_faults w = [] -> isdir (w_fs w) q = true ->
  make_one_dir q w = (w1, r) -> r = inl false /\ w_fs w1 = w_fs w /\ w_faults w1 = [].
Proof.
  intros q w w1 r HF Hd H. unfold make_one_dir in H. apply bind_inv in H. unfold get in H.
  destruct H as [[wa [w0 [E H]]]|[e [E _]]]; [|discriminate]. inversion E; subst wa w0.
  assert (Hnf: isfile (w_fs w) q = false).
  { unfold isfile. apply isdir_lookup in Hd. rewrite Hd. reflexivity. }
  rewrite Hnf in H. cbn [andb] in H. apply bind_inv in H.
  destruct H as [[wa [u [E1 H]]]|[e [E1 _]]]; [|discriminate]. inversion E1; subst wa u.
  unfold catch in H.
  destruct ((effect "mkdir" q (fun fs => mkdir fs q) ;;; ret true) w) as [wb [bb|e]] eqn:E2.
  - exfalso. apply bind_inv in E2. destruct E2 as [[wc [u' [E3 _]]]|[e [_ E4]]]; [|discriminate].
    destruct (effect_nofault_inv _ _ _ _ _ _ HF E3) as (_ & _ & [[fs' (R1 & _ & _)]|[e (_ & _ & R3)]]); [|discriminate].
    apply mkdir_frame in R1. destruct R1 as (_ & M2 & _). apply isdir_lookup in Hd. congruence.
  - apply bind_inv in E2. destruct E2 as [[wc [u' [_ E4]]]|[e' [E3 E4]]]; [discriminate|].
    inversion E4; subst e'.
    destruct (effect_nofault_inv _ _ _ _ _ _ HF E3) as (Fb & _ & [[fs' (_ & _ & R3)]|[er (R1 & R2 & R3)]]); [discriminate|].
    inversion R3; subst e.
    assert (er = EEXIST).
    { unfold mkdir in R1. destruct q as [|n d]; [inversion R1; reflexivity|]. apply isdir_lookup in Hd. rewrite Hd in R1. inversion R1. reflexivity. }
    subst er. cbn in H. inversion H; subst. auto.
Qed.

Lemma make_dirs_loop_existing : forall ds made w w1 r, w_faults w = [] ->
  (forall q, In q ds -> isdir (w_fs w) q = true) ->
  make_dirs_loop ds made w = (w1, r) -> r = inl tt /\ w_fs w1 = w_fs w.
Proof.
  induction ds as [|q ds IH]; intros made w w1 r HF Hd H; cbn [make_dirs_loop] in H.
  - inversion H; subst. auto.
  - apply bind_inv in H. destruct H as [[wa [res [E H]]]|[e [E _]]].
    2:{ unfold attempt in E. destruct (make_one_dir q w); discriminate. }
    unfold attempt in E. destruct (make_one_dir q w) as [wb rr] eqn:E1. inversion E; subst wb res.
    destruct (make_one_dir_existing _ _ _ _ HF (Hd q (or_introl eq_refl)) E1) as (R1 & R2 & R3). subst rr.
    destruct (IH _ _ _ _ R3 (fun x Hx => eq_trans (f_equal (fun f => isdir f x) R2) (Hd x (or_intror Hx))) H) as [A B].
    split; [exact A|congruence].
Qed.

Lemma make_dirs_existing : forall T n d w w1 r, RInv T w ->
  isfile (w_fs w) (n :: d) = true -> isdir (w_fs w) (w_cachefile w) = false ->
  make_dirs d w = (w1, r) -> exists ds, r = inl ds /\ w_fs w1 = w_fs w.
Proof.
  intros T n d w w1 r (HX & HP & HF) Hf Hcf H.
  assert (Hd: forall x, suffix x d -> isdir (w_fs w) x = true).
  { intros x Hx. apply isdir_lookup. apply isfile_lookup in Hf. destruct Hf as [g Hg].
    eapply wf_suffix_dir; [apply (bi_wf _ (x_binv _ _ HX))|apply (bi_wf _ (x_binv _ _ HX) _ _ Hg)|exact Hx]. }
  unfold make_dirs in H. apply bind_inv in H. destruct H as [[wa [ds [Eds H]]]|[e [Eds _]]].
  2:{ destruct (dirs_to_make_existing d T w w1 (inr e) HX Hd Hcf Eds) as [ds K]. discriminate. }
  pose proof (dirs_to_make_q _ _ _ _ _ Eds) as Q. destruct (qrel_facts _ _ _ HX Q) as (HXa & Sa & SVa & _).
  assert (HFa: w_faults wa = []).
  { destruct SVa as (_ & _ & _ & _ & _ & _ & _ & _ & _ & V & _). congruence. }
  apply bind_inv in H. destruct H as [[wb [u [El H]]]|[e [El _]]].
  - inversion H; subst. exists ds. split; [reflexivity|].
    destruct (make_dirs_loop_existing ds [] wa w1 (inl u) HFa) as [_ B]; [|exact El|rewrite B; apply (sv_fs _ _ Sa)].
    intros q Hq. rewrite (sv_fs _ _ Sa). apply Hd. eapply dirs_to_make_suffix; eassumption.
  - exfalso. destruct (make_dirs_loop_existing ds [] wa w1 (inr e) HFa) as [A _]; [|exact El|discriminate].
    intros q Hq. rewrite (sv_fs _ _ Sa). apply Hd. eapply dirs_to_make_suffix; eassumption.
Qed.

(* ------------------------------------------------------------------ adopting the record tree *)
(* the build_file nodes below the root that succeeded: their targets are adopted *)
Fixpoint adopted (o : op) : list path :=
  match o with
  | OSimple _ _ _ => []
  | OBuildFile p _ _ _ _ subs _ _ raised _ => (if raised then [] else [p]) ++ flat_map adopted subs
  | OSubbuild _ _ _ subs _ _ _ => flat_map adopted subs
  end.

Definition adopt_post (L : list path) (T : list path) (w w' : world) (r : unit + exn) : Prop :=
  r = inl tt /\ w_fs w' = w_fs w /\ w_new w' = w_new w /\ w_old w' = w_old w /\ w_cachefile w' = w_cachefile w /\
  exists T', RInv T' w' /\ msub T T' /\ forall q, In q L -> In q T'.

Definition adopt_go : list op -> M unit :=
  fix go (subs : list op) : M unit :=
    match subs with
    | [] => ret tt
    | s :: rest =>
        (match s with
         | OBuildFile p _ _ _ _ _ _ _ false _ =>
             created <- make_dirs (dirname p) ;;
             locked <- m_bd_started p created ;;
             catch (apply_cached_subs_of s) (fun e => m_bd_error p ;;; raise e)
         | OSimple _ _ _ => ret tt
         | _ => apply_cached_subs_of s
         end) ;;; go rest
    end.

Lemma apply_cached_subs_of_eq : forall o, apply_cached_subs_of o = adopt_go (op_subs o).
Proof. intro o. destruct o; reflexivity. Qed.

Section Adopt.
  Variables (fs0 : fsT) (new0 : cache) (cfp0 : path).
  Hypothesis Hcf : isdir fs0 cfp0 = false.

  Definition adoptable (o : op) : Prop :=
    forall T w w' r, forallb (reusable fs0 new0 cfp0) (op_subs o) = true -> RInv T w -> at0 fs0 new0 cfp0 w ->
      apply_cached_subs_of o w = (w', r) -> adopt_post (flat_map adopted (op_subs o)) T w w' r.

  Lemma adopt_go_ok : forall subs, Forall adoptable subs ->
    forall T w w' r, forallb (reusable fs0 new0 cfp0) subs = true -> RInv T w -> at0 fs0 new0 cfp0 w ->
      adopt_go subs w = (w', r) -> adopt_post (flat_map adopted subs) T w w' r.
  Proof.
    intros subs H. induction H as [|s rest Hs Hrest IH]; intros T w w' r Hr HR Ha Hgo.
    - cbn in Hgo. inversion Hgo; subst. repeat split. exists T. split; [exact HR|]. split; [apply msub_refl|intros q []].
    - cbn [forallb] in Hr. apply andb_true_iff in Hr. destruct Hr as [Hr1 Hr2].
      cbn [adopt_go] in Hgo. apply bind_inv in Hgo.
      (* the head *)
      assert (Hhead: forall wa ra,
                (match s with
                 | OBuildFile p _ _ _ _ _ _ _ false _ =>
                     created <- make_dirs (dirname p) ;; locked <- m_bd_started p created ;;
                     catch (apply_cached_subs_of s) (fun e => m_bd_error p ;;; raise e)
                 | OSimple _ _ _ => ret tt
                 | _ => apply_cached_subs_of s
                 end) w = (wa, ra) -> adopt_post (adopted s) T w wa ra).
      { intros wa ra Hh. destruct s as [q rt ex|p c f a k subs' rt cr ra' sf|f a k subs' rt ra' sf].
        - inversion Hh; subst. repeat split. exists T. split; [exact HR|]. split; [apply msub_refl|intros q0 []].
        - cbn [reusable] in Hr1. repeat (apply andb_true_iff in Hr1; destruct Hr1 as [Hr1 ?]).
          destruct ra'.
          + cbn [adopted app]. apply (Hs T w wa ra); [cbn [op_subs]; assumption|exact HR|exact Ha|exact Hh].
          + (* a successful build_file record: its target is adopted *)
            destruct Ha as (A1 & A2 & A3). rename H0 into Hfile. rewrite <- A1 in Hfile.
            destruct p as [|n d]; [discriminate|]. cbn [dirname tl] in Hh.
            apply bind_inv in Hh. destruct Hh as [[w1 [created [Em Hh]]]|[e [Em _]]].
            2:{ exfalso. destruct (make_dirs_existing T n d w wa (inr e) HR Hfile) as (ds & K & _); [rewrite A1, A3; exact Hcf|exact Em|discriminate]. }
            destruct (make_dirs_existing T n d w w1 (inl created) HR Hfile) as (ds & K & Efs); [rewrite A1, A3; exact Hcf|exact Em|].
            apply bind_inv in Hh. destruct Hh as [[w2 [locked [Eb Hh]]]|[e [Eb _]]].
            2:{ unfold m_bd_started in Eb. destruct (bd_started (w_bd w1) (n :: d) created); discriminate. }
            destruct HR as (HX & HP & HF).
            assert (Hnd: isdir (w_fs w) (n :: d) = false).
            { unfold isdir. apply isfile_lookup in Hfile. destruct Hfile as [g Hg]. rewrite Hg. reflexivity. }
            destruct (make_dirs_started_XInv T w n d w1 created w2 locked HX HP Hnd Em Eb) as (HX2 & HP2 & N2 & O2 & C2 & _).
            assert (Efs2: w_fs w2 = w_fs w).
            { unfold m_bd_started in Eb. destruct (bd_started (w_bd w1) (n :: d) created). inversion Eb; subst. cbn. exact Efs. }
            assert (HF2: w_faults w2 = []).
            { pose proof (make_dirs_quiet d _ _ _ Em) as [_ Q1]. unfold m_bd_started in Eb.
              destruct (bd_started (w_bd w1) (n :: d) created). inversion Eb; subst. cbn. congruence. }
            assert (HR2: RInv ((n :: d) :: T) w2) by (split; [exact HX2|split; [exact HP2|exact HF2]]).
            assert (Ha2: at0 fs0 new0 cfp0 w2) by (repeat split; congruence).
            unfold catch in Hh.
            destruct (apply_cached_subs_of (OBuildFile (n :: d) c f a k subs' rt cr false sf) w2) as [w3 r3] eqn:E3.
            pose proof (Hs ((n :: d) :: T) w2 w3 r3) as P. cbn [op_subs] in P.
            destruct (P ltac:(assumption) HR2 Ha2 E3) as (R1 & F3 & N3 & O3 & C3 & T3 & HR3 & M3 & L3).
            subst r3. inversion Hh; subst wa ra.
            split; [reflexivity|]. split; [congruence|]. split; [congruence|]. split; [congruence|]. split; [congruence|].
            exists T3. split; [exact HR3|]. split; [eapply msub_trans; [apply msub_cons|exact M3]|].
            intros q Hq. cbn [adopted app] in Hq. destruct Hq as [<-|Hq]; [apply (msub_in _ _ _ M3); left; reflexivity|apply L3; exact Hq].
        - cbn [reusable] in Hr1. repeat (apply andb_true_iff in Hr1; destruct Hr1 as [Hr1 ?]).
          cbn [adopted]. apply (Hs T w wa ra); [cbn [op_subs]; assumption|exact HR|exact Ha|exact Hh]. }
      destruct Hgo as [[wa [u [Eh Hgo]]]|[e [Eh _]]].
      + destruct (Hhead _ _ Eh) as (_ & F1 & N1 & O1 & C1 & T1 & HR1 & M1 & L1).
        assert (Ha1: at0 fs0 new0 cfp0 wa) by (destruct Ha as (A1 & A2 & A3); repeat split; congruence).
        destruct (IH T1 wa w' r Hr2 HR1 Ha1 Hgo) as (R2 & F2 & N2 & O2 & C2 & T2 & HR2 & M2 & L2).
        split; [exact R2|]. split; [congruence|]. split; [congruence|]. split; [congruence|]. split; [congruence|].
        exists T2. split; [exact HR2|]. split; [eapply msub_trans; eassumption|].
        intros q Hq. cbn [flat_map] in Hq. apply in_app_iff in Hq. destruct Hq as [Hq|Hq]; [apply (msub_in _ _ _ M2); apply L1; exact Hq|apply L2; exact Hq].
      + destruct (Hhead _ _ Eh) as (K & _). discriminate.
  Qed.

  Theorem apply_cached_ok : forall o, adoptable o.
  Proof.
    induction o as [q r e|p c f a k subs r cr ra sf IH|f a k subs r ra sf IH] using op_ind';
      intros T w w' res Hr HR Ha H; rewrite apply_cached_subs_of_eq in H; cbn [op_subs] in *.
    - cbn in H. inversion H; subst. repeat split. exists T. split; [exact HR|]. split; [apply msub_refl|intros q0 []].
    - eapply adopt_go_ok; eassumption.
    - eapply adopt_go_ok; eassumption.
  Qed.
End Adopt.

Print Assumptions apply_cached_ok.
