(* Proofs/SimB9.v — mechanism model vs Core, the hit/miss decision, part 9: the side conditions
   of SimB8, as boolean checkers evaluated on the histories of ViewK3 (they hold there: the
   theorems are not vacuous), and two families of programs, found while proving, on which the
   two models take DIFFERENT hit/miss decisions (the side conditions exclude them).        *)
From Coq Require Import List String Ascii NArith ZArith Bool Arith Lia.
From FB.Base Require Import PyVal Fs.
From FB.Gen Require Import JsonUtilGen.
From FB.Spec Require Import Prog Ref Oracle Faithful.
From FB.Model Require Import Types Monad CreatedFiles BuildDirs SimpleOps Builder Persist Build Run Frame Dsl Core CoreOracle.
From FB.Proofs Require Import FsLemmas CacheRTDefs CacheRTEx ViewDefs ViewLemmas ViewOverlay ViewH4 ViewH5 ViewH6 ViewR2
     ViewK1 ViewK2 ViewK3 ViewK4 SimB1 SimB2 SimB4 SimB7 SimB8.
Import ListNotations.
Open Scope list_scope.

(* ------------------------------------------------------------------ checkers *)
Fixpoint nodupb (l : list path) : bool :=
  match l with [] => true | x :: r => negb (mem_path x r) && nodupb r end.

Definition opath_eqb (a : path) (b : option path) : bool := match b with Some q => path_eqb a q | None => false end.

Definition file_at (fs : fsT) (p : path) : list fnode := match lookup fs p with Some (NFile f) => [f] | _ => [] end.

Definition node_semb (W : list path) (w : world) (s : kstate) (x : op) : bool :=
  match x with
  | OSimple (QRead p METADATA) rt _ =>
      negb (mem_path p W) ||
      forallb (fun f => negb (is_equal (cmp_of METADATA f) rt)) (file_at (w_fs w) p ++ file_at (k_fs s) p)
  | OBuildFile p _ _ _ _ _ _ _ ra _ => ra || cache_created_file (w_old w) p
  | _ => true
  end.

Definition subs_okb (hk : bool) (W : list path) (w : world) (s : kstate) (p0 : option path) (subs : list op) : bool :=
  forallb (rec_ok hk []) subs && forallb (node_semb W w s) (flat_map nodes subs) &&
  nodupb (flat_map regp subs) && forallb (fun t => negb (opath_eqb t p0)) (flat_map regp subs).

Definition KInvb (s : kstate) (p0 : option path) : bool :=
  forallb (fun x => isdir (k_fs s) x && existsb (is_ancestor x) (k_need s)) (k_made s) &&
  forallb (fun t => (fix up (x : path) : bool :=
                       match x with [] => true | _ :: d => isdir (k_fs s) d && up d end) t) (k_need s) &&
  forallb (fun t => mem_path t (k_claimedF s) || opath_eqb t p0) (k_need s).

Definition stale_dirsb (w : world) (s : kstate) : bool :=
  forallb (fun p => negb (isdir (w_fs w) p) || visible w p || mem_path p (k_staledirs s)) (map fst (w_fs w)) &&
  forallb (fun p => lexists (w_fs w) p) (k_staledirs s).

Definition wclb (w : world) : bool := forallb (fun p => cache_has_file (w_new w) p) (c_built (w_new w)).

(* all the side conditions of file_lookup_agree for the record of p (after the setup of p) *)
Definition file_hypsb (hk : bool) (w : world) (s : kstate) (p : path) : bool :=
  let W := c_built (w_new w) in
  KInvb s (Some p) && stale_dirsb w s && wclb w && Nat.ltb (maxlen (w_fs w)) walk_fuel &&
  nonroot p && path_ok p && negb (cache_has_file (w_new w) p) && negb (path_eqb p (w_cachefile w)) &&
  match cache_get_file (w_old w) p with
  | Some (OBuildFile p' c' _ _ _ subs' _ cr' ra' _) =>
      path_eqb p' p && (ra' || (negb (pnone cr') && cmp_okb hk c')) && subs_okb hk W w s (Some p) subs'
  | _ => true
  end.

Definition sub_hypsb (hk : bool) (w : world) (s : kstate) (key : pyval) : bool :=
  let W := c_built (w_new w) in
  KInvb s None && stale_dirsb w s && wclb w && Nat.ltb (maxlen (w_fs w)) walk_fuel &&
  match subs_get (c_subs (w_old w)) key with
  | Some (Some (OSubbuild _ _ _ subs' _ _ _)) => subs_okb hk W w s None subs'
  | _ => true
  end.

Definition hyps_at (hk : bool) (w1 : world) (s : kstate) : bool :=
  forallb (fun e => cache_has_file (w_new w1) (fst e) ||      (* a claimed target is never looked up *)
                    match mech_prep (fst e) w1, core_prep (fst e) s with
                    | Some w', Some s' => file_hypsb hk w' s' (fst e)
                    | _, _ => true end) (c_files (w_old w1)) &&
  forallb (fun e => sub_hypsb hk w1 s (fst e)) (c_subs (w_old w1)).

Definition hyps_hold (hk : bool) (cf : path) (nm : string) (vers : pyval) (w : world) : bool :=
  match root_states cf nm vers w with Some (w1, s) => hyps_at hk w1 s | None => false end.

Definition hyps_hold_after (hk : bool) (cf : path) (nm : string) (vers : pyval) (prefix : prog) (w : world) : bool :=
  match root_states cf nm vers w with
  | Some (w1, s) =>
      let '(w2, _) := run prefix None [] w1 in
      let '(s2, _) := core_run prefix None None [] s in
      hyps_at hk w2 s2
  | None => false
  end.

Module CheckHyps.
  Import ViewK3.Check.
  Import SimB1.CheckB.
  Open Scope string_scope.

  (* the hash memo is empty when the root function starts, so hash_ok holds and HASH reads are covered *)
  Example hyps_second : hyps_hold true CF0 "n" V pre2 = true.
  Proof. vm_compute. reflexivity. Qed.
  Example hyps_third : hyps_hold true CF0 "n" V (fst h2) = true.
  Proof. vm_compute. reflexivity. Qed.
  Example hyps_third_after : hyps_hold_after true CF0 "n" V prefix (fst h2) = true.
  Proof. vm_compute. reflexivity. Qed.
  Example hyps_k2 : hyps_hold true ViewK2.Refute.CF "n" (PDict []) k2w = true.
  Proof. vm_compute. reflexivity. Qed.
End CheckHyps.

(* ------------------------------------------------------------------ where the decisions differ *)
Module DifferB.
  Open Scope string_scope.
  Definition CF : path := ["cache"].

  Definition logs (root : prog) (w : world) : list string * list string :=
    match mech_root CF "n" (PDict []) root w, core_root CF "n" (PDict []) root w with
    | Some (wa, (wb, _)), Some (_, s) =>
        (flat_map show_log1 (rev (firstn (List.length (w_log wb) - (List.length (w_log wa) - 1)) (w_log wb))),
         flat_map show_log1 (rev (k_log s)))
    | _, _ => ([], [])
    end.

  (* 1. get_size of a directory that exists only in the overlay of a validation.  First build: a
     subbuild whose build_file function asks the size of the (reserved, just made) directory of
     its target and then fails; the directory is removed when the build ends.  Second build:
     validating the subbuild record, the mechanism stats the physical path (absent: OSError, the
     record is rejected and the subbuild runs again) while Core answers from the scratch tree
     (a directory: -1 as recorded, the record is served).  Different logs. *)
  Definition root_size : prog :=
    Subbuild false "s" PNone PNone
      (fun _ _ => BuildFile false ["y"; "x"] METADATA "g" PNone PNone
         (fun _ _ _ => Ask false (QGetSize ["x"]) (fun _ => Raise (XUser 1)))
         (fun _ => Ret PNone))
      (fun _ => Ret PNone).
  Definition w_size : world := fst (run_build CF "n" (PDict []) root_size init_world).
  Example get_size_overlay_dir :
    build_agrees CF "n" (PDict []) root_size init_world = true /\
    logs root_size w_size =
      (["invoke <root> - N N"; "invoke s - N N"; "invoke g /x/y N N"; "answer get_size('/x') = -1"],
       ["invoke <root> - N N"]).
  Proof. vm_compute. split; reflexivity. Qed.

  (* 2. directories left on disk by a build_file that failed EARLIER IN THIS BUILD.  The previous
     build recorded a subbuild holding a failed build_file of x/y.  This build first fails to
     build x/y/z (the directories x and x/y that it made stay on disk, dead, until the build
     ends; Core removes them from its tree at once), then asks for the subbuild: the mechanism
     finds something at x/y and rejects the record, Core finds nothing and serves it. *)
  Definition sub2 (k : outcome -> prog) : prog :=
    Subbuild false "s" PNone PNone
      (fun _ _ => BuildFile false ["y"; "x"] METADATA "g" PNone PNone
         (fun _ _ _ => Raise (XUser 1)) (fun _ => Ret PNone)) k.
  Definition rootA : prog := sub2 (fun _ => Ret PNone).
  Definition rootB : prog :=
    BuildFile false ["z"; "y"; "x"] METADATA "h" PNone PNone (fun _ _ _ => Raise (XUser 2))
      (fun _ => sub2 (fun _ => Ret PNone)).
  Definition wA : world := fst (run_build CF "n" (PDict []) rootA init_world).
  Example leftover_dirs :
    build_agrees CF "n" (PDict []) rootA init_world = true /\
    logs rootB wA =
      (["invoke <root> - N N"; "invoke h /x/y/z N N"; "invoke s - N N"; "invoke g /x/y N N"],
       ["invoke <root> - N N"; "invoke h /x/y/z N N"]).
  Proof. vm_compute. split; reflexivity. Qed.
End DifferB.
