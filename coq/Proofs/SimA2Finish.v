(* Proofs/SimA2Finish.v — C04, the link to Core, run level: the end of a build_file function:
   bf_finish of the mechanism model against core_finish of Core, on the failure path (the
   file of the target is removed, the reservations are released and the directories made for
   this target alone disappear: Core's core_prune) and on the successful end (the written
   file becomes visible: Core writes it).

   RESULT.  SimA2.finish_statement is FALSE as stated: nothing in Sim4c / Ctx4 / HInv says that
   the target in progress is not the cache file, and for p = w_cachefile w the mechanism keeps
   the finished file hidden while Core shows it (Refute.finish_statement_false : ~ finish_statement,
   a concrete world and Core state satisfying every hypothesis).  Proved instead:
     finish_ok_cf    : finish_statement_cf   = finish_statement with the one more hypothesis
                                               p <> w_cachefile w  (only used on the successful end);
     finish_ok_of_cf : (in-progress targets are not the cache file) -> finish_statement.       *)
From Coq Require Import List String Ascii NArith ZArith Bool Arith Lia.
From FB.Base Require Import PyVal Fs.
From FB.Gen Require Import JsonUtilGen.
From FB.Spec Require Import JsonSpec Prog Ref Oracle Faithful.
From FB.Model Require Import Types Monad CreatedFiles BuildDirs SimpleOps Builder Persist Build Run Frame Core CoreOracle.
From FB.Proofs Require Import FsLemmas JsonLaws CmpLaws ReplayLaws CleanLaws BuildFileLaws HashMemoInv HashMemoRun CoreLaws1 CoreLaws2 CoreLaws3
     ViewDefs ViewLemmas ViewFrame ViewInit ViewClean ViewXDefs ViewXError ViewXQuery ViewXMake1 ViewXMake2 ViewXMkfail ViewXFail ViewXSetup ViewXRun
     ViewR1 ViewR2 ViewR3 ViewK1 ViewK2 ViewK3 ViewK4 ViewK5 ViewK7 ViewK8 SimA0 SimARun SimA1 SimA1Error SimA1Vlog SimA2 SimA2Base.
Import ListNotations.
Open Scope list_scope.
Open Scope m_scope.

Local Notation RInv2' := (RInv2 (fun _ => True)).

(* ------------------------------------------------------------------ small facts *)
Lemma inprog_hid : forall w p, inprog w p -> hid w p = true.
Proof.
  intros w p H. unfold inprog in H. unfold hid, cache_has_file, cache_get_file. rewrite H. cbn. apply orb_true_r.
Qed.

Lemma inprog_claimed : forall w p, inprog w p -> cache_has_file (w_new w) p = true.
Proof. intros w p H. unfold inprog in H. unfold cache_has_file. rewrite H. reflexivity. Qed.

Lemma inprog_norec : forall w p, inprog w p -> cache_get_file (w_new w) p = None.
Proof. intros w p H. unfold inprog in H. unfold cache_get_file. rewrite H. reflexivity. Qed.

(* ------------------------------------------------------------------ step (1): the file of the target is removed *)
Lemma remove_step : forall T w p w1 r,
  RInv T w -> In p T -> hid w p = true -> isdir (w_fs w) p = false ->
  try_to_remove_file p w = (w1, r) ->
  r = inl tt /\ RInv T w1 /\
  (forall a, lookup (view_fs w1) a = lookup (view_fs w) a) /\
  lookup (w_fs w1) p = None /\ (forall q, q <> p -> lookup (w_fs w1) q = lookup (w_fs w) q) /\
  w_new w1 = w_new w /\ w_old w1 = w_old w /\ w_cachefile w1 = w_cachefile w /\ w_bd w1 = w_bd w.
Proof.
  intros T w p w1 r HR Hin Hh Hnd H.
  destruct (try_to_remove_target _ _ _ _ _ HR Hin H) as [HR1 Hnf]. destruct HR as (HX & HP & HF).
  unfold try_to_remove_file in H. apply bind_inv in H. unfold get in H.
  destruct H as [[wa [w0 [E H]]]|[e [E _]]]; [|discriminate]. inversion E; subst wa w0.
  destruct (isfile (w_fs w) p) eqn:Ei.
  - unfold catch in H. destruct (effect "remove" p (fun fs => remove fs p) w) as [wb rb] eqn:Ee.
    destruct (effect_nofault_inv _ _ _ _ _ _ HF Ee) as (F1 & (C1 & C2 & C3 & C4) & [[fs' (R1 & R2 & R3)]|[e (R1 & R2 & R3)]]).
    + subst rb. inversion H; subst w1 r. apply remove_frame in R1. destruct R1 as (_ & Rn & Ro).
      split; [reflexivity|]. split; [exact HR1|]. split; [|split; [rewrite R2; exact Rn|split; [intros q Hq; rewrite R2; apply Ro; exact Hq|auto]]].
      intro a. rewrite (view_fs_fields wb (set_fs fs' w)); try assumption; try reflexivity.
      apply (view_target_change T w p fs' HX Hin Hh); auto.
      * rewrite <- R2. apply (bi_wf _ (x_binv _ _ (RInv_X _ _ HR1))).
      * unfold isdir. rewrite Rn. reflexivity.
    + exfalso. unfold remove in R1. apply isfile_lookup in Ei. destruct Ei as [g Eg]. rewrite Eg in R1.
      destruct p; [cbn in Eg; discriminate|discriminate].
  - inversion H; subst w1 r. split; [reflexivity|]. split; [exact HR1|]. split; [reflexivity|]. split; [|auto].
    unfold isfile in Ei. unfold isdir in Hnd. destruct (lookup (w_fs w) p) as [[g|]|]; try discriminate. reflexivity.
Qed.

(* ------------------------------------------------------------------ Core: what core_prune removes *)
Lemma rmdir_dead : forall dead fs,
  (forall m, mem_path m dead = true ->
             lookup fs m = Some NDir /\ m <> [] /\ forall n, lookup fs (n :: m) <> None -> mem_path (n :: m) dead = true) ->
  forall a, lookup (fold_left try_rmdir (deepest_first dead) fs) a = if mem_path a dead then None else lookup fs a.
Proof.
  intros dead fs Hc a.
  rewrite (rmdir_all (deepest_first dead) [] fs fs (deepest_first_sdesc dead)).
  - cbn [app]. rewrite mem_deepest_first. reflexivity.
  - intro y. reflexivity.
  - intros m Hm. cbn [app] in Hm |- *. unfold deepest_first in Hm. apply In_sort_by in Hm.
    apply ViewLemmas.mem_path_In in Hm. destruct (Hc m Hm) as (A & B & C). split; [exact A|]. split; [exact B|].
    intros n Hn. unfold deepest_first. apply In_sort_by. apply ViewLemmas.mem_path_In. apply C. exact Hn.
Qed.

Lemma mem_dead : forall T need made n d x, NoDup T -> (forall y, mem_path y need = true <-> In y T) ->
  (mem_path x (filter (fun q => is_ancestor q (n :: d) && negb (existsb (is_ancestor q) (del_path (n :: d) need))) made) = true <->
   (mem_path x made = true /\ suffix x d /\ ~ exists t, In t (rm1 (n :: d) T) /\ psuffix x t)).
Proof.
  intros T need made n d x Hnd Hneed. rewrite mem_path_filter, andb_true_iff, andb_true_iff, negb_true_iff.
  rewrite is_ancestor_psuffix, psuffix_cons.
  assert (Hex: existsb (is_ancestor x) (del_path (n :: d) need) = true <-> exists t, In t (rm1 (n :: d) T) /\ psuffix x t).
  { rewrite existsb_exists. split.
    - intros [t [Ht Ha]]. exists t. apply In_del_path in Ht. destruct Ht as [Ht Hne].
      split; [|apply is_ancestor_psuffix; exact Ha]. apply In_rm1_nodup; [exact Hnd|]. split; [|exact Hne].
      apply Hneed. apply ViewLemmas.mem_path_In. exact Ht.
    - intros [t [Ht Ha]]. exists t. apply (In_rm1_nodup _ _ _ Hnd) in Ht. destruct Ht as [Ht Hne].
      split; [|apply is_ancestor_psuffix; exact Ha]. apply In_del_path. split; [|exact Hne].
      apply ViewLemmas.mem_path_In. apply Hneed. exact Ht. }
  split.
  - intros (A & B & C). split; [exact A|]. split; [exact B|]. intro K. apply Hex in K. congruence.
  - intros (A & B & C). split; [exact A|]. split; [exact B|].
    destruct (existsb (is_ancestor x) (del_path (n :: d) need)) eqn:E; [|reflexivity]. exfalso. apply C. apply Hex. reflexivity.
Qed.

(* ------------------------------------------------------------------ the world after new_finish_building_file *)
Definition fin_world (p : path) (o : op) (w : world) : world :=
  set_new (cache_with (w_new w) (files_set (c_files (w_new w)) p (Some o)) (c_subs (w_new w)) (c_dirs (w_new w)) (c_built (w_new w))) w.

Lemma nfbf_eq : forall p o w, new_finish_building_file p o w = (fin_world p o w, inl tt).
Proof. reflexivity. Qed.

Lemma fin_fs : forall p o w, w_fs (fin_world p o w) = w_fs w. Proof. reflexivity. Qed.
Lemma fin_old : forall p o w, w_old (fin_world p o w) = w_old w. Proof. reflexivity. Qed.
Lemma fin_cf : forall p o w, w_cachefile (fin_world p o w) = w_cachefile w. Proof. reflexivity. Qed.
Lemma fin_bd : forall p o w, w_bd (fin_world p o w) = w_bd w. Proof. reflexivity. Qed.
Lemma fin_log : forall p o w, w_log (fin_world p o w) = w_log w. Proof. reflexivity. Qed.
Lemma fin_subs : forall p o w, c_subs (w_new (fin_world p o w)) = c_subs (w_new w). Proof. reflexivity. Qed.
Lemma fin_fvers : forall p o w, c_fvers (w_new (fin_world p o w)) = c_fvers (w_new w). Proof. reflexivity. Qed.

Lemma fin_has : forall p o w x, cache_has_file (w_new (fin_world p o w)) x = path_eqb x p || cache_has_file (w_new w) x.
Proof.
  intros p o w x. unfold fin_world. cbn [w_new set_new]. apply (cache_has_file_set (w_new w) _ p (Some o) x _ _ _ eq_refl).
Qed.

Lemma fin_get : forall p o w x,
  cache_get_file (w_new (fin_world p o w)) x = if path_eqb x p then Some o else cache_get_file (w_new w) x.
Proof.
  intros p o w x. unfold fin_world. cbn [w_new set_new]. apply (cache_get_file_set (w_new w) _ p (Some o) x _ _ _ eq_refl).
Qed.

Lemma fin_inprog : forall p o w y, inprog (fin_world p o w) y <-> (inprog w y /\ y <> p).
Proof.
  intros p o w y. unfold inprog, fin_world. cbn [w_new set_new c_files cache_with].
  destruct (list_eq_dec string_dec y p) as [->|Hne].
  - rewrite files_get_set_same. split; [discriminate|intros [_ K]; contradiction].
  - rewrite files_get_set_other by exact Hne. split; [intro H; split; assumption|intros [H _]; exact H].
Qed.

(* Sim3 when the record of p is registered on both sides *)
Lemma sim3_finish : forall W w0 w s p o o' fs' need made clock nextid,
  Sim3 W w0 s -> inprog w0 p -> rec_rel o o' ->
  w_new w = w_new w0 -> w_old w = w_old w0 -> w_cachefile w = w_cachefile w0 ->
  vis_log (w_log w) = vis_log (w_log w0) ->
  (forall q, q <> p -> lookup (w_fs w) q = lookup (w_fs w0) q) ->
  trel W (view_fs (fin_world p o w)) fs' ->
  Sim3 W (fin_world p o w)
       (ks_with s fs' (k_stale s) (k_claimedF s) (k_claimedS s) need made clock nextid (k_log s)
                (k_newF s ++ [(p, o')]) (k_newS s)).
Proof.
  intros W w0 w s p o o' fs' need made clock nextid [S1 S2 S3 S4 S5 S6 S7 S8 S9 S10] Hprog Hrec N O C L F Htr.
  pose proof (inprog_claimed _ _ Hprog) as Hcl.
  constructor; cbn [ks_with k_fs k_cachefile k_old k_vers k_claimedF k_claimedS k_log k_newF k_newS k_stale].
  - exact Htr.
  - rewrite S2, fin_cf. symmetry. exact C.
  - rewrite S3, fin_old. symmetry. exact O.
  - intro f0. rewrite (S4 f0). unfold func_version. rewrite fin_fvers, N. reflexivity.
  - intro x. rewrite (S5 x), fin_has, N. destruct (path_eqb x p) eqn:E; [|reflexivity].
    apply path_eqb_eq in E. subst x. rewrite Hcl. reflexivity.
  - intro k. rewrite (S6 k). unfold cache_has_subbuild. rewrite fin_subs, N. reflexivity.
  - rewrite fin_log, L. exact S7.
  - intro x. rewrite fin_get, kf_get_app1, N. specialize (S8 x). destruct (path_eqb x p) eqn:E.
    + apply path_eqb_eq in E. subst x. rewrite (inprog_norec _ _ Hprog) in S8.
      destruct (kf_get (k_newF s) p); [contradiction|]. rewrite path_eqb_refl. exact Hrec.
    + assert (E2: path_eqb p x = false) by (rewrite path_eqb_sym; exact E). rewrite E2.
      destruct (cache_get_file (w_new w0) x), (kf_get (k_newF s) x); exact S8.
  - intro k. rewrite fin_subs, N. apply S9.
  - intro x. rewrite (S10 x), fin_fs, fin_old, fin_has, O, N. destruct (path_eqb x p) eqn:E.
    + apply path_eqb_eq in E. subst x. rewrite Hcl. cbn [orb negb]. rewrite andb_false_r.
      destruct (lookup (w_fs w0) p) as [[g|]|], (lookup (w_fs w) p) as [[g'|]|]; reflexivity.
    + apply path_eqb_neq in E. rewrite (F x E). reflexivity.
Qed.

(* ------------------------------------------------------------------ case (A): the failure path *)
Definition dead_of (s : kstate) (p : path) : list path :=
  filter (fun q => is_ancestor q p && negb (existsb (is_ancestor q) (del_path p (k_need s)))) (k_made s).

Lemma core_prune_eq : forall s p o,
  core_prune s p o =
  ks_with s (fold_left try_rmdir (deepest_first (dead_of s p)) (k_fs s)) (k_stale s)
          (k_claimedF s) (k_claimedS s) (del_path p (k_need s))
          (filter (fun q => negb (mem_path q (dead_of s p))) (k_made s))
          (k_clock s) (k_nextid s) (k_log s) (k_newF s ++ [(p, o)]) (k_newS s).
Proof. reflexivity. Qed.

Definition Dset (b b' : bdirs) (x : path) : bool :=
  in_counts b x && negb (in_counts b' x) && mem_path x (bd_created b).

Lemma bd_error_view' : forall T w n d b', XInv T w -> In (n :: d) T -> lookup (w_fs w) (n :: d) = None ->
  (forall x, suffix x d -> isdir (w_fs w) x = true) ->
  m_bd_error (n :: d) w = (set_bd b' w, inl tt) ->
  (forall a, lookup (view_fs (set_bd b' w)) a = if Dset (w_bd w) b' a then None else lookup (view_fs w) a) /\
  (forall x, Dset (w_bd w) b' x = true <->
             (suffix x d /\ mem_path x (bd_created (w_bd w)) = true /\
              ~ exists t, In t (rm1 (n :: d) T) /\ psuffix x t)) /\
  (forall x, mem_path x (bd_created b') = mem_path x (bd_created (w_bd w)) && negb (Dset (w_bd w) b' x)) /\
  (forall x, Dset (w_bd w) b' x = true -> lookup (view_fs w) x = Some NDir /\
                           forall m, lexists (view_fs w) (m :: x) = true -> Dset (w_bd w) b' (m :: x) = true).
Proof. intros T w n d b' HX Hin Hl Hd E. exact (bd_error_view T w n d b' HX Hin Hl Hd E). Qed.

Lemma fail_case : forall T W wX s n d c f sa skw subs bsubs e0 w' r oo,
  Sim4c T W wX s -> inprog wX (n :: d) -> isdir (w_fs wX) (n :: d) = false -> recs_rel subs bsubs ->
  bf_fail (n :: d) c f sa skw subs e0 wX = (w', (r, oo)) ->
  Sim4c (rm1 (n :: d) T) W w' (core_prune s (n :: d) (OBuildFile (n :: d) c f sa skw bsubs PNone PNone true false)) /\
  r = inr e0 /\ orec_rel oo (Some (OBuildFile (n :: d) c f sa skw bsubs PNone PNone true false)) /\
  (forall y, inprog w' y <-> (inprog wX y /\ y <> n :: d)) /\
  (forall y, y <> n :: d -> lookup (w_fs w') y = lookup (w_fs wX) y) /\ w_old w' = w_old wX.
Proof.
  intros T W wX s n d c f sa skw subs bsubs e0 w' r oo [HP HL] Hprog Hnd Hsubs H.
  pose proof (s4_rinv _ _ _ _ HP) as HR2. pose proof (RInv2_R' _ _ HR2) as HR. pose proof HR as (HX & HPI & HF).
  pose proof (s4_sim _ _ _ _ HP) as HS.
  pose proof (HPI _ Hprog) as Hin.
  pose proof (bf_fail_RInv T n d c f sa skw subs e0 wX w' r oo HR Hin H) as HR'.
  pose proof (bf_fail_gl walk_fuel _ _ _ _ _ _ _ _ _ _ H) as G.
  assert (Hvl: vis_log (w_log w') = vis_log (w_log wX)).
  { destruct vlog as (_ & _ & _ & _ & V & _). exact (V (n :: d) c f sa skw (inr e0) subs wX w' (r, oo) H). }
  unfold bf_fail in H. cbv zeta in H.
  match type of H with (match ?X with _ => _ end) = _ => destruct X as [w1 x] eqn:E end.
  apply bind_inv in E. destruct E as [(wa & u & E1 & E2) | (e1 & E1 & _)].
  2:{ destruct (remove_step T wX (n :: d) w1 (inr e1) HR Hin (inprog_hid _ _ Hprog) Hnd E1) as [K _]. discriminate. }
  destruct (remove_step T wX (n :: d) wa (inl u) HR Hin (inprog_hid _ _ Hprog) Hnd E1)
    as (_ & HRa & Hva & Hpa & Hoa & Na & Oa & Ca & Ba).
  pose proof (RInv_X _ _ HRa) as HXa.
  assert (Hnfa: isfile (w_fs wa) (n :: d) = false) by (unfold isfile; rewrite Hpa; reflexivity).
  destruct (m_bd_error_XInv T wa n d HXa Hin Hnfa) as (b' & Eb & HXb).
  apply bind_inv in E2. rewrite Eb in E2. destruct E2 as [(wb & u' & E2 & E3) | (e1 & E2 & _)]; [|discriminate].
  inversion E2; subst wb u'. cbv beta in E3. rewrite nfbf_eq in E3. inversion E3; subst w1 x. clear E2 E3.
  inversion H; subst w' r oo. clear H.
  set (o := OBuildFile (n :: d) c f sa skw subs PNone PNone true false) in *.
  set (o' := OBuildFile (n :: d) c f sa skw bsubs PNone PNone true false).
  assert (Hrec: rec_rel o o') by (apply rec_rel_BF; [exact Hsubs|apply vr_eq]).
  assert (Hne: n :: d <> []) by discriminate.
  (* the ancestors of the target are directories on disk *)
  assert (Hanc: forall x, suffix x d -> isdir (w_fs wa) x = true).
  { intros x Hx. apply isdir_lookup.
    assert (Hxp: x <> n :: d) by (apply psuffix_neq; apply psuffix_cons; exact Hx).
    rewrite (Hoa x Hxp). apply (sim3_dir_disk W wX s x HS).
    apply (wf_suffix_dir (k_fs s) d x (s4_kwf _ _ _ _ HP) (s4_kneed _ _ _ _ HP (n :: d) Hin) Hx). }
  destruct (bd_error_view' T wa n d b' HXa Hin Hpa Hanc Eb) as (V1 & V2 & V3 & V4).
  set (D := Dset (w_bd wa) b') in *.
  (* the view at the end *)
  set (c' := cache_with (w_new wa) (files_set (c_files (w_new wa)) (n :: d) (Some o)) (c_subs (w_new wa)) (c_dirs (w_new wa)) (c_built (w_new wa))).
  assert (Ew': fin_world (n :: d) o (set_bd b' wa) = set_new c' (set_bd b' wa)) by reflexivity.
  assert (Hnfb: isfile (w_fs (set_bd b' wa)) (n :: d) = false) by exact Hnfa.
  assert (Hfiles: forall a, a <> n :: d -> files_get (c_files c') a = files_get (c_files (w_new (set_bd b' wa))) a).
  { intros a Ha. unfold c'. cbn [c_files cache_with w_new set_bd]. apply files_get_set_other. exact Ha. }
  assert (Hvw: forall a, lookup (view_fs (fin_world (n :: d) o (set_bd b' wa))) a = if D a then None else lookup (view_fs wX) a).
  { intro a. rewrite <- Hva, <- V1, Ew'. destruct (list_eq_dec string_dec a (n :: d)) as [->|Ha].
    - rewrite (view_claim_at (rm1 (n :: d) T) (set_bd b' wa) (n :: d) c' HXb (or_intror Hnfb) Hfiles Hne).
      change (w_fs (set_bd b' wa)) with (w_fs wa). rewrite Hpa. reflexivity.
    - apply (view_claim_other (rm1 (n :: d) T) (set_bd b' wa) (n :: d) c' HXb (or_intror Hnfb) Hfiles a Ha). }
  (* Core: the directories removed *)
  assert (Hdead: forall x, mem_path x (dead_of s (n :: d)) = D x).
  { intro x. apply mem_path_eq_of_iff. unfold dead_of.
    pose proof (mem_dead T (k_need s) (k_made s) n d x (s4_nodup _ _ _ _ HP) (s4_need _ _ _ _ HP)) as M.
    pose proof (V2 x) as K. split.
    - intro Hm. apply M in Hm. destruct Hm as (A & B & C0). apply K. split; [exact B|]. split; [|exact C0].
      rewrite Ba, <- (s4_made _ _ _ _ HP x). exact A.
    - intro Hm. apply K in Hm. destruct Hm as (B & A & C0). apply M. split; [|split; [exact B|exact C0]].
      rewrite (s4_made _ _ _ _ HP x), <- Ba. exact A. }
  assert (Htr: trel W (view_fs wX) (k_fs s)) by (apply Sim3_trel; exact HS).
  assert (Hclos: forall m, mem_path m (dead_of s (n :: d)) = true ->
             lookup (k_fs s) m = Some NDir /\ m <> [] /\
             forall k, lookup (k_fs s) (k :: m) <> None -> mem_path (k :: m) (dead_of s (n :: d)) = true).
  { intros m Hm. rewrite Hdead in Hm. destruct (V4 m Hm) as [A B]. split; [|split].
    - apply (trel_dir_l W (view_fs wX) (k_fs s) m Htr). rewrite <- Hva. exact A.
    - apply V2 in Hm. destruct Hm as (_ & Hc & _). apply (s_created _ (x_sinv _ _ HXa) m Hc).
    - intros k Hk. rewrite Hdead. apply B. unfold lexists. rewrite Hva.
      pose proof (trel_lexists W _ _ (k :: m) Htr) as L. unfold lexists in L. rewrite L.
      destruct (lookup (k_fs s) (k :: m)); [reflexivity|congruence]. }
  pose proof (rmdir_dead (dead_of s (n :: d)) (k_fs s) Hclos) as Hprune.
  assert (Htree: trel W (view_fs (fin_world (n :: d) o (set_bd b' wa)))
                      (fold_left try_rmdir (deepest_first (dead_of s (n :: d))) (k_fs s))).
  { apply (trel_pointwise W (view_fs wX) (k_fs s) _ _ (fun x => if D x then Some None else None) Htr).
    - intro x. rewrite Hvw. destruct (D x); reflexivity.
    - intro x. rewrite Hprune, Hdead. destruct (D x); reflexivity. }
  rewrite core_prune_eq. fold o'.
  split; [split|].
  - constructor; cbn [ks_with k_fs k_need k_made k_newS].
    + apply (sim3_finish W wX (set_bd b' wa) s (n :: d) o o' _ _ _ _ _ HS Hprog Hrec Na Oa Ca Hvl Hoa Htree).
    + apply (RInv2_step _ _ _ _ HR2 G HR').
    + apply NoDup_rm1. apply (s4_nodup _ _ _ _ HP).
    + intro x. split.
      * intro Hm. apply ViewLemmas.mem_path_In in Hm. apply In_del_path in Hm. destruct Hm as [A B].
        apply In_rm1_nodup; [apply (s4_nodup _ _ _ _ HP)|]. split; [|exact B].
        apply (s4_need _ _ _ _ HP). apply ViewLemmas.mem_path_In. exact A.
      * intro Hm. apply (In_rm1_nodup _ _ _ (s4_nodup _ _ _ _ HP)) in Hm. destruct Hm as [A B].
        apply ViewLemmas.mem_path_In. apply In_del_path. split; [|exact B].
        apply ViewLemmas.mem_path_In. apply (s4_need _ _ _ _ HP). exact A.
    + intro x. rewrite mem_path_filter. cbv beta. rewrite Hdead, (s4_made _ _ _ _ HP x), fin_bd.
      change (w_bd (set_bd b' wa)) with b'. rewrite (V3 x), Ba. reflexivity.
    + apply wf_fold_try_rmdir. apply (s4_kwf _ _ _ _ HP).
    + intros t Ht. rewrite Hprune, Hdead. destruct (D (dirname t)) eqn:ED.
      * exfalso. apply V2 in ED. destruct ED as (_ & _ & C0). apply C0. exists t. split; [exact Ht|].
        destruct (x_tgt _ _ HX t (rm1_in _ _ _ Ht)) as [Hnt _]. destruct t as [|m t']; [contradiction|].
        cbn [dirname tl]. exists m, []. reflexivity.
      * apply (s4_kneed _ _ _ _ HP). apply (rm1_in _ _ _ Ht).
    + intros x Hx. rewrite fin_cf in Hx. change (w_cachefile (set_bd b' wa)) with (w_cachefile wa) in Hx. rewrite Ca in Hx.
      rewrite Hprune, Hdead. destruct (D x) eqn:ED.
      * exfalso. apply V2 in ED. destruct ED as (_ & A & _). rewrite Ba, <- (s4_made _ _ _ _ HP x) in A.
        apply ViewLemmas.mem_path_In in A. apply (s4_madecf _ _ _ _ HP x A Hx).
      * apply (s4_cfdir _ _ _ _ HP x Hx).
    + intros x Hx Hs. rewrite fin_cf in Hs. change (w_cachefile (set_bd b' wa)) with (w_cachefile wa) in Hs. rewrite Ca in Hs.
      apply filter_In in Hx. destruct Hx as [Hx _]. apply (s4_madecf _ _ _ _ HP x Hx Hs).
    + intros q v Hq. rewrite fin_subs in Hq. change (w_new (set_bd b' wa)) with (w_new wa) in Hq. rewrite Na in Hq.
      apply (s4_subs_wf _ _ _ _ HP q v Hq).
    + rewrite fin_subs. change (w_new (set_bd b' wa)) with (w_new wa). rewrite Na. apply (s4_subs_sep _ _ _ _ HP).
    + exact (s4_newS_wf _ _ _ _ HP).
  - intros x Hx. rewrite fin_has. change (w_new (set_bd b' wa)) with (w_new wa). rewrite Na.
    rewrite (HL x (rm1_in _ _ _ Hx)). apply orb_true_r.
  - split; [reflexivity|]. split; [exact Hrec|]. split; [|split].
    + intro y. rewrite fin_inprog. unfold inprog. change (w_new (set_bd b' wa)) with (w_new wa). rewrite Na. reflexivity.
    + intros y Hy. rewrite fin_fs. change (w_fs (set_bd b' wa)) with (w_fs wa). apply Hoa. exact Hy.
    + rewrite fin_old. change (w_old (set_bd b' wa)) with (w_old wa). exact Oa.
Qed.

(* ------------------------------------------------------------------ the comparison result at the end *)
Lemma absent_err_cases : forall fs p, path_ok p = true -> absent_err fs p = ENOENT \/ absent_err fs p = ENOTDIR.
Proof.
  intros fs p. induction p as [|n d IH]; intro H; cbn [absent_err]; [left; reflexivity|].
  cbn [path_ok forallb] in H. apply andb_true_iff in H. destruct H as [H1 H2].
  destruct (lookup fs d) as [[g|]|]; [right; reflexivity|rewrite H1; left; reflexivity|apply IH; exact H2].
Qed.

Lemma noneable_cmp_absent : forall p c w w4 r, path_ok p = true -> lookup (w_fs w) p = None ->
  noneable_cmp p c w = (w4, r) -> r = inl PNone.
Proof.
  intros p c w w4 r Hok Hl H.
  assert (Hh: forall e wz, e = XOS (err_of (stat_err (w_fs w) p)) \/ e = XOS XFileNotFound ->
            (if is_os_class XFileNotFound e || is_os_class XIsADirectory e || is_os_class XNotADirectory e
             then ret PNone else raise e) wz = (w4, r) -> r = inl PNone).
  { intros e wz [E0|E0] K; subst e.
    - unfold stat_err in K. destruct (absent_err_cases (w_fs w) p Hok) as [E|E]; rewrite E in K; cbn in K; inversion K; reflexivity.
    - cbn in K. inversion K. reflexivity. }
  unfold noneable_cmp, catch, file_comparison_result in H. destruct c.
  - unfold file_metadata in H. rewrite Hl in H. apply (Hh _ _ (or_introl eq_refl) H).
  - destruct (file_hash p w) as [wh rh] eqn:Eh. unfold file_hash, isfile, isdir in Eh. rewrite Hl in Eh.
    destruct (hash_get (w_hash w) p) as [[h b]|]; [destruct (Bool.eqb b (cache_has_file (w_new w) p))|]; inversion Eh; subst wh rh.
    + apply (Hh _ _ (or_intror eq_refl) H).
    + apply (Hh _ _ (or_introl eq_refl) H).
    + apply (Hh _ _ (or_introl eq_refl) H).
Qed.

Lemma noneable_cmp_file : forall p c w w4 r fd, HashOk w -> lookup (w_fs w) p = Some (NFile fd) ->
  noneable_cmp p c w = (w4, r) -> r = inl (cmp_of c fd).
Proof.
  intros p c w w4 r fd Hok Hl H. unfold noneable_cmp, catch, file_comparison_result in H. destruct c.
  - unfold file_metadata in H. rewrite Hl in H. inversion H. reflexivity.
  - destruct (file_hash p w) as [wh rh] eqn:Eh. destruct (file_hash_spec p w wh rh Hok Eh) as (_ & _ & _ & K).
    rewrite Hl in K. subst rh. inversion H. reflexivity.
Qed.

(* read-only steps keep the relation *)
Lemma Sim4c_qrel : forall T W w w4 s, Sim4c T W w s -> qrel w w4 ->
  Sim4c T W w4 s /\ w_fs w4 = w_fs w /\ w_new w4 = w_new w /\ w_old w4 = w_old w /\ w_cachefile w4 = w_cachefile w /\
  gl walk_fuel w w4.
Proof.
  intros T W w w4 s [HP HL] Q.
  pose proof (s4_rinv _ _ _ _ HP) as HR2. pose proof (RInv2_R' _ _ HR2) as HR. pose proof HR as (HX & HPI & HF).
  destruct (qrel_facts _ _ _ HX Q) as (HX4 & Sa & SV & _).
  pose proof (svb_gl walk_fuel _ _ SV) as G.
  destruct SV as (V1 & V2 & V3 & V4 & V5 & V6 & V7 & V8 & V9 & V10 & V11).
  split; [|split; [exact V1|split; [exact V5|split; [exact V4|split; [exact V8|exact G]]]]].
  split.
  - destruct HP as [P1 P2 P5 P6 P7 P8 P9 P10 P11 P12 P13 P14]. constructor; try assumption.
    + apply (Sim3_qrel T W w w4 s HX Q P1).
    + apply (RInv2_step _ _ _ _ HR2 G (qrel_RInv T _ _ Q HR)).
    + intro x. rewrite (sv_created _ _ Sa). apply P7.
    + intros x Hx. rewrite V8 in Hx. apply P10. exact Hx.
    + intros x Hx. rewrite V8. apply P11. exact Hx.
    + intros q v Hq. rewrite V5 in Hq. apply (P12 q v Hq).
    + rewrite V5. exact P13.
  - intros x Hx. rewrite V5. apply HL. exact Hx.
Qed.

(* ------------------------------------------------------------------ case (B): the successful end *)
Lemma ok_case : forall T W w s n d c f sa skw subs bsubs sv bytes fd,
  Sim4c T W w s -> inprog w (n :: d) -> tgtP (n :: d) -> mem_path (n :: d) W = true -> n :: d <> w_cachefile w ->
  recs_rel subs bsubs -> lookup (w_fs w) (n :: d) = Some (NFile fd) -> f_bytes fd = bytes ->
  exists fs3 f3, write_file (k_fs s) (n :: d) bytes None (k_clock s) (k_nextid s) = inl fs3 /\
    lookup fs3 (n :: d) = Some (NFile f3) /\
    let o := OBuildFile (n :: d) c f sa skw subs sv (cmp_of c fd) false false in
    let o' := OBuildFile (n :: d) c f sa skw bsubs sv (cmp_of c f3) false false in
    rec_rel o o' /\
    Sim4c T W (fin_world (n :: d) o w)
          (ks_with s fs3 (k_stale s) (k_claimedF s) (k_claimedS s) (k_need s) (k_made s)
                   (k_clock s) (N.succ (k_nextid s)) (k_log s) (k_newF s ++ [(n :: d, o')]) (k_newS s)).
Proof.
  intros T W w s n d c f sa skw subs bsubs sv bytes fd [HP HL] Hprog Htg HW Hcf Hsubs Hfd Hb.
  pose proof (s4_rinv _ _ _ _ HP) as HR2. pose proof (RInv2_R' _ _ HR2) as HR. pose proof HR as (HX & HPI & HF).
  pose proof (s4_sim _ _ _ _ HP) as HS.
  pose proof (HPI _ Hprog) as Hin.
  assert (Hne: n :: d <> []) by discriminate.
  assert (Htr: trel W (view_fs w) (k_fs s)) by (apply Sim3_trel; exact HS).
  (* Core's write succeeds *)
  assert (Hk: lookup (k_fs s) (n :: d) = None).
  { apply (trel_none_l W (view_fs w) (k_fs s) _ Htr). rewrite lookup_view by exact Hne. unfold visible.
    rewrite Hfd, (inprog_hid _ _ Hprog). reflexivity. }
  assert (Hkd: lookup (k_fs s) d = Some NDir) by exact (s4_kneed _ _ _ _ HP (n :: d) Hin).
  assert (Hn: name_ok n = true).
  { unfold tgtP, tgt_ok in Htg. apply andb_true_iff in Htg. destruct Htg as [Hok _].
    cbn [path_ok forallb] in Hok. apply andb_true_iff in Hok. apply Hok. }
  assert (Ew: exists fs3, write_file (k_fs s) (n :: d) bytes None (k_clock s) (k_nextid s) = inl fs3).
  { unfold write_file. rewrite Hk, Hkd, Hn. eauto. }
  destruct Ew as [fs3 Ew].
  destruct (write_file_frame _ _ _ _ _ _ _ Ew) as [[f3 [Hf3 [Hb3 _]]] Hoth].
  exists fs3, f3. split; [exact Ew|]. split; [exact Hf3|]. cbv zeta.
  set (o := OBuildFile (n :: d) c f sa skw subs sv (cmp_of c fd) false false).
  set (o' := OBuildFile (n :: d) c f sa skw bsubs sv (cmp_of c f3) false false).
  assert (Hrec: rec_rel o o') by (apply rec_rel_BF; [exact Hsubs|apply cmp_of_rel; congruence]).
  split; [exact Hrec|].
  (* the view: the file of p appears *)
  assert (VF: (forall a, a <> n :: d -> lookup (view_fs (fin_world (n :: d) o w)) a = lookup (view_fs w) a) /\
              (forall g, lookup (w_fs w) (n :: d) = Some (NFile g) -> lookup (view_fs (fin_world (n :: d) o w)) (n :: d) = Some (NFile g)))
    by exact (view_finish T w (n :: d) o HX Hin Hne Hcf).
  destruct VF as [Vo Vp].
  assert (Htree: trel W (view_fs (fin_world (n :: d) o w)) fs3).
  { intro a. destruct (list_eq_dec string_dec a (n :: d)) as [->|Ha].
    - rewrite HW, (Vp fd Hfd), Hf3. cbn [node_equiv]. congruence.
    - rewrite (Vo a Ha), (Hoth a Ha). apply Htr. }
  assert (Hnp: forall x, lookup (k_fs s) x = Some NDir -> lookup fs3 x = Some NDir).
  { intros x Hx. rewrite Hoth; [exact Hx|]. intro E. subst x. congruence. }
  split.
  - constructor; cbn [ks_with k_fs k_need k_made k_newS].
    + apply (sim3_finish W w w s (n :: d) o o' fs3 _ _ _ _ HS Hprog Hrec eq_refl eq_refl eq_refl eq_refl (fun q _ => eq_refl) Htree).
    + apply (RInv2_step T T w (fin_world (n :: d) o w) HR2 (gl_refl walk_fuel w)).
      apply (finish_ok_RInv T (n :: d) o w _ _ HR Hin (nfbf_eq _ _ _)).
    + apply (s4_nodup _ _ _ _ HP).
    + apply (s4_need _ _ _ _ HP).
    + intro x. rewrite fin_bd. apply (s4_made _ _ _ _ HP).
    + apply (wf_write_file _ _ _ _ _ _ _ (s4_kwf _ _ _ _ HP) Ew).
    + intros t Ht. apply Hnp. apply (s4_kneed _ _ _ _ HP t Ht).
    + intros x Hx. rewrite fin_cf in Hx. apply Hnp. apply (s4_cfdir _ _ _ _ HP x Hx).
    + intros x Hx Hs. rewrite fin_cf in Hs. apply (s4_madecf _ _ _ _ HP x Hx Hs).
    + intros q v Hq. rewrite fin_subs in Hq. apply (s4_subs_wf _ _ _ _ HP q v Hq).
    + rewrite fin_subs. apply (s4_subs_sep _ _ _ _ HP).
    + exact (s4_newS_wf _ _ _ _ HP).
  - intros x Hx. rewrite fin_has, (HL x Hx). apply orb_true_r.
Qed.

(* ------------------------------------------------------------------ the statement *)
Definition fin_post (W : list path) (w : world) (p : path) (w' : world) (r : outcome) (oo : option op)
           (s' : kstate) (out : outcome) (o' : op) : Prop :=
  exists T', Sim4c T' W w' s' /\ r = out /\ orec_rel oo (Some o') /\
    (forall y, inprog w' y <-> (inprog w y /\ y <> p)) /\
    (forall y, y <> p -> lookup (w_fs w') y = lookup (w_fs w) y) /\ w_old w' = w_old w.

Lemma fail_post : forall T W w wX s n d c f sa skw subs bsubs e0 w' r oo,
  Sim4c T W wX s -> inprog wX (n :: d) -> isdir (w_fs wX) (n :: d) = false -> recs_rel subs bsubs ->
  w_fs wX = w_fs w -> w_new wX = w_new w -> w_old wX = w_old w ->
  bf_fail (n :: d) c f sa skw subs e0 wX = (w', (r, oo)) ->
  fin_post W w (n :: d) w' r oo
           (core_prune s (n :: d) (OBuildFile (n :: d) c f sa skw bsubs PNone PNone true false)) (inr e0)
           (OBuildFile (n :: d) c f sa skw bsubs PNone PNone true false).
Proof.
  intros T W w wX s n d c f sa skw subs bsubs e0 w' r oo HS Hprog Hnd Hsubs F N O H.
  destruct (fail_case T W wX s n d c f sa skw subs bsubs e0 w' r oo HS Hprog Hnd Hsubs H) as (A1 & A2 & A3 & A4 & A5 & A6).
  exists (rm1 (n :: d) T). split; [exact A1|]. split; [exact A2|]. split; [exact A3|]. split; [|split].
  - intro y. rewrite (A4 y). unfold inprog. rewrite N. reflexivity.
  - intros y Hy. rewrite (A5 y Hy), F. reflexivity.
  - rewrite A6. exact O.
Qed.

Lemma bf_finish_ok_eq : forall p c f sa skw v sv subs w w4 fd,
  sanitize v = Some sv -> noneable_cmp p c w = (w4, inl (cmp_of c fd)) ->
  bf_finish p c f sa skw (inl v) subs w =
  (fin_world p (OBuildFile p c f sa skw subs sv (cmp_of c fd) false false) w4,
   (inl sv, Some (OBuildFile p c f sa skw subs sv (cmp_of c fd) false false))).
Proof. intros p c f sa skw v sv subs w w4 fd H H0. unfold bf_finish. rewrite H, H0. destruct c; reflexivity. Qed.

Lemma bf_finish_none_eq : forall p c f sa skw v sv subs w w4,
  sanitize v = Some sv -> noneable_cmp p c w = (w4, inl PNone) ->
  bf_finish p c f sa skw (inl v) subs w = bf_fail p c f sa skw subs (XRuntime RNotCreated) w4.
Proof. intros p c f sa skw v sv subs w w4 H H0. unfold bf_finish. rewrite H, H0. reflexivity. Qed.

(* finish_statement with one more hypothesis: the target is not the cache file *)
Definition finish_statement_cf : Prop :=
  forall st T W w s p c f sa skw res subs bsubs pend w' r oo s' out o',
    Sim4c T W w s -> HInv w -> Ctx4 (p :: st) (Some p) pend w -> mem_path p W = true ->
    p <> w_cachefile w ->
    recs_rel subs bsubs ->
    bf_finish p c f sa skw res subs w = (w', (r, oo)) ->
    core_finish s p c f sa skw bsubs res pend = (s', out, o') ->
    exists T', Sim4c T' W w' s' /\ r = out /\ orec_rel oo (Some o') /\
      (forall y, inprog w' y <-> (inprog w y /\ y <> p)) /\
      (forall y, y <> p -> lookup (w_fs w') y = lookup (w_fs w) y) /\ w_old w' = w_old w.

Theorem finish_ok_cf : finish_statement_cf.
Proof.
  intros st T W w s p c f sa skw res subs bsubs pend w' r oo s' out o' HS4 HI HC HW Hcf Hsubs H1 H2.
  change (fin_post W w p w' r oo s' out o').
  destruct (c4_tg _ _ _ _ HC p eq_refl) as [Hinst Htg].
  pose proof (proj2 (c4_prog _ _ _ _ HC p) Hinst) as Hprog.
  pose proof (c4_nodir _ _ _ _ HC p Hinst) as Hnd.
  pose proof (c4_pend _ _ _ _ HC) as Hpend. cbn [pend_rel] in Hpend. destruct Hpend as [_ Hpend].
  pose proof HS4 as [HP HL].
  pose proof (s4_rinv _ _ _ _ HP) as HR2. pose proof (RInv2_R' _ _ HR2) as HR. pose proof HR as (HX & HPI & HF).
  pose proof (HPI _ Hprog) as Hin.
  destruct (x_tgt _ _ HX p Hin) as [Hne _]. destruct p as [|n d]; [contradiction|]. clear Hne.
  assert (Hok: path_ok (n :: d) = true) by (unfold tgtP, tgt_ok in Htg; apply andb_true_iff in Htg; apply Htg).
  unfold core_finish in H2. cbv zeta in H2.
  destruct res as [v|e].
  2:{ inversion H2; subst s' out o'.
      apply (fail_post T W w w s n d c f sa skw subs bsubs e w' r oo HS4 Hprog Hnd Hsubs eq_refl eq_refl eq_refl H1). }
  destruct (sanitize v) as [sv|] eqn:Hsan.
  2:{ inversion H2; subst s' out o'.
      assert (H1': bf_fail (n :: d) c f sa skw subs XType w = (w', (r, oo))) by (unfold bf_finish in H1; rewrite Hsan in H1; exact H1).
      apply (fail_post T W w w s n d c f sa skw subs bsubs XType w' r oo HS4 Hprog Hnd Hsubs eq_refl eq_refl eq_refl H1'). }
  destruct (noneable_cmp (n :: d) c w) as [w4 r4] eqn:Ec.
  destruct (Sim4c_qrel T W w w4 s HS4 (noneable_cmp_q _ _ _ _ _ Ec)) as (HS4' & F4 & N4 & O4 & C4 & G4).
  assert (Hprog4: inprog w4 (n :: d)) by (unfold inprog; rewrite N4; exact Hprog).
  destruct pend as [bytes|].
  - (* the function wrote its target *)
    destruct Hpend as [fd [Hfd Hb]].
    pose proof (noneable_cmp_file _ _ _ _ _ fd (proj1 HI) Hfd Ec) as Er. subst r4.
    assert (Hfd4: lookup (w_fs w4) (n :: d) = Some (NFile fd)) by (rewrite F4; exact Hfd).
    assert (Hcf4: n :: d <> w_cachefile w4) by (rewrite C4; exact Hcf).
    assert (HW4: mem_path (n :: d) W = true) by exact HW.
    destruct (ok_case T W w4 s n d c f sa skw subs bsubs sv bytes fd HS4' Hprog4 Htg HW4 Hcf4 Hsubs Hfd4 Hb)
      as (fs3 & f3 & Ew & Hf3 & Hrec & HS').
    cbv zeta in Hrec, HS'.
    rewrite Ew, Hf3 in H2. inversion H2; subst s' out o'. clear H2.
    rewrite (bf_finish_ok_eq _ _ _ _ _ _ _ _ _ _ _ Hsan Ec) in H1. inversion H1; subst w' r oo. clear H1.
    exists T. split; [exact HS'|]. split; [reflexivity|]. split; [exact Hrec|]. split; [|split].
    + intro y. rewrite fin_inprog. unfold inprog. rewrite N4. reflexivity.
    + intros y Hy. rewrite fin_fs, F4. reflexivity.
    + rewrite fin_old. exact O4.
  - (* it did not: RuntimeError on both sides *)
    assert (Hl: lookup (w_fs w) (n :: d) = None).
    { unfold isfile in Hpend. unfold isdir in Hnd. destruct (lookup (w_fs w) (n :: d)) as [[g|]|]; try discriminate. reflexivity. }
    pose proof (noneable_cmp_absent _ _ _ _ _ Hok Hl Ec) as Er. subst r4.
    rewrite (bf_finish_none_eq _ _ _ _ _ _ _ _ _ _ Hsan Ec) in H1.
    rewrite Hok in H2. inversion H2; subst s' out o'.
    assert (Hnd4: isdir (w_fs w4) (n :: d) = false) by (rewrite F4; exact Hnd).
    apply (fail_post T W w w4 s n d c f sa skw subs bsubs (XRuntime RNotCreated) w' r oo HS4' Hprog4 Hnd4 Hsubs F4 N4 O4 H1).
Qed.

Print Assumptions finish_ok_cf.

(* finish_statement itself follows as soon as "a target in progress is not the cache file" is
   available (it is not a consequence of Sim4c / Ctx4 / HInv: see the counterexample below) *)
Corollary finish_ok_of_cf :
  (forall st T W w s p pend, Sim4c T W w s -> HInv w -> Ctx4 (p :: st) (Some p) pend w -> p <> w_cachefile w) ->
  finish_statement.
Proof.
  intros Hcf st T W w s p c f sa skw res subs bsubs pend w' r oo s' out o' HS4 HI HC HW Hsubs H1 H2.
  apply (finish_ok_cf st T W w s p c f sa skw res subs bsubs pend w' r oo s' out o' HS4 HI HC HW
                      (Hcf st T W w s p pend HS4 HI HC) Hsubs H1 H2).
Qed.

(* the same with the premise in the shape of a field of the context invariant: once Ctx4 has
   a field  c4_notcf : forall y, In y st -> y <> w_cachefile w,  finish_statement is
   finish_ok_of_ctx (fun st tg pend w HC => c4_notcf st tg pend w HC)  (and the module Refute
   below, which refutes the statement for the present Ctx4, has to go) *)
Corollary finish_ok_of_ctx :
  (forall st tg pend w, Ctx4 st tg pend w -> forall y, In y st -> y <> w_cachefile w) ->
  finish_statement.
Proof.
  intro Hcf. apply finish_ok_of_cf. intros st T W w s p pend _ _ HC.
  apply (Hcf (p :: st) (Some p) pend w HC p). left. reflexivity.
Qed.

(* ------------------------------------------------------------------ finish_statement is false when the target is the cache file *)
Module Refute.
  Close Scope m_scope.
  Open Scope string_scope.
  Definition P : path := ["c"].
  Definition f0 : fnode := {| f_bytes := "x"; f_mtime := 0%N; f_id := 0%N; f_json := None |}.
  Definition cn : cache :=
    {| c_name := "n"; c_files := [(P, None)]; c_subs := []; c_dirs := []; c_fvers := PDict []; c_built := [P] |}.
  Definition co : cache := empty_cache "n" (PDict []).
  Definition b0 : bdirs :=
    {| bd_counts := [([], 1)]; bd_created := []; bd_err_created := []; bd_removed := []; bd_exists := [];
       bd_maybe := []; bd_removed_files := [] |}.
  Definition w0 : world :=
    {| w_fs := [(P, Some (NFile f0))]; w_clock := 1%N; w_nextid := 1%N; w_old := co; w_new := cn; w_bd := b0;
       w_backups := []; w_lost := []; w_hash := []; w_cachefile := P; w_log := []; w_faults := []; w_effects := 0 |}.
  Definition s0 : kstate :=
    {| k_fs := []; k_stale := []; k_staledirs := []; k_claimedF := [P]; k_claimedS := []; k_need := [P]; k_made := [];
       k_clock := 1%N; k_nextid := 1%N; k_log := []; k_cachefile := P; k_old := co; k_vers := PDict [];
       k_newF := []; k_newS := [] |}.

  Lemma lk : forall x, lookup (w_fs w0) x =
    if path_eqb P x then Some (NFile f0) else match x with [] => Some NDir | _ => None end.
  Proof. intros [|a x]; [reflexivity|]. cbn [lookup w_fs w0 raw_lookup]. destruct (path_eqb P (a :: x)); reflexivity. Qed.

  Lemma isfile_P : forall x, isfile (w_fs w0) x = true -> x = P.
  Proof.
    intros x H. unfold isfile in H. rewrite lk in H. destruct (path_eqb P x) eqn:E; [apply path_eqb_eq in E; auto|].
    destruct x; discriminate.
  Qed.

  Lemma isdir_root : forall x, isdir (w_fs w0) x = true -> x = [].
  Proof.
    intros x H. unfold isdir in H. rewrite lk in H. destruct (path_eqb P x) eqn:E; [discriminate|].
    destruct x; [reflexivity|discriminate].
  Qed.

  Lemma counts_root : forall x, in_counts b0 x = true -> x = [].
  Proof. intros [|a x] H; [reflexivity|]. discriminate. Qed.

  Lemma dead0 : forall x, dead w0 x = false.
  Proof. intro x. rewrite dead_unfold. reflexivity. Qed.

  Lemma hidP : hid w0 P = true. Proof. reflexivity. Qed.

  Lemma binv0 : BInv w0.
  Proof.
    constructor.
    - intros p n H. rewrite lk in H. rewrite lk. destruct (path_eqb P p) eqn:E.
      + apply path_eqb_eq in E. subst p. reflexivity.
      + destruct p; [reflexivity|discriminate].
    - reflexivity.
    - intros n d H. discriminate.
    - intros d H. discriminate.
    - intros a H. discriminate.
    - intros a Hf Hh Hc. apply isfile_P in Hf. subst a. discriminate.
    - intros a d H. discriminate.
    - intros q x H. discriminate.
  Qed.

  Lemma sinv0 : SInv b0.
  Proof.
    constructor.
    - intros x H. discriminate.
    - intros x H. right. split; reflexivity.
    - intros q H. discriminate.
    - intros x H. reflexivity.
  Qed.

  Lemma xinv0 : XInv [P] w0.
  Proof.
    constructor.
    - exact binv0.
    - exact sinv0.
    - repeat constructor. intros [].
    - intros [|a x]; cbn; discriminate.
    - intros [|a x]; reflexivity.
    - intros x H. apply counts_root in H. subst x. left. reflexivity.
    - intros x H _. apply counts_root in H. subst x. reflexivity.
    - intros t [<-|[]]. split; [discriminate|]. split; [reflexivity|]. intro H. discriminate.
    - intros x n H. discriminate.
    - intros x n H. discriminate.
    - intros a Hf Hh Hn. apply isfile_P in Hf. subst a. exfalso. apply Hn. left. reflexivity.
    - intros a H. discriminate.
  Qed.

  Lemma rinv0 : RInv [P] w0.
  Proof.
    split; [exact xinv0|]. split; [|reflexivity].
    intros x H. cbn [w_new w0 c_files cn files_get] in H. destruct (path_eqb P x) eqn:E; [|discriminate].
    apply path_eqb_eq in E. left. exact E.
  Qed.

  Lemma rinv20 : RInv2 (fun _ => True) [P] w0.
  Proof.
    split; [exact rinv0|]. split; [|split; [|exact I]].
    - split; [reflexivity|]. cbn. unfold walk_fuel. lia.
    - split; intros p rec H; discriminate.
  Qed.

  Lemma view0 : forall x, lookup (view_fs w0) x = lookup (k_fs s0) x.
  Proof.
    intros [|a x]; [reflexivity|]. rewrite lookup_view by discriminate. unfold visible. rewrite lk.
    destruct (path_eqb P (a :: x)) eqn:E; [|reflexivity]. apply path_eqb_eq in E. rewrite <- E. reflexivity.
  Qed.

  Lemma sim30 : Sim3 [P] w0 s0.
  Proof.
    constructor.
    - intro p. rewrite view0. destruct (mem_path p [P]); [apply node_equiv_refl|reflexivity].
    - reflexivity.
    - reflexivity.
    - intro f. reflexivity.
    - intro p. unfold cache_has_file. cbn [k_claimedF s0 mem_path w_new w0 c_files cn files_get]. destruct (path_eqb P p); reflexivity.
    - intro k. reflexivity.
    - reflexivity.
    - intro p. unfold cache_get_file. cbn [k_newF s0 kf_get w_new w0 c_files cn files_get]. destruct (path_eqb P p); exact I.
    - intro k. exact I.
    - intro p. cbn [k_stale s0 stale_get]. destruct (lookup (w_fs w0) p) as [[g|]|]; reflexivity.
  Qed.

  Lemma sim4c0 : Sim4c [P] [P] w0 s0.
  Proof.
    split.
    - constructor.
      + exact sim30.
      + exact rinv20.
      + repeat constructor. intros [].
      + intro x. apply ViewLemmas.mem_path_In.
      + intro x. reflexivity.
      + intros p n H. destruct p; [reflexivity|discriminate].
      + intros t [<-|[]]. reflexivity.
      + intros x H. apply suffix_nil in H. subst x. reflexivity.
      + intros x [].
      + intros q v [].
      + exact I.
      + intros q o [].
    - intros x [<-|[]]. reflexivity.
  Qed.

  Lemma hinv0 : HInv w0.
  Proof. split; [intros p h b f H; discriminate|intros p h H; discriminate]. Qed.

  Lemma ctx0 : Ctx4 [P] (Some P) (Some "x") w0.
  Proof.
    constructor.
    - intro y. unfold inprog. cbn [w_new w0 c_files cn files_get In]. destruct (path_eqb P y) eqn:E.
      + apply path_eqb_eq in E. split; [intro; left; exact E|reflexivity].
      + split; [discriminate|]. intros [K|[]]. apply path_eqb_neq in E. contradiction.
    - intros p E. inversion E; subst p. split; [left; reflexivity|reflexivity].
    - split; [reflexivity|]. exists f0. split; reflexivity.
    - intros y [<-|[]]. reflexivity.
    - intros t E. inversion E; subst t. split; [reflexivity|]. intros h K. discriminate.
  Qed.

  (* the two ends *)
  Definition wE := fst (bf_finish P METADATA "f" PNone PNone (inl PNone) [] w0).
  Definition sE := fst (fst (core_finish s0 P METADATA "f" PNone PNone [] (inl PNone) (Some "x"))).

  (* the mechanism keeps the cache file hidden, Core shows the file it wrote *)
  Example ends_differ :
    lookup (view_fs wE) P = None /\ isfile (k_fs sE) P = true.
  Proof. vm_compute. split; reflexivity. Qed.

  Theorem finish_statement_false : ~ finish_statement.
  Proof.
    intro H.
    destruct (bf_finish P METADATA "f" PNone PNone (inl PNone) [] w0) as [w' [r oo]] eqn:E1.
    destruct (core_finish s0 P METADATA "f" PNone PNone [] (inl PNone) (Some "x")) as [[s' out] o'] eqn:E2.
    destruct (H [] [P] [P] w0 s0 P METADATA "f" PNone PNone (inl PNone) [] [] (Some "x") w' r oo s' out o'
                sim4c0 hinv0 ctx0 eq_refl I E1 E2) as (T' & [HP _] & _).
    pose proof (s3_tree _ _ _ (s4_sim _ _ _ _ HP) P) as K.
    assert (Ew: w' = wE) by (unfold wE; rewrite E1; reflexivity).
    assert (Es: s' = sE) by (unfold sE; rewrite E2; reflexivity).
    subst w' s'. destruct ends_differ as [A B]. rewrite A in K. cbn [mem_path] in K. rewrite path_eqb_refl in K. cbn [orb] in K.
    unfold isfile in B. destruct (lookup (k_fs sE) P) as [[g|]|]; try discriminate; exact K.
  Qed.
End Refute.

Print Assumptions Refute.finish_statement_false.
