(* Proofs/CoreLaws6.v — cache transparency, a whole build: core_build against ref_build
   from the same pre-state (C01 for the Core model). *)
From Coq Require Import List String Ascii NArith ZArith Bool Arith Lia.
From FB.Base Require Import PyVal Fs.
From FB.Gen Require Import JsonUtilGen.
From FB.Spec Require Import JsonSpec Prog Ref Oracle Faithful.
From FB.Model Require Import Types SimpleOps Builder Persist Core CoreOracle.
From FB.Proofs Require Import FsLemmas JsonLaws CleanLaws CoreLawsChildren CoreLawsJson CoreLaws1 CoreLaws2 CoreLaws3 CoreLaws4 CoreLaws5.
Import ListNotations.
Local Open Scope list_scope.

(* ------------------------------------------------------------------ *)
(* subsequences                                                       *)
(* ------------------------------------------------------------------ *)
Lemma sublog_app : forall {A} (a b c d : list A), sublog a b -> sublog c d -> sublog (a ++ c) (b ++ d).
Proof.
  intros A a b c d H. induction H as [l|x a b H IH|y a b H IH]; intro Hc; simpl.
  - apply sublog_app_r. exact Hc.
  - constructor. auto.
  - constructor. auto.
Qed.

Lemma sublog_rev : forall {A} (a b : list A), sublog a b -> sublog (rev a) (rev b).
Proof.
  intros A a b H. induction H as [l|x a b H IH|y a b H IH]; simpl.
  - constructor.
  - apply sublog_app; [exact IH|apply sublog_refl].
  - rewrite <- (app_nil_r (rev a)). apply sublog_app; [exact IH|constructor].
Qed.

(* ------------------------------------------------------------------ *)
(* the cleaned tree                                                   *)
(* ------------------------------------------------------------------ *)
Lemma try_rmdir_file : forall fs p q f, lookup (try_rmdir fs p) q = Some (NFile f) -> lookup fs q = Some (NFile f).
Proof. intros fs p q f H. destruct (try_rmdir_char fs p q) as [E|[_ [E _]]]; congruence. Qed.

Lemma fold_try_remove_file' : forall l fs q f, lookup (fold_left try_remove l fs) q = Some (NFile f) -> lookup fs q = Some (NFile f).
Proof. induction l as [|a l IH]; simpl; intros fs q f H; [exact H|]. apply IH in H. eapply try_remove_file; eauto. Qed.
Lemma fold_try_rmdir_file' : forall l fs q f, lookup (fold_left try_rmdir l fs) q = Some (NFile f) -> lookup fs q = Some (NFile f).
Proof. induction l as [|a l IH]; simpl; intros fs q f H; [exact H|]. apply IH in H. eapply try_rmdir_file; eauto. Qed.

Lemma ref_clean_file : forall fs cf pv q f, lookup (ref_clean fs cf pv) q = Some (NFile f) -> lookup fs q = Some (NFile f).
Proof.
  intros fs cf pv q f H. unfold ref_clean in H. apply fold_try_rmdir_file' in H. apply try_remove_file in H.
  apply fold_try_remove_file' in H. exact H.
Qed.

Lemma ref_clean_wf : forall fs cf pv, fs_wf fs -> fs_wf (ref_clean fs cf pv).
Proof. intros. unfold ref_clean. apply wf_fold_try_rmdir, wf_try_remove, wf_fold_try_remove. assumption. Qed.

(* a recorded output that is a regular file is gone after cleaning *)
Lemma ref_clean_output : forall fs cf pv p, In p (pv_outputs pv) -> isfile (ref_clean fs cf pv) p = false.
Proof.
  intros fs cf pv p Hin. destruct (isfile (ref_clean fs cf pv) p) eqn:E; [|reflexivity]. exfalso.
  apply isfile_lookup in E. destruct E as [f Hf]. unfold ref_clean in Hf.
  apply fold_try_rmdir_file' in Hf. apply try_remove_file in Hf.
  pose proof (fold_try_remove_file' _ _ _ _ Hf) as Hf0.
  assert (Hi : isfile fs p = true) by (apply isfile_lookup; eauto).
  rewrite (fold_try_remove_removes _ _ _ Hin Hi) in Hf. discriminate.
Qed.

Lemma created_files_In : forall l p o, files_get l p = Some (Some o) -> op_raised o = false ->
  In p (flat_map (fun e : path * option op => match snd e with Some o => if op_raised o then [] else [fst e] | None => [] end) l).
Proof.
  induction l as [|[q x] l IH]; simpl; intros p o H Hr; [discriminate|].
  destruct (path_eqb q p) eqn:E.
  - apply path_eqb_eq in E. subst q. inversion H; subst x. rewrite Hr. left. reflexivity.
  - apply in_or_app. right. eapply IH; eauto.
Qed.

Lemma stale_init_get : forall fs l q f,
  stale_get (flat_map (fun p => match lookup fs p with Some (NFile f) => [(p, f)] | _ => [] end) l) q = Some f ->
  lookup fs q = Some (NFile f).
Proof.
  intros fs l q f. induction l as [|p l IH]; simpl; [discriminate|].
  destruct (lookup fs p) as [[g|]|] eqn:E; simpl; auto.
  destruct (path_eqb p q) eqn:Eq; [|exact IH]. apply path_eqb_eq in Eq. subst p. intro H. inversion H; subst. exact E.
Qed.

(* ------------------------------------------------------------------ *)
(* Theorem T1, with all invariants re-established                     *)
(* ------------------------------------------------------------------ *)
Theorem T1_full : forall (kp : kappa) (F : ftable) old vers clock0 pr,
  Respects F -> cache_wf old -> faithful_cache kp F old vers -> kp_new kp clock0 -> Obeys F pr ->
  forall tgt pend subs s r s' out pend' subs' r' out_r pend_r,
    sim s r -> KInv kp old vers clock0 s -> RInv' tgt r -> sublog (k_log s) (r_log r) ->
    core_run pr tgt pend subs s = (s', (out, pend', subs')) ->
    ref_run pr tgt pend r = (r', (out_r, pend_r)) ->
    out = out_r /\ pend' = pend_r /\ sim s' r' /\ sublog (k_log s') (r_log r') /\
    KInv kp old vers clock0 s' /\ RInv' tgt r'.
Proof.
  intros kp F old vers clock0 pr HR HW HF HN HO tgt pend subs s r s' out pend' subs' r' out_r pend_r S K I L Hc Hr.
  destruct (T1 kp F old vers clock0 HR HW HF HN pr HO _ _ _ _ _ _ _ _ _ _ _ _ S K I L Hc Hr) as [E1 [E2 [S' [K' [L' _]]]]].
  destruct (ref_run_inv _ _ _ _ _ _ _ I Hr) as [I' _].
  split; [exact E1|]. split; [exact E2|]. split; [exact S'|]. split; [exact L'|]. split; [exact K'|exact I'].
Qed.

(* ------------------------------------------------------------------ *)
(* Theorem: one build                                                 *)
(* ------------------------------------------------------------------ *)
Theorem build_transparent : forall (kp : kappa) (F : ftable) fs cf old vers clock nextid root,
  Obeys F root -> Respects F -> cache_wf old -> faithful_cache kp F old vers ->
  kp_init kp fs -> kp_new kp clock -> fs_wf fs ->
  let cr := core_build fs cf old vers clock nextid root in
  let rr := ref_build fs cf (prev_of_cache old) clock nextid root in
  cr_outcome cr = rr_outcome rr /\ tree_equiv (cr_tree cr) (rr_tree rr) /\ sublog (cr_log cr) (rr_log rr).
Proof.
  intros kp F fs cf old vers clock nextid root HO HR HW HF HI HN W cr rr. subst cr rr.
  unfold core_build, ref_build.
  set (pv := prev_of_cache old). set (t0 := ref_clean fs cf pv).
  destruct (missing_dirs t0 cf (dirname cf)) as [dirs|c] eqn:Em.
  2:{ cbn. repeat split; [apply te_refl|constructor]. }
  destruct (mkdir_all t0 dirs) as [t1|e] eqn:Ek.
  2:{ cbn. repeat split; [apply te_refl|constructor]. }
  assert (W0 : fs_wf t0) by (apply ref_clean_wf; exact W).
  destruct (setup_dirs _ _ _ _ _ W0 Em Ek) as [_ [W1 [Hfr _]]].
  set (s0 := {| k_fs := t1;
                k_stale := flat_map (fun p => match lookup fs p with Some (NFile f) => [(p, f)] | _ => [] end) (pv_outputs pv);
                k_staledirs := filter (fun d => isdir fs d && negb (isdir t0 d)) (pv_dirs pv);
                k_claimedF := []; k_claimedS := []; k_need := []; k_made := dirs; k_clock := clock; k_nextid := nextid;
                k_log := [LInvoke "<root>" None PNone PNone]; k_cachefile := cf; k_old := old; k_vers := vers;
                k_newF := []; k_newS := [] |}).
  set (r0 := {| r_fs := t1; r_claimedF := []; r_claimedS := []; r_need := []; r_made := dirs; r_clock := clock;
                r_nextid := nextid; r_log := [LInvoke "<root>" None PNone PNone]; r_cachefile := cf |}).
  assert (S0 : sim s0 r0).
  { repeat split; try reflexivity. apply te_refl. }
  assert (Hfile : forall q f, lookup t1 q = Some (NFile f) -> lookup fs q = Some (NFile f)).
  { intros q f Hq. apply (ref_clean_file fs cf pv). fold t0. destruct (Hfr q) as [E|[_ [E _]]]; congruence. }
  assert (K0 : KInv kp old vers clock s0).
  { repeat split; try reflexivity.
    - intros q f [Hq|Hq]; apply HI; [apply Hfile; exact Hq|eapply stale_init_get; exact Hq].
    - intros q o Ho Hr Hq. exfalso. cbn in Hq.
      assert (Hin : In q (pv_outputs pv)).
      { cbn. unfold cache_created_files. eapply created_files_In; [apply cache_get_file_files; exact Ho|exact Hr]. }
      pose proof (ref_clean_output fs cf pv q Hin) as Hx. fold t0 in Hx.
      unfold isfile in Hq, Hx. destruct (Hfr q) as [E|[E1 [E2 _]]].
      + rewrite E in Hq. congruence.
      + rewrite E2 in Hq. discriminate.
    }
  assert (I0 : RInv' None r0).
  { unfold r0. split; [split; [exact W1|split]|].
    - cbn. intros n Hn. destruct Hn.
    - intros p Hp. discriminate.
    - cbn. intros n Hn. destruct Hn. }
  assert (L0 : sublog (k_log s0) (r_log r0)) by apply sublog_refl.
  destruct (core_run root None None [] s0) as [s1 [[res pd] sb]] eqn:Ec.
  destruct (ref_run root None None r0) as [r1 [res_r pd_r]] eqn:Er.
  destruct (T1 kp F old vers clock HR HW HF HN root HO None None [] s0 r0 s1 res pd sb r1 res_r pd_r S0 K0 I0 L0 Ec Er)
    as [E1 [_ [S1 [_ [L1 _]]]]].
  cbn. split; [exact E1|]. split; [exact (proj1 S1)|]. apply sublog_rev. exact L1.
Qed.

Print Assumptions T1_full.
Print Assumptions build_transparent.
