(* Proofs/CoreNextState.v — what a run of Core does to its state, without reference to the specification:
   claims and registrations only grow, files at claimed paths stay, new directories lie above new claims,
   every visible file was visible or stale before or sits at a claimed path. *)
From Coq Require Import List String Ascii NArith ZArith Bool Arith Lia.
From FB.Base Require Import PyVal Fs.
From FB.Gen Require Import JsonUtilGen.
From FB.Spec Require Import JsonSpec Prog Ref Oracle Faithful.
From FB.Model Require Import Types SimpleOps Builder Persist Core CoreOracle CoreCache.
From FB.Proofs Require Import FsLemmas JsonLaws CleanLaws CoreLawsJson CoreLaws1 CoreLaws2 CoreLaws3 CoreLaws4 CoreLaws5
     CoreNextDefs CoreNextRegs.
Import ListNotations.
Local Open Scope list_scope.

(* ------------------------------------------------------------------ *)
(* file-system steps, without well-formedness                         *)
(* ------------------------------------------------------------------ *)
Lemma missing_dirs_anc : forall fs cf d dirs, missing_dirs fs cf d = inl dirs ->
  forall q, In q dirs -> q = d \/ is_ancestor q d = true.
Proof.
  intros fs cf d. induction d as [|x up IH]; intros dirs H q Hq.
  - cbn in H. inversion H; subst. destruct Hq.
  - rewrite missing_dirs_eq in H. destruct (lookup fs (x :: up)) as [[f|]|]; try discriminate.
    + inversion H; subst. destruct Hq.
    + destruct (path_eqb (x :: up) cf); [discriminate|].
      destruct (missing_dirs fs cf up) as [l|e] eqn:El; [|discriminate]. inversion H; subst.
      apply in_app_or in Hq. destruct Hq as [Hq|[Hq|[]]]; [|left; congruence].
      right. destruct (IH l eq_refl q Hq) as [->|Ha]; [apply is_ancestor_dirname|].
      cbn. rewrite Ha. apply orb_true_r.
Qed.

Lemma mkdir_all_char : forall l fs fs1, mkdir_all fs l = inl fs1 ->
  forall q, lookup fs1 q = lookup fs q \/ (In q l /\ lookup fs1 q = Some NDir /\ lookup fs q = None).
Proof.
  induction l as [|d l IH] using rev_ind; intros fs fs1 H q.
  - cbn in H. inversion H; subst. left. reflexivity.
  - rewrite mkdir_all_app1 in H. destruct (mkdir_all fs l) as [f0|e] eqn:E; [|discriminate]. cbn [mkstep] in H.
    destruct (mkdir_frame _ _ _ H) as [Hd [Hn Hoth]].
    destruct (path_eqb q d) eqn:Eq.
    + apply path_eqb_eq in Eq. subst q. destruct (IH _ _ E d) as [E1|[E1 [E2 E3]]].
      * right. split; [apply in_or_app; right; left; reflexivity|]. split; [exact Hd|congruence].
      * congruence.
    + apply path_eqb_neq in Eq. rewrite (Hoth q Eq). destruct (IH _ _ E q) as [E1|[E1 [E2 E3]]]; [left; exact E1|].
      right. split; [apply in_or_app; left; exact E1|]. split; assumption.
Qed.

(* the set-up of target p: what it does to the tree *)
Lemma setup_char : forall fs cf p fs1 dirs, setup_fs fs cf p = inl (fs1, dirs) ->
  forall q, lookup fs1 q = lookup fs q \/ (is_ancestor q p = true /\ lookup fs1 q = Some NDir /\ lookup fs q = None).
Proof.
  intros fs cf p fs1 dirs H q. unfold setup_fs in H. destruct (isdir fs p) eqn:Ed; [discriminate|].
  destruct (missing_dirs fs cf (dirname p)) as [dirs'|e] eqn:Em; [|discriminate].
  destruct (mkdir_all fs dirs') as [fs1'|e] eqn:Ek; [|discriminate]. inversion H; subst.
  destruct (mkdir_all_char _ _ _ Ek q) as [E|[E1 [E2 E3]]]; [left; exact E|right].
  split; [|split; assumption].
  destruct p as [|x d].
  - cbn in Em. inversion Em; subst. destruct E1.
  - cbn [dirname tl] in Em. destruct (missing_dirs_anc _ _ _ _ Em q E1) as [->|Ha]; [apply is_ancestor_dirname|].
    cbn. rewrite Ha. apply orb_true_r.
Qed.

Lemma anc_not_self_file : forall q p, is_ancestor q p = true -> q <> p.
Proof. intros q p H E. subst. rewrite is_ancestor_irrefl in H. discriminate. Qed.

(* ------------------------------------------------------------------ *)
(* the replay on the scratch copy                                     *)
(* ------------------------------------------------------------------ *)
Record KRf (s : kstate) (rp rp' : rstate') (cF : list path) : Prop := mkKRf {
  kr_cF : rp_claimedF rp' = rp_claimedF rp;
  kr_cS : rp_claimedS rp' = rp_claimedS rp;
  kr_pers : forall q g, mem_path q (rp_claimedF rp) = true -> lookup (rp_fs rp) q = Some (NFile g) ->
                        lookup (rp_fs rp') q = Some (NFile g);
  kr_dirs : forall q, isdir (rp_fs rp') q = true -> isdir (rp_fs rp) q = true \/ existsb (is_ancestor q) cF = true;
  kr_vis : forall q g, lookup (rp_fs rp') q = Some (NFile g) ->
                       lookup (rp_fs rp) q = Some (NFile g) \/ (phys (k_fs s) (k_stale s) q = Some g /\ In q cF)
}.

Lemma KRf_refl : forall s rp, KRf s rp rp [].
Proof. intros. constructor; auto. Qed.

Lemma KRf_trans : forall s a b c c1 c2, KRf s a b c1 -> KRf s b c c2 -> KRf s a c (c1 ++ c2).
Proof.
  intros s a b c c1 c2 [A1 A2 A3 A4 A5] [B1 B2 B3 B4 B5]. constructor.
  - congruence.
  - congruence.
  - intros q g Hq Hl. apply B3; [rewrite A1; exact Hq|]. apply A3; assumption.
  - intros q Hq. rewrite existsb_app. destruct (B4 q Hq) as [H|H]; [|right; rewrite H; apply orb_true_r].
    destruct (A4 q H) as [H'|H']; [left; exact H'|right; rewrite H'; reflexivity].
  - intros q g Hq. destruct (B5 q g Hq) as [H|[H1 H2]].
    + destruct (A5 q g H) as [H'|[H1 H2]]; [left; exact H'|right; split; [exact H1|apply in_or_app; left; exact H2]].
    + right. split; [exact H1|apply in_or_app; right; exact H2].
Qed.

Lemma KRf_start : forall s rp p fs1 dirs,
  mem_path p (rp_claimedF rp) = false ->
  setup_fs (rp_fs rp) (k_cachefile s) p = inl (fs1, dirs) ->
  KRf s rp (rp_start rp p fs1 dirs) [p].
Proof.
  intros s rp p fs1 dirs Hp Hs. constructor; cbn [rp_start rp_fs rp_claimedF rp_claimedS]; auto.
  - intros q g Hq Hl. assert (q <> p) by (intro; subst; congruence).
    rewrite try_remove_frame by assumption. destruct (setup_char _ _ _ _ _ Hs q) as [E|[_ [_ E]]]; congruence.
  - intros q Hq. apply try_remove_isdir in Hq. unfold isdir in *.
    destruct (setup_char _ _ _ _ _ Hs q) as [E|[E1 _]]; [left; rewrite <- E; exact Hq|right].
    cbn. rewrite E1. reflexivity.
  - intros q g Hq. left. apply try_remove_file in Hq.
    destruct (setup_char _ _ _ _ _ Hs q) as [E|[_ [E _]]]; congruence.
Qed.

Lemma KRf_prune : forall s r2 p, KRf s r2 (rp_prune r2 p) [].
Proof.
  intros s r2 p. constructor; auto.
  - intros q g _ Hl. rewrite rp_prune_fs. apply prune_fs_file. exact Hl.
  - intros q Hq. left. rewrite rp_prune_fs in Hq. eapply prune_fs_isdir; eauto.
  - intros q g Hq. left. rewrite rp_prune_fs in Hq. apply prune_fs_file in Hq. exact Hq.
Qed.

Lemma lookup_upd_file : forall fs p f q g, lookup (upd p (Some (NFile f)) fs) q = Some (NFile g) ->
  (q = p /\ g = f) \/ (q <> p /\ lookup fs q = Some (NFile g)).
Proof.
  intros fs p f q g H. destruct (path_eqb q p) eqn:E.
  - apply path_eqb_eq in E. subst q. destruct p as [|x d]; [discriminate|].
    rewrite lookup_upd_eq in H by discriminate. inversion H. left. auto.
  - apply path_eqb_neq in E. rewrite lookup_upd_neq in H by exact E. right. auto.
Qed.

Lemma isdir_upd_file : forall fs p f q, isdir (upd p (Some (NFile f)) fs) q = true -> isdir fs q = true.
Proof.
  intros fs p f q H. unfold isdir in *. destruct (path_eqb q p) eqn:E.
  - apply path_eqb_eq in E. subst q. destruct p as [|x d]; [reflexivity|].
    rewrite lookup_upd_eq in H by discriminate. discriminate.
  - apply path_eqb_neq in E. rewrite lookup_upd_neq in H by exact E. exact H.
Qed.

Lemma KRf_put : forall s r2 p f, mem_path p (rp_claimedF r2) = false -> phys (k_fs s) (k_stale s) p = Some f ->
  KRf s r2 (rp_put r2 p f) [p].
Proof.
  intros s r2 p f Hp Hf. constructor; cbn [rp_put rp_fs rp_claimedF rp_claimedS]; auto.
  - intros q g Hq Hl. assert (q <> p) by (intro; subst; congruence). rewrite lookup_upd_neq by assumption. exact Hl.
  - intros q Hq. left. eapply isdir_upd_file; eauto.
  - intros q g Hq. destruct (lookup_upd_file _ _ _ _ _ Hq) as [[-> ->]|[_ H]]; [right; split; [exact Hf|left; reflexivity]|left; exact H].
Qed.

Lemma KRf_weaken : forall s a b c c', incl c c' -> KRf s a b c -> KRf s a b c'.
Proof.
  intros s a b c c' Hi [A1 A2 A3 A4 A5]. constructor; auto.
  - intros q Hq. destruct (A4 q Hq) as [H|H]; [left; exact H|right]. apply existsb_exists in H. destruct H as [x [Hx Ha]].
    apply existsb_exists. exists x. split; auto.
  - intros q g Hq. destruct (A5 q g Hq) as [H|[H1 H2]]; [left; exact H|right; auto].
Qed.

Lemma kreplay_facts : forall s o rp rp', kreplay s o rp = Some rp' -> KRf s rp rp' (fst (tree_claims o)).
Proof.
  intros s o. induction o as [q r e|p c f a k subs r cr ra sf IH|f a k subs r ra sf IH] using op_ind'; intros rp rp' H.
  - rewrite kreplay_Simple in H.
    destruct (record_answer (rp_fs rp) q) as [v|c0]; destruct e as [c1|]; try discriminate.
    + destruct (is_equal v r); inversion H; subst. apply KRf_refl.
    + destruct (is_equal PNone r && errclass_eqb c0 c1); inversion H; subst. apply KRf_refl.
  - assert (L : forall rp rp', kreplay_list s subs rp = Some rp' -> KRf s rp rp' (fst (cll subs))).
    { clear -IH. induction subs as [|x rest IHl]; intros rp rp' H.
      - cbn in H. inversion H; subst. apply KRf_refl.
      - inversion IH as [|? ? Hx Hrest]; subst. rewrite kreplay_list_cons in H. destruct (kreplay s x rp) as [r1|] eqn:E; [|discriminate].
        rewrite cll_cons. cbn [fst]. eapply KRf_trans; [apply Hx; exact E|apply IHl; assumption]. }
    rewrite kreplay_BF in H. rewrite tree_claims_BF.
    destruct (negb (kversion_equal s f)); [discriminate|]. destruct sf; [discriminate|].
    destruct (on_disk s p c cr ra) eqn:Eod; [|discriminate].
    destruct (mem_path p (rp_claimedF rp) || path_eqb p (k_cachefile s)) eqn:Ecc; [discriminate|].
    apply orb_false_iff in Ecc. destruct Ecc as [Ecc _].
    destruct (missing_dirs (rp_fs rp) (k_cachefile s) (dirname p)) as [dirs|] eqn:Emd; [|discriminate].
    destruct (mkdir_all (rp_fs rp) dirs) as [fs1|] eqn:Emk; [|discriminate].
    destruct (kreplay_list s subs (rp_start rp p fs1 dirs)) as [r2|] eqn:Ekn; [|discriminate].
    (* the path is free on the scratch copy?  not needed: set-up facts hold whenever missing_dirs/mkdir_all succeed *)
    assert (K1 : KRf s rp (rp_start rp p fs1 dirs) [p]).
    { constructor; cbn [rp_start rp_fs rp_claimedF rp_claimedS]; auto.
      - intros q g Hq Hl. assert (q <> p) by (intro; subst; congruence).
        rewrite try_remove_frame by assumption. destruct (mkdir_all_char _ _ _ Emk q) as [E|[_ [_ E]]]; congruence.
      - intros q Hq. apply try_remove_isdir in Hq. unfold isdir in *.
        destruct (mkdir_all_char _ _ _ Emk q) as [E|[E1 _]]; [left; rewrite <- E; exact Hq|right].
        cbn. rewrite orb_false_r. destruct p as [|x d].
        + cbn in Emd. inversion Emd; subst. destruct E1.
        + cbn [dirname tl] in Emd. destruct (missing_dirs_anc _ _ _ _ Emd q E1) as [->|Ha]; [apply is_ancestor_dirname|].
          cbn. rewrite Ha. apply orb_true_r.
      - intros q g Hq. left. apply try_remove_file in Hq.
        destruct (mkdir_all_char _ _ _ Emk q) as [E|[_ [E _]]]; congruence. }
    pose proof (L _ _ Ekn) as K2.
    assert (Hp2 : mem_path p (rp_claimedF r2) = false) by (rewrite (kr_cF _ _ _ _ K2); exact Ecc).
    cbn [fst]. change (p :: fst (cll subs)) with ([p] ++ fst (cll subs)).
    destruct ra.
    + inversion H; subst. rewrite <- (app_nil_r (fst (cll subs))).
      eapply KRf_trans; [exact K1|]. eapply KRf_trans; [exact K2|apply KRf_prune].
    + destruct (phys (k_fs s) (k_stale s) p) as [f0|] eqn:Eph; [|discriminate]. inversion H; subst.
      eapply KRf_weaken; [|eapply KRf_trans; [exact K1|eapply KRf_trans; [exact K2|apply (KRf_put s r2 p f0 Hp2 Eph)]]].
      intros x Hx. apply in_app_or in Hx. destruct Hx as [Hx|Hx]; [apply in_or_app; left; exact Hx|].
      apply in_app_or in Hx. destruct Hx as [Hx|Hx]; apply in_or_app; [right; exact Hx|left; exact Hx].
  - assert (L : forall rp rp', kreplay_list s subs rp = Some rp' -> KRf s rp rp' (fst (cll subs))).
    { clear -IH. induction subs as [|x rest IHl]; intros rp rp' H.
      - cbn in H. inversion H; subst. apply KRf_refl.
      - inversion IH as [|? ? Hx Hrest]; subst. rewrite kreplay_list_cons in H. destruct (kreplay s x rp) as [r1|] eqn:E; [|discriminate].
        rewrite cll_cons. cbn [fst]. eapply KRf_trans; [apply Hx; exact E|apply IHl; assumption]. }
    rewrite kreplay_SB in H. rewrite tree_claims_SB.
    destruct (negb (kversion_equal s f)); [discriminate|]. destruct sf; [discriminate|]. cbn [orb] in H.
    destruct (existsb (py_eq (subbuild_key f a k)) (rp_claimedS rp)); [discriminate|].
    cbn [fst]. apply L. exact H.
Qed.

Lemma kreplay_list_facts : forall s subs rp rp', kreplay_list s subs rp = Some rp' -> KRf s rp rp' (fst (cll subs)).
Proof.
  intros s subs. induction subs as [|x rest IHl]; intros rp rp' H.
  - cbn in H. inversion H; subst. apply KRf_refl.
  - rewrite kreplay_list_cons in H. destruct (kreplay s x rp) as [r1|] eqn:E; [|discriminate].
    rewrite cll_cons. cbn [fst]. eapply KRf_trans; [eapply kreplay_facts; exact E|apply IHl; assumption].
Qed.

Lemma kreplay_fresh : forall s o rp rp', kreplay s o rp = Some rp' ->
  forall q, In q (fst (tree_claims o)) -> mem_path q (rp_claimedF rp) = false.
Proof.
  intros s o. induction o as [q0 r e|p c f a k subs r cr ra sf IH|f a k subs r ra sf IH] using op_ind'; intros rp rp' H q Hq.
  - destruct Hq.
  - assert (L : forall rp rp', kreplay_list s subs rp = Some rp' -> forall q, In q (fst (cll subs)) -> mem_path q (rp_claimedF rp) = false).
    { clear -IH. induction subs as [|x rest IHl]; intros rp rp' H q Hq; [destruct Hq|].
      inversion IH as [|? ? Hx Hrest]; subst. rewrite kreplay_list_cons in H. destruct (kreplay s x rp) as [r1|] eqn:E; [|discriminate].
      rewrite cll_cons in Hq. cbn [fst] in Hq. apply in_app_or in Hq. destruct Hq as [Hq|Hq]; [eapply Hx; eauto|].
      rewrite <- (kr_cF _ _ _ _ (kreplay_facts _ _ _ _ E)). eapply IHl; eauto. }
    rewrite kreplay_BF in H. rewrite tree_claims_BF in Hq.
    destruct (negb (kversion_equal s f)); [discriminate|]. destruct sf; [discriminate|].
    destruct (on_disk s p c cr ra); [|discriminate].
    destruct (mem_path p (rp_claimedF rp) || path_eqb p (k_cachefile s)) eqn:Ecc; [discriminate|].
    apply orb_false_iff in Ecc. destruct Ecc as [Ecc _].
    destruct (missing_dirs (rp_fs rp) (k_cachefile s) (dirname p)) as [dirs|]; [|discriminate].
    destruct (mkdir_all (rp_fs rp) dirs) as [fs1|]; [|discriminate].
    destruct (kreplay_list s subs (rp_start rp p fs1 dirs)) as [r2|] eqn:Ekn; [|discriminate].
    cbn [fst] in Hq. destruct Hq as [<-|Hq]; [exact Ecc|]. exact (L _ _ Ekn q Hq).
  - assert (L : forall rp rp', kreplay_list s subs rp = Some rp' -> forall q, In q (fst (cll subs)) -> mem_path q (rp_claimedF rp) = false).
    { clear -IH. induction subs as [|x rest IHl]; intros rp rp' H q Hq; [destruct Hq|].
      inversion IH as [|? ? Hx Hrest]; subst. rewrite kreplay_list_cons in H. destruct (kreplay s x rp) as [r1|] eqn:E; [|discriminate].
      rewrite cll_cons in Hq. cbn [fst] in Hq. apply in_app_or in Hq. destruct Hq as [Hq|Hq]; [eapply Hx; eauto|].
      rewrite <- (kr_cF _ _ _ _ (kreplay_facts _ _ _ _ E)). eapply IHl; eauto. }
    rewrite kreplay_SB in H. rewrite tree_claims_SB in Hq.
    destruct (negb (kversion_equal s f)); [discriminate|]. destruct sf; [discriminate|]. cbn [orb] in H.
    destruct (existsb (py_eq (subbuild_key f a k)) (rp_claimedS rp)); [discriminate|].
    cbn [fst] in Hq. exact (L _ _ H q Hq).
Qed.

Lemma kreplay_list_fresh : forall s subs rp rp', kreplay_list s subs rp = Some rp' ->
  forall q, In q (fst (cll subs)) -> mem_path q (rp_claimedF rp) = false.
Proof.
  intros s subs. induction subs as [|x rest IHl]; intros rp rp' H q Hq; [destruct Hq|].
  rewrite kreplay_list_cons in H. destruct (kreplay s x rp) as [r1|] eqn:E; [|discriminate].
  rewrite cll_cons in Hq. cbn [fst] in Hq. apply in_app_or in Hq. destruct Hq as [Hq|Hq]; [eapply kreplay_fresh; eauto|].
  rewrite <- (kr_cF _ _ _ _ (kreplay_facts _ _ _ _ E)). eapply IHl; eauto.
Qed.

Lemma kreplay_nocf : forall s o rp rp', kreplay s o rp = Some rp' ->
  forall q, In q (fst (tree_claims o)) -> q <> k_cachefile s.
Proof.
  intros s o. induction o as [q0 r e|p c f a k subs r cr ra sf IH|f a k subs r ra sf IH] using op_ind'; intros rp rp' H q Hq.
  - destruct Hq.
  - assert (L : forall rp rp', kreplay_list s subs rp = Some rp' -> forall q, In q (fst (cll subs)) -> q <> k_cachefile s).
    { clear -IH. induction subs as [|x rest IHl]; intros rp rp' H q Hq; [destruct Hq|].
      inversion IH as [|? ? Hx Hrest]; subst. rewrite kreplay_list_cons in H. destruct (kreplay s x rp) as [r1|] eqn:E; [|discriminate].
      rewrite cll_cons in Hq. cbn [fst] in Hq. apply in_app_or in Hq. destruct Hq as [Hq|Hq]; [eapply Hx; eauto|].
      eapply IHl; eauto. }
    rewrite kreplay_BF in H. rewrite tree_claims_BF in Hq.
    destruct (negb (kversion_equal s f)); [discriminate|]. destruct sf; [discriminate|].
    destruct (on_disk s p c cr ra); [|discriminate].
    destruct (mem_path p (rp_claimedF rp) || path_eqb p (k_cachefile s)) eqn:Ecc; [discriminate|].
    apply orb_false_iff in Ecc. destruct Ecc as [_ Ecc]. apply path_eqb_neq in Ecc.
    destruct (missing_dirs (rp_fs rp) (k_cachefile s) (dirname p)) as [dirs|]; [|discriminate].
    destruct (mkdir_all (rp_fs rp) dirs) as [fs1|]; [|discriminate].
    destruct (kreplay_list s subs (rp_start rp p fs1 dirs)) as [r2|] eqn:Ekn; [|discriminate].
    cbn [fst] in Hq. destruct Hq as [<-|Hq]; [exact Ecc|]. exact (L _ _ Ekn q Hq).
  - assert (L : forall rp rp', kreplay_list s subs rp = Some rp' -> forall q, In q (fst (cll subs)) -> q <> k_cachefile s).
    { clear -IH. induction subs as [|x rest IHl]; intros rp rp' H q Hq; [destruct Hq|].
      inversion IH as [|? ? Hx Hrest]; subst. rewrite kreplay_list_cons in H. destruct (kreplay s x rp) as [r1|] eqn:E; [|discriminate].
      rewrite cll_cons in Hq. cbn [fst] in Hq. apply in_app_or in Hq. destruct Hq as [Hq|Hq]; [eapply Hx; eauto|].
      eapply IHl; eauto. }
    rewrite kreplay_SB in H. rewrite tree_claims_SB in Hq.
    destruct (negb (kversion_equal s f)); [discriminate|]. destruct sf; [discriminate|]. cbn [orb] in H.
    destruct (existsb (py_eq (subbuild_key f a k)) (rp_claimedS rp)); [discriminate|].
    cbn [fst] in Hq. exact (L _ _ H q Hq).
Qed.

Lemma kreplay_list_nocf : forall s subs rp rp', kreplay_list s subs rp = Some rp' ->
  forall q, In q (fst (cll subs)) -> q <> k_cachefile s.
Proof.
  intros s subs. induction subs as [|x rest IHl]; intros rp rp' H q Hq; [destruct Hq|].
  rewrite kreplay_list_cons in H. destruct (kreplay s x rp) as [r1|] eqn:E; [|discriminate].
  rewrite cll_cons in Hq. cbn [fst] in Hq. apply in_app_or in Hq. destruct Hq as [Hq|Hq]; [eapply kreplay_nocf; eauto|].
  eapply IHl; eauto.
Qed.

(* ------------------------------------------------------------------ *)
(* extension of a Core state by a run                                 *)
(* ------------------------------------------------------------------ *)
Record Ext (s s' : kstate) (cF : list path) (cS : list pyval) (D : list op) : Prop := mkExt {
  x_clF : exists eF, k_claimedF s' = eF ++ k_claimedF s /\ (forall q, In q eF <-> In q cF);
  x_clS : exists eS, k_claimedS s' = eS ++ k_claimedS s /\ (forall k, In k eS <-> In k cS);
  x_newF : exists nF, k_newF s' = k_newF s ++ nF /\ (forall p o, In (p, o) nF -> In o D /\ shapeF p o /\ In p cF);
  x_newS : exists nS, k_newS s' = k_newS s ++ nS /\ (forall k o, In (k, o) nS -> In o D /\ shapeS k o /\ In k cS);
  x_pers : forall q g, mem_path q (k_claimedF s) = true -> lookup (k_fs s) q = Some (NFile g) ->
                       lookup (k_fs s') q = Some (NFile g);
  x_dirs : forall q, isdir (k_fs s') q = true -> isdir (k_fs s) q = true \/ existsb (is_ancestor q) cF = true;
  x_vis : forall q g, lookup (k_fs s') q = Some (NFile g) ->
            lookup (k_fs s) q = Some (NFile g) \/ stale_get (k_stale s) q = Some g \/ In q cF;
  x_stale : forall q g, stale_get (k_stale s') q = Some g -> stale_get (k_stale s) q = Some g;
  x_const : k_old s' = k_old s /\ k_vers s' = k_vers s /\ k_cachefile s' = k_cachefile s;
  x_fresh : forall q, In q cF -> mem_path q (k_claimedF s) = false;
  x_nocf : forall q, In q cF -> q <> k_cachefile s
}.

Lemma Ext_same : forall s s' D,
  k_fs s' = k_fs s -> k_stale s' = k_stale s -> k_claimedF s' = k_claimedF s -> k_claimedS s' = k_claimedS s ->
  k_newF s' = k_newF s -> k_newS s' = k_newS s -> k_old s' = k_old s -> k_vers s' = k_vers s ->
  k_cachefile s' = k_cachefile s -> Ext s s' [] [] D.
Proof.
  intros s s' D E1 E2 E3 E4 E5 E6 E7 E8 E9. constructor.
  - exists []. split; [exact E3|tauto].
  - exists []. split; [exact E4|tauto].
  - exists []. split; [rewrite app_nil_r; exact E5|intros ? ? []].
  - exists []. split; [rewrite app_nil_r; exact E6|intros ? ? []].
  - intros q g _ H. rewrite E1. exact H.
  - intros q H. left. rewrite <- E1. exact H.
  - intros q g H. left. rewrite <- E1. exact H.
  - intros q g H. rewrite <- E2. exact H.
  - auto.
  - intros q [].
  - intros q [].
Qed.

Lemma Ext_refl : forall s D, Ext s s [] [] D.
Proof. intros. apply Ext_same; reflexivity. Qed.

Lemma Ext_trans : forall a b c cF1 cS1 cF2 cS2 D,
  Ext a b cF1 cS1 D -> Ext b c cF2 cS2 D -> Ext a c (cF1 ++ cF2) (cS1 ++ cS2) D.
Proof.
  intros a b c cF1 cS1 cF2 cS2 D [[eF1 [A1 A1']] [eS1 [A2 A2']] [nF1 [A3 A3']] [nS1 [A4 A4']] A5 A6 A7 A8 A9 A10 A11]
         [[eF2 [B1 B1']] [eS2 [B2 B2']] [nF2 [B3 B3']] [nS2 [B4 B4']] B5 B6 B7 B8 B9 B10 B11].
  constructor.
  - exists (eF2 ++ eF1). split; [rewrite B1, A1, app_assoc; reflexivity|].
    intro q. rewrite !in_app_iff, A1', B1'. tauto.
  - exists (eS2 ++ eS1). split; [rewrite B2, A2, app_assoc; reflexivity|].
    intro q. rewrite !in_app_iff, A2', B2'. tauto.
  - exists (nF1 ++ nF2). split; [rewrite B3, A3, app_assoc; reflexivity|].
    intros p o H. apply in_app_or in H. destruct H as [H|H].
    + destruct (A3' _ _ H) as [X [Y Z]]. split; [exact X|]. split; [exact Y|apply in_or_app; left; exact Z].
    + destruct (B3' _ _ H) as [X [Y Z]]. split; [exact X|]. split; [exact Y|apply in_or_app; right; exact Z].
  - exists (nS1 ++ nS2). split; [rewrite B4, A4, app_assoc; reflexivity|].
    intros k o H. apply in_app_or in H. destruct H as [H|H].
    + destruct (A4' _ _ H) as [X [Y Z]]. split; [exact X|]. split; [exact Y|apply in_or_app; left; exact Z].
    + destruct (B4' _ _ H) as [X [Y Z]]. split; [exact X|]. split; [exact Y|apply in_or_app; right; exact Z].
  - intros q g Hq Hl. apply B5; [rewrite A1, mem_path_app, Hq; apply orb_true_r|]. apply A5; assumption.
  - intros q Hq. rewrite existsb_app. destruct (B6 q Hq) as [H|H]; [|right; rewrite H; apply orb_true_r].
    destruct (A6 q H) as [H'|H']; [left; exact H'|right; rewrite H'; reflexivity].
  - intros q g Hq. destruct (B7 q g Hq) as [H|[H|H]].
    + destruct (A7 q g H) as [H'|[H'|H']]; [left; exact H'|right; left; exact H'|right; right].
      apply in_or_app. left. exact H'.
    + right. left. apply A8. exact H.
    + right. right. apply in_or_app. right. exact H.
  - intros q g H. apply A8, B8, H.
  - destruct A9 as [X1 [X2 X3]], B9 as [Y1 [Y2 Y3]]. repeat split; congruence.
  - intros q Hq. apply in_app_or in Hq. destruct Hq as [Hq|Hq]; [apply A10; exact Hq|].
    pose proof (B10 q Hq) as H. rewrite A1, mem_path_app in H. apply orb_false_iff in H. tauto.
  - intros q Hq. apply in_app_or in Hq. destruct Hq as [Hq|Hq]; [apply A11; exact Hq|].
    destruct A9 as [_ [_ X3]]. rewrite <- X3. apply B11. exact Hq.
Qed.

Lemma Ext_D : forall a b cF cS D D', incl D D' -> Ext a b cF cS D -> Ext a b cF cS D'.
Proof.
  intros a b cF cS D D' Hi [A1 A2 [nF [A3 A3']] [nS [A4 A4']] A5 A6 A7 A8 A9 A10 A11]. constructor; auto.
  - exists nF. split; [exact A3|]. intros p o H. destruct (A3' _ _ H) as [X [Y Z]]. split; auto.
  - exists nS. split; [exact A4|]. intros k o H. destruct (A4' _ _ H) as [X [Y Z]]. split; auto.
Qed.

(* claiming and setting up a target *)
Lemma Ext_start : forall s p fs1 dirs f sa skw D,
  claim_check (k_claimedF s) (k_cachefile s) p = None ->
  setup_fs (k_fs s) (k_cachefile s) p = inl (fs1, dirs) ->
  Ext s (core_start (core_s0 s p fs1 dirs) p f sa skw) [p] [] D.
Proof.
  intros s p fs1 dirs f sa skw D Hc Hs. destruct (claim_check_none _ _ _ Hc) as [Hp Hpcf].
  constructor; cbn.
  - exists [p]. split; [reflexivity|intros; cbn; tauto].
  - exists []. split; [reflexivity|intros; cbn; tauto].
  - exists []. split; [rewrite app_nil_r; reflexivity|intros ? ? []].
  - exists []. split; [rewrite app_nil_r; reflexivity|intros ? ? []].
  - intros q g Hq Hl. assert (q <> p) by (intro; subst; congruence).
    rewrite try_remove_frame by assumption. destruct (setup_char _ _ _ _ _ Hs q) as [E|[_ [_ E]]]; congruence.
  - intros q Hq. apply try_remove_isdir in Hq. unfold isdir in *.
    destruct (setup_char _ _ _ _ _ Hs q) as [E|[E1 _]]; [left; rewrite <- E; exact Hq|right].
    rewrite E1. reflexivity.
  - intros q g Hq. left. apply try_remove_file in Hq.
    destruct (setup_char _ _ _ _ _ Hs q) as [E|[_ [E _]]]; congruence.
  - intros q g H. eapply stale_del_get; eauto.
  - auto.
  - intros q [<-|[]]. exact Hp.
  - intros q [<-|[]]. exact Hpcf.
Qed.

Lemma core_finish_rec : forall s2 p c f sa skw bsubs res pend2 s3 out o,
  core_finish s2 p c f sa skw bsubs res pend2 = (s3, out, o) ->
  exists r cr ra, o = OBuildFile p c f sa skw bsubs r cr ra false.
Proof.
  intros s2 p c f sa skw bsubs res pend2 s3 out o H. unfold core_finish in H.
  destruct res as [v|e]; [|inversion H; eauto].
  destruct (sanitize v) as [sv|]; [|inversion H; eauto].
  destruct pend2 as [b|]; [|inversion H; eauto].
  destruct (write_file (k_fs s2) p b None (k_clock s2) (k_nextid s2)); inversion H; eauto.
Qed.

Lemma Ext_finish_rel : forall s s2 cF0 cS D p c f sa skw bsubs res pend2 s3 out o,
  Ext s s2 cF0 cS D -> In p cF0 -> mem_path p (k_claimedF s) = false ->
  core_finish s2 p c f sa skw bsubs res pend2 = (s3, out, o) -> In o D -> Ext s s3 cF0 cS D.
Proof.
  intros s s2 cF0 cS D p c f sa skw bsubs res pend2 s3 out o [A1 A2 [nF [A3 A3']] A4 A5 A6 A7 A8 A9 A10 A11] Hp Hnc H Ho.
  destruct (core_finish_rec _ _ _ _ _ _ _ _ _ _ _ _ H) as (r & cr & ra & Hrec).
  assert (Sh : shapeF p o) by (subst o; repeat eexists).
  unfold core_finish in H.
  assert (Fl : forall e o', (core_prune s2 p o', @inr pyval exn e, o') = (s3, out, o) -> Ext s s3 cF0 cS D).
  { intros e o' E. inversion E; subst s3 out o'. constructor; cbn; auto.
    - exists (nF ++ [(p, o)]). split; [rewrite A3, app_assoc; reflexivity|].
      intros p0 o0 Hx. apply in_app_or in Hx. destruct Hx as [Hx|[Hx|[]]]; [auto|]. inversion Hx; subst. auto.
    - intros q g Hq Hl. apply (prune_fs_file (k_fs s2) (k_need s2) (k_made s2) p q g). apply A5; assumption.
    - intros q Hq. apply A6. apply (prune_fs_isdir (k_fs s2) (k_need s2) (k_made s2) p q). exact Hq.
    - intros q g Hq. apply A7. apply (prune_fs_file (k_fs s2) (k_need s2) (k_made s2) p q g). exact Hq. }
  destruct res as [v|e]; [|eapply Fl; eauto].
  destruct (sanitize v) as [sv|]; [|eapply Fl; eauto].
  destruct pend2 as [b|]; [|eapply Fl; eauto].
  destruct (write_file (k_fs s2) p b None (k_clock s2) (k_nextid s2)) as [fs3|e1] eqn:Ew; [|eapply Fl; eauto].
  inversion H; subst s3 out. clear Fl.
  destruct (write_file_ok _ _ _ _ _ _ _ Ew) as [Hne [Hnd [_ Hoth]]].
  constructor; cbn; auto.
  - exists (nF ++ [(p, o)]). split; [rewrite A3, app_assoc, H3; reflexivity|].
    intros p0 o0 Hx. apply in_app_or in Hx. destruct Hx as [Hx|[Hx|[]]]; [auto|]. inversion Hx; subst. auto.
  - intros q g Hq Hl. assert (E : q <> p) by (intro; subst; congruence). rewrite Hoth by exact E. apply A5; assumption.
  - intros q Hq. apply A6. unfold isdir in *. destruct (path_eqb q p) eqn:E.
    + apply path_eqb_eq in E. subst q. destruct (write_file_frame _ _ _ _ _ _ _ Ew) as [[g [Hg _]] _]. rewrite Hg in Hq. discriminate.
    + apply path_eqb_neq in E. rewrite Hoth in Hq by exact E. exact Hq.
  - intros q g Hq. destruct (path_eqb q p) eqn:E.
    + apply path_eqb_eq in E. subst q. right. right. exact Hp.
    + apply path_eqb_neq in E. rewrite Hoth in Hq by exact E. apply A7. exact Hq.
Qed.

Lemma Ext_wrapBF : forall s p fs1 dirs f sa skw c s2 cF cS D' bsubs res pend2 s3 out o,
  claim_check (k_claimedF s) (k_cachefile s) p = None ->
  setup_fs (k_fs s) (k_cachefile s) p = inl (fs1, dirs) ->
  Ext (core_start (core_s0 s p fs1 dirs) p f sa skw) s2 cF cS D' ->
  core_finish s2 p c f sa skw bsubs res pend2 = (s3, out, o) ->
  Ext s s3 (p :: cF) cS (o :: D').
Proof.
  intros s p fs1 dirs f sa skw c s2 cF cS D' bsubs res pend2 s3 out o Hc Hs E H.
  destruct (claim_check_none _ _ _ Hc) as [Hp _].
  eapply Ext_finish_rel; [|left; reflexivity|exact Hp|exact H|left; reflexivity].
  change (p :: cF) with ([p] ++ cF). change cS with ([] ++ cS).
  eapply Ext_trans; [apply Ext_start; eassumption|]. eapply Ext_D; [|exact E]. intros x Hx. right. exact Hx.
Qed.

(* ---- hits ---- *)
Lemma core_hit_inv : forall s s0 p fname sa skw f subs' ret' r,
  core_hit s s0 p fname sa skw = Some (f, subs', ret', r) ->
  phys (k_fs s0) (k_stale s0) p = Some f /\ kreplay_list s0 subs' (start_replay s0) = Some r.
Proof.
  intros s s0 p fname sa skw f subs' ret' r H. unfold core_hit in H.
  destruct (cache_get_file (k_old s) p) as [[|p' c' fname' a' k' subs0 ret0 cmpres' raised' sf'|]|]; try discriminate.
  destruct raised'; [discriminate|].
  destruct (negb (String.eqb fname' fname)) eqn:Efn; [discriminate|]. apply negb_false_iff, String.eqb_eq in Efn. subst fname'.
  destruct (negb (kversion_equal s fname)); [discriminate|].
  destruct (negb (is_equal a' sa) || negb (is_equal k' skw)); [discriminate|].
  destruct (phys (k_fs s0) (k_stale s0) p) as [f0|] eqn:Eph; [|discriminate].
  destruct (negb (is_equal cmpres' (cmp_of c' f0))); [discriminate|].
  destruct (kreplay_list s0 subs0 (start_replay s0)) as [rpx|] eqn:Ekr; [|discriminate].
  inversion H; subst. split; [reflexivity|exact Ekr].
Qed.

Lemma fold_stale_del_sub : forall ps l q f, stale_get (fold_left stale_del ps l) q = Some f -> stale_get l q = Some f.
Proof. exact fold_stale_del_get. Qed.

Lemma tree_regs_claims_BF_nonsf : forall p c f a k subs r cr ra,
  tree_claims (OBuildFile p c f a k subs r cr ra false) = (p :: fst (cll subs), snd (cll subs)).
Proof. reflexivity. Qed.

Lemma Ext_hitF : forall s p fs1 dirs c fname sa skw f subs' ret' r,
  claim_check (k_claimedF s) (k_cachefile s) p = None ->
  setup_fs (k_fs s) (k_cachefile s) p = inl (fs1, dirs) ->
  core_hit s (core_s0 s p fs1 dirs) p fname sa skw = Some (f, subs', ret', r) ->
  let o := OBuildFile p c fname sa skw subs' ret' (cmp_of c f) false false in
  Ext s (core_put (adopt (core_s0 s p fs1 dirs) r o) p f) (fst (tree_claims o)) (snd (tree_claims o)) (deep o).
Proof.
  intros s p fs1 dirs c fname sa skw f subs' ret' r Hc Hs Hh o.
  destruct (claim_check_none _ _ _ Hc) as [Hp Hpcf].
  destruct (core_hit_inv _ _ _ _ _ _ _ _ _ _ Hh) as [Hph Hkr].
  pose proof (kreplay_list_facts _ _ _ _ Hkr) as [K1 K2 K3 K4 K5].
  destruct (tree_regs_spec o) as [R1 R2].
  set (s0 := core_s0 s p fs1 dirs) in *.
  assert (Hfile0 : forall q g, lookup (k_fs s0) q = Some (NFile g) -> lookup (k_fs s) q = Some (NFile g)).
  { intros q g Hq. cbn in Hq. destruct (setup_char _ _ _ _ _ Hs q) as [E|[_ [E _]]]; congruence. }
  constructor; cbn [core_put adopt ks_with k_claimedF k_claimedS k_newF k_newS k_fs k_stale k_old k_vers k_cachefile].
  - exists (fst (tree_claims o)). split; [reflexivity|intros; tauto].
  - exists (snd (tree_claims o)). split; [reflexivity|intros; tauto].
  - exists (fst (tree_regs o)). split; [reflexivity|]. exact R1.
  - exists (snd (tree_regs o)). split; [reflexivity|]. exact R2.
  - intros q g Hq Hl. assert (q <> p) by (intro; subst; congruence). rewrite lookup_upd_neq by assumption.
    apply K3; [exact Hq|]. cbn. destruct (setup_char _ _ _ _ _ Hs q) as [E|[_ [_ E]]]; congruence.
  - intros q Hq. apply isdir_upd_file in Hq. unfold o. rewrite tree_regs_claims_BF_nonsf. cbn [fst existsb].
    destruct (K4 q Hq) as [H|H]; [|right; rewrite H; apply orb_true_r].
    cbn in H. unfold isdir in *. destruct (setup_char _ _ _ _ _ Hs q) as [E|[E1 _]]; [left; rewrite <- E; exact H|right].
    rewrite E1. reflexivity.
  - intros q g Hq. unfold o. rewrite tree_regs_claims_BF_nonsf. cbn [fst].
    destruct (lookup_upd_file _ _ _ _ _ Hq) as [[-> ->]|[_ H]].
    + destruct (phys_cases _ _ _ _ Hph) as [X|X]; [left; apply Hfile0; exact X|right; left; exact X].
    + destruct (K5 q g H) as [X|[X1 X2]].
      * left. apply Hfile0. exact X.
      * destruct (phys_cases _ _ _ _ X1) as [X|X]; [left; apply Hfile0; exact X|right; left; exact X].
  - intros q g H. apply stale_del_get in H. apply fold_stale_del_get in H. exact H.
  - auto.
  - intros q Hq. unfold o in Hq. rewrite tree_regs_claims_BF_nonsf in Hq. cbn [fst] in Hq. destruct Hq as [<-|Hq]; [exact Hp|].
    exact (kreplay_list_fresh _ _ _ _ Hkr q Hq).
  - intros q Hq. unfold o in Hq. rewrite tree_regs_claims_BF_nonsf in Hq. cbn [fst] in Hq. destruct Hq as [<-|Hq]; [exact Hpcf|].
    exact (kreplay_list_nocf _ _ _ _ Hkr q Hq).
Qed.

Lemma core_subhit_inv : forall s fname key subs' ret' r,
  core_subhit s fname key = Some (subs', ret', r) -> kreplay_list s subs' (start_replay s) = Some r.
Proof.
  intros s fname key subs' ret' r H. unfold core_subhit in H.
  destruct (subs_get (c_subs (k_old s)) key) as [[[| |f' a' k' subs0 ret0 raised' sf']|]|]; try discriminate.
  destruct raised'; [discriminate|]. destruct (negb (kversion_equal s fname)); [discriminate|].
  destruct (kreplay_list s subs0 (start_replay s)) as [rpx|] eqn:E; [|discriminate]. inversion H; subst. exact E.
Qed.

Lemma Ext_hitS : forall s fname sa skw subs' ret' r,
  core_subhit s fname (subbuild_key fname sa skw) = Some (subs', ret', r) ->
  let o := OSubbuild fname sa skw subs' ret' false false in
  Ext s (adopt s r o) (fst (tree_claims o)) (snd (tree_claims o)) (deep o).
Proof.
  intros s fname sa skw subs' ret' r Hh o.
  pose proof (core_subhit_inv _ _ _ _ _ _ Hh) as Hkr.
  pose proof (kreplay_list_facts _ _ _ _ Hkr) as [K1 K2 K3 K4 K5].
  destruct (tree_regs_spec o) as [R1 R2].
  constructor; cbn [adopt ks_with k_claimedF k_claimedS k_newF k_newS k_fs k_stale k_old k_vers k_cachefile].
  - exists (fst (tree_claims o)). split; [reflexivity|intros; tauto].
  - exists (snd (tree_claims o)). split; [reflexivity|intros; tauto].
  - exists (fst (tree_regs o)). split; [reflexivity|]. exact R1.
  - exists (snd (tree_regs o)). split; [reflexivity|]. exact R2.
  - intros q g Hq Hl. apply K3; assumption.
  - intros q Hq. unfold o. rewrite tree_claims_SB. cbn [fst]. exact (K4 q Hq).
  - intros q g Hq. unfold o. rewrite tree_claims_SB. cbn [fst].
    destruct (K5 q g Hq) as [X|[X1 X2]]; [left; exact X|].
    destruct (phys_cases _ _ _ _ X1) as [X|X]; [left; exact X|right; left; exact X].
  - intros q g H. apply fold_stale_del_get in H. exact H.
  - auto.
  - intros q Hq. unfold o in Hq. rewrite tree_claims_SB in Hq. cbn [fst] in Hq. exact (kreplay_list_fresh _ _ _ _ Hkr q Hq).
  - intros q Hq. unfold o in Hq. rewrite tree_claims_SB in Hq. cbn [fst] in Hq. exact (kreplay_list_nocf _ _ _ _ Hkr q Hq).
Qed.

Lemma Ext_substart : forall s f sa skw D, Ext s (core_substart s f sa skw) [] [subbuild_key f sa skw] D.
Proof.
  intros. constructor; cbn; auto.
  - exists []. split; [reflexivity|intros; cbn; tauto].
  - exists [subbuild_key f sa skw]. split; [reflexivity|intros; cbn; tauto].
  - exists []. split; [rewrite app_nil_r; reflexivity|intros ? ? []].
  - exists []. split; [rewrite app_nil_r; reflexivity|intros ? ? []].
  - intros q [].
Qed.

Lemma Ext_subreg : forall s s2 cF cS D key o,
  Ext s s2 cF cS D -> In o D -> shapeS key o -> In key cS -> Ext s (core_subreg s2 key o) cF cS D.
Proof.
  intros s s2 cF cS D key o [A1 A2 A3 [nS [A4 A4']] A5 A6 A7 A8 A9 A10 A11] Ho Hs Hk. constructor; cbn; auto.
  exists (nS ++ [(key, o)]). split; [rewrite A4, app_assoc; reflexivity|].
  intros k0 o0 Hx. apply in_app_or in Hx. destruct Hx as [Hx|[Hx|[]]]; [auto|]. inversion Hx; subst. auto.
Qed.

(* ------------------------------------------------------------------ *)
(* the run                                                            *)
(* ------------------------------------------------------------------ *)
Lemma ext_step : forall s s1 s' o pk,
  Ext s s1 (fst (tree_claims o)) (snd (tree_claims o)) (deep o) ->
  Ext s1 s' (fst (cll pk)) (snd (cll pk)) (deepl pk) ->
  Ext s s' (fst (cll (o :: pk))) (snd (cll (o :: pk))) (deepl (o :: pk)).
Proof.
  intros s s1 s' o pk E1 E2. rewrite cll_cons. cbn [fst snd deepl flat_map].
  eapply Ext_trans; (eapply Ext_D; [|eassumption]); intros x Hx; apply in_or_app; [left|right]; exact Hx.
Qed.

Lemma record_of_claims : forall q a, tree_claims (record_of q a) = ([], []).
Proof. intros q [v|c]; reflexivity. Qed.

Lemma sub_rec_shape : forall f sa skw bsubs res, exists r ra, sub_rec f sa skw bsubs res = OSubbuild f sa skw bsubs r ra false.
Proof. intros. unfold sub_rec. destruct res as [v|e]; [destruct (sanitize v)|]; eauto. Qed.

Definition run_ext_at (pr : prog) : Prop :=
  forall tgt pend subs s s' out pend' subs',
    core_run pr tgt pend subs s = (s', (out, pend', subs')) ->
    exists produced, subs' = subs ++ produced /\ Ext s s' (fst (cll produced)) (snd (cll produced)) (deepl produced).

Lemma run_ext_cons : forall s s1 s' o subs subs' pk,
  Ext s s1 (fst (tree_claims o)) (snd (tree_claims o)) (deep o) ->
  subs' = (subs ++ [o]) ++ pk -> Ext s1 s' (fst (cll pk)) (snd (cll pk)) (deepl pk) ->
  exists produced, subs' = subs ++ produced /\ Ext s s' (fst (cll produced)) (snd (cll produced)) (deepl produced).
Proof.
  intros s s1 s' o subs subs' pk E1 -> E2. exists (o :: pk). split; [rewrite <- app_assoc; reflexivity|].
  eapply ext_step; eauto.
Qed.

Theorem core_run_ext : forall pr, run_ext_at pr.
Proof.
  induction pr as [v|e|st q k IHk|c k IHk|st p c fname a kw fn IHfn k IHk|st fname a kw fn IHfn k IHk];
    intros tgt pend subs s s' out pend' subs' H.
  - inversion H; subst. exists []. split; [rewrite app_nil_r; reflexivity|apply Ext_refl].
  - inversion H; subst. exists []. split; [rewrite app_nil_r; reflexivity|apply Ext_refl].
  - rewrite core_run_Ask in H. destruct st; [eapply IHk; eauto|]. cbv zeta in H.
    destruct (spec_answer (k_fs s) q) as [v|cl].
    + destruct (IHk _ _ _ _ _ _ _ _ _ H) as [pk [E1 E2]].
      eapply run_ext_cons; [|exact E1|exact E2]. rewrite record_of_claims. apply Ext_same; reflexivity.
    + destruct (IHk _ _ _ _ _ _ _ _ _ H) as [pk [E1 E2]].
      eapply run_ext_cons; [|exact E1|exact E2]. rewrite record_of_claims. apply Ext_same; reflexivity.
  - rewrite core_run_Write in H. destruct tgt as [p|]; [|eapply IHk; eauto].
    destruct (path_ok p).
    + destruct (IHk _ _ _ _ _ _ _ _ H) as [pk [E1 E2]]. exists pk. split; [exact E1|].
      change (fst (cll pk)) with ([] ++ fst (cll pk)). change (snd (cll pk)) with ([] ++ snd (cll pk)).
      eapply Ext_trans; [|exact E2]. apply Ext_same; reflexivity.
    + inversion H; subst. exists []. split; [rewrite app_nil_r; reflexivity|apply Ext_refl].
  - rewrite core_run_BuildFile in H. destruct st; [eapply IHk; eauto|].
    destruct (sanitize a) as [sa|]; [|eapply IHk; eauto]. destruct (sanitize kw) as [skw|]; [|eapply IHk; eauto].
    cbv zeta in H.
    destruct (claim_check (k_claimedF s) (k_cachefile s) p) as [ec|] eqn:Ecc.
    { destruct (IHk _ _ _ _ _ _ _ _ _ H) as [pk [E1 E2]]. eapply run_ext_cons; [|exact E1|exact E2]. apply Ext_refl. }
    destruct (setup_fs (k_fs s) (k_cachefile s) p) as [[fs1 dirs]|e1] eqn:Esk.
    2:{ destruct (IHk _ _ _ _ _ _ _ _ _ H) as [pk [E1 E2]]. eapply run_ext_cons; [|exact E1|exact E2]. apply Ext_refl. }
    destruct (core_hit s (core_s0 s p fs1 dirs) p fname sa skw) as [[[[fh subs1] ret1] rp1]|] eqn:Ehit.
    + destruct (IHk _ _ _ _ _ _ _ _ _ H) as [pk [E1 E2]]. eapply run_ext_cons; [|exact E1|exact E2].
      apply (Ext_hitF s p fs1 dirs c fname sa skw fh subs1 ret1 rp1 Ecc Esk Ehit).
    + destruct (core_run (fn p sa skw) (Some p) None [] (core_start (core_s0 s p fs1 dirs) p fname sa skw)) as [s2 [[res pend2] bsubs]] eqn:Ec2.
      destruct (core_finish s2 p c fname sa skw bsubs res pend2) as [[s3 out3] o3] eqn:Ef.
      destruct (IHfn _ _ _ _ _ _ _ _ _ _ _ Ec2) as [pn [En1 En2]]. cbn [app] in En1. subst pn.
      destruct (IHk _ _ _ _ _ _ _ _ _ H) as [pk [E1 E2]]. eapply run_ext_cons; [|exact E1|exact E2].
      destruct (core_finish_rec _ _ _ _ _ _ _ _ _ _ _ _ Ef) as (r & cr & ra & Hrec).
      pose proof (Ext_wrapBF _ _ _ _ _ _ _ _ _ _ _ _ _ _ _ _ _ _ Ecc Esk En2 Ef) as W.
      rewrite Hrec. rewrite tree_regs_claims_BF_nonsf. cbn [fst snd deep]. rewrite <- Hrec. exact W.
  - rewrite core_run_Subbuild in H. destruct st; [eapply IHk; eauto|].
    destruct (sanitize a) as [sa|]; [|eapply IHk; eauto]. destruct (sanitize kw) as [skw|]; [|eapply IHk; eauto].
    cbv zeta in H.
    destruct (existsb (py_eq (subbuild_key fname sa skw)) (k_claimedS s)) eqn:Edup.
    { destruct (IHk _ _ _ _ _ _ _ _ _ H) as [pk [E1 E2]]. eapply run_ext_cons; [|exact E1|exact E2]. apply Ext_refl. }
    destruct (core_subhit s fname (subbuild_key fname sa skw)) as [[[subs1 ret1] rp1]|] eqn:Ehit.
    + destruct (IHk _ _ _ _ _ _ _ _ _ H) as [pk [E1 E2]]. eapply run_ext_cons; [|exact E1|exact E2].
      apply (Ext_hitS s fname sa skw subs1 ret1 rp1 Ehit).
    + destruct (core_run (fn sa skw) None None [] (core_substart s fname sa skw)) as [s2 [[res pd] bsubs]] eqn:Ec2.
      destruct (IHfn _ _ _ _ _ _ _ _ _ _ Ec2) as [pn [En1 En2]]. cbn [app] in En1. subst pn.
      destruct (IHk _ _ _ _ _ _ _ _ _ H) as [pk [E1 E2]]. eapply run_ext_cons; [|exact E1|exact E2].
      destruct (sub_rec_shape fname sa skw bsubs res) as (r & ra & Hrec).
      rewrite Hrec. rewrite tree_claims_SB. cbn [fst snd deep]. rewrite <- Hrec.
      apply Ext_subreg.
      * change (fst (cll bsubs)) with ([] ++ fst (cll bsubs)).
        change (subbuild_key fname sa skw :: snd (cll bsubs)) with ([subbuild_key fname sa skw] ++ snd (cll bsubs)).
        eapply Ext_trans; [apply Ext_substart|]. eapply Ext_D; [|exact En2]. intros x Hx. right. exact Hx.
      * left. reflexivity.
      * rewrite Hrec. repeat eexists.
      * left. reflexivity.
Qed.

Print Assumptions core_run_ext.
