(* Proofs/SimJ7.v — HASH records in the PREVIOUS cache, part 7: the lookup of subbuild and the
   state after a hit (SimC8) for the class SimJ4.okcH.                                       *)
From Coq Require Import List String Ascii NArith ZArith Bool Arith Lia.
From FB.Base Require Import PyVal Fs.
From FB.Gen Require Import JsonUtilGen.
From FB.Spec Require Import JsonSpec Prog Ref Oracle Faithful.
From FB.Model Require Import Types Monad CreatedFiles BuildDirs SimpleOps Builder Persist Build Run Frame Core CoreOracle.
From FB.Proofs Require Import FsLemmas JsonLaws ReplayLaws BuildFileLaws CmpLaws HashMemoInv CoreLaws1 CoreLaws2 CoreLaws3 CoreLaws4 CoreNextRegs CoreNextKeys
     ViewDefs ViewLemmas ViewAnswers ViewXDefs ViewXQuery ViewXMake1 ViewXFail ViewXSetup ViewH4 ViewH5 ViewH6 ViewH7 ViewR1 ViewR2 ViewR3
     ViewK3 ViewK4 ViewK8
     SimA0 SimA1 SimA1Keys SimARun SimA2Base SimB1 SimB2 SimB3 SimB4 SimB6 SimB7 SimB8 SimB9 SimB10 SimB11 SimB12 SimB13 SimB14 SimB16
     SimC0 SimC1 SimC3 SimC4 SimC5 SimC6 SimC7 SimC8 SimJ1 SimJ2 SimJ3 SimJ4 SimJ5 SimJ6.
Import ListNotations.
Open Scope list_scope.
Open Scope m_scope.

Local Notation RInv2' := (RInv2 (fun _ => True)).

Section SubLookupH.
  Variables (c0 : N) (T W : list path) (w : world) (s : kstate) (key : pyval).
  Hypothesis Hokc : okcH c0 (w_old w).
  Hypothesis HHI : HInv w.
  Hypothesis HS4 : Sim4c T W w s.
  Hypothesis HWcl : forall q, mem_path q W = true -> cache_has_file (w_new w) q = true.
  Hypothesis Hnew : forall q g, mem_path q W = true ->
    lookup (w_fs w) q = Some (NFile g) \/ lookup (k_fs s) q = Some (NFile g) -> (c0 < f_mtime g)%N.

  Let s' := with_sd s (sdl w).

  Lemma sl_rec_okH : forall rec, subs_get (c_subs (w_old w)) key = Some (Some rec) ->
    (forall f' a' k' subs' r' sf', rec <> OSubbuild f' a' k' subs' r' false sf') \/
    (sub_rec_ok true W w s' rec /\ wfrec rec = true /\
     exists q f' a' k' subs' r' sf', rec = OSubbuild f' a' k' subs' r' false sf' /\ py_eq q key = true /\
       srec_staticH (w_old w) c0 q rec = true /\ subs_staticH (w_old w) c0 None subs' = true).
  Proof.
    intros rec Eg. destruct (proj2 Hokc key rec Eg) as (q & Hq & Hst).
    destruct rec as [q0 r0 e0|p' c' f' a' k' subs' rt' cr' ra' sf'|f0 a0 k0 sb0 r0 ra0 sf0]; try (left; intros; discriminate).
    destruct ra0; [left; intros; discriminate|]. right.
    pose proof Hst as Hst0. cbn [srec_staticH orb] in Hst.
    do 6 (apply andb_true_iff in Hst; destruct Hst as [Hst ?]).
    split; [|split].
    - cbn [sub_rec_ok]. apply (static_subs_okH c0 W w s'); [|exact Hst]. intros x g Hx Hg. apply (Hnew x g Hx). exact Hg.
    - cbn [wfrec]. destruct (static_partsH _ _ _ _ Hst) as (_ & _ & _ & _ & _ & _ & K). exact K.
    - exists q, f0, a0, k0, sb0, r0, sf0. split; [reflexivity|]. split; [exact Hq|]. split; [exact Hst0|exact Hst].
  Qed.

  Lemma sl_hit_sdH : forall f, core_sub_hit s' key f = core_sub_hit s key f.
  Proof.
    intro f. apply core_sub_hit_sd. intros f' a' k' subs' r' sf' Eg.
    destruct HS4 as (HP & _). rewrite (s3_old _ _ _ (s4_sim _ _ _ _ HP)) in Eg.
    destruct (sl_rec_okH _ Eg) as [K|(_ & _ & (q & f2 & a2 & k2 & sb2 & r2 & sf2 & E & _ & _ & Hst))].
    - exfalso. eapply K. reflexivity.
    - inversion E; subst. destruct (static_partsH _ _ _ _ Hst) as (_ & K & _). exact K.
  Qed.

  Theorem sub_lookup_rrH : forall f wl res,
    subbuild_cache_lookup key f w = (wl, res) ->
    good w wl /\
    match core_subhit s f key with
    | None => res = inl None
    | Some (subs', ret', r) =>
        exists rec cf Tl M, res = inl (Some rec) /\ subs_get (c_subs (w_old w)) key = Some (Some rec) /\
          op_subs rec = subs' /\ op_ret rec = ret' /\
          RRel W w s' [] Tl cf r M /\ (forall t, In t Tl -> In t (flat_map regp subs')) /\
          (forall t, In t (flat_map adp subs') -> In t Tl)
    end.
  Proof.
    intros f wl res H. destruct (sl_facts T W w s HS4) as (HS & HB & HR & Hml & HK).
    rewrite core_subhit_sub_hit, <- sl_hit_sdH.
    assert (Hmiss: (forall f' a' k' subs' r' sf', subs_get (c_subs (w_old w)) key <> Some (Some (OSubbuild f' a' k' subs' r' false sf'))) ->
              good w wl /\ match core_sub_hit s' key f with None => res = inl None | Some _ => False end).
    { intro K. destruct (sublookup_unservable key f w K) as [A B]. rewrite A in H. inversion H; subst.
      split; [apply good_refl; exact HB|]. rewrite (B s' (s3_old _ _ _ HS)). reflexivity. }
    destruct (subs_get (c_subs (w_old w)) key) as [[rec|]|] eqn:Eg.
    2:{ destruct Hmiss as [A B]; [intros; discriminate|]. split; [exact A|]. destruct (core_sub_hit s' key f); [destruct B|exact B]. }
    2:{ destruct Hmiss as [A B]; [intros; discriminate|]. split; [exact A|]. destruct (core_sub_hit s' key f); [destruct B|exact B]. }
    destruct (sl_rec_okH rec Eg) as [K|(Hok & Hwf & _)].
    { destruct Hmiss as [A B]; [intros; intro E; inversion E; subst; eapply K; reflexivity|].
      split; [exact A|]. destruct (core_sub_hit s' key f); [destruct B|exact B]. }
    assert (P: forall rec', subs_get (c_subs (w_old w)) key = Some (Some rec') -> sub_rec_ok true W w s' rec').
    { intros rec' E'. rewrite Eg in E'. inversion E'; subst rec'. exact Hok. }
    pose proof (sub_lookup_agree_H true W w s' HS HB HWcl Hml (fun _ => HHI) (fun q => sdl_HSD1 w q HB) (sdl_HSD2 w) key f wl res HK P H) as Q.
    rewrite Eg in Q. exact Q.
  Qed.

  Theorem sub_lookup5H : forall f wl cached,
    subbuild_cache_lookup key f w = (wl, inl cached) ->
    (cached = None <-> core_subhit s f key = None).
  Proof.
    intros f wl cached H. destruct (sub_lookup_rrH f wl (inl cached) H) as [_ P].
    destruct (core_subhit s f key) as [[[subs' ret'] r]|].
    - destruct P as (rec & cf & Tl & M & E & _). inversion E; subst. split; discriminate.
    - inversion P; subst. split; reflexivity.
  Qed.
End SubLookupH.

Section SubHit5H.
  Variables (c0 : N) (T W : list path) (w : world) (s : kstate).
  Hypothesis Hokc : okcH c0 (w_old w).
  Hypothesis HHI : HInv w.
  Hypothesis HS4 : Sim4c T W w s.
  Hypothesis HWcl : forall q, mem_path q W = true -> cache_has_file (w_new w) q = true.
  Hypothesis Hnew : forall q g, mem_path q W = true ->
    lookup (w_fs w) q = Some (NFile g) \/ lookup (k_fs s) q = Some (NFile g) -> (c0 < f_mtime g)%N.

  Let s' := with_sd s (sdl w).

  Theorem sub_hit5H : forall f sa skw wl co w1 r subs' ret' rr,
    let key := subbuild_key f sa skw in
    wfkey key -> cache_has_subbuild (w_new w) key = false ->
    subbuild_cache_lookup key f w = (wl, inl (Some co)) ->
    core_subhit s f key = Some (subs', ret', rr) ->
    sb_reuse f sa skw co wl = (w1, r) ->
    let o' := OSubbuild f sa skw subs' ret' false false in
    exists T', r = inl (Some (inl o')) /\
      Sim4c T' W w1 (adopt s rr o') /\
      (forall y, inprog w1 y <-> inprog w y) /\
      w_fs w1 = w_fs w /\ w_old w1 = w_old w /\
      (forall x g, mem_path x W = true -> lookup (k_fs (adopt s rr o')) x = Some (NFile g) -> lookup (k_fs s) x = Some (NFile g)).
  Proof.
    intros f sa skw wl co w1 r subs' ret' rr key Hwk Hunc Hlook Hhit Hreuse o'.
    destruct (sl_facts T W w s HS4) as (HS & HB & HR & Hml & HK). fold s' in HS, HK.
    pose proof HS4 as (HP & HL).
    pose proof (s4_rinv _ _ _ _ HP) as HR2. pose proof (RInv_X _ _ HR) as HX.
    assert (Hcfd: isdir (w_fs w) (w_cachefile w) = false) by (destruct HR2 as (_ & (E & _) & _); exact E).
    (* 1. the lookup on both sides *)
    destruct (sub_lookup_rrH c0 T W w s key Hokc HHI HS4 HWcl Hnew f wl (inl (Some co)) Hlook) as (Gl & P).
    fold s' in P. rewrite Hhit in P.
    destruct P as (rec & cf & Tl & M & Erec & Eget & Esubs & Eret & RR & TlR & TlA).
    inversion Erec; subst rec. clear Erec.
    (* 2. the record *)
    destruct (sl_rec_okH c0 W w s key Hokc Hnew co Eget) as [K|(Hrok & Hwf & (q & f2 & a2 & k2 & sb2 & r2 & sf2 & Eco & Hq & Hsr & Hst))].
    { exfalso. destruct (sublookup_some_shape _ _ _ _ _ Hlook) as (f2 & a2 & k2 & sb2 & r2 & sf2 & E). eapply K. exact E. }
    fold s' in Hrok.
    assert (Esb: op_subs co = sb2) by (rewrite Eco; reflexivity).
    destruct (static_partsH _ _ _ _ Hst) as (Hrk & Hcalm & Hns & HndR & _ & Hkf & Hwfs).
    rewrite <- Esb in Hrk, Hcalm, Hns, HndR, Hkf, Hwfs.
    (* the key of the call against the keys of the nested records *)
    assert (Hkeynew: forall y, In y (snd (cll (op_subs co))) -> py_eq key y = false).
    { intros y Hy. rewrite Eco in Hsr. cbn [srec_staticH orb] in Hsr. do 6 (apply andb_true_iff in Hsr; destruct Hsr as [Hsr ?]).
      rename H into Hfr, H0 into Hkq, H1 into Pk, H2 into Pa, H3 into Sk, H4 into Sa.
      set (key' := subbuild_key f2 a2 k2) in *.
      assert (Hwk': wfkey key') by (exists f2, a2, k2; repeat split; assumption).
      assert (Hwy: wfkey y) by (apply (cll_keys_wf _ _ _ Hns y Hy)).
      destruct (py_eq key y) eqn:E; [|reflexivity]. exfalso.
      assert (K1: py_eq key' key = true).
      { apply (key_join key' key Hwk' Hwk q Hkq). rewrite (key_sym' key Hwk q). exact Hq. }
      assert (K2: py_eq key' y = true).
      { apply (key_join key' y Hwk' Hwy key K1). rewrite (key_sym' y Hwy key). exact E. }
      rewrite forallb_forall in Hfr. rewrite Esb in Hy. specialize (Hfr y Hy). rewrite K2 in Hfr. discriminate. }
    pose proof (subbuild_cache_lookup_q _ _ _ _ _ Hlook) as Ql. pose proof (qrel_RInv _ _ _ Ql HR) as HRl.
    destruct (qrel_at _ _ Ql) as (Fl & Nl & Cl & Ol).
    (* 3. the steps of the reuse *)
    destruct (sb_reuse_steps f sa skw co wl w1 r Hreuse) as (wa & ra & Happ & Hrest).
    set (o := OSubbuild f sa skw (op_subs co) (op_ret co) false false) in *.
    assert (Eo: o' = o) by (unfold o', o; rewrite Esubs, Eret; reflexivity).
    (* 4. the adoption *)
    destruct (sublookup_found _ _ _ _ _ Hlook) as [Hreu _].
    { intros rc E. rewrite Eget in E. inversion E; subst rc. apply wfrec_goodrec. exact Hwf. }
    assert (Hat: at0 (w_fs w) (w_new w) (w_cachefile w) wl) by (repeat split; congruence).
    set (L := flat_map adopted (op_subs co)) in *.
    destruct (apply_cached_exact (w_fs w) (w_new w) (w_cachefile w) Hcfd co T wl wa ra Hreu Hwfs HRl Hat Happ)
      as (Era & Fa & Na & Oa & Ca & HRa & Va & Ba). fold L in HRa, Va, Ba.
    subst ra. destruct Hrest as (ru & Hreg & Er).
    assert (EL: L = flat_map regp (op_subs co)) by (apply (calm_reusable_adopted_list _ _ _ _ Hreu Hcalm)).
    set (T' := rev L ++ T) in *.
    assert (Efs: w_fs wa = w_fs w) by congruence.
    assert (Enew: w_new wa = w_new w) by congruence.
    assert (Hsub_regp: forall a, In a L -> cache_has_file (w_new w) a = false /\ path_eqb a (w_cachefile w) = false /\
                                           (In a L \/ lexists (w_fs w) a = false)).
    { intros a Ha. split; [|split; [|left; exact Ha]]; rewrite EL in Ha; apply in_flat_map in Ha; destruct Ha as [sub [Hs Ha]];
        rewrite forallb_forall in Hreu; apply (reusable_regp _ _ _ sub (Hreu sub Hs) a Ha). }
    (* 5. the registration *)
    destruct (use_cached_gen T' wa o HRa) as (w1' & Eu & HR1 & _).
    { unfold o. cbn [assert_no_repeats orb]. rewrite Enew. fold key. rewrite Hunc. cbn [negb andb].
      clear -Hreu. induction (op_subs co) as [|x rest IH]; cbn [forallb] in *; [reflexivity|].
      apply andb_true_iff in Hreu. destruct Hreu as [H1 H2]. rewrite (reusable_no_repeats _ _ _ _ H1), (IH H2). reflexivity. }
    { intros a Ha. left. unfold o in Ha. cbn [regp] in Ha. rewrite <- EL in Ha. apply in_or_app. left. apply in_rev. rewrite rev_involutive. exact Ha. }
    rewrite Eu in Hreg. inversion Hreg; subst w1' ru. clear Hreg. subst r.
    assert (Ew1: w1 = set_new (register_op (w_new wa) o) wa).
    { unfold new_use_cached_operation, bind, get, put in Eu. destruct (assert_no_repeats (w_new wa) o); inversion Eu; reflexivity. }
    assert (Eadp: flat_map adp (op_subs co) = L).
    { unfold L. symmetry. apply flat_map_ext_in. intros x Hx. rewrite forallb_forall in Hreu. apply (reusable_adp _ _ _ x (Hreu x Hx)). }
    assert (Hset: forall t, In t Tl <-> In t L).
    { intro t. split; [intro Ht; rewrite EL, Esubs; apply TlR; exact Ht|intro Ht; apply TlA; rewrite <- Esubs, Eadp; exact Ht]. }
    (* 6. Sim3 *)
    set (s2 := adopt s rr o').
    assert (Hreuo: reusable (w_fs w) (w_new w) (w_cachefile w) o = true).
    { unfold o. cbn [reusable]. fold key. rewrite Hunc, Hreu. reflexivity. }
    assert (Hkeyso: forall x, In x (snd (tree_claims o)) -> wfkey x).
    { intros x Hx. unfold o in Hx. rewrite tree_claims_SB in Hx. cbn [snd] in Hx. destruct Hx as [<-|Hx]; [exact Hwk|].
      apply (cll_keys_wf _ _ _ Hns x Hx). }
    assert (Hkfo: kfresh (snd (tree_claims o))).
    { unfold o. rewrite tree_claims_SB. cbn [snd kfresh]. split; [exact Hkeynew|exact Hkf]. }
    assert (HS2: Sim3 W w1 s2).
    { destruct (sub_hit_sim3_H true W w s' HS HWcl Hml (fun _ => HHI) (fun x => sdl_HSD1 w x HB) (sdl_HSD2 w)
                  T f sa skw wl co wa (inl tt) w1 (inl tt) HR Hcfd HK Hunc)
        as (sb' & rt' & r' & Eh' & _ & _ & _ & HSim).
      - intros rc E. fold key in E. rewrite Eget in E. inversion E; subst rc. split; [exact Hrok|exact Hwf].
      - exact Hlook.
      - exact Happ.
      - exact Eu.
      - fold key in Eh'. unfold s' in Eh'. rewrite (sl_hit_sdH c0 T W w s key Hokc HS4 Hnew), <- core_subhit_sub_hit, Hhit in Eh'.
        inversion Eh'; subst sb' rt' r'. fold s' in HSim. fold o in HSim.
        apply (with_sd_Sim3_inv W w1 s2 (sdl w)). unfold s2. rewrite Eo. rewrite <- adopt_with_sd. apply HSim.
        rewrite Ew1. cbn [w_new set_new]. rewrite Enew. apply (sub_tables_wf W w s' rr o HS); [|exact Hreuo|exact Hkfo].
        intros x [Hx|Hx]; [|apply Hkeyso; exact Hx].
        apply in_map_iff in Hx. destruct Hx as [[q' v] [E Hin]]. cbn [fst] in E. subst q'. apply (s4_subs_wf _ _ _ _ HP x v Hin). }
    (* 7. the run invariant of the mechanism *)
    assert (HR21: RInv2' T' w1).
    { apply (RInv2_step T T' w w1 HR2); [|exact HR1].
      eapply gl_trans; [apply svb_gl; apply (subbuild_cache_lookup_svb _ _ _ _ _ Hlook)|].
      eapply gl_trans; [apply (apply_cached_subs_of_gl _ _ _ _ _ Happ); apply shallow_op_subs; apply wfrec_shallow; exact Hwf|].
      apply (new_use_cached_operation_gl walk_fuel _ _ _ _ Eu). }
    pose proof (RInv_X _ _ HR1) as HX1. pose proof (x_binv _ _ HX1) as HB1.
    pose proof (with_sd_RRel W w s (sdl w) _ _ _ _ _ RR) as RR0.
    assert (Eneed: k_need s2 = Tl ++ k_need s) by (apply (rr_need _ _ _ _ _ _ _ _ RR)).
    assert (Emade: k_made s2 = k_made s ++ M) by (apply (rr_made _ _ _ _ _ _ _ _ RR)).
    assert (Efs2: k_fs s2 = rp_fs rr) by reflexivity.
    assert (HK2: KInv s2 None).
    { apply (with_sd_KInv_inv s2 (sdl w)). unfold s2. rewrite <- adopt_with_sd.
      apply (KInv_after_sub_hit W w s' HS Tl cf rr M o' HK RR). intros t Ht. cbn [regp]. apply TlR. exact Ht. }
    assert (HNoDupL: NoDup L) by (rewrite EL; exact HndR).
    assert (HinT'_iff: forall x, In x T' <-> In x L \/ In x T).
    { intro x. unfold T'. rewrite in_app_iff, <- in_rev. reflexivity. }
    assert (Hkeep: forall x, lookup (k_fs s) x = Some NDir -> lookup (k_fs s2) x = Some NDir).
    { intros x Hx. rewrite Efs2. apply (scratch_keeps_dir W w s' HS Tl cf rr M x RR Hx). }
    exists T'. split; [rewrite Eo; reflexivity|]. split; [|split; [|split; [|split]]].
    - split.
      + constructor.
        * exact HS2.
        * exact HR21.
        * unfold T'. apply NoDup_app_parts_inv.
          -- apply NoDup_rev. exact HNoDupL.
          -- apply (s4_nodup _ _ _ _ HP).
          -- intros t Ht1 Ht2. apply in_rev in Ht1. destruct (Hsub_regp t Ht1) as [A _]. rewrite (HL t Ht2) in A. discriminate.
        * intro x. rewrite Eneed, mem_path_app, orb_true_iff, (HinT'_iff x).
          rewrite (ViewLemmas.mem_path_In x Tl), (Hset x), (s4_need _ _ _ _ HP x). reflexivity.
        * intro x. rewrite Emade, mem_path_app, (s4_made _ _ _ _ HP x).
          rewrite Ew1. cbn [w_bd set_new]. rewrite (Ba x).
          destruct (qrel_facts _ _ _ HX Ql) as (HXl & Sl & _ & _).
          rewrite (sv_created _ _ Sl), (same_view_view_fs _ _ Sl).
          f_equal. rewrite <- (existsb_same_set' (is_ancestor x) Tl L Hset).
          destruct (mem_path x M) eqn:EM.
          -- apply ViewLemmas.mem_path_In in EM. rewrite (rr_m2 _ _ _ _ _ _ _ _ RR x EM), (rr_m1 _ _ _ _ _ _ _ _ RR x EM). reflexivity.
          -- destruct (existsb (is_ancestor x) Tl) eqn:Ea; [|reflexivity].
             destruct (lookup (view_fs w) x) eqn:Ev; [reflexivity|]. exfalso.
             pose proof (rr_m3 _ _ _ _ _ _ _ _ RR x Ea Ev) as K. apply ViewLemmas.mem_path_In in K. congruence.
        * apply (te_wf (view_fs w1) (k_fs s2)); [eapply trel_te; apply (Sim3_trel _ _ _ HS2)|apply (view_tree_wf _ HB1)].
        * intros t Ht. destruct (x_tgt _ _ HX1 t Ht) as (Htne & _).
          destruct t as [|n d]; [contradiction|]. cbn [dirname tl].
          apply (ki_need _ _ HK2 (n :: d) d); [|apply is_ancestor_dirname].
          rewrite Eneed. apply (HinT'_iff (n :: d)) in Ht. apply in_or_app.
          destruct Ht as [A|A]; [left; apply Hset; exact A|right].
          apply ViewLemmas.mem_path_In. apply (s4_need _ _ _ _ HP (n :: d)). exact A.
        * intros x Hx. apply Hkeep. apply (s4_cfdir _ _ _ _ HP x).
          rewrite Ew1 in Hx. cbn [w_cachefile set_new] in Hx. rewrite Ca, Cl in Hx. exact Hx.
        * intros x Hx Hs. rewrite Ew1 in Hs. cbn [w_cachefile set_new] in Hs. rewrite Ca, Cl in Hs.
          rewrite Emade in Hx. apply in_app_iff in Hx. destruct Hx as [Hx|Hx]; [apply (s4_madecf _ _ _ _ HP x Hx Hs)|].
          pose proof (rr_m1 _ _ _ _ _ _ _ _ RR x Hx) as K1.
          pose proof (sim3_dir_view _ _ _ _ (s4_sim _ _ _ _ HP) (s4_cfdir _ _ _ _ HP x Hs)) as K2. congruence.
        * rewrite Ew1. cbn [w_new set_new]. rewrite Enew.
          apply (reg_keys_sim4 (w_fs w) (w_cachefile w) (w_new w) o (k_newS s) Hreuo); try assumption.
          -- apply (s4_subs_wf _ _ _ _ HP).
          -- apply (s4_subs_sep _ _ _ _ HP).
          -- apply (s4_newS_wf _ _ _ _ HP).
        * rewrite Ew1. cbn [w_new set_new]. rewrite Enew.
          apply (reg_keys_sim4 (w_fs w) (w_cachefile w) (w_new w) o (k_newS s) Hreuo); try assumption.
          -- apply (s4_subs_wf _ _ _ _ HP).
          -- apply (s4_subs_sep _ _ _ _ HP).
          -- apply (s4_newS_wf _ _ _ _ HP).
        * change (k_newS s2) with (k_newS s ++ snd (tree_regs o')). rewrite Eo.
          apply (reg_keys_sim4 (w_fs w) (w_cachefile w) (w_new w) o (k_newS s) Hreuo); try assumption.
          -- apply (s4_subs_wf _ _ _ _ HP).
          -- apply (s4_subs_sep _ _ _ _ HP).
          -- apply (s4_newS_wf _ _ _ _ HP).
      + intros x Hx. rewrite Ew1. cbn [w_new set_new]. rewrite reg_has_file, Enew, <- regp_claims.
        apply (HinT'_iff x) in Hx. destruct Hx as [A|A].
        * unfold o. cbn [regp]. rewrite <- EL, (proj2 (ViewLemmas.mem_path_In x L) A). reflexivity.
        * rewrite (HL x A). apply orb_true_r.
    - intro y. unfold inprog. rewrite Ew1. cbn [w_new set_new].
      assert (Hndo: NoDup (fst (tree_claims o))).
      { rewrite <- regp_claims. unfold o. cbn [regp]. rewrite <- EL. exact HNoDupL. }
      rewrite (reg_files_all o (w_new wa) y Hndo), Enew.
      destruct (kf_get (fst (tree_regs o)) y) as [x|] eqn:Ex; [|reflexivity].
      assert (Hq': In y (regp o)) by (rewrite regp_claims, <- regs_keysF; eapply kf_get_keys; exact Ex).
      assert (Huq: cache_has_file (w_new w) y = false).
      { unfold o in Hq'. cbn [regp] in Hq'. rewrite <- EL in Hq'. apply (Hsub_regp y Hq'). }
      unfold cache_has_file in Huq. destruct (files_get (c_files (w_new w)) y); [discriminate|]. split; discriminate.
    - rewrite Ew1. cbn [w_fs set_new]. exact Efs.
    - rewrite Ew1. cbn [w_old set_new]. congruence.
    - intros x g Hx Hl. rewrite Efs2 in Hl. apply (rr_w _ _ _ _ _ _ _ _ RR0 x g Hx Hl).
  Qed.
End SubHit5H.

Print Assumptions sub_lookup5H.
Print Assumptions sub_hit5H.
