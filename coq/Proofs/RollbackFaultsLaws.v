(* Proofs/RollbackFaultsLaws.v — the rollback law of a build with INJECTED FAULTS
   (property C14, file half): an adapted copy of Proofs/RollbackLaws.v in which the
   invariant no longer says "no fault is pending".  [F] is the fault list of the run (it
   never changes: [w_faults w = F]).  The forward phase (setup, user code, cache write)
   keeps the invariant whatever F is -- a failing call changes nothing, and every case
   analysis of back_up_and_remove already allowed it to raise.  _roll_back itself is
   analysed under [fpassed w]: every fault ordinal lies below the effect counter, so no
   call made from now on is hit.  Side conditions A, C, D, E as in RollbackLaws.
   The theorem is in RollbackFaultsMain.v. *)
From Coq Require Import List String Ascii NArith ZArith Bool Arith Lia.
From FB.Base Require Import PyVal Fs.
From FB.Gen Require Import JsonUtilGen.
From FB.Spec Require Import Prog.
From FB.Model Require Import Types Monad CreatedFiles BuildDirs SimpleOps Builder Persist Build Run Frame.
From FB.Proofs Require Import FsLemmas ReplayLaws FrameLaws.
Import ListNotations.
Local Open Scope list_scope.

#[local] Hint Resolve m_handle_dir_exists_svb m_is_removed_svb is_file_no_read_svb is_cache_file_svb
  file_metadata_svb file_hash_svb list_dir_superset_svb file_comparison_result_svb
  m_is_file_svb m_is_dir_svb m_exists_svb exec_query_svb noneable_cmp_svb version_equal_svb
  is_build_file_cached_svb dirs_to_make_svb is_op_cached_svb are_subs_cached_svb
  build_file_cache_lookup_svb subbuild_cache_lookup_svb m_bd_started_svb m_bd_error_svb
  new_assert_no_file_svb new_assert_no_subbuild_svb m_query_svb : pres.

(* ================================================================== *)
(* 0. Paths, ancestors, sorting, recorded targets                      *)
(* ================================================================== *)

Lemma In_insert_by' : forall A (leb : A -> A -> bool) x a l,
  In x (insert_by leb a l) <-> a = x \/ In x l.
Proof.
  intros A leb x a l. induction l as [|y ys IH]; simpl.
  - tauto.
  - destruct (leb a y); simpl; tauto.
Qed.

Lemma In_sort_by' : forall A (leb : A -> A -> bool) x l, In x (sort_by leb l) <-> In x l.
Proof.
  intros A leb x l. induction l as [|a l IH]; simpl; [tauto|].
  fold (sort_by leb l). rewrite In_insert_by', IH. tauto.
Qed.

Lemma below_length : forall a b, below a b = true -> List.length a < List.length b.
Proof.
  intros a b. induction b as [|x b IH]; cbn [below]; intro H; [discriminate|].
  apply orb_true_iff in H. destruct H as [H|H].
  - apply path_eqb_eq in H. subst. cbn. lia.
  - apply IH in H. cbn. lia.
Qed.

Lemma below_irrefl : forall a, below a a = false.
Proof.
  intro a. destruct (below a a) eqn:E; [|reflexivity]. apply below_length in E. lia.
Qed.

Lemma below_cons : forall a x b, below a b = true -> below a (x :: b) = true.
Proof. intros a x b H. cbn [below]. rewrite H. apply orb_true_r. Qed.

Lemma below_self_cons : forall x b, below b (x :: b) = true.
Proof. intros x b. cbn [below]. rewrite path_eqb_refl. reflexivity. Qed.

Lemma below_trans : forall a b c, below a b = true -> below b c = true -> below a c = true.
Proof.
  intros a b c Hab. induction c as [|x c IH]; cbn [below]; intro H; [discriminate|].
  apply orb_true_iff in H. destruct H as [H|H].
  - apply path_eqb_eq in H. subst c. rewrite Hab. apply orb_true_r.
  - rewrite (IH H). apply orb_true_r.
Qed.

(* under a well-formed tree every proper ancestor of an existing path is a directory *)
Lemma wf_ancestor_dir : forall fs, fs_wf fs -> forall p n a,
  lookup fs p = Some n -> below a p = true -> lookup fs a = Some NDir.
Proof.
  intros fs Hwf p. induction p as [|x p IH]; intros n a Hl Hb; cbn [below] in Hb; [discriminate|].
  pose proof (Hwf _ _ Hl) as Hd. cbn [dirname tl] in Hd.
  apply orb_true_iff in Hb. destruct Hb as [Hb|Hb].
  - apply path_eqb_eq in Hb. subst. exact Hd.
  - eapply IH; eauto.
Qed.

(* the targets of the build_file records in a recorded operation tree *)
Fixpoint op_targets (o : op) : list path :=
  match o with
  | OSimple _ _ _ => []
  | OBuildFile p _ _ _ _ subs _ _ _ _ => p :: flat_map op_targets subs
  | OSubbuild _ _ _ subs _ _ _ => flat_map op_targets subs
  end.

Definition opt_targets (o : option op) : list path :=
  match o with Some x => op_targets x | None => [] end.

(* every build_file target mentioned anywhere in a cache *)
Definition cache_targets (c : cache) : list path :=
  flat_map (fun e => opt_targets (snd e)) (c_files c) ++
  flat_map (fun e => opt_targets (snd e)) (c_subs c).

Lemma subs_get_In : forall l k o, subs_get l k = Some o -> exists k', In (k', o) l.
Proof.
  induction l as [|[q o'] l IH]; intros k o H; cbn [subs_get] in H; [discriminate|].
  destruct (py_eq q k).
  - inversion H; subst. exists q. left; reflexivity.
  - destruct (IH _ _ H) as [k' Hk]. exists k'. right. exact Hk.
Qed.

Lemma cache_get_file_targets : forall c p o t,
  cache_get_file c p = Some o -> In t (op_targets o) -> In t (cache_targets c).
Proof.
  intros c p o t H Ht. unfold cache_get_file in H.
  destruct (files_get (c_files c) p) as [x|] eqn:E; [|discriminate]. subst x.
  apply files_get_In in E. unfold cache_targets. apply in_or_app. left.
  apply in_flat_map. exists (p, Some o). split; [exact E | exact Ht].
Qed.

Lemma subs_get_targets : forall c k o t,
  subs_get (c_subs c) k = Some (Some o) -> In t (op_targets o) -> In t (cache_targets c).
Proof.
  intros c k o t H Ht. apply subs_get_In in H. destruct H as [k' H].
  unfold cache_targets. apply in_or_app. right.
  apply in_flat_map. exists (k', Some o). split; [exact H | exact Ht].
Qed.

(* ================================================================== *)
(* 1. The invariant and the relation                                   *)
(* ================================================================== *)

Section Rollback.

Variable fs0 : fsT.               (* the tree when the build starts *)
Variable old : cache.             (* the previous build *)
Variable cf : path.               (* the cache file *)
Variable P : path -> Prop.        (* the targets of this build *)
Variable Flt : list nat.          (* the injected faults of this run *)

(* every injected fault lies in the past *)
Definition fpassed (w : world) : Prop := forall n, In n (w_faults w) -> n < w_effects w.

Definition origfile (p : path) (f : fnode) : Prop := lookup fs0 p = Some (NFile f).
Definition notorig (p : path) : Prop := forall f, lookup fs0 p <> Some (NFile f).

Definition built_le (w w' : world) : Prop :=
  forall q, In q (c_built (w_new w)) -> In q (c_built (w_new w')).

Definition RInv (w : world) : Prop :=
  w_faults w = Flt /\ w_old w = old /\ w_cachefile w = cf /\
  (forall p f, origfile p f -> lookup (w_fs w) p = Some (NFile f) \/ In (p, f) (w_backups w)) /\
  (forall p f, In (p, f) (w_backups w) -> origfile p f) /\
  (forall p, In p (c_built (w_new w)) -> notorig p \/ In p (map fst (w_backups w))) /\
  (forall p g, lookup (w_fs w) p = Some (NFile g) -> origfile p g \/ In p (c_built (w_new w))) /\
  (forall p, In p (c_built (w_new w)) -> cache_has_file (w_new w) p = true /\ P p /\ p <> cf) /\
  (forall q f, origfile q f -> lookup (w_fs w) q <> Some NDir).

(* [t]: the target user code may currently write *)
Definition tcond (t : option path) (w : world) : Prop :=
  forall p, t = Some p -> In p (c_built (w_new w)).

Definition RelT (t : option path) (w w' : world) : Prop :=
  RInv w -> tcond t w -> RInv w' /\ built_le w w'.

Lemma built_le_refl : forall w, built_le w w.
Proof. intros w q H. exact H. Qed.

Lemma built_le_trans : forall a b c, built_le a b -> built_le b c -> built_le a c.
Proof. intros a b c H1 H2 q H. apply H2, H1, H. Qed.

Lemma RelT_refl : forall t w, RelT t w w.
Proof. intros t w H _. split; [exact H | apply built_le_refl]. Qed.

Lemma RelT_trans : forall t a b c, RelT t a b -> RelT t b c -> RelT t a c.
Proof.
  intros t a b c H1 H2 Ha Ta. destruct (H1 Ha Ta) as [Hb L1].
  assert (Tb : tcond t b) by (intros p Hp; apply L1, Ta, Hp).
  destruct (H2 Hb Tb) as [Hc L2]. split; [exact Hc | eapply built_le_trans; eauto].
Qed.

Definition RPOt (t : option path) : PO :=
  {| rel := RelT t; po_refl := RelT_refl t; po_trans := RelT_trans t |}.

Lemma RInv_ext : forall w w', RInv w ->
  w_faults w' = w_faults w -> w_old w' = w_old w -> w_cachefile w' = w_cachefile w ->
  w_new w' = w_new w -> w_backups w' = w_backups w -> w_fs w' = w_fs w -> RInv w'.
Proof.
  intros w w' H E1 E2 E3 E4 E5 E6. unfold RInv in *. rewrite E1, E2, E3, E4, E5, E6. exact H.
Qed.

Lemma built_le_same : forall w w', w_new w' = w_new w -> built_le w w'.
Proof. intros w w' E q H. rewrite E. exact H. Qed.

Lemma RelT_same : forall t w w',
  w_faults w' = w_faults w -> w_old w' = w_old w -> w_cachefile w' = w_cachefile w ->
  w_new w' = w_new w -> w_backups w' = w_backups w -> w_fs w' = w_fs w -> RelT t w w'.
Proof.
  intros t w w' E1 E2 E3 E4 E5 E6 H _. split; [eapply RInv_ext; eauto | apply built_le_same; exact E4].
Qed.

Lemma svb_RelT : forall t w w', svbPO w w' -> RPOt t w w'.
Proof.
  cbn. unfold same_but_view. intros t w w' H.
  destruct H as (A1 & A2 & A3 & A4 & A5 & A6 & A7 & A8 & A9 & A10 & A11).
  apply RelT_same; auto.
Qed.

Hint Extern 8 (pres (RPOt _) _) => apply (pres_weaken svbPO (RPOt _) _ _ (svb_RelT _)) : pres.

Lemma pres_svb_T : forall t X (m : world -> world * X), pres svbPO m -> pres (RPOt t) m.
Proof. intros t X m. apply pres_weaken. apply svb_RelT. Qed.

(* a relation proved without a current target holds with any *)
Lemma RelT_None : forall t w w', RelT None w w' -> RelT t w w'.
Proof. intros t w w' H Hi _. apply H; [exact Hi | intros p X; discriminate X]. Qed.

Lemma pres_None : forall t X (m : world -> world * X), pres (RPOt None) m -> pres (RPOt t) m.
Proof. intros t X m. apply pres_weaken. apply RelT_None. Qed.

Lemma RelT_set_log : forall t l w, RelT t w (set_log l w).
Proof. intros t l w. apply RelT_same; reflexivity. Qed.

(* [w <- get ;; k w] when the invariant of the world read is all that matters *)
Lemma pres_bind_getT : forall t A (k : world -> M A),
  (forall w0, RInv w0 -> tcond t w0 -> pres (RPOt t) (k w0)) -> pres (RPOt t) (bind get k).
Proof.
  intros t A k Hk w w' r H Hinv Ht. unfold bind, get in H. exact (Hk w Hinv Ht w w' r H Hinv Ht).
Qed.

(* the value produced by the first computation satisfies a property the rest depends on *)
Lemma pres_bind_val : forall t A B (m : M A) (f : A -> M B) (Phi : A -> Prop),
  pres (RPOt t) m ->
  (forall w w1 a, RInv w -> m w = (w1, inl a) -> Phi a) ->
  (forall a, Phi a -> pres (RPOt t) (f a)) -> pres (RPOt t) (bind m f).
Proof.
  intros t A B m f Phi Hm Hv Hf w w' r H. change (RelT t w w'). apply bind_inv in H.
  destruct H as [(w1 & a & E1 & H) | (e & E1 & _)].
  - intros Hi Ht. pose proof (Hv _ _ _ Hi E1) as Ha.
    exact (RelT_trans t _ _ _ (Hm _ _ _ E1) (Hf a Ha _ _ _ H) Hi Ht).
  - exact (Hm _ _ _ E1).
Qed.

(* ---- steps that change directories only ---- *)
Lemma RInv_dirs : forall w w', RInv w ->
  w_faults w' = w_faults w -> w_old w' = w_old w -> w_cachefile w' = w_cachefile w ->
  w_new w' = w_new w -> w_backups w' = w_backups w ->
  (forall q g, lookup (w_fs w') q = Some (NFile g) <-> lookup (w_fs w) q = Some (NFile g)) ->
  (forall q, lookup (w_fs w') q = Some NDir -> lookup (w_fs w) q = Some NDir \/ notorig q) ->
  RInv w'.
Proof.
  intros w w' (A & B & C & I1 & I2 & I3 & I4 & I5 & I6) E1 E2 E3 E4 E5 HF HD.
  unfold RInv. rewrite E1, E2, E3, E4, E5.
  split; [exact A|]. split; [exact B|]. split; [exact C|].
  split; [|split; [exact I2|split; [exact I3|split; [|split; [exact I5|]]]]].
  - intros p f Hp. destruct (I1 p f Hp) as [X|X]; [left; apply HF; exact X | right; exact X].
  - intros p g Hp. apply I4. apply HF. exact Hp.
  - intros q f Hq X. destruct (HD q X) as [Y|Y]; [exact (I6 q f Hq Y) | exact (Y f Hq)].
Qed.

Definition dirs_only (f : fsT -> fsT + oserr) : Prop :=
  forall fs fs', f fs = inl fs' ->
    (forall q g, lookup fs' q = Some (NFile g) <-> lookup fs q = Some (NFile g)) /\
    (forall q, lookup fs' q = Some NDir -> lookup fs q = Some NDir \/ notorig q).

Lemma effect_dirs_R : forall t what p f, dirs_only f -> pres (RPOt t) (effect what p f).
Proof.
  intros t what p f Hf w w' r H Hinv _. unfold effect in H. cbv zeta in H.
  destruct (existsb (Nat.eqb (w_effects w)) (w_faults w)).
  - inversion H; subst. split; [eapply RInv_ext; eauto | apply built_le_same; reflexivity].
  - cbn [w_fs set_effects] in H. destruct (f (w_fs w)) as [fs'|e] eqn:E; inversion H; subst.
    + destruct (Hf _ _ E) as [HF HD].
      split; [eapply RInv_dirs; eauto | apply built_le_same; reflexivity].
    + split; [eapply RInv_ext; eauto | apply built_le_same; reflexivity].
Qed.

Lemma mkdir_dirs_only : forall d, notorig d -> dirs_only (fun fs => mkdir fs d).
Proof.
  intros d Hd fs fs' H. apply mkdir_frame in H. destruct H as (H1 & H2 & H3). split.
  - intros q g. destruct (path_eqb q d) eqn:E.
    + apply path_eqb_eq in E. subst q. rewrite H1, H2. split; intro X; discriminate X.
    + apply path_eqb_neq in E. rewrite (H3 q E). tauto.
  - intros q X. destruct (path_eqb q d) eqn:E.
    + apply path_eqb_eq in E. subst q. right. exact Hd.
    + apply path_eqb_neq in E. rewrite (H3 q E) in X. left. exact X.
Qed.

Lemma rmdir_dirs_only : forall d, dirs_only (fun fs => rmdir fs d).
Proof.
  intros d fs fs' H. apply rmdir_frame in H. destruct H as (H1 & _ & _ & H2 & H3). split.
  - intros q g. destruct (path_eqb q d) eqn:E.
    + apply path_eqb_eq in E. subst q. rewrite H1, H2. split; intro X; discriminate X.
    + apply path_eqb_neq in E. rewrite (H3 q E). tauto.
  - intros q X. destruct (path_eqb q d) eqn:E.
    + apply path_eqb_eq in E. subst q. rewrite H2 in X. discriminate X.
    + apply path_eqb_neq in E. rewrite (H3 q E) in X. left. exact X.
Qed.

Lemma effect_mkdir_T : forall t what d, notorig d -> pres (RPOt t) (effect what d (fun fs => mkdir fs d)).
Proof. intros. apply effect_dirs_R. apply mkdir_dirs_only. assumption. Qed.

Lemma effect_rmdir_T : forall t what d, pres (RPOt t) (effect what d (fun fs => rmdir fs d)).
Proof. intros. apply effect_dirs_R. apply rmdir_dirs_only. Qed.

Hint Resolve effect_rmdir_T : pres.

Lemma remove_empty_dirs_T : forall t ds, pres (RPOt t) (remove_empty_dirs ds).
Proof. intros t ds. unfold remove_empty_dirs. pres_auto. Qed.
Hint Resolve remove_empty_dirs_T : pres.

(* ================================================================== *)
(* 2. Primitives that change regular files                             *)
(* ================================================================== *)

Lemma origfile_inj : forall p f g, origfile p f -> origfile p g -> f = g.
Proof. unfold origfile. intros p f g H1 H2. congruence. Qed.

Lemma effect_fields' : forall what p f w w' r, effect what p f w = (w', r) ->
  w_faults w' = w_faults w /\ w_old w' = w_old w /\ w_cachefile w' = w_cachefile w /\
  w_new w' = w_new w /\ w_backups w' = w_backups w /\
  (w_fs w' = w_fs w \/ f (w_fs w) = inl (w_fs w')).
Proof.
  intros what p f w w' r H. unfold effect in H. cbv zeta in H.
  destruct (existsb (Nat.eqb (w_effects w)) (w_faults w)).
  - inversion H; subst. cbn. repeat split; auto.
  - cbn [w_fs set_effects] in H. destruct (f (w_fs w)) as [fs'|e] eqn:E; inversion H; subst; cbn; repeat split; auto.
Qed.

(* without faults an effect fails only if the call itself fails *)
Lemma fpassed_nohit : forall w, fpassed w -> existsb (Nat.eqb (w_effects w)) (w_faults w) = false.
Proof.
  intros w H. destruct (existsb (Nat.eqb (w_effects w)) (w_faults w)) eqn:E; [|reflexivity].
  apply existsb_exists in E. destruct E as (n & Hn & E). apply Nat.eqb_eq in E. subst n.
  apply H in Hn. lia.
Qed.

Lemma fpassed_step : forall w w', fpassed w -> w_faults w' = w_faults w -> w_effects w <= w_effects w' -> fpassed w'.
Proof. intros w w' H E1 E2 n Hn. rewrite E1 in Hn. apply H in Hn. lia. Qed.

Lemma effect_nofault' : forall what p f w, fpassed w ->
  effect what p f w =
  match f (w_fs w) with
  | inl fs' => (set_log (LEffect what p :: w_log w) (set_fs fs' (set_effects (S (w_effects w)) w)), inl tt)
  | inr e => (set_effects (S (w_effects w)) w, inr (XOS (err_of e)))
  end.
Proof. intros what p f w H. unfold effect. rewrite (fpassed_nohit w H). reflexivity. Qed.

Lemma rename_out_err : forall fs p e, rename_out fs p = inr e -> lookup fs p = None \/ p = [].
Proof.
  intros fs p e H. unfold rename_out in H.
  destruct (lookup fs p) as [[g|]|] eqn:E1; destruct p as [|n d]; try discriminate; auto.
Qed.

(* what back_up_and_remove does when no directory is in the way, faults or not *)
Lemma back_up_spec : forall p w w' r, back_up_and_remove p w = (w', r) ->
  isdir (w_fs w) p = false ->
  w_faults w' = w_faults w /\ w_old w' = w_old w /\ w_cachefile w' = w_cachefile w /\ w_new w' = w_new w /\
  ((exists f, r = inl true /\ lookup (w_fs w) p = Some (NFile f) /\ lookup (w_fs w') p = None /\
              (forall q, q <> p -> lookup (w_fs w') q = lookup (w_fs w) q) /\
              w_backups w' = w_backups w ++ [(p, f)]) \/
   (w_fs w' = w_fs w /\ w_backups w' = w_backups w /\
    ((r = inl false /\ lookup (w_fs w) p = None) \/ exists e, r = inr e))).
Proof.
  intros p w w' r H Hd. unfold back_up_and_remove in H.
  apply bind_inv in H. destruct H as [(w1 & u & E1 & H) | (e & E1 & ->)].
  2:{ unfold effect in E1. cbv zeta in E1. destruct (existsb (Nat.eqb (w_effects w)) (w_faults w)); inversion E1; subst.
      cbn. repeat split; auto. right. repeat split; auto. right. eauto. }
  assert (K : w_faults w1 = w_faults w /\ w_old w1 = w_old w /\ w_cachefile w1 = w_cachefile w /\ w_new w1 = w_new w /\
              w_fs w1 = w_fs w /\ w_backups w1 = w_backups w).
  { unfold effect in E1. cbv zeta in E1. destruct (existsb (Nat.eqb (w_effects w)) (w_faults w)); inversion E1; subst.
    cbn. repeat split; reflexivity. }
  destruct K as (K1 & K2 & K3 & K4 & K5 & K6). cbv zeta in H.
  destruct (existsb (Nat.eqb (w_effects w1)) (w_faults w1)).
  { inversion H; subst. cbn. repeat split; auto. right. repeat split; auto. right. eauto. }
  cbn [w_fs set_effects] in H. rewrite K5 in H.
  destruct (rename_out (w_fs w) p) as [[fs' [f|]]|e] eqn:E.
  - inversion H; subst. cbn. repeat split; auto. left. exists f.
    destruct (rename_out_file_frame _ _ _ _ E) as (G1 & G2 & G3). repeat split; auto. rewrite K6. reflexivity.
  - apply rename_out_dir in E. unfold isdir in Hd. rewrite E in Hd. discriminate Hd.
  - assert (Hl : lookup (w_fs w) p = None).
    { destruct (rename_out_err _ _ _ E) as [X|X]; [exact X|]. subst p. cbn in Hd. discriminate Hd. }
    destruct e; inversion H; subst; cbn; repeat split; auto; right; repeat split; auto; right; eauto.
Qed.

(* an original in place at a path that is not claimed moves into the backups *)
Lemma RInv_backup : forall w w' p f, RInv w ->
  w_faults w' = w_faults w -> w_old w' = w_old w -> w_cachefile w' = w_cachefile w -> w_new w' = w_new w ->
  lookup (w_fs w) p = Some (NFile f) -> ~ In p (c_built (w_new w)) ->
  lookup (w_fs w') p = None -> (forall q, q <> p -> lookup (w_fs w') q = lookup (w_fs w) q) ->
  w_backups w' = w_backups w ++ [(p, f)] -> RInv w'.
Proof.
  intros w w' p f (A & B & C & I1 & I2 & I3 & I4 & I5 & I6) E1 E2 E3 E4 Hl Hnb Hn Hfr Eb.
  assert (Ho : origfile p f) by (destruct (I4 _ _ Hl) as [X|X]; [exact X | contradiction]).
  unfold RInv. rewrite E1, E2, E3, E4, Eb.
  split; [exact A|]. split; [exact B|]. split; [exact C|].
  split; [|split; [|split; [|split; [|split; [exact I5|]]]]].
  - intros q g Hq. destruct (path_eqb q p) eqn:E.
    + apply path_eqb_eq in E. subst q. right. rewrite (origfile_inj _ _ _ Hq Ho). apply in_or_app. right. left. reflexivity.
    + apply path_eqb_neq in E. rewrite (Hfr q E). destruct (I1 q g Hq) as [X|X]; [left; exact X | right; apply in_or_app; left; exact X].
  - intros q g Hq. apply in_app_or in Hq. destruct Hq as [Hq|[Hq|[]]]; [exact (I2 q g Hq)|]. inversion Hq; subst. exact Ho.
  - intros q Hq. destruct (I3 q Hq) as [X|X]; [left; exact X|]. right. rewrite map_app. apply in_or_app. left. exact X.
  - intros q g Hq. destruct (path_eqb q p) eqn:E.
    + apply path_eqb_eq in E. subst q. rewrite Hn in Hq. discriminate Hq.
    + apply path_eqb_neq in E. rewrite (Hfr q E) in Hq. exact (I4 q g Hq).
  - intros q g Hq X. destruct (path_eqb q p) eqn:E.
    + apply path_eqb_eq in E. subst q. rewrite Hn in X. discriminate X.
    + apply path_eqb_neq in E. rewrite (Hfr q E) in X. exact (I6 q g Hq X).
Qed.

Lemma isfile_not_dir : forall fs p, isfile fs p = true -> isdir fs p = false.
Proof. intros fs p H. unfold isfile in H. unfold isdir. destruct (lookup fs p) as [[?|]|]; congruence. Qed.

(* back_up_and_remove of something that is not a directory, at a path this build has not claimed *)
Lemma back_up_and_remove_T : forall p w w' r,
  back_up_and_remove p w = (w', r) -> RInv w ->
  isdir (w_fs w) p = false -> ~ In p (c_built (w_new w)) ->
  RInv w' /\ built_le w w'.
Proof.
  intros p w w' r H Hinv Hd Hnb. pose proof Hinv as (A & _).
  destruct (back_up_spec _ _ _ _ H Hd) as (F1 & F2 & F3 & F4 & [(f & _ & G1 & G2 & G3 & G4) | (G1 & G2 & _)]).
  - split; [|apply built_le_same; exact F4]. eapply RInv_backup; eauto; try congruence.
  - split; [|apply built_le_same; exact F4]. eapply RInv_ext; eauto; try congruence.
Qed.

(* the regular file at a claimed path is destroyed or overwritten *)
Lemma RInv_change_built : forall w w' p, RInv w ->
  w_faults w' = w_faults w -> w_old w' = w_old w -> w_cachefile w' = w_cachefile w -> w_new w' = w_new w ->
  w_backups w' = w_backups w -> In p (c_built (w_new w)) ->
  (forall q, q <> p -> lookup (w_fs w') q = lookup (w_fs w) q) ->
  (lookup (w_fs w') p = Some NDir -> lookup (w_fs w) p = Some NDir) -> RInv w'.
Proof.
  intros w w' p (A & B & C & I1 & I2 & I3 & I4 & I5 & I6) E1 E2 E3 E4 E5 Hb Hfr Hdir.
  unfold RInv. rewrite E1, E2, E3, E4, E5.
  split; [exact A|]. split; [exact B|]. split; [exact C|].
  split; [|split; [exact I2|split; [exact I3|split; [|split; [exact I5|]]]]].
  - intros q g Hq. destruct (path_eqb q p) eqn:E.
    + apply path_eqb_eq in E. subst q. right. destruct (I3 p Hb) as [X|X]; [exfalso; exact (X g Hq)|].
      apply in_map_iff in X. destruct X as ([p' g'] & X1 & X2). cbn [fst] in X1. subst p'.
      rewrite (origfile_inj _ _ _ Hq (I2 _ _ X2)). exact X2.
    + apply path_eqb_neq in E. rewrite (Hfr q E). exact (I1 q g Hq).
  - intros q g Hq. destruct (path_eqb q p) eqn:E.
    + apply path_eqb_eq in E. subst q. right. exact Hb.
    + apply path_eqb_neq in E. rewrite (Hfr q E) in Hq. exact (I4 q g Hq).
  - intros q g Hq X. destruct (path_eqb q p) eqn:E.
    + apply path_eqb_eq in E. subst q. exact (I6 p g Hq (Hdir X)).
    + apply path_eqb_neq in E. rewrite (Hfr q E) in X. exact (I6 q g Hq X).
Qed.

Lemma effect_remove_T : forall what p, pres (RPOt (Some p)) (effect what p (fun fs => remove fs p)).
Proof.
  intros what p w w' r H Hinv Ht. pose proof (Ht p eq_refl) as Hb.
  destruct (effect_fields' _ _ _ _ _ _ H) as (F1 & F2 & F3 & F4 & F5 & [F6|F6]).
  - split; [eapply RInv_ext; eauto | apply built_le_same; exact F4].
  - apply remove_frame in F6. destruct F6 as (_ & G2 & G3).
    split; [|apply built_le_same; exact F4]. eapply (RInv_change_built w w' p); eauto.
    intro X. rewrite G2 in X. discriminate X.
Qed.

Lemma try_to_remove_file_T : forall p, pres (RPOt (Some p)) (try_to_remove_file p).
Proof.
  intro p. unfold try_to_remove_file. pres_auto. apply effect_remove_T.
Qed.

(* user code writes its target *)
Lemma write_target_T : forall p w fs' c, RInv w -> In p (c_built (w_new w)) ->
  write_file (w_fs w) p c None (N.succ (w_clock w)) (w_nextid w) = inl fs' ->
  RInv (set_clock (N.succ (w_clock w)) (N.succ (w_nextid w)) (set_fs fs' w)).
Proof.
  intros p w fs' c Hinv Hb E. apply write_file_frame in E. destruct E as ((g & G1 & _) & G2).
  eapply (RInv_change_built w _ p); eauto; cbn [w_fs set_clock set_fs].
  rewrite G1. intro X. discriminate X.
Qed.

(* ================================================================== *)
(* 3. The new cache                                                    *)
(* ================================================================== *)

Lemma RInv_new_same_built : forall w w', RInv w ->
  w_faults w' = w_faults w -> w_old w' = w_old w -> w_cachefile w' = w_cachefile w ->
  w_backups w' = w_backups w -> w_fs w' = w_fs w ->
  (forall q, In q (c_built (w_new w')) <-> In q (c_built (w_new w))) ->
  (forall q, In q (c_built (w_new w)) -> cache_has_file (w_new w) q = true -> cache_has_file (w_new w') q = true) ->
  RInv w'.
Proof.
  intros w w' (A & B & C & I1 & I2 & I3 & I4 & I5 & I6) E1 E2 E3 E5 E6 Hb Hh.
  unfold RInv. rewrite E1, E2, E3, E5, E6.
  split; [exact A|]. split; [exact B|]. split; [exact C|].
  split; [exact I1|split; [exact I2|split; [|split; [|split; [|exact I6]]]]].
  - intros q Hq. apply I3, Hb, Hq.
  - intros q g Hq. destruct (I4 q g Hq) as [X|X]; [left; exact X | right; apply Hb; exact X].
  - intros q Hq. apply Hb in Hq. destruct (I5 q Hq) as (X1 & X2 & X3). repeat split; auto.
Qed.

(* an update of the new cache that keeps c_built and only adds keys *)
Lemma modify_new_T : forall t (g : cache -> cache),
  (forall c, c_built (g c) = c_built c) -> (forall c, cache_le c (g c)) ->
  pres (RPOt t) (modify (fun w => set_new (g (w_new w)) w)).
Proof.
  intros t g Hb Hle. apply pres_modify. intros w Hinv _. split.
  - eapply RInv_new_same_built; eauto; cbn [w_new set_new].
    + intro q. rewrite Hb. tauto.
    + intros q _ Hq. apply (Hle (w_new w)). exact Hq.
  - intros q Hq. cbn [w_new set_new]. rewrite Hb. exact Hq.
Qed.

Lemma new_finish_building_file_T : forall t p o, pres (RPOt t) (new_finish_building_file p o).
Proof.
  intros t p o. unfold new_finish_building_file.
  apply (modify_new_T t (fun c => cache_with c (files_set (c_files c) p (Some o)) (c_subs c) (c_dirs c) (c_built c))).
  - intro c. reflexivity.
  - intro c. apply cache_le_files_set.
Qed.

Lemma new_start_subbuild_T : forall t k, pres (RPOt t) (new_start_subbuild k).
Proof.
  intros t k. unfold new_start_subbuild. apply pres_bind; [auto with pres|]. intros _.
  apply (modify_new_T t (fun c => cache_with c (c_files c) (subs_set (c_subs c) k None) (c_dirs c) (c_built c))).
  - intro c. reflexivity.
  - intro c. apply cache_le_subs_set.
Qed.

Lemma new_finish_subbuild_T : forall t k o, pres (RPOt t) (new_finish_subbuild k o).
Proof.
  intros t k o. unfold new_finish_subbuild.
  apply (modify_new_T t (fun c => cache_with c (c_files c) (subs_set (c_subs c) k (Some o)) (c_dirs c) (c_built c))).
  - intro c. reflexivity.
  - intro c. apply cache_le_subs_set.
Qed.

Lemma new_use_cached_operation_T : forall t o, pres (RPOt t) (new_use_cached_operation o).
Proof.
  intros t o w w' r H. unfold new_use_cached_operation in H.
  unfold bind at 1, get in H. destruct (assert_no_repeats (w_new w) o).
  - unfold put in H. inversion H; subst.
    refine (modify_new_T t (fun c => register_op c o) _ _ w _ (inl tt) eq_refl).
    + intro c. apply register_op_built.
    + intro c. apply register_op_le.
  - inversion H; subst. apply RelT_refl.
Qed.

Lemma set_created_dirs_T : forall t ccd, pres (RPOt t) (set_created_dirs ccd).
Proof.
  intros t ccd w w' r H. unfold set_created_dirs in H. unfold bind at 1, get in H. cbv zeta in H.
  apply bind_inv in H. destruct H as [(w1 & u & E1 & H) | (e & E1 & _)]; [|discriminate E1].
  unfold put in E1. inversion E1; subst w1; clear E1. inversion H; subst; clear H.
  refine (modify_new_T t (fun c => cache_with c (c_files c) (c_subs c)
            (union_paths (c_dirs c) (bd_created (w_bd w) ++
               filter (fun d => negb (mem_path d (bd_created (w_bd w)))) ccd)) (c_built c)) _ _ w _ (inl tt) eq_refl).
  - intro c. reflexivity.
  - intro c. split; intros x Hx; exact Hx.
Qed.

Hint Resolve new_finish_building_file_T new_start_subbuild_T new_finish_subbuild_T
  new_use_cached_operation_T set_created_dirs_T : pres.

(* ---- claiming a target and moving what is there out of the way ---- *)

Lemma del_path_notin : forall p l, ~ In p l -> del_path p l = l.
Proof.
  intros p l. induction l as [|x l IH]; intro H; cbn [del_path]; [reflexivity|].
  destruct (path_eqb x p) eqn:E.
  - apply path_eqb_eq in E. subst x. exfalso. apply H. left. reflexivity.
  - rewrite IH; [reflexivity|]. intro X. apply H. right. exact X.
Qed.

Lemma del_path_app_self : forall p l, ~ In p l -> del_path p (l ++ [p]) = l.
Proof.
  intros p l. induction l as [|x l IH]; intro H; cbn [del_path app].
  - rewrite path_eqb_refl. reflexivity.
  - destruct (path_eqb x p) eqn:E.
    + apply path_eqb_eq in E. subst x. exfalso. apply H. left. reflexivity.
    + rewrite IH; [reflexivity|]. intro X. apply H. right. exact X.
Qed.

(* the claim is added while no regular file sits at the target *)
Lemma RInv_start_nofile : forall w w' p, RInv w -> P p -> p <> cf ->
  w_faults w' = w_faults w -> w_old w' = w_old w -> w_cachefile w' = w_cachefile w ->
  w_backups w' = w_backups w -> w_fs w' = w_fs w ->
  isfile (w_fs w) p = false ->
  c_built (w_new w') = c_built (w_new w) ++ [p] ->
  cache_le (w_new w) (w_new w') -> cache_has_file (w_new w') p = true -> RInv w'.
Proof.
  intros w w' p (A & B & C & I1 & I2 & I3 & I4 & I5 & I6) HP Hcf E1 E2 E3 E5 E6 Hnf Eb Hle Hh.
  unfold RInv. rewrite E1, E2, E3, E5, E6, Eb.
  split; [exact A|]. split; [exact B|]. split; [exact C|].
  split; [exact I1|split; [exact I2|split; [|split; [|split; [|exact I6]]]]].
  - intros q Hq. apply in_app_or in Hq. destruct Hq as [Hq|[Hq|[]]]; [exact (I3 q Hq)|]. subst q.
    destruct (lookup fs0 p) as [[f|]|] eqn:E.
    + right. destruct (I1 p f E) as [X|X].
      * unfold isfile in Hnf. rewrite X in Hnf. discriminate Hnf.
      * apply in_map_iff. exists (p, f). split; [reflexivity | exact X].
    + left. intros f X. unfold origfile in X. congruence.
    + left. intros f X. unfold origfile in X. congruence.
  - intros q g Hq. destruct (I4 q g Hq) as [X|X]; [left; exact X | right; apply in_or_app; left; exact X].
  - intros q Hq. apply in_app_or in Hq. destruct Hq as [Hq|[Hq|[]]].
    + destruct (I5 q Hq) as (X1 & X2 & X3). repeat split; auto. apply Hle. exact X1.
    + subst q. repeat split; auto.
Qed.

Definition clear_target (p : path) : M unit :=
  bind get (fun w => if isfile (w_fs w) p then bind (back_up_and_remove p) (fun b => ret tt) else ret tt).

Definition claim_and_clear (p : path) : M unit :=
  bind (new_start_building_file p)
       (fun _ => catch (clear_target p) (fun e => bind (new_abort_building_file p) (fun _ => raise e))).

Lemma new_start_building_file_inv : forall p w w' r, new_start_building_file p w = (w', r) ->
  (r = inr (XRuntime RDupFile) /\ w' = w) \/
  (r = inl tt /\ cache_has_file (w_new w) p = false /\
   w' = set_new (cache_with (w_new w) (files_set (c_files (w_new w)) p None) (c_subs (w_new w))
                            (c_dirs (w_new w)) (c_built (w_new w) ++ [p])) w).
Proof.
  intros p w w' r H. unfold new_start_building_file, new_assert_no_file, bind, get, modify in H.
  destruct (cache_has_file (w_new w) p) eqn:E; cbn in H; inversion H; subst; auto.
Qed.

Lemma claim_and_clear_inv : forall p w w' r, claim_and_clear p w = (w', r) -> RInv w -> P p -> p <> cf ->
  RInv w' /\ built_le w w' /\ (forall u, r = inl u -> In p (c_built (w_new w'))).
Proof.
  intros p w w' r H Hinv HP Hcf. unfold claim_and_clear in H.
  apply bind_inv in H. destruct H as [(w1 & u & E1 & H) | (e & E1 & ->)].
  2:{ apply new_start_building_file_inv in E1. destruct E1 as [(_ & ->) | (X & _)]; [|discriminate X].
      split; [exact Hinv|]. split; [apply built_le_refl | intros u X; discriminate X]. }
  apply new_start_building_file_inv in E1. destruct E1 as [(X & _) | (_ & Hfree & ->)]; [discriminate X|].
  set (c1 := cache_with (w_new w) (files_set (c_files (w_new w)) p None) (c_subs (w_new w))
                        (c_dirs (w_new w)) (c_built (w_new w) ++ [p])) in *.
  assert (Hnb : ~ In p (c_built (w_new w))).
  { intro X. destruct Hinv as (_ & _ & _ & _ & _ & _ & _ & I5 & _). destruct (I5 p X) as (Y & _). congruence. }
  assert (Hle : cache_le (w_new w) c1) by apply cache_le_files_set.
  assert (Hh : cache_has_file c1 p = true) by apply has_file_files_set.
  assert (Hb1 : c_built c1 = c_built (w_new w) ++ [p]) by reflexivity.
  pose proof Hinv as (A & _).
  apply catch_inv in H. destruct H as [(a & H & ->) | (w2 & e & H & H2)].
  - (* the target is clear now *)
    unfold clear_target in H. unfold bind at 1, get in H. cbn [w_fs set_new] in H.
    destruct (isfile (w_fs w) p) eqn:Ef.
    + apply bind_inv in H. destruct H as [(w2 & b & E2 & H) | (e & _ & X)]; [|discriminate X].
      inversion H; subst w2; clear H.
      assert (D1 : isdir (w_fs (set_new c1 w)) p = false) by (apply isfile_not_dir; exact Ef).
      destruct (back_up_spec _ _ _ _ E2 D1) as (F1 & F2 & F3 & F4 & [(f & _ & G1 & G2 & G3 & G4) | (G1 & G2 & [(_ & G3) | (e & X)])]).
      * cbn [w_fs w_backups w_old w_cachefile w_new set_new] in *.
        (* first the backup with the old claims, then the claim *)
        set (wm := set_new (w_new w) w').
        assert (Hm : RInv wm).
        { eapply (RInv_backup w wm p f); eauto; subst wm; cbn [w_faults w_old w_cachefile w_new w_fs w_backups set_new]; congruence. }
        assert (Hw' : RInv w').
        { eapply (RInv_start_nofile wm w' p); eauto; subst wm; cbn [w_faults w_old w_cachefile w_new w_fs w_backups set_new]; try congruence.
          unfold isfile. rewrite G2. reflexivity. }
        split; [exact Hw'|]. split.
        -- intros q Hq. rewrite F4, Hb1. apply in_or_app. left. exact Hq.
        -- intros _ _. rewrite F4, Hb1. apply in_or_app. right. left. reflexivity.
      * cbn [w_fs set_new] in G3. unfold isfile in Ef. rewrite G3 in Ef. discriminate Ef.
      * discriminate X.
    + inversion H; subst w'; clear H.
      split; [|split].
      * eapply (RInv_start_nofile w (set_new c1 w) p); eauto.
      * intros q Hq. cbn [w_new set_new]. rewrite Hb1. apply in_or_app. left. exact Hq.
      * intros _ _. cbn [w_new set_new]. rewrite Hb1. apply in_or_app. right. left. reflexivity.
  - (* moving the file failed: the claim is released *)
    apply bind_inv in H2. destruct H2 as [(w3 & u3 & E3 & H2) | (e' & E3 & _)]; [|inversion E3].
    inversion H2; subst w3 r; clear H2.
    unfold new_abort_building_file, modify in E3. inversion E3; subst w'; clear E3.
    unfold clear_target in H. unfold bind at 1, get in H. cbn [w_fs set_new] in H.
    destruct (isfile (w_fs w) p) eqn:Ef; [|inversion H].
    apply bind_inv in H. destruct H as [(w3 & b & E2 & H) | (e' & E2 & X)]; [inversion H|].
    inversion X; subst e'; clear X.
    assert (D1 : isdir (w_fs (set_new c1 w)) p = false) by (apply isfile_not_dir; exact Ef).
    destruct (back_up_spec _ _ _ _ E2 D1) as (F1 & F2 & F3 & F4 & [(f & X & _) | (G1 & G2 & _)]); [discriminate X|].
    cbn [w_fs w_backups w_old w_cachefile w_new set_new] in *.
    assert (Hb2 : c_built (w_new (set_new
              (cache_with (w_new w2) (files_del (c_files (w_new w2)) p) (c_subs (w_new w2)) (c_dirs (w_new w2))
                          (del_path p (c_built (w_new w2)))) w2)) = c_built (w_new w)).
    { cbn [w_new set_new c_built cache_with]. rewrite F4, Hb1. apply del_path_app_self. exact Hnb. }
    split; [|split].
    + eapply (RInv_new_same_built w); eauto; cbn [w_faults w_old w_cachefile w_fs w_backups set_new]; try congruence.
      * intro q. rewrite Hb2. tauto.
      * intros q _ Hq. cbn [w_new set_new]. unfold cache_has_file in *. cbn [c_files cache_with]. rewrite F4.
        subst c1. cbn [c_files cache_with].
        destruct (files_get (c_files (w_new w)) p) eqn:Hg; [discriminate Hfree|].
        rewrite files_get_del_set_free by exact Hg. exact Hq.
    + intros q Hq. rewrite Hb2. exact Hq.
    + intros u0 X. discriminate X.
Qed.

Lemma bind_assoc_eq : forall A B C (a : M A) (b : A -> M B) (k : B -> M C) w,
  bind a (fun x => bind (b x) k) w = bind (bind a b) k w.
Proof.
  intros A B C a b k w. unfold bind. destruct (a w) as [w1 [x|e]]; reflexivity.
Qed.

(* ================================================================== *)
(* 4. Directory preparation                                            *)
(* ================================================================== *)

(* the paths for whose sake directories are made: the targets of this build,
   the cache file, the targets recorded in the old cache (their directories
   are re-made when a cached record is replayed) *)
Definition Tgt (t : path) : Prop := P t \/ t = cf \/ In t (cache_targets old).

(* SIDE CONDITION A: neither a regular file of the pre-state nor a target of
   this build is a proper ancestor of such a path *)
Hypothesis HypA : forall a t, Tgt t -> below a t = true -> notorig a /\ ~ P a.

Definition AncT (d : path) : Prop := exists t, Tgt t /\ below d t = true.

Lemma AncT_not_built : forall d w, AncT d -> RInv w -> ~ In d (c_built (w_new w)).
Proof.
  intros d w (t & Ht & Hb) (_ & _ & _ & _ & _ & _ & _ & I5 & _) X.
  destruct (I5 d X) as (_ & HPd & _). destruct (HypA d t Ht Hb) as (_ & Y). exact (Y HPd).
Qed.

Lemma AncT_notorig : forall d, AncT d -> notorig d.
Proof. intros d (t & Ht & Hb). exact (proj1 (HypA d t Ht Hb)). Qed.

(* no regular file can sit at a proper ancestor of a target: nothing to move away *)
Lemma AncT_not_file : forall d w, AncT d -> RInv w -> isfile (w_fs w) d = false.
Proof.
  intros d w Ha Hinv. destruct (isfile (w_fs w) d) eqn:E; [exfalso|reflexivity].
  apply isfile_lookup in E. destruct E as [g Hg].
  pose proof Hinv as (_ & _ & _ & _ & _ & _ & I4 & _).
  destruct (I4 d g Hg) as [X|X]; [exact (AncT_notorig d Ha g X) | exact (AncT_not_built d w Ha Hinv X)].
Qed.

Lemma make_one_dir_T : forall t d, AncT d -> pres (RPOt t) (make_one_dir d).
Proof.
  intros t d Ha w w' r H Hinv Ht. unfold make_one_dir in H. unfold bind at 1, get in H.
  rewrite (AncT_not_file d w Ha Hinv) in H. cbn [andb] in H.
  assert (G : pres (RPOt t) (catch (bind (effect "mkdir" d (fun fs => mkdir fs d)) (fun _ => ret true))
                              (fun e => if is_os_class XFileExists e then ret false else raise e))).
  { pose proof (effect_mkdir_T t "mkdir" d (AncT_notorig d Ha)). pres_auto. }
  apply bind_inv in H. destruct H as [(w1 & u & E1 & H) | (e & E1 & _)]; [|discriminate E1].
  inversion E1; subst w1. exact (G _ _ _ H Hinv Ht).
Qed.

Lemma make_dirs_loop_T : forall t ds made, (forall d, In d ds -> AncT d) -> pres (RPOt t) (make_dirs_loop ds made).
Proof.
  intros t ds. induction ds as [|d ds IH]; intros made Hds; cbn [make_dirs_loop]; [apply pres_ret|].
  pose proof (make_one_dir_T t d (Hds d (or_introl eq_refl))) as G.
  assert (IH' : forall made, pres (RPOt t) (make_dirs_loop ds made)).
  { intro m. apply IH. intros x Hx. apply Hds. right. exact Hx. }
  pres_auto.
Qed.

Lemma dirs_to_make_anc : forall parent cfo w w' ds, dirs_to_make parent cfo w = (w', inl ds) ->
  forall d, In d ds -> d <> [] /\ (d = parent \/ below d parent = true).
Proof.
  induction parent as [|n d0 IH]; intros cfo w w' ds H d Hd; cbn [dirs_to_make] in H; minv H;
    try (destruct Hd; fail).
  apply in_app_or in Hd. destruct Hd as [Hd|[Hd|[]]].
  - match goal with E : dirs_to_make d0 _ _ = _ |- _ => destruct (IH _ _ _ _ E _ Hd) as (X1 & [X2|X2]) end; split; auto; right.
    + subst d. apply below_self_cons.
    + apply below_cons. exact X2.
  - subst d. split; [discriminate | left; reflexivity].
Qed.

Lemma make_dirs_T : forall t0 t, Tgt t -> pres (RPOt t0) (make_dirs (dirname t)).
Proof.
  intros t0 t Ht. unfold make_dirs.
  apply (pres_bind_val t0 _ _ _ _ (fun ds => forall d, In d ds -> AncT d)).
  - auto with pres.
  - intros w w1 ds _ E d Hd. destruct (dirs_to_make_anc _ _ _ _ _ E d Hd) as (X1 & X2).
    exists t. split; [exact Ht|]. destruct t as [|n t']; cbn [dirname tl] in X2.
    + destruct X2 as [X2|X2]; [contradiction | discriminate X2].
    + destruct X2 as [X2|X2]; [subst d; apply below_self_cons | apply below_cons; exact X2].
  - intros ds Hds. pose proof (make_dirs_loop_T t0 ds [] Hds). pres_auto.
Qed.

Lemma make_room_T : forall t p0, P p0 -> forall fuel d, (d = p0 \/ below p0 d = true) ->
  pres (RPOt t) (make_room fuel d).
Proof.
  intros t p0 HP0. induction fuel as [|fuel IH]; intros d Hd; cbn [make_room]; [apply pres_raise|].
  apply pres_bind; [apply pres_get|]. intro w0.
  destruct (listdir (w_fs w0) d) as [names|e]; [|apply pres_raise].
  apply pres_bind; [|intros _; pres_auto].
  apply pres_mapM_. intro n.
  assert (Hb : below p0 (n :: d) = true).
  { destruct Hd as [->|Hd]; [apply below_self_cons | apply below_cons; exact Hd]. }
  intros w w' r H Hinv Ht. unfold bind at 1, get in H.
  destruct (isdir (w_fs w) (n :: d)) eqn:Ed.
  - pose proof (IH (n :: d) (or_intror Hb)) as IH'.
    refine ((_ : pres (RPOt t) _) w w' r H Hinv Ht). pres_auto.
  - apply bind_inv in H. destruct H as [(w1 & vf & E1 & H) | (e & E1 & _)].
    2:{ exact (pres_svb_T t _ _ (m_is_file_svb _ _) _ _ _ E1 Hinv Ht). }
    pose proof (m_is_file_svb _ _ _ _ _ E1) as SV.
    destruct (svb_RelT t _ _ SV Hinv Ht) as [Hinv1 L1].
    assert (Ffs : w_fs w1 = w_fs w) by (destruct SV as (X & _); exact X).
    destruct vf.
    + inversion H; subst. split; assumption.
    + assert (Hnb : ~ In (n :: d) (c_built (w_new w1))).
      { intro X. destruct Hinv1 as (_ & _ & _ & _ & _ & _ & _ & I5 & _). destruct (I5 _ X) as (_ & HPa & _).
        destruct (HypA p0 (n :: d) (or_introl HPa) Hb) as (_ & Y). exact (Y HP0). }
      assert (X : RInv w' /\ built_le w1 w').
      { apply bind_inv in H. destruct H as [(w2 & b & E2 & H) | (e & E2 & _)].
        - inversion H; subst. eapply back_up_and_remove_T; eauto. rewrite Ffs. exact Ed.
        - eapply back_up_and_remove_T; eauto. rewrite Ffs. exact Ed. }
      destruct X as [X1 X2]. split; [exact X1 | eapply built_le_trans; eauto].
Qed.

Lemma Tgt_P : forall p, P p -> Tgt p.
Proof. intros p H. left. exact H. Qed.

Lemma prepare_file_creation_T : forall t p, P p -> pres (RPOt t) (prepare_file_creation p).
Proof.
  intros t p HP. unfold prepare_file_creation.
  pose proof (make_room_T t p HP room_fuel p (or_introl eq_refl)).
  pose proof (make_dirs_T t p (Tgt_P p HP)). pres_auto.
Qed.

Lemma apply_step_T : forall t0 s (k : M unit),
  (forall t, In t (op_targets s) -> Tgt t) -> pres (RPOt t0) (apply_cached_subs_of s) -> pres (RPOt t0) k ->
  pres (RPOt t0)
    (bind (match s with
           | OBuildFile p _ _ _ _ _ _ _ false _ =>
               bind (make_dirs (dirname p)) (fun created =>
               bind (m_bd_started p created) (fun locked =>
               catch (apply_cached_subs_of s) (fun e => bind (m_bd_error p) (fun _ => raise e))))
           | OSimple _ _ _ => ret tt
           | _ => apply_cached_subs_of s
           end) (fun _ => k)).
Proof.
  intros t0 s k Ht Hs Hk. apply pres_bind; [|intros _; exact Hk].
  destruct s as [q r e | p c f a kw subs r cr ra sf | f a kw subs r ra sf]; [apply pres_ret | | exact Hs].
  destruct ra; [exact Hs|].
  pose proof (make_dirs_T t0 p (Ht p (or_introl eq_refl))). pres_auto.
Qed.

Lemma apply_cached_subs_of_T : forall o, (forall t, In t (op_targets o) -> Tgt t) ->
  forall t0, pres (RPOt t0) (apply_cached_subs_of o).
Proof.
  induction o as [q r e | p c f a k subs r cr ra sf IH | f a k subs r ra sf IH] using op_ind';
    intros Ht t0; cbn [apply_cached_subs_of].
  - apply pres_ret.
  - assert (Ht' : forall t, In t (flat_map op_targets subs) -> Tgt t).
    { intros t X. apply Ht. right. exact X. }
    clear Ht. induction IH as [|s rest Hs HF IHl]; cbn beta iota fix; [apply pres_ret|].
    apply apply_step_T.
    + intros t X. apply Ht'. cbn [flat_map]. apply in_or_app. left. exact X.
    + apply Hs. intros t X. apply Ht'. cbn [flat_map]. apply in_or_app. left. exact X.
    + apply IHl. intros t X. apply Ht'. cbn [flat_map]. apply in_or_app. right. exact X.
  - assert (Ht' : forall t, In t (flat_map op_targets subs) -> Tgt t).
    { intros t X. apply Ht. exact X. }
    clear Ht. induction IH as [|s rest Hs HF IHl]; cbn beta iota fix; [apply pres_ret|].
    apply apply_step_T.
    + intros t X. apply Ht'. cbn [flat_map]. apply in_or_app. left. exact X.
    + apply Hs. intros t X. apply Ht'. cbn [flat_map]. apply in_or_app. left. exact X.
    + apply IHl. intros t X. apply Ht'. cbn [flat_map]. apply in_or_app. right. exact X.
Qed.

(* ================================================================== *)
(* 5. build_file, subbuild, queries, user code                         *)
(* ================================================================== *)

(* m_build_file cut into named pieces (definitionally the same computation) *)
Definition bf_claim (p : path) : M (option (op + exn * op)) :=
  bind (new_start_building_file p) (fun _ =>
  bind (catch (bind get (fun w => if isfile (w_fs w) p then bind (back_up_and_remove p) (fun b => ret tt) else ret tt))
              (fun e => bind (new_abort_building_file p) (fun _ => raise e))) (fun _ =>
  ret None)).

Definition bf_reuse (p : path) (c : cmpmode) (fname : string) (sargs skw : pyval) (cached : option op)
  : M (option (op + exn * op)) :=
  let mkop subs ret_ cmpres raised sf := OBuildFile p c fname sargs skw subs ret_ cmpres raised sf in
  match cached with
  | None => ret None
  | Some co =>
      bind (noneable_cmp p c) (fun cmp =>
      match cmp with
      | PNone => ret None
      | _ =>
          bind (apply_cached_subs_of co) (fun _ =>
          let o := mkop (op_subs co) (op_ret co) cmp false false in
          bind (attempt (new_use_cached_operation o)) (fun r =>
          match r with
          | inl _ => ret (Some (inl o))
          | inr e => ret (Some (inr (e, mkop (op_subs co) (op_ret co) cmp true true)))
          end))
      end)
  end.

Definition bf_setup (p : path) (c : cmpmode) (fname : string) (sargs skw : pyval) : M (option (op + exn * op)) :=
  bind (new_assert_no_file p) (fun _ =>
  bind (is_cache_file p) (fun icf =>
  bind (if icf then raise (XRuntime RCacheFileTarget) else ret tt) (fun _ =>
  bind (prepare_file_creation p) (fun created =>
  bind (m_bd_started p created) (fun locked =>
  catch
    (bind (build_file_cache_lookup p fname sargs skw) (fun cached =>
     bind (bf_reuse p c fname sargs skw cached) (fun reused =>
     match reused with
     | Some (inl o) => ret (Some (inl o))
     | Some (inr eo) => bind (m_bd_error p) (fun _ => ret (Some (inr eo)))
     | None => bf_claim p
     end)))
    (fun e => bind (m_bd_error p) (fun _ => raise e))))))).

Definition bf_tail (p : path) (c : cmpmode) (fname : string) (sargs skw : pyval)
  (fn : path -> pyval -> pyval -> body) (sr : world * (option (op + exn * op) + exn))
  : world * (Builder.outcome * option op) :=
  let mkop subs ret_ cmpres raised sf := OBuildFile p c fname sargs skw subs ret_ cmpres raised sf in
  match sr with
  | (w1, inr e) => (w1, (inr e, Some (mkop [] PNone PNone true true)))
  | (w1, inl (Some (inl o))) => (w1, (inl (op_ret o), Some o))
  | (w1, inl (Some (inr (e, o)))) => (w1, (inr e, Some o))
  | (w1, inl None) =>
      let w2 := set_log (LInvoke fname (Some p) sargs skw :: w_log w1) w1 in
      let '(w3, (res, subs)) := fn p sargs skw w2 in
      let fail (e : exn) (w : world) :=
        let o := mkop subs PNone PNone true false in
        match (bind (try_to_remove_file p) (fun _ => bind (m_bd_error p) (fun _ => new_finish_building_file p o))) w with
        | (w', inl _) => (w', (inr e, Some o))
        | (w', inr e') => (w', (inr e', Some (mkop subs PNone PNone true false)))
        end in
      match res with
      | inr e => fail e w3
      | inl v =>
          match sanitize v with
          | None => fail XType w3
          | Some sv =>
              match noneable_cmp p c w3 with
              | (w4, inr e) => fail e w4
              | (w4, inl PNone) => fail (XRuntime RNotCreated) w4
              | (w4, inl cmp) =>
                  let o := mkop subs sv cmp false false in
                  match new_finish_building_file p o w4 with
                  | (w5, _) => (w5, (inl sv, Some o))
                  end
              end
          end
      end
  end.

Lemma m_build_file_unfold : forall p c fname args kwargs fn w0,
  m_build_file p c fname args kwargs fn w0 =
  match sanitize args, sanitize kwargs with
  | Some sargs, Some skw => bf_tail p c fname sargs skw fn (bf_setup p c fname sargs skw w0)
  | _, _ => (w0, (inr XType, None))
  end.
Proof. intros. reflexivity. Qed.

Lemma bf_claim_T : forall t p, P p -> p <> cf -> pres (RPOt t) (bf_claim p).
Proof.
  intros t p HP Hcf. unfold bf_claim.
  eapply pres_ext; [intro; apply bind_assoc_eq|]. apply pres_bind; [|intro; apply pres_ret].
  change (pres (RPOt t) (claim_and_clear p)).
  intros w w' r H Hinv _. destruct (claim_and_clear_inv p w w' r H Hinv HP Hcf) as (X1 & X2 & _). split; assumption.
Qed.

Lemma bf_claim_built : forall p w w' x, bf_claim p w = (w', inl x) -> In p (c_built (w_new w')).
Proof.
  intros p w w' x H. unfold bf_claim in H.
  apply bind_inv in H. destruct H as [(wb & u & E1 & H) | (e & _ & X)]; [|discriminate X].
  apply new_start_building_file_inv in E1. destruct E1 as [(X & _) | (_ & _ & ->)]; [discriminate X|].
  apply bind_inv in H. destruct H as [(wc & u2 & E2 & H) | (e & _ & X)]; [|discriminate X].
  inversion H; subst wc x; clear H.
  apply catch_inv in E2. destruct E2 as [(a & E2 & _) | (w3 & e & _ & E3)].
  - assert (G : pres newPO (bind get (fun w => if isfile (w_fs w) p then bind (back_up_and_remove p) (fun b => ret tt) else ret tt))).
    { pose proof (back_up_and_remove_new p). pres_auto. }
    destruct (G _ _ _ E2) as (N & _). rewrite N. cbn [w_new set_new c_built cache_with].
    apply in_or_app. right. left. reflexivity.
  - apply bind_inv in E3. destruct E3 as [(w4 & u4 & _ & E3) | (e' & _ & X)]; [inversion E3 | discriminate X].
Qed.

Lemma bf_reuse_T : forall t p c fname sargs skw cached,
  match cached with Some co => forall x, In x (op_targets co) -> Tgt x | None => True end ->
  pres (RPOt t) (bf_reuse p c fname sargs skw cached).
Proof.
  intros t p c fname sargs skw cached Hc. unfold bf_reuse. cbv zeta. destruct cached as [co|]; [|apply pres_ret].
  pose proof (apply_cached_subs_of_T co Hc t). pres_auto.
Qed.

Lemma pres_bind_raise : forall (R : PO) A B (e : exn) (k : A -> M B), pres R (bind (raise e) k).
Proof. intros R A B e k w w' r H. unfold bind, raise in H. inversion H; subst. apply po_refl. Qed.

Lemma bf_setup_T : forall t p c fname sargs skw, P p -> pres (RPOt t) (bf_setup p c fname sargs skw).
Proof.
  intros t p c fname sargs skw HP. unfold bf_setup.
  apply pres_bind; [auto with pres|]. intros _.
  apply (pres_bind_val t _ _ _ _ (fun icf => icf = path_eqb p cf)); [auto with pres | |].
  { intros w w1 a (_ & _ & C & _) E. unfold is_cache_file in E. inversion E; subst. rewrite C. reflexivity. }
  intros icf ->. destruct (path_eqb p cf) eqn:Ecf; [apply pres_bind_raise|]. apply path_eqb_neq in Ecf.
  apply pres_bind; [apply pres_ret|]. intros _.
  apply pres_bind; [apply prepare_file_creation_T; exact HP|]. intro created.
  apply pres_bind; [auto with pres|]. intro locked.
  apply pres_catch; [|intro e; pres_auto].
  apply (pres_bind_val t _ _ _ _
           (fun cached => match cached with Some co => forall x, In x (op_targets co) -> Tgt x | None => True end));
    [auto with pres | |].
  { intros w w1 a (_ & B & _) E. destruct a as [co|]; [|exact I].
    apply lookup_never_raised in E. destruct E as (E & _). rewrite B in E.
    intros x Hx. right. right. eapply cache_get_file_targets; eauto. }
  intros cached Hc. apply pres_bind; [apply bf_reuse_T; exact Hc|]. intro reused.
  destruct reused as [[o|eo]|]; [pres_auto | pres_auto | apply bf_claim_T; assumption].
Qed.

Lemma bf_setup_none : forall p c fname sargs skw w w1,
  bf_setup p c fname sargs skw w = (w1, inl None) -> In p (c_built (w_new w1)).
Proof.
  intros p c fname sargs skw w w1 H. unfold bf_setup in H. minvc H.
  all: try match goal with E : bf_claim _ _ = (_, inl _) |- _ => exact (bf_claim_built _ _ _ _ E) end.
Qed.

(* collect the facts of the runs in the context, then chain them *)
Ltac relT_facts t :=
  repeat match goal with
  | E : ?m ?w = (?w1, _) |- _ =>
      lazymatch goal with
      | _ : RelT t w w1 |- _ => fail
      | _ => let X := fresh "RL" in
             assert (X : RelT t w w1) by (refine ((_ : pres (RPOt t) m) w w1 _ E); solve [pres_auto])
      end
  end.
Ltac relT_chain :=
  repeat first [ eassumption
               | apply RelT_refl
               | apply RelT_set_log
               | eapply RelT_trans; [eassumption|]
               | eapply RelT_trans; [apply RelT_set_log|];
                 first [ eassumption | eapply RelT_trans; [eassumption|] ] ].

Lemma bf_tail_none_T : forall p c fname sargs skw fn w1 w' r,
  (forall sa skw', pres (RPOt (Some p)) (fn p sa skw')) ->
  bf_tail p c fname sargs skw fn (w1, inl None) = (w', r) -> RelT (Some p) w1 w'.
Proof.
  intros p c fname sargs skw fn w1 w' r Hfn H. unfold bf_tail in H. cbv zeta in H.
  pose proof (try_to_remove_file_T p) as T1.
  repeat dm H; inversion H; subst; relT_facts (Some p); relT_chain.
Qed.

Lemma m_build_file_T : forall p c f a kw fn, P p ->
  (forall sa skw, pres (RPOt (Some p)) (fn p sa skw)) ->
  forall t, pres (RPOt t) (m_build_file p c f a kw fn).
Proof.
  intros p c f a kw fn HP Hfn t w w' r H. rewrite m_build_file_unfold in H.
  destruct (sanitize a) as [sa|]; [|inversion H; subst; apply RelT_refl].
  destruct (sanitize kw) as [skw|]; [|inversion H; subst; apply RelT_refl].
  destruct (bf_setup p c f sa skw w) as [w1 sr] eqn:Hs.
  pose proof (bf_setup_T t p c f sa skw HP _ _ _ Hs) as R1. change (RelT t w w1) in R1. change (RelT t w w').
  destruct sr as [[[o|[e o]]|]|e]; try (cbn in H; inversion H; subst; exact R1).
  pose proof (bf_setup_none _ _ _ _ _ _ _ Hs) as Hb.
  pose proof (bf_tail_none_T _ _ _ _ _ _ _ _ _ Hfn H) as R2.
  intros Hinv Ht. destruct (R1 Hinv Ht) as [Hinv1 L1].
  assert (T1 : tcond (Some p) w1) by (intros q X; inversion X; subst; exact Hb).
  destruct (R2 Hinv1 T1) as [Hinv2 L2]. split; [exact Hinv2 | eapply built_le_trans; eauto].
Qed.

Lemma m_subbuild_T : forall f a kw fn t,
  (forall sa skw, pres (RPOt t) (fn sa skw)) -> pres (RPOt t) (m_subbuild f a kw fn).
Proof.
  intros f a kw fn t Hfn w w' r H. unfold m_subbuild in H.
  destruct (sanitize a) as [sa|]; [|inversion H; subst; apply RelT_refl].
  destruct (sanitize kw) as [skw|]; [|inversion H; subst; apply RelT_refl].
  cbv zeta in H.
  assert (Hset : pres (RPOt t)
    (bind (new_assert_no_subbuild (subbuild_key f sa skw)) (fun _ =>
     bind (subbuild_cache_lookup (subbuild_key f sa skw) f) (fun cached =>
     match cached with
     | Some co =>
         bind (apply_cached_subs_of co) (fun _ =>
         bind (attempt (new_use_cached_operation (OSubbuild f sa skw (op_subs co) (op_ret co) false false))) (fun r =>
         match r with
         | inl _ => ret (Some (inl (OSubbuild f sa skw (op_subs co) (op_ret co) false false)))
         | inr e => ret (Some (inr (e, OSubbuild f sa skw (op_subs co) (op_ret co) true true)))
         end))
     | None => bind (new_start_subbuild (subbuild_key f sa skw)) (fun _ => ret None)
     end)))).
  { apply pres_bind; [auto with pres|]. intros _.
    apply (pres_bind_val t _ _ _ _
           (fun cached => match cached with Some co => forall x, In x (op_targets co) -> Tgt x | None => True end));
      [auto with pres | |].
    { intros w0 w1 x (_ & B & _) E. destruct x as [co|]; [|exact I].
      apply sublookup_never_raised in E. destruct E as (E & _). rewrite B in E.
      intros y Hy. right. right. eapply subs_get_targets; eauto. }
    intros cached Hc. destruct cached as [co|]; [|pres_auto].
    pose proof (apply_cached_subs_of_T co Hc t). pres_auto. }
  match type of H with (match ?X with _ => _ end) = _ => destruct X as [w1 res] eqn:Hs end.
  change (RelT t w w').
  repeat dm H; inversion H; subst; relT_facts t; relT_chain.
Qed.

Lemma m_query_T : forall t q, pres (RPOt t) (m_query q).
Proof. intros t q. apply pres_svb_T, m_query_svb. Qed.

Lemma RelT_log_answer : forall t q r w, RelT t w (log_answer q r w).
Proof.
  intros t q r w. unfold log_answer.
  repeat match goal with |- context [match ?x with _ => _ end] => destruct x end;
    first [apply RelT_refl | apply RelT_set_log].
Qed.

(* user code: it can only write the target it was given, which is claimed *)
Theorem run_T : forall pr, AllTargets P pr ->
  forall target subs, pres (RPOt target) (run pr target subs).
Proof.
  intros pr Hat.
  induction Hat as [v | e | s q k Hk IHk | c k Hk IHk | s p c f a kw fn k Hp Hfn IHfn Hk IHk
                    | s f a kw fn k Hfn IHfn Hk IHk];
    intros target subs w w' r H; cbn [run] in H; change (RelT target w w').
  - inversion H; subst. apply RelT_refl.
  - inversion H; subst. apply RelT_refl.
  - destruct s; [eapply IHk; eauto|].
    destruct (m_query q w) as [w1 [r1 o]] eqn:E.
    apply (m_query_T target) in E. apply IHk in H.
    eapply RelT_trans; [exact E|]. eapply RelT_trans; [apply RelT_log_answer | exact H].
  - destruct target as [p|]; [|eapply IHk; eauto].
    destruct (write_file (w_fs w) p c None (N.succ (w_clock w)) (w_nextid w)) as [fs'|e] eqn:E.
    + apply IHk in H. eapply RelT_trans; [|exact H].
      intros Hinv Ht. split; [|apply built_le_same; reflexivity].
      eapply write_target_T; [exact Hinv | apply Ht; reflexivity | exact E].
    + inversion H; subst. apply RelT_refl.
  - destruct s; [eapply IHk; eauto|].
    match type of H with (let '(_, _) := ?X in _) = _ => destruct X as [w1 [r1 o]] eqn:E end.
    apply (m_build_file_T p c f a kw _ Hp) with (t := target) in E.
    + apply IHk in H. eapply RelT_trans; [exact E | exact H].
    + intros sa skw. apply IHfn.
  - destruct s; [eapply IHk; eauto|].
    match type of H with (let '(_, _) := ?X in _) = _ => destruct X as [w1 [r1 o]] eqn:E end.
    apply (m_subbuild_T f a kw _ target) in E.
    + apply IHk in H. eapply RelT_trans; [exact E | exact H].
    + intros sa skw. (* a subbuild body has no target of its own *)
      apply pres_None. apply IHfn.
Qed.

(* ================================================================== *)
(* 6. Roll back                                                        *)
(* ================================================================== *)

(* (The former SIDE CONDITION B -- no directory recorded by the old cache is a regular
   file of the pre-state -- is gone: roll_back now re-creates those directories after
   restore_all, see [roll_back_restores].) *)
(* SIDE CONDITION C: the pre-state is well formed *)
Hypothesis Hwf : fs_wf fs0.
(* SIDE CONDITION D: the names on the way to a regular file of the pre-state can be created again *)
Hypothesis Hnames : forall p f, origfile p f -> path_ok p = true.

(* ---- computations that cannot raise ---- *)
Definition no_raise {A} (m : M A) : Prop := forall w w' e, m w = (w', inr e) -> False.

Lemma effect_raises_os : forall what p f w w' e, effect what p f w = (w', inr e) -> is_os e = true.
Proof.
  intros what p f w w' e H. unfold effect in H. cbv zeta in H.
  destruct (existsb (Nat.eqb (w_effects w)) (w_faults w)); [inversion H; reflexivity|].
  destruct (f (w_fs (set_effects (S (w_effects w)) w))); inversion H; reflexivity.
Qed.

Lemma caught_effect_no_raise : forall what p f,
  no_raise (catch (effect what p f) (fun e => if is_os e then ret tt else raise e)).
Proof.
  intros what p f w w' e H. apply catch_inv in H. destruct H as [(a & _ & X) | (w1 & e1 & E1 & H)]; [discriminate X|].
  apply effect_raises_os in E1. rewrite E1 in H. inversion H.
Qed.

Lemma mapM_no_raise : forall A (f : A -> M unit) l, (forall x, no_raise (f x)) -> no_raise (mapM_ f l).
Proof.
  intros A f l Hf. induction l as [|x l IH]; intros w w' e H; cbn [mapM_] in H; [inversion H|].
  apply bind_inv in H. destruct H as [(w1 & u & _ & H) | (e1 & E1 & _)]; [exact (IH _ _ _ H) | exact (Hf x _ _ _ E1)].
Qed.

Lemma remove_empty_dirs_no_raise : forall ds, no_raise (remove_empty_dirs ds).
Proof. intro ds. unfold remove_empty_dirs. apply mapM_no_raise. intro d. apply caught_effect_no_raise. Qed.

Lemma create_dirs_no_raise : forall ds, no_raise (create_dirs ds).
Proof. intro ds. unfold create_dirs. apply mapM_no_raise. intro d. apply caught_effect_no_raise. Qed.

(* ---- steps that keep every regular file ---- *)
Definition files_same (w w' : world) : Prop :=
  forall q g, lookup (w_fs w') q = Some (NFile g) <-> lookup (w_fs w) q = Some (NFile g).

Lemma files_same_refl : forall w, files_same w w.
Proof. intros w q g. tauto. Qed.
Lemma files_same_trans : forall a b c, files_same a b -> files_same b c -> files_same a c.
Proof. intros a b c H1 H2 q g. rewrite (H2 q g). apply H1. Qed.
Definition filesPO : PO := {| rel := files_same; po_refl := files_same_refl; po_trans := files_same_trans |}.

Lemma effect_files_same : forall what p f, dirs_only f -> pres filesPO (effect what p f).
Proof.
  intros what p f Hf w w' r H. destruct (effect_fields' _ _ _ _ _ _ H) as (_ & _ & _ & _ & _ & [F|F]).
  - intros q g. rewrite F. tauto.
  - exact (proj1 (Hf _ _ F)).
Qed.

Lemma remove_empty_dirs_files : forall ds, pres filesPO (remove_empty_dirs ds).
Proof.
  intro ds. unfold remove_empty_dirs. apply pres_mapM_. intro d. apply pres_catch.
  - apply effect_files_same. apply rmdir_dirs_only.
  - intro e. destruct (is_os e); [apply pres_ret | apply pres_raise].
Qed.

(* mkdir succeeds at an absent path only, so it changes no regular file, wherever it is made *)
Lemma mkdir_files_kept : forall d fs fs', mkdir fs d = inl fs' ->
  forall q g, lookup fs' q = Some (NFile g) <-> lookup fs q = Some (NFile g).
Proof.
  intros d fs fs' H q g. apply mkdir_frame in H. destruct H as (H1 & H2 & H3).
  destruct (path_eqb q d) eqn:E.
  - apply path_eqb_eq in E. subst q. rewrite H1, H2. split; intro X; discriminate X.
  - apply path_eqb_neq in E. rewrite (H3 q E). tauto.
Qed.

Lemma effect_files_kept : forall what p f,
  (forall fs fs', f fs = inl fs' -> forall q g, lookup fs' q = Some (NFile g) <-> lookup fs q = Some (NFile g)) ->
  pres filesPO (effect what p f).
Proof.
  intros what p f Hf w w' r H. destruct (effect_fields' _ _ _ _ _ _ H) as (_ & _ & _ & _ & _ & [F|F]).
  - intros q g. rewrite F. tauto.
  - exact (Hf _ _ F).
Qed.

(* no side condition on [ds]: a directory is made at an absent path only *)
Lemma create_dirs_files : forall ds, pres filesPO (create_dirs ds).
Proof.
  intros ds. unfold create_dirs. apply pres_mapM_. intros d. apply pres_catch.
  - apply effect_files_kept. intros fs fs'. apply mkdir_files_kept.
  - intro e. destruct (is_os e); [apply pres_ret | apply pres_raise].
Qed.

Lemma create_dirs_T : forall t ds, (forall d, In d ds -> notorig d) -> pres (RPOt t) (create_dirs ds).
Proof.
  intros t ds Hds. unfold create_dirs. apply pres_mapM_In. intros d Hd. apply pres_catch.
  - apply effect_mkdir_T. apply Hds. unfold sort_shortest_first in Hd. apply In_sort_by' in Hd. exact Hd.
  - intro e. destruct (is_os e); [apply pres_ret | apply pres_raise].
Qed.

(* ---- phase 1: the files this build built are removed ---- *)
Lemma try_to_remove_file_spec : forall p w w' r, try_to_remove_file p w = (w', r) -> fpassed w ->
  r = inl tt /\ w_new w' = w_new w /\ (forall g, lookup (w_fs w') p <> Some (NFile g)) /\
  (forall q, q <> p -> lookup (w_fs w') q = lookup (w_fs w) q) /\ fpassed w'.
Proof.
  intros p w w' r H Hf. unfold try_to_remove_file in H. unfold bind at 1, get in H.
  destruct (isfile (w_fs w) p) eqn:Ef.
  - unfold catch in H. rewrite (effect_nofault' _ _ _ _ Hf) in H.
    apply isfile_lookup in Ef. destruct Ef as [g Hg].
    destruct p as [|n d]; [cbn in Hg; discriminate Hg|].
    unfold remove in H. rewrite Hg in H. inversion H; subst. cbn [w_fs w_new set_log set_fs set_effects].
    split; [reflexivity|]. split; [reflexivity|]. split; [|split].
    + intros g'. rewrite lookup_upd_eq by discriminate. discriminate.
    + intros q Hq. apply lookup_upd_neq. exact Hq.
    + apply (fpassed_step w); [exact Hf | reflexivity | cbn; lia].
  - inversion H; subst. split; [reflexivity|]. split; [reflexivity|]. split; [|split; [reflexivity | exact Hf]].
    intros g X. unfold isfile in Ef. rewrite X in Ef. discriminate Ef.
Qed.

(* every regular file is an original in place or sits at a path of L *)
Definition files_in (L : list path) (w : world) : Prop :=
  forall q g, lookup (w_fs w) q = Some (NFile g) -> origfile q g \/ In q L.

Lemma remove_built_phase : forall L w w' r, mapM_ try_to_remove_file L w = (w', r) ->
  RInv w -> fpassed w -> (forall q, In q L -> In q (c_built (w_new w))) -> files_in L w ->
  r = inl tt /\ RInv w' /\ files_in [] w' /\ fpassed w'.
Proof.
  induction L as [|x L IH]; intros w w' r H Hinv A HL HJ; cbn [mapM_] in H.
  - inversion H; subst. auto.
  - 
    assert (Hx : In x (c_built (w_new w))) by (apply HL; left; reflexivity).
    assert (Tx : tcond (Some x) w) by (intros q X; inversion X; subst; exact Hx).
    apply bind_inv in H. destruct H as [(w1 & u & E1 & H) | (e & E1 & _)].
    + destruct (try_to_remove_file_T x _ _ _ E1 Hinv Tx) as [Hinv1 _].
      destruct (try_to_remove_file_spec _ _ _ _ E1 A) as (_ & N & G1 & G2 & A1).
      apply (IH _ _ _ H Hinv1 A1).
      * intros q Hq. rewrite N. apply HL. right. exact Hq.
      * intros q g Hq. destruct (path_eqb q x) eqn:E.
        -- apply path_eqb_eq in E. subst q. exfalso. exact (G1 g Hq).
        -- apply path_eqb_neq in E. rewrite (G2 q E) in Hq. destruct (HJ q g Hq) as [X|[X|X]]; auto. congruence.
    + destruct (try_to_remove_file_spec _ _ _ _ E1 A) as (X & _). discriminate X.
Qed.

(* ---- phase 4: the backups are moved back ---- *)
Lemma effect_p_nofault : forall what p f w, fpassed w ->
  effect_p what p f w =
  match f (w_fs w) with
  | (fs', None) => (set_log (LEffect what p :: w_log w) (set_fs fs' (set_effects (S (w_effects w)) w)), inl tt)
  | (fs', Some e) => (set_log (LEffect what p :: w_log w) (set_fs fs' (set_effects (S (w_effects w)) w)), inr (XOS (err_of e)))
  end.
Proof. intros what p f w H. unfold effect_p. rewrite (fpassed_nohit w H). reflexivity. Qed.

Lemma makedirs_p_ok : forall d fs, path_ok d = true ->
  (forall a, a = d \/ below a d = true -> forall g, lookup fs a <> Some (NFile g)) ->
  exists fs', makedirs_p fs d = (fs', None) /\ lookup fs' d = Some NDir /\
    (forall q, lookup fs' q = lookup fs q \/
               (lookup fs q = None /\ lookup fs' q = Some NDir /\ (q = d \/ below q d = true))).
Proof.
  induction d as [|n d IH]; intros fs Hok Hanc.
  - exists fs. cbn. auto.
  - cbn [makedirs_p]. destruct (lookup fs (n :: d)) as [[g|]|] eqn:E.
    + exfalso. exact (Hanc (n :: d) (or_introl eq_refl) g E).
    + exists fs. auto.
    + cbn [path_ok forallb] in Hok. apply andb_true_iff in Hok. destruct Hok as [Hn Hok].
      destruct (IH fs Hok) as (fs1 & M1 & M2 & M3).
      { intros a Ha g. apply Hanc. right. destruct Ha as [->|Ha]; [apply below_self_cons | apply below_cons; exact Ha]. }
      rewrite M1.
      assert (L1 : lookup fs1 (n :: d) = None).
      { destruct (M3 (n :: d)) as [X|(_ & _ & [X|X])]; [congruence | |].
        - exfalso. apply (f_equal (@List.length _)) in X. cbn in X. lia.
        - apply below_length in X. cbn in X. lia. }
      unfold mkdir. rewrite L1, M2, Hn. eexists. split; [reflexivity|]. split.
      * apply lookup_upd_eq. discriminate.
      * intro q. destruct (path_eqb q (n :: d)) eqn:Eq.
        -- apply path_eqb_eq in Eq. subst q. right. split; [exact E|]. split; [apply lookup_upd_eq; discriminate | left; reflexivity].
        -- apply path_eqb_neq in Eq. rewrite (lookup_upd_neq _ _ _ _ Eq).
           destruct (M3 q) as [X|(X1 & X2 & X3)]; [left; exact X|]. right. split; [exact X1|]. split; [exact X2|].
           right. destruct X3 as [->|X3]; [apply below_self_cons | apply below_cons; exact X3].
Qed.

Lemma replace_in_ok : forall fs n d f, lookup fs (n :: d) <> Some NDir -> lookup fs d = Some NDir ->
  name_ok n = true -> replace_in fs (n :: d) f = inl (upd (n :: d) (Some (NFile f)) fs).
Proof.
  intros fs n d f H1 H2 H3. unfold replace_in. rewrite H2, H3.
  destruct (lookup fs (n :: d)) as [[g|]|]; try reflexivity. exfalso. apply H1. reflexivity.
Qed.

Definition Rst (B : list (path * fnode)) (v : world) : Prop :=
  fpassed v /\
  (forall p g, lookup (w_fs v) p = Some (NFile g) -> origfile p g) /\
  (forall q f, origfile q f -> lookup (w_fs v) q <> Some NDir) /\
  (forall p f, origfile p f -> lookup (w_fs v) p = Some (NFile f) \/ In (p, f) B).

Lemma restore_one_ok : forall p f B v v' r, restore_one (p, f) v = (v', r) -> origfile p f ->
  Rst ((p, f) :: B) v -> r = inl tt /\ Rst B v'.
Proof.
  intros p f B v v' r H Ho (A & R2 & R3 & R4). unfold restore_one in H. unfold bind at 1, get in H.
  assert (Hnd : isdir (w_fs v) p = false).
  { unfold isdir. destruct (lookup (w_fs v) p) as [[g|]|] eqn:E; try reflexivity. exfalso. exact (R3 p f Ho E). }
  rewrite Hnd in H.
  destruct p as [|n d]; [unfold origfile in Ho; cbn in Ho; discriminate Ho|].
  cbn [dirname tl] in H.
  pose proof (Hnames _ _ Ho) as Hok. cbn [path_ok forallb] in Hok. apply andb_true_iff in Hok. destruct Hok as [Hn Hok].
  assert (Hancdir : forall a, a = d \/ below a d = true -> lookup fs0 a = Some NDir).
  { intros a Ha. apply (wf_ancestor_dir fs0 Hwf (n :: d) (NFile f) a Ho).
    destruct Ha as [->|Ha]; [apply below_self_cons | apply below_cons; exact Ha]. }
  destruct (makedirs_p_ok d (w_fs v) Hok) as (fs1 & M1 & M2 & M3).
  { intros a Ha g X. apply R2 in X. unfold origfile in X. rewrite (Hancdir a Ha) in X. discriminate X. }
  assert (N1 : lookup fs1 (n :: d) <> Some NDir).
  { destruct (M3 (n :: d)) as [X|(_ & _ & [X|X])].
    - rewrite X. exact (R3 _ _ Ho).
    - exfalso. apply (f_equal (@List.length _)) in X. cbn in X. lia.
    - apply below_length in X. cbn in X. lia. }
  unfold catch, bind in H. rewrite (effect_p_nofault _ _ _ _ A), M1 in H.
  assert (A1 : fpassed (set_log (LEffect "makedirs" d :: w_log v) (set_fs fs1 (set_effects (S (w_effects v)) v))))
    by (apply (fpassed_step v); [exact A | reflexivity | cbn; lia]).
  rewrite (effect_nofault' _ _ _ _ A1) in H.
  cbn [w_fs set_log set_fs set_effects] in H. rewrite (replace_in_ok _ _ _ _ N1 M2 Hn) in H.
  inversion H; subst v' r; clear H. split; [reflexivity|].
  unfold Rst. cbn [w_fs set_log set_fs set_effects].
  split; [apply (fpassed_step v); [exact A | reflexivity | cbn; lia]|]. split; [|split].
  - intros q g Hq. destruct (path_eqb q (n :: d)) eqn:Eq.
    + apply path_eqb_eq in Eq. subst q. rewrite lookup_upd_eq in Hq by discriminate. inversion Hq; subst. exact Ho.
    + apply path_eqb_neq in Eq. rewrite (lookup_upd_neq _ _ _ _ Eq) in Hq.
      destruct (M3 q) as [X|(_ & X & _)]; [rewrite X in Hq; exact (R2 q g Hq) | congruence].
  - intros q g Hq X. destruct (path_eqb q (n :: d)) eqn:Eq.
    + apply path_eqb_eq in Eq. subst q. rewrite lookup_upd_eq in X by discriminate. discriminate X.
    + apply path_eqb_neq in Eq. rewrite (lookup_upd_neq _ _ _ _ Eq) in X.
      destruct (M3 q) as [Y|(_ & _ & Y)]; [rewrite Y in X; exact (R3 q g Hq X)|].
      unfold origfile in Hq. rewrite (Hancdir q Y) in Hq. discriminate Hq.
  - intros q g Hq. destruct (path_eqb q (n :: d)) eqn:Eq.
    + apply path_eqb_eq in Eq. subst q. left. rewrite lookup_upd_eq by discriminate.
      rewrite (origfile_inj _ _ _ Hq Ho). reflexivity.
    + apply path_eqb_neq in Eq. rewrite (lookup_upd_neq _ _ _ _ Eq).
      destruct (R4 q g Hq) as [X|[X|X]].
      * left. destruct (M3 q) as [Y|(Y & _)]; congruence.
      * inversion X; subst. contradiction.
      * right. exact X.
Qed.

Lemma restore_loop : forall B v v' r, mapM_ restore_one B v = (v', r) ->
  (forall p f, In (p, f) B -> origfile p f) -> Rst B v -> Rst [] v'.
Proof.
  induction B as [|[p f] B IH]; intros v v' r H HB HR; cbn [mapM_] in H.
  - inversion H; subst. exact HR.
  - assert (Ho : origfile p f) by (apply HB; left; reflexivity).
    apply bind_inv in H. destruct H as [(v1 & u & E1 & H) | (e & E1 & _)].
    + destruct (restore_one_ok _ _ _ _ _ _ E1 Ho HR) as (_ & HR1).
      apply (IH _ _ _ H); [|exact HR1]. intros q g Hq. apply HB. right. exact Hq.
    + destruct (restore_one_ok _ _ _ _ _ _ E1 Ho HR) as (X & _). discriminate X.
Qed.

(* the fault list is constant and the effect counter only grows *)
Definition mono (w w' : world) : Prop := w_faults w' = w_faults w /\ w_effects w <= w_effects w'.
Lemma mono_refl : forall w, mono w w.
Proof. intro w. split; [reflexivity | lia]. Qed.
Lemma mono_trans : forall a b c, mono a b -> mono b c -> mono a c.
Proof. intros a b c [A1 A2] [B1 B2]. split; [congruence | lia]. Qed.
Definition monoPO : PO := {| rel := mono; po_refl := mono_refl; po_trans := mono_trans |}.

Lemma effect_mono : forall what p f, pres monoPO (effect what p f).
Proof.
  intros what p f w w' r H. unfold effect in H. cbv zeta in H.
  destruct (existsb (Nat.eqb (w_effects w)) (w_faults w)); [inversion H; subst; split; cbn; [reflexivity | lia]|].
  destruct (f (w_fs (set_effects (S (w_effects w)) w))); inversion H; subst; split; cbn; try reflexivity; lia.
Qed.

Lemma remove_empty_dirs_mono : forall ds, pres monoPO (remove_empty_dirs ds).
Proof.
  intro ds. unfold remove_empty_dirs. apply pres_mapM_. intro d. apply pres_catch; [apply effect_mono|].
  intro e. destruct (is_os e); [apply pres_ret | apply pres_raise].
Qed.

Lemma mono_fpassed : forall w w', mono w w' -> fpassed w -> fpassed w'.
Proof. intros w w' [E1 E2] H. eapply fpassed_step; eauto. Qed.

(* phase 3: with nothing but originals in place, restore_all puts every original back
   (whether or not it reports an exception), and nothing else is a regular file *)
Lemma restore_all_restores : forall w w' r, restore_all w = (w', r) -> RInv w -> fpassed w -> files_in [] w ->
  forall p f, lookup (w_fs w') p = Some (NFile f) <-> origfile p f.
Proof.
  intros w w' r H Hinv A J. unfold restore_all in H. unfold bind at 1, get in H.
  apply bind_inv in H. destruct H as [(w4 & u4 & E4 & H) | (e & E4 & _)]; [|discriminate E4].
  unfold put in E4. inversion E4; subst w4; clear E4.
  destruct Hinv as (_ & _ & _ & I1 & I2 & _ & _ & _ & I6).
  assert (HR : Rst (w_backups w) (set_backups [] w)).
  { unfold Rst. cbn [w_fs set_backups]. split; [exact A|]. split; [|split; [exact I6 | exact I1]].
    intros q g Hq. destruct (J q g Hq) as [X|[]]. exact X. }
  destruct (restore_loop _ _ _ _ H I2 HR) as (_ & R2 & _ & R4).
  intros p f. split; [apply R2|]. intro Ho. destruct (R4 p f Ho) as [X|[]]. exact X.
Qed.

(* from the invariant to "the regular files are exactly the original files".  The
   directories of the previous build are re-created AFTER the files are back: a directory
   is made at an absent path only, so that last step cannot disturb a regular file. *)
Theorem roll_back_restores : forall ccd w w' r, roll_back ccd w = (w', r) -> RInv w -> fpassed w ->
  forall p f, lookup (w_fs w') p = Some (NFile f) <-> origfile p f.
Proof.
  intros ccd w w' r H Hinv A. unfold roll_back in H. unfold bind at 1, get in H. cbv zeta in H.
  assert (HI4 : files_in (c_built (w_new w)) w).
  { destruct Hinv as (_ & _ & _ & _ & _ & _ & I4 & _). exact I4. }
  apply bind_inv in H. destruct H as [(w1 & u1 & E1 & H) | (e & E1 & _)].
  2:{ destruct (remove_built_phase _ _ _ _ E1 Hinv A) as (X & _); [auto | exact HI4 | discriminate X]. }
  destruct (remove_built_phase _ _ _ _ E1 Hinv A) as (_ & Hinv1 & J1 & A1); [auto | exact HI4 |].
  apply bind_inv in H. destruct H as [(w2 & u2 & E2 & H) | (e & E2 & _)];
    [|exfalso; exact (remove_empty_dirs_no_raise _ _ _ _ E2)].
  assert (T0 : forall v, tcond None v) by (intros v q X; discriminate X).
  destruct (remove_empty_dirs_T None _ _ _ _ E2 Hinv1 (T0 _)) as [Hinv2 _].
  pose proof (remove_empty_dirs_files _ _ _ _ E2) as S2.
  pose proof (mono_fpassed _ _ (remove_empty_dirs_mono _ _ _ _ E2) A1) as A2.
  assert (J2 : files_in [] w2).
  { intros q g Hq. apply J1. apply S2. exact Hq. }
  apply bind_inv in H. destruct H as [(w3 & u3 & E3 & H) | (e & E3 & _)].
  - pose proof (create_dirs_files _ _ _ _ H) as S3.
    intros p f. rewrite (S3 p f). exact (restore_all_restores _ _ _ E3 Hinv2 A2 J2 p f).
  - exact (restore_all_restores _ _ _ E3 Hinv2 A2 J2).
Qed.

(* ================================================================== *)
(* 7. The cache file, and the whole build                              *)
(* ================================================================== *)

(* moving the old cache file out of the way before the new one is written *)
Definition bd_pre (ccd : list path) : M (list path) :=
  bind (set_created_dirs ccd) (fun err =>
  bind get (fun w =>
  bind (if isfile (w_fs w) cf then bind (back_up_and_remove cf) (fun b => ret tt) else ret tt) (fun _ =>
  ret err))).

Lemma bd_pre_inv : forall ccd w w' r, bd_pre ccd w = (w', r) -> RInv w ->
  RInv w' /\ (forall err, r = inl err -> isfile (w_fs w') cf = false).
Proof.
  intros ccd w w' r H Hinv. unfold bd_pre in H.
  assert (T0 : forall v, tcond None v) by (intros v q X; discriminate X).
  apply bind_inv in H. destruct H as [(w1 & err & E1 & H) | (e & E1 & ->)].
  2:{ destruct (set_created_dirs_T None _ _ _ _ E1 Hinv (T0 _)) as [X _]. split; [exact X | intros err0 Y; discriminate Y]. }
  destruct (set_created_dirs_T None _ _ _ _ E1 Hinv (T0 _)) as [Hinv1 _]. clear E1 Hinv.
  unfold bind at 1, get in H.
  destruct (isfile (w_fs w1) cf) eqn:Ef.
  - assert (Hnb : ~ In cf (c_built (w_new w1))).
    { intro X. destruct Hinv1 as (_ & _ & _ & _ & _ & _ & _ & I5 & _). destruct (I5 cf X) as (_ & _ & Y). apply Y. reflexivity. }
    pose proof (isfile_not_dir _ _ Ef) as Hd. pose proof Hinv1 as (A & _).
    apply bind_inv in H. destruct H as [(w2 & u & E2 & H) | (e & E2 & ->)].
    + inversion H; subst w2 r; clear H.
      apply bind_inv in E2. destruct E2 as [(w3 & b & E3 & H) | (e & E3 & X)]; [|discriminate X].
      inversion H; subst w3; clear H.
      destruct (back_up_and_remove_T _ _ _ _ E3 Hinv1 Hd Hnb) as [Hinv2 _]. split; [exact Hinv2|]. intros _ _.
      destruct (back_up_spec _ _ _ _ E3 Hd) as (_ & _ & _ & _ & [(f & _ & _ & G & _) | (G1 & _ & [(_ & G) | (e & X)])]).
      * unfold isfile. rewrite G. reflexivity.
      * unfold isfile. rewrite G1, G. reflexivity.
      * discriminate X.
    + apply bind_inv in E2. destruct E2 as [(w3 & b & E3 & H) | (e' & E3 & _)]; [inversion H|].
      destruct (back_up_and_remove_T _ _ _ _ E3 Hinv1 Hd Hnb) as [Hinv2 _]. split; [exact Hinv2 | intros err0 Y; discriminate Y].
  - apply bind_inv in H. destruct H as [(w2 & u & E2 & H) | (e & E2 & _)]; [|inversion E2].
    inversion E2; subst w2. inversion H; subst w' r. split; [exact Hinv1 | intros _ _; exact Ef].
Qed.

(* steps that touch nothing but the node at the cache file's path, and make no directory there *)
Definition only_cf (w w' : world) : Prop :=
  w_faults w' = w_faults w /\ w_old w' = w_old w /\ w_cachefile w' = w_cachefile w /\
  w_new w' = w_new w /\ w_backups w' = w_backups w /\
  (forall q, q <> cf -> lookup (w_fs w') q = lookup (w_fs w) q) /\
  (lookup (w_fs w') cf = Some NDir -> lookup (w_fs w) cf = Some NDir).

Lemma only_cf_refl : forall w, only_cf w w.
Proof. intro w. unfold only_cf. repeat split; auto. Qed.
Lemma only_cf_trans : forall a b c, only_cf a b -> only_cf b c -> only_cf a c.
Proof.
  unfold only_cf. intros a b c (A1 & A2 & A3 & A4 & A5 & A6 & A7) (B1 & B2 & B3 & B4 & B5 & B6 & B7).
  repeat split; try congruence.
  - intros q Hq. rewrite (B6 q Hq). apply A6. exact Hq.
  - intro X. apply A7, B7, X.
Qed.
Definition cfPO : PO := {| rel := only_cf; po_refl := only_cf_refl; po_trans := only_cf_trans |}.

Lemma effect_only_cf : forall what f,
  (forall fs fs', f fs = inl fs' ->
     (forall q, q <> cf -> lookup fs' q = lookup fs q) /\ (lookup fs' cf = Some NDir -> lookup fs cf = Some NDir)) ->
  pres cfPO (effect what cf f).
Proof.
  intros what f Hf w w' r H. destruct (effect_fields' _ _ _ _ _ _ H) as (F1 & F2 & F3 & F4 & F5 & [F|F]).
  - unfold cfPO, only_cf; cbn. rewrite F. repeat split; auto.
  - destruct (Hf _ _ F) as [G1 G2]. unfold cfPO, only_cf; cbn. repeat split; auto.
Qed.

Lemma write_cf_only : forall what b j m i, pres cfPO (effect what cf (fun fs => write_file fs cf b j m i)).
Proof.
  intros. apply effect_only_cf. intros fs fs' H. apply write_file_frame in H. destruct H as ((g & G1 & _) & G2).
  split; [exact G2|]. rewrite G1. intro X. discriminate X.
Qed.

Lemma remove_cf_only : forall what, pres cfPO (effect what cf (fun fs => remove fs cf)).
Proof.
  intros. apply effect_only_cf. intros fs fs' H. apply remove_frame in H. destruct H as (_ & G1 & G2).
  split; [exact G2|]. rewrite G1. intro X. discriminate X.
Qed.

Lemma write_cache_only_cf : forall w w' r, w_cachefile w = cf -> write_cache w = (w', r) -> only_cf w w'.
Proof.
  intros w w' r Hc H. unfold write_cache in H. unfold bind at 1, get in H.
  destruct (cache_to_json (w_new w)) as [j|]; [|inversion H; subst; apply only_cf_refl].
  cbv zeta in H. rewrite Hc in H.
  refine ((_ : pres cfPO _) w w' r H).
  apply pres_bind; [apply write_cf_only|]. intros _.
  apply pres_bind; [|intros _; apply write_cf_only].
  apply pres_modify. intro v. unfold cfPO, only_cf; cbn. repeat split; auto.
Qed.

Lemma try_remove_cf_only : pres cfPO (try_to_remove_file cf).
Proof.
  unfold try_to_remove_file. apply pres_bind; [apply pres_get|]. intro v.
  destruct (isfile (w_fs v) cf); [|apply pres_ret].
  apply pres_catch; [apply remove_cf_only|]. intro e. destruct (is_os e); [apply pres_ret | apply pres_raise].
Qed.

(* a failed write of the cache file followed by the removal of what was written *)
Lemma write_cache_fail_T : forall w3 w4 r4 w5 r5,
  write_cache w3 = (w4, r4) -> try_to_remove_file cf w4 = (w5, r5) ->
  RInv w3 -> isfile (w_fs w3) cf = false -> fpassed w4 -> RInv w5 /\ fpassed w5.
Proof.
  intros w3 w4 r4 w5 r5 E4 E5 Hinv Hnf A4.
  pose proof Hinv as (A & B & C & I1 & I2 & I3 & I4 & I5 & I6).
  pose proof (write_cache_only_cf _ _ _ C E4) as O1.
  pose proof (try_remove_cf_only _ _ _ E5) as O2.
  destruct (try_to_remove_file_spec _ _ _ _ E5 A4) as (_ & _ & G & _ & A5).
  destruct (only_cf_trans _ _ _ O1 O2) as (F1 & F2 & F3 & F4 & F5 & F6 & F7).
  split; [|exact A5].
  unfold RInv. rewrite F1, F2, F3, F4, F5.
  split; [exact A|]. split; [exact B|]. split; [exact C|].
  split; [|split; [exact I2|split; [exact I3|split; [|split; [exact I5|]]]]].
  - intros q g Hq. destruct (path_eqb q cf) eqn:E.
    + apply path_eqb_eq in E. subst q. destruct (I1 cf g Hq) as [X|X]; [|right; exact X].
      unfold isfile in Hnf. rewrite X in Hnf. discriminate Hnf.
    + apply path_eqb_neq in E. rewrite (F6 q E). exact (I1 q g Hq).
  - intros q g Hq. destruct (path_eqb q cf) eqn:E.
    + apply path_eqb_eq in E. subst q. exfalso. exact (G g Hq).
    + apply path_eqb_neq in E. rewrite (F6 q E) in Hq. exact (I4 q g Hq).
  - intros q g Hq X. destruct (path_eqb q cf) eqn:E.
    + apply path_eqb_eq in E. subst q. exact (I6 cf g Hq (F7 X)).
    + apply path_eqb_neq in E. rewrite (F6 q E) in X. exact (I6 q g Hq X).
Qed.

(* the accepted build of m_build, as a function of the old cache *)
Definition m_accept (nm : string) (svers : pyval) (root : body) (w : world) (old0 : cache) : world * build_result :=
  let w0 := start_world w cf old0 nm svers in
  match make_dirs (dirname cf) w0 with
  | (w1, inr e) =>
      match roll_back [] w1 with
      | (w2, inl _) => (w2, Done (inr e))
      | (w2, inr e') => (w2, Done (inr e'))
      end
  | (w1, inl ccd) =>
      let w1' := set_log (LInvoke "<root>" None PNone PNone :: w_log w1) w1 in
      let '(w2, (res, _)) := root w1' in
      let rollback (e : exn) (w : world) :=
        match roll_back ccd w with
        | (w', inl _) => (w', Done (inr e))
        | (w', inr e') => (w', Done (inr e'))
        end in
      match res with
      | inr e => rollback e w2
      | inl v =>
          match bd_pre ccd w2 with
          | (w3, inr e) => rollback e w3
          | (w3, inl err) =>
              match write_cache w3 with
              | (w4, inr e) =>
                  match try_to_remove_file cf w4 with
                  | (w5, _) => rollback e w5
                  end
              | (w4, inl _) =>
                  match commit err w4 with
                  | (w5, inl _) => (w5, Done (inl v))
                  | (w5, inr e) => (w5, Done (inr e))
                  end
              end
          end
      end
  end.

Lemma m_build_unfold : forall nm vers root w,
  m_build cf nm vers root w =
  match sanitize vers with
  | None => (w, Refused XType)
  | Some svers =>
      match lookup (w_fs w) cf with
      | Some (NFile f) =>
          match cache_of_json (f_json f) with
          | ReadOk old0 =>
              if String.eqb (c_name old0) nm then m_accept nm svers root w old0 else (w, Refused (XRuntime RBuildName))
          | ReadRuntime => (w, Refused (XRuntime RBadCache))
          | ReadMalformed => (w, Refused (XCrash "malformed cache"))
          end
      | Some NDir => (w, Refused (XOS XIsADirectory))
      | None => m_accept nm svers root w (empty_cache nm svers)
      end
  end.
Proof. intros. reflexivity. Qed.

Lemma RInv_start : forall w nm svers, fs0 = w_fs w -> w_faults w = Flt -> RInv (start_world w cf old nm svers).
Proof.
  intros w nm svers Hfs Hf. unfold RInv, start_world, empty_cache.
  cbn [w_faults w_old w_cachefile w_fs w_backups w_new c_built].
  split; [exact Hf|]. split; [reflexivity|]. split; [reflexivity|].
  split; [|split; [|split; [|split; [|split]]]].
  - intros p f Hp. left. rewrite <- Hfs. exact Hp.
  - intros p f [].
  - intros p [].
  - intros p g Hp. left. unfold origfile. rewrite Hfs. exact Hp.
  - intros p [].
  - intros q f Hq X. unfold origfile in Hq. rewrite Hfs in Hq. congruence.
Qed.

End Rollback.

(* ================================================================== *)
(* 8. The commit cannot raise                                          *)
(* ================================================================== *)
(* (otherwise a build would end with an exception after the outputs of the
   previous build have been deleted, and without a rollback)                *)

Lemma no_raise_bind : forall A B (m : M A) (f : A -> M B),
  no_raise m -> (forall a, no_raise (f a)) -> no_raise (bind m f).
Proof.
  intros A B m f Hm Hf w w' e H. apply bind_inv in H.
  destruct H as [(w1 & a & _ & H) | (e1 & E1 & _)]; [exact (Hf a _ _ _ H) | exact (Hm _ _ _ E1)].
Qed.
Lemma no_raise_ret : forall A (a : A), no_raise (ret a).
Proof. intros A a w w' e H. inversion H. Qed.
Lemma no_raise_get : no_raise get.
Proof. intros w w' e H. inversion H. Qed.
Lemma no_raise_modify : forall f, no_raise (modify f).
Proof. intros f w w' e H. inversion H. Qed.

Lemma mem_path_In : forall p l, mem_path p l = true <-> In p l.
Proof.
  intros p l. induction l as [|x l IH]; cbn [mem_path In]; [split; [discriminate | tauto]|].
  rewrite orb_true_iff, IH. split; intros [H|H]; auto.
  - left. apply path_eqb_eq. exact H.
  - left. apply path_eqb_eq in H. exact H.
Qed.

Lemma length_del_path_le : forall p l, List.length (del_path p l) <= List.length l.
Proof.
  intros p l. induction l as [|x l IH]; cbn [del_path]; [lia|].
  destruct (path_eqb x p); cbn [List.length]; lia.
Qed.

Lemma length_del_path_lt : forall p l, In p l -> List.length (del_path p l) < List.length l.
Proof.
  intros p l. induction l as [|x l IH]; intro H; [destruct H|]. cbn [del_path].
  destruct (path_eqb x p) eqn:E.
  - pose proof (length_del_path_le p l). cbn [List.length]. lia.
  - destruct H as [H|H]; [subst x; rewrite path_eqb_refl in E; discriminate E|].
    apply IH in H. cbn [List.length]. lia.
Qed.

Lemma hde2_maybe : forall p b, bd_maybe (hde2 b p) = bd_maybe b.
Proof.
  induction p as [|n d IH]; intro b; cbn [hde2]; destruct (mem_path _ (bd_exists b)); try reflexivity.
  rewrite IH. reflexivity.
Qed.

Lemma handle_dir_exists_maybe_le : forall p b,
  List.length (bd_maybe (handle_dir_exists b p)) <= List.length (bd_maybe b).
Proof.
  induction p as [|n d IH]; intro b; cbn [handle_dir_exists];
    destruct (mem_path _ (bd_exists b) || in_counts b _); try (rewrite hde2_maybe; lia).
  - cbn [bd_maybe bd_with]. apply length_del_path_le.
  - eapply Nat.le_trans; [apply IH|]. cbn [bd_maybe bd_with]. apply length_del_path_le.
Qed.

Lemma dedup_In : forall x l, In x (dedup l) -> In x l.
Proof.
  intros x l. induction l as [|y l IH]; cbn [dedup]; intro H; [exact H|].
  destruct (mem_str y l); [right; auto|]. destruct H as [H|H]; [left; exact H | right; auto].
Qed.

Lemma children_lexists : forall fs p n, In n (children fs p) -> lexists fs (n :: p) = true.
Proof.
  intros fs p n H. unfold children, sort_strs in H. apply In_sort_by' in H. apply dedup_In in H.
  apply in_flat_map in H. destruct H as ([k v] & _ & H). cbn [fst] in H.
  destruct k as [|n' d]; [destruct H|].
  destruct (path_eqb d p && lexists fs (n' :: d)) eqn:E; [|destruct H].
  destruct H as [H|[]]. subst n'. apply andb_true_iff in E. destruct E as [E1 E2].
  apply path_eqb_eq in E1. subst d. exact E2.
Qed.

(* os.listdir fails with nothing but ENOENT / ENOTDIR *)
Definition lst_ok (fs : fsT) (d : path) : Prop :=
  match listdir fs d with
  | inl _ => True
  | inr ENOENT => True
  | inr ENOTDIR => True
  | inr _ => False
  end.

Lemma absent_err_ok : forall fs d, path_ok d = true -> absent_err fs d = ENOENT \/ absent_err fs d = ENOTDIR.
Proof.
  intros fs d. induction d as [|n d IH]; intro H; cbn [absent_err]; [left; reflexivity|].
  cbn [path_ok forallb] in H. apply andb_true_iff in H. destruct H as [Hn Hd].
  destruct (lookup fs d) as [[g|]|]; [right; reflexivity | rewrite Hn; left; reflexivity | apply IH; exact Hd].
Qed.

Lemma lst_ok_path_ok : forall fs d, path_ok d = true -> lst_ok fs d.
Proof.
  intros fs d H. unfold lst_ok, listdir. destruct (lookup fs d) as [[g|]|]; try exact I.
  unfold stat_err. destruct (absent_err_ok fs d H) as [X|X]; rewrite X; exact I.
Qed.

Lemma lst_ok_lexists : forall fs a, lexists fs a = true -> lst_ok fs a.
Proof.
  intros fs a H. unfold lst_ok, listdir. unfold lexists in H.
  destruct (lookup fs a) as [[g|]|]; try exact I. discriminate H.
Qed.

Lemma listdir_names : forall fs d names n, listdir fs d = inl names -> In n names -> lexists fs (n :: d) = true.
Proof.
  intros fs d names n H Hn. unfold listdir in H. destruct (lookup fs d) as [[g|]|]; try discriminate H.
  inversion H; subst. apply children_lexists. exact Hn.
Qed.

Lemma check_maybe_ok : forall fuel fs b d,
  List.length (bd_maybe b) < fuel -> mem_path d (bd_maybe b) = true -> lst_ok fs d ->
  exists b' r, check_maybe fuel fs b d = ScanOk b' r /\ List.length (bd_maybe b') < List.length (bd_maybe b).
Proof.
  induction fuel as [|fuel IHf]; intros fs b d Hfuel Hmem Hok; [lia|].
  cbn [check_maybe]. cbv zeta.
  set (b0 := bd_with b (bd_counts b) (bd_created b) (bd_err_created b) (bd_removed b)
                     (bd_exists b) (del_path d (bd_maybe b)) (bd_removed_files b)).
  assert (L0 : List.length (bd_maybe b0) < List.length (bd_maybe b)).
  { subst b0. cbn [bd_maybe bd_with]. apply length_del_path_lt. apply mem_path_In. exact Hmem. }
  unfold lst_ok in Hok. destruct (listdir fs d) as [names|e] eqn:El.
  - assert (Hn : forall n, In n names -> lexists fs (n :: d) = true) by (intros n X; eapply listdir_names; eauto).
    clear El Hok.
    match goal with |- exists b' r, ?F names b0 = _ /\ _ =>
      assert (Hloop : forall ns b1, (forall n, In n ns -> lexists fs (n :: d) = true) ->
                List.length (bd_maybe b1) <= List.length (bd_maybe b0) ->
                exists b' r, F ns b1 = ScanOk b' r /\ List.length (bd_maybe b') <= List.length (bd_maybe b0))
    end.
    { induction ns as [|n ns IHn]; intros b1 Hns Hb1; cbn beta iota fix.
      - eexists. eexists. split; [reflexivity|]. cbn [bd_maybe bd_with]. exact Hb1.
      - cbv zeta.
        assert (Hns' : forall n0, In n0 ns -> lexists fs (n0 :: d) = true) by (intros n0 X; apply Hns; right; exact X).
        destruct (mem_path (n :: d) (bd_removed b1)).
        { destruct (isfile fs (n :: d)); [|apply IHn; assumption].
          eexists. eexists. split; [reflexivity|]. eapply Nat.le_trans; [apply handle_dir_exists_maybe_le | exact Hb1]. }
        destruct (mem_path (n :: d) (bd_removed_files b1)).
        { destruct (isdir fs (n :: d)); [|apply IHn; assumption].
          eexists. eexists. split; [reflexivity|]. eapply Nat.le_trans; [apply handle_dir_exists_maybe_le | exact Hb1]. }
        destruct (mem_path (n :: d) (bd_maybe b1)) eqn:Em.
        + destruct (IHf fs b1 (n :: d)) as (b2 & r2 & E2 & L2); [lia | exact Em | |].
          { apply lst_ok_lexists. apply Hns. left. reflexivity. }
          rewrite E2. destruct r2.
          * apply IHn; [exact Hns' | lia].
          * eexists. eexists. split; [reflexivity | lia].
        + eexists. eexists. split; [reflexivity|].
          destruct (isdir fs (n :: d)); (eapply Nat.le_trans; [apply handle_dir_exists_maybe_le | exact Hb1]). }
    destruct (Hloop names b0 Hn (le_n _)) as (b' & r & E & L). exists b', r. split; [exact E | lia].
  - destruct e; try contradiction.
    + eexists. eexists. split; [reflexivity|]. cbn [bd_maybe bd_with]. exact L0.
    + eexists. eexists. split; [reflexivity|].
      eapply Nat.le_lt_trans; [apply handle_dir_exists_maybe_le | exact L0].
Qed.

Lemma m_is_removed_no_raise : forall d, path_ok d = true -> no_raise (m_is_removed d).
Proof.
  intros d Hd w w' e H. unfold m_is_removed, is_removed in H.
  destruct (in_counts (w_bd w) d); [inversion H|].
  destruct (mem_path d (bd_removed (w_bd w))); [inversion H|].
  destruct (mem_path d (bd_maybe (w_bd w))) eqn:Em; cbn [negb] in H; [|inversion H].
  destruct (check_maybe_ok (S (List.length (bd_maybe (w_bd w)))) (w_fs w) (w_bd w) d) as (b' & r & E & _);
    [lia | exact Em | apply lst_ok_path_ok; exact Hd |].
  rewrite E in H. inversion H.
Qed.

Lemma m_is_dir_no_raise : forall d, path_ok d = true -> no_raise (m_is_dir d None).
Proof.
  intros d Hd. unfold m_is_dir. cbn [cf_has_dir cf_has_file].
  apply no_raise_bind; [apply m_is_removed_no_raise; exact Hd|]. intro r.
  destruct r; [apply no_raise_ret|]. apply no_raise_bind; [apply no_raise_get|]. intro w.
  destruct (isdir (w_fs w) d); [|apply no_raise_ret].
  apply no_raise_bind; [apply no_raise_modify | intro; apply no_raise_ret].
Qed.

Lemma m_is_file_no_raise : forall p, no_raise (m_is_file p None).
Proof.
  intro p. unfold m_is_file. apply no_raise_bind.
  - intros w w' e H. unfold is_file_no_read in H. repeat dm H; inversion H.
  - intro r. destruct r; [apply no_raise_ret|]. apply no_raise_bind; [apply no_raise_get|]. intro w.
    destruct (isfile (w_fs w) p); [|apply no_raise_ret].
    apply no_raise_bind; [apply no_raise_modify | intro; apply no_raise_ret].
Qed.

Lemma try_to_remove_file_no_raise : forall p, no_raise (try_to_remove_file p).
Proof.
  intro p. unfold try_to_remove_file. apply no_raise_bind; [apply no_raise_get|]. intro w.
  destruct (isfile (w_fs w) p); [apply caught_effect_no_raise | apply no_raise_ret].
Qed.

Theorem commit_no_raise : forall err w w' e,
  (forall d, In d (c_dirs (w_old w)) -> path_ok d = true) -> commit err w = (w', inr e) -> False.
Proof.
  intros err w w' e Hd H. unfold commit in H. unfold bind at 1, get in H.
  revert H. generalize (cache_created_files (w_old w)). revert Hd. generalize (c_dirs (w_old w)).
  intros dirs Hd files H.
  refine (no_raise_bind _ _ _ _ _ _ w w' e H).
  - apply mapM_no_raise. intro f. apply no_raise_bind; [apply m_is_file_no_raise|]. intro vf.
    apply no_raise_bind; [intros v v' e0 X; inversion X|]. intro icf.
    destruct (negb vf && negb icf); [apply try_to_remove_file_no_raise | apply no_raise_ret].
  - intros _. apply no_raise_bind; [|intro; apply remove_empty_dirs_no_raise].
    clear H. induction dirs as [|d dirs IH]; [apply no_raise_ret|].
    apply no_raise_bind; [apply m_is_dir_no_raise; apply Hd; left; reflexivity|]. intro vd.
    apply no_raise_bind; [apply IH; intros x X; apply Hd; right; exact X | intro; apply no_raise_ret].
Qed.

