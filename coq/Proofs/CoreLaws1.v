(* Proofs/CoreLaws1.v — file-system lemmas for cache transparency (C01):
   everything Core / Ref / the replay do to a tree depends only on the tree up to
   modification time and inode of regular files ([tree_equiv]); structure facts
   about the set-up of a target (missing_dirs / mkdir_all) and about pruning. *)
From Coq Require Import List String Ascii NArith ZArith Bool Arith Lia.
From FB.Base Require Import PyVal Fs.
From FB.Gen Require Import JsonUtilGen.
From FB.Spec Require Import JsonSpec Prog Ref Faithful.
From FB.Model Require Import Types SimpleOps Builder Persist Core.
From FB.Proofs Require Import FsLemmas CleanLaws CoreLawsChildren.
Import ListNotations.
Local Open Scope list_scope.

(* ------------------------------------------------------------------ *)
(* lists of paths                                                     *)
(* ------------------------------------------------------------------ *)
Lemma mem_path_In : forall p l, mem_path p l = true <-> In p l.
Proof.
  intros p l. induction l as [|q r IH]; simpl; [split; [discriminate|tauto]|].
  rewrite orb_true_iff, IH, path_eqb_eq. tauto.
Qed.

Lemma mem_path_false : forall p l, mem_path p l = false <-> ~ In p l.
Proof.
  intros p l. rewrite <- mem_path_In. destruct (mem_path p l); split; intro H; congruence.
Qed.

Lemma mem_path_app : forall p a b, mem_path p (a ++ b) = mem_path p a || mem_path p b.
Proof. intros p a b. induction a as [|q a IH]; simpl; [reflexivity|]. rewrite IH, orb_assoc. reflexivity. Qed.

Lemma In_del_path : forall n p l, In n (del_path p l) <-> In n l /\ n <> p.
Proof.
  intros n p l. induction l as [|q r IH]; simpl; [tauto|].
  destruct (path_eqb q p) eqn:E.
  - apply path_eqb_eq in E. subst q. rewrite IH. split; [tauto|]. intros [[H|H] Hn]; [congruence|tauto].
  - apply path_eqb_neq in E. simpl. rewrite IH. split; [|tauto].
    intros [H|[H1 H2]]; [subst; tauto|tauto].
Qed.

Lemma existsb_app_b : forall {A} (f : A -> bool) a b, existsb f (a ++ b) = existsb f a || existsb f b.
Proof. intros. apply existsb_app. Qed.

(* ------------------------------------------------------------------ *)
(* ancestors                                                          *)
(* ------------------------------------------------------------------ *)
Lemma is_ancestor_cons : forall d x q, is_ancestor d (x :: q) = path_eqb q d || is_ancestor d q.
Proof. reflexivity. Qed.

Lemma is_ancestor_length : forall d q, is_ancestor d q = true -> List.length d < List.length q.
Proof.
  intros d q. induction q as [|x q IH]; simpl; [discriminate|].
  rewrite orb_true_iff. intros [H|H].
  - apply path_eqb_eq in H. subst. lia.
  - apply IH in H. lia.
Qed.

Lemma is_ancestor_irrefl : forall d, is_ancestor d d = false.
Proof.
  intro d. destruct (is_ancestor d d) eqn:E; [|reflexivity]. apply is_ancestor_length in E. lia.
Qed.

Lemma is_ancestor_trans : forall a b c, is_ancestor a b = true -> is_ancestor b c = true -> is_ancestor a c = true.
Proof.
  intros a b c Hab. induction c as [|x c IH]; simpl; [discriminate|].
  rewrite !orb_true_iff. intros [H|H].
  - apply path_eqb_eq in H. subst c. right. exact Hab.
  - right. apply IH. exact H.
Qed.

Lemma is_ancestor_dirname : forall x d, is_ancestor d (x :: d) = true.
Proof. intros. simpl. rewrite path_eqb_refl. reflexivity. Qed.

Lemma is_ancestor_parent : forall d x q, is_ancestor d (x :: q) = true -> d = q \/ is_ancestor d q = true.
Proof.
  intros d x q H. simpl in H. apply orb_true_iff in H. destruct H as [H|H]; [|right; exact H].
  apply path_eqb_eq in H. left. congruence.
Qed.

(* in a tree, whatever exists has directories above it *)
Lemma wf_ancestor : forall fs, fs_wf fs -> forall q n d,
  lookup fs q = Some n -> is_ancestor d q = true -> lookup fs d = Some NDir.
Proof.
  intros fs W q. induction q as [|x q IH]; intros n d Hq Ha; [discriminate|].
  pose proof (W _ _ Hq) as Hp. simpl in Hp.
  apply is_ancestor_parent in Ha. destruct Ha as [->|Ha]; [exact Hp|].
  eapply IH; eauto.
Qed.

(* ------------------------------------------------------------------ *)
(* tree_equiv                                                         *)
(* ------------------------------------------------------------------ *)
Definition kind (o : option node) : option bool :=
  match o with None => None | Some NDir => Some true | Some (NFile _) => Some false end.

Lemma node_equiv_kind : forall a b, node_equiv a b -> kind a = kind b.
Proof. intros [[f|]|] [[g|]|]; simpl; intro H; try reflexivity; contradiction. Qed.

Lemma node_equiv_refl : forall a, node_equiv a a.
Proof. intros [[f|]|]; simpl; auto. Qed.
Lemma node_equiv_sym : forall a b, node_equiv a b -> node_equiv b a.
Proof. intros [[f|]|] [[g|]|]; simpl; auto. Qed.
Lemma node_equiv_trans : forall a b c, node_equiv a b -> node_equiv b c -> node_equiv a c.
Proof. intros [[f|]|] [[g|]|] [[h|]|]; simpl; auto; try contradiction; congruence. Qed.

Lemma te_refl : forall a, tree_equiv a a.
Proof. intros a p. apply node_equiv_refl. Qed.
Lemma te_sym : forall a b, tree_equiv a b -> tree_equiv b a.
Proof. intros a b H p. apply node_equiv_sym, H. Qed.
Lemma te_trans : forall a b c, tree_equiv a b -> tree_equiv b c -> tree_equiv a c.
Proof. intros a b c H1 H2 p. eapply node_equiv_trans; [apply H1|apply H2]. Qed.

Lemma te_kind : forall a b p, tree_equiv a b -> kind (lookup a p) = kind (lookup b p).
Proof. intros a b p H. apply node_equiv_kind, H. Qed.

Lemma te_isfile : forall a b p, tree_equiv a b -> isfile a p = isfile b p.
Proof.
  intros a b p H. unfold isfile. pose proof (te_kind a b p H) as K.
  destruct (lookup a p) as [[f|]|], (lookup b p) as [[g|]|]; simpl in K; try discriminate; reflexivity.
Qed.
Lemma te_isdir : forall a b p, tree_equiv a b -> isdir a p = isdir b p.
Proof.
  intros a b p H. unfold isdir. pose proof (te_kind a b p H) as K.
  destruct (lookup a p) as [[f|]|], (lookup b p) as [[g|]|]; simpl in K; try discriminate; reflexivity.
Qed.
Lemma te_lexists : forall a b p, tree_equiv a b -> lexists a p = lexists b p.
Proof.
  intros a b p H. unfold lexists. pose proof (te_kind a b p H) as K.
  destruct (lookup a p) as [[f|]|], (lookup b p) as [[g|]|]; simpl in K; try discriminate; reflexivity.
Qed.

Lemma te_dir : forall a b p, tree_equiv a b -> lookup a p = Some NDir -> lookup b p = Some NDir.
Proof.
  intros a b p H E. pose proof (H p) as K. rewrite E in K.
  destruct (lookup b p) as [[g|]|]; simpl in K; try contradiction; reflexivity.
Qed.
Lemma te_none : forall a b p, tree_equiv a b -> lookup a p = None -> lookup b p = None.
Proof.
  intros a b p H E. pose proof (H p) as K. rewrite E in K.
  destruct (lookup b p) as [[g|]|]; simpl in K; try contradiction; reflexivity.
Qed.
Lemma te_file : forall a b p f, tree_equiv a b -> lookup a p = Some (NFile f) ->
  exists g, lookup b p = Some (NFile g) /\ f_bytes f = f_bytes g.
Proof.
  intros a b p f H E. pose proof (H p) as K. rewrite E in K.
  destruct (lookup b p) as [[g|]|]; simpl in K; try contradiction. eauto.
Qed.

Lemma te_wf : forall a b, tree_equiv a b -> fs_wf a -> fs_wf b.
Proof.
  intros a b H W p n Hp. apply te_sym in H.
  destruct n as [g|].
  - destruct (te_file _ _ _ _ H Hp) as [f [Hf _]]. eapply te_dir; [apply te_sym; exact H|]. eapply W; eauto.
  - pose proof (te_dir _ _ _ H Hp) as Hd. eapply te_dir; [apply te_sym; exact H|]. eapply W; eauto.
Qed.

Lemma te_upd : forall a b p n n', tree_equiv a b -> node_equiv n n' -> tree_equiv (upd p n a) (upd p n' b).
Proof.
  intros a b p n n' H Hn q. destruct q as [|y q]; [simpl; exact I|].
  destruct (path_eqb p (y :: q)) eqn:E.
  - apply path_eqb_eq in E. subst p. rewrite !lookup_upd_eq by discriminate. exact Hn.
  - apply path_eqb_neq in E. rewrite !lookup_upd_neq by congruence. apply H.
Qed.

(* relation lifted to results *)
Definition sum_rel {A B} (R : A -> A -> Prop) (x y : A + B) : Prop :=
  match x, y with
  | inl a, inl b => R a b
  | inr e, inr e' => e = e'
  | _, _ => False
  end.

Lemma absent_err_te : forall a b p, tree_equiv a b -> absent_err a p = absent_err b p.
Proof.
  intros a b p H. induction p as [|n d IH]; [reflexivity|]. cbn [absent_err].
  pose proof (te_kind a b d H) as K.
  destruct (lookup a d) as [[f|]|], (lookup b d) as [[g|]|]; simpl in K; try discriminate; auto.
Qed.

Lemma missing_dirs_eq : forall fs cf d, missing_dirs fs cf d =
  match lookup fs d with
  | Some NDir => inl []
  | Some (NFile _) => inr XNotADirectory
  | None =>
      if path_eqb d cf then inr XNotADirectory else
      match d with
      | [] => inl []
      | _ :: up => match missing_dirs fs cf up with inl l => inl (l ++ [d]) | inr e => inr e end
      end
  end.
Proof. intros fs cf d. destruct d; reflexivity. Qed.

Lemma missing_dirs_te : forall a b cf d, tree_equiv a b -> missing_dirs a cf d = missing_dirs b cf d.
Proof.
  intros a b cf d H. induction d as [|x up IH]; [reflexivity|].
  rewrite (missing_dirs_eq a), (missing_dirs_eq b).
  pose proof (te_kind a b (x :: up) H) as K.
  destruct (lookup a (x :: up)) as [[f|]|], (lookup b (x :: up)) as [[g|]|]; simpl in K; try discriminate; auto.
  rewrite IH. reflexivity.
Qed.

Lemma mkdir_te : forall a b p, tree_equiv a b -> sum_rel tree_equiv (mkdir a p) (mkdir b p).
Proof.
  intros a b p H. unfold mkdir. destruct p as [|n d]; [reflexivity|].
  pose proof (te_kind a b (n :: d) H) as K1. pose proof (te_kind a b d H) as K2.
  unfold stat_err. rewrite (absent_err_te a b (n :: d) H).
  destruct (lookup a (n :: d)) as [[f|]|], (lookup b (n :: d)) as [[g|]|]; simpl in K1; try discriminate;
    try reflexivity.
  destruct (lookup a d) as [[f|]|], (lookup b d) as [[g|]|]; simpl in K2; try discriminate; try reflexivity.
  destruct (name_ok n); [|reflexivity]. simpl. apply te_upd; [exact H|exact I].
Qed.

Definition mkstep (acc : fsT + oserr) (d : path) : fsT + oserr :=
  match acc with inl f => mkdir f d | inr e => inr e end.

Lemma mkdir_all_fold : forall fs l, mkdir_all fs l = fold_left mkstep l (inl fs).
Proof. reflexivity. Qed.

Lemma mkstep_inr : forall l e, fold_left mkstep l (inr e) = inr e.
Proof. induction l as [|d l IH]; simpl; auto. Qed.

Lemma mkdir_all_te : forall l a b, tree_equiv a b -> sum_rel tree_equiv (mkdir_all a l) (mkdir_all b l).
Proof.
  intros l a b H. rewrite !mkdir_all_fold.
  assert (G : forall l x y, sum_rel tree_equiv x y ->
              sum_rel tree_equiv (fold_left mkstep l x) (fold_left mkstep l y)).
  { clear. induction l as [|d l IH]; simpl; intros x y R; [exact R|]. apply IH.
    destruct x as [f|e], y as [g|e']; simpl in R; try contradiction; simpl; [apply mkdir_te; exact R|exact R]. }
  apply G. exact H.
Qed.

Lemma mkdir_all_app1 : forall fs l d, mkdir_all fs (l ++ [d]) = mkstep (mkdir_all fs l) d.
Proof. intros. rewrite !mkdir_all_fold, fold_left_app. reflexivity. Qed.

Lemma remove_te : forall a b p, tree_equiv a b -> sum_rel tree_equiv (remove a p) (remove b p).
Proof.
  intros a b p H. unfold remove, stat_err. rewrite (absent_err_te a b p H).
  pose proof (te_kind a b p H) as K.
  destruct (lookup a p) as [[f|]|], (lookup b p) as [[g|]|]; simpl in K; try discriminate;
    destruct p as [|n d]; try reflexivity.
  simpl. apply te_upd; [exact H|exact I].
Qed.

Lemma try_remove_te : forall a b p, tree_equiv a b -> tree_equiv (try_remove a p) (try_remove b p).
Proof.
  intros a b p H. unfold try_remove. rewrite (te_isfile a b p H).
  destruct (isfile b p); [|exact H].
  pose proof (remove_te a b p H) as R.
  destruct (remove a p), (remove b p); simpl in R; try contradiction; auto.
Qed.

Lemma children_te : forall a b p, tree_equiv a b -> children a p = children b p.
Proof. intros a b p H. apply children_ext. intro n. apply te_lexists. exact H. Qed.

Lemma rmdir_te : forall a b p, tree_equiv a b -> sum_rel tree_equiv (rmdir a p) (rmdir b p).
Proof.
  intros a b p H. unfold rmdir, stat_err. rewrite (absent_err_te a b p H), (children_te a b p H).
  destruct p as [|n d]; [reflexivity|].
  pose proof (te_kind a b (n :: d) H) as K.
  destruct (lookup a (n :: d)) as [[f|]|], (lookup b (n :: d)) as [[g|]|]; simpl in K; try discriminate;
    try reflexivity.
  destruct (children b (n :: d)); [|reflexivity]. simpl. apply te_upd; [exact H|exact I].
Qed.

Lemma try_rmdir_te : forall a b p, tree_equiv a b -> tree_equiv (try_rmdir a p) (try_rmdir b p).
Proof.
  intros a b p H. unfold try_rmdir. pose proof (rmdir_te a b p H) as R.
  destruct (rmdir a p), (rmdir b p); simpl in R; try contradiction; auto.
Qed.

Lemma fold_te : forall (g : fsT -> path -> fsT),
  (forall a b p, tree_equiv a b -> tree_equiv (g a p) (g b p)) ->
  forall l a b, tree_equiv a b -> tree_equiv (fold_left g l a) (fold_left g l b).
Proof. intros g Hg l. induction l as [|x l IH]; simpl; intros a b H; [exact H|]. apply IH, Hg, H. Qed.

Lemma write_file_te : forall a b p bytes j j' m m' i i', tree_equiv a b ->
  sum_rel tree_equiv (write_file a p bytes j m i) (write_file b p bytes j' m' i').
Proof.
  intros a b p bytes j j' m m' i i' H. unfold write_file, stat_err. destruct p as [|n d]; [reflexivity|].
  rewrite (absent_err_te a b (n :: d) H).
  pose proof (te_kind a b (n :: d) H) as K1. pose proof (te_kind a b d H) as K2.
  destruct (lookup a (n :: d)) as [[f|]|], (lookup b (n :: d)) as [[g|]|]; simpl in K1; try discriminate;
    try reflexivity.
  - simpl. apply te_upd; [exact H|reflexivity].
  - destruct (lookup a d) as [[f|]|], (lookup b d) as [[g|]|]; simpl in K2; try discriminate; try reflexivity.
    destruct (name_ok n); [|reflexivity]. simpl. apply te_upd; [exact H|reflexivity].
Qed.

(* ------------------------------------------------------------------ *)
(* answers                                                            *)
(* ------------------------------------------------------------------ *)
Lemma filter_ext_in' : forall {A} (f g : A -> bool) l, (forall x, f x = g x) -> filter f l = filter g l.
Proof. intros A f g l H. induction l as [|x l IH]; simpl; [reflexivity|]. rewrite H, IH. reflexivity. Qed.

Lemma ref_walk_te : forall fuel a b d td, tree_equiv a b -> ref_walk fuel a d td = ref_walk fuel b d td.
Proof.
  induction fuel as [|f IH]; intros a b d td H; [reflexivity|]. cbn [ref_walk].
  rewrite (children_te a b d H).
  rewrite (filter_ext_in' (fun n => isdir a (n :: d)) (fun n => isdir b (n :: d))) by (intro; apply te_isdir; exact H).
  rewrite (filter_ext_in' (fun n => isfile a (n :: d)) (fun n => isfile b (n :: d))) by (intro; apply te_isfile; exact H).
  assert (E : forall l, flat_map (fun n => ref_walk f a (n :: d) td) l = flat_map (fun n => ref_walk f b (n :: d) td) l).
  { induction l as [|x l IHl]; simpl; [reflexivity|]. rewrite (IH a b (x :: d) td H), IHl. reflexivity. }
  rewrite E. reflexivity.
Qed.

Lemma spec_answer_raw_te : forall a b q, tree_equiv a b -> spec_answer_raw a q = spec_answer_raw b q.
Proof.
  intros a b q H. destruct q as [p|p|p|p|p td|p|p c]; cbn [spec_answer_raw].
  - rewrite (te_lexists a b p H). reflexivity.
  - rewrite (te_isfile a b p H). reflexivity.
  - rewrite (te_isdir a b p H). reflexivity.
  - rewrite (children_te a b p H). pose proof (te_kind a b p H) as K.
    destruct (lookup a p) as [[f|]|], (lookup b p) as [[g|]|]; simpl in K; try discriminate; reflexivity.
  - rewrite (te_isdir a b p H), (ref_walk_te 32 a b p td H). reflexivity.
  - pose proof (H p) as K.
    destruct (lookup a p) as [[f|]|], (lookup b p) as [[g|]|]; simpl in K; try contradiction; try reflexivity.
    rewrite K. reflexivity.
  - pose proof (H p) as K.
    destruct (lookup a p) as [[f|]|], (lookup b p) as [[g|]|]; simpl in K; try contradiction; try reflexivity.
    rewrite K. reflexivity.
Qed.

Lemma spec_answer_te : forall a b q, tree_equiv a b -> spec_answer a q = spec_answer b q.
Proof. intros a b q H. unfold spec_answer. rewrite (spec_answer_raw_te a b q H). reflexivity. Qed.

(* ------------------------------------------------------------------ *)
(* setting up a target: the missing directories                       *)
(* ------------------------------------------------------------------ *)
Lemma cons_neq : forall {A} (x : A) l, l <> x :: l.
Proof. intros A x l H. apply (f_equal (@List.length A)) in H. simpl in H. lia. Qed.

Lemma setup_dirs : forall cf d fs dirs fs1,
  fs_wf fs -> missing_dirs fs cf d = inl dirs -> mkdir_all fs dirs = inl fs1 ->
  lookup fs1 d = Some NDir /\ fs_wf fs1 /\
  (forall q, lookup fs1 q = lookup fs q \/ (lookup fs q = None /\ lookup fs1 q = Some NDir /\ In q dirs)) /\
  (forall q, In q dirs -> q = d \/ is_ancestor q d = true).
Proof.
  intros cf d. induction d as [|x up IH]; intros fs dirs fs1 W Hm Hk.
  - simpl in Hm. inversion Hm; subst. simpl in Hk. inversion Hk; subst.
    repeat split; auto; try (intros ? []).
  - rewrite missing_dirs_eq in Hm.
    destruct (lookup fs (x :: up)) as [[f|]|] eqn:E.
    + discriminate.
    + inversion Hm; subst. simpl in Hk. inversion Hk; subst. repeat split; auto; try (intros ? []).
    + destruct (path_eqb (x :: up) cf); [discriminate|].
      destruct (missing_dirs fs cf up) as [l|e] eqn:El; [|discriminate].
      inversion Hm; subst dirs. rewrite mkdir_all_app1 in Hk.
      destruct (mkdir_all fs l) as [f0|e] eqn:Ef0; [|discriminate]. cbn [mkstep] in Hk.
      destruct (IH fs l f0 W El Ef0) as [Hup [W0 [Hfr Hanc]]].
      destruct (mkdir_frame _ _ _ Hk) as [Hd [Hnone Hoth]].
      split; [exact Hd|]. split; [|split].
      * intros q n Hq. destruct (path_eqb q (x :: up)) eqn:Eq.
        -- apply path_eqb_eq in Eq. subst q. simpl. rewrite Hoth by apply cons_neq. exact Hup.
        -- apply path_eqb_neq in Eq. rewrite Hoth in Hq by exact Eq.
           pose proof (W0 _ _ Hq) as Hp.
           assert (Hne : dirname q <> x :: up) by (intro Ex; rewrite Ex in Hp; congruence).
           rewrite Hoth by exact Hne. exact Hp.
      * intro q. destruct (path_eqb q (x :: up)) eqn:Eq.
        -- apply path_eqb_eq in Eq. subst q. right. split; [exact E|]. split; [exact Hd|].
           apply in_or_app. right. left. reflexivity.
        -- apply path_eqb_neq in Eq. rewrite Hoth by exact Eq.
           destruct (Hfr q) as [H1|[H1 [H2 H3]]]; [left; exact H1|right].
           split; [exact H1|]. split; [exact H2|]. apply in_or_app. left. exact H3.
      * intros q Hq. apply in_app_or in Hq. destruct Hq as [Hq|[Hq|[]]].
        -- right. destruct (Hanc q Hq) as [->|Ha]; [apply is_ancestor_dirname|].
           simpl. rewrite Ha. apply orb_true_r.
        -- left. congruence.
Qed.

(* consequences in the form used later *)
Lemma setup_dirs_keeps : forall cf d fs dirs fs1 q n,
  fs_wf fs -> missing_dirs fs cf d = inl dirs -> mkdir_all fs dirs = inl fs1 ->
  lookup fs q = Some n -> lookup fs1 q = Some n.
Proof.
  intros cf d fs dirs fs1 q n W Hm Hk Hq.
  destruct (setup_dirs _ _ _ _ _ W Hm Hk) as [_ [_ [Hfr _]]].
  destruct (Hfr q) as [H|[H _]]; congruence.
Qed.

Lemma setup_dirs_newdir : forall cf d fs dirs fs1 q,
  fs_wf fs -> missing_dirs fs cf d = inl dirs -> mkdir_all fs dirs = inl fs1 ->
  isdir fs1 q = true -> isdir fs q = true \/ q = d \/ is_ancestor q d = true.
Proof.
  intros cf d fs dirs fs1 q W Hm Hk Hq.
  destruct (setup_dirs _ _ _ _ _ W Hm Hk) as [_ [_ [Hfr Hanc]]].
  destruct (Hfr q) as [H|[_ [_ H]]].
  - left. unfold isdir in *. rewrite <- H. exact Hq.
  - right. apply Hanc. exact H.
Qed.

Lemma setup_dirs_isfile : forall cf d fs dirs fs1 q,
  fs_wf fs -> missing_dirs fs cf d = inl dirs -> mkdir_all fs dirs = inl fs1 ->
  isfile fs1 q = isfile fs q.
Proof.
  intros cf d fs dirs fs1 q W Hm Hk.
  destruct (setup_dirs _ _ _ _ _ W Hm Hk) as [_ [_ [Hfr _]]].
  unfold isfile. destruct (Hfr q) as [H|[H1 [H2 _]]]; [rewrite H; reflexivity|rewrite H1, H2; reflexivity].
Qed.

(* ------------------------------------------------------------------ *)
(* well-formedness is kept                                            *)
(* ------------------------------------------------------------------ *)
Lemma wf_try_remove : forall fs p, fs_wf fs -> fs_wf (try_remove fs p).
Proof.
  intros fs p W q n Hq.
  assert (Hq0 : lookup fs q = Some n).
  { destruct (try_remove_char fs p q) as [E|[_ [E _]]]; congruence. }
  apply try_remove_keeps_dir. eapply W; eauto.
Qed.

Lemma wf_try_rmdir : forall fs p, fs_wf fs -> fs_wf (try_rmdir fs p).
Proof.
  intros fs p W q n Hq.
  assert (Hq0 : lookup fs q = Some n).
  { destruct (try_rmdir_char fs p q) as [E|[_ [E _]]]; congruence. }
  pose proof (W _ _ Hq0) as Hp.
  destruct (try_rmdir_char fs p (dirname q)) as [E|[E1 [E2 [E3 E4]]]]; [congruence|].
  exfalso. destruct q as [|x q].
  - simpl in E1. subst p. simpl in E2. discriminate.
  - simpl in E1. subst p. simpl in E4. rewrite (children_nil_lookup _ _ E4 x) in Hq0. discriminate.
Qed.

Lemma wf_fold_try_rmdir : forall l fs, fs_wf fs -> fs_wf (fold_left try_rmdir l fs).
Proof. intros l fs. apply (fold_inv _ try_rmdir fs_wf). intros; apply wf_try_rmdir; assumption. Qed.

Lemma wf_fold_try_remove : forall l fs, fs_wf fs -> fs_wf (fold_left try_remove l fs).
Proof. intros l fs. apply (fold_inv _ try_remove fs_wf). intros; apply wf_try_remove; assumption. Qed.

Lemma wf_write_file : forall fs p b j m i fs', fs_wf fs -> write_file fs p b j m i = inl fs' -> fs_wf fs'.
Proof.
  intros fs p b j m i fs' W H.
  assert (Hpar : p <> [] /\ lookup fs (dirname p) = Some NDir /\ lookup fs p <> Some NDir).
  { unfold write_file in H. destruct p as [|n d]; [discriminate|]. split; [discriminate|].
    destruct (lookup fs (n :: d)) as [[f|]|] eqn:E; try discriminate.
    - split; [eapply (W (n :: d)); eauto|discriminate].
    - split; [|discriminate]. simpl. destruct (lookup fs d) as [[f|]|]; try discriminate. reflexivity. }
  destruct Hpar as [Hne [Hpar Hnd]].
  destruct (write_file_frame _ _ _ _ _ _ _ H) as [[f [Hf _]] Hoth].
  intros q n Hq. destruct (path_eqb q p) eqn:Eq.
  - apply path_eqb_eq in Eq. subst q.
    rewrite Hoth; [exact Hpar|]. destruct p; [congruence|]. simpl. apply cons_neq.
  - apply path_eqb_neq in Eq. rewrite Hoth in Hq by exact Eq. pose proof (W _ _ Hq) as Hp.
    destruct (path_eqb (dirname q) p) eqn:Ed.
    + apply path_eqb_eq in Ed. rewrite Ed in Hp. contradiction.
    + apply path_eqb_neq in Ed. rewrite Hoth by exact Ed. exact Hp.
Qed.

Lemma wf_mkdir_all : forall l fs fs', fs_wf fs -> mkdir_all fs l = inl fs' -> fs_wf fs'.
Proof.
  intros l. induction l as [|d l IH] using rev_ind; intros fs fs' W H.
  - simpl in H. inversion H; subst. exact W.
  - rewrite mkdir_all_app1 in H. destruct (mkdir_all fs l) as [f0|e] eqn:E; [|discriminate]. cbn [mkstep] in H.
    pose proof (IH _ _ W E) as W0.
    assert (Hpar : exists n up, d = n :: up /\ lookup f0 up = Some NDir).
    { unfold mkdir in H. destruct d as [|n up]; [discriminate|]. exists n, up. split; [reflexivity|].
      destruct (lookup f0 (n :: up)); [discriminate|]. destruct (lookup f0 up) as [[f|]|]; try discriminate. reflexivity. }
    destruct Hpar as [n [up [-> Hup]]].
    destruct (mkdir_frame _ _ _ H) as [Hd [Hnone Hoth]].
    intros q x Hq. destruct (path_eqb q (n :: up)) eqn:Eq.
    + apply path_eqb_eq in Eq. subst q. simpl. rewrite Hoth by apply cons_neq. exact Hup.
    + apply path_eqb_neq in Eq. rewrite Hoth in Hq by exact Eq. pose proof (W0 _ _ Hq) as Hp.
      assert (Hne : dirname q <> n :: up) by (intro Ex; rewrite Ex in Hp; congruence).
      rewrite Hoth by exact Hne. exact Hp.
Qed.

(* ------------------------------------------------------------------ *)
(* pruning                                                            *)
(* ------------------------------------------------------------------ *)
Definition dead_dirs (need made : list path) (p : path) : list path :=
  filter (fun d => is_ancestor d p && negb (existsb (is_ancestor d) (del_path p need))) made.

Definition prune_fs (fs : fsT) (need made : list path) (p : path) : fsT :=
  fold_left try_rmdir (deepest_first (dead_dirs need made p)) fs.

Lemma prune_made_fs : forall s p, r_fs (prune_made s p) = prune_fs (r_fs s) (r_need s) (r_made s) p.
Proof. reflexivity. Qed.
Lemma rp_prune_fs : forall r p, rp_fs (rp_prune r p) = prune_fs (rp_fs r) (rp_need r) (rp_made r) p.
Proof. reflexivity. Qed.

Lemma prune_fs_te : forall a b need made p, tree_equiv a b ->
  tree_equiv (prune_fs a need made p) (prune_fs b need made p).
Proof. intros. unfold prune_fs. apply fold_te; [apply try_rmdir_te|assumption]. Qed.

Lemma prune_fs_wf : forall fs need made p, fs_wf fs -> fs_wf (prune_fs fs need made p).
Proof. intros. unfold prune_fs. apply wf_fold_try_rmdir. assumption. Qed.

(* pruning never touches an ancestor of a remaining target *)
Lemma prune_fs_frame : forall fs need made p q,
  (exists n, In n (del_path p need) /\ is_ancestor q n = true) ->
  lookup (prune_fs fs need made p) q = lookup fs q.
Proof.
  intros fs need made p q [n [Hn Ha]]. unfold prune_fs.
  apply (fold_frame try_rmdir try_rmdir_frame). intro Hin.
  apply In_sort_by in Hin. unfold dead_dirs in Hin. apply filter_In in Hin. destruct Hin as [_ Hc].
  apply andb_true_iff in Hc. destruct Hc as [_ Hc]. apply negb_true_iff in Hc.
  assert (existsb (is_ancestor q) (del_path p need) = true) by (apply existsb_exists; eauto).
  congruence.
Qed.

(* pruning only removes directories *)
Lemma prune_fs_char : forall fs need made p q,
  lookup (prune_fs fs need made p) q = lookup fs q \/
  (lookup (prune_fs fs need made p) q = None /\ lookup fs q = Some NDir).
Proof.
  intros fs need made p q. unfold prune_fs. generalize (deepest_first (dead_dirs need made p)) as l.
  intro l. revert fs. induction l as [|a l IH]; intro fs; cbn [fold_left]; [left; reflexivity|].
  destruct (IH (try_rmdir fs a)) as [E|[E1 E2]].
  - rewrite E. destruct (try_rmdir_char fs a q) as [E'|[_ [E1 [E2 _]]]]; [left; exact E'|right; split; assumption].
  - right. split; [exact E1|]. destruct (try_rmdir_char fs a q) as [E'|[_ [E3 _]]]; congruence.
Qed.

Lemma prune_fs_isfile : forall fs need made p q, isfile (prune_fs fs need made p) q = isfile fs q.
Proof.
  intros. unfold isfile. destruct (prune_fs_char fs need made p q) as [E|[E1 E2]]; [rewrite E; reflexivity|].
  rewrite E1, E2. reflexivity.
Qed.

Lemma prune_fs_isdir : forall fs need made p q, isdir (prune_fs fs need made p) q = true -> isdir fs q = true.
Proof.
  intros fs need made p q. unfold isdir. destruct (prune_fs_char fs need made p q) as [E|[E1 E2]]; [rewrite E; auto|].
  rewrite E1. discriminate.
Qed.

Lemma prune_fs_file : forall fs need made p q f,
  lookup (prune_fs fs need made p) q = Some (NFile f) <-> lookup fs q = Some (NFile f).
Proof.
  intros. destruct (prune_fs_char fs need made p q) as [E|[E1 E2]]; [rewrite E; tauto|].
  rewrite E1, E2. split; discriminate.
Qed.
