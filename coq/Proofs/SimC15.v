(* Proofs/SimC15.v — glue SimA/SimB, part 15: the class okc across builds, what is proved.
   (1) okc holds of the empty cache and of every cache without records (SimC0.okc_empty /
       okc_norec); it is decidable (SimC0.okcb, okcb_sound): on a concrete history the caches
       that the builds write can be CHECKED to be in the class (SimCEx).
   (2) The static part: every record that can be looked up in the cache written by a build of the
       mechanism model satisfies SimB7.rec_ok (hk = false, no enclosing target) — and a file
       record's suboperations satisfy it under the record's own target —, when the program
       satisfies, besides the side conditions of SimC12.build_agree_okc, the syntactic conditions
       RkNew (no get_size; targets are not the root; no target above the target of an enclosing
       build_file function; the records of the previous cache that a call INSIDE a build_file
       function can adopt have their targets apart from the enclosing targets):
       [new_cache_rec_ok].  (SimC14.core_run_rk on Core, transferred through Sim3.)
   (3) NOT proved (stated: okc_next_statement): the remaining conditions of the class for the new
       cache — calm (no nested build_file failed: a property of the run, not of the program text),
       the recorded modification times are at most the next build's start clock (needs: no file
       is newer than the clock), nested outputs are registered outputs, targets / keys of a tree
       pairwise different, keys from well-formed arguments.  The cache file is read back
       unchanged up to JSON equality (ViewR8.wf_readback / CacheRT*.v) is a separate matter.   *)
From Coq Require Import List String Ascii NArith ZArith Bool Arith Lia.
From FB.Base Require Import PyVal Fs.
From FB.Gen Require Import JsonUtilGen.
From FB.Spec Require Import JsonSpec Prog Ref Oracle Faithful.
From FB.Model Require Import Types Monad CreatedFiles BuildDirs SimpleOps Builder Persist Build Run Frame Core CoreOracle.
From FB.Proofs Require Import FsLemmas JsonLaws ReplayLaws CleanLaws BuildFileLaws HashMemoInv HashMemoRun CoreLaws1 CoreLaws2 CoreLaws3
     ViewDefs ViewLemmas ViewFrame ViewInit ViewXDefs ViewXQuery ViewXMake1 ViewXMake2 ViewXFail ViewXSetup ViewXRun
     ViewR1 ViewR2 ViewR3 ViewK1 ViewK2 ViewK3 ViewK4 ViewK8
     SimA0 SimARun SimA1 SimA2Base SimA2 SimA3 SimA3Built SimA3Log SimAStart SimAMain
     SimB2 SimB7 SimB11 SimC0 SimC5 SimC9 SimC10 SimC11 SimC12 SimC14.
Import ListNotations.
Open Scope list_scope.

(* ------------------------------------------------------------------ the syntactic conditions, against those of SimAMain *)
(* what RkOk asks beyond AllTargets tgtP / QueriesOk / CmpMeta / NoNest *)
Inductive RkNew (old : cache) : list path -> prog -> Prop :=
| RN_Ret : forall st v, RkNew old st (Ret v)
| RN_Raise : forall st e, RkNew old st (Raise e)
| RN_Ask : forall st s q k, (forall p, q <> QGetSize p) -> (forall o, RkNew old st (k o)) -> RkNew old st (Ask s q k)
| RN_Write : forall st c k, RkNew old st k -> RkNew old st (Write c k)
| RN_BuildFile : forall st s p c f a kw fn k,
    p <> [] -> (forall t, In t st -> ~ psuffix p t) ->
    (forall rec, cache_get_file old p = Some rec ->
       forall x t, In x (flat_map tgts (op_subs rec)) -> In t st -> crossb x t = true) ->
    (forall p' a' k', RkNew old (p :: st) (fn p' a' k')) -> (forall o, RkNew old st (k o)) ->
    RkNew old st (BuildFile s p c f a kw fn k)
| RN_Subbuild : forall st s f a kw fn k,
    (forall sa skw rec, sanitize a = Some sa -> sanitize kw = Some skw ->
       subs_get (c_subs old) (subbuild_key f sa skw) = Some (Some rec) ->
       forall x t, In x (flat_map tgts (op_subs rec)) -> In t st -> crossb x t = true) ->
    (forall a' k', RkNew old st (fn a' k')) -> (forall o, RkNew old st (k o)) ->
    RkNew old st (Subbuild s f a kw fn k).

Lemma RkOk_of_conditions : forall old pr st,
  AllTargets tgtP pr -> QueriesOk pr -> CmpMeta pr -> NoNest st pr -> RkNew old st pr -> RkOk old st pr.
Proof.
  intros old. induction pr as [v | e | stale q k IH | c k IH | stale p c f a kw fn IHfn k IHk | stale f a kw fn IHfn k IHk];
    intros st Hat Hqk Hcm Hnn Hnew.
  - constructor.
  - constructor.
  - inversion Hat as [| |s0 q0 k0 Hat'| | |]; subst. inversion Hqk as [| |s0 q0 k0 Hp Hread Hqk'| | |]; subst.
    inversion Hcm as [| |s0 q0 k0 Hcm'| | |]; subst. inversion Hnn as [| |st0 s0 q0 k0 Hnn'| | |]; subst.
    inversion Hnew as [| |st0 s0 q0 k0 Hgs Hnew'| | |]; subst.
    constructor; [|intro o; apply IH; auto].
    unfold qry_ok. rewrite Hp. cbn [andb]. destruct q as [x|x|x|x|x tf|x|x cm]; try reflexivity.
    + exfalso. apply (Hgs x). reflexivity.
    + rewrite (Hread x cm eq_refl). reflexivity.
  - inversion Hat; subst. inversion Hqk; subst. inversion Hcm; subst. inversion Hnn; subst. inversion Hnew; subst.
    constructor. apply IH; assumption.
  - inversion Hat as [| | | |s0 p0 c1 f0 a0 kw0 fn0 k0 Hp Hatf Hatk|]; subst.
    inversion Hqk as [| | | |s0 p0 c1 f0 a0 kw0 fn0 k0 Hqf Hqkk|]; subst.
    inversion Hcm as [| | | |s0 p0 f0 a0 kw0 fn0 k0 Hcf Hck|]; subst.
    inversion Hnn as [| | | |st0 s0 p0 c1 f0 a0 kw0 fn0 k0 Hnp Hnf Hnk|]; subst.
    inversion Hnew as [| | | |st0 s0 p0 c1 f0 a0 kw0 fn0 k0 Hne Hup Hap Hnewf Hnewk|]; subst.
    constructor.
    + exact Hp.
    + destruct p; [contradiction|reflexivity].
    + apply forallb_forall. intros t Ht. unfold crossb. apply andb_true_iff. split; apply negb_true_iff.
      * apply is_ancestor_false_psuffix. apply Hnp. exact Ht.
      * apply is_ancestor_false_psuffix. apply Hup. exact Ht.
    + exact Hap.
    + intros p' a' k'. apply IHfn; auto.
    + intro o. apply IHk; auto.
  - inversion Hat as [| | | | |s0 f0 a0 kw0 fn0 k0 Hatf Hatk]; subst.
    inversion Hqk as [| | | | |s0 f0 a0 kw0 fn0 k0 Hqf Hqkk]; subst.
    inversion Hcm as [| | | | |s0 f0 a0 kw0 fn0 k0 Hcf Hck]; subst.
    inversion Hnn as [| | | | |st0 s0 f0 a0 kw0 fn0 k0 Hnf Hnk]; subst.
    inversion Hnew as [| | | | |st0 s0 f0 a0 kw0 fn0 k0 Hap Hnewf Hnewk]; subst.
    constructor; [exact Hap|intros a' k'; apply IHfn; auto|intro o; apply IHk; auto].
Qed.

(* at top level nothing encloses a call: for programs whose build_file functions make no nested
   calls the condition about adopted records is void; in general it relates the program to the
   previous cache like TargetsClear / TargetsApart do *)

(* ------------------------------------------------------------------ the two runs of a build, with the relation at the end *)
Lemma build_run_okc : forall w cachefile old nm svers root w1 w2 r l,
  okc (w_clock w) old -> fs_wf (w_fs w) -> old_ok old cachefile -> WfCache old -> old_keys_ok old -> w_faults w = [] ->
  path_ok (dirname cachefile) = true -> isdir (w_fs w) cachefile = false -> maxlen (w_fs w) < walk_fuel ->
  vdir (Build.start_world w cachefile old nm svers) (dirname cachefile) = true ->
  AllTargets tgtP root -> NoNest [] root -> QueriesOk root -> WfArgs root -> CmpMeta root ->
  TargetsClear old root -> TargetsApart old root ->
  make_dirs (dirname cachefile) (Build.start_world w cachefile old nm svers) = (w1, inl []) ->
  run root None [] (set_log (LInvoke "<root>"%string None PNone PNone :: w_log w1) w1) = (w2, (r, l)) ->
  let lg := LInvoke "<root>"%string None PNone PNone :: w_log w1 in
  let s0 := ViewK4.core_start (w_fs w) cachefile old svers (w_clock w) (w_nextid w) lg in
  exists s1 pd sb T' W',
    core_run root None None [] s0 = (s1, (r, pd, sb)) /\ Sim5 (w_clock w) T' W' w2 s1.
Proof.
  intros w cachefile old nm svers root w1 w2 r l Hokc Hwf Hok HW HKo HF Hp Hnc Hml Hd Hat Hnn Hqk Hwa Hcm Hcl Hap Emk Erun lg s0.
  destruct (sim4_start w cachefile old nm svers Hwf Hok HW HKo HF Hp Hnc Hml Hd) as (w1b & Eb & HS0 & HC0 & Hold0).
  assert (w1b = w1) by congruence. subst w1b. clear Eb. cbv zeta in HS0, HC0, Hold0. fold lg in HS0, HC0, Hold0. fold s0 in HS0.
  destruct (core_run root None None [] s0) as [s1 [[res pd] sb]] eqn:Ecore.
  assert (HE0: Extra (w_clock w) [] (set_log lg w1) s0).
  { constructor.
    - intros p Hp0. discriminate.
    - cbn [w_clock set_log]. apply (make_dirs_tq _ _ _ _ Emk).
    - apply N.le_refl.
    - intros p f Hp0. discriminate.
    - intros p f Hp0. discriminate. }
  assert (HP0: PendClock (w_clock w) None s0) by (intro K; contradiction).
  destruct (sim5_run (w_clock w) root old Hokc Hat Hqk Hwa Hcm Hcl Hap [] Hnn None None [] [] [] []
              (set_log lg w1) s0 w2 r l s1 res pd sb Hold0 (conj HS0 HE0) HC0 HP0 I Erun Ecore)
    as (T' & W' & A1 & A2 & A3 & A4 & _).
  exists s1, pd, sb, T', W'. split; [rewrite A4; reflexivity|exact A1].
Qed.

Lemma kf_get_in : forall l p o, kf_get l p = Some o -> In (p, o) l.
Proof.
  induction l as [|[q x] l IH]; intros p o H; cbn [kf_get] in H; [discriminate|].
  destruct (path_eqb q p) eqn:E; [apply path_eqb_eq in E; subst q; inversion H; subst; left; reflexivity|right; apply IH; exact H].
Qed.

Lemma ks_get_in : forall l k o, ks_get l k = Some o -> exists q, In (q, o) l.
Proof.
  induction l as [|[q x] l IH]; intros k o H; cbn [ks_get] in H; [discriminate|].
  destruct (py_eq q k); [inversion H; subst; exists q; left; reflexivity|].
  destruct (IH k o H) as [q' K]. exists q'. right. exact K.
Qed.

(* ------------------------------------------------------------------ (2) the records of the new cache *)
Theorem new_cache_rec_ok : forall w cachefile old nm svers root w1 w2 r l,
  okc (w_clock w) old -> fs_wf (w_fs w) -> old_ok old cachefile -> WfCache old -> old_keys_ok old -> w_faults w = [] ->
  path_ok (dirname cachefile) = true -> isdir (w_fs w) cachefile = false -> maxlen (w_fs w) < walk_fuel ->
  vdir (Build.start_world w cachefile old nm svers) (dirname cachefile) = true ->
  AllTargets tgtP root -> NoNest [] root -> QueriesOk root -> WfArgs root -> CmpMeta root ->
  TargetsClear old root -> TargetsApart old root ->
  RkNew old [] root ->
  make_dirs (dirname cachefile) (Build.start_world w cachefile old nm svers) = (w1, inl []) ->
  run root None [] (set_log (LInvoke "<root>"%string None PNone PNone :: w_log w1) w1) = (w2, (r, l)) ->
  (forall p o, cache_get_file (w_new w2) p = Some o -> rec_ok false [] o = true) /\
  (forall k o, subs_get (c_subs (w_new w2)) k = Some (Some o) -> rec_ok false [] o = true) /\
  (* in the form of the class: the suboperations of a file record, under the record's own target *)
  (forall p p' c' f' a' k' subs' r' cr' ra' sf', cache_get_file (w_new w2) p = Some (OBuildFile p' c' f' a' k' subs' r' cr' ra' sf') ->
     forallb (rec_ok false [p']) subs' = true).
Proof.
  intros w cachefile old nm svers root w1 w2 r l Hokc Hwf Hok HW HKo HF Hp Hnc Hml Hd Hat Hnn Hqk Hwa Hcm Hcl Hap Hnew Emk Erun.
  destruct (build_run_okc w cachefile old nm svers root w1 w2 r l Hokc Hwf Hok HW HKo HF Hp Hnc Hml Hd Hat Hnn Hqk Hwa Hcm Hcl Hap Emk Erun)
    as (s1 & pd & sb & T' & W' & Ecore & [HS _]).
  pose proof (Sim4_sim3 _ _ _ _ HS) as HS3.
  pose proof (RkOk_of_conditions old root [] Hat Hqk Hcm Hnn Hnew) as Hrk.
  set (s0 := ViewK4.core_start (w_fs w) cachefile old svers (w_clock w) (w_nextid w) (LInvoke "<root>"%string None PNone PNone :: w_log w1)) in *.
  assert (HT0: KTab s0) by (split; intros q x []).
  destruct (core_run_rk old (okc_ClassRk _ _ Hokc) root [] Hrk None None [] s0 s1 r pd sb (eq_refl : k_old s0 = old) HT0 eq_refl Ecore) as ([T1 T2] & _ & _).
  assert (A: forall p o, cache_get_file (w_new w2) p = Some o -> rec_ok false [] o = true).
  { intros p o Hg. pose proof (s3_recF _ _ _ HS3 p) as K. rewrite Hg in K.
    destruct (kf_get (k_newF s1) p) as [o'|] eqn:E; [|contradiction].
    rewrite <- (rec_rel_rec_ok false o o' [] K). apply (T1 p o'). apply kf_get_in. exact E. }
  split; [exact A|]. split.
  - intros k o Hg. pose proof (s3_recS _ _ _ HS3 k) as K. rewrite Hg in K.
    destruct (ks_get (k_newS s1) k) as [o'|] eqn:E; [|contradiction].
    rewrite <- (rec_rel_rec_ok false o o' [] K). destruct (ks_get_in _ _ _ E) as [q Hq]. apply (T2 q o' Hq).
  - intros p p' c' f' a' k' subs' r' cr' ra' sf' Hg. pose proof (A _ _ Hg) as K. cbn [rec_ok] in K.
    apply andb_true_iff in K. destruct K as [_ K]. exact K.
Qed.

Print Assumptions new_cache_rec_ok.

(* ------------------------------------------------------------------ (3) what remains of the class *)
(* [c1]: the clock when the next build starts *)
Definition okc_next_statement : Prop :=
  forall w cachefile old nm svers root w1 w2 r l c1,
    okc (w_clock w) old -> fs_wf (w_fs w) -> old_ok old cachefile -> WfCache old -> old_keys_ok old -> w_faults w = [] ->
    path_ok (dirname cachefile) = true -> isdir (w_fs w) cachefile = false -> maxlen (w_fs w) < walk_fuel ->
    vdir (Build.start_world w cachefile old nm svers) (dirname cachefile) = true ->
    AllTargets tgtP root -> NoNest [] root -> QueriesOk root -> WfArgs root -> CmpMeta root ->
    TargetsClear old root -> TargetsApart old root -> RkNew old [] root ->
    (* no file of the pre-state is newer than the clock, the next build starts later *)
    (forall p f, lookup (w_fs w) p = Some (NFile f) -> (f_mtime f <= w_clock w)%N) -> (w_clock w2 <= c1)%N ->
    (* no nested build_file call of this build failed *)
    (forall p o, cache_get_file (w_new w2) p = Some o -> forallb calm (op_subs o) = true) ->
    (forall k o, subs_get (c_subs (w_new w2)) k = Some (Some o) -> forallb calm (op_subs o) = true) ->
    make_dirs (dirname cachefile) (Build.start_world w cachefile old nm svers) = (w1, inl []) ->
    run root None [] (set_log (LInvoke "<root>"%string None PNone PNone :: w_log w1) w1) = (w2, (r, l)) ->
    okc c1 (w_new w2).
