(* Proofs/CommitDirs2FileMain.v -- after a committed build, every path the build built and
   whose record is not marked raised is a regular file, and the comparison result in its
   record (in the cache that was written) is [cmp_of] of the node that is there:
   [built_files_recorded].  Any previous cache; side conditions of commit_leaves.
   The node is the one that was there when the path's build_file call returned (the
   invariant XW of CommitDirs2File.v is kept by every later step), i.e. what the last
   Write of its function left: [write_then_node] / [run_target_node] at the end of this
   file relate that node to the Writes of the function.
   New file of round 3; edits nothing. *)
From Coq Require Import List String Ascii NArith ZArith Bool Arith Lia Sorted.
From FB.Base Require Import PyVal Fs.
From FB.Gen Require Import JsonUtilGen.
From FB.Spec Require Import Prog Ref Oracle.
From FB.Model Require Import Types Monad CreatedFiles BuildDirs SimpleOps Builder Persist Build Run Frame Core.
From FB.Proofs Require Import CmpLaws HashMemoInv HashMemoRun.
From FB.Proofs Require Import FsLemmas ReplayLaws FrameLaws CleanLaws BuildFileLaws RollbackDirsLaws
  RollbackDirsView RollbackDirsBase RollbackDirsInv RollbackDirsMake RollbackDirsRun
  RollbackDirsMain CommitDirsInv CommitDirsRun CommitDirsMain CommitDirs2File.
Import ListNotations.
Local Open Scope list_scope.

Lemma old_cache_keys_ok : forall fs cf nm svers, old_keys_ok (old_cache_of fs cf nm svers).
Proof.
  intros fs cf nm svers. unfold old_cache_of.
  destruct (lookup fs cf) as [[g|]|]; try apply old_keys_ok_empty.
  destruct (cache_of_json (f_json g)) as [old0| |] eqn:E; try apply old_keys_ok_empty.
  exact (read_keys_ok _ _ E).
Qed.

Section Accept3.

Variable fs0 : fsT.
Variable old : cache.
Variable cf : path.
Variable P : path -> Prop.

Hypothesis HypA : forall a t, Tgt old cf P t -> below a t = true -> ~ P a.
Hypothesis HS : forall a t, Tgt old cf P t -> below a t = true -> notorig fs0 a.
Hypothesis Hwf0 : fs_wf fs0.
Hypothesis HE : forall d, In d (c_dirs old) -> path_ok d = true.
Hypothesis Hkeys : old_keys_ok old.

Lemma accept_files_recorded : forall nm svers pr w w' v,
  fs0 = w_fs w -> w_faults w = [] -> AllTargets P pr ->
  m_accept cf nm svers (fun w0 => run pr None [] w0) w old = (w', Done (inl v)) ->
  forall p o, cache_get_file (w_new w') p = Some o -> In p (c_built (w_new w')) -> op_raised o = false ->
    exists g, lookup (w_fs w') p = Some (NFile g) /\ CmpOK o g.
Proof.
  intros nm svers pr w w' v Hfs Hf Hat H. unfold m_accept in H. cbv zeta in H.
  pose proof (RInv_start fs0 old cf P w nm svers Hfs Hf) as Hr0.
  pose proof (DInv_start fs0 old cf P Hwf0 w nm svers Hfs) as HD0.
  pose proof (EInv_start fs0 old cf P w nm svers) as He0.
  assert (T0 : forall u, tcond None u) by (intros u q Y; discriminate Y).
  assert (G0 : forall u, gcond None u) by (intros u q Y; discriminate Y).
  assert (Tcf : Tgt old cf P cf) by (right; left; reflexivity).
  destruct (make_dirs (dirname cf) (start_world w cf old nm svers)) as [w1 [ccd|e1]] eqn:E1.
  2:{ destruct (roll_back [] w1) as [wr [u|e']]; discriminate H. }
  destruct (make_dirs_T fs0 old cf P HypA None cf Tcf _ _ _ E1 Hr0 (T0 _)) as [Hr1 _].
  pose proof (make_dirs_D fs0 old cf P HypA [] _ _ _ _ E1 Hr0 HD0
                (fun d Hne Hd => AncT_of_target old cf P cf d Tcf Hne Hd)) as R. cbn beta iota in R.
  destruct R as (made & A1 & A2 & A3 & A4 & A5).
  assert (HD1 : DInv fs0 old cf P ccd w1).
  { apply (DInv_X fs0 old cf P (made ++ []) ccd w1 A1).
    - intros d Hd. left. apply A3. rewrite app_nil_r in Hd. exact Hd.
    - intros d Hd. exact (proj1 (A4 d Hd)). }
  pose proof (make_dirs_ekeep fs0 old cf P HypA HS cf _ _ _ E1 Tcf Hr0) as Ek1.
  destruct (ekeep_E fs0 old cf P _ _ Ek1 He0) as [He1 _].
  destruct Ek1 as (K1 & K2 & _).
  set (w1' := set_log (LInvoke "<root>" None PNone PNone :: w_log w1) w1) in *.
  match type of H with (let '(_, _) := ?Z in _) = _ => destruct Z as [w2 [res x]] eqn:E2 end.
  destruct res as [v0|e2]; [|destruct (roll_back ccd w2) as [wr [u|e']]; discriminate H].
  destruct (GRel_set_log fs0 old cf P ccd None (LInvoke "<root>" None PNone PNone :: w_log w1) w1 (conj Hr1 HD1) He1 (T0 _) (G0 _))
    as (F1' & _ & E1' & _). fold w1' in F1', E1'.
  (* the memo invariant and the new invariant when the root function starts *)
  destruct (build_user_code_HInv cf old nm svers w pr w1 ccd w2 _ Hkeys E1 E2) as [Hi1 _].
  assert (Hi1' : HInv w1') by (apply HInv_set_log; exact Hi1).
  assert (Hk1' : old_keys_ok (w_old w1')).
  { cbn [w_old set_log w1']. destruct Hr1 as (_ & B & _). rewrite B. exact Hkeys. }
  assert (HW1' : XW w1').
  { intros p o Ho Hb _. exfalso. cbn [w_new set_log w1'] in Hb. rewrite K2 in Hb. cbn in Hb. exact Hb. }
  assert (Tsa : TSA None w1') by (intros t Et; discriminate Et).
  pose proof (run_W fs0 old cf P ccd HypA HS pr Hat None [] w1' w2 _ F1' E1' (T0 _) (G0 _) Hi1' Hk1' Tsa HW1' E2) as HW2.
  destruct (run_G fs0 old cf P ccd HypA HS pr Hat None [] _ _ _ E2 F1' E1' (T0 _) (G0 _)) as (F2 & _ & He2 & _).
  destruct F2 as [Hr2 HD2].
  destruct (bd_pre cf ccd w2) as [w3 [err|e3]] eqn:E3; [|destruct (roll_back ccd w3) as [wr [u|e']]; discriminate H].
  destruct (write_cache w3) as [w4 [u4|e4]] eqn:E4.
  2:{ destruct (try_to_remove_file cf w4) as [w5 r5]. destruct (roll_back ccd w5) as [wr [u|e']]; discriminate H. }
  destruct (commit err w4) as [w5 [u5|e5]] eqn:E5; [|discriminate H].
  inversion H; subst w5 v0; clear H.
  pose proof Hr2 as (Hf2 & Bo2 & Cc2 & _ & _ & _ & _ & I5 & _ & _).
  destruct (bd_pre_spec _ _ _ _ _ E3 Hf2) as (Eerr & N3 & B3 & Hf3 & O3 & C3 & Fr3 & Wf3 & Dcf3).
  destruct (write_cache_spec _ _ _ E4 Hf3) as (j & fj & Ej & Lcf & Jf & Fr4 & N4 & B4 & Hf4 & O4 & C4 & Wf4 & Ncf).
  rewrite C3, Cc2 in Lcf, Fr4, Ncf.
  set (newc := new_cache_of ccd w2) in *.
  assert (NP : forall q, ~ pending (w_new w4) q).
  { intro q. rewrite N4. eapply cache_to_json_no_pending; eauto. }
  assert (Cc4 : w_cachefile w4 = cf) by congruence.
  assert (Bo4 : w_old w4 = old) by congruence.
  rewrite commit_unfold in E5. rewrite Bo4 in E5.
  apply bind_inv in E5. destruct E5 as [(wa & ua & Ea & E5) | (e & Ea & _)].
  2:{ destruct (rm_old_loop _ _ _ _ Ea Hf4 NP) as (Y & _). discriminate Y. }
  destruct (rm_old_loop _ _ _ _ Ea Hf4 NP) as (_ & Hfa & Na & Oa & Ca & Ba & Fra & Rma).
  apply bind_inv in E5. destruct E5 as [(wb & extra2 & Eb & E5) | (e & Eb & _)].
  2:{ destruct (vdirs_absent_spec _ _ _ _ Eb HE) as (x0 & Y & _). discriminate Y. }
  destruct (vdirs_absent_spec _ _ _ _ Eb HE) as (x0 & Y & Vb & Xb). inversion Y; subst x0; clear Y.
  destruct Vb as ((Fb1 & _ & _ & _ & Fb5 & _ & _ & _ & _ & Fb10 & _) & _).
  assert (Hfb : w_faults wb = []) by congruence.
  destruct (remove_empty_dirs_spec _ _ _ _ E5 Hfb) as (_ & _ & Bc & Rc3 & Rc4 & _).
  pose proof (remove_empty_dirs_new _ _ _ _ E5) as (Nc & _ & _).
  assert (Nfin : w_new w' = newc) by congruence.
  assert (Hro : forall q, removed_old w4 q <-> q <> cf /\ cache_has_file newc q = false /\ cache_created_file old q = true).
  { intro q. unfold removed_old. rewrite Cc4, N4, N3, Bo4. tauto. }
  assert (L24 : forall q, q <> cf -> lookup (w_fs w4) q = lookup (w_fs w2) q).
  { intros q Nq. rewrite (Fr4 q Nq). apply Fr3. exact Nq. }
  assert (Fup : forall q g, q <> cf -> lookup (w_fs w2) q = Some (NFile g) ->
            ~ (cache_has_file newc q = false /\ cache_created_file old q = true) -> lookup (w_fs w') q = Some (NFile g)).
  { intros q g Nq Hq Hnr. rewrite <- (L24 q Nq) in Hq.
    assert (Y : lookup (w_fs wa) q = Some (NFile g)).
    { destruct (Fra q) as [Z|(g' & _ & _ & Z)]; [congruence|]. exfalso. apply Hnr. apply Hro in Z. tauto. }
    rewrite <- Fb1 in Y. destruct (Rc3 q) as [Z|(_ & Z & _)]; congruence. }
  intros p o Ho Hb Hra. rewrite Nfin in Ho, Hb.
  change (cache_get_file newc p) with (cache_get_file (w_new w2) p) in Ho.
  change (c_built newc) with (c_built (w_new w2)) in Hb.
  destruct (HW2 p o Ho Hb Hra) as (g & Hg & Hc). exists g. split; [|exact Hc].
  destruct (I5 p Hb) as (Hh & _ & Npcf).
  apply (Fup p g Npcf Hg). intros [Z _].
  change (cache_has_file newc p) with (cache_has_file (w_new w2) p) in Z. congruence.
Qed.

End Accept3.

(* C03/C10, files half: what the committed build built *)
Theorem built_files_recorded : forall cf nm vers svers root w w' v (P : path -> Prop),
  w_faults w = [] ->
  sanitize vers = Some svers ->
  AllTargets P root ->
  (* C *)
  fs_wf (w_fs w) ->
  (* A *)
  (forall a t, (P t \/ t = cf \/ In t (cache_targets (old_cache_of (w_fs w) cf nm svers))) ->
     below a t = true -> (forall f, lookup (w_fs w) a <> Some (NFile f)) /\ ~ P a) ->
  (* E *)
  (forall d, In d (c_dirs (old_cache_of (w_fs w) cf nm svers)) -> path_ok d = true) ->
  run_build cf nm vers root w = (w', Done (inl v)) ->
  forall p o, cache_get_file (w_new w') p = Some o -> In p (c_built (w_new w')) -> op_raised o = false ->
    exists g, lookup (w_fs w') p = Some (NFile g) /\ CmpOK o g.
Proof.
  intros cf nm vers svers root w w' v P Hf Hsv Hat Hwf HA HE H.
  set (old := old_cache_of (w_fs w) cf nm svers) in *.
  unfold run_build in H.
  destruct (m_build cf nm vers (fun w0 => run root None [] w0) w) as [w1 r1] eqn:E.
  inversion H; subst w' r1; clear H.
  assert (HA2 : forall a t, Tgt old cf P t -> below a t = true -> ~ P a) by (intros a t Ht Hb; exact (proj2 (HA a t Ht Hb))).
  assert (HS : forall a t, Tgt old cf P t -> below a t = true -> notorig (w_fs w) a) by (intros a t Ht Hb; exact (proj1 (HA a t Ht Hb))).
  assert (Hkeys : old_keys_ok old) by (apply old_cache_keys_ok).
  assert (G : forall old0, old0 = old -> m_accept cf nm svers (fun w0 => run root None [] w0) w old0 = (w1, Done (inl v)) ->
              forall p o, cache_get_file (w_new (end_build w1)) p = Some o -> In p (c_built (w_new (end_build w1))) ->
                op_raised o = false -> exists g, lookup (w_fs (end_build w1)) p = Some (NFile g) /\ CmpOK o g).
  { intros old0 -> Y.
    exact (accept_files_recorded (w_fs w) old cf P HA2 HS Hwf HE Hkeys nm svers root w w1 v eq_refl Hf Hat Y). }
  rewrite m_build_unfold, Hsv in E. subst old. unfold old_cache_of in G |- *.
  destruct (lookup (w_fs w) cf) as [[g|]|].
  - destruct (cache_of_json (f_json g)) as [old0| |]; try discriminate E.
    destruct (String.eqb (c_name old0) nm); [|discriminate E]. exact (G old0 eq_refl E).
  - discriminate E.
  - exact (G _ eq_refl E).
Qed.

Print Assumptions built_files_recorded.
