(* Proofs/SimJ11.v — HASH records across builds, part 1 (SimC14 with hk = true): the records that
   Core's run produces satisfy SimB7.rec_ok true, under syntactic conditions RkOkH on the program
   that put NO restriction on comparison modes (SimC14.RkOk asks METADATA for every build_file
   call and every read), for a previous cache of the class SimJ4.okcH.                        *)
From Coq Require Import List String Ascii NArith ZArith Bool Arith Lia.
From FB.Base Require Import PyVal Fs.
From FB.Gen Require Import JsonUtilGen.
From FB.Spec Require Import JsonSpec Prog Ref Oracle Faithful.
From FB.Model Require Import Types Monad CreatedFiles BuildDirs SimpleOps Builder Persist Build Run Frame Core CoreOracle.
From FB.Proofs Require Import FsLemmas JsonLaws ReplayLaws BuildFileLaws CoreLaws1 CoreLaws2 CoreLaws3 CoreLaws4 CoreNextRegs
     ViewDefs ViewLemmas ViewH4 ViewH6 ViewR2 ViewR3 ViewK3 ViewK4 ViewK8
     SimA0 SimB2 SimB7 SimC0 SimC5 SimC14 SimJ4.
Import ListNotations.
Open Scope list_scope.

Lemma bf_rec_okH : forall st p c f sa skw subs rt g, tgt_ok p = true -> nonroot p = true -> forallb (crossb p) st = true ->
  forallb (rec_ok true (p :: st)) subs = true ->
  rec_ok true st (OBuildFile p c f sa skw subs rt (cmp_of c g) false false) = true.
Proof.
  intros st p c f sa skw subs rt g H1 H2 H3 H4. cbn [rec_ok orb].
  assert (A: pnone (cmp_of c g) = false) by (destruct c; reflexivity).
  assert (B: cmp_okb true c = true) by (destruct c; reflexivity).
  rewrite A, B, H1, H2. cbn [negb andb].
  change (forallb (fun t => negb (is_ancestor t p) && negb (is_ancestor p t)) st) with (forallb (crossb p) st).
  rewrite H3. exact H4.
Qed.

(* ------------------------------------------------------------------ the syntactic conditions *)
Inductive RkOkH (old : cache) : list path -> prog -> Prop :=
| ROH_Ret : forall st v, RkOkH old st (Ret v)
| ROH_Raise : forall st e, RkOkH old st (Raise e)
| ROH_Ask : forall st s q k, qry_ok true q = true -> (forall o, RkOkH old st (k o)) -> RkOkH old st (Ask s q k)
| ROH_Write : forall st c k, RkOkH old st k -> RkOkH old st (Write c k)
| ROH_BuildFile : forall st s p c f a kw fn k,
    tgt_ok p = true -> nonroot p = true -> forallb (crossb p) st = true ->
    (forall rec, cache_get_file old p = Some rec ->
       forall x t, In x (flat_map tgts (op_subs rec)) -> In t st -> crossb x t = true) ->
    (forall p' a' k', RkOkH old (p :: st) (fn p' a' k')) -> (forall o, RkOkH old st (k o)) ->
    RkOkH old st (BuildFile s p c f a kw fn k)
| ROH_Subbuild : forall st s f a kw fn k,
    (forall sa skw rec, sanitize a = Some sa -> sanitize kw = Some skw ->
       subs_get (c_subs old) (subbuild_key f sa skw) = Some (Some rec) ->
       forall x t, In x (flat_map tgts (op_subs rec)) -> In t st -> crossb x t = true) ->
    (forall a' k', RkOkH old st (fn a' k')) -> (forall o, RkOkH old st (k o)) ->
    RkOkH old st (Subbuild s f a kw fn k).

(* the servable records of the previous cache *)
Definition ClassRkH (old : cache) : Prop :=
  (forall p p' c' f' a' k' subs' r' cr' sf', cache_get_file old p = Some (OBuildFile p' c' f' a' k' subs' r' cr' false sf') ->
     forallb (rec_ok true [p]) subs' = true) /\
  (forall k f' a' k' subs' r' sf', subs_get (c_subs old) k = Some (Some (OSubbuild f' a' k' subs' r' false sf')) ->
     forallb (rec_ok true []) subs' = true).

Lemma okcH_ClassRkH : forall c0 old, okcH c0 old -> ClassRkH old.
Proof.
  intros c0 old [H1 H2]. split.
  - intros p p' c' f' a' k' subs' r' cr' sf' Eg. pose proof (H1 _ _ Eg) as K. cbn [frec_staticH orb] in K.
    apply andb_true_iff in K. destruct K as [_ K]. apply andb_true_iff in K. destruct K as [_ K].
    unfold subs_staticH in K. repeat (apply andb_true_iff in K; destruct K as [K ?]). exact K.
  - intros k f' a' k' subs' r' sf' Eg. destruct (H2 _ _ Eg) as (q & _ & K). cbn [srec_staticH orb] in K.
    do 6 (apply andb_true_iff in K; destruct K as [K ?]).
    unfold subs_staticH in K. repeat (apply andb_true_iff in K; destruct K as [K ?]). exact K.
Qed.

(* ------------------------------------------------------------------ Core's tables *)
Definition KTabH (s : kstate) : Prop :=
  (forall p o, In (p, o) (k_newF s) -> rec_ok true [] o = true) /\
  (forall k o, In (k, o) (k_newS s) -> rec_ok true [] o = true).

Lemma forallb_app_opH : forall st subs o, forallb (rec_ok true st) subs = true ->
  (forall x, o = Some x -> rec_ok true st x = true) -> forallb (rec_ok true st) (Core.app_op subs o) = true.
Proof.
  intros st subs [x|] Hs Ho; cbn [Core.app_op]; [|exact Hs]. rewrite forallb_app, Hs. cbn. rewrite (Ho x eq_refl). reflexivity.
Qed.

Section CoreRk.
  Variable old : cache.
  Hypothesis Hclass : ClassRkH old.

  Definition kbody_okH (st : list path) (b : kbody) : Prop :=
    forall s s' res pend l, k_old s = old -> KTabH s -> b s = (s', (res, pend, l)) ->
      KTabH s' /\ forallb (rec_ok true st) l = true /\ k_old s' = old.

  Lemma sf_rec_okH : forall st p c f sa skw, tgt_ok p = true -> nonroot p = true -> forallb (crossb p) st = true ->
    rec_ok true st (OBuildFile p c f sa skw [] PNone PNone true true) = true.
  Proof. intros st p c f sa skw H1 H2 H3. cbn [rec_ok orb forallb]. rewrite H1, H2. cbn [andb]. rewrite andb_true_r. exact H3. Qed.

  Lemma core_bf_node_rkH : forall st p c f a kw body s s1 r o,
    tgt_ok p = true -> nonroot p = true -> forallb (crossb p) st = true ->
    (forall rec, cache_get_file old p = Some rec ->
       forall x t, In x (flat_map tgts (op_subs rec)) -> In t st -> crossb x t = true) ->
    (forall sa skw, kbody_okH (p :: st) (body sa skw)) ->
    k_old s = old -> KTabH s ->
    core_bf_node p c f a kw body s = (s1, (r, o)) ->
    KTabH s1 /\ (forall x, o = Some x -> rec_ok true st x = true) /\ k_old s1 = old.
  Proof.
    intros st p c f a kw body s s1 r o Htg Hnr Hcr Hap Hbody Hold HT H. unfold core_bf_node in H.
    destruct (sanitize a) as [sa|]; [|inversion H; subst; split; [exact HT|split; [discriminate|exact Hold]]].
    destruct (sanitize kw) as [skw|]; [|inversion H; subst; split; [exact HT|split; [discriminate|exact Hold]]].
    cbv zeta in H.
    destruct (claim_check (k_claimedF s) (k_cachefile s) p) as [e|].
    { inversion H; subst. split; [exact HT|]. split; [|exact Hold]. intros x Hx. inversion Hx; subst. apply sf_rec_okH; assumption. }
    destruct (setup_fs (k_fs s) (k_cachefile s) p) as [[fs1 dirs]|e].
    2:{ inversion H; subst. split; [exact HT|]. split; [|exact Hold]. intros x Hx. inversion Hx; subst. apply sf_rec_okH; assumption. }
    set (s0 := core_s0 s p fs1 dirs) in *.
    destruct (core_hit s s0 p f sa skw) as [[[[fn subs'] ret'] rr]|] eqn:Eh.
    - (* a hit *)
      inversion H; subst s1 r o. clear H.
      assert (Hsubs: forallb (rec_ok true (p :: st)) subs' = true).
      { unfold core_hit in Eh. rewrite Hold in Eh.
        destruct (cache_get_file old p) as [[q0 r0 e0|p' c' f' a' k' sb' rt' cr' ra' sf'|f0 a0 k0 sb0 r0 ra0 sf0]|] eqn:Eg; try discriminate.
        destruct ra'; [discriminate|]. destruct (negb (String.eqb f' f)); [discriminate|].
        destruct (negb (kversion_equal s f)); [discriminate|].
        destruct (negb (is_equal a' sa) || negb (is_equal k' skw)); [discriminate|].
        destruct (phys (k_fs s0) (k_stale s0) p) as [g|]; [|discriminate].
        destruct (negb (is_equal cr' (cmp_of c' g))); [discriminate|].
        destruct (kreplay_list s0 sb' (start_replay s0)) as [r1|]; [|discriminate].
        inversion Eh; subst g subs' ret' rr.
        pose proof (proj1 Hclass p p' c' f' a' k' sb' rt' cr' sf' Eg) as K.
        rewrite forallb_forall in K. apply forallb_forall. intros x Hx. apply (rec_ok_extend true x [p] (p :: st) (K x Hx)).
        intros t [<-|Ht]; [left; left; reflexivity|right]. intros a0 Ha.
        apply (Hap _ eq_refl a0 t); [|exact Ht]. cbn [op_subs]. apply in_flat_map. exists x. split; assumption. }
      set (o := OBuildFile p c f sa skw subs' ret' (cmp_of c fn) false false).
      assert (Ho: rec_ok true st o = true).
      { unfold o. apply bf_rec_okH; assumption. }
      destruct (rec_ok_regs true o st Ho) as [R1 R2].
      split; [|split; [intros x Hx; inversion Hx; subst; exact Ho|exact Hold]].
      destruct HT as [T1 T2]. split.
      + intros q x Hin. change (k_newF (core_put (adopt s0 rr o) p fn)) with (k_newF s ++ fst (tree_regs o)) in Hin.
        apply in_app_iff in Hin. destruct Hin as [Hin|Hin]; [apply (T1 q x Hin)|apply (R1 q x Hin)].
      + intros q x Hin. change (k_newS (core_put (adopt s0 rr o) p fn)) with (k_newS s ++ snd (tree_regs o)) in Hin.
        apply in_app_iff in Hin. destruct Hin as [Hin|Hin]; [apply (T2 q x Hin)|apply (R2 q x Hin)].
    - (* the function runs *)
      destruct (body sa skw (CoreLaws3.core_start s0 p f sa skw)) as [s2 [[res pend2] bsubs]] eqn:Eb.
      destruct (core_finish s2 p c f sa skw bsubs res pend2) as [[s3 out] o3] eqn:Ef.
      inversion H; subst s1 r o. clear H.
      destruct (Hbody sa skw (CoreLaws3.core_start s0 p f sa skw) s2 res pend2 bsubs Hold HT Eb) as (HT2 & Hb & Hold2).
      assert (Hfail: rec_ok true st (OBuildFile p c f sa skw bsubs PNone PNone true false) = true).
      { cbn [rec_ok orb]. rewrite Htg, Hnr. cbn [andb].
        change (forallb (fun t => negb (is_ancestor t p) && negb (is_ancestor p t)) st) with (forallb (crossb p) st).
        rewrite Hcr. cbn [andb]. exact Hb. }
      assert (Hprune: forall oo, rec_ok true st oo = true ->
                KTabH (core_prune s2 p oo) /\ k_old (core_prune s2 p oo) = old).
      { intros oo Hoo. split; [|exact Hold2]. destruct HT2 as [T1 T2]. split.
        - intros q x Hin. cbn [core_prune ks_with k_newF] in Hin. apply in_app_iff in Hin.
          destruct Hin as [Hin|[Hin|[]]]; [apply (T1 q x Hin)|]. inversion Hin; subst.
          apply (rec_ok_weaken true _ st []); [intros t []|exact Hoo].
        - exact T2. }
      unfold core_finish in Ef. cbv zeta in Ef.
      assert (Hf: forall e0, (core_prune s2 p (OBuildFile p c f sa skw bsubs PNone PNone true false), @inr pyval exn e0,
                              OBuildFile p c f sa skw bsubs PNone PNone true false) = (s3, out, o3) ->
                  KTabH s3 /\ (forall x, Some o3 = Some x -> rec_ok true st x = true) /\ k_old s3 = old).
      { intros e0 E. inversion E; subst. destruct (Hprune _ Hfail) as [A B]. split; [exact A|]. split; [|exact B].
        intros x Hx. inversion Hx; subst. exact Hfail. }
      destruct res as [v|e]; [|apply (Hf _ Ef)].
      destruct (sanitize v) as [sv|]; [|apply (Hf _ Ef)].
      destruct pend2 as [bytes|]; [|apply (Hf _ Ef)].
      destruct (write_file (k_fs s2) p bytes None (k_clock s2) (k_nextid s2)) as [fs3|e] eqn:Ew; [|apply (Hf _ Ef)].
      inversion Ef; subst s3 out o3. clear Ef.
      destruct (write_file_frame _ _ _ _ _ _ _ Ew) as [[g [Hg _]] _]. rewrite Hg.
      assert (Hok: rec_ok true st (OBuildFile p c f sa skw bsubs sv (cmp_of c g) false false) = true).
      { apply bf_rec_okH; assumption. }
      split; [|split; [intros x Hx; inversion Hx; subst; exact Hok|exact Hold2]].
      destruct HT2 as [T1 T2]. split.
      + intros q x Hin. cbn [ks_with k_newF] in Hin. apply in_app_iff in Hin.
        destruct Hin as [Hin|[Hin|[]]]; [apply (T1 q x Hin)|]. inversion Hin; subst.
        apply (rec_ok_weaken true _ st []); [intros t []|exact Hok].
      + exact T2.
  Qed.

  Lemma core_sb_node_rkH : forall st f a kw body s s1 r o,
    (forall sa skw rec, sanitize a = Some sa -> sanitize kw = Some skw ->
       subs_get (c_subs old) (subbuild_key f sa skw) = Some (Some rec) ->
       forall x t, In x (flat_map tgts (op_subs rec)) -> In t st -> crossb x t = true) ->
    (forall sa skw, kbody_okH st (body sa skw)) ->
    k_old s = old -> KTabH s ->
    core_sb_node f a kw body s = (s1, (r, o)) ->
    KTabH s1 /\ (forall x, o = Some x -> rec_ok true st x = true) /\ k_old s1 = old.
  Proof.
    intros st f a kw body s s1 r o Hap Hbody Hold HT H. unfold core_sb_node in H.
    destruct (sanitize a) as [sa|] eqn:Sa; [|inversion H; subst; split; [exact HT|split; [discriminate|exact Hold]]].
    destruct (sanitize kw) as [skw|] eqn:Sk; [|inversion H; subst; split; [exact HT|split; [discriminate|exact Hold]]].
    cbv zeta in H.
    destruct (existsb (py_eq (subbuild_key f sa skw)) (k_claimedS s)).
    { inversion H; subst. split; [exact HT|]. split; [|exact Hold]. intros x Hx. inversion Hx; subst. reflexivity. }
    destruct (core_subhit s f (subbuild_key f sa skw)) as [[[subs' ret'] rr]|] eqn:Eh.
    - inversion H; subst s1 r o. clear H.
      assert (Hsubs: forallb (rec_ok true st) subs' = true).
      { unfold core_subhit in Eh. rewrite Hold in Eh.
        destruct (subs_get (c_subs old) (subbuild_key f sa skw)) as [[[q0 r0 e0|p' c' f' a' k' sb' rt' cr' ra' sf'|f0 a0 k0 sb0 r0 ra0 sf0]|]|] eqn:Eg; try discriminate.
        destruct ra0; [discriminate|]. destruct (negb (kversion_equal s f)); [discriminate|].
        destruct (kreplay_list s sb0 (start_replay s)) as [r1|]; [|discriminate].
        inversion Eh; subst subs' ret' rr.
        pose proof (proj2 Hclass _ f0 a0 k0 sb0 r0 sf0 Eg) as K.
        rewrite forallb_forall in K. apply forallb_forall. intros x Hx. apply (rec_ok_extend true x [] st (K x Hx)).
        intros t Ht. right. intros a1 Ha. apply (Hap sa skw _ eq_refl eq_refl Eg a1 t); [|exact Ht].
        cbn [op_subs]. apply in_flat_map. exists x. split; assumption. }
      set (o := OSubbuild f sa skw subs' ret' false false).
      assert (Ho: rec_ok true st o = true) by exact Hsubs.
      destruct (rec_ok_regs true o st Ho) as [R1 R2].
      split; [|split; [intros x Hx; inversion Hx; subst; exact Ho|exact Hold]].
      destruct HT as [T1 T2]. split.
      + intros q x Hin. change (k_newF (adopt s rr o)) with (k_newF s ++ fst (tree_regs o)) in Hin.
        apply in_app_iff in Hin. destruct Hin as [Hin|Hin]; [apply (T1 q x Hin)|apply (R1 q x Hin)].
      + intros q x Hin. change (k_newS (adopt s rr o)) with (k_newS s ++ snd (tree_regs o)) in Hin.
        apply in_app_iff in Hin. destruct Hin as [Hin|Hin]; [apply (T2 q x Hin)|apply (R2 q x Hin)].
    - destruct (body sa skw (core_substart s f sa skw)) as [s2 [[res pd] bsubs]] eqn:Eb.
      inversion H; subst s1 r o. clear H.
      destruct (Hbody sa skw (core_substart s f sa skw) s2 res pd bsubs Hold HT Eb) as (HT2 & Hb & Hold2).
      assert (Ho: rec_ok true st (sub_rec f sa skw bsubs res) = true).
      { unfold sub_rec. destruct res as [v|e]; [destruct (sanitize v)|]; exact Hb. }
      split; [|split; [intros x Hx; inversion Hx; subst; exact Ho|exact Hold2]].
      destruct HT2 as [T1 T2]. split; [exact T1|].
      intros q x Hin. cbn [core_subreg ks_with k_newS] in Hin. apply in_app_iff in Hin.
      destruct Hin as [Hin|[Hin|[]]]; [apply (T2 q x Hin)|]. inversion Hin; subst.
      apply (rec_ok_weaken true _ st []); [intros t []|exact Ho].
  Qed.

  Theorem core_run_rkH : forall pr st, RkOkH old st pr ->
    forall tg pend subs s s' out pend' l',
      k_old s = old -> KTabH s -> forallb (rec_ok true st) subs = true ->
      core_run pr tg pend subs s = (s', (out, pend', l')) ->
      KTabH s' /\ forallb (rec_ok true st) l' = true /\ k_old s' = old.
  Proof.
    intros pr st Hok.
    induction Hok as [st v | st e | st sl q k Hq Hk IH | st c k Hk IH | st sl p c f a kw fn k Htg Hnr Hcr Hap Hfn IHfn Hk IHk
                      | st sl f a kw fn k Hap Hfn IHfn Hk IHk];
      intros tg pend subs s s' out pend' l' Hold HT Hs H.
    - cbn [core_run] in H. inversion H; subst. auto.
    - cbn [core_run] in H. inversion H; subst. auto.
    - rewrite core_run_Ask in H. destruct sl; [eapply IH; eauto|]. cbv zeta in H.
      assert (Hrec: rec_ok true st (record_of q (record_answer (k_fs s) q)) = true).
      { unfold record_of. destruct (record_answer (k_fs s) q); exact Hq. }
      assert (Hs2: forallb (rec_ok true st) (subs ++ [record_of q (record_answer (k_fs s) q)]) = true).
      { rewrite forallb_app, Hs. cbn [forallb]. rewrite Hrec. reflexivity. }
      destruct (spec_answer (k_fs s) q) as [v|c0].
      + apply (IH (inl v) tg pend _ (klog (LAnswer q (inl v)) s) s' out pend' l' Hold HT Hs2 H).
      + apply (IH (inr (XOS c0)) tg pend _ (klog (LAnswer q (inr c0)) s) s' out pend' l' Hold HT Hs2 H).
    - rewrite core_run_Write in H. destruct tg as [p|]; [|eapply IH; eauto].
      destruct (path_ok p); [|inversion H; subst; auto].
      refine (IH (Some p) (Some c) subs _ s' out pend' l' _ _ Hs H); [exact Hold|exact HT].
    - destruct sl; [cbn [core_run] in H; eapply IHk; eauto|].
      rewrite core_run_BF_node in H.
      destruct (core_bf_node p c f a kw (fun sa skw => core_run (fn p sa skw) (Some p) None []) s) as [s1 [r o]] eqn:E.
      assert (Hb: forall sa skw, kbody_okH (p :: st) (fun s0 => core_run (fn p sa skw) (Some p) None [] s0)).
      { intros sa skw s0 s2 res pd l Ho0 HT0 Eb. apply (IHfn p sa skw (Some p) None [] s0 s2 res pd l Ho0 HT0 eq_refl Eb). }
      destruct (core_bf_node_rkH st p c f a kw _ s s1 r o Htg Hnr Hcr Hap Hb Hold HT E) as (HT1 & Ho & Hold1).
      apply (IHk r tg pend (Core.app_op subs o) s1 s' out pend' l' Hold1 HT1); [|exact H].
      apply forallb_app_opH; assumption.
    - destruct sl; [cbn [core_run] in H; eapply IHk; eauto|].
      rewrite core_run_SB_node in H.
      destruct (core_sb_node f a kw (fun sa skw => core_run (fn sa skw) None None []) s) as [s1 [r o]] eqn:E.
      assert (Hb: forall sa skw, kbody_okH st (fun s0 => core_run (fn sa skw) None None [] s0)).
      { intros sa skw s0 s2 res pd l Ho0 HT0 Eb. apply (IHfn sa skw None None [] s0 s2 res pd l Ho0 HT0 eq_refl Eb). }
      destruct (core_sb_node_rkH st f a kw _ s s1 r o Hap Hb Hold HT E) as (HT1 & Ho & Hold1).
      apply (IHk r tg pend (Core.app_op subs o) s1 s' out pend' l' Hold1 HT1); [|exact H].
      apply forallb_app_opH; assumption.
  Qed.
End CoreRk.

Print Assumptions core_run_rkH.
