(* Proofs/SimO2.v — C05 (unchanged rebuild) transferred to the MECHANISM model, part 2.
   1. The theorems of SimO1 with the link between the mechanism's start (tree, previous cache) and what
      the committed Core build left made a hypothesis on Core alone (CoreSame: core_build gives the same
      outcome, log and tree on both): mech_rebuild_runs_no_function_gen, mech_rebuild_tree_identical_gen.
      SimO1's theorems are the case  w_fs w = next_fs cf s1,  old = cache_of_state nm0 s1.
   2. What is OPEN for a genuine mechanism history (second m_build on the world the first m_build left):
      core_build_invariance_statement.  The tree the mechanism leaves differs from next_fs at the cache
      file (real JSON instead of the marker; list representation), the cache it reads back has the same
      records as cache_of_state but in another ORDER of c_files (checked below, genuine_differs);
      CoreRebuild8.KM fixes k_old = cache_of_state literally, so rebuild_hits_all does not apply as is.
   3. The hypotheses are satisfiable (all of them, discharged for a concrete program with a subbuild,
      nested build_file calls, METADATA and HASH comparisons and reads):
        rebuild_constructed / rebuild_constructed_tree : SimO1's theorems, world built from next_fs;
        rebuild_genuine / rebuild_genuine_tree : the _gen theorems on the GENUINE history (world left by
          the mechanism's own first build, cache read back from its cache file), CoreSame by evaluation;
        observed_* : what evaluation gives, for comparison. *)
From Coq Require Import List String Ascii NArith ZArith Bool Arith Lia.
From FB.Base Require Import PyVal Fs.
From FB.Gen Require Import JsonUtilGen.
From FB.Spec Require Import JsonSpec Prog Ref Oracle Faithful.
From FB.Model Require Import Types Monad CreatedFiles BuildDirs SimpleOps Builder Persist Build Run Frame Dsl Core CoreOracle CoreCache.
From FB.Proofs Require Import FsLemmas CleanLaws ViewDefs ViewLemmas ViewInit ViewR2 ViewR3 ViewK2 ViewK3 ViewK4 ViewK8 HashMemoInv SimA0 SimC0 SimC12 SimG5 SimJ4 SimJ9
     CoreRebuildDefs CoreRebuildEx CoreRebuildInst CoreRebuildMain SimO1.
Import ListNotations.
Open Scope string_scope.
Open Scope list_scope.

(* ------------------------------------------------------------------ 1. the link as a hypothesis on Core *)
Definition CoreSame (a b : core_result) : Prop :=
  cr_outcome a = cr_outcome b /\ cr_log a = cr_log b /\ leq (cr_tree a) (cr_tree b).

Section RebuildGen.
  Variables (fs : fsT) (cf : path) (old0 : cache) (svers : pyval) (clock nextid : N) (root : prog) (v : pyval) (s1 : kstate).
  Let cr1 := core_build fs cf old0 svers clock nextid root.
  Hypothesis Hout : cr_outcome cr1 = inl v.
  Hypothesis Hst : cr_state cr1 = Some s1.
  Hypothesis Hwf : fs_wf fs.
  Hypothesis Hcfd : isdir fs cf = false.
  Hypothesis Hvs : sanitized svers = true.
  Hypothesis Hcl : records_clean s1 = true.
  Hypothesis Hdi : records_distinct s1 = true.
  Hypothesis Hnf : no_foreign_targets fs cf old0 s1.
  Variables (w : world) (old : cache) (nm0 nm : string) (w1 w2 : world) (r : outcome) (l : list op).
  Hypothesis Hsame : CoreSame (core_build (w_fs w) cf old svers (w_clock w) (w_nextid w) root)
                              (core_build (next_fs cf s1) cf (cache_of_state nm0 s1) svers (w_clock w) (w_nextid w) root).
  Hypothesis Hmech : MechBuildHyps w cf old nm svers root w1 w2 r l.

  Theorem mech_rebuild_runs_no_function_gen :
    r = inl v /\
    exists answers,
      vis_log (w_log w2) = rev (LInvoke "<root>" None PNone PNone :: answers) ++ vis_log (w_log w1) /\
      forallb is_answer answers = true.
  Proof.
    destruct (mech_hyps_agree _ _ _ _ _ _ _ _ _ _ Hmech) as (A & B & _).
    destruct Hsame as (S1 & S2 & _). rewrite S1 in A. rewrite S2 in B.
    destruct (rebuild_hits_all fs cf old0 svers clock nextid root nm0 v s1 (w_clock w) (w_nextid w) Hout Hst Hwf Hcfd Hvs Hcl Hdi Hnf)
      as (C & _ & _).
    destruct (rebuild_runs_nothing fs cf old0 svers clock nextid root nm0 v s1 (w_clock w) (w_nextid w) Hout Hst Hwf Hcfd Hvs Hcl Hdi Hnf)
      as (answers & D & E).
    split; [rewrite <- A; exact C|].
    exists answers. split; [|exact E]. rewrite B, D. reflexivity.
  Qed.

  Theorem mech_rebuild_tree_identical_gen : FilesOld (cr_tree cr1) (w_clock w) ->
    forall p, lookup (view_fs w2) p = lookup (cr_tree cr1) p.
  Proof.
    intros Hold p.
    destruct (mech_hyps_agree _ _ _ _ _ _ _ _ _ _ Hmech) as (_ & _ & W' & I1 & I2 & I3).
    destruct Hsame as (_ & _ & S3).
    destruct (rebuild_hits_all fs cf old0 svers clock nextid root nm0 v s1 (w_clock w) (w_nextid w) Hout Hst Hwf Hcfd Hvs Hcl Hdi Hnf)
      as (_ & _ & T).
    specialize (I2 p). specialize (I3 p). rewrite (S3 p), (T p) in I2, I3. fold cr1 in I2, I3.
    destruct (mem_path p W') eqn:E; [|exact I2].
    destruct (lookup (cr_tree cr1) p) as [[f|]|] eqn:El.
    - pose proof (I3 f eq_refl eq_refl) as K. pose proof (Hold p f El) as K2. exfalso. apply (N.lt_irrefl (w_clock w)).
      eapply N.lt_le_trans; eassumption.
    - unfold node_equiv in I2. destruct (lookup (view_fs w2) p) as [[g|]|]; try contradiction. reflexivity.
    - unfold node_equiv in I2. destruct (lookup (view_fs w2) p) as [[g|]|]; try contradiction. reflexivity.
  Qed.
End RebuildGen.

(* ------------------------------------------------------------------ 2. open *)
(* Core does not look at the node of the cache file nor at the order of the entries of the previous cache:
   NOT proved (would give CoreSame for every genuine history from SimH's description of the committed cache) *)
Definition core_build_invariance_statement : Prop :=
  forall fsA fsB cf oldA oldB vers clock nextid root,
    (forall p, p <> cf -> lookup fsA p = lookup fsB p) -> isfile fsA cf = true -> isfile fsB cf = true ->
    NoDup (map fst (c_files oldA)) -> NoDup (map fst (c_files oldB)) ->
    (forall p, cache_get_file oldA p = cache_get_file oldB p) ->
    (forall k, subs_get (c_subs oldA) k = subs_get (c_subs oldB) k) ->
    c_dirs oldA = c_dirs oldB -> c_fvers oldA = c_fvers oldB ->
    CoreSame (core_build fsA cf oldA vers clock nextid root) (core_build fsB cf oldB vers clock nextid root).

(* ------------------------------------------------------------------ 3. checkers for the hypotheses on concrete data *)
Lemma files_get_In1 : forall l p v, files_get l p = Some v -> In (p, v) l.
Proof.
  induction l as [|[q o] l IH]; intros p v H; cbn [files_get] in H; [discriminate|].
  destruct (path_eqb q p) eqn:E.
  - apply path_eqb_eq in E. subst q. inversion H. left. reflexivity.
  - right. apply IH. exact H.
Qed.

Lemma subs_get_In1 : forall l k v, subs_get l k = Some v -> exists q, In (q, v) l.
Proof.
  induction l as [|[q o] l IH]; intros k v H; cbn [subs_get] in H; [discriminate|].
  destruct (py_eq q k).
  - inversion H. exists q. left. reflexivity.
  - destruct (IH k v H) as [q' Hq]. exists q'. right. exact Hq.
Qed.

Definition old_keys_okb (c : cache) : bool :=
  forallb (fun e => match snd e with Some (OBuildFile p' _ _ _ _ _ _ _ _ _) => path_eqb p' (fst e) | _ => true end) (c_files c).

Lemma old_keys_okb_sound : forall c, old_keys_okb c = true -> old_keys_ok c.
Proof.
  intros c H p p' cm f a k subs r cr ra sf Hg. unfold cache_get_file in Hg.
  destruct (files_get (c_files c) p) as [o|] eqn:E; [|discriminate]. subst o.
  apply files_get_In1 in E. unfold old_keys_okb in H. rewrite forallb_forall in H. specialize (H _ E). cbn in H.
  apply path_eqb_eq in H. exact H.
Qed.

Definition WfCacheb (c : cache) : bool :=
  forallb (fun e => match snd e with Some rec => wfrec rec | None => true end) (c_files c) &&
  forallb (fun e => match snd e with Some rec => wfrec rec | None => true end) (c_subs c).

Lemma WfCacheb_sound : forall c, WfCacheb c = true -> WfCache c.
Proof.
  intros c H. unfold WfCacheb in H. apply andb_true_iff in H. destruct H as [H1 H2]. rewrite forallb_forall in H1, H2. split.
  - intros p rec Hg. unfold cache_get_file in Hg. destruct (files_get (c_files c) p) as [o|] eqn:E; [|discriminate]. subst o.
    apply files_get_In1 in E. specialize (H1 _ E). exact H1.
  - intros k rec Hg. destruct (subs_get_In1 _ _ _ Hg) as [q Hq]. specialize (H2 _ Hq). exact H2.
Qed.

(* only for caches that recorded no directory *)
Definition old_okb (c : cache) : bool :=
  distinct_paths (map fst (c_files c)) && match c_dirs c with [] => true | _ => false end.

Lemma distinct_paths_NoDup : forall l, distinct_paths l = true -> NoDup l.
Proof.
  induction l as [|p l IH]; intro H; [constructor|]. cbn [distinct_paths] in H. apply andb_true_iff in H. destruct H as [H1 H2].
  constructor; [|apply IH; exact H2]. intro Hin. apply (ViewLemmas.mem_path_In p l) in Hin. rewrite Hin in H1. discriminate.
Qed.

Lemma old_okb_sound : forall c cf, old_okb c = true -> old_ok c cf.
Proof.
  intros c cf H. unfold old_okb in H. apply andb_true_iff in H. destruct H as [H1 H2].
  destruct (c_dirs c) eqn:E; [|discriminate]. constructor.
  - apply distinct_paths_NoDup. exact H1.
  - rewrite E. intros [].
  - rewrite E. intros a d _ [].
Qed.

Definition fnode_eqb (f g : fnode) : bool :=
  String.eqb (f_bytes f) (f_bytes g) && N.eqb (f_mtime f) (f_mtime g) && N.eqb (f_id f) (f_id g) &&
  match f_json f, f_json g with None, None => true | _, _ => false end.

Lemma fnode_eqb_sound : forall f g, fnode_eqb f g = true -> f = g.
Proof.
  intros [b1 m1 i1 j1] [b2 m2 i2 j2] H. unfold fnode_eqb in H. cbn in H.
  apply andb_true_iff in H. destruct H as [H H4]. apply andb_true_iff in H. destruct H as [H H3].
  apply andb_true_iff in H. destruct H as [H1 H2].
  apply String.eqb_eq in H1. apply N.eqb_eq in H2. apply N.eqb_eq in H3. subst.
  destruct j1, j2; try discriminate. reflexivity.
Qed.

Definition onode_eqb (a b : option node) : bool :=
  match a, b with
  | None, None => true
  | Some NDir, Some NDir => true
  | Some (NFile f), Some (NFile g) => fnode_eqb f g
  | _, _ => false
  end.

Definition leqb (a b : fsT) : bool := forallb (fun p => onode_eqb (lookup a p) (lookup b p)) (support a ++ support b).

Lemma raw_lookup_notin : forall fs q, ~ In q (support fs) -> raw_lookup fs q = None.
Proof.
  induction fs as [|[k n] fs IH]; intros q H; [reflexivity|]. cbn [raw_lookup].
  destruct (path_eqb k q) eqn:E.
  - apply path_eqb_eq in E. subst k. exfalso. apply H. left. reflexivity.
  - apply IH. intro K. apply H. right. exact K.
Qed.

Lemma leqb_sound : forall a b, leqb a b = true -> leq a b.
Proof.
  intros a b H p. destruct p as [|x p]; [reflexivity|].
  destruct (mem_path (x :: p) (support a ++ support b)) eqn:M.
  - apply ViewLemmas.mem_path_In in M. unfold leqb in H. rewrite forallb_forall in H. specialize (H _ M).
    unfold onode_eqb in H. destruct (lookup a (x :: p)) as [[f|]|], (lookup b (x :: p)) as [[g|]|]; try discriminate; try reflexivity.
    apply fnode_eqb_sound in H. subst. reflexivity.
  - assert (Hn : ~ In (x :: p) (support a ++ support b)).
    { intro K. apply ViewLemmas.mem_path_In in K. rewrite K in M. discriminate. }
    unfold lookup. rewrite (raw_lookup_notin a), (raw_lookup_notin b); [reflexivity| |]; intro K; apply Hn; apply in_or_app; auto.
Qed.

Definition FilesOldb (t : fsT) (c : N) : bool :=
  forallb (fun p => match lookup t p with Some (NFile f) => N.leb (f_mtime f) c | _ => true end) (support t).

Lemma FilesOldb_sound : forall t c, FilesOldb t c = true -> FilesOld t c.
Proof.
  intros t c H p f Hl. destruct p as [|x p]; [discriminate|].
  assert (Hin : In (x :: p) (support t)).
  { unfold lookup in Hl. destruct (CleanLaws.raw_lookup_in _ _ _ Hl) as [e [He1 He2]]. unfold support. rewrite <- He2. apply in_map. exact He1. }
  unfold FilesOldb in H. rewrite forallb_forall in H. specialize (H _ Hin). rewrite Hl in H. apply N.leb_le. exact H.
Qed.

Lemma psuffix_len : forall x p, psuffix x p -> List.length x < List.length p.
Proof. intros x p [n [l E]]. subst p. cbn [app List.length]. rewrite app_length. lia. Qed.

Lemma MechBuildHyps_intro : forall w cachefile old nm svers root w1 w2 r l,
  okcH (w_clock w) old -> fs_wf (w_fs w) -> old_ok old cachefile -> WfCache old -> old_keys_ok old -> w_faults w = [] ->
  path_ok (dirname cachefile) = true -> isdir (w_fs w) cachefile = false -> maxlen (w_fs w) < walk_fuel ->
  vdir (Build.start_world w cachefile old nm svers) (dirname cachefile) = true ->
  AllTargets tgtP root -> NoNest [] root -> QueriesOkP root -> WfArgs root ->
  TargetsClear old root -> TargetsApart old root ->
  make_dirs (dirname cachefile) (Build.start_world w cachefile old nm svers) = (w1, inl []) ->
  run root None [] (set_log (LInvoke "<root>" None PNone PNone :: w_log w1) w1) = (w2, (r, l)) ->
  MechBuildHyps w cachefile old nm svers root w1 w2 r l.
Proof.
  intros w cachefile old nm svers root w1 w2 r l H1 H2 H3 H4 H5 H6 H7 H8 H9 H10 H11 H12 H13 H14 H15 H16 H17 H18.
  exact (conj H1 (conj H2 (conj H3 (conj H4 (conj H5 (conj H6 (conj H7 (conj H8 (conj H9 (conj H10 (conj H11 (conj H12
        (conj H13 (conj H14 (conj H15 (conj H16 (conj H17 H18))))))))))))))))).
Qed.

(* ------------------------------------------------------------------ the program *)
Module Inst.
  Definition CF : path := ["cache"].
  Definition SV : pyval := PDict [].

  (* "compile": read the source (comparison mode m), write it with a mark; the output is compared by m *)
  Definition cc (m : cmpmode) (src obj : path) (k : outcome -> prog) : prog :=
    BuildFile false obj m "cc" (PStr "x") PNone
      (fun _ _ _ => Ask false (QRead src m)
         (fun o => match o with inl (PStr b) => Write (b ++ "!")%string (Ret PNone) | _ => Raise (XUser 1) end)) k.

  (* "link": read the two objects, outputs of this build, one by METADATA and one by HASH *)
  Definition ld (k : outcome -> prog) : prog :=
    BuildFile false ["prog"] METADATA "ld" PNone PNone
      (fun _ _ _ => Ask false (QRead ["a.o"] METADATA)
         (fun o1 => Ask false (QRead ["b.o"] HASH)
            (fun o2 => match o1, o2 with
                       | inl (PStr x), inl (PStr y) => Write (x ++ y)%string (Ret (PStr "linked"))
                       | _, _ => Raise (XUser 2)
                       end))) k.

  Definition root : prog :=
    Subbuild false "all" (PList [PInt 1]) (PDict [])
      (fun _ _ => cc METADATA ["a.c"] ["a.o"] (fun _ => cc HASH ["b.c"] ["b.o"] (fun _ => Ask false (QIsDir ["obj"]) (fun _ => Ret PNone))))
      (fun _ => ld (fun o => match o with inl v => Ret v | inr e => Raise e end)).

  Ltac prog_tac :=
    repeat (first [ progress intros
                  | match goal with |- context [match ?o with _ => _ end] => is_var o; destruct o end
                  | constructor ]).

  Lemma root_targets : AllTargets tgtP root.
  Proof. unfold root, cc, ld. prog_tac. Qed.
  Lemma root_nonest : NoNest [] root.
  Proof. unfold root, cc, ld. prog_tac. all: cbn [In] in *; contradiction. Qed.
  Lemma root_queries : QueriesOkP root.
  Proof. unfold root, cc, ld. prog_tac. Qed.
  Lemma root_args : WfArgs root.
  Proof. unfold root, cc, ld. prog_tac. Qed.

  (* targets are single names: they are neither above nor below the files a cache with such outputs lists *)
  Definition flat_outputs (c : cache) : bool := forallb (fun a => Nat.eqb (List.length a) 1) (cache_created_files c).

  Lemma root_clear : forall c, flat_outputs c = true -> TargetsClear c root.
  Proof.
    intros c H. unfold flat_outputs in H. rewrite forallb_forall in H.
    unfold TargetsClear, root, cc, ld. prog_tac.
    all: match goal with Ha : In _ (cache_created_files _) |- ~ psuffix _ _ =>
           let Hs := fresh "Hs" in intro Hs; apply psuffix_len in Hs; apply H in Ha; apply Nat.eqb_eq in Ha; cbn [List.length] in Hs; lia end.
  Qed.
  Lemma root_apart : forall c, flat_outputs c = true -> TargetsApart c root.
  Proof.
    intros c H. unfold flat_outputs in H. rewrite forallb_forall in H.
    unfold TargetsApart, root, cc, ld. prog_tac.
    all: match goal with Ha : In _ (cache_created_files _) |- ~ psuffix _ _ =>
           let Hs := fresh "Hs" in intro Hs; apply psuffix_len in Hs; apply H in Ha; apply Nat.eqb_eq in Ha; cbn [List.length] in Hs; lia end.
  Qed.

  (* ---------------------------------------------------------------- the first build, by Core *)
  Definition w0 : world := fold_left apply_fsop [FWrite ["a.c"] "int a;"; FWrite ["b.c"] "int b;"] init_world.
  Definition old0 : cache := empty_cache "n" SV.
  Definition cr1 : core_result := core_build (w_fs w0) CF old0 SV (w_clock w0) (w_nextid w0) root.
  Definition s1 : kstate := st_of cr1.

  Lemma c_out : cr_outcome (core_build (w_fs w0) CF old0 SV (w_clock w0) (w_nextid w0) root) = inl (PStr "linked").
  Proof. vm_compute. reflexivity. Qed.
  Lemma c_st : cr_state (core_build (w_fs w0) CF old0 SV (w_clock w0) (w_nextid w0) root) = Some s1.
  Proof. vm_compute. reflexivity. Qed.
  Lemma c_wf : fs_wf (w_fs w0).
  Proof. apply wf_b_sound. vm_compute. reflexivity. Qed.
  Lemma c_cfd : isdir (w_fs w0) CF = false.
  Proof. vm_compute. reflexivity. Qed.
  Lemma c_vs : sanitized SV = true.
  Proof. vm_compute. reflexivity. Qed.
  Lemma c_cl : records_clean s1 = true.
  Proof. vm_compute. reflexivity. Qed.
  Lemma c_di : records_distinct s1 = true.
  Proof. vm_compute. reflexivity. Qed.
  Lemma c_nf : no_foreign_targets (w_fs w0) CF old0 s1.
  Proof. apply nft_of_bool. vm_compute. reflexivity. Qed.

  (* ---------------------------------------------------------------- a second build by the mechanism, from world w with previous cache old *)
  Definition w1_of (w : world) (old : cache) : world := fst (make_dirs (dirname CF) (Build.start_world w CF old "n" SV)).
  Definition rr_of (w : world) (old : cache) :=
    run root None [] (set_log (LInvoke "<root>" None PNone PNone :: w_log (w1_of w old)) (w1_of w old)).
  Definition w2_of (w : world) (old : cache) : world := fst (rr_of w old).
  Definition r_of (w : world) (old : cache) : outcome := fst (snd (rr_of w old)).
  Definition l_of (w : world) (old : cache) : list op := snd (snd (rr_of w old)).

  Lemma run_eq : forall w old,
    run root None [] (set_log (LInvoke "<root>" None PNone PNone :: w_log (w1_of w old)) (w1_of w old)) =
    (w2_of w old, (r_of w old, l_of w old)).
  Proof. intros w old. unfold w2_of, r_of, l_of. fold (rr_of w old). destruct (rr_of w old) as [a [b c]]. reflexivity. Qed.

  (* all decidable hypotheses of build_agree_hash at once *)
  Definition mech_checks (w : world) (old : cache) : bool :=
    okcHb (w_clock w) old && wf_b (w_fs w) && old_okb old && WfCacheb old && old_keys_okb old &&
    match w_faults w with [] => true | _ => false end &&
    path_ok (dirname CF) && negb (isdir (w_fs w) CF) && Nat.ltb (maxlen (w_fs w)) walk_fuel &&
    vdir (Build.start_world w CF old "n" SV) (dirname CF) && flat_outputs old &&
    match snd (make_dirs (dirname CF) (Build.start_world w CF old "n" SV)) with inl [] => true | _ => false end.

  Lemma mech_checks_sound : forall w old, mech_checks w old = true ->
    MechBuildHyps w CF old "n" SV root (w1_of w old) (w2_of w old) (r_of w old) (l_of w old).
  Proof.
    intros w old H. unfold mech_checks in H.
    repeat (apply andb_true_iff in H; let K := fresh "K" in destruct H as [H K]).
    apply MechBuildHyps_intro.
    - apply okcHb_sound. unfold okcHb. apply andb_true_iff. split; assumption.
    - apply wf_b_sound. assumption.
    - apply old_okb_sound. assumption.
    - apply WfCacheb_sound. assumption.
    - apply old_keys_okb_sound. assumption.
    - destruct (w_faults w); [reflexivity|discriminate].
    - assumption.
    - apply negb_true_iff. assumption.
    - apply Nat.ltb_lt. assumption.
    - assumption.
    - exact root_targets.
    - exact root_nonest.
    - exact root_queries.
    - exact root_args.
    - apply root_clear. assumption.
    - apply root_apart. assumption.
    - unfold w1_of. destruct (make_dirs (dirname CF) (Build.start_world w CF old "n" SV)) as [wa [[|x y]|e]]; try discriminate. reflexivity.
    - apply run_eq.
  Qed.

  (* ---------------------------------------------------------------- (a) the world made of what Core left *)
  Definition old : cache := cache_of_state "n" s1.
  Definition w : world := set_fs (next_fs CF s1) (set_clock 100 100 w0).

  Lemma a_checks : mech_checks w old = true.
  Proof. vm_compute. reflexivity. Qed.
  Lemma a_old : FilesOld (cr_tree (core_build (w_fs w0) CF old0 SV (w_clock w0) (w_nextid w0) root)) (w_clock w).
  Proof. apply FilesOldb_sound. vm_compute. reflexivity. Qed.

  Example rebuild_constructed :
    r_of w old = inl (PStr "linked") /\
    exists answers,
      vis_log (w_log (w2_of w old)) = rev (LInvoke "<root>" None PNone PNone :: answers) ++ vis_log (w_log (w1_of w old)) /\
      forallb is_answer answers = true.
  Proof.
    exact (mech_rebuild_runs_no_function _ _ _ _ _ _ _ _ _ c_out c_st c_wf c_cfd c_vs c_cl c_di c_nf
             w "n" "n" _ _ _ _ eq_refl (mech_checks_sound w old a_checks)).
  Qed.

  Example rebuild_constructed_tree : forall p, lookup (view_fs (w2_of w old)) p = lookup (cr_tree cr1) p.
  Proof.
    exact (mech_rebuild_tree_identical _ _ _ _ _ _ _ _ _ c_out c_st c_wf c_cfd c_vs c_cl c_di c_nf
             w "n" "n" _ _ _ _ eq_refl (mech_checks_sound w old a_checks) a_old).
  Qed.

  (* ---------------------------------------------------------------- (b) the genuine history: the mechanism's own first build *)
  Definition wm : world := fst (run_build CF "n" SV root w0).
  Definition oldm : cache := old_cache_of (w_fs wm) CF "n" SV.

  (* neither the tree nor the cache are those of SimO1's hypotheses ... *)
  Example genuine_differs :
    (leqb (w_fs wm) (next_fs CF s1), map fst (c_files oldm), map fst (c_files old)) =
    (false, [["prog"]; ["a.o"]; ["b.o"]], [["a.o"]; ["b.o"]; ["prog"]]).
  Proof. vm_compute. reflexivity. Qed.

  (* ... but Core does the same on both *)
  Lemma b_same : CoreSame (core_build (w_fs wm) CF oldm SV (w_clock wm) (w_nextid wm) root)
                          (core_build (next_fs CF s1) CF (cache_of_state "n" s1) SV (w_clock wm) (w_nextid wm) root).
  Proof.
    split; [vm_compute; reflexivity|]. split; [vm_compute; reflexivity|].
    apply leqb_sound. vm_compute. reflexivity.
  Qed.
  Lemma b_checks : mech_checks wm oldm = true.
  Proof. vm_compute. reflexivity. Qed.
  Lemma b_old : FilesOld (cr_tree (core_build (w_fs w0) CF old0 SV (w_clock w0) (w_nextid w0) root)) (w_clock wm).
  Proof. apply FilesOldb_sound. vm_compute. reflexivity. Qed.

  Example rebuild_genuine :
    r_of wm oldm = inl (PStr "linked") /\
    exists answers,
      vis_log (w_log (w2_of wm oldm)) = rev (LInvoke "<root>" None PNone PNone :: answers) ++ vis_log (w_log (w1_of wm oldm)) /\
      forallb is_answer answers = true.
  Proof.
    exact (mech_rebuild_runs_no_function_gen _ _ _ _ _ _ _ _ _ c_out c_st c_wf c_cfd c_vs c_cl c_di c_nf
             wm oldm "n" "n" _ _ _ _ b_same (mech_checks_sound wm oldm b_checks)).
  Qed.

  Example rebuild_genuine_tree : forall p, lookup (view_fs (w2_of wm oldm)) p = lookup (cr_tree cr1) p.
  Proof.
    exact (mech_rebuild_tree_identical_gen _ _ _ _ _ _ _ _ _ c_out c_st c_wf c_cfd c_vs c_cl c_di c_nf
             wm oldm "n" "n" _ _ _ _ b_same (mech_checks_sound wm oldm b_checks) b_old).
  Qed.

  (* ---------------------------------------------------------------- what evaluation gives *)
  Definition added (wa wb : world) : list logentry := firstn (List.length (vis_log (w_log wb)) - List.length (vis_log (w_log wa))) (vis_log (w_log wb)).

  Example observed_constructed :
    (r_of w old, added (w1_of w old) (w2_of w old), c_built (w_new (w2_of w old))) =
    (inl (PStr "linked"), [LInvoke "<root>" None PNone PNone], []).
  Proof. vm_compute. reflexivity. Qed.

  Example observed_genuine :
    (r_of wm oldm, added (w1_of wm oldm) (w2_of wm oldm), c_built (w_new (w2_of wm oldm))) =
    (inl (PStr "linked"), [LInvoke "<root>" None PNone PNone], []).
  Proof. vm_compute. reflexivity. Qed.

  (* the first build of the mechanism did run the four functions *)
  Example observed_first :
    List.length (filter is_invoke (vis_log (w_log (w2_of w0 old0)))) = 5.
  Proof. vm_compute. reflexivity. Qed.
End Inst.

Print Assumptions mech_rebuild_runs_no_function_gen.
Print Assumptions mech_rebuild_tree_identical_gen.
Print Assumptions Inst.rebuild_constructed.
Print Assumptions Inst.rebuild_constructed_tree.
Print Assumptions Inst.rebuild_genuine.
Print Assumptions Inst.rebuild_genuine_tree.
Print Assumptions Inst.observed_genuine.
