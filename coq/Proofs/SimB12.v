(* Proofs/SimB12.v — mechanism model vs Core, after a hit of build_file: the states are related
   again.  Mechanism: the lookup found a record; the comparison result of the file on disk is
   taken (noneable_cmp), the suboperations are adopted (_apply_cached_suboperations) and the
   record is registered (Cache._use_cached_operation).  Core: adopt the scratch copy, put the
   stale file back (SimB1.core_file_adopt).  Then Sim3 holds between the two final states, with
   the same record.  The part of Sim3 that speaks of the SUBBUILD key tables is a hypothesis
   (SubTables): SimB16.sub_tables derives it from three properties of py_eq on subbuild keys
   that are proved nowhere (SimB15.key_eq_props_statement, cf. ViewK8.key_eq_statement).    *)
From Coq Require Import List String Ascii NArith ZArith Bool Arith Lia.
From FB.Base Require Import PyVal Fs.
From FB.Gen Require Import JsonUtilGen.
From FB.Spec Require Import Prog Ref Oracle Faithful.
From FB.Model Require Import Types Monad CreatedFiles BuildDirs SimpleOps Builder Persist Core.
From FB.Proofs Require Import FsLemmas CleanLaws JsonLaws CoreLawsChildren ReplayLaws BuildFileLaws CoreLaws1 CoreLaws3 CoreLaws4 CoreLaws5
     CoreRebuild1 CoreNextRegs
     ViewDefs ViewLemmas ViewScan ViewQueries ViewAnswers ViewPres ViewFrame ViewXDefs ViewXQuery ViewXSteps ViewXMake1 ViewXFail ViewXSetup
     ViewOverlay ViewOverlay2 ViewH1 ViewH2 ViewH4 ViewH5 ViewH6 ViewH7 ViewR2 ViewR5 ViewK3 ViewK4 ViewK5
     SimB1 SimB2 SimB3 SimB4 SimB5 SimB6 SimB7 SimB8 SimB10 SimB11.
Import ListNotations.
Open Scope list_scope.
Open Scope m_scope.

Lemma rec_rel_refl : forall o, rec_rel o o.
Proof.
  induction o as [q r e|p c f a k subs r cr ra sf IH|f a k subs r ra sf IH] using op_ind'; cbn [rec_rel].
  - split; [reflexivity|]. split; [apply vr_eq|reflexivity].
  - repeat (split; [reflexivity|]). split; [|split; [reflexivity|split; [apply vr_eq|split; reflexivity]]].
    induction IH as [|x rest Hx Hrest IHl]; [exact I|]. split; [exact Hx|exact IHl].
  - repeat (split; [reflexivity|]). split; [|split; [reflexivity|split; reflexivity]].
    induction IH as [|x rest Hx Hrest IHl]; [exact I|]. split; [exact Hx|exact IHl].
Qed.

(* on a reusable tree: no node failed in setup, so the adopted targets are the targets that an
   accepted validation leaves started; the registered paths are unclaimed and are not the cache file *)
Lemma reusable_adp : forall fs new cfp o, reusable fs new cfp o = true -> adopted o = adp o.
Proof.
  intros fs new cfp. induction o as [q r e|p c f a k subs r cr ra sf IH|f a k subs r ra sf IH] using op_ind'; intro H; cbn [reusable adopted adp] in *.
  - reflexivity.
  - repeat (apply andb_true_iff in H; destruct H as [H ?]). apply negb_true_iff in H. subst sf. rewrite orb_false_r.
    f_equal. clear -IH H0. induction IH as [|x rest Hx Hrest IHl]; [reflexivity|]. cbn [forallb flat_map] in *.
    apply andb_true_iff in H0. destruct H0 as [A B]. rewrite (Hx A), (IHl B). reflexivity.
  - repeat (apply andb_true_iff in H; destruct H as [H ?]).
    clear -IH H0. induction IH as [|x rest Hx Hrest IHl]; [reflexivity|]. cbn [forallb flat_map] in *.
    apply andb_true_iff in H0. destruct H0 as [A B]. rewrite (Hx A), (IHl B). reflexivity.
Qed.

Lemma reusable_regp : forall fs new cfp o, reusable fs new cfp o = true ->
  forall a, In a (regp o) -> cache_has_file new a = false /\ path_eqb a cfp = false.
Proof.
  intros fs new cfp. induction o as [q r e|p c f a0 k subs r cr ra sf IH|f a0 k subs r ra sf IH] using op_ind'; intros H a Ha; cbn [reusable regp] in *.
  - destruct Ha.
  - repeat (apply andb_true_iff in H; destruct H as [H ?]). apply in_app_iff in Ha. destruct Ha as [Ha|Ha].
    + destruct sf; [destruct Ha|]. destruct Ha as [<-|[]]. split; apply negb_true_iff; assumption.
    + apply in_flat_map in Ha. destruct Ha as [sub [Hs Ha]]. rewrite Forall_forall in IH.
      rewrite forallb_forall in H0. apply (IH sub Hs (H0 sub Hs) a Ha).
  - repeat (apply andb_true_iff in H; destruct H as [H ?]).
    apply in_flat_map in Ha. destruct Ha as [sub [Hs Ha]]. rewrite Forall_forall in IH.
    rewrite forallb_forall in H0. apply (IH sub Hs (H0 sub Hs) a Ha).
Qed.

Lemma flat_map_ext_in : forall (f g : op -> list path) l, (forall x, In x l -> f x = g x) -> flat_map f l = flat_map g l.
Proof. intros f g l H. induction l as [|x l IH]; [reflexivity|]. cbn [flat_map]. rewrite (H x (or_introl eq_refl)), IH; [reflexivity|]. intros y Hy. apply H. right. exact Hy. Qed.

Lemma existsb_same_set : forall (f : path -> bool) a b, (forall t, In t a <-> In t b) -> existsb f a = existsb f b.
Proof.
  intros f a b H. destruct (existsb f a) eqn:E1; destruct (existsb f b) eqn:E2; try reflexivity.
  - apply existsb_exists in E1. destruct E1 as [t [Ht Hf]]. apply H in Ht.
    assert (existsb f b = true) by (apply existsb_exists; eauto). congruence.
  - apply existsb_exists in E2. destruct E2 as [t [Ht Hf]]. apply H in Ht.
    assert (existsb f a = true) by (apply existsb_exists; eauto). congruence.
Qed.

Lemma lookup_some_shape : forall p f a k w w' co, build_file_cache_lookup p f a k w = (w', inl (Some co)) ->
  exists p' c' f' a' k' subs' r' cr' sf', co = OBuildFile p' c' f' a' k' subs' r' cr' false sf'.
Proof.
  intros p f a k w w' co H. unfold build_file_cache_lookup in H. apply bind_inv in H. unfold get in H.
  destruct H as [[w1 [w0 [E H]]]|[e [E _]]]; [|discriminate]. inversion E; subst w1 w0.
  destruct (cache_get_file (w_old w) p) as [[q r e|p' c' f' a' k' subs' r' cr' ra' sf'|f' a' k' subs' r' ra' sf']|] eqn:Eg;
    try (inversion H; fail).
  destruct ra'; [inversion H|]. destruct (negb (String.eqb f' f)); [inversion H|].
  apply bind_inv in H. destruct H as [[w1 [ve [Ev H]]]|[e [_ H]]]; [|discriminate].
  destruct (negb ve); [inversion H|].
  destruct (negb (is_equal a' a)); [inversion H|]. destruct (negb (is_equal k' k)); [inversion H|].
  apply bind_inv in H. destruct H as [[w2 [ok [Eo H]]]|[e [_ H]]]; [|discriminate].
  destruct (negb ok); [inversion H|].
  apply bind_inv in H. destruct H as [[w3 [rr [Es H]]]|[e [_ H]]]; [|discriminate].
  destruct rr as [b1 cf1]. cbn [fst] in H. destruct b1; inversion H. repeat eexists.
Qed.

Section FileHit.
  Variables (hk : bool) (W : list path) (w : world) (s : kstate).
  Hypothesis HS : Sim3 W w s.
  Hypothesis HWcl : forall p, mem_path p W = true -> cache_has_file (w_new w) p = true.
  Hypothesis Hml : maxlen (w_fs w) < walk_fuel.
  Hypothesis Hhk : hk = true -> hash_ok w.
  Hypothesis HSD1 : forall p, isdir (w_fs w) p = true -> visible w p = false -> mem_path p (k_staledirs s) = true.
  Hypothesis HSD2 : forall p, mem_path p (k_staledirs s) = true -> lexists (w_fs w) p = true.

  (* the subbuild key tables after the registration (see the head of the file) *)
  Definition SubTables (new' : cache) (s2 : kstate) : Prop :=
    (forall k, existsb (py_eq k) (k_claimedS s2) = cache_has_subbuild new' k) /\
    (forall k, match subs_get (c_subs new') k, ks_get (k_newS s2) k with
               | Some (Some o), Some o' => rec_rel o o'
               | Some None, None | None, None => True
               | _, _ => False
               end).

  Theorem file_hit_sim3 : forall T p c f sa skw wl rec wc cmp wa ra wf ru,
    RInv T w -> In p T -> isdir (w_fs w) (w_cachefile w) = false ->
    KInv s (Some p) -> p <> [] -> path_ok p = true ->
    cache_has_file (w_new w) p = false -> path_eqb p (w_cachefile w) = false ->
    (forall rec, cache_get_file (w_old w) p = Some rec -> file_rec_ok hk W w s p rec /\ wfrec rec = true) ->
    (c = METADATA \/ hash_ok w) ->
    build_file_cache_lookup p f sa skw w = (wl, inl (Some rec)) ->
    noneable_cmp p c wl = (wc, inl cmp) ->
    apply_cached_subs_of rec wc = (wa, ra) ->
    let o := OBuildFile p c f sa skw (op_subs rec) (op_ret rec) cmp false false in
    new_use_cached_operation o wa = (wf, ru) ->
    exists g subs' ret' r,
      core_file_hit s p f sa skw = Some (g, subs', ret', r) /\ cmp = cmp_of c g /\ ra = inl tt /\ ru = inl tt /\
      snd (core_file_adopt s p c f sa skw g subs' ret' r) = o /\
      (SubTables (w_new wf) (fst (core_file_adopt s p c f sa skw g subs' ret' r)) ->
       Sim3 W wf (fst (core_file_adopt s p c f sa skw g subs' ret' r))).
  Proof.
    intros T p c f sa skw wl rec wc cmp wa ra wf ru HR HinT Hcfd HK Hne Hpok Hunc Hncf Hrec Hc Hlook Hcmp Happ o Hreg.
    pose proof (RInv_X _ _ HR) as HX. pose proof (x_binv _ _ HX) as HB.
    (* 1. the lookup on both sides *)
    destruct (file_lookup_agree hk W w s HS HB HWcl Hml Hhk HSD1 HSD2 p f sa skw wl (inl (Some rec)) HK Hne Hpok Hunc Hncf
                (fun rc E => proj1 (Hrec rc E)) Hlook) as (Gl & P).
    destruct (core_file_hit s p f sa skw) as [[[[g subs'] ret'] r]|] eqn:Ehit; [|discriminate].
    destruct P as (rec0 & cf & Tl & M & Erec & Eget & Esubs & Eret & Eg & RR & TlR & TlA).
    inversion Erec; subst rec0. clear Erec.
    exists g, subs', ret', r. split; [reflexivity|].
    destruct (Hrec _ Eget) as [Hrok Hwf].
    (* 2. the comparison result *)
    pose proof (build_file_cache_lookup_q _ _ _ _ _ _ _ Hlook) as Ql. pose proof (qrel_RInv _ _ _ Ql HR) as HRl.
    destruct (qrel_at _ _ Ql) as (Fl & Nl & Cl & Ol).
    pose proof (noneable_cmp_q _ _ _ _ _ Hcmp) as Qc. pose proof (qrel_RInv _ _ _ Qc HRl) as HRc.
    destruct (qrel_at _ _ Qc) as (Fc & Nc & Cc & Oc).
    assert (Ecmp: cmp = cmp_of c g).
    { destruct (noneable_cmp_spec wl p c (good_BInv _ _ Gl) Hpok) as [w' [E' _]].
      - destruct Hc as [Hc|Hc]; [left; exact Hc|right]. destruct Gl as (_ & _ & Gh). apply Gh. exact Hc.
      - rewrite E' in Hcmp. inversion Hcmp. unfold disk_cmp. rewrite Fl, Eg. reflexivity. }
    split; [exact Ecmp|].
    (* 3. the adoption *)
    assert (Hreu: forallb (reusable (w_fs w) (w_new w) (w_cachefile w)) (op_subs rec) = true).
    { apply (lookup_found _ _ _ _ _ _ _ Hlook). intros rc E. apply wfrec_goodrec. apply (proj2 (Hrec rc E)). }
    assert (Hwfs: forallb wfrec (op_subs rec) = true).
    { destruct rec as [q0 r0 e0|p' c' f' a' k' sb' rt' cr' ra' sf'|f0 a0 k0 sb0 r0 ra0 sf0]; cbn [op_subs wfrec] in *; try reflexivity.
      - apply andb_true_iff in Hwf. apply Hwf.
      - exact Hwf. }
    assert (Hat: at0 (w_fs w) (w_new w) (w_cachefile w) wc) by (repeat split; congruence).
    destruct (apply_cached_view (w_fs w) (w_new w) (w_cachefile w) Hcfd rec T wc wa ra Hreu Hwfs HRc Hat Happ)
      as ((Era & Fa & Na & Oa & Ca & T' & HRa & Msub & Ladopt) & Va).
    split; [exact Era|].
    (* 4. the registration *)
    assert (HinT': In p T') by (apply (msub_in _ _ _ Msub); exact HinT).
    destruct (use_cached_ok T' wa p c f sa skw (op_subs rec) (op_ret rec) cmp HRa HinT') as (w1 & Eu & HR1).
    { congruence. }
    { rewrite Fa, Na, Ca, Fc, Nc, Cc, Fl, Nl, Cl. exact Hreu. }
    { exact Ladopt. }
    fold o in Eu. rewrite Eu in Hreg. inversion Hreg; subst w1 ru. clear Hreg.
    split; [reflexivity|].
    assert (Ewf: wf = set_new (register_op (w_new wa) o) wa).
    { unfold new_use_cached_operation, bind, get, put in Eu. destruct (assert_no_repeats (w_new wa) o); inversion Eu; reflexivity. }
    split; [unfold core_file_adopt, o; cbn [snd]; rewrite Ecmp, Esubs, Eret; reflexivity|].
    intro HST.
    (* facts about the registered paths *)
    assert (Eo_regp: regp o = p :: flat_map regp (op_subs rec)) by reflexivity.
    assert (Hsub_regp: forall a, In a (flat_map regp (op_subs rec)) ->
              cache_has_file (w_new w) a = false /\ path_eqb a (w_cachefile w) = false /\
              (In a (flat_map adopted (op_subs rec)) \/ lexists (w_fs w) a = false)).
    { intros a Ha. apply in_flat_map in Ha. destruct Ha as [sub [Hs Ha]]. rewrite forallb_forall in Hreu.
      destruct (reusable_regp _ _ _ sub (Hreu sub Hs) a Ha) as [A B]. split; [exact A|]. split; [exact B|].
      destruct (regp_cases _ _ _ sub (Hreu sub Hs) a Ha) as [K|K]; [left; apply in_flat_map; eauto|right; exact K]. }
    assert (Eadp: flat_map adopted (op_subs rec) = flat_map adp (op_subs rec)).
    { apply flat_map_ext_in. intros x Hx. rewrite forallb_forall in Hreu. apply (reusable_adp _ _ _ x (Hreu x Hx)). }
    pose proof (rr_cc _ _ _ _ _ _ _ _ RR) as HCC. pose proof (cc_cinv _ _ _ HCC) as HCI.
    (* Tl and the adopted targets are the same set *)
    assert (Hset: forall t, In t Tl <-> In t (flat_map adopted (op_subs rec))).
    { intro t. split.
      - intro Ht. destruct (rr_st _ _ _ _ _ _ _ _ RR t Ht) as [[]|Kf].
        pose proof (ci_file _ _ HCI _ Kf) as Hfile.
        rewrite <- Esubs in TlR. destruct (Hsub_regp t (TlR t Ht)) as (_ & _ & [K|K]); [exact K|].
        unfold isfile in Hfile. unfold lexists in K. destruct (lookup (w_fs w) t); discriminate.
      - intro Ht. apply TlA. rewrite <- Esubs, <- Eadp. exact Ht. }
    assert (HTlfile: forall t, In t Tl -> mem_path t (cf_files cf) = true).
    { intros t Ht. destruct (rr_st _ _ _ _ _ _ _ _ RR t Ht) as [[]|Kf]. exact Kf. }
    assert (Hreg_in: forall a, In a (regp o) -> In a T' \/ isfile (w_fs wa) a = false).
    { intros a Ha. rewrite Eo_regp in Ha. destruct Ha as [<-|Ha]; [left; exact HinT'|].
      destruct (Hsub_regp a Ha) as (_ & _ & [K|K]); [left; apply Ladopt; exact K|right].
      rewrite Fa, Fc, Fl. unfold lexists in K. unfold isfile. destruct (lookup (w_fs w) a); [discriminate|reflexivity]. }
    assert (Hreg_cf: forall a, In a (regp o) -> path_eqb a (w_cachefile wa) = false).
    { intros a Ha. rewrite Ca, Cc, Cl. rewrite Eo_regp in Ha. destruct Ha as [<-|Ha]; [exact Hncf|apply (Hsub_regp a Ha)]. }
    pose proof (view_registered T' wa o (RInv_X _ _ HRa) Hreg_in Hreg_cf) as Vf. cbv zeta in Vf. rewrite <- Ewf in Vf.
    assert (Vc: forall a, lookup (view_fs wc) a = lookup (view_fs w) a).
    { intro a. destruct (qrel_facts _ _ _ HX Ql) as (HXl & Sl & _). destruct (qrel_facts _ _ _ HXl Qc) as (_ & Sc & _).
      rewrite (same_view_view_fs _ _ Sc), (same_view_view_fs _ _ Sl). reflexivity. }
    assert (Efs: w_fs wa = w_fs w) by congruence.
    assert (Enew: w_new wa = w_new w) by congruence.
    (* the final state of Core *)
    set (s2 := fst (core_file_adopt s p c f sa skw g subs' ret' r)) in *.
    assert (Es2fs: k_fs s2 = upd p (Some (NFile g)) (rp_fs r)) by reflexivity.
    assert (Eo': OBuildFile p c f sa skw subs' ret' (cmp_of c g) false false = o).
    { unfold o. rewrite Ecmp, Esubs, Eret. reflexivity. }
    assert (Es2cl: k_claimedF s2 = fst (tree_claims o) ++ k_claimedF s) by (unfold s2, core_file_adopt; rewrite Eo'; reflexivity).
    assert (Es2nf: k_newF s2 = k_newF s ++ fst (tree_regs o)) by (unfold s2, core_file_adopt; rewrite Eo'; reflexivity).
    assert (Es2st: k_stale s2 = stale_del (fold_left stale_del (tree_outputs o) (k_stale s)) p) by (unfold s2, core_file_adopt; rewrite Eo'; reflexivity).
    assert (Hndo: NoDup (fst (tree_claims o))).
    { rewrite <- regp_claims, Eo_regp.
      destruct (lookup_some_shape _ _ _ _ _ _ _ Hlook) as (p' & c' & f' & a' & k' & sb' & rt' & cr' & sf' & Eshape).
      rewrite Eshape in Hrok |- *. cbn [file_rec_ok op_subs] in Hrok |- *.
      destruct Hrok as (_ & _ & (_ & _ & Hnd & Hnp)). constructor; [|exact Hnd]. intro K. apply (Hnp p K). reflexivity. }
    constructor.
    - (* the trees *)
      intro a. rewrite (Vf a), Es2fs.
      pose proof (rr_tree _ _ _ _ _ _ _ _ RR a) as K. rewrite (lookup_overlay_ov _ _ _ a HCC) in K. unfold ov in K.
      destruct (list_eq_dec string_dec a p) as [->|Hap].
      + rewrite Eo_regp. cbn [mem_path]. rewrite path_eqb_refl. cbn [orb].
        assert (Hf: isfile (w_fs wa) p = true) by (rewrite Efs; unfold isfile; rewrite Eg; reflexivity).
        rewrite Hf. cbn [andb]. rewrite Efs, Eg, (lookup_upd_eq _ _ _ Hne), (unclaimed_notW W w HWcl p Hunc). reflexivity.
      + rewrite (lookup_upd_neq _ _ _ _ Hap). rewrite Eo_regp. cbn [mem_path].
        assert (Ep: path_eqb p a = false) by (apply path_eqb_neq; congruence). rewrite Ep. cbn [orb].
        rewrite (existsb_same_set (is_ancestor a) _ _ Hset) in K.
        destruct (mem_path a (flat_map regp (op_subs rec)) && isfile (w_fs wa) a) eqn:Ereg.
        * (* an adopted output: visible now, put in place by the scratch copy *)
          apply andb_true_iff in Ereg. destruct Ereg as [Er Ef]. apply mem_path_In in Er. rewrite Efs in Ef.
          destruct (Hsub_regp a Er) as (Ua & _ & [Ka|Ka]).
          2:{ unfold isfile in Ef. unfold lexists in Ka. destruct (lookup (w_fs w) a); discriminate. }
          pose proof (proj2 (Hset a) Ka) as HaTl. pose proof (HTlfile a HaTl) as Haf.
          assert (Hnd: existsb (is_ancestor a) (flat_map adopted (op_subs rec)) = false).
          { rewrite <- (existsb_same_set (is_ancestor a) _ _ Hset). rewrite <- (cf_dirs_anc _ _ _ a HCC). apply (ci_disj _ _ HCI _ Haf). }
          rewrite Hnd, Haf in K. rewrite (unclaimed_notW W w HWcl a Ua) in K |- *. rewrite Efs. exact K.
        * rewrite (Va a), (Vc a).
          destruct (existsb (is_ancestor a) (flat_map adopted (op_subs rec))); [exact K|].
          destruct (mem_path a (cf_files cf)) eqn:Eaf; [|exact K].
          (* a finished target is a registered path holding a file *)
          exfalso. pose proof (rr_files _ _ _ _ _ _ _ _ RR a Eaf) as HaTl.
          pose proof (ci_file _ _ HCI _ Eaf) as Hfa. rewrite <- Efs in Hfa. rewrite Hfa, andb_true_r in Ereg.
          rewrite <- Esubs in TlR. pose proof (TlR a HaTl) as Hr. apply mem_path_In in Hr. congruence.
    - rewrite Ewf. cbn [w_cachefile set_new]. rewrite Ca, Cc, Cl. apply (s3_cf _ _ _ HS).
    - rewrite Ewf. cbn [w_old set_new]. rewrite Oa, Oc, Ol. apply (s3_old _ _ _ HS).
    - intro fn. rewrite Ewf. cbn [w_new set_new]. unfold func_version. rewrite (proj1 (reg_fvers o (w_new wa))), Enew.
      apply (s3_vers _ _ _ HS fn).
    - intro q. rewrite Es2cl, mem_path_app, Ewf. cbn [w_new set_new]. rewrite reg_has_file, Enew, (s3_claimsF _ _ _ HS q). reflexivity.
    - apply (proj1 HST).
    - (* the log *)
      assert (L1: vis_log (w_log wl) = vis_log (w_log w)).
      { destruct Ql as (_ & _ & S0). destruct S0 as (_ & _ & _ & _ & _ & _ & _ & _ & A9 & _). rewrite A9. reflexivity. }
      assert (L2: vis_log (w_log wc) = vis_log (w_log wl)).
      { destruct Qc as (_ & _ & S0). destruct S0 as (_ & _ & _ & _ & _ & _ & _ & _ & A9 & _). rewrite A9. reflexivity. }
      pose proof (apply_cached_subs_of_vlog rec _ _ _ Happ) as L3. cbn in L3. unfold vlog in L3.
      pose proof (new_use_cached_operation_vlog o _ _ _ Eu) as L4.
      transitivity (vis_log (w_log w)); [congruence|]. apply (s3_log _ _ _ HS).
    - (* the records of files *)
      intro q. rewrite Es2nf, kf_get_app, Ewf. unfold cache_get_file. cbn [w_new set_new].
      rewrite (reg_files_all o (w_new wa) q Hndo), Enew.
      pose proof (s3_recF _ _ _ HS q) as Kq. unfold cache_get_file in Kq.
      destruct (kf_get (fst (tree_regs o)) q) as [x|] eqn:Ex.
      + (* a registered path was not claimed *)
        assert (Hq: In q (regp o)) by (rewrite regp_claims, <- regs_keysF; eapply kf_get_keys; exact Ex).
        assert (Huq: cache_has_file (w_new w) q = false).
        { rewrite Eo_regp in Hq. destruct Hq as [<-|Hq]; [exact Hunc|apply (Hsub_regp q Hq)]. }
        unfold cache_has_file in Huq. destruct (files_get (c_files (w_new w)) q); [discriminate|].
        destruct (kf_get (k_newF s) q); [contradiction|]. apply rec_rel_refl.
      + destruct (kf_get (k_newF s) q); exact Kq.
    - apply (proj2 HST).
    - (* the stale store *)
      intro q. rewrite Es2st, Ewf. cbn [w_fs w_old w_new set_new]. rewrite Oa, Oc, Ol, Efs, reg_has_file, Enew, <- regp_claims.
      pose proof (s3_stale _ _ _ HS q) as Kq.
      assert (Hout: forall a, In a (tree_outputs o) -> In a (regp o)).
      { intros a Ha. unfold o in Ha. cbn [tree_outputs app] in Ha. rewrite Eo_regp. destruct Ha as [<-|Ha]; [left; reflexivity|right].
        apply in_flat_map in Ha. destruct Ha as [sub [Hs Ha]]. rewrite outputs_adopted in Ha.
        rewrite forallb_forall in Hreu. rewrite (reusable_adp _ _ _ sub (Hreu sub Hs)) in Ha.
        apply in_flat_map. exists sub. split; [exact Hs|apply adp_regp; exact Ha]. }
      destruct (list_eq_dec string_dec q p) as [->|Hqp].
      + rewrite stale_del_same. rewrite Eo_regp. cbn [mem_path]. rewrite path_eqb_refl. cbn [orb negb].
        rewrite andb_false_r. destruct (lookup (w_fs w) p) as [[h|]|]; reflexivity.
      + rewrite (stale_del_other _ _ _ Hqp), stale_get_fold_del.
        destruct (mem_path q (tree_outputs o)) eqn:Eout.
        * apply mem_path_In in Eout. apply Hout in Eout. apply mem_path_In in Eout. rewrite Eout. cbn [orb negb].
          rewrite andb_false_r. destruct (lookup (w_fs w) q) as [[h|]|]; reflexivity.
        * rewrite Kq. destruct (mem_path q (regp o)) eqn:Er; cbn [orb]; [|reflexivity].
          (* registered, not an output: a failed record; nothing is on disk there *)
          apply mem_path_In in Er. rewrite Eo_regp in Er. destruct Er as [Er|Er]; [congruence|].
          destruct (Hsub_regp q Er) as (_ & _ & [Ka|Ka]).
          -- exfalso. assert (In q (tree_outputs o)).
             { unfold o. cbn [tree_outputs app]. right. apply in_flat_map in Ka. destruct Ka as [sub [Hs Ka]].
               apply in_flat_map. exists sub. split; [exact Hs|rewrite outputs_adopted; exact Ka]. }
             apply mem_path_In in H. congruence.
          -- unfold lexists in Ka. destruct (lookup (w_fs w) q); [discriminate|reflexivity].
  Qed.
End FileHit.

Print Assumptions file_hit_sim3.
